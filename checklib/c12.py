"""C12 — Compilation is total, effect-free and deterministic.
Proofs: lean/Props/C12.lean over lean/XrayModel/Lex.lean and lean/Generated/Rules.lean (regenerated on every
run from src/xray.pest and src/parser.rs by translate/rules.py).
Tie: (i) the lexical handlers (escapes, brace escapes, number literals, interner) model vs. implementation with
independent Python oracles; (ii) feed_file under catch_unwind on token soups, mutations/splices of the shipped
scripts and book examples, numeric spellings, bracket nesting to 64: no panic/abort/hang, the error renders, the
recording writer/clock/rng stay untouched; (iii) determinism: the same text compiled twice, after unrelated
compilations in the same process, and run under other limits gives the same acceptance / error text / values."""
import glob, re as _re, struct, sys
from .common import *

sys.path.insert(0, os.path.join(VERIF, "translate"))
import rules as _rules   # noqa: E402

_TRANSLATE_ERROR = None
_ROWS = []


import hashiter as _hashiter   # noqa: E402

_HASH_FOUND, _HASH_REVIEWED = [], {}


def translate():
    global _TRANSLATE_ERROR, _ROWS, _HASH_FOUND, _HASH_REVIEWED
    try:
        _ROWS = _rules.translate(REPO)
        _HASH_FOUND, _HASH_REVIEWED = _hashiter.translate(REPO)
    except _rules.TranslateError as e:
        _TRANSLATE_ERROR = str(e)


def cps(s):
    return ",".join(str(ord(c)) for c in s) if s else "_"


def L(s):
    return [ord(c) for c in s]


# ---------------------------------------------------------------- independent oracles

def py_escapes(s):
    """the documented escape rules, with Python's regex engine finding the escape sequences"""
    out, pos = [], 0
    for m in _re.finditer(r"\\(u\{.+?\}|.)", s):
        out.append(s[pos:m.start()])
        pos = m.end()
        g = m.group(1)
        if g.startswith("u{") and g.endswith("}") and len(g) > 2 and m.group(0) != "\\u":
            h = g[2:-1]
            if not _re.fullmatch(r"[a-fA-F0-9]{1,6}", h):
                return "error BadEscapeSequence"
            v = int(h, 16)
            if v > 0x10FFFF or 0xD800 <= v <= 0xDFFF:
                return "error BadEscapeSequence"
            out.append(chr(v))
        else:
            tbl = {"n": "\n", "t": "\t", "r": "\r", "0": "\0", "\\": "\\", '"': '"', "'": "'"}
            if g not in tbl:
                return "error BadEscapeSequence"
            out.append(tbl[g])
    out.append(s[pos:])
    return cps("".join(out))


def py_brace(s):
    return cps(_re.sub(r"(\{)\{|(\})\}", lambda m: m.group(1) or m.group(2), s))


def py_number(tok):
    """('int', v) | ('float', bits | None)"""
    t = tok.replace("_", "")
    if t.isdigit() and t.isascii():
        return ("int", int(t))
    if t.startswith("0x"):
        return ("int", int(t[2:], 16))
    if t.startswith("0b"):
        return ("int", int(t[2:], 2))
    try:
        f = float(t)
    except (ValueError, OverflowError):
        return ("float", None)
    if f in (float("inf"), float("-inf")):
        return ("float", None)      # beyond the double range: an error value (floats are always finite)
    return ("float", struct.unpack(">Q", struct.pack(">d", f))[0])


def gen_number(rng):
    k = rng.random()
    digs = lambda n, al="0123456789": "".join(rng.choice(al) for _ in range(n))
    us = lambda s: "".join(c + ("_" * rng.choice([0, 0, 0, 1, 2])) for c in s)
    if k < 0.3:
        n = rng.choice([1, 2, 5, 18, 19, 20, 38, 39, 40, 60, 100])
        return rng.choice("123456789") + us(digs(n - 1))
    if k < 0.4:
        return rng.choice(["0", "00", "007", "0_", "0__1", "9223372036854775807", "9223372036854775808",
                           "170141183460469231731687303715884105727", "170141183460469231731687303715884105728",
                           "340282366920938463463374607431768211456", "1" + "0" * 400])
    if k < 0.55:
        n = rng.choice([1, 2, 8, 15, 16, 17, 31, 32, 33, 40])
        return "0x" + "_" * rng.choice([0, 0, 1, 3]) + us(digs(n, "0123456789abcdefABCDEF"))
    if k < 0.65:
        n = rng.choice([1, 2, 8, 63, 64, 65, 127, 128, 129])
        return "0b" + "_" * rng.choice([0, 0, 1]) + us(digs(n, "01"))
    ip = rng.choice("0123456789") + us(digs(rng.choice([0, 1, 3, 20])))
    fr = ("." + rng.choice(["_", ""]) + us(digs(rng.choice([1, 2, 17, 30])))) if rng.random() < 0.7 else ""
    if fr == "._":
        fr = "._" + rng.choice(["", "5"])
    ex = (rng.choice("eE") + rng.choice(["", "-"]) + rng.choice("0123456789") + us(digs(rng.choice([0, 1, 2, 3])))) if rng.random() < 0.6 else ""
    return ip + fr + ex


# ---------------------------------------------------------------- text generators

TOKENS = ["let ", "fn ", "forward fn ", "struct ", "union ", "type ", "x", "y", "f", "T", "item0", "item1", "item01", "int", "str",
          "Sequence", "(", ")", "[", "]", "{", "}", "<", ">", ",", ";", ":", "::", "!:", "?:", "->", "=", "==", "?=", "+", "-", "*", "/",
          "**", "%", "&&", "||", "!", "&", "|", "^", ".", "$", "1", "0x1F", "0b1", "1.5", "1e5", "1_000", "0x_", "1e", "\"a\"", "'b'",
          "r\"c\"", "f\"{x}\"", "f\"{x:>3}\"", "#\"d\"#", "\"\\n\"", "\"\\q\"", "\"", "'", "#", "\\", "true", "false", "none()", " ", "\n",
          "//c\n", "/*c*/", "/*", "é", "😀", "\u0301", "\0", "if", "(x: int)->{x}", "fn f()->int{1}", "let a = 1;"]


def corpus():
    texts = []
    for p in sorted(glob.glob(os.path.join(REPO, "test_scripts", "*.xr"))):
        try:
            t = open(p, encoding="utf-8").read()
        except Exception:
            continue
        if len(t) < 3000:
            texts.append(t)
    for p in sorted(glob.glob(os.path.join(REPO, "book", "src", "**", "*.md"), recursive=True)):
        md = open(p, encoding="utf-8").read()
        for m in _re.finditer(r"```xray\n(.*?)```", md, _re.S):
            if len(m.group(1)) < 3000:
                texts.append(m.group(1))
    return texts


def mutate(rng, t, others):
    t = list(t)
    for _ in range(rng.choice([1, 1, 2, 3, 6])):
        if not t:
            break
        k = rng.random()
        i = rng.randrange(len(t))
        j = min(len(t), i + rng.choice([1, 1, 2, 5, 20]))
        if k < 0.25:
            del t[i:j]
        elif k < 0.5:
            t[i:i] = list(rng.choice(TOKENS))
        elif k < 0.65:
            t[i:j] = list(rng.choice(TOKENS))
        elif k < 0.8:
            t[i:i] = t[i:j]
        elif k < 0.9:
            o = rng.choice(others)
            a = rng.randrange(len(o) + 1)
            t[i:i] = list(o[a:a + rng.choice([5, 20, 80])])
        else:
            t[i] = rng.choice("()[]{}\"'#\\;:,.<>=+-*/!?$&|^%_0123456789aeéx\n ")
    if t and rng.random() < 0.08:
        # multi-byte padding inside a string literal, a comment, or bare
        pad = make_pad(rng, rng.choice([5, 40, 90, 118, 119, 120, 121, 130, 200, 250, 256, 300]))
        i = rng.randrange(len(t))
        t[i:i] = list(rng.choice(['"%s"', "/*%s*/", "%s", ' + "%s"', "//%s\n"]) % pad)
    return "".join(t)


def nest(rng, depth):
    op, cl = rng.choice([("(", ")"), ("[", "]"), ("f(", ")"), ("[", "][0]"), ("(", ",)"), ("{", "}"), ("f\"{", "}\""), ("g<", ">")])
    core = rng.choice(["1", "x", "\"s\"", ""])
    k = rng.random()
    if k < 0.5:
        body = op * depth + core + cl * depth
    elif k < 0.7:
        body = op * depth + core + cl * rng.randrange(depth)           # unbalanced
    elif k < 0.85:
        body = op * rng.randrange(depth) + core + cl * depth
    else:
        body = "".join(rng.choice(["(", "[", "f(", "{"]) for _ in range(depth)) + core
    if rng.random() < 0.3:
        # nestings inside types, parameter lists and lambdas
        d = depth
        t = rng.choice(["Sequence<", "(", "(int, ", "Optional<"])
        c = {"Sequence<": ">", "(": ")", "(int, ": ")", "Optional<": ">"}[t]
        close = c * (d if rng.random() < 0.6 else rng.randrange(d + 1))
        return rng.choice([f"let v: {t * d}int{close} = 1;", f"fn f(a: {t * d}int{close})->int{{1}}", f"struct A(a: {t * d}int{close})",
                           f"type T = {t * d}int{close};", "let v = " + "(a: int ?= " * d + "1" + ")->{a}" * (d if rng.random() < 0.6 else d // 2) + ";",
                           "let v = " + "(" * d + "1" + ",)" * d + ";", "let v = " + "g<" * d + "1" + ">" * rng.choice([0, d]) + ";"])
    return rng.choice(["let v = ", "fn f()->int{", "type T = ", ""]) + body + rng.choice([";", "}", ""])


VALS = {"int": ["7", "42"], "str": ['"seven"', '"x"'], "bool": ["true", "false"], "float": ["1.5", "2.25"]}


def gen_generic_program(rng):
    """a program around a user struct and a user union with 2-3 generic parameters, used with explicit, pairwise different
    generic arguments in let types, parameter and return types and nested positions; sometimes with a type error whose
    message prints such types, sometimes with several unimplemented forward functions"""
    k = rng.choice([2, 2, 3])
    gens = rng.sample(["K", "V", "W", "A", "B", "T", "U"], k)
    prims = rng.sample(["int", "str", "bool", "float"], k)
    fields = rng.sample(["key", "value", "extra", "first", "second", "third"], k)
    sname, uname = rng.choice(["Entry", "Pair", "Rec"]), rng.choice(["Either", "Choice", "Alt"])
    G = ", ".join(gens)
    P = ", ".join(prims)
    rev = list(reversed(prims))
    lines = [f"struct {sname}<{G}>(" + ", ".join(f"{f}: {g}" for f, g in zip(fields, gens)) + ")",
             f"union {uname}<{G}>(" + ", ".join(f"{f}: {g}" for f, g in zip(fields, gens)) + ")"]
    val = lambda t: rng.choice(VALS[t])
    args = ", ".join(val(t) for t in prims)
    lines.append(f"let e: {sname}<{P}> = {sname}({args});")
    lines.append(f"let u: {uname}<{P}> = {uname}::{fields[-1]}({val(prims[-1])});")
    lines.append(f"fn swap(x: {sname}<{P}>)->{sname}<{', '.join(rev)}>{{ {sname}(" + ", ".join(f"x::{f}" for f in reversed(fields)) + ") }")
    lines.append("let s = swap(e);")
    lines.append(f"fn pick(x: {uname}<{P}>)->Optional<{prims[0]}>{{ x?:{fields[0]} }}")
    lines.append("let p = pick(u);")
    inner = f"{sname}<{', '.join(rev)}>"
    nested_t = f"{sname}<{prims[0]}, " + ", ".join([f"Sequence<{inner}>"] + prims[2:]) + ">"
    inner_v = f"{sname}(" + ", ".join(val(t) for t in rev) + ")"
    lines.append(f"let n: {nested_t} = {sname}(" + ", ".join([val(prims[0]), f"[{inner_v}]"] + [val(t) for t in prims[2:]]) + ");")
    lines.append(f"let g0 = e::{fields[0]};")
    lines.append(f"let g1 = s::{fields[0]};")
    names = ["g0", "g1", "p"]
    kind = rng.random()
    if kind < 0.35:
        # a type error whose message prints the generic arguments
        wrong = ", ".join(val(t) for t in rev)
        bad = rng.choice([f"let w: {sname}<{P}> = {sname}({wrong});", f"let w = swap({sname}({wrong}));",
                          f"let w: {uname}<{P}> = {uname}::{fields[0]}({val(prims[1])});", f"let w: {inner} = e;",
                          f"let w = display(e);", f"let w: int = n;"])
        lines.insert(rng.randrange(4, len(lines) + 1), bad)
    elif kind < 0.5:
        fw = rng.sample(["fa", "fb", "fc", "fd"], rng.choice([2, 3]))
        lines += [f"forward fn {f}()->int;" for f in fw]
        lines.append("fn useall()->int{ " + " + ".join(f"{f}()" for f in fw) + " }")
        lines.append(rng.choice(["let z = useall();", "let z = ()->{ " + " + ".join(f"{f}()" for f in fw) + " };"]))
        lines += [f"fn {f}()->int{{1}}" for f in fw]
    return "\n".join(lines) + "\n", names


PAD_CHARS = ["a", "Z", " ", "\xe9", "\xdf", "\u65e5", "\u672c", "\u20ac", "\U0001D11E", "\U0001F600", "\u0301"]


def make_pad(rng, nbytes, style=None):
    """text of exactly `nbytes` UTF-8 bytes mixing 1-, 2-, 3- and 4-byte characters (no quotes, backslashes, braces)"""
    style = style or rng.choice(["mixed", "mixed", "2", "3", "4", "ascii-then-wide"])
    out, left = [], nbytes
    while left > 0:
        if style == "mixed":
            c = rng.choice(PAD_CHARS)
        elif style == "2":
            c = "\xe9"
        elif style == "3":
            c = "\u65e5"
        elif style == "4":
            c = "\U0001D11E"
        else:
            c = "a" if left > nbytes // 2 else rng.choice(PAD_CHARS[3:])
        b = len(c.encode("utf-8"))
        if b > left:
            c, b = "a", 1
        out.append(c)
        left -= b
    return "".join(out)


# (name, template): programs that are rejected with an error of a given class; {P}, {Q} are replaced by padding placed inside
# a string literal, {C} by padding inside a comment, {I} by an (ASCII-led) padding usable inside an expression as a comment
ERROR_TEMPLATES = [
    ("NoOverload", 'let v = "{P}" + 1;'),
    ("NoOverload-call", 'let v = len("{P}", 1, "{Q}");'),
    ("NoOverload-nested", 'let v = [("{P}", ["{Q}"])] + 1;'),
    ("VariableTypeMismatch", 'let v: int = "{P}";'),
    ("VariableTypeMismatch-seq", 'let v: Sequence<int> = ["{P}", "{Q}"];'),
    ("ValueNotFound", 'let v = missing_name + "{P}";'),
    ("ValueNotFound-comment", 'let v = /* {C} */ missing_name /* {C} */;'),
    ("TypeNotFound", 'let v: Nope = "{P}";'),
    ("BadEscapeSequence", 'let v = "{P}\\q{Q}";'),
    ("FunctionOutput", 'fn f()->int{{ "{P}" }}'),
    ("FunctionOutput-comment", 'fn f(a: int /* {C} */)->int{{ /* {C} */ "x" }}'),
    ("StructArg", 'struct A(x: int)\nlet v = A("{P}");'),
    ("MemberNotFound", 'struct A(x: str)\nlet v = A("{P}")::y;'),
    ("TupleIndex", 'let v = ("{P}", 1)::item5;'),
    ("NonCompound", 'let v = "{P}"::x;'),
    ("Ambiguous", 'fn f(x: str)->int{{1}}\nfn f(x: str)->int{{2}}\nlet v = f("{P}");'),
    ("Forward", 'forward fn fw()->int;\nlet v = fw() /* {C} */ + len("{P}");\nfn fw()->int{{1}}'),
    ("Lambda", 'let v = ((x: int)->{{ x + "{P}" }})(1);'),
    ("If", 'let v = if(true, "{P}", 1) + 1;'),
    ("FString", "let v = f'{P}{{1+\"{Q}\"}}';"),
    ("Raw", 'let v = r#"{P}"# + 1;'),
    ("Syntax-two-strings", 'let v = "{P}" "{Q}";'),
    ("Syntax-unclosed", 'let v = ("{P}", /* {C} */ ;'),
    ("DefaultType", 'fn f(a: int ?= "{P}")->int{{a}}'),
    ("UnionVariant", 'union U(a: int, b: str)\nlet v = U::a("{P}");'),
    ("Shadowing", 'struct A(x: int)\nlet A = "{P}";'),
]


def gen_error_text(rng, nbytes, template=None):
    """a rejected program whose offending span carries `nbytes` bytes of multi-byte padding, at the start / middle / end of
    the file, possibly over several lines (LF or CRLF) and with tabs"""
    name, t = template or rng.choice(ERROR_TEMPLATES)
    n1 = rng.randrange(nbytes + 1) if "{Q}" in t and rng.random() < 0.5 else nbytes
    p, q = make_pad(rng, n1), make_pad(rng, nbytes - n1)
    c = make_pad(rng, rng.choice([0, 3, nbytes // 2]))
    if rng.random() < 0.25:
        nl = rng.choice(["\n", "\r\n", "\n\t", " \t "])
        k = rng.randrange(len(p) + 1)
        p = p[:k] + nl + p[k:]
        c = c + nl + c
    body = t.replace("{P}", p).replace("{Q}", q).replace("{C}", c).replace("{{", "{").replace("}}", "}")
    if rng.random() < 0.2:
        body = body.replace("\n", "\r\n")
    before = "".join(rng.choice(["let a{0} = {0};\n", "// \u65e5\u672c {0}\n", "fn g{0}()->int{{{0}}}\n", "\t\n"]).format(i) for i in range(rng.choice([0, 0, 1, 3])))
    after = "".join("let b%d = %d;\n" % (i, i) for i in range(rng.choice([0, 0, 1, 2])))
    return name, before + rng.choice(["", " ", "\t", "\n"]) + body + rng.choice(["", "\n", "\r\n"]) + after


def settle(req, r, timeout=180.0):
    """a request answered `hang` under the batch timeout is re-run alone with a long timeout before it is believed (a loaded
    machine must not turn a slow answer into a finding)"""
    if isinstance(r, dict) and r.get("hang"):
        return run_harness([req], per_req_timeout=timeout, jobs=1)[0]
    return r


def run(chk):
    rng = chk.rng
    quick = chk.tier == "quick"
    chk.trusted += [
        "the pest-generated parser engine is not modelled (explored by the tie); translate/rules.py is trusted to read xray.pest and parser.rs (fails closed on anything it does not recognise)",
        "Python's re/int/float as independent oracles for the escape rules and numeric literals",
    ]
    if _TRANSLATE_ERROR:
        chk.violation("tie:translator:rules", "translate/rules.py no longer recognises the sources: " + _TRANSLATE_ERROR,
                      {"translator": "translate/rules.py", "error": _TRANSLATE_ERROR}, no_input=True)
    stages = {}
    t_stage = [time.time()]

    def stage(name):
        stages[name] = round(time.time() - t_stage[0], 1)
        t_stage[0] = time.time()
        chk.coverage["stage_seconds"] = stages
    new_sites = [k for k in _HASH_FOUND if k not in _HASH_REVIEWED]
    gone_sites = [k for k in _HASH_REVIEWED if k not in _HASH_FOUND]
    chk.coverage["hash_iteration_sites"] = {"found": len(_HASH_FOUND), "reviewed": len(_HASH_REVIEWED)}
    if (new_sites or gone_sites) and not _TRANSLATE_ERROR:
        chk.violation("tie:hash-iteration",
                      "the compile path iterates over a HashMap/HashSet at a site that is not in the reviewed table (iteration order is random per "
                      f"instance: a determinism hazard): new={new_sites} vanished={gone_sites}",
                      {"translator": "translate/hashiter.py", "new_sites": new_sites, "vanished_sites": gone_sites}, no_input=True)
    ok = chk.prove(extra_targets=["Generated.Rules", "Generated.HashIter"])
    if not ok:
        handle_broken(chk)
    stage("proofs+audit")
    chk.coverage["match_sites"] = [{"site": r[0], "required": len(r[1]), "arms": len(r[2]), "wildcard": r[3]} for r in _ROWS]

    # ================================================================== (i) lexical handlers
    esc_alpha = ["\\", "\\", "u", "{", "}", "}", "4", "1", "F", "f", "0", "g", "+", "n", "t", "r", "q", "\"", "'", "\n", "é", "😀", "D", "8", " ", "{{", "}}", "\\u{", "\\u{41}", "\\u{1F600}", "\\u{D800}", "\\u{110000}", "\\u{0000041}"]
    ecases = ["", "\\", "\\\\", "a\\", "\\u{}", "\\u{}}", "\\u{+41}", "\\u{41", "\\u{4\n1}", "\\\n", "\\u", "\\u{10FFFF}", "\\u{110000}", "\\u{d7ff}\\u{e000}", "\\u{DFFF}"]
    ecases += ["".join(rng.choice(esc_alpha) for _ in range(rng.choice([1, 2, 3, 5, 8, 12]))) for _ in range(1500 if quick else 20000)]
    for f, orc in (("escapes", py_escapes), ("brace", py_brace)):
        impl = run_harness([{"op": "lex", "f": f, "s": L(s)} for s in ecases])
        model = run_model([f"lex {f} {cps(s)}" for s in ecases])
        for s, ri, rm in zip(ecases, impl, model):
            chk.evaluations += 1
            chk.count("unit:" + f)
            got = "PANIC" if "panic" in ri else ri.get("r", json.dumps(ri))
            want = orc(s)
            if "\\" in s or "{" in s:
                chk.nontrivial.add((f, s))
            if got != want:
                chk.violation(f"unit:{f}:{'panic' if got == 'PANIC' else 'wrong'}", f"{f}({s!r}) = {ri.get('panic', got)}; the literal rules give {want}",
                              {"harness": {"op": "lex", "f": f, "s": L(s)}, "expected": want, "got": ri})
            elif rm != got:
                chk.violation(f"tie:unit:{f}", f"model disagrees with the implementation on {f}({s!r}): model={rm} impl={got}",
                              {"harness": {"op": "lex", "f": f, "s": L(s)}, "model": f"lex {f} {cps(s)}", "model_out": rm, "impl": got}, no_input=True)

    stage("escapes")
    # ---- interner: groups of spellings interned into one fresh interner
    def gen_name():
        k = rng.random()
        if k < 0.6:
            suffix = rng.choice(["", "a", "b", "_", "0", "x1"]) if rng.random() < 0.4 else ""
            num = rng.choice(["0", "1", "2", "01", "001", "00", "10", "65535", "65536", "65537", "70000", "4294967296",
                              "18446744073709551615", "18446744073709551616", "99999999999999999999999", str(rng.randrange(0, 300))])
            return rng.choice(["item", "item", "item", "Item", "items", "_item", "ite"]) + num + suffix
        return "".join(rng.choice("abitem_01") for _ in range(rng.choice([1, 2, 4, 6])))
    groups = [["item1a", "item1b", "item1", "item01", "item1a"], ["item99999999999999999999999", "item0", "item00"]]
    groups += [[gen_name() for _ in range(rng.choice([2, 4, 8]))] for _ in range(300 if quick else 4000)]
    groups = [[n for n in g if _re.fullmatch(r"[A-Za-z_][A-Za-z_0-9]*", n)] for g in groups]
    impl = run_harness([{"op": "lex", "f": "intern", "names": [L(n) for n in g]} for g in groups])
    flat = [n for g in groups for n in g]
    model = iter(run_model([f"lex intern {cps(n)}" for n in flat]))
    for g, ri in zip(groups, impl):
        chk.evaluations += 1
        chk.count("unit:intern")
        ms = [next(model) for _ in g]
        replay = {"harness": {"op": "lex", "f": "intern", "names": [L(n) for n in g]}, "names": g}
        if "r" not in ri:
            chk.violation("unit:intern:panic", f"interning {g} : {ri}", replay)
            continue
        kinds = [x.rsplit(" ", 1)[0] for x in ri["r"]]
        texts = [x.rsplit(" ", 1)[1] for x in ri["r"]]
        chk.nontrivial.add(tuple(g))
        bad = [(a, b) for i, a in enumerate(g) for j, b in enumerate(g) if i < j and (a == b) != (kinds[i] == kinds[j])]
        if bad or any(t != cps(n) for t, n in zip(texts, g)):
            chk.violation("unit:intern:alias", f"spellings {bad[:1] or g} intern to {list(zip(g, kinds))[:6]}: equal symbols must mean equal spellings, and a symbol resolves to its spelling", replay)
            continue
        # model: same item/regular split, same item index
        regs = {}
        mk = []
        for m in ms:
            kind, rest = m.split(" ", 1)
            if kind == "item":
                mk.append("item " + rest.split(" ")[0])
            else:
                sp = rest.split(" ")[0]
                mk.append(f"regular {regs.setdefault(sp, len(regs))}")
        if mk != kinds:
            chk.violation("tie:unit:intern", f"model disagrees with the implementation on interning {g}: model={mk} impl={kinds}", replay, no_input=True)

    stage("interner")
    # ---- number literals through the language
    toks = [gen_number(rng) for _ in range(600 if quick else 8000)]
    toks += ["0x" + "f" * 33, "1e999", "0x_1", "0b_1", "1_", "1__2", "1._5", "1e-0_0", "0e0", "9" * 39, "1.5e3", "1E5", "123456789012345678901234567890.5"]
    dumps = eval_exprs(toks)
    model = run_model([f"lex number {cps(t)}" for t in toks])
    for t, d, rm in zip(toks, dumps, model):
        chk.evaluations += 1
        kind, val = py_number(t)
        chk.count("number:" + kind)
        if "_" in t or len(t) > 19:
            chk.nontrivial.add(("number", t))
        replay = {"src": f"let r0 = {t};", "get": ["r0"], "got": d}
        m = _re.fullmatch(r"\(int [SL] (-?\d+)\)", d)
        if kind == "int":
            okv = bool(m) and int(m.group(1)) == val
        elif val is None:
            okv = d.startswith("(error ")
        else:
            okv = d == "(float %016x)" % val
        if not okv:
            k2 = "panic" if d.startswith("panic") else "wrong"
            chk.violation(f"lang:number:{k2}", f"the literal {t} evaluates to {d}; it denotes {kind} {val if kind == 'int' else (hex(val) if val is not None else 'out of range: an error value')}", replay)
            continue
        wantm = f"tok int {val}" if kind == "int" else "tok float"
        if rm != wantm:
            chk.violation("tie:lang:number", f"model disagrees with the implementation on the literal {t}: model={rm} impl={d}",
                          {"model": f"lex number {cps(t)}", "model_out": rm, "impl": d}, no_input=True)

    stage("numbers")
    # ================================================================== (ii) totality and purity of feed_file
    base = corpus()
    chk.coverage["corpus_texts"] = len(base)
    texts = []   # (kind, text)
    n_soup, n_mut, n_nest = (600, 1200, 300) if quick else (18000, 36000, 8000)
    for _ in range(n_soup):
        texts.append(("soup", "".join(rng.choice(TOKENS) + rng.choice(["", " "]) for _ in range(rng.choice([1, 2, 4, 8, 16, 40])))))
    for _ in range(n_mut):
        texts.append(("mutation", mutate(rng, rng.choice(base), base)))
    for _ in range(n_nest):
        texts.append(("nesting", nest(rng, rng.choice([1, 2, 3, 8, 16, 32, 63, 64]))))
    for t in toks[:200 if quick else 2000]:
        texts.append(("number", f"let a = {t}{rng.choice([';', '', 'x;', '.5;', '_;', 'e;'])}"))
    for t in rng.sample(base, 60 if quick else len(base)):
        texts.append(("shipped", t))
    # corpus: the inputs of the repaired defects (exponential parse, literal handlers, interner)
    for t in ["let v = " + "(" * 64 + "1;", "let v = " + "(" * 64 + "1" + ",)" * 64 + ";", "let v = " + 'f"{' * 40 + "1" + '}"' * 40 + ";",
              "let v: " + "(" * 64 + "int" + ")" * 64 + " = 1;", "let v: " + "Sequence<" * 64 + "int" + ">" * 64 + " = [];", "let v = " + "g<" * 64 + "1;",
              "let v = " + "(a: int ?= " * 40 + "1" + ")->{a}" * 40 + ";", "fn f(a: " + "Optional<" * 64 + "int" + ">" * 60 + ")->int{1}",
              "let a = 0x" + "f" * 33 + ";", "let a = 0x_;", "let a = 1e999;", "let item99999999999999999999999 = 1;", "let item1a=1; let item1b=2; let c=item1a;",
              "let s = '\\u{+41}';", "let s = 'it\\'s';", "fn f(a: int,)->int{a}"]:
        texts.append(("corpus", t))
    resps = run_harness([{"op": "lex", "f": "compile", "src": t} for _, t in texts], per_req_timeout=10.0)
    for (kind, t), r in zip(texts, resps):
        chk.evaluations += 1
        r = settle({"op": "lex", "f": "compile", "src": t}, r, 60.0)
        replay = {"harness": {"op": "lex", "f": "compile", "src": t}, "got": r}
        outcome = "panic" if "panic" in r else "abort" if "abort" in r else "hang" if "hang" in r else ("accept" if r.get("compile") == "ok" else "reject")
        chk.count(f"compile:{kind}:{outcome}")
        if kind != "shipped":
            chk.nontrivial.add(t)
        if outcome in ("panic", "abort", "hang"):
            where = _re.sub(r"^/repo/", "", str(r.get("panic", ""))).split(":")[0] if outcome == "panic" else ""
            chk.violation(f"total:{outcome}:{where or kind}", f"feed_file does not return on a {kind} text ({outcome}: {str(r.get(outcome))[:200]}): {t[:120]!r}", replay)
            continue
        if r.get("touches") != [0, 0, 0]:
            chk.violation("pure:touches", f"compiling touched the injected writer/clock/rng {r.get('touches')}: {t[:120]!r}", replay)
        if outcome == "reject" and not (isinstance(r["compile"], dict) and r["compile"].get("msg", "").strip()):
            chk.violation("total:error-does-not-render", f"the compilation error renders to nothing: {t[:120]!r}", replay)
    chk.sample({"compile": texts[0][1][:200]})
    chk.sample({"compile": texts[n_soup][1][:200]})

    stage("totality")
    # ================================================================== (ii-b) every error renders, whatever its span holds
    # rejected programs of every error class the generator can provoke, the offending span padded with 1-, 2-, 3- and 4-byte
    # characters to every byte length 0 .. 400 (any fixed truncation width falls inside a character for some case)
    rtexts = []
    per_len = 2 if quick else len(ERROR_TEMPLATES)
    for nbytes in range(0, 401):
        tps = rng.sample(ERROR_TEMPLATES, per_len) if quick else ERROR_TEMPLATES
        for tp in tps:
            rtexts.append(gen_error_text(rng, nbytes, tp))
    for tp in ERROR_TEMPLATES:          # every class at a few widths in every run
        for nbytes in (119, 121, 257):
            rtexts.append(gen_error_text(rng, nbytes, tp))
    rtexts.append(("NoOverload", 'let banner = "' + "\u98a8\u6797\u706b\u5c71: " + "\u75be\u304d\u3053\u3068\u98a8\u306e\u5982\u304f\u3001" * 6 + '" + 1;'))
    rresps = run_harness([{"op": "lex", "f": "render", "src": t} for _, t in rtexts], per_req_timeout=30.0)
    for (name, t), r in zip(rtexts, rresps):
        chk.evaluations += 1
        r = settle({"op": "lex", "f": "render", "src": t}, r)
        replay = {"harness": {"op": "lex", "f": "render", "src": t}, "got": r}
        if "first" not in r:
            kind = "panic" if "panic" in r else "abort" if "abort" in r else "hang"
            where = _re.sub(r"^.*?/src/", "src/", str(r.get("panic", ""))).split(":")[0] if kind == "panic" else ""
            chk.count(f"render:{name}:{kind}")
            chk.violation(f"total:render-{kind}:{where or name}",
                          f"a compilation error does not render to a message ({kind}: {str(r.get(kind))[:200]}) for a {name} program whose offending span is "
                          f"{len(t.encode('utf-8'))} bytes of multi-byte text: {t[:100]!r}", replay)
            continue
        first = r["first"]
        cls = "accept" if first == "ok" else (first["display"].rsplit("[", 1)[-1].rstrip("]") if first["display"].rstrip().endswith("]") else "Syntax")
        chk.count(f"render:{name}:{cls}")
        chk.nontrivial.add(t)
        if first != "ok":
            if not all(first.get(k, "").strip() for k in ("display", "debug", "alt", "unboxed", "to_string")):
                chk.violation("total:error-does-not-render", f"a rendering of the compilation error is empty for {t[:120]!r}", replay)
            if first["display"] != first["to_string"]:
                chk.violation("determinism:render", f"Display and to_string differ for {t[:120]!r}", replay)
        if not r["same"]:
            chk.violation("determinism:render", f"the same text renders its error differently in a second compilation: {t[:120]!r}", replay)
    chk.coverage["render_classes"] = sorted({k.split(":", 2)[2] for k in chk.counters if k.startswith("render:")})
    stage("render")

    # ================================================================== (iii) determinism
    dets = []
    progs = [t for t in base if "fn main" in t or "let " in t]
    for _ in range(250 if quick else 3000):
        t = rng.choice(progs) if rng.random() < 0.6 else mutate(rng, rng.choice(base), base)
        names = sorted(set(_re.findall(r"let ([a-z_][a-z_0-9]*)", t)))[:6]
        before = [rng.choice(base) for _ in range(rng.choice([0, 1, 3]))] + [mutate(rng, rng.choice(base), base)]
        dets.append({"op": "lex", "f": "determinism", "src": t, "before": before, "get": names})
    # ---- many fresh compilations of one text must give ONE outcome (order-of-iteration nondeterminism shows only in a
    # fraction of the compilations): generated programs around multi-parameter generic structs/unions, and a sample of the
    # determinism texts above
    n_rep = 16 if quick else 48
    reps = [gen_generic_program(rng) for _ in range(70 if quick else 1200)]
    reps += [("struct Entry<K, V>(key: K, value: V)\nlet e: Entry<int, str> = Entry(7, \"seven\");\nlet k = e::key;\n", ["k"]),
             ("forward fn a()->int;\nforward fn b()->int;\nfn g()->int{ a() + b() }\nlet x = g();\nfn a()->int{1}\nfn b()->int{2}\n", [])]
    for src, names in reps:
        dets.append({"op": "lex", "f": "determinism", "src": src, "before": [rng.choice(base)], "get": names})
    rep_reqs = [{"op": "lex", "f": "repeat", "src": src, "n": n_rep} for src, _ in reps]
    rep_reqs += [{"op": "lex", "f": "repeat", "src": q["src"], "n": 8 if quick else 16} for q in rng.sample(dets[:-len(reps)], min(len(dets) - len(reps), 40 if quick else 600))]
    for q, r in zip(rep_reqs, run_harness(rep_reqs, per_req_timeout=60.0)):
        chk.evaluations += 1
        r = settle(q, r, 600.0)
        replay = {"harness": q, "got": r}
        if "outcomes" not in r:
            kind = "panic" if "panic" in r else "abort" if "abort" in r else "hang"
            where = _re.sub(r"^/repo/", "", str(r.get("panic", ""))).split(":")[0] if kind == "panic" else ""
            chk.violation(f"total:{kind}:{where}", f"feed_file does not return ({kind}) on {q['src'][:120]!r}", replay)
            continue
        outs = r["outcomes"]
        chk.count("repeat:" + ("accept" if outs[0]["outcome"] == "ok" else "reject"))
        chk.nontrivial.add(q["src"])
        if len(outs) != 1:
            shown = "; ".join(f"{o['count']}x " + (o["outcome"] if o["outcome"] == "ok" else o["outcome"].get("msg", "?").replace("\n", " ")[:160]) for o in outs)
            chk.violation("determinism:repeat", f"{q['n']} compilations of the same text in fresh scopes gave {len(outs)} different outcomes ({shown}): {q['src'][:200]!r}", replay)
    stage("repeat")

    # witness of a repaired defect: the error text embedded a HashMap's (random) iteration order
    dets.append({"op": "lex", "f": "determinism", "before": [], "get": [],
                 "src": "struct Vector(x: float, y: float, z: float, w: float)\nfn main()->bool{\n let v = Vector(3.0,4.0,5.0,6.0);\n assert(v.display().to_str() == \"\")\n}"})
    resps = run_harness(dets, per_req_timeout=20.0)
    for q, r in zip(dets, resps):
        chk.evaluations += 1
        replay = {"harness": q, "got": r}
        if "first" not in r:
            kind = "panic" if "panic" in r else "abort" if "abort" in r else "hang"
            where = _re.sub(r"^/repo/", "", str(r.get("panic", ""))).split(":")[0] if kind == "panic" else ""
            chk.count("determinism:" + kind)
            # a panic while *running* the compiled program belongs to other properties; one while compiling is C12's
            c = run_harness([{"op": "lex", "f": "compile", "src": q["src"]}], per_req_timeout=20.0)[0]
            if "compile" not in c:
                chk.violation(f"total:{kind}:{where}", f"feed_file does not return ({kind}) on {q['src'][:120]!r}", replay)
            continue
        chk.count("determinism:" + ("accept" if r["first"].get("compile") == "ok" else "reject"))
        for other in ("again", "after", "limited"):
            a, b = r["first"], r[other]
            if other == "limited":
                # other limits: the compilation outcome is the same; the values are compared when both runs stayed inside their limits
                if a.get("compile") == b.get("compile") and (a.get("inst") != "ok" or b.get("inst") != "ok"):
                    continue
            if a != b:
                chk.violation(f"determinism:{other}", f"the same text gives a different outcome when compiled {other}: first={json.dumps(r['first'])[:200]} {other}={json.dumps(r[other])[:200]}", replay)

    stage("determinism")
    return chk.finish(rule="texts = token soups over the grammar's alphabet, mutations and splices of test_scripts/*.xr and the book's xray blocks, "
                           "bracket nestings up to depth 64 (balanced and not), numeric-literal spellings; escape/interner/number inputs over their own alphabets; "
                           "non-trivial = distinct generated (not shipped) inputs")


def replay(path):
    """re-run the input recorded in a replay file on the current tree and show what comes back"""
    rec = json.load(open(path))
    rp = rec.get("replay", {})
    if "harness" in rp:
        got = run_harness([rp["harness"]], per_req_timeout=30.0)[0]
        shown = got.get("r", got) if isinstance(got, dict) else got
    elif "src" in rp:
        got = run_harness([{"op": "run", "src": rp["src"], "get": rp.get("get", [])}], per_req_timeout=30.0)[0]
        shown = got.get("vals", got) if isinstance(got, dict) else got
    else:
        print("replay: nothing to run in", path, "(a broken proof obligation or correspondence, see 'what')")
        print(rec.get("what"))
        return 1
    print("key     :", rec.get("key"))
    print("what    :", rec.get("what"))
    print("expected:", rp.get("expected"))
    print("now     :", json.dumps(shown, ensure_ascii=False)[:2000])
    bad = isinstance(got, dict) and any(k in got for k in ("panic", "abort", "hang"))
    if isinstance(got, dict) and "first" in got:
        same = got["first"] == got["again"] == got["after"] and got["first"].get("compile") == got["limited"].get("compile")
        print("outcomes identical across repetitions:", same)
        bad = bad or not same
    return 1 if bad else 0
