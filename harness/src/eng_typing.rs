//! op "typing": what the real compiler says about types.
//!   {"op":"typing","f":"sigs","names":[..]}            -> {"sigs": {name: ["<T>(Sequence<T>, int?)->T", "dyn:..", ..]}}
//!        signatures of the overloads the standard root scope exports under each candidate name
//!        (names that are not functions are left out)
//!   {"op":"typing","f":"types","src":..,"names":[..]}  -> {"compile": "ok" | {class,msg}, "types": {name: "<static type>"}}
//!        static type the compiler assigned to each top-level name of the program
//!   {"op":"typing","f":"run", ..run request.., "types":[..]} -> the answer of op "run" plus "types"
//!        (one request = accept/reject, the run under the requested limits, and the static types)

use crate::run::{compile, op_run, R, T, W};
use serde_json::{json, Map, Value};
use xray::builtin::verif_hooks::typing as hooks;
use xray::root_compilation_scope::RootCompilationScope;
use xray::std_compilation_scope;

fn names_of(req: &Value, key: &str) -> Vec<String> {
    req.get(key)
        .and_then(|x| x.as_array())
        .map(|a| {
            a.iter()
                .filter_map(|n| n.as_str().map(|s| s.to_string()))
                .collect()
        })
        .unwrap_or_default()
}

fn types_of(comp: &RootCompilationScope<W, R, T>, names: &[String]) -> Value {
    let mut m = Map::new();
    for n in names {
        m.insert(n.clone(), json!(hooks::static_type(comp, n)));
    }
    Value::Object(m)
}

pub fn op(req: &Value) -> Value {
    match req["f"].as_str().unwrap_or("") {
        "sigs" => {
            let comp: RootCompilationScope<W, R, T> = std_compilation_scope();
            let mut m = Map::new();
            for n in names_of(req, "names") {
                let s = hooks::signatures(&comp, &n);
                if !s.is_empty() {
                    m.insert(n, json!(s));
                }
            }
            json!({ "sigs": m })
        }
        "types" => {
            let src = req["src"].as_str().unwrap_or("");
            match compile(src) {
                Ok(comp) => json!({"compile": "ok", "types": types_of(&comp, &names_of(req, "names"))}),
                Err(e) => json!({ "compile": e }),
            }
        }
        "run" => {
            let mut resp = op_run(req);
            if resp.get("compile") == Some(&json!("ok")) {
                if let Ok(comp) = compile(req["src"].as_str().unwrap_or("")) {
                    let t = types_of(&comp, &names_of(req, "types"));
                    if let Some(o) = resp.as_object_mut() {
                        o.insert("types".into(), t);
                    }
                }
            }
            resp
        }
        _ => json!({"bad-op": true}),
    }
}
