//! op "str": `FencedString` driven directly through the hook wrappers, plus the escape handlers.
//! Strings travel as arrays of code points.  A FencedString is shown as
//! `<code points>|<len>|<table length>|<probe>` where the table length is recovered from `size()` and the
//! probe is `substr(i, i+1)` for every `i < len` (`!` where that panics) — the char-start table is private,
//! this is what can be seen of it from outside.

use serde_json::{json, Value};
use std::panic::{catch_unwind, AssertUnwindSafe};
use xray::builtin::verif_hooks::fstring as hf;
use xray::builtin::verif_hooks::strs as hs;
use xray::util::fenced_string::FencedString;

fn text(v: &Value) -> String {
    v.as_array()
        .map(|a| {
            a.iter()
                .map(|c| char::from_u32(c.as_u64().unwrap_or(0) as u32).unwrap_or('?'))
                .collect()
        })
        .unwrap_or_default()
}

fn cps(s: &str) -> String {
    if s.is_empty() {
        "_".to_string()
    } else {
        s.chars()
            .map(|c| (c as u32).to_string())
            .collect::<Vec<_>>()
            .join(",")
    }
}

fn show(s: &FencedString) -> String {
    let len = hf::len(s);
    let empty = hf::size(&FencedString::default());
    let tablen = (hf::size(s) - empty - hs::bytes(s)) / std::mem::size_of::<usize>();
    let mut probe = Vec::new();
    for i in 0..len {
        match catch_unwind(AssertUnwindSafe(|| hf::substr(s, i, Some(i + 1)))) {
            Ok(t) => probe.push(cps(&t)),
            Err(_) => probe.push("!".to_string()),
        }
    }
    format!(
        "{}|{}|{}|{}",
        cps(hf::as_str(s)),
        len,
        tablen,
        if probe.is_empty() {
            "_".to_string()
        } else {
            probe.join(";")
        }
    )
}

fn opt(v: &Value) -> Option<usize> {
    v.as_u64().map(|x| x as usize)
}

pub fn op(req: &Value) -> Value {
    let f = req["f"].as_str().unwrap_or("");
    let s = || hf::from_string(text(&req["s"]));
    let t = || hf::from_string(text(&req["t"]));
    let a = || req["a"].as_u64().unwrap_or(0) as usize;
    let b = || opt(&req["b"]);
    let r: String = match f {
        "from" => show(&s()),
        "bytes" => {
            let x = text(&req["s"]);
            if x.is_empty() {
                "_".to_string()
            } else {
                x.bytes().map(|b| b.to_string()).collect::<Vec<_>>().join(",")
            }
        }
        "len" => hf::len(&s()).to_string(),
        "substring" => show(&hf::substring(&s(), a(), b())),
        "substr" => cps(&hf::substr(&s(), a(), b())),
        "push" => {
            let mut x = s();
            hf::push(&mut x, &t());
            show(&x)
        }
        "add" => show(&hs::add(&s(), &t())),
        "push_ascii" => {
            let mut x = s();
            hs::push_ascii(&mut x, &text(&req["t"]));
            show(&x)
        }
        "sub_push" => {
            let mut x = hf::substring(&s(), a(), b());
            hf::push(&mut x, &t());
            show(&x)
        }
        "push_sub" => {
            let x = hf::substring(&s(), a(), b());
            let mut y = t();
            hf::push(&mut y, &x);
            show(&y)
        }
        "sub_sub" => {
            let x = hf::substring(&s(), a(), b());
            show(&hf::substring(
                &x,
                req["c"].as_u64().unwrap_or(0) as usize,
                opt(&req["d"]),
            ))
        }
        "sub_len" => hf::len(&hf::substring(&s(), a(), b())).to_string(),
        // what the Rust standard library says about the case mapping (a parameter of the model)
        "stdcase" => {
            let x = text(&req["s"]);
            let (flag, mapped) = if req["upper"].as_bool() == Some(true) {
                (x.chars().all(char::is_uppercase), x.to_uppercase())
            } else {
                (x.chars().all(char::is_lowercase), x.to_lowercase())
            };
            return json!({"flag": flag, "mapped": cps(&mapped)});
        }
        "casemap" => {
            let x = s();
            let r = if req["upper"].as_bool() == Some(true) {
                hf::to_uppercase(&x)
            } else {
                hf::to_lowercase(&x)
            };
            match r {
                None => "same".to_string(),
                Some(r) => show(&r),
            }
        }
        "escapes" => match hs::apply_escapes(&text(&req["s"])) {
            Ok(r) => cps(&r),
            Err(_) => "error BadEscapeSequence".to_string(),
        },
        "brace" => cps(&hs::apply_brace_escape(&text(&req["s"]))),
        _ => return json!({"bad-op": true}),
    };
    json!({ "r": r })
}
