//! op "ty": `bind_in_assignment`, `common_type`, `==`, `is_unknown`, `XFuncSpec::bind`, `resolve_bind`
//! driven directly on types written in the prefix notation of the hooks (`verif_hooks/ty.rs`).
//! One request carries a prelude (struct/union definitions compiled with the real compiler on top of
//! the standard library, so natives and compound specs are the real ones) and many cases:
//!   {"op":"ty","prelude":"struct A(..) ..","cases":[["bind","n:Sequence:1 i n:Sequence:1 u"], ..]}
//! answer: {"rs":["some {}", ..]}; a case that panics is answered "panic <loc>".

use crate::run::{R, T, W};
use serde_json::{json, Value};
use std::panic::{catch_unwind, AssertUnwindSafe};
use xray::builtin::verif_hooks::ty as hooks;
use xray::root_compilation_scope::RootCompilationScope;
use xray::std_compilation_scope;

pub fn op(req: &Value) -> Value {
    let prelude = req["prelude"].as_str().unwrap_or("");
    let mut comp: RootCompilationScope<W, R, T> = std_compilation_scope();
    if let Err(e) = comp.feed_file(prelude) {
        return json!({ "prelude-error": format!("{e}") });
    }
    let empty = vec![];
    let cases = req["cases"].as_array().unwrap_or(&empty);
    let mut rs = Vec::with_capacity(cases.len());
    for c in cases {
        let f = c[0].as_str().unwrap_or("");
        let toks: Vec<&str> = c[1].as_str().unwrap_or("").split(' ').filter(|s| !s.is_empty()).collect();
        let r = catch_unwind(AssertUnwindSafe(|| hooks::ty_op(&comp, f, &toks)));
        rs.push(match r {
            Ok(s) => s,
            Err(_) => "panic".to_string(),
        });
    }
    json!({ "rs": rs })
}
