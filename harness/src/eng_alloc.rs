//! op "alloc": the accounting of a runtime driven directly (C09).
//!   {"op":"alloc","f":"trace","limit":L|null,"events":[["a",id,bytes],["d",id],["p",n],["e",id,bytes],["s",id,bytes]]}
//!     a = Runtime::allocate of `bytes` bytes (recorded size kept under `id`), d = deallocate/drop `id`,
//!     p = can_allocate(n), e = a managed error value with a message of `bytes` bytes, s = a managed string value
//!   answer: {"steps":[[outcome, size_after], …]}  outcome = "ok <recorded>" | "viol" | "noop"
//!   {"op":"alloc","f":"consts"}  -> the platform constants of the size model

use crate::doubles::{RecClock, RecRng, RecWriter};
use serde_json::{json, Value};
use std::any::Any;
use std::collections::HashMap;
use xray::builtin::verif_hooks as hooks;
use xray::builtin::verif_hooks::alloc as ha;
use xray::runtime::{RTCell, RuntimeLimits};

type RT = RTCell<RecWriter, RecRng, RecClock>;

enum Live {
    Recorded(usize),
    Value(Box<dyn Any>),
}

pub fn op(req: &Value) -> Value {
    let limits = RuntimeLimits {
        size_limit: req.get("limit").and_then(|x| x.as_u64()).map(|x| x as usize),
        ..RuntimeLimits::default()
    };
    let rt: RT = limits.to_runtime(RecWriter::default(), RecClock { now: 0.0 });
    match req["f"].as_str().unwrap_or("") {
        "consts" => {
            let mut m = serde_json::Map::new();
            for (k, v) in ha::size_constants(&rt) {
                m.insert(k.to_string(), json!(v));
            }
            m.insert("string_value_10".into(), json!(ha::string_value_size(&rt, 10)));
            for (k, v) in ha::size_constants2() {
                m.insert(k.to_string(), json!(v));
            }
            Value::Object(m)
        }
        "trace" => {
            let mut live: HashMap<u64, Live> = HashMap::new();
            let mut steps = Vec::new();
            let empty = vec![];
            for ev in req["events"].as_array().unwrap_or(&empty) {
                let kind = ev[0].as_str().unwrap_or("");
                let a = ev[1].as_u64().unwrap_or(0);
                let b = ev.get(2).and_then(|x| x.as_u64()).unwrap_or(0) as usize;
                let outcome = match kind {
                    "a" => match ha::allocate_bytes(&rt, b) {
                        Ok(rec) => {
                            live.insert(a, Live::Recorded(rec));
                            format!("ok {rec}")
                        }
                        Err(_) => "viol".to_string(),
                    },
                    "e" => match ha::managed_error(&rt, b) {
                        Ok(v) => {
                            live.insert(a, Live::Value(Box::new(v)));
                            "ok".to_string()
                        }
                        Err(_) => "viol".to_string(),
                    },
                    "s" => match ha::managed_string(&rt, b) {
                        Ok(v) => {
                            live.insert(a, Live::Value(Box::new(v)));
                            "ok".to_string()
                        }
                        Err(_) => "viol".to_string(),
                    },
                    "d" => match live.remove(&a) {
                        Some(Live::Recorded(rec)) => {
                            ha::deallocate_bytes(&rt, rec);
                            "ok".to_string()
                        }
                        Some(Live::Value(v)) => {
                            drop(v);
                            "ok".to_string()
                        }
                        None => "noop".to_string(),
                    },
                    "p" => match rt.can_allocate(a as usize) {
                        Ok(()) => "ok".to_string(),
                        Err(_) => "viol".to_string(),
                    },
                    _ => "bad-op".to_string(),
                };
                steps.push(json!([outcome, hooks::stats_size(&rt)]));
            }
            // everything still live is dropped here
            let before = hooks::stats_size(&rt);
            for (_, l) in live.drain() {
                if let Live::Recorded(rec) = l {
                    ha::deallocate_bytes(&rt, rec)
                }
            }
            json!({"steps": steps, "size_before_cleanup": before, "size_final": hooks::stats_size(&rt)})
        }
        "sizes" => {
            // {"op":"alloc","f":"sizes","src":…,"names":[…],"limit":L}: XValue::size (and static / dyn part of natives)
            // of top-level bindings of a program run under a size limit, plus the accounted total
            let src = req["src"].as_str().unwrap_or("");
            let comp = match crate::run::compile(src) {
                Ok(c) => c,
                Err(e) => return json!({ "compile": e }),
            };
            let eval = match xray::root_runtime_scope::RootEvaluationScope::from_compilation_scope(&comp, rt.clone()) {
                Ok(e) => e,
                Err(e) => return json!({"compile": "ok", "inst": {"viol": format!("{e:?}")}}),
            };
            let mut m = serde_json::Map::new();
            let empty = vec![];
            for n in req["names"].as_array().unwrap_or(&empty) {
                let n = n.as_str().unwrap_or("");
                let v = match eval.get_value(n) {
                    Ok(v) => match ha::value_size_parts(v) {
                        Some((size, Some((st, dy)))) => json!({"size": size, "static": st, "dyn": dy}),
                        Some((size, None)) => json!({ "size": size }),
                        None => json!("error-value"),
                    },
                    Err(_) => json!("notfound"),
                };
                m.insert(n.to_string(), v);
            }
            json!({"compile": "ok", "inst": "ok", "accounted": hooks::stats_size(&rt), "values": m})
        }
        _ => json!({"bad-op": true}),
    }
}
