//! op "ord": the fallible sort / heap driven directly through the hook wrappers with a comparator that
//! can fail at the k-th comparison, and the format-specifier parser (C19).
//! Answers {"r": "<line>"} in the same textual form as the Lean driver (`lean/Driver/Ord.lean`),
//! plus {"conserved": bool} = the buffer afterwards holds exactly the objects it held before
//! (checked by pointer identity on `Rc`s and by their strong counts).

use crate::doubles::{RecClock, RecRng, RecWriter};
use crate::run::limits_from;
use serde_json::{json, Value};
use std::rc::Rc;
use xray::builtin::verif_hooks::ord as hooks;
use xray::runtime::RTCell;

fn show(l: &[i64]) -> String {
    if l.is_empty() {
        "-".to_string()
    } else {
        l.iter().map(|x| x.to_string()).collect::<Vec<_>>().join(",")
    }
}

fn ints(v: &Value) -> Vec<i64> {
    v.as_array()
        .map(|a| a.iter().map(|x| x.as_i64().unwrap_or(0)).collect())
        .unwrap_or_default()
}

/// multiset of pointers equal, and every object referenced exactly by the side copy and the buffer
fn conserved(orig: &[Rc<i64>], now: &[&Rc<i64>], extra_refs: usize) -> bool {
    let mut a: Vec<*const i64> = orig.iter().map(Rc::as_ptr).collect();
    let mut b: Vec<*const i64> = now.iter().map(|r| Rc::as_ptr(r)).collect();
    a.sort();
    b.sort();
    a == b && orig.iter().all(|r| Rc::strong_count(r) == 2 + extra_refs)
}

fn op_sort(req: &Value) -> Value {
    let d = req["d"].as_i64().unwrap_or(1).max(1);
    let k = req["k"].as_i64().unwrap_or(-1);
    let violation = req["kind"].as_str() == Some("violation");
    let xs = ints(&req["xs"]);
    let orig: Vec<Rc<i64>> = xs.iter().map(|x| Rc::new(*x)).collect();
    let mut v: Vec<Rc<i64>> = orig.clone();
    let mut count: i64 = 0;
    let res: Result<Result<(), &'static str>, &'static str> = hooks::sort_with(&mut v, |a, b| {
        let i = count;
        count += 1;
        if i == k {
            if violation {
                Err("V")
            } else {
                Ok(Err("E"))
            }
        } else {
            Ok(Ok(a.div_euclid(d) < b.div_euclid(d)))
        }
    });
    let now: Vec<i64> = v.iter().map(|r| **r).collect();
    let cons = conserved(&orig, &v.iter().collect::<Vec<_>>(), 0);
    let r = match res {
        Ok(Ok(())) => format!("ok {} {}", show(&now), count),
        Ok(Err(e)) | Err(e) => format!("fail {} {} {}", e, show(&now), count),
    };
    json!({"r": r, "conserved": cons})
}

fn op_heap(req: &Value) -> Value {
    let d = req["d"].as_i64().unwrap_or(1).max(1);
    let k = req["k"].as_i64().unwrap_or(-1);
    let violation = req["kind"].as_str() == Some("violation");
    let dec = req["dec"].as_bool().unwrap_or(true);
    let n = req["n"].as_u64().unwrap_or(0) as usize;
    let xs = ints(&req["xs"]);
    let orig: Vec<Rc<i64>> = xs.iter().map(|x| Rc::new(*x)).collect();
    let rt: RTCell<RecWriter, RecRng, RecClock> =
        limits_from(&Value::Null).to_runtime(RecWriter::default(), RecClock { now: 0.0 });
    let mut count: i64 = 0;
    let rep = hooks::heap_run(
        orig.clone(),
        n,
        |a: &Rc<i64>, b: &Rc<i64>| {
            let i = count;
            count += 1;
            if i == k {
                Err(!violation)
            } else {
                let (ka, kb) = (a.div_euclid(d), b.div_euclid(d));
                // sequence.rs:379-383: DEC → !cmp.is_positive(), else !cmp.is_negative()
                Ok(if dec { ka <= kb } else { ka >= kb })
            }
        },
        rt,
    );
    let vals = |v: &Vec<Rc<i64>>| show(&v.iter().map(|r| **r).collect::<Vec<_>>());
    // every original object is now in exactly one of: popped, drained, not_pushed — or was the one
    // element a failing `pop` had already taken out of the heap (dropped with the error)
    let mut seen: Vec<&Rc<i64>> = Vec::new();
    seen.extend(rep.popped.iter());
    seen.extend(rep.drained.iter());
    seen.extend(rep.not_pushed.iter());
    let mut a: Vec<*const i64> = orig.iter().map(Rc::as_ptr).collect();
    let mut b: Vec<*const i64> = seen.iter().map(|r| Rc::as_ptr(r)).collect();
    a.sort();
    b.sort();
    let missing: Vec<i64> = orig
        .iter()
        .filter(|r| !b.contains(&Rc::as_ptr(r)))
        .map(|r| **r)
        .collect();
    b.dedup();
    let no_dup = b.len() == seen.len();
    let counts_ok = orig.iter().all(|r| {
        let present = seen.iter().any(|s| Rc::ptr_eq(s, r));
        Rc::strong_count(r) == if present { 2 } else { 1 }
    });
    let r = format!(
        "{} popped {} len {} drained {} missing {} n {}",
        rep.outcome,
        vals(&rep.popped),
        rep.len_after,
        vals(&rep.drained),
        show(&missing),
        rep.main_cmps
    );
    json!({"r": r, "conserved": no_dup && counts_ok && rep.drain_outcome == "ok", "not_pushed": vals(&rep.not_pushed)})
}

pub fn op(req: &Value) -> Value {
    match req["f"].as_str().unwrap_or("") {
        "sort" => op_sort(req),
        "heap" => op_heap(req),
        "spec" => json!({"r": hooks::parse_spec(req["s"].as_str().unwrap_or(""))}),
        "fillers" => {
            let r = hooks::fillers(
                req["s"].as_str().unwrap_or(""),
                req["len"].as_u64().unwrap_or(0) as usize,
            );
            match r {
                None => json!({"r": "none"}),
                Some((a, b, c)) => json!({"r": format!("{}|{}|{}", a, b, c)}),
            }
        }
        "signgroup" => {
            let r = hooks::sign_and_group(
                req["s"].as_str().unwrap_or(""),
                req["neg"].as_bool().unwrap_or(false),
                req["digits"].as_str().unwrap_or(""),
            );
            match r {
                None => json!({"r": "none"}),
                Some((a, b)) => json!({"r": format!("{}|{}", a, b)}),
            }
        }
        _ => json!({"bad-op": true}),
    }
}
