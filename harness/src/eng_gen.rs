//! op "gen": `timed_run` = the generic `run` op plus the wall-clock milliseconds it took
//! (C10 records how long an evaluation under finite limits keeps the interpreter busy).

use serde_json::{json, Value};
use std::time::Instant;

pub fn op(req: &Value) -> Value {
    match req["f"].as_str().unwrap_or("") {
        "timed_run" => {
            let t = Instant::now();
            let mut r = crate::run::op_run(req);
            if let Some(m) = r.as_object_mut() {
                m.insert("ms".into(), json!(t.elapsed().as_millis() as u64));
            }
            r
        }
        _ => json!({"bad-op": true}),
    }
}
