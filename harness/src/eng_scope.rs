//! op "scope": what the real compiler builds for a program.
//!   {"op":"scope","f":"dump","src":…}  ->  {"compile":"ok","dump":"(root <base> (cells …) (decls …))"}
//!                                          or {"compile":{"class":…,"msg":…}}
//! The dump is the *user's* part of the root compilation scope: the cells of every scope
//! (V / R / (C depth idx)), the declarations in order, the expression trees with (val idx).

use crate::run::{R, T, W};
use serde_json::{json, Value};
use xray::builtin::verif_hooks::scope as hooks;
use xray::root_compilation_scope::RootCompilationScope;
use xray::std_compilation_scope;

pub fn op(req: &Value) -> Value {
    match req["f"].as_str().unwrap_or("") {
        "dump" => {
            let src = req["src"].as_str().unwrap_or("");
            let mut comp: RootCompilationScope<W, R, T> = std_compilation_scope();
            let (bc, bd) = hooks::root_counts(&comp);
            match comp.feed_file(src) {
                Ok(()) => {
                    let mut cells = serde_json::Map::new();
                    if let Some(names) = req.get("cells_of").and_then(|x| x.as_array()) {
                        for n in names {
                            let n = n.as_str().unwrap_or("");
                            cells.insert(n.to_string(), json!(hooks::variable_cell(&comp, n)));
                        }
                    }
                    json!({"compile": "ok", "dump": hooks::dump_compiled(&comp, bc, bd), "var_cells": cells})
                }
                Err(e) => {
                    let msg = format!("{e}");
                    let class = if msg.ends_with(']') {
                        msg.rsplit('[')
                            .next()
                            .map(|s| s.trim_end_matches(']').to_string())
                            .unwrap_or_default()
                    } else {
                        "Syntax".to_string()
                    };
                    json!({"compile": {"class": class, "msg": msg}})
                }
            }
        }
        _ => json!({"bad-op": true}),
    }
}
