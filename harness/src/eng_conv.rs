//! op "conv" (C20): the independent JSON reader.  `{"op":"conv","f":"json_parse","text":…}` parses the text the
//! interpreter's `serialize` produced with serde_json and returns the document itself (`{"ok": <value>}`) or
//! `{"err": msg}`; the check compares it structurally with the document it generated.
//! `{"f":"json_str","s":…}` returns serde_json's own serialisation of a string (reference for `escapeStr`).

use serde_json::{json, Value};

pub fn op(req: &Value) -> Value {
    match req["f"].as_str().unwrap_or("") {
        "json_parse" => {
            let text = req["text"].as_str().unwrap_or("");
            match serde_json::from_str::<Value>(text) {
                Ok(v) => json!({ "ok": v }),
                Err(e) => json!({ "err": e.to_string() }),
            }
        }
        "json_str" => {
            let s = req["s"].as_str().unwrap_or("");
            match serde_json::to_string(&Value::String(s.to_string())) {
                Ok(t) => json!({ "ok": t }),
                Err(e) => json!({ "err": e.to_string() }),
            }
        }
        _ => json!({"bad-op": true}),
    }
}
