//! op "ovl": {"op":"ovl","f":"list","prelude":src,"name":"eq","args":"n:Sequence:1 i n:Sequence:1 i"}
//! -> {"cands":["s x:-:2:2 i i b", "d x:…", "dfail", …]}: the candidates overload resolution iterates over for
//! `name` at the root scope (standard library + prelude) for these argument types.

use crate::run::{R, T, W};
use serde_json::{json, Value};
use xray::builtin::verif_hooks::ovl as hooks;
use xray::root_compilation_scope::RootCompilationScope;
use xray::std_compilation_scope;

pub fn op(req: &Value) -> Value {
    match req["f"].as_str().unwrap_or("") {
        "list" => {
            let mut comp: RootCompilationScope<W, R, T> = std_compilation_scope();
            if let Err(e) = comp.feed_file(req["prelude"].as_str().unwrap_or("")) {
                return json!({ "prelude-error": format!("{e}") });
            }
            let toks: Vec<&str> = req["args"].as_str().unwrap_or("").split(' ').filter(|s| !s.is_empty()).collect();
            match hooks::list_overloads(&mut comp, req["name"].as_str().unwrap_or(""), &toks) {
                Ok(c) => json!({ "cands": c }),
                Err(e) => json!({ "error": e }),
            }
        }
        _ => json!({"bad-op": true}),
    }
}
