//! op "run": compile a program with the real compiler, instantiate it on a runtime built from the
//! requested limits (with recording doubles), dump the requested bindings, call the requested
//! zero-argument functions, and report accounting figures.

use crate::doubles::{reset_touches, touches, RecClock, RecRng, RecWriter};
use serde_json::{json, Map, Value};
use std::time::Duration;
use xray::builtin::builtin_permissions as bp;
use xray::builtin::verif_hooks as hooks;
use xray::permissions::PermissionSet;
use xray::root_compilation_scope::RootCompilationScope;
use xray::root_runtime_scope::{GetUniqueFunctionError, GetValueError, RootEvaluationScope};
use xray::runtime::{RTCell, RuntimeLimits};
use xray::std_compilation_scope;
use xray::xexpr::TailedEvalResult;

pub type W = RecWriter;
pub type R = RecRng;
pub type T = RecClock;

pub fn limits_from(v: &Value) -> RuntimeLimits {
    let u = |k: &str| v.get(k).and_then(|x| x.as_u64()).map(|x| x as usize);
    let mut perms = PermissionSet::default();
    let perm_of = |name: &str| match name {
        "now" => Some(bp::NOW),
        "print" => Some(bp::PRINT),
        "print_debug" => Some(bp::PRINT_DEBUG),
        "random" => Some(bp::RANDOM),
        "regex" => Some(bp::REGEX),
        "sleep" => Some(bp::SLEEP),
        _ => None,
    };
    if let Some(a) = v.get("allow").and_then(|x| x.as_array()) {
        for n in a {
            if let Some(p) = n.as_str().and_then(perm_of) {
                perms.allow(&p)
            }
        }
    }
    if let Some(a) = v.get("forbid").and_then(|x| x.as_array()) {
        for n in a {
            if let Some(p) = n.as_str().and_then(perm_of) {
                perms.forbid(&p)
            }
        }
    }
    RuntimeLimits {
        size_limit: u("size"),
        depth_limit: u("depth"),
        recursion_limit: u("recursion"),
        ud_call_limit: u("ud_calls"),
        maximum_search: u("search"),
        time_limit: v
            .get("time_ms")
            .and_then(|x| x.as_u64())
            .map(Duration::from_millis),
        permissions: perms,
    }
}

pub fn viol_name(v: &xray::root_runtime_scope::RuntimeResult<()>) -> String {
    match v {
        Ok(()) => "ok".to_string(),
        Err(e) => {
            let d = format!("{e:?}");
            if d.starts_with("OutputFailure") {
                "OutputFailure".to_string()
            } else {
                d
            }
        }
    }
}

fn viol_of<X>(r: &xray::root_runtime_scope::RuntimeResult<X>) -> Option<String> {
    match r {
        Ok(_) => None,
        Err(e) => Some(viol_name(&Err(e.clone()))),
    }
}

pub fn compile(src: &str) -> Result<RootCompilationScope<W, R, T>, Value> {
    let mut comp: RootCompilationScope<W, R, T> = std_compilation_scope();
    match comp.feed_file(src) {
        Ok(()) => Ok(comp),
        Err(e) => {
            let msg = format!("{e}");
            let class = if msg.ends_with(']') {
                msg.rsplit('[')
                    .next()
                    .map(|s| s.trim_end_matches(']').to_string())
                    .unwrap_or_default()
            } else {
                "Syntax".to_string()
            };
            Err(json!({"class": class, "msg": msg}))
        }
    }
}

pub fn op_run(req: &Value) -> Value {
    let src = req["src"].as_str().unwrap_or("");
    let mut resp = Map::new();
    reset_touches();
    let comp = match compile(src) {
        Ok(c) => c,
        Err(e) => {
            resp.insert("compile".into(), e);
            resp.insert("touches".into(), json!(touches()));
            return Value::Object(resp);
        }
    };
    resp.insert("compile".into(), json!("ok"));
    let (w, c, r) = touches();
    resp.insert("compile_touches".into(), json!([w, c, r]));
    if req.get("compile_only").and_then(|x| x.as_bool()) == Some(true) {
        return Value::Object(resp);
    }
    let limits = limits_from(req.get("limits").unwrap_or(&Value::Null));
    let writer = RecWriter::default();
    let buf = writer.buf.clone();
    let now = req.get("now").and_then(|x| x.as_f64()).unwrap_or(1_000_000.0);
    let rt: RTCell<W, R, T> = limits.to_runtime(writer, RecClock { now });
    let size0 = hooks::stats_size(&rt);
    {
        let eval = RootEvaluationScope::from_compilation_scope(&comp, rt.clone());
        match &eval {
            Err(_) => {
                resp.insert("inst".into(), json!({ "viol": viol_of(&eval).unwrap() }));
            }
            Ok(eval) => {
                resp.insert("inst".into(), json!("ok"));
                resp.insert("size1".into(), json!(hooks::stats_size(&rt)));
                resp.insert("ud_calls1".into(), json!(hooks::stats_ud_calls(&rt)));
                let mut vals = Map::new();
                if let Some(names) = req.get("get").and_then(|x| x.as_array()) {
                    for n in names {
                        let n = n.as_str().unwrap_or("");
                        let d = match eval.get_value(n) {
                            Ok(v) => hooks::dump_value(v),
                            Err(GetValueError::NotFound) => "!notfound".to_string(),
                            Err(GetValueError::NonValueCell) => "!nonvalue".to_string(),
                        };
                        vals.insert(n.to_string(), json!(d));
                    }
                }
                resp.insert("vals".into(), Value::Object(vals));
                let mut calls = Vec::new();
                if let Some(names) = req.get("calls").and_then(|x| x.as_array()) {
                    for n in names {
                        // each entry: "name" or {"fn": name, "reset": bool}
                        let (name, reset) = match n {
                            Value::String(s) => (s.as_str(), false),
                            o => (
                                o["fn"].as_str().unwrap_or(""),
                                o["reset"].as_bool().unwrap_or(false),
                            ),
                        };
                        if reset {
                            rt.reset_ud_calls();
                        }
                        let d = match eval.get_user_defined_function(name) {
                            Ok(f) => match eval.run_function(f, vec![]) {
                                Ok(TailedEvalResult::Value(v)) => hooks::dump_value(&v),
                                Ok(TailedEvalResult::TailCall(_)) => "!tailcall-escaped".to_string(),
                                Err(e) => format!("!viol {}", viol_name(&Err(e))),
                            },
                            Err(GetUniqueFunctionError::NotFound) => "!notfound".to_string(),
                            Err(GetUniqueFunctionError::OverloadedFunction) => {
                                "!overloaded".to_string()
                            }
                            Err(GetUniqueFunctionError::NonValueCell) => "!nonvalue".to_string(),
                            Err(GetUniqueFunctionError::FactoryFunction) => "!factory".to_string(),
                            Err(GetUniqueFunctionError::ForwardRefFunction(v)) => {
                                format!("!forwardref {}", v.join(","))
                            }
                        };
                        calls.push(json!(d));
                    }
                }
                resp.insert("calls".into(), Value::Array(calls));
                resp.insert("size_live".into(), json!(hooks::stats_size(&rt)));
                resp.insert("ud_calls".into(), json!(hooks::stats_ud_calls(&rt)));
            }
        }
        // eval (and every value it holds) dropped here
    }
    resp.insert("size0".into(), json!(size0));
    resp.insert("size2".into(), json!(hooks::stats_size(&rt)));
    resp.insert(
        "out".into(),
        json!(String::from_utf8_lossy(&buf.borrow()).to_string()),
    );
    resp.insert("touches".into(), json!(touches()));
    Value::Object(resp)
}
