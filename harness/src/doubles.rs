//! Recording doubles for the three effect channels of a runtime: writer, clock, random source.
//! Each touch is counted in a thread-local so that a test can ask "was it ever touched".

use rand::{RngCore, SeedableRng};
use std::cell::{Cell, RefCell};
use std::io::Write;
use std::rc::Rc;
use xray::time_provider::TimeProvider;

thread_local! {
    pub static WRITER_TOUCH: Cell<u64> = Cell::new(0);
    pub static CLOCK_TOUCH: Cell<u64> = Cell::new(0);
    pub static RNG_TOUCH: Cell<u64> = Cell::new(0);
}

pub fn reset_touches() {
    WRITER_TOUCH.with(|c| c.set(0));
    CLOCK_TOUCH.with(|c| c.set(0));
    RNG_TOUCH.with(|c| c.set(0));
}

pub fn touches() -> (u64, u64, u64) {
    (
        WRITER_TOUCH.with(|c| c.get()),
        CLOCK_TOUCH.with(|c| c.get()),
        RNG_TOUCH.with(|c| c.get()),
    )
}

#[derive(Clone, Default)]
pub struct RecWriter {
    pub buf: Rc<RefCell<Vec<u8>>>,
}

impl Write for RecWriter {
    fn write(&mut self, data: &[u8]) -> std::io::Result<usize> {
        WRITER_TOUCH.with(|c| c.set(c.get() + 1));
        self.buf.borrow_mut().extend_from_slice(data);
        Ok(data.len())
    }
    fn flush(&mut self) -> std::io::Result<()> {
        WRITER_TOUCH.with(|c| c.set(c.get() + 1));
        Ok(())
    }
}

pub struct RecClock {
    pub now: f64,
}

impl TimeProvider for RecClock {
    fn unix_now(&self) -> f64 {
        CLOCK_TOUCH.with(|c| c.set(c.get() + 1));
        self.now
    }
}

/// Deterministic xorshift generator that records every construction and draw.
pub struct RecRng {
    state: u64,
}

impl RngCore for RecRng {
    fn next_u32(&mut self) -> u32 {
        (self.next_u64() >> 32) as u32
    }
    fn next_u64(&mut self) -> u64 {
        RNG_TOUCH.with(|c| c.set(c.get() + 1));
        let mut x = self.state;
        x ^= x << 13;
        x ^= x >> 7;
        x ^= x << 17;
        self.state = x;
        x
    }
    fn fill_bytes(&mut self, dest: &mut [u8]) {
        for chunk in dest.chunks_mut(8) {
            let v = self.next_u64().to_le_bytes();
            chunk.copy_from_slice(&v[..chunk.len()]);
        }
    }
    fn try_fill_bytes(&mut self, dest: &mut [u8]) -> Result<(), rand::Error> {
        self.fill_bytes(dest);
        Ok(())
    }
}

impl SeedableRng for RecRng {
    type Seed = [u8; 8];
    fn from_seed(_seed: Self::Seed) -> Self {
        RNG_TOUCH.with(|c| c.set(c.get() + 1));
        // fixed state: the double is deterministic whatever entropy the OS hands out
        RecRng {
            state: 0x9E3779B97F4A7C15,
        }
    }
}
