//! xharness: runs the real xray implementation (built from /repo's working tree, hooks on) on a
//! stream of JSON requests, one per line, and answers one JSON line per request.
//! Every request is executed under catch_unwind; a panic is reported as {"panic": "<file>:<line>: msg"}.

mod doubles;
mod eng_int;
mod eng_map;
mod eng_seq;
mod eng_gen;
mod eng_str;
mod eng_lex;
mod eng_ord;
mod eng_ty;
mod eng_ovl;
mod eng_alloc;
mod eng_perm;
mod eng_fl;
mod eng_conv;
mod eng_core;
mod eng_scope;
mod eng_typing;
mod eng_parse;
mod run;

use serde_json::{json, Value};
use std::cell::RefCell;
use std::io::{BufRead, Write};
use std::panic::{catch_unwind, AssertUnwindSafe};

thread_local! {
    static LAST_PANIC: RefCell<String> = RefCell::new(String::new());
}

fn dispatch(req: &Value) -> Value {
    match req["op"].as_str().unwrap_or("") {
        "run" => run::op_run(req),
        "int" => eng_int::op_int(req),
        "map" => eng_map::op(req),
        "seq" => eng_seq::op(req),
        "gen" => eng_gen::op(req),
        "str" => eng_str::op(req),
        "lex" => eng_lex::op(req),
        "ord" => eng_ord::op(req),
        "ty" => eng_ty::op(req),
        "ovl" => eng_ovl::op(req),
        "alloc" => eng_alloc::op(req),
        "perm" => eng_perm::op(req),
        "fl" => eng_fl::op(req),
        "conv" => eng_conv::op(req),
        "core" => eng_core::op(req),
        "scope" => eng_scope::op(req),
        "typing" => eng_typing::op(req),
        "parse" => eng_parse::op(req),
        "ping" => json!({"pong": true}),
        _ => json!({"bad-op": true}),
    }
}

fn serve() {
    std::panic::set_hook(Box::new(|info| {
        let loc = info
            .location()
            .map(|l| format!("{}:{}", l.file(), l.line()))
            .unwrap_or_else(|| "?".to_string());
        let msg = if let Some(s) = info.payload().downcast_ref::<&str>() {
            s.to_string()
        } else if let Some(s) = info.payload().downcast_ref::<String>() {
            s.clone()
        } else {
            "?".to_string()
        };
        LAST_PANIC.with(|p| *p.borrow_mut() = format!("{loc}: {msg}"));
    }));
    let stdin = std::io::stdin();
    let stdout = std::io::stdout();
    let mut out = stdout.lock();
    for line in stdin.lock().lines() {
        let line = line.unwrap();
        if line.trim().is_empty() {
            continue;
        }
        let req: Value = match serde_json::from_str(&line) {
            Ok(v) => v,
            Err(e) => {
                writeln!(out, "{}", json!({"bad-json": e.to_string()})).unwrap();
                out.flush().unwrap();
                continue;
            }
        };
        REQ_STARTED.store(
            std::time::SystemTime::now()
                .duration_since(std::time::UNIX_EPOCH)
                .map(|d| d.as_secs())
                .unwrap_or(1),
            std::sync::atomic::Ordering::Relaxed,
        );
        let resp = match catch_unwind(AssertUnwindSafe(|| dispatch(&req))) {
            Ok(v) => v,
            Err(_) => {
                let p = LAST_PANIC.with(|p| p.borrow().clone());
                json!({ "panic": p })
            }
        };
        REQ_STARTED.store(0, std::sync::atomic::Ordering::Relaxed);
        writeln!(out, "{}", resp).unwrap();
        out.flush().unwrap();
    }
}

/// Watchdog: leave when the driver that started us is gone (we were re-parented) or when a single request
/// runs longer than XHARNESS_MAX_REQ_SECS (default 900 s) — a hung request must not outlive its check.
fn watchdog() {
    let parent = std::os::unix::process::parent_id();
    let max: u64 = std::env::var("XHARNESS_MAX_REQ_SECS")
        .ok()
        .and_then(|s| s.parse().ok())
        .unwrap_or(900);
    std::thread::spawn(move || loop {
        std::thread::sleep(std::time::Duration::from_secs(2));
        if std::os::unix::process::parent_id() != parent {
            std::process::exit(3);
        }
        let started = REQ_STARTED.load(std::sync::atomic::Ordering::Relaxed);
        if started != 0 {
            let now = std::time::SystemTime::now()
                .duration_since(std::time::UNIX_EPOCH)
                .map(|d| d.as_secs())
                .unwrap_or(0);
            if now.saturating_sub(started) > max {
                std::process::exit(4);
            }
        }
    });
}

static REQ_STARTED: std::sync::atomic::AtomicU64 = std::sync::atomic::AtomicU64::new(0);

fn main() {
    watchdog();
    // a large stack so that deep (but legitimate) recursion in the interpreter does not abort the
    // whole batch; the real stack-overflow cases are caught by the driver (child dies).
    let child = std::thread::Builder::new()
        .stack_size(1 << 30)
        .spawn(serve)
        .unwrap();
    child.join().unwrap();
}
