//! op "int": the big-integer representation (`LazyBigint`) driven directly, operand by operand.
//! Operands arrive as decimal text and are built through the blanket `From` (canonical form).
//! Results: "S <dec>" / "L <dec>" (representation tag + value), or plain text for other kinds.

use num_bigint::BigInt;
use num_traits::{One, Pow, Signed, ToPrimitive, Zero};
use serde_json::{json, Value};
use std::ops::Neg;
use std::str::FromStr;
use xray::builtin::verif_hooks::bigint as hb;
use xray::util::lazy_bigint::LazyBigint;

fn mk(s: &str) -> LazyBigint {
    LazyBigint::from(BigInt::from_str(s).unwrap())
}

pub fn show(v: &LazyBigint) -> String {
    match v {
        LazyBigint::Short(s) => format!("S {s}"),
        LazyBigint::Long(b) => format!("L {b}"),
    }
}

pub fn op_int(req: &Value) -> Value {
    let f = req["f"].as_str().unwrap_or("");
    let a = mk(req["a"].as_str().unwrap_or("0"));
    let b = req.get("b").and_then(|x| x.as_str()).map(mk);
    let b = || b.clone().unwrap();
    let r: String = match f {
        "id" => show(&a),
        "add" => show(&(a + b())),
        "add_ref" => show(&(&a + &b())),
        "add_assign" => {
            let mut x = a;
            x += &b();
            show(&x)
        }
        "sub" => show(&(a - b())),
        "mul" => show(&(a * b())),
        "mul_assign" => {
            let mut x = a;
            x *= &b();
            show(&x)
        }
        "neg" => show(&a.neg()),
        "rem" => show(&(a % b())),
        "rem_ref" => show(&(&a % &b())),
        "div" => show(&(a / b())),
        "div_floor" => show(&hb::div_floor(a, b())),
        "div_ceil" => show(&hb::div_ceil(a, b())),
        "pow" => show(&a.pow(b())),
        "pow_nc" => {
            // operands forced into the Long representation where asked (outside the canonical-form
            // invariant): the arms of `pow` are driven with representations `From` never produces
            let force = |key: &str, long: &str| {
                let s = req[key].as_str().unwrap_or("0");
                if req[long].as_bool().unwrap_or(false) {
                    LazyBigint::Long(BigInt::from_str(s).unwrap())
                } else {
                    mk(s)
                }
            };
            show(&force("a", "la").pow(force("b", "lb")))
        }
        "bitand" => show(&(a & b())),
        "bitor" => show(&(a | b())),
        "bitxor" => show(&(a ^ b())),
        "abs" => show(&a.abs()),
        "signum" => show(&a.signum()),
        "is_zero" => a.is_zero().to_string(),
        "is_one" => a.is_one().to_string(),
        "is_positive" => a.is_positive().to_string(),
        "is_negative" => a.is_negative().to_string(),
        "eq" => (a == b()).to_string(),
        "cmp" => format!("{:?}", a.cmp(&b())),
        "to_u64" => format!("{:?}", a.to_u64()),
        "to_i64" => format!("{:?}", a.to_i64()),
        "first_u64_digit" => show(&hb::first_u64_digit(&a)),
        "bits" => hb::bits(&a).to_string(),
        "to_string" => a.to_string(),
        "magnitude_to_str" => {
            hb::magnitude_to_str(&a, req["radix"].as_u64().unwrap_or(10) as u32)
        }
        "from_str_radix" => {
            match hb::from_str_radix(
                req["s"].as_str().unwrap_or(""),
                req["radix"].as_u64().unwrap_or(10) as u32,
            ) {
                Some(v) => show(&v),
                None => "none".to_string(),
            }
        }
        "true_div_finite" => {
            let x = hb::true_div(a, b());
            format!("{:016x}", x.to_bits())
        }
        _ => return json!({"bad-op": true}),
    };
    json!({ "r": r })
}
