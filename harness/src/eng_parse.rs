//! op "parse" (stub: answers bad-op until the engine is built)

use serde_json::{json, Value};

pub fn op(_req: &Value) -> Value {
    json!({"bad-op": true})
}
