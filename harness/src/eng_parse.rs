//! op "parse": the real expression parser (`xray.pest` rule `eval` + `parse_expr` of parser.rs) on source
//! texts; answers the desugared static expression tree (`XStaticExpr`, before overload resolution) of each
//! text as an S-expression, `syntax-error`, `parse-error ..` or `panic`.
//!   {"op":"parse","srcs":["a + b * c", ..]}  ->  {"rs":["(call (id add) (id a) (call (id mul) (id b) (id c)))", ..]}

use crate::run::{R, T, W};
use serde_json::{json, Value};
use std::panic::{catch_unwind, AssertUnwindSafe};
use xray::builtin::verif_hooks::parse as hooks;
use xray::root_compilation_scope::RootCompilationScope;
use xray::std_compilation_scope;

pub fn op(req: &Value) -> Value {
    let mut comp: RootCompilationScope<W, R, T> = std_compilation_scope();
    let empty = vec![];
    let srcs = req["srcs"].as_array().unwrap_or(&empty);
    let mut rs = Vec::with_capacity(srcs.len());
    for s in srcs {
        let src = s.as_str().unwrap_or("");
        let r = catch_unwind(AssertUnwindSafe(|| hooks::parse_expr_dump(&mut comp, src)));
        rs.push(match r {
            Ok(s) => s,
            Err(_) => "panic".to_string(),
        });
    }
    json!({ "rs": rs })
}
