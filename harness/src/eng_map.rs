//! op "map" (C17): compile and run a program (as op "run" does, without limits), dump the requested
//! bindings canonically (`get`) and additionally give the `Debug` rendering of the bindings listed in
//! `layout` — for a mapping / set that rendering shows the bucket table (`inner`) and the `len` field, from
//! which the check reads the internal layout (hash -> bucket entries in order).

use crate::run::{compile, limits_from, viol_name};
use crate::doubles::{reset_touches, RecClock, RecWriter};
use serde_json::{json, Map, Value};
use xray::builtin::verif_hooks as hooks;
use xray::root_runtime_scope::{GetValueError, RootEvaluationScope};
use xray::runtime::RTCell;

pub fn op(req: &Value) -> Value {
    let src = req["src"].as_str().unwrap_or("");
    let mut resp = Map::new();
    reset_touches();
    let comp = match compile(src) {
        Ok(c) => c,
        Err(e) => {
            resp.insert("compile".into(), e);
            return Value::Object(resp);
        }
    };
    resp.insert("compile".into(), json!("ok"));
    let limits = limits_from(req.get("limits").unwrap_or(&Value::Null));
    let writer = RecWriter::default();
    let rt: RTCell<crate::run::W, crate::run::R, crate::run::T> =
        limits.to_runtime(writer, RecClock { now: 1_000_000.0 });
    let eval = RootEvaluationScope::from_compilation_scope(&comp, rt.clone());
    match &eval {
        Err(e) => {
            resp.insert(
                "inst".into(),
                json!({ "viol": viol_name(&Err(e.clone())) }),
            );
        }
        Ok(eval) => {
            resp.insert("inst".into(), json!("ok"));
            let mut vals = Map::new();
            if let Some(names) = req.get("get").and_then(|x| x.as_array()) {
                for n in names {
                    let n = n.as_str().unwrap_or("");
                    let d = match eval.get_value(n) {
                        Ok(v) => hooks::dump_value(v),
                        Err(GetValueError::NotFound) => "!notfound".to_string(),
                        Err(GetValueError::NonValueCell) => "!nonvalue".to_string(),
                    };
                    vals.insert(n.to_string(), json!(d));
                }
            }
            resp.insert("vals".into(), Value::Object(vals));
            let mut lay = Map::new();
            if let Some(names) = req.get("layout").and_then(|x| x.as_array()) {
                for n in names {
                    let n = n.as_str().unwrap_or("");
                    let d = match eval.get_value(n) {
                        Ok(Ok(v)) => format!("{:?}", v.value),
                        Ok(Err(e)) => format!("(error {:?})", e.error),
                        Err(GetValueError::NotFound) => "!notfound".to_string(),
                        Err(GetValueError::NonValueCell) => "!nonvalue".to_string(),
                    };
                    lay.insert(n.to_string(), json!(d));
                }
            }
            resp.insert("layout".into(), Value::Object(lay));
        }
    }
    Value::Object(resp)
}
