//! op "lex": the compiler's lexical handlers and the determinism of compilation.
//!  f = "intern":   {"names":[[cp..],..]}      -> kinds/texts from one fresh interner (hook wrapper)
//!  f = "escapes" / "brace": {"s":[cp..]}      -> apply_escapes / apply_brace_escape
//!  f = "compile":  {"src": text}              -> outcome of feed_file (+ touches of the recording doubles)
//!  f = "determinism": {"src": text, "before": [texts], "get": [names]}
//!        compile+run the text twice in a row, then after compiling the unrelated `before` texts, then under
//!        other limits; reports the three outcomes (acceptance, error text, values of the bindings)

use crate::doubles::{reset_touches, touches, RecClock, RecWriter};
use crate::run::{compile, limits_from, R, T, W};
use serde_json::{json, Value};
use xray::builtin::verif_hooks as hooks;
use xray::builtin::verif_hooks::lex as hl;
use xray::builtin::verif_hooks::strs as hs;
use xray::root_runtime_scope::RootEvaluationScope;
use xray::runtime::RTCell;

fn text(v: &Value) -> String {
    v.as_array()
        .map(|a| {
            a.iter()
                .map(|c| char::from_u32(c.as_u64().unwrap_or(0) as u32).unwrap_or('?'))
                .collect()
        })
        .unwrap_or_default()
}

fn cps(s: &str) -> String {
    if s.is_empty() {
        "_".to_string()
    } else {
        s.chars()
            .map(|c| (c as u32).to_string())
            .collect::<Vec<_>>()
            .join(",")
    }
}

/// acceptance / error text / values of the requested bindings under the given limits
fn outcome(src: &str, get: &[String], limits: &Value) -> Value {
    let comp = match compile(src) {
        Ok(c) => c,
        Err(e) => return json!({ "compile": e }),
    };
    let limits = limits_from(limits);
    let rt: RTCell<W, R, T> = limits.to_runtime(RecWriter::default(), RecClock { now: 1_000_000.0 });
    let eval = RootEvaluationScope::from_compilation_scope(&comp, rt.clone());
    match &eval {
        Err(e) => json!({"compile": "ok", "inst": format!("{e:?}")}),
        Ok(eval) => {
            let vals: Vec<String> = get
                .iter()
                .map(|n| match eval.get_value(n) {
                    Ok(v) => hooks::dump_value(v),
                    Err(_) => "!unavailable".to_string(),
                })
                .collect();
            json!({"compile": "ok", "inst": "ok", "vals": vals})
        }
    }
}

pub fn op(req: &Value) -> Value {
    let f = req["f"].as_str().unwrap_or("");
    match f {
        "intern" => {
            let names: Vec<String> = req["names"]
                .as_array()
                .map(|a| a.iter().map(text).collect())
                .unwrap_or_default();
            let r = hl::intern_all(&names);
            json!({"r": r.iter().map(|(k, t)| format!("{k} {}", cps(t))).collect::<Vec<_>>()})
        }
        "escapes" => match hs::apply_escapes(&text(&req["s"])) {
            Ok(r) => json!({ "r": cps(&r) }),
            Err(_) => json!({"r": "error BadEscapeSequence"}),
        },
        "brace" => json!({"r": cps(&hs::apply_brace_escape(&text(&req["s"])))}),
        "compile" => {
            reset_touches();
            let src = req["src"].as_str().unwrap_or("");
            let r = match compile(src) {
                Ok(_) => json!("ok"),
                Err(e) => e,
            };
            let (w, c, r2) = touches();
            json!({"compile": r, "touches": [w, c, r2]})
        }
        // compile twice in fresh scopes and render the error in every way a host can (Display, Debug, alternate
        // forms, through the Box and on the value): the renderings of the first compilation and whether the second
        // compilation rendered identically
        "render" => {
            let src = req["src"].as_str().unwrap_or("");
            let one = |src: &str| -> Value {
                let mut comp: xray::root_compilation_scope::RootCompilationScope<W, R, T> =
                    xray::std_compilation_scope();
                match comp.feed_file(src) {
                    Ok(()) => json!("ok"),
                    Err(e) => {
                        let display = format!("{e}");
                        let debug = format!("{e:?}");
                        let alt = format!("{e:#}|{e:#?}");
                        let unboxed = format!("{}|{:?}", *e, *e);
                        let s = e.to_string();
                        json!({"display": display, "debug": debug, "alt": alt, "unboxed": unboxed, "to_string": s})
                    }
                }
            };
            let a = one(src);
            let b = one(src);
            let same = a == b;
            json!({"first": a, "same": same})
        }
        // compile the same text `n` times in fresh scopes: the distinct outcomes (acceptance / error class+text)
        "repeat" => {
            let src = req["src"].as_str().unwrap_or("");
            let n = req["n"].as_u64().unwrap_or(16);
            let mut outcomes: Vec<(Value, u64)> = Vec::new();
            for _ in 0..n {
                let o = match compile(src) {
                    Ok(_) => json!("ok"),
                    Err(e) => e,
                };
                match outcomes.iter_mut().find(|(v, _)| *v == o) {
                    Some((_, c)) => *c += 1,
                    None => outcomes.push((o, 1)),
                }
            }
            json!({"outcomes": outcomes.iter().map(|(v, c)| json!({"outcome": v, "count": c})).collect::<Vec<_>>()})
        }
        "determinism" => {
            let src = req["src"].as_str().unwrap_or("");
            let get: Vec<String> = req["get"]
                .as_array()
                .map(|a| a.iter().filter_map(|x| x.as_str().map(String::from)).collect())
                .unwrap_or_default();
            reset_touches();
            // every run is bounded by (deterministic) counters, so that a generated program cannot loop
            let base = json!({"size": 50000000u64, "depth": 300, "recursion": 200, "ud_calls": 20000, "search": 20000});
            let first = outcome(src, &get, &base);
            let again = outcome(src, &get, &base);
            if let Some(b) = req["before"].as_array() {
                for t in b {
                    let _ = compile(t.as_str().unwrap_or(""));
                }
            }
            let after = outcome(src, &get, &base);
            let limited = outcome(
                src,
                &get,
                &json!({"size": 200000000u64, "depth": 600, "recursion": 400, "ud_calls": 40000, "search": 40000}),
            );
            json!({"first": first, "again": again, "after": after, "limited": limited})
        }
        _ => json!({"bad-op": true}),
    }
}
