//! C19, supporting evidence only: runs the `unsafe` code of `util/trysort.rs` (InsertionHole, MergeHole)
//! and `util/try_heap.rs` (Hole) — the interpreter's source files themselves, see build.rs — under Miri,
//! on small arrays of `Rc`-managed elements with the comparator failing at EVERY comparison index k.
//!
//!   cd <verif>/harness/miri_ord && CARGO_NET_OFFLINE=true CARGO_TARGET_DIR=<verif>/.build/miri \
//!       cargo +nightly miri run
//!
//! Every op is announced on stdout (`OP …`) before it runs, so that when Miri stops on undefined
//! behaviour the last announced line is the replay.  Besides UB (and leaks, which Miri reports at exit)
//! the driver itself checks that each object is present exactly once afterwards (pointer identity and
//! reference counts) and ends with `DONE sort=<n> heap=<n>`.
#![allow(dead_code, unused_imports, unused_macros, macro_expanded_macro_exports_accessed_by_absolute_paths)]

/// the two names `try_heap.rs` imports from the interpreter, with the same shape
pub mod xvalue {
    use std::marker::PhantomData;
    use std::rc::Rc;
    pub struct ManagedXError<W, R, T>(pub &'static str, pub PhantomData<(W, R, T)>);
    #[derive(Debug)]
    pub enum RuntimeViolation {
        MaximumSearch,
    }
    pub type XResult<I, W, R, T> = Result<Result<I, Rc<ManagedXError<W, R, T>>>, RuntimeViolation>;
}

mod util {
    include!(concat!(env!("OUT_DIR"), "/mods.rs"));
}
use util::try_heap::TryHeap;
use util::trysort::try_sort;

use std::marker::PhantomData;
use std::rc::Rc;
use xvalue::{ManagedXError, RuntimeViolation, XResult};

fn keys(style: usize, n: usize) -> Vec<i64> {
    (0..n as i64)
        .map(|i| match style {
            0 => (i * 7) % 5,      // sawtooth with ties
            1 => i,                // ascending
            2 => n as i64 - i,     // strictly descending
            3 => 3,                // all equal
            4 => (i * i + 3) % 11, // scrambled
            _ => {
                if i < n as i64 / 2 { i } else { n as i64 - i } // organ pipe
            }
        })
        .collect()
}

fn check_conserved(orig: &[Rc<i64>], now: &[Rc<i64>], what: &str) {
    let mut a: Vec<*const i64> = orig.iter().map(Rc::as_ptr).collect();
    let mut b: Vec<*const i64> = now.iter().map(Rc::as_ptr).collect();
    a.sort();
    b.sort();
    assert!(a == b, "objects lost or duplicated: {what}");
    assert!(orig.iter().all(|r| Rc::strong_count(r) == 2), "reference count off: {what}");
}

/// one sort with the comparator failing at comparison `k` (`-1`: never); returns #comparisons
fn sort_once(ks: &[i64], k: i64, violation: bool) -> i64 {
    let orig: Vec<Rc<i64>> = ks.iter().map(|x| Rc::new(*x)).collect();
    let mut v = orig.clone();
    let mut count = 0i64;
    let res: Result<Result<(), u8>, u8> = try_sort(&mut v, |a, b| {
        let i = count;
        count += 1;
        if i == k {
            if violation { Err(1) } else { Ok(Err(2)) }
        } else {
            Ok(Ok(**a < **b))
        }
    });
    check_conserved(&orig, &v, "sort");
    match res {
        Ok(Ok(())) => assert!(k < 0 || k >= count, "failure swallowed"),
        _ => assert!(k >= 0 && count == k + 1, "spurious failure"),
    }
    if k < 0 {
        assert!(v.windows(2).all(|w| *w[0] <= *w[1]), "not sorted");
    }
    count
}

/// the body of `XSequence::n_largest`: push all, pop `pops` times; then drain.  Returns #comparisons of
/// the main phase.
fn heap_once(ks: &[i64], pops: usize, k: i64, violation: bool) -> i64 {
    let orig: Vec<Rc<i64>> = ks.iter().map(|x| Rc::new(*x)).collect();
    let mut count = 0i64;
    let mut seen: Vec<Rc<i64>> = Vec::new();
    let main_cmps;
    {
        let mut heap = TryHeap::with_capacity(orig.len(), |a: &Rc<i64>, b: &Rc<i64>| -> XResult<bool, (), (), ()> {
            let i = count;
            count += 1;
            if i == k {
                if violation {
                    Err(RuntimeViolation::MaximumSearch)
                } else {
                    Ok(Err(Rc::new(ManagedXError("E", PhantomData))))
                }
            } else {
                Ok(Ok(**a <= **b))
            }
        });
        let mut failed = false;
        let mut it = orig.clone().into_iter();
        for item in it.by_ref() {
            if !matches!(heap.push(item), Ok(Ok(()))) {
                failed = true;
                break;
            }
        }
        seen.extend(it); // never pushed
        if !failed {
            for _ in 0..pops {
                match heap.pop() {
                    Ok(Ok(Some(e))) => seen.push(e),
                    Ok(Ok(None)) => break,
                    _ => {
                        failed = true;
                        break;
                    }
                }
            }
        }
        let _ = failed;
        loop {
            match heap.pop() {
                Ok(Ok(Some(e))) => seen.push(e),
                Ok(Ok(None)) => break,
                _ => panic!("drain failed"),
            }
        }
        main_cmps = 0;
    }
    let _ = main_cmps;
    // every object is in exactly one place — or was the one element a failing pop had taken out
    let mut ptrs: Vec<*const i64> = seen.iter().map(Rc::as_ptr).collect();
    let total = ptrs.len();
    ptrs.sort();
    ptrs.dedup();
    assert!(ptrs.len() == total, "heap: object duplicated");
    assert!(total + 1 >= orig.len() && total <= orig.len(), "heap: objects lost");
    drop(seen);
    assert!(orig.iter().all(|r| Rc::strong_count(r) == 1), "heap: reference count off");
    count
}

fn main() {
    let (mut n_sort, mut n_heap) = (0usize, 0usize);
    // insertion path (len <= 20): every length 0..=8, every pattern, every k
    // merge path (len > 20): runs + MIN_RUN extension + both merge directions, every k
    // (MIRI_ORD_FULL=1 adds the lengths 31 and 45: about 9 CPU-minutes under Miri instead of about 2)
    let mut lens: Vec<usize> = (0..=8).collect();
    lens.extend([21, 24]);
    if std::env::var("MIRI_ORD_FULL").is_ok() {
        lens.extend([31, 45]);
    }
    for &n in &lens {
        for style in 0..6 {
            let full = std::env::var("MIRI_ORD_FULL").is_ok();
            if n > 8 && style == 3 {
                continue;
            }
            if !full && ((n == 21 && style == 1) || (n == 24 && ![0usize, 4].contains(&style))) {
                continue;
            }
            let ks = keys(style, n);
            println!("OP sort style={style} n={n} k=-1 xs={ks:?}");
            let ncmp = sort_once(&ks, -1, false);
            n_sort += 1;
            for k in 0..ncmp {
                println!("OP sort style={style} n={n} k={k} kind={} xs={ks:?}", if k % 2 == 0 { "error" } else { "violation" });
                sort_once(&ks, k, k % 2 == 1);
                n_sort += 1;
            }
        }
    }
    let full = std::env::var("MIRI_ORD_FULL").is_ok();
    for n in 0..=(if full { 8usize } else { 6 }) {
        for style in [0usize, 2, 4] {
            if !full && style == 2 {
                continue;
            }
            let ks = keys(style, n);
            for pops in (if full { vec![0usize, 1, n / 2, n + 1] } else { vec![1, n + 1] }) {
                println!("OP heap style={style} n={n} pops={pops} k=-1 xs={ks:?}");
                // the unfailing run counts the comparisons of the main phase AND of the drain: failing at any
                // of them is exercised (a failure during the drain is a failure of a later `pop`)
                let ncmp = heap_once(&ks, pops, -1, false);
                n_heap += 1;
                for k in 0..ncmp {
                    println!("OP heap style={style} n={n} pops={pops} k={k} kind={} xs={ks:?}", if k % 2 == 0 { "error" } else { "violation" });
                    heap_once_failing(&ks, pops, k, k % 2 == 1);
                    n_heap += 1;
                }
            }
        }
    }
    println!("DONE sort={n_sort} heap={n_heap}");
}

/// like `heap_once`, but the failure may also hit the drain: then the drain restarts (the comparator
/// fails only once)
fn heap_once_failing(ks: &[i64], pops: usize, k: i64, violation: bool) {
    let orig: Vec<Rc<i64>> = ks.iter().map(|x| Rc::new(*x)).collect();
    let mut count = 0i64;
    let mut seen: Vec<Rc<i64>> = Vec::new();
    let mut lost = 0usize;
    {
        let mut heap = TryHeap::with_capacity(orig.len(), |a: &Rc<i64>, b: &Rc<i64>| -> XResult<bool, (), (), ()> {
            let i = count;
            count += 1;
            if i == k {
                if violation {
                    Err(RuntimeViolation::MaximumSearch)
                } else {
                    Ok(Err(Rc::new(ManagedXError("E", PhantomData))))
                }
            } else {
                Ok(Ok(**a <= **b))
            }
        });
        let mut failed = false;
        let mut it = orig.clone().into_iter();
        for item in it.by_ref() {
            if !matches!(heap.push(item), Ok(Ok(()))) {
                failed = true;
                break;
            }
        }
        seen.extend(it);
        if !failed {
            for _ in 0..pops {
                match heap.pop() {
                    Ok(Ok(Some(e))) => seen.push(e),
                    Ok(Ok(None)) => break,
                    _ => {
                        lost += 1;
                        break;
                    }
                }
            }
        }
        loop {
            match heap.pop() {
                Ok(Ok(Some(e))) => seen.push(e),
                Ok(Ok(None)) => break,
                _ => lost += 1, // the failing pop dropped the element it had taken out; go on draining
            }
        }
    }
    let mut ptrs: Vec<*const i64> = seen.iter().map(Rc::as_ptr).collect();
    let total = ptrs.len();
    ptrs.sort();
    ptrs.dedup();
    assert!(ptrs.len() == total, "heap: object duplicated");
    assert!(lost <= 1 && total + lost == orig.len(), "heap: objects lost ({total} + {lost} of {})", orig.len());
    drop(seen);
    assert!(orig.iter().all(|r| Rc::strong_count(r) == 1), "heap: reference count off");
}
