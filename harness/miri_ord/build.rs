// Points the three modules at the interpreter's sources (XRAY_REPO, default /repo) — no copy is made.
use std::{env, fs, path::Path};
fn main() {
    let repo = env::var("XRAY_REPO").unwrap_or_else(|_| "/repo".to_string());
    let out = env::var("OUT_DIR").unwrap();
    let src = format!(
        "#[macro_use]\n#[path = \"{repo}/src/util/forward_err.rs\"]\npub mod forward_err;\n\
         #[path = \"{repo}/src/util/trysort.rs\"]\npub mod trysort;\n\
         #[path = \"{repo}/src/util/try_heap.rs\"]\npub mod try_heap;\n"
    );
    fs::write(Path::new(&out).join("mods.rs"), src).unwrap();
    for f in ["forward_err.rs", "trysort.rs", "try_heap.rs"] {
        println!("cargo:rerun-if-changed={repo}/src/util/{f}");
    }
    println!("cargo:rerun-if-env-changed=XRAY_REPO");
}
