#!/bin/sh
# Build the framework from files on disk only (offline): the Rust harness against /repo's working tree
# (hooks on) and the Lean project (model, proofs, driver).
set -e
cd "$(dirname "$0")"
export CARGO_NET_OFFLINE=true
(cd harness && cargo build --offline)
(cd lean && lake build XrayModel XrayProofs Props Audit.Tools xmodel)
