#!/bin/sh
# Build the framework from files on disk only (offline): the Rust harness against /repo's working tree
# (hooks on) and the Lean project (model, proofs of every property, audit tool, driver).
set -e
cd "$(dirname "$0")"
export CARGO_NET_OFFLINE=true
(cd harness && cargo build --offline)
TARGETS="XrayModel Audit.Tools xmodel"
for f in lean/Props/C*.lean; do
  b=$(basename "$f" .lean)
  TARGETS="$TARGETS Props.$b"
done
(cd lean && lake build $TARGETS)
