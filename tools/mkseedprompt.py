#!/usr/bin/env python3
"""Write the prompt for a seeded-change sub-agent: tools/mkseedprompt.py <round-dir> <Cxx> ...
The prompt contains only the property text and the list of earlier seeded changes (for diversity) - nothing else from /verif."""
import sys, os, json, glob, subprocess
V = os.path.dirname(os.path.dirname(os.path.abspath(__file__)))
rd = sys.argv[1]
props = {json.loads(l)["id"]: json.loads(l) for l in open(os.path.join(V, "properties.jsonl"))}
for pid in sys.argv[2:]:
    p = props[pid]
    d = os.path.join(rd, pid)
    os.makedirs(os.path.join(d, "out"), exist_ok=True)
    wt = os.path.join(d, "wt")
    if not os.path.isdir(wt):
        subprocess.run(["git", "-C", "/repo", "worktree", "add", "--detach", wt, "HEAD"], capture_output=True)
    earlier = []
    for m in sorted(glob.glob(os.path.join(V, "seeded", "*", "meta.json"))):
        j = json.load(open(m))
        if j["property"] == pid:
            earlier.append(" - " + j["summary"])
    text = f"""You are a software engineer helping to evaluate a verification tool. You are given a scratch git worktree of the Rust project bentheiii/xray (an interpreter for the "xray" scripting language: pest grammar, type checker, overload resolution, a large standard library partly written in xray itself in src/builtin/include.rs; docs under book/src; example scripts under test_scripts/) at:

    WT = {wt}      (detached HEAD; work ONLY inside this directory and {d}/out; do not look at or touch /repo, /verif or any other directory)

Your task: write ONE realistic change (a plausible bug a maintainer could introduce: a refactor slip, an off-by-one, a swapped operand, a missing guard, a wrong comparison, an optimisation that forgets a case, two sites that each look fine alone) to the source under WT/src that BREAKS the semantic property quoted below, while the crate still compiles and the existing test suite still passes (`cd WT && cargo test --offline 2>&1 | grep "test result"` must show 13 passed and 420 passed, 0 failed — run it before and after; the first build takes a few minutes). The change must NOT be something ordinary use would expose at once: it should need something specific to manifest — an unusual input or value, a particular multi-step sequence of operations, a particular configuration/limit value, a boundary case. Avoid changes that merely add a panic!() or obviously sabotage; avoid touching tests, Cargo files or anything under src/builtin/verif_hooks/.

PROPERTY {pid}:
{pid} — {p['title']}

{p['statement']}

Quantified over: {p['quantifier']['text']}


IMPORTANT — diversity: earlier experiments already used the following changes for this property; yours must be in a DIFFERENT source area and break a DIFFERENT clause or mechanism of the property (look for the clauses and code paths none of these touch):
{chr(10).join(earlier)}


Deliverables, all under {d}/out/ :
 1. patch.diff — `git -C WT diff` of your change (source files only).
 2. a demonstration that FAILS with the change and PASSES without it: either demo.xr (an xray program whose top-level bindings show the wrong value; say in notes which binding and which value is expected) and/or demo.rs (a Rust integration test you can drop into WT/tests/ that uses the public API — see WT/tests/run_scripts.rs and WT/src/main.rs for how to compile and run a program: `std_compilation_scope()`, `feed_file`, `RuntimeLimits{{..}}.to_runtime(..)`, `RootEvaluationScope::from_compilation_scope`, `get_value`, `run_function`). If demo.rs reads demo.xr, use `include_str!("demo.xr")` with exactly that file name. Actually run it both ways and record the two outputs. Do NOT use `git stash` (the stash is shared with other worktrees of the same repository): save your diff to a file, `git -C WT checkout -- .`, and `git -C WT apply <file>` to switch.
 3. notes.md — which property clause it breaks, what exactly is needed for it to manifest, the commands you ran and their results (test suite with the change: counts; demonstration without / with the change).
When done, leave WT with the change REVERTED (`git -C WT checkout -- .`; remove any files you added there) and delete WT/target to save disk (`rm -rf WT/target`). Your final message: a 5-line summary (files changed, what breaks, how to trigger, test-suite result, demo result).
"""
    open(os.path.join(d, "prompt.txt"), "w").write(text)
    print("wrote", os.path.join(d, "prompt.txt"), len(earlier), "earlier")
