#!/usr/bin/env python3
"""Rebuild MANIFEST.json and known_findings.json from the per-property pieces
(checklib/cXX.manifest.json, design/CXX.findings.json). A property is claimed iff its manifest piece,
its check module, its Props file and its Audit file exist."""
import json, os, glob, subprocess
V = os.path.dirname(os.path.dirname(os.path.abspath(__file__)))
props = [json.loads(l) for l in open(os.path.join(V, "properties.jsonl"))]
NA = {}
na_file = os.path.join(V, "design", "not_applicable.json")
if os.path.exists(na_file):
    NA = json.load(open(na_file))
hook_commits = subprocess.run(["git", "-C", "/repo", "log", "--format=%h %s"], capture_output=True, text=True).stdout
hook_commits = [l.split()[0] for l in hook_commits.splitlines() if " verif hooks" in l]
man = {
    "version": 1,
    "setup_cmd": "cd /verif && ./setup.sh",
    "hooks": {
        "guard": "xray_verif",
        "enable": "rustc --cfg xray_verif (set in /verif/harness/.cargo/config.toml; the harness crate depends on /repo by path and is rebuilt from /repo's working tree by every check)",
        "baseline_off_cmd": "cd /repo && cargo test --workspace --no-fail-fast --offline",
        "source_commits": hook_commits[::-1],
        "add_only": True,
    },
    "engines": [],
    "checks": [],
    "not_applicable": [],
    "notes": "See DESIGN.md. Every check = lake build of the property's theorems + axiom audit (Lean 4 kernel), then a correspondence run of the executable Lean model against /repo's current working tree (Rust harness with hooks on), with an independent Python oracle deciding disagreements.",
}
claimed = []
for p in props:
    pid = p["id"]
    piece = os.path.join(V, "checklib", f"{pid.lower()}.manifest.json")
    ok = all(os.path.exists(x) for x in [piece, os.path.join(V, "checklib", f"{pid.lower()}.py"),
                                          os.path.join(V, "lean", "Props", f"{pid}.lean"), os.path.join(V, "lean", "Audit", f"{pid}.lean")])
    if ok:
        m = json.load(open(piece))
        claimed.append(pid)
        man["checks"].append({
            "property_id": pid,
            "quick_cmd": f"./check {pid} --tier quick",
            "thorough_cmd": f"./check {pid} --tier thorough",
            "evidence_file": f"/verif/evidence/{pid}.json",
            "replay_cmd_template": f"./check {pid} --replay {{path}}",
            "engine": "xmodel+xharness",
            "level_claimed": {"category": m.get("category", "proof"), "text": m["level_text"], "design_ref": m.get("design_ref", f"DESIGN.md §5 {pid}; design/{pid}.md")},
            "level_note": m["level_note"],
            "technique": m.get("technique", "Lean 4 proof over an executable model + differential correspondence check"),
        })
    else:
        man["not_applicable"].append({"property_id": pid, "reason": NA.get(pid, "not built yet (planned, DESIGN.md §9); not claimed until its theorems and tie run")})
man["engines"].append({"name": "xmodel+xharness", "path": "/verif/check", "serves_properties": claimed,
                       "kind_free_text": "Lean 4 model + theorems (lean/), Rust correspondence harness (harness/), Python driver (check, checklib/)"})
json.dump(man, open(os.path.join(V, "MANIFEST.json"), "w"), indent=1)
# known findings
kf = {"_comment": "findings: genuine defects of bentheiii/xray recorded rather than repaired (printed as KNOWN-FINDING, exit 0; matched by the violation key a check computes). fixed: defects repaired by a 'fix:' commit in /repo; a fixed entry suppresses nothing. Merged from design/*.findings.json by tools/mkmanifest.py; never written at check time.",
      "findings": [], "fixed": []}
for f in sorted(glob.glob(os.path.join(V, "design", "*.findings.json"))):
    d = json.load(open(f))
    kf["findings"] += d.get("findings", [])
    kf["fixed"] += d.get("fixed", [])
json.dump(kf, open(os.path.join(V, "known_findings.json"), "w"), indent=1)
print("claimed:", claimed)
