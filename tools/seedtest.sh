#!/bin/bash
# Run a check against a seeded change WITHOUT touching /repo (other people build from it):
#   tools/seedtest.sh <patch.diff> <Cxx> [quick|thorough]
# Uses a private copy of /verif and a private worktree of /repo under /tmp/seedbed.
set -e
PATCH=$(readlink -f "$1"); PROP=$2; TIER=${3:-quick}
BED=${BED:-/tmp/seedbed}
mkdir -p $BED
if [ ! -d $BED/repo ]; then git -C /repo worktree add --detach $BED/repo HEAD >/dev/null; fi
git -C $BED/repo checkout -q --detach $(git -C /repo rev-parse HEAD)
git -C $BED/repo checkout -q -- . ; git -C $BED/repo clean -fdq -e target
mkdir -p $BED/verif
# committed state of /verif only (other people's uncommitted work in progress is not part of the experiment)
rm -rf $BED/verif.new && mkdir -p $BED/verif.new && git -C /verif archive HEAD | tar -x -C $BED/verif.new
rsync -a --delete --exclude .build --exclude lean/.lake --exclude replays --exclude evidence $BED/verif.new/ $BED/verif/
rm -rf $BED/verif.new
mkdir -p $BED/verif/evidence
sed -i "s#path = \"/repo\"#path = \"$BED/repo\"#" $BED/verif/harness/Cargo.toml
sed -i "s#/verif/.build/target#$BED/verif/.build/target#" $BED/verif/harness/.cargo/config.toml
if [ "$PATCH" != "/dev/null" ] && [ -n "$1" ] && [ "$1" != "none" ]; then
  git -C $BED/repo apply "$PATCH"
fi
cd $BED/verif
set +e
XRAY_REPO=$BED/repo VERIF_TIER=$TIER ./check $PROP --tier $TIER
rc=$?
git -C $BED/repo checkout -q -- .
echo "seedtest rc=$rc"
exit $rc
