#!/usr/bin/env python3
"""Fold the per-property as-built notes (design/Cxx.md), the fixed/known findings (design/*.findings.json) and the
seeded-change records (seeded/*/meta.json) into DESIGN.md between the AUTO markers."""
import json, os, glob, re
V = os.path.dirname(os.path.dirname(os.path.abspath(__file__)))
D = os.path.join(V, "DESIGN.md")
s = open(D).read()
BEGIN, END = "<!-- AUTO:BEGIN (tools/mkdesign.py) -->", "<!-- AUTO:END -->"
if BEGIN not in s:
    s = s.rstrip() + "\n\n" + BEGIN + "\n" + END + "\n"
head, rest = s.split(BEGIN, 1)
tail = rest.split(END, 1)[1]
out = []
out.append("## 11. Per-property notes as built (from design/Cxx.md)\n")
for f in sorted(glob.glob(os.path.join(V, "design", "C*.md"))):
    pid = os.path.basename(f)[:-3]
    body = open(f).read().strip()
    body = re.sub(r"^# ", "### ", body, flags=re.M)
    body = re.sub(r"^## ", "#### ", body, flags=re.M)
    out.append(f"\n<!-- {pid} -->\n" + body + "\n")
out.append("\n## 12. Defects of the pinned tree: repaired (`fix:` commits in /repo) and recorded (known findings)\n")
fixed, findings = [], []
for f in sorted(glob.glob(os.path.join(V, "design", "*.findings.json"))):
    d = json.load(open(f))
    fixed += d.get("fixed", [])
    findings += d.get("findings", [])
out.append(f"\n{len(fixed)} defects repaired; each entry: property, commit, what failed.\n")
for x in fixed:
    out.append("* " + x.replace("fixed: ", ""))
out.append(f"\n\n{len(findings)} known findings (genuine defects recorded rather than repaired; printed as KNOWN-FINDING, matched by key):\n")
for x in findings:
    out.append(f"* {x.get('property')} `{x.get('key')}` — {x.get('what')}")
out.append("\n\n## 13. Seeded-change experiments (which check catches which change)\n")
rows = []
for f in sorted(glob.glob(os.path.join(V, "seeded", "*", "meta.json"))):
    m = json.load(open(f))
    rows.append(f"| {os.path.basename(os.path.dirname(f))} | {m.get('property')} | {m.get('summary','')} | {m.get('needs','')} | {m.get('caught_by','')} | {m.get('first_result','')} |")
if rows:
    out.append("\n| id | property | change | needs to manifest | caught by (violation key) | first run / after strengthening |\n|---|---|---|---|---|---|")
    out += rows
else:
    out.append("\n(none recorded yet)")
open(D, "w").write(head + BEGIN + "\n" + "\n".join(out) + "\n" + END + tail)
print("DESIGN.md updated:", len(fixed), "fixed,", len(findings), "findings,", len(rows), "seeded")
