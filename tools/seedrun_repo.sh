#!/bin/bash
# Final pass as the brief describes it: apply each kept seeded change to /repo itself, run the property's quick check from
# /verif, undo the change straight afterwards, and record what was printed.  Only run when nobody else builds from /repo.
#   tools/seedrun_repo.sh [seed-id ...]     (default: every seeded/S*)
cd /verif
ids="$@"; [ -z "$ids" ] && ids=$(ls seeded | grep '^S')
for id in $ids; do
  d=seeded/$id
  prop=$(python3 -c "import json;print(json.load(open('$d/meta.json'))['property'])")
  if ! git -C /repo diff --quiet; then echo "/repo has uncommitted changes; refusing"; exit 2; fi
  if ! git -C /repo apply --check $PWD/$d/patch.diff 2>/dev/null; then echo "$id: patch does not apply to the current /repo HEAD" | tee $d/run_on_repo.txt; continue; fi
  git -C /repo apply $PWD/$d/patch.diff
  out=$(VERIF_SEED=${VERIF_SEED:-1} ./check $prop --tier quick 2>&1); rc=$?
  git -C /repo checkout -- .
  git -C /verif checkout -- lean/Generated   # the translators regenerated the model from the patched sources
  {
    echo "seed $id applied to /repo $(git -C /repo rev-parse --short HEAD) with 'git -C /repo apply', then './check $prop --tier quick' (VERIF_SEED=${VERIF_SEED:-1}), then 'git -C /repo checkout -- .'"
    echo "exit code: $rc"
    echo "$out" | grep -E "^VIOLATION|^KNOWN-FINDING|^OK|^  \(" | cut -c1-400 | head -12
  } > $d/run_on_repo.txt
  echo "$id ($prop): rc=$rc $(grep -c '^VIOLATION' $d/run_on_repo.txt) violation line(s)"
done
git -C /repo status --short | head -3
