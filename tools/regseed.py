#!/usr/bin/env python3
"""Register a confirmed seeded change under /verif/seeded/<id>/ :
   tools/regseed.py <id> <property> <srcdir> "<summary>" "<needs>" "<caught_by>" "<first_result>" ["<ran>"]"""
import sys, os, shutil, json, glob
sid, prop, src, summary, needs, caught, first = sys.argv[1:8]
ran = sys.argv[8] if len(sys.argv) > 8 else ""
V = os.path.dirname(os.path.dirname(os.path.abspath(__file__)))
d = os.path.join(V, "seeded", sid)
os.makedirs(d, exist_ok=True)
for f in glob.glob(os.path.join(src, "*")):
    if os.path.isfile(f) and os.path.getsize(f) < 200000:
        shutil.copy(f, d)
json.dump({"property": prop, "summary": summary, "needs": needs, "caught_by": caught, "first_result": first,
           "what_was_run": ran or f"tools/seedtest.sh seeded/{sid}/patch.diff {prop} (private copy of /verif + worktree of /repo with the patch applied); "
                                  "the author's demonstration was run with and without the change in its own worktree (see notes.md)"},
          open(os.path.join(d, "meta.json"), "w"), indent=1)
print("registered", d)
