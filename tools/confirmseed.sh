#!/bin/bash
# Confirm a seeded change in a scratch worktree of /repo: it applies, compiles, the 433 baseline tests pass with it,
# and the demonstration (demo.rs as an integration test) fails with it and passes without it.
#   tools/confirmseed.sh <seed-id>      -> writes seeded/<id>/confirmation.txt
set -u
ID=$1; D=/verif/seeded/$ID; WT=/tmp/confirm_wt; export CARGO_TARGET_DIR=/tmp/confirm_target
OUT=$D/confirmation.txt
git -C /repo worktree remove --force $WT >/dev/null 2>&1; rm -rf $WT; git -C /repo worktree add --detach $WT HEAD >/dev/null 2>&1 || { echo "worktree failed"; exit 2; }
{
echo "confirmation of $ID at /repo $(git -C /repo rev-parse --short HEAD) on $(date -u +%FT%TZ)"
cd $WT
PROP=$(python3 -c "import json;print(json.load(open('$D/meta.json'))['property'].lower())")
if [ -f $D/demo.rs ]; then cp $D/demo.rs tests/seed_demo.rs; for f in $D/*.xr; do [ -f "$f" ] && cp "$f" tests/ 2>/dev/null; done
  # authors name the script as they like (demo.xr, demo_cXX.xr, cXX_demo.xr): provide all spellings
  if [ -f $D/demo.xr ]; then cp $D/demo.xr tests/demo_$PROP.xr; cp $D/demo.xr tests/${PROP}_demo.xr; fi; fi
echo "--- demo WITHOUT the change"
if [ -f tests/seed_demo.rs ]; then CARGO_NET_OFFLINE=true cargo test --offline --test seed_demo 2>&1 | grep -E "^test |test result|error(\[|:)" | head -20; else echo "(no demo.rs; see notes.md)"; fi
echo "--- applying patch"
git apply $D/patch.diff && echo applied || echo "PATCH DOES NOT APPLY"
echo "--- baseline suite WITH the change"
CARGO_NET_OFFLINE=true cargo test --offline --lib --test run_scripts 2>&1 | grep -E "test result|error(\[|:)" | head
echo "--- demo WITH the change"
if [ -f tests/seed_demo.rs ]; then CARGO_NET_OFFLINE=true cargo test --offline --test seed_demo 2>&1 | grep -E "^test |test result|error(\[|:)|panicked" | head -20; fi
} > $OUT 2>&1
cd /; git -C /repo worktree remove --force $WT
cat $OUT
