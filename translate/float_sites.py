#!/usr/bin/env python3
"""C13 translator: /repo/src  ->  /verif/lean/Generated/FloatSites.lean   (python stdlib only)

An `XValue::Float` can only come into being through the enum constructor, so the table lists every expression of the
crate (verification hooks excluded) that mentions the constructor `Float` of `XValue`:
   `XValue::Float(e)` / `Self::Float(e)` inside `impl XValue` / a bare `Float(e)` after a glob or brace import /
   the constructor used as a function value (`.map(XValue::Float)`)
and tags it
   guarded               it is the `Ok(Ok(Self::Float(x)))` of `XValue::float` directly under `if x.is_finite() {`
   closed negFin         `XValue::Float(-a)` where `a` is the `&f64` parameter of a `ufunc!(Float, |a: &f64, …|` closure
   closed jsonNumberFin  `XValue::Float(n.as_f64().unwrap())` in the arm `serde_json::Value::Number(n) =>`
   closed idFin          `XValue::Float(*a)` / `XValue::Float(a.clone())` for such a parameter
   unguarded             anything else (fail closed)
Occurrences in pattern position (`XValue::Float(x) =>`, `if let XValue::Float(x) =`, `matches!`) build nothing and are
only counted.  It also checks that the checked constructor still has the modelled text and that float literals reach
the runtime through it (`XExpr::LiteralFloat(r) => … XValue::float(*r, …)`); if not, a row `unguarded` is emitted for it.
Exit code 3 if a file cannot be scanned."""
import os
import re
import sys

sys.path.insert(0, os.path.dirname(os.path.abspath(__file__)))
from rustscan import blank, blocks, enclosing, line_of, rust_files, lean_str, ScanError  # noqa: E402

REPO = os.environ.get("XRAY_REPO", "/repo")
OUT = os.path.join(os.path.dirname(os.path.dirname(os.path.abspath(__file__))), "lean", "Generated", "FloatSites.lean")


def die(msg):
    print("float_sites: " + msg, file=sys.stderr)
    sys.exit(3)


def matching_paren(code, i):
    """i = offset of '(' -> offset of the matching ')'"""
    depth = 0
    for j in range(i, len(code)):
        if code[j] in "([{":
            depth += 1
        elif code[j] in ")]}":
            depth -= 1
            if depth == 0:
                return j
    return -1


def scan():
    sites = []
    patterns = 0
    checked_calls = 0
    for rel, path in rust_files(os.path.join(REPO, "src"), exclude=("builtin/verif_hooks",)):
        src = open(path).read()
        try:
            code, strings = blank(src)
            blks = blocks(code)
        except ScanError as e:
            die(f"{rel}: {e}")
        checked_calls += len(re.findall(r"\bXValue::float\s*\(", code))
        # imports that would make a bare `Float(` a constructor of XValue
        bare = bool(re.search(r"\buse\s+[^;]*XValue::\s*(\*|\{[^}]*\bFloat\b)", code)) or \
            bool(re.search(r"\buse\s+[^;]*XValue::Float\b", code))
        rx = r"\b(?:XValue(?:\s*::\s*<[^>]*>)?|Self)\s*::\s*Float\b" + (r"|(?<![A-Za-z0-9_:])Float\s*\(" if bare else "")
        for m in re.finditer(rx, code):
            off = m.start()
            txt = m.group(0)
            encl = enclosing(blks, off)
            fnb = next((b for b in encl if b.kind == "fn"), None)
            fn_name = fnb.name if fnb else "<static>"
            if txt.startswith("Self"):
                # only inside `impl … XValue`
                imp = next((b for b in encl if re.search(r"\bimpl\b", b.header)), None)
                if imp is None or not re.search(r"\bXValue\b", imp.header):
                    continue
            end = m.end() if not txt.rstrip().endswith("(") else m.end() - 1
            k = end
            while k < len(code) and code[k] in " \n\t":
                k += 1
            if k >= len(code) or code[k] != "(":
                if rel == "xvalue.rs" and re.match(r"\s*\(\s*f64\s*\)", code[end:end + 12]):
                    continue
                # the enum declaration `Float(f64),` is matched above; a constructor used as a function value:
                sites.append((rel, line_of(src, off), fn_name, src[off:k + 1].strip()[:60], "unguarded", "constructor used as a function value"))
                continue
            close = matching_paren(code, k)
            if close < 0:
                die(f"{rel}:{line_of(src, off)}: unbalanced parenthesis")
            arg = re.sub(r"\s+", " ", src[k + 1:close].strip())
            expr = re.sub(r"\s+", " ", src[off:close + 1])
            after = code[close + 1:close + 40].lstrip()
            before = code[max(0, off - 40):off]
            # pattern position?
            if after.startswith("=>") or (after.startswith("=") and not after.startswith("==")) or after.startswith("|") \
                    or re.search(r"\b(?:if|while)\s+let\s+[&(]*$", before) or re.search(r"\blet\s+[&(]*$", before) \
                    or re.search(r"matches!\s*\([^;]*,\s*[&(]*$", before) or re.search(r"\|\s*$", before):
                patterns += 1
                continue
            tag, why = "unguarded", "not a recognised form"
            inner = encl[0] if encl else None
            # (1) the checked constructor
            if rel == "xvalue.rs" and fn_name == "float" and inner is not None:
                mh = re.search(r"\bif\s+([a-z_][a-z0-9_]*)\s*\.\s*is_finite\s*\(\s*\)\s*$", inner.header.rstrip())
                if mh and mh.group(1) == arg:
                    tag, why = "guarded", f"under `if {arg}.is_finite()`"
            # (2) closed forms
            if tag == "unguarded":
                clos = next((b for b in encl if b.kind == "closure"), None)
                params = {}
                # a closure without braces (`|a: &f64, _rt| Ok(Ok(XValue::Float(-a)))`) has no block: look backwards on the line(s)
                head = code[max(0, off - 300):off]
                mc = None
                for mc in re.finditer(r"ufunc!\s*\(\s*Float\s*,\s*\|\s*([a-z_][a-z0-9_]*)\s*:\s*&\s*f64\s*,[^|]*\|", head):
                    pass
                if mc is not None and "{" not in head[mc.end():] and ";" not in head[mc.end():]:
                    params[mc.group(1)] = True
                m1 = re.fullmatch(r"-\s*\*?\s*([a-z_][a-z0-9_]*)", arg)
                m2 = re.fullmatch(r"\*\s*([a-z_][a-z0-9_]*)|([a-z_][a-z0-9_]*)\s*\.\s*clone\s*\(\s*\)", arg)
                m3 = re.fullmatch(r"([a-z_][a-z0-9_]*)\s*\.\s*as_f64\s*\(\s*\)\s*\.\s*unwrap\s*\(\s*\)", arg)
                if m1 and m1.group(1) in params:
                    tag, why = "closed .negFin", "negation of a float read from an existing value"
                elif m2 and (m2.group(1) or m2.group(2)) in params:
                    tag, why = "closed .idFin", "a float read from an existing value"
                elif m3:
                    # the arm `serde_json::Value::Number(n) =>` on the same statement
                    stmt_start = max(code.rfind(";", 0, off), code.rfind("{", 0, off), code.rfind(",", 0, off - len(expr) - 60 if off > 200 else 0))
                    seg = code[max(0, off - 160):off]
                    ma = None
                    for ma in re.finditer(r"serde_json::Value::Number\s*\(\s*([a-z_][a-z0-9_]*)\s*\)\s*=>", seg):
                        pass
                    if ma is not None and ma.group(1) == m3.group(1) and ";" not in seg[ma.end():] and "=>" not in seg[ma.end():]:
                        tag, why = "closed .jsonNumberFin", "a serde_json number"
            sites.append((rel, line_of(src, off), fn_name, expr[:80], tag, why))

    # the checked constructor itself
    xsrc, _ = blank(open(os.path.join(REPO, "src", "xvalue.rs")).read())
    flat = re.sub(r"\s+", " ", xsrc)
    mm = re.search(r"fn float\(x: f64, rt: &RTCell<W, R, T>\) -> XResult<Self, W, R, T> \{ if x\.is_finite\(\) \{ Ok\(Ok\(Self::Float\(x\)\)\) \} else \{ Ok\(Err\(ManagedXError::new\( \" *\", rt\.clone\(\), \)\?\)\) \} \}", flat)
    if not mm:
        sites.append(("xvalue.rs", 0, "float", "XValue::float", "unguarded", "the checked constructor no longer has the modelled text"))
    # float literals
    rsrc, _ = blank(open(os.path.join(REPO, "src", "runtime_scope.rs")).read())
    flat = re.sub(r"\s+", " ", rsrc)
    ml = re.search(r"XExpr::LiteralFloat\((\w+)\) => \{? ?Ok\(ManagedXValue::from_result\(XValue::float\(\*\1, &rt\)\?, rt\)\?\.into\(\)\)", flat)
    lit_line = line_of(rsrc, rsrc.find("XExpr::LiteralFloat")) if "XExpr::LiteralFloat" in rsrc else 0
    if ml:
        literal = ("runtime_scope.rs", lit_line, "eval", "XExpr::LiteralFloat(r) => XValue::float(*r, &rt)", "guarded", "literal through the checked constructor")
    else:
        literal = ("runtime_scope.rs", lit_line, "eval", "XExpr::LiteralFloat", "unguarded", "float literals no longer go through XValue::float in the recognised way")
    return sites, literal, patterns, checked_calls


def emit(sites, literal, patterns, checked_calls):
    L = []
    A = L.append
    A("/- GENERATED by /verif/translate/float_sites.py from /repo/src on every run of `./check C13` — do not edit.")
    A("   Every expression of the crate that builds an `XValue::Float`, and the path float literals take. -/")
    A("import XrayModel.FloatSites")
    A("namespace Generated.FloatSites")
    A("open XrayModel.FloatSites")
    A("")
    A("def sites : List FSite := [")
    rows = []
    for rel, line, fn, expr, tag, why in sites + [literal]:
        rows.append(f"  -- {why}\n  {{ file := {lean_str(rel)}, line := {line}, fn := {lean_str(fn)}, expr := {lean_str(expr)}, tag := .{tag} }}")
    A(",\n".join(rows))
    A("]")
    A("")
    A(f"/-- calls of the checked constructor `XValue::float(` in the crate -/\ndef checkedCalls : Nat := {checked_calls}")
    A(f"/-- occurrences of the constructor in pattern position (they build nothing) -/\ndef patternUses : Nat := {patterns}")
    A("")
    A("end Generated.FloatSites")
    return "\n".join(L) + "\n"


def main():
    sites, literal, patterns, checked = scan()
    text = emit(sites, literal, patterns, checked)
    out = sys.argv[1] if len(sys.argv) > 1 and not sys.argv[1].startswith("-") else OUT
    old = open(out).read() if os.path.exists(out) else None
    if old != text:
        os.makedirs(os.path.dirname(out), exist_ok=True)
        with open(out, "w") as fh:
            fh.write(text)
    if "-v" in sys.argv:
        for s in sites + [literal]:
            print(s)
        print("patterns", patterns, "checked calls", checked)
    return 0


if __name__ == "__main__":
    sys.exit(main())
