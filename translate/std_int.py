#!/usr/bin/env python3
"""xray -> Lean translator for the first-order integer functions of the standard library
(`/repo/src/builtin/include.rs`, the string constant INCLUDE).

  python3 translate/std_int.py [--repo /repo] [--out lean/Generated/StdInt.lean]

For every function listed in WANTED the translator
  * finds the definition by name and parameter types (exactly one must exist),
  * parses header and body with a Pratt parser whose operator table (precedence, associativity, token and
    the builtin each operator desugars to) is itself extracted from src/parser.rs (CLIMBER and the match in
    parse_expr) and src/xray.pest,
  * resolves every call by name and argument types against (a) the translated functions and (b) the table
    BUILTINS below (the native int/bool/float operations the functions may use),
  * emits three Lean definitions:  `f`  (the value, over Int / Bool / generated structures / an abstract
    float carrier),  `f_dom : Bool`  (no sub-expression that is evaluated yields an error value: division
    by zero, negative power, 0**0, fuel of a recursive helper exhausted; `if`, `&&`, `||` are lazy as in
    the interpreter) and `f_side : Bool` (exactness side conditions of idioms that go through f64 in the
    implementation: `trunc(X / Y)`, `floor(X / Y)` on ints are emitted as Int.tdiv / Int.fdiv and are exact
    only while |X|, |Y| < 2^53).
It FAILS CLOSED: any token, statement, expression form, type, call or operator that is not recognised
inside an extracted function raises TranslateError (exit status 1, nothing is written); `./check C20` then
reports a broken tie.  Nothing is ever skipped inside a wanted function.

The output also contains a dispatcher `stdCall` used by the `conv` engine of xmodel, so every generated
definition is run against the interpreter by the correspondence check.
"""
import argparse, os, re, sys, hashlib


class TranslateError(Exception):
    pass


def fail(msg):
    raise TranslateError(msg)


# --------------------------------------------------------------------------------------------- what to extract
# (xray name, parameter types, lean name)
WANTED = [
    ("abs", ["int"], "abs"),
    ("sign", ["int"], "sign"),
    ("gcd", ["int", "int"], "gcd"),
    ("lcm", ["int", "int"], "lcm"),
    ("date", ["int"], "date"),
    ("julian_day", ["Date"], "julian_day"),
    ("weekday", ["Date"], "weekday"),
    ("fraction", ["int"], "fraction1"),
    ("fraction", ["int", "int"], "fraction"),
    ("abs", ["Fraction"], "fr_abs"),
    ("add", ["Fraction", "Fraction"], "fr_add"),
    ("sub", ["Fraction", "Fraction"], "fr_sub"),
    ("mul", ["Fraction", "Fraction"], "fr_mul"),
    ("div", ["Fraction", "Fraction"], "fr_div"),
    ("mod", ["Fraction", "Fraction"], "fr_mod"),
    ("neg", ["Fraction"], "fr_neg"),
    ("cmp", ["Fraction", "Fraction"], "fr_cmp"),
    ("eq", ["Fraction", "Fraction"], "fr_eq"),
    ("sign", ["Fraction"], "fr_sign"),
    ("floor", ["Fraction"], "fr_floor"),
    ("ceil", ["Fraction"], "fr_ceil"),
    ("trunc", ["Fraction"], "fr_trunc"),
    ("pow", ["Fraction", "int"], "fr_pow"),
    ("add", ["int", "float"], "add_int_float"),
    ("datetime", ["float"], "datetime"),
    ("unix", ["Datetime"], "unix"),
]
WANTED_STRUCTS = ["Date", "Fraction", "Datetime"]
WANTED_LETS = [("__std_unix_epoch", "std_unix_epoch")]

# fuel for recursive nested helpers: lean expression over the (already translated) argument strings.
# The theorems `gcd_total`/`gcd_spec` (XrayProofs/Conv.lean) prove that this fuel is never exhausted; if it
# were too small the `_dom` definition would answer false and those theorems would fail.
FUEL = {
    "gcd.helper": lambda args: f"(Int.natAbs ({args[0]}) + 1)",
}

F = "F"  # the abstract float carrier in the emitted Lean code

# native builtins: (name, arg types) -> (ret type, value template, [dom conditions], [side conditions])
# templates use {0} {1} … for the (parenthesised) argument strings
BUILTINS = {
    ("add", ("int", "int")): ("int", "({0} + {1})", [], []),
    ("sub", ("int", "int")): ("int", "({0} - {1})", [], []),
    ("mul", ("int", "int")): ("int", "({0} * {1})", [], []),
    ("neg", ("int",)): ("int", "(-{0})", [], []),
    ("pos", ("int",)): ("int", "{0}", [], []),
    ("mod", ("int", "int")): ("int", "(Int.fmod {0} {1})", ["decide ({1} ≠ 0)"], []),
    ("div_floor", ("int", "int")): ("int", "(Int.fdiv {0} {1})", ["decide ({1} ≠ 0)"], []),
    ("div_ceil", ("int", "int")): ("int", "(-(Int.fdiv (-{0}) {1}))", ["decide ({1} ≠ 0)"], []),
    ("pow", ("int", "int")): ("int", "({0} ^ (Int.toNat {1}))",
                             ["decide (0 ≤ {1})", "!(decide ({0} = 0) && decide ({1} = 0))"], []),
    ("lt", ("int", "int")): ("bool", "(decide ({0} < {1}))", [], []),
    ("gt", ("int", "int")): ("bool", "(decide ({0} > {1}))", [], []),
    ("le", ("int", "int")): ("bool", "(decide ({0} ≤ {1}))", [], []),
    ("ge", ("int", "int")): ("bool", "(decide ({0} ≥ {1}))", [], []),
    ("eq", ("int", "int")): ("bool", "(decide ({0} = {1}))", [], []),
    ("ne", ("int", "int")): ("bool", "(decide ({0} ≠ {1}))", [], []),
    ("not", ("bool",)): ("bool", "(!{0})", [], []),
    # float operations: abstract (structure FloatOps), see the header of the generated file
    ("mod", ("float", "float")): ("float", "(O.fmod {0} {1})", ["!(O.isZero {1})"], []),
    ("add", ("float", "float")): ("float", "(O.add {0} {1})", [], []),
    ("sub", ("float", "float")): ("float", "(O.sub {0} {1})", [], []),
    # int -> float conversion is exact below 2^53 (beyond that it rounds, far beyond it is an error value)
    ("to_float", ("int",)): ("float", "(O.ofInt {0})", [],
                             ["decide ({0} < 9007199254740992)", "decide (-9007199254740992 < {0})"]),
}
# idioms through f64:  outer(inner(x, y))
IDIOMS = {
    # trunc(int / int), floor(int / int): through f64 true division in the implementation
    ("trunc", "div", ("int", "int")): ("int", "(Int.tdiv {0} {1})", ["decide ({1} ≠ 0)"],
                                        ["decide ({0} < 9007199254740992)", "decide (-9007199254740992 < {0})",
                                         "decide ({1} < 9007199254740992)", "decide (-9007199254740992 < {1})"]),
    ("floor", "div", ("int", "int")): ("int", "(Int.fdiv {0} {1})", ["decide ({1} ≠ 0)"],
                                        ["decide ({0} < 9007199254740992)", "decide (-9007199254740992 < {0})",
                                         "decide ({1} < 9007199254740992)", "decide (-9007199254740992 < {1})"]),
    # floor(float / float): abstract
    ("floor", "div", ("float", "float")): ("int", "(O.floorDiv {0} {1})", ["!(O.isZero {1})"], []),
}

LEAN_HEADER = '''/-
GENERATED by /verif/translate/std_int.py from /repo/src/builtin/include.rs (INCLUDE) — do not edit.
Regenerated on every run of ./check C20; the theorems of Props/C20.lean are about these definitions.

  f       the value computed by the xray function f (shallow embedding over Int / Bool / structures)
  f_dom   true iff no evaluated sub-expression is an error value (division by zero, negative power, 0**0,
          fuel of a recursive helper exhausted); `if`, `&&`, `||` evaluate lazily as the interpreter does
  f_side  exactness side conditions of idioms that the implementation computes through f64

`%` on ints is the floored remainder (Int.fmod), `div_floor` is Int.fdiv, `div_ceil a b` is -((-a) fdiv b).
Floats are abstract: functions that touch a float take a carrier `F` and `O : FloatOps F`.
-/
namespace XrayGen

/-- the float operations the translated functions use; theorems quantify over `O` (with exactness
laws as hypotheses), the driver instantiates it with exact binary fixed point -/
structure FloatOps (F : Type) where
  ofInt : Int → F
  add : F → F → F
  sub : F → F → F
  fmod : F → F → F
  floorDiv : F → F → Int
  isZero : F → Bool
  lit : Int → Nat → F      -- the literal  m / 10^k  (k digits after the point), e.g. `60.0` = lit 600 1

/-- exact binary fixed point: the integer `v` stands for the real number `v / S` (S = 2^k in the driver).
All five operations are exact on such numbers whenever the literals are multiples of `1/S`. -/
def fixOps (S : Int) : FloatOps Int where
  ofInt i := i * S
  add a b := a + b
  sub a b := a - b
  fmod a b := Int.fmod a b
  floorDiv a b := Int.fdiv a b
  isZero a := decide (a = 0)
  lit m k := Int.fdiv (m * S) (10 ^ k)

'''


# --------------------------------------------------------------------------------------------- source access
def read_include(repo):
    p = os.path.join(repo, "src", "builtin", "include.rs")
    s = open(p, encoding="utf-8").read()
    m = re.search(r'pub const INCLUDE: &str = r#"(.*?)"#;', s, re.S)
    if not m:
        fail("include.rs: `pub const INCLUDE: &str = r#\"…\"#;` not found")
    return m.group(1)


def read_operator_table(repo):
    """-> {token: (precedence level (higher binds tighter), assoc 'L'|'R', builtin name)}, unary {token: builtin}"""
    ps = open(os.path.join(repo, "src", "parser.rs"), encoding="utf-8").read()
    pest = open(os.path.join(repo, "src", "xray.pest"), encoding="utf-8").read()
    m = re.search(r"PrecClimber::new\(vec!\[(.*?)\]\)", ps, re.S)
    if not m:
        fail("parser.rs: CLIMBER table not found")
    body = m.group(1)
    # entries are separated by top-level commas; inside an entry operators are joined by `|`
    entries, depth, cur = [], 0, ""
    for ch in body:
        if ch == "(":
            depth += 1
        if ch == ")":
            depth -= 1
        if ch == "," and depth == 0:
            entries.append(cur)
            cur = ""
        else:
            cur += ch
    if cur.strip():
        entries.append(cur)
    rules = {}
    for level, e in enumerate(entries):
        ops = re.findall(r"Operator::new\(Rule::(\w+),\s*(Left|Right)\)", e)
        rest = re.sub(r"Operator::new\(Rule::\w+,\s*(Left|Right)\)", "", e)
        if not ops or rest.replace("|", "").strip():
            fail(f"parser.rs: unrecognised CLIMBER entry {e.strip()!r}")
        for r, a in ops:
            rules[r] = (level + 1, a[0])
    sym = dict(re.findall(r"Rule::(BINARY_\w+)\s*=>\s*(\w+)_symbol", ps))
    table = {}
    for r, (lvl, a) in rules.items():
        mt = re.search(r"^\s*" + r + r'\s*=\s*\{\s*"([^"]+)"\s*\}', pest, re.M)
        if not mt or r not in sym:
            fail(f"operator rule {r}: token or builtin name not found")
        table[mt.group(1)] = (lvl, a, sym[r])
    unary = {}
    for r, f in re.findall(r'Rule::(UNARY_\w+)\s*=>\s*"(\w+)"', ps):
        mt = re.search(r"^\s*" + r + r'\s*=\s*\{\s*"([^"]+)"\s*\}', pest, re.M)
        if not mt:
            fail(f"unary rule {r}: token not found")
        unary[mt.group(1)] = f
    # the grammar must still make unary operators bind tighter than every binary one and accessors tightest
    for need in ["expression1 ~ (BINARY_OP ~ expression1)*", "(UNARY_OP)* ~ expression2", "expression3 ~ (accessor)*"]:
        if need not in pest:
            fail(f"xray.pest: expected rule shape `{need}` not found (expression grammar changed)")
    return table, unary


# --------------------------------------------------------------------------------------------- lexer
TOK_RE = re.compile(r"""
    (?P<ws>\s+|//[^\n]*|/\*.*?\*/)
  | (?P<float>\d[\d_]*\.\d[\d_]*(?:[eE][+-]?\d+)?)
  | (?P<int>\d[\d_]*)
  | (?P<id>[A-Za-z_][A-Za-z_0-9]*)
  | (?P<op>\*\*|->|::|\?=|==|!=|<=|>=|&&|\|\||[-+*/%<>=!&|^.,;:(){}\[\]?])
""", re.X | re.S)


def lex(src):
    out, i = [], 0
    while i < len(src):
        m = TOK_RE.match(src, i)
        if not m:
            fail(f"lexer: unrecognised input at {src[i:i+30]!r}")
        i = m.end()
        k = m.lastgroup
        if k == "ws":
            continue
        out.append((k, m.group(k)))
    out.append(("eof", ""))
    return out


class Parser:
    def __init__(self, toks, optable, unary, where):
        self.t, self.i, self.ops, self.unary, self.where = toks, 0, optable, unary, where

    def peek(self, k=0):
        return self.t[self.i + k]

    def next(self):
        x = self.t[self.i]
        self.i += 1
        return x

    def expect(self, val):
        k, v = self.next()
        if v != val:
            fail(f"{self.where}: expected {val!r}, found {v!r}")

    def ident(self):
        k, v = self.next()
        if k != "id":
            fail(f"{self.where}: expected an identifier, found {v!r}")
        return v

    # type: a plain name only (int, bool, float, struct names); anything else is not in the subset
    def type_(self):
        name = self.ident()
        if self.peek()[1] in ("<", "(", "["):
            fail(f"{self.where}: unsupported type syntax after {name!r}")
        return name

    def params(self):
        self.expect("(")
        ps = []
        while self.peek()[1] != ")":
            n = self.ident()
            self.expect(":")
            t = self.type_()
            if self.peek()[1] == "?=":
                fail(f"{self.where}: default parameter values are not in the translated subset")
            ps.append((n, t))
            if self.peek()[1] == ",":
                self.next()
        self.expect(")")
        return ps

    def function(self):
        """after `fn`: NAME (params) -> type { body }"""
        name = self.ident()
        if self.peek()[1] == "<":
            fail(f"{self.where}: generic function {name}")
        ps = self.params()
        self.expect("->")
        rt = self.type_()
        self.expect("{")
        nested, lets = [], []
        while True:
            k, v = self.peek()
            if k == "id" and v == "fn":
                self.next()
                nested.append(self.function())
            elif k == "id" and v == "let":
                self.next()
                n = self.ident()
                if self.peek()[1] == ":":
                    fail(f"{self.where}: explicit type on let {n}")
                self.expect("=")
                e = self.expr(0)
                self.expect(";")
                lets.append((n, e))
            else:
                break
        res = self.expr(0)
        self.expect("}")
        return {"name": name, "params": ps, "ret": rt, "nested": nested, "lets": lets, "result": res}

    def expr(self, minlvl):
        lhs = self.unary_expr()
        while True:
            k, v = self.peek()
            if k != "op" or v not in self.ops:
                break
            lvl, assoc, fn = self.ops[v]
            if lvl < minlvl:
                break
            self.next()
            rhs = self.expr(lvl + 1 if assoc == "L" else lvl)
            lhs = ("call", fn, [lhs, rhs])
        return lhs

    def unary_expr(self):
        k, v = self.peek()
        if k == "op" and v in self.unary:
            self.next()
            return ("call", self.unary[v], [self.unary_expr()])
        return self.postfix()

    def args(self):
        self.expect("(")
        a = []
        while self.peek()[1] != ")":
            a.append(self.expr(0))
            if self.peek()[1] == ",":
                self.next()
            elif self.peek()[1] != ")":
                fail(f"{self.where}: expected ',' or ')' in argument list, found {self.peek()[1]!r}")
        self.expect(")")
        return a

    def postfix(self):
        e = self.atom()
        while True:
            k, v = self.peek()
            if v == "::":
                self.next()
                e = ("field", e, self.ident())
            elif v == ".":
                self.next()
                f = self.ident()
                e = ("call", f, [e] + self.args())
            elif v in ("!", "?") and self.peek(1)[1] == ":":
                fail(f"{self.where}: union member access is not in the translated subset")
            elif v == "[":
                fail(f"{self.where}: indexing is not in the translated subset")
            else:
                return e

    def atom(self):
        k, v = self.next()
        if k == "int":
            return ("int", int(v.replace("_", "")))
        if k == "float":
            if "e" in v.lower():
                fail(f"{self.where}: float literal with exponent {v}")
            return ("float", v.replace("_", ""))
        if k == "id":
            if v in ("fn", "let", "struct", "union", "type"):
                fail(f"{self.where}: keyword {v} in expression position")
            if self.peek()[1] == "(":
                return ("call", v, self.args())
            if self.peek()[1] == "{":
                fail(f"{self.where}: specialisation syntax {v}{{…}}")
            return ("var", v)
        if v == "(":
            if self.peek()[1] == ")":
                fail(f"{self.where}: unit/tuple literal")
            e = self.expr(0)
            if self.peek()[1] == ",":
                fail(f"{self.where}: tuple literal")
            self.expect(")")
            return e
        fail(f"{self.where}: unexpected token {v!r} in expression")


# --------------------------------------------------------------------------------------------- top-level scan
def find_items(inc):
    """top-level `fn`, `struct`, `let` items of INCLUDE: list of (kind, name, source text)"""
    items = []
    for m in re.finditer(r"^(fn|struct|let)\s+([A-Za-z_][A-Za-z_0-9]*)", inc, re.M):
        kind, name = m.group(1), m.group(2)
        i = m.start()
        if kind == "fn":
            j = inc.index("{", i)
            # a `{` may also occur in a specialisation inside the header — not for the functions we want
            depth = 0
            k = j
            while True:
                c = inc[k]
                if c == "{":
                    depth += 1
                elif c == "}":
                    depth -= 1
                    if depth == 0:
                        break
                k += 1
            items.append((kind, name, inc[i:k + 1]))
        elif kind == "struct":
            k = inc.index(")", i)
            items.append((kind, name, inc[i:k + 1]))
        else:
            k = inc.index(";", i)
            items.append((kind, name, inc[i:k + 1]))
    return items


# --------------------------------------------------------------------------------------------- resolution
class Val:
    """a translated expression: type, lean term, dom conditions, side conditions (lists of Bool terms)"""
    def __init__(self, ty, lean, dom=(), side=()):
        self.ty, self.lean, self.dom, self.side = ty, lean, list(dom), list(side)


def trivially_true(c):
    """conditions on literals that hold: `decide (12 ≠ 0)`, `decide (60 < 9007199254740992)`, …"""
    m = re.fullmatch(r"decide \((-?\d+) (≠|<) (-?\d+)\)", c)
    if not m:
        return False
    a, b = int(m.group(1)), int(m.group(3))
    return a != b if m.group(2) == "≠" else a < b


def uniq(xs):
    out = []
    for x in xs:
        if x not in out and x != "true" and not trivially_true(x):
            out.append(x)
    return out


def conj(xs):
    xs = uniq(xs)
    if not xs:
        return "true"
    return "(" + " && ".join(xs) + ")" if len(xs) > 1 else xs[0]


def lean_ty(t, structs):
    if t == "int":
        return "Int"
    if t == "bool":
        return "Bool"
    if t == "float":
        return F
    if t in structs:
        return t + (" " + F if structs[t]["float"] else "")
    fail(f"type {t!r} is not in the translated subset")


class Translator:
    def __init__(self, repo):
        self.inc = read_include(repo)
        self.optable, self.unary = read_operator_table(repo)
        self.items = find_items(self.inc)
        self.structs = {}      # name -> {"fields": [(n, t)], "float": bool}
        self.funcs = {}        # (name, argtypes) -> {"lean", "ret", "float", "fuel"}
        self.consts = {}       # xray name -> (lean name, type)
        self.out = []
        self.dispatch = []     # (lean name, [param types], ret type, needs O)
        self.sources = []

    def parser(self, src, where):
        return Parser(lex(src), self.optable, self.unary, where)

    # ---- structs
    def do_struct(self, name):
        srcs = [s for k, n, s in self.items if k == "struct" and n == name]
        if len(srcs) != 1:
            fail(f"struct {name}: {len(srcs)} definitions found")
        p = self.parser(srcs[0], f"struct {name}")
        p.expect("struct")
        p.ident()
        fields = p.params()
        for _, t in fields:
            if t not in ("int", "bool", "float") and t not in self.structs:
                fail(f"struct {name}: field type {t}")
        fl = any(t == "float" or (t in self.structs and self.structs[t]["float"]) for _, t in fields)
        self.structs[name] = {"fields": fields, "float": fl}
        self.sources.append(srcs[0])
        tp = f" ({F} : Type)" if fl else ""
        self.out.append(f"/-- `{srcs[0].strip()}` -/")
        self.out.append(f"structure {name}{tp} where")
        for n, t in fields:
            self.out.append(f"  {n} : {lean_ty(t, self.structs)}")
        if not fl:
            self.out.append("deriving DecidableEq, Repr")
        self.out.append("")

    def flat(self, t):
        """flattening of a type into scalar leaves: list of (path, scalar type)"""
        if t in ("int", "bool", "float"):
            return [("", t)]
        out = []
        for n, ft in self.structs[t]["fields"]:
            for p, st in self.flat(ft):
                out.append(("." + n + p, st))
        return out

    # ---- expressions
    def tr(self, e, env, ctx):
        k = e[0]
        if k == "int":
            return Val("int", str(e[1]))
        if k == "float":
            whole, frac = e[1].split(".")
            ctx["float"] = True
            return Val("float", f"(O.lit {int(whole + frac)} {len(frac)})")
        if k == "var":
            if e[1] in env:
                return env[e[1]]
            if e[1] in self.consts:
                ln, t = self.consts[e[1]]
                return Val(t, ln)
            fail(f"{ctx['where']}: unknown variable {e[1]!r}")
        if k == "field":
            v = self.tr(e[1], env, ctx)
            if v.ty not in self.structs:
                fail(f"{ctx['where']}: field access ::{e[2]} on non-struct type {v.ty}")
            for n, t in self.structs[v.ty]["fields"]:
                if n == e[2]:
                    return Val(t, f"{v.lean}.{n}" if re.fullmatch(r"[\w.]+", v.lean) else f"({v.lean}).{n}", v.dom, v.side)
            fail(f"{ctx['where']}: struct {v.ty} has no field {e[2]}")
        if k == "call":
            return self.call(e[1], e[2], env, ctx)
        fail(f"{ctx['where']}: unsupported expression node {k}")

    def call(self, f, argexprs, env, ctx):
        where = ctx["where"]
        # lazy forms first
        if f == "if" and len(argexprs) == 3:
            c, a, b = (self.tr(x, env, ctx) for x in argexprs)
            if c.ty != "bool" or a.ty != b.ty:
                fail(f"{where}: if(…) with types {c.ty}, {a.ty}, {b.ty}")
            dom, side = list(c.dom), list(c.side)
            if uniq(a.dom) or uniq(b.dom):
                dom.append(f"(if {c.lean} then {conj(a.dom)} else {conj(b.dom)})")
            if uniq(a.side) or uniq(b.side):
                side.append(f"(if {c.lean} then {conj(a.side)} else {conj(b.side)})")
            return Val(a.ty, f"(if {c.lean} then {a.lean} else {b.lean})", dom, side)
        if f in ("and", "or") and len(argexprs) == 2:
            a, b = (self.tr(x, env, ctx) for x in argexprs)
            if a.ty == "bool" and b.ty == "bool":
                guard = f"!{a.lean}" if f == "and" else a.lean
                dom, side = list(a.dom), list(a.side)
                if uniq(b.dom):
                    dom.append(f"({guard} || {conj(b.dom)})")
                if uniq(b.side):
                    side.append(f"({guard} || {conj(b.side)})")
                return Val("bool", f"({a.lean} {'&&' if f == 'and' else '||'} {b.lean})", dom, side)
            fail(f"{where}: {f} on types {a.ty}, {b.ty}")
        # idioms through f64
        if len(argexprs) == 1 and argexprs[0][0] == "call" and len(argexprs[0][2]) == 2:
            inner = argexprs[0]
            ia = [self.tr(x, env, ctx) for x in inner[2]]
            key = (f, inner[1], tuple(x.ty for x in ia))
            if key in IDIOMS:
                rt, tmpl, dom, side = IDIOMS[key]
                if "O." in tmpl:
                    ctx["float"] = True
                ls = [x.lean for x in ia]
                return Val(rt, tmpl.format(*ls), sum((x.dom for x in ia), []) + [d.format(*ls) for d in dom],
                           sum((x.side for x in ia), []) + [s.format(*ls) for s in side])
        args = [self.tr(x, env, ctx) for x in argexprs]
        tys = tuple(a.ty for a in args)
        ls = [a.lean for a in args]
        dom = sum((a.dom for a in args), [])
        side = sum((a.side for a in args), [])
        # struct constructor
        if f in self.structs:
            want = tuple(t for _, t in self.structs[f]["fields"])
            if tys != want:
                fail(f"{where}: constructor {f} applied to {tys}, fields are {want}")
            if self.structs[f]["float"]:
                ctx["float"] = True
            return Val(f, "(" + f"{f}.mk " + " ".join(ls) + ")", dom, side)
        # nested helper of the current function
        if f in ctx.get("nested", {}):
            h = ctx["nested"][f]
            if tys != h["types"]:
                fail(f"{where}: nested {f} applied to {tys}")
            pre = (h["fuel"](ls) + " ") if h["fuel"] else ""
            if h["fuel"] is None and ctx.get("self") == f:
                pre = "fuel "
            return Val(h["ret"], f"({h['lean']} {pre}" + " ".join(ls) + ")",
                       dom + [f"({h['lean']}_dom {pre}" + " ".join(ls) + ")"], side)
        # translated function
        if (f, tys) in self.funcs:
            g = self.funcs[(f, tys)]
            o = "O " if g["float"] else ""
            if g["float"]:
                ctx["float"] = True
            app = " ".join(ls)
            d2 = dom + ([f"({g['lean']}_dom {o}{app})"] if g["has_dom"] else [])
            s2 = side + ([f"({g['lean']}_side {o}{app})"] if g["has_side"] else [])
            return Val(g["ret"], f"({g['lean']} {o}{app})", d2, s2)
        if (f, tys) in BUILTINS:
            rt, tmpl, bd, bs = BUILTINS[(f, tys)]
            if "O." in tmpl:
                ctx["float"] = True
            return Val(rt, tmpl.format(*ls), dom + [d.format(*ls) for d in bd], side + [s.format(*ls) for s in bs])
        fail(f"{where}: call {f}{tys} is neither a translated function nor a known builtin")

    # ---- functions
    def emit_fn(self, fn, lean, where, nested_ctx=None, recursive_fuel=False, self_name=None):
        env, ctx = {}, {"where": where, "float": False, "nested": nested_ctx or {}, "self": self_name}
        used = set()
        for n, t in fn["params"]:
            lean_ty(t, self.structs)
            env[n] = Val(t, n)
            used.add(n)
        lets = []
        for n, e in fn["lets"]:
            v = self.tr(e, env, ctx)
            ln = n
            c = 0
            while ln in used:
                c += 1
                ln = f"{n}_{c}"
            used.add(ln)
            lets.append((ln, v.lean))
            env[n] = Val(v.ty, ln, v.dom, v.side)
        res = self.tr(fn["result"], env, ctx)
        if res.ty != fn["ret"]:
            fail(f"{where}: body has type {res.ty}, declared {fn['ret']}")
        fl = ctx["float"] or any(t == "float" or (t in self.structs and self.structs[t]["float"]) for _, t in fn["params"])
        binders = (f"{{{F} : Type}} (O : FloatOps {F}) " if fl else "") + ("(fuel : Nat) " if recursive_fuel else "") + \
            " ".join(f"({n} : {lean_ty(t, self.structs)})" for n, t in fn["params"])
        dom, side = conj(res.dom), conj(res.side)

        def body(final, zero):
            ls = []
            ind = "  "
            if recursive_fuel:
                ls.append("  match fuel with")
                ls.append(f"  | 0 => {zero}")
                ls.append("  | fuel + 1 =>")
                ind = "    "
            for ln, le in lets:
                ls.append(f"{ind}let {ln} := {le}")
            ls.append(f"{ind}{final}")
            return ls
        zero_val = {"int": "0", "bool": "false"}.get(fn["ret"])
        if recursive_fuel and zero_val is None:
            fail(f"{where}: recursive helper with return type {fn['ret']}")
        self.out.append(f"def {lean} {binders} : {lean_ty(fn['ret'], self.structs)} :=")
        self.out += body(res.lean, zero_val)
        self.out.append("")
        has_dom = dom != "true" or recursive_fuel
        has_side = side != "true"
        if has_dom:
            self.out.append(f"def {lean}_dom {binders} : Bool :=")
            self.out += body(dom, "false")
            self.out.append("")
        if has_side:
            if recursive_fuel:
                fail(f"{where}: side conditions inside a recursive helper")
            self.out.append(f"def {lean}_side {binders} : Bool :=")
            self.out += body(side, "false")
            self.out.append("")
        return fl, has_dom, has_side

    def do_fn(self, name, ptypes, lean):
        cands = []
        for k, n, s in self.items:
            if k == "fn" and n == name:
                hdr = s[:s.index("{")]
                # cheap pre-filter on the header so that unrelated overloads (generic, callable types …) need not parse
                m = re.match(r"fn\s+\w+\s*\(([^()]*)\)\s*->", hdr)
                if not m:
                    continue
                tys = [x.split(":")[1].strip() for x in m.group(1).split(",") if x.strip()]
                if tys == ptypes:
                    cands.append(s)
        if len(cands) != 1:
            fail(f"fn {name}({', '.join(ptypes)}): {len(cands)} definitions found in INCLUDE")
        src = cands[0]
        where = f"fn {name}({', '.join(ptypes)})"
        p = self.parser(src, where)
        p.expect("fn")
        fn = p.function()
        if p.peek()[0] != "eof":
            fail(f"{where}: trailing tokens after the function")
        self.sources.append(src)
        self.out.append("/-- ```\n" + src.strip() + "\n``` -/")
        nested = {}
        for h in fn["nested"]:
            if h["nested"] or h["lets"]:
                fail(f"{where}: nested function {h['name']} with its own lets/nested functions")
            hl = f"{lean}_{h['name']}"
            key = f"{name}.{h['name']}"
            rec = self.mentions(h["result"], h["name"])
            if rec and key not in FUEL:
                fail(f"{where}: recursive helper {h['name']} without a fuel measure")
            types = tuple(t for _, t in h["params"])
            # inside the helper a self call passes the decremented fuel
            inner = {h["name"]: {"lean": hl, "ret": h["ret"], "types": types, "fuel": None}}
            # the helper must be closed: only its own parameters are in scope (emit_fn's env has only them)
            flh, _, sd = self.emit_fn(h, hl, f"{where}/{h['name']}", nested_ctx=inner, recursive_fuel=rec, self_name=h["name"])
            if flh or sd:
                fail(f"{where}: helper {h['name']} uses floats or f64 idioms")
            if not rec:
                fail(f"{where}: non-recursive nested helper {h['name']} (not needed so far; refusing)")
            nested[h["name"]] = {"lean": hl, "ret": h["ret"], "types": types, "fuel": FUEL[key]}
        fl, has_dom, has_side = self.emit_fn(fn, lean, where, nested_ctx=nested)
        self.funcs[(name, tuple(ptypes))] = {"lean": lean, "ret": fn["ret"], "float": fl, "has_dom": has_dom, "has_side": has_side}
        self.dispatch.append((lean, ptypes, fn["ret"], fl, has_dom, has_side))

    def mentions(self, e, name):
        if e[0] == "call":
            return e[1] == name or any(self.mentions(a, name) for a in e[2])
        if e[0] == "field":
            return self.mentions(e[1], name)
        return False

    def do_let(self, name, lean):
        srcs = [s for k, n, s in self.items if k == "let" and n == name]
        if len(srcs) != 1:
            fail(f"let {name}: {len(srcs)} definitions found")
        p = self.parser(srcs[0], f"let {name}")
        p.expect("let")
        p.ident()
        p.expect("=")
        e = p.expr(0)
        p.expect(";")
        ctx = {"where": f"let {name}", "float": False}
        v = self.tr(e, {}, ctx)
        if uniq(v.dom) or uniq(v.side) or ctx["float"]:
            fail(f"let {name}: value is not an unconditional integer structure")
        self.consts[name] = (lean, v.ty)
        self.sources.append(srcs[0])
        self.out.append(f"/-- `{srcs[0].strip()}` -/")
        self.out.append(f"def {lean} : {lean_ty(v.ty, self.structs)} := {v.lean}")
        self.out.append("")

    # ---- dispatcher for the driver
    def emit_dispatch(self):
        o = self.out
        o.append("/-! ### dispatcher used by the `conv` engine of xmodel -/")
        o.append("")
        o.append("def showB (b : Bool) : String := if b then \"true\" else \"false\"")
        o.append("")
        o.append("/-- `stdCall O showF f ints floats`: run the generated definition `f` on flattened arguments (scalar")
        o.append("leaves in order; int/bool leaves come from `ints`, float leaves from `floats`).")
        o.append("Answers `err` when `f_dom` is false, `inexact` when `f_side` is false, else the flattened result. -/")
        o.append(f"def stdCall {{{F} : Type}} (O : FloatOps {F}) (showF : {F} → String) (f : String) (ints : List Int) (floats : List {F}) : Option String :=")
        o.append("  match f, ints, floats with")
        for lean, ptypes, ret, fl, has_dom, has_side in self.dispatch:
            ivars, fvars, args = [], [], []
            for pi, t in enumerate(ptypes):
                leaves = self.flat(t)
                names = []
                for li, (path, st) in enumerate(leaves):
                    v = f"a{pi}_{li}"
                    if st == "float":
                        fvars.append(v)
                        names.append(v)
                    elif st == "bool":
                        ivars.append(v)
                        names.append(f"(decide ({v} ≠ 0))")
                    else:
                        ivars.append(v)
                        names.append(v)
                args.append(self.build(t, iter(names)))
            ip = "[" + ", ".join(ivars) + "]"
            fp = "[" + ", ".join(fvars) + "]"
            app = ("O " if fl else "") + " ".join(args)
            shows = []
            for path, st in self.flat(ret):
                acc = f"(r{path})" if path else "r"
                shows.append({"int": f"toString {acc}", "bool": f"showB {acc}", "float": f"showF {acc}"}[st])
            show = " ++ \" \" ++ ".join(shows)
            body = f"let r := {lean} {app}; some ({show})"
            if has_side:
                body = f"if !({lean}_side {app}) then some \"inexact\" else {body}"
            if has_dom:
                body = f"if !({lean}_dom {app}) then some \"err\" else {body}"
            o.append(f"  | \"{lean}\", {ip}, {fp} => {body}")
        o.append("  | _, _, _ => none")
        o.append("")
        o.append("def stdNames : List String := [" + ", ".join(f'"{d[0]}"' for d in self.dispatch) + "]")
        o.append("")

    def build(self, t, it):
        if t in ("int", "bool", "float"):
            return next(it)
        return "(" + f"{t}.mk " + " ".join(self.build(ft, it) for _, ft in self.structs[t]["fields"]) + ")"

    def run(self):
        for s in WANTED_STRUCTS:
            self.do_struct(s)
        done_lets = set()
        for name, ptypes, lean in WANTED:
            # top-level constants are emitted just before the first function that follows their struct
            for ln, ll in WANTED_LETS:
                if ln not in done_lets and name in ("datetime", "unix"):
                    self.do_let(ln, ll)
                    done_lets.add(ln)
            self.do_fn(name, ptypes, lean)
        self.emit_dispatch()
        digest = hashlib.sha256("\n".join(self.sources).encode()).hexdigest()[:16]
        text = LEAN_HEADER + "\n".join(self.out) + f"\nend XrayGen\n-- source digest {digest}\n"
        return text


def translate(repo, out):
    text = Translator(repo).run()
    os.makedirs(os.path.dirname(out), exist_ok=True)
    old = open(out).read() if os.path.exists(out) else None
    if old != text:
        with open(out, "w") as fh:
            fh.write(text)
    return text


def main():
    ap = argparse.ArgumentParser()
    here = os.path.dirname(os.path.dirname(os.path.abspath(__file__)))
    ap.add_argument("--repo", default=os.environ.get("XRAY_REPO", "/repo"))
    ap.add_argument("--out", default=os.path.join(here, "lean", "Generated", "StdInt.lean"))
    a = ap.parse_args()
    try:
        translate(a.repo, a.out)
    except TranslateError as e:
        print(f"TRANSLATE-ERROR: {e}", file=sys.stderr)
        return 1
    return 0


if __name__ == "__main__":
    sys.exit(main())
