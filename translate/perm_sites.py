#!/usr/bin/env python3
"""C11 translator: /repo/src  ->  /verif/lean/Generated/Permissions.lean   (python stdlib only)

Extracts, on every run,
 (a) the `Permission` constants of src/builtin/builtin_permissions.rs with id and default;
 (b) the effect-site table: every closure / function of the crate (the host program main.rs and the
     verification hooks excluded) that contains an *effect token*
        writer : `.stdout` (the injected writer), `print!/println!/eprint!/eprintln!/dbg!`, `io::stdout`
        clock  : `.time_provider`, `SystemTime::now`
        rng    : `get_rng(`-style access to the `rng` field, `from_entropy`, `thread_rng`, `OsRng`
        regex  : `Regex::new(`, `DFA::new(`, `PikeVM::new(`, `RegexBuilder`, `regex::`/`regex_automata::` builders
        sleep  : `sleep(`
     together with the steps of that closure in textual order: `check P` for every statement-level
     `check_permission(&P)?` of the closure body, `arg i` for every argument evaluation `eval(&args[i]…`
     (raise = wrapped in xraise!), `effect kind`.
 A function (not a closure registered as a builtin) that contains an effect token without a guard is a *carrier*:
 every call of its name anywhere in the crate is then an effect token itself (fixpoint).  Recognised exemptions,
 listed in the table with their reason: a regex built from a string literal inside `lazy_static!`
 (a fixed pattern of the interpreter, not program-directed), a print inside `if CONST {` for a
 `const CONST: bool = false`, a print directly followed by `unreachable!()`.

Fail closed: a guard that is not a statement `…check_permission(&CONST)?` of a known constant directly in the body of
a closure enclosing the effect does not count; the site is then emitted with no `check` step, `sitesGuarded`
is false and the theorem `sites_guarded` no longer checks.  Anything unparsable aborts with exit code 3."""
import os
import re
import sys

sys.path.insert(0, os.path.dirname(os.path.abspath(__file__)))
from rustscan import blank, blocks, enclosing, line_of, rust_files, lean_str, ScanError  # noqa: E402

REPO = os.environ.get("XRAY_REPO", "/repo")
OUT = os.path.join(os.path.dirname(os.path.dirname(os.path.abspath(__file__))), "lean", "Generated", "Permissions.lean")

PRIMS = [
    ("writer", r"\.stdout\b", "stdout"),
    ("writer", r"\b(?:print|println|eprint|eprintln|dbg)!", "print!"),
    ("writer", r"\bio::stdout\b|\bio::stderr\b", "io::stdout"),
    ("clock", r"\.time_provider\b", "time_provider"),
    ("clock", r"\bSystemTime::now\b", "SystemTime::now"),
    ("rng", r"\.rng\b", "rng"),
    ("rng", r"\bfrom_entropy\b|\bthread_rng\b|\bOsRng\b|\bfrom_rng\b|\bseed_from_u64\b", "entropy"),
    ("regex", r"\b(?:Regex|DFA|PikeVM|RegexBuilder|RegexSet)::(?:new|builder|new_many)\b", "Regex::new"),
    ("sleep", r"\bsleep\s*\(", "sleep"),
]
CHECK_RE = re.compile(r"check_permission\s*\(\s*&\s*([A-Za-z_:]+)\s*\)\s*(\?)?")
ARG_RE = re.compile(r"(xraise!\s*\(\s*|xraise_opt!\s*\(\s*)?(?:eval\s*\(\s*&\s*args\s*\[\s*(\d+)\s*\]|args\s*\.\s*get\s*\(\s*(\d+)\s*\)\s*\.\s*map\s*\(\s*\|\s*e\s*\|\s*eval\s*\()")
REGISTER_RE = re.compile(r"\badd_func\s*\(|\badd_dyn_func\s*\(")
NAME_RE = re.compile(r"\badd_(?:dyn_)?func\s*\(\s*\"")


def die(msg):
    print("perm_sites: " + msg, file=sys.stderr)
    sys.exit(3)


def extract_permissions():
    p = os.path.join(REPO, "src", "builtin", "builtin_permissions.rs")
    src = open(p).read()
    code, strs = blank(src)
    perms = []
    for m in re.finditer(r"pub\s+const\s+([A-Z_0-9]+)\s*:\s*Permission\s*=\s*Permission::(\w+)\s*\(([^;]*)\)\s*;", code):
        const, ctor = m.group(1), m.group(2)
        lits = [t for (a, b, t) in strs if m.start(3) <= a < m.end(3)]
        if len(lits) != 1:
            die(f"permission {const}: cannot read its id")
        if ctor == "new_default_allowed":
            dflt = True
        elif ctor == "new_default_forbidden":
            dflt = False
        elif ctor == "new":
            mm = re.search(r",\s*(true|false)\s*$", code[m.start(3):m.end(3)])
            if not mm:
                die(f"permission {const}: cannot read its default")
            dflt = mm.group(1) == "true"
        else:
            die(f"permission {const}: unknown constructor {ctor}")
        perms.append((const, lits[0], dflt))
    n_decl = len(re.findall(r"\bconst\b", code))
    if n_decl != len(perms) or not perms:
        die(f"builtin_permissions.rs: {n_decl} const declarations but {len(perms)} recognised")
    # the constructors themselves (so that `new_default_allowed` really means default = true)
    psrc, _ = blank(open(os.path.join(REPO, "src", "permissions.rs")).read())
    flat = re.sub(r"\s+", " ", psrc)
    for want in ("fn new_default_allowed(id: &'static str) -> Self { Self::new(id, true) }",
                 "fn new_default_forbidden(id: &'static str) -> Self { Self::new(id, false) }",
                 "fn new(id: &'static str, default: bool) -> Self { Self { id, default } }",
                 "pub fn get(&self, permission: &Permission) -> bool { *self.0.get(permission.id).unwrap_or(&permission.default) }",
                 "pub fn allow(&mut self, permission: &Permission) { self.0.insert(permission.id, true); }",
                 "pub fn forbid(&mut self, permission: &Permission) { self.0.insert(permission.id, false); }"):
        if want not in flat:
            die("permissions.rs no longer has the modelled shape: missing `" + want + "`")
    rsrc, _ = blank(open(os.path.join(REPO, "src", "runtime.rs")).read())
    flat = re.sub(r"\s+", " ", rsrc)
    want = ("pub fn check_permission(&self, permission: &Permission) -> RuntimeResult<()> { if self.permissions.get(permission) "
            "{ Ok(()) } else { Err(RuntimeViolation::PermissionError(permission.id)) } }")
    if want not in flat:
        die("runtime.rs: check_permission no longer has the modelled shape")
    return perms


class FileInfo:
    pass


def scan():
    perms = extract_permissions()
    const_ids = {c: (i, d) for c, i, d in perms}
    files = []
    for rel, path in rust_files(os.path.join(REPO, "src"), exclude=("main.rs", "builtin/verif_hooks")):
        fi = FileInfo()
        fi.rel, fi.src = rel, open(path).read()
        try:
            fi.code, fi.strings = blank(fi.src)
            fi.blocks = blocks(fi.code)
        except ScanError as e:
            die(f"{rel}: {e}")
        fi.false_consts = set(re.findall(r"\bconst\s+([A-Z_0-9]+)\s*:\s*bool\s*=\s*false\s*;", fi.code))
        files.append(fi)

    exempt = []       # (file, line, token, reason)
    carriers = {}     # fn name -> (kind, file, line)
    sites = {}        # (file, unit.open) -> dict

    def string_at(fi, off):
        for a, b, t in fi.strings:
            if a == off:
                return t
        return None

    def is_exempt(fi, kind, tok, off, encl):
        if tok == "Regex::new":
            m = re.compile(r"\s*\(\s*").match(fi.code, fi.code.find("(", off) if fi.code.find("(", off) >= 0 else off)
            par = fi.code.find("(", off)
            nxt = re.compile(r"\(\s*").match(fi.code, par)
            lit = string_at(fi, nxt.end()) if nxt else None
            if lit is None and nxt and fi.code[nxt.end()] == "r":
                lit = next((t for a, b, t in fi.strings if a == nxt.end()), None)
            if lit is not None and any(b.kind == "lazy_static" for b in encl):
                return "fixed pattern (string literal) in lazy_static!"
        if tok == "print!":
            for b in encl:
                m = re.search(r"\bif\s+([A-Z_0-9]+)\s*$", b.header.rstrip())
                if m and m.group(1) in fi.false_consts:
                    return f"dead code: inside `if {m.group(1)}` with const {m.group(1)}: bool = false"
            # a diagnostic directly followed by unreachable!()
            semi = fi.code.find(";", off)
            if semi >= 0 and re.compile(r"\s*unreachable!\s*\(\s*\)").match(fi.code, semi + 1):
                return "diagnostic directly followed by unreachable!()"
        return None

    def tokens_of(fi, extra):
        """(offset, kind, tokenname) for primitive tokens and calls of carriers"""
        out = []
        for kind, rx, name in PRIMS:
            for m in re.finditer(rx, fi.code):
                if name == "sleep" and re.search(r"\bfn\s+$", fi.code[max(0, m.start() - 12):m.start()]):
                    continue
                out.append((m.start(), kind, name))
        for cname, (kind, _f, _l) in extra.items():
            for m in re.finditer(r"(?<![A-Za-z0-9_])" + re.escape(cname) + r"\s*\(", fi.code):
                if re.search(r"\bfn\s+$", fi.code[max(0, m.start() - 12):m.start()]):
                    continue
                out.append((m.start(), kind, "call:" + cname))
        return sorted(set(out))

    changed = True
    rounds = 0
    while changed:
        changed = False
        rounds += 1
        if rounds > 20:
            die("carrier fixpoint does not converge")
        sites.clear()
        exempt.clear()
        for fi in files:
            for off, kind, tok in tokens_of(fi, carriers):
                encl = enclosing(fi.blocks, off)
                why = is_exempt(fi, kind, tok, off, encl)
                if why:
                    exempt.append((fi.rel, line_of(fi.src, off), tok, why))
                    continue
                units = [b for b in encl if b.kind in ("closure", "fn")]
                if not units:
                    # a static initialiser outside any function: nothing can guard it
                    key = (fi.rel, -1)
                    st = sites.setdefault(key, {"file": fi.rel, "unit": None, "fi": fi, "fn": "<static>", "effects": []})
                    st["effects"].append((off, kind, tok))
                    continue
                # innermost fn item
                fn_idx = next((i for i, b in enumerate(units) if b.kind == "fn"), None)
                if fn_idx is None:
                    key = (fi.rel, -1)
                    st = sites.setdefault(key, {"file": fi.rel, "unit": None, "fi": fi, "fn": "<static>", "effects": []})
                    st["effects"].append((off, kind, tok))
                    continue
                fnb = units[fn_idx]
                cands = units[:fn_idx + 1]          # closures inside the fn, innermost first, then the fn body
                chosen = None
                for u in cands:
                    if guards_in(fi, u, off, const_ids):
                        chosen = u
                        break
                registers = bool(REGISTER_RE.search(fi.code[fnb.open:fnb.close]))
                if chosen is None:
                    if not registers:
                        # helper function: the effect is exported to its callers
                        if fnb.name not in carriers:
                            carriers[fnb.name] = (kind, fi.rel, line_of(fi.src, fnb.open))
                            changed = True
                        elif carriers[fnb.name][0] != kind and carriers[fnb.name][1:] != (fi.rel, line_of(fi.src, fnb.open)):
                            pass
                        continue
                    closures = [u for u in cands if u.kind == "closure"]
                    chosen = closures[-1] if closures else fnb
                key = (fi.rel, chosen.open)
                s = sites.setdefault(key, {"file": fi.rel, "unit": chosen, "fi": fi, "fn": fnb.name, "effects": []})
                s["effects"].append((off, kind, tok))

    # a carrier may have the same name as an unrelated function: calls are matched by name only (over-approximation)
    out_sites = []
    for key in sorted(sites):
        s = sites[key]
        fi, u = s["fi"], s["unit"]
        if u is None:
            out_sites.append({"file": s["file"], "line": line_of(fi.src, s["effects"][0][0]), "fn": "<static>", "name": "",
                              "closure": False, "steps": [("effect", k, t) for _, k, t in sorted(s["effects"])],
                              "eff_lines": sorted({line_of(fi.src, o) for o, _, _ in s["effects"]})})
            continue
        steps = []
        for m in CHECK_RE.finditer(fi.code, u.open, u.close):
            inner = enclosing(fi.blocks, m.start())[0]
            const = m.group(1).split("::")[-1]
            if inner is u and m.group(2) == "?" and const in const_ids and stmt_level(fi, m):
                steps.append((m.start(), ("check", const)))
            else:
                steps.append((m.start(), ("weakcheck", const)))
        for m in ARG_RE.finditer(fi.code, u.open, u.close):
            idx = int(m.group(2) if m.group(2) is not None else m.group(3))
            steps.append((m.start(), ("arg", idx, bool(m.group(1)))))
        for off, kind, tok in s["effects"]:
            steps.append((off, ("effect", kind, tok)))
        steps.sort(key=lambda t: t[0])
        # name under which the builtin is registered: first string literal after add_func( / add_dyn_func( in the fn
        fnb = [b for b in enclosing(fi.blocks, u.open + 1) if b.kind == "fn"]
        fnb = fnb[0] if fnb else u
        name = ""
        m = NAME_RE.search(fi.code, fnb.open, fnb.close)
        if m:
            name = string_at(fi, m.end() - 1) or ""
        out_sites.append({"file": s["file"], "line": line_of(fi.src, u.open), "fn": s["fn"], "name": name,
                          "closure": u.kind == "closure", "steps": [t[1] for t in steps],
                          "eff_lines": sorted({line_of(fi.src, o) for o, _, _ in s["effects"]})})
    return perms, out_sites, carriers, sorted(set(exempt))


def stmt_level(fi, m):
    """the check is a whole statement: preceded (modulo the receiver chain) by `;` or `{`, followed by `;`"""
    j = m.start() - 1
    while j >= 0 and (fi.code[j].isalnum() or fi.code[j] in "_.() \n\t"):
        j -= 1
    if j >= 0 and fi.code[j] not in ";{":
        return False
    k = m.end()
    while k < len(fi.code) and fi.code[k] in " \n\t":
        k += 1
    return k < len(fi.code) and fi.code[k] == ";"


def guards_in(fi, u, off, const_ids):
    """statement-level `check_permission(&CONST)?` of a known constant, directly in u's body, before off"""
    res = []
    for m in CHECK_RE.finditer(fi.code, u.open, min(off, u.close)):
        inner = enclosing(fi.blocks, m.start())[0]
        const = m.group(1).split("::")[-1]
        if inner is u and m.group(2) == "?" and const in const_ids and stmt_level(fi, m):
            res.append(const)
    return res


def emit(perms, sites, carriers, exempt):
    L = []
    A = L.append
    A("/- GENERATED by /verif/translate/perm_sites.py from /repo/src on every run of `./check C11` — do not edit.")
    A("   (a) the Permission constants of src/builtin/builtin_permissions.rs, (b) the effect-site table. -/")
    A("import XrayModel.Perm")
    A("namespace Generated.Permissions")
    A("open XrayModel.Perm")
    A("")
    for const, pid, d in perms:
        A(f"def {const} : Permission := ⟨{lean_str(pid)}, {'true' if d else 'false'}⟩")
    A("")
    A("/-- (constant name, permission) in declaration order -/")
    A("def permissions : List (String × Permission) := [" + ", ".join(f"({lean_str(c)}, {c})" for c, _, _ in perms) + "]")
    A("")
    A("/-- effect sites: one entry per builtin closure (or guarded function) that contains an effect token;")
    A("    `steps` is the textual order of guard / argument evaluation / effect inside it -/")
    A("def sites : List Site := [")
    rows = []
    for s in sites:
        st = []
        for t in s["steps"]:
            if t[0] == "check":
                st.append(f".check {t[1]}")
            elif t[0] == "weakcheck":
                st.append(f".weakCheck {lean_str(t[1])}")
            elif t[0] == "arg":
                st.append(f".arg {t[1]} {'true' if t[2] else 'false'}")
            else:
                st.append(f".effect .{t[1]} {lean_str(t[2])}")
        rows.append(f"  {{ file := {lean_str(s['file'])}, line := {s['line']}, fn := {lean_str(s['fn'])}, name := {lean_str(s['name'])}, "
                    f"closure := {'true' if s['closure'] else 'false'},\n    steps := [{', '.join(st)}] }}")
    A(",\n".join(rows))
    A("]")
    A("")
    A("/-- helper functions that perform an effect without a guard of their own; every call of the name is an effect token -/")
    A("def carriers : List (String × Kind × String × Nat) := [" +
      ", ".join(f"({lean_str(n)}, .{k}, {lean_str(f)}, {l})" for n, (k, f, l) in sorted(carriers.items())) + "]")
    A("")
    A("/-- effect tokens that are exempt, with the recognised reason -/")
    A("def exempt : List (String × Nat × String × String) := [" +
      ", ".join(f"({lean_str(f)}, {l}, {lean_str(t)}, {lean_str(w)})" for f, l, t, w in exempt) + "]")
    A("")
    A("end Generated.Permissions")
    return "\n".join(L) + "\n"


def main():
    perms, sites, carriers, exempt = scan()
    text = emit(perms, sites, carriers, exempt)
    out = sys.argv[1] if len(sys.argv) > 1 else OUT
    old = open(out).read() if os.path.exists(out) else None
    if old != text:
        os.makedirs(os.path.dirname(out), exist_ok=True)
        with open(out, "w") as fh:
            fh.write(text)
    if "-v" in sys.argv:
        for s in sites:
            print(s["file"], s["line"], s["name"], s["steps"])
        print("carriers", carriers)
        print("exempt", exempt)
    return 0


if __name__ == "__main__":
    sys.exit(main())
