#!/usr/bin/env python3
"""C09 translator: /repo/src  ->  /verif/lean/Generated/SizeLimitUses.lean   (python stdlib only)

Extracts, on every run,
 (a) every *read* of `size_limit` in the crate (verification hooks excluded) and, for the variable it is bound to
     (`if let Some(L) = self.limits.size_limit {`), every occurrence of that variable with its syntactic form:
        sizeGt      `usize::from(stats.size) > L`
        sizePlusGt  `usize::from(stat.size) + n > L`
        sizeSatPlusGt  `usize::from(stat.size).saturating_add(n) > L`
        other       anything else (fail closed: `limit_uses_monotone` then no longer checks)
 (b) every write to the accounted total (`….size += / -= / =` on the runtime stats), classified as the add in
     `allocate`, the roll-back in `allocate`, the subtraction in `deallocate`, or `other`;
 (c) the shape of `Runtime::allocate`: does it still have the modelled text, and does it give the bytes back before
     returning `AllocationLimitReached` (`allocShape`); `deallocate` and `can_allocate_by` are compared with the modelled
     text as well (a difference clears `recognised`).
Exit code 3 only if a file cannot be scanned."""
import os
import re
import sys

sys.path.insert(0, os.path.dirname(os.path.abspath(__file__)))
from rustscan import blank, blocks, enclosing, line_of, rust_files, lean_str, ScanError  # noqa: E402

REPO = os.environ.get("XRAY_REPO", "/repo")
OUT = os.path.join(os.path.dirname(os.path.dirname(os.path.abspath(__file__))), "lean", "Generated", "SizeLimitUses.lean")

ALLOCATE_RE = re.compile(
    r"fn allocate<A: Allocateable \+ Debug>\( &self, value: &A, \) -> RuntimeResult<AllocatedMemory> \{ "
    r"if let Some\((\w+)\) = self\.limits\.size_limit \{ let size = value\.byte_size\(\); "
    r"let mut stats = self\.stats\.borrow_mut\(\); stats\.size \+= size; "
    r"(?:if VERBOSE_ALLOC \{ println!\([^;]*\); \} )?"
    r"if usize::from\(stats\.size\) > \1 \{ (stats\.size -= size; )?Err\(RuntimeViolation::AllocationLimitReached\) \} "
    r"else \{ Ok\(size\) \} \} else \{ Ok\(0\.into\(\)\) \} \}")
DEALLOCATE_TXT = ("fn deallocate(&self, size: AllocatedMemory) { if !size.is_zero() { self.stats.borrow_mut().size -= size } }")
CAN_ALLOCATE_TXT = ("fn can_allocate_by(&self, f: impl Fn() -> Option<usize>) -> RuntimeResult<()> { "
                    "if let Some(size_limit) = self.limits.size_limit { if let Some(size) = f() { let stat = self.stats.borrow(); "
                    "if usize::from(stat.size).saturating_add(size) > size_limit { return Err(RuntimeViolation::AllocationLimitReached); } } } Ok(()) }")
DROP_TXT = "fn drop(&mut self) { self.runtime.deallocate(self.size); }"
NEW_TXT = ("fn new(value: XValue<W, R, T>, runtime: RTCell<W, R, T>) -> RuntimeResult<Rc<Self>> { let size = runtime.allocate(&value)?; "
           "Ok(Rc::new(Self { runtime, size, value, })) }")


def die(msg):
    print("size_uses: " + msg, file=sys.stderr)
    sys.exit(3)


def scan():
    uses, muts = [], []
    for rel, path in rust_files(os.path.join(REPO, "src"), exclude=("builtin/verif_hooks",)):
        src = open(path).read()
        try:
            code, _ = blank(src)
            blks = blocks(code)
        except ScanError as e:
            die(f"{rel}: {e}")

        def fn_of(off):
            return next((b.name for b in enclosing(blks, off) if b.kind == "fn"), "<none>")

        for m in re.finditer(r"\bsize_limit\b", code):
            off = m.start()
            after = code[m.end():m.end() + 3].lstrip()
            before = code[max(0, off - 80):off]
            if after.startswith(":") and not after.startswith("::"):
                continue                      # field declaration or struct initialisation: not a read
            if re.search(r"Some\(\s*$", before) or re.search(r"\bif\s+let\s+Some\(\s*$", before):
                continue                      # the binder itself, handled with its read
            if re.search(r"[><+]\s*$", before):
                continue                      # an occurrence of a binder that happens to be called size_limit: handled below
            mb = re.search(r"\bif\s+let\s+Some\(\s*(\w+)\s*\)\s*=\s*self\s*\.\s*limits\s*\.\s*$", before)
            if not (mb and re.match(r"\s*\{", code[m.end():])):
                uses.append((rel, line_of(src, off), fn_of(off), ("other", re.sub(r"\s+", " ", src[max(0, off - 40):off + 30]).strip())))
                continue
            var = mb.group(1)
            blk_open = code.index("{", m.end())
            blk = next(b for b in blks if b.open == blk_open)
            n_occ = 0
            for mo in re.finditer(r"\b" + re.escape(var) + r"\b", code[blk.open:blk.close]):
                o = blk.open + mo.start()
                n_occ += 1
                # the statement text before the occurrence, back to `if` / `;` / `{`
                j = max(code.rfind(";", 0, o), code.rfind("{", 0, o), code.rfind("}", 0, o))
                lhs = re.sub(r"\s+", " ", code[j + 1:o]).strip()
                tail = code[o + len(var):o + len(var) + 6].lstrip()
                if re.fullmatch(r"if usize::from\(stats?\.size\) >", lhs) and tail.startswith("{"):
                    form = ("sizeGt",)
                elif re.fullmatch(r"if usize::from\(stats?\.size\) \+ \w+ >", lhs) and tail.startswith("{"):
                    form = ("sizePlusGt",)
                elif re.fullmatch(r"if usize::from\(stats?\.size\)\.saturating_add\(\w+\) >", lhs) and tail.startswith("{"):
                    form = ("sizeSatPlusGt",)
                else:
                    form = ("other", (lhs + " " + var + " " + tail)[:80])
                uses.append((rel, line_of(src, o), fn_of(o), form))
            if n_occ == 0:
                uses.append((rel, line_of(src, off), fn_of(off), ("other", "limit bound but never compared")))

        for m in re.finditer(r"(?:\bstats?\b|borrow_mut\(\))\s*\.\s*size\s*(\+=|-=|=(?!=))", code):
            off = m.start()
            fn = fn_of(off)
            op = m.group(1)
            encl = enclosing(blks, off)
            hdr = re.sub(r"\s+", " ", encl[0].header).strip() if encl else ""
            if fn == "allocate" and op == "+=":
                form = ("addInAllocate",)
            elif fn == "allocate" and op == "-=" and re.fullmatch(r"if usize::from\(stats\.size\) > \w+", hdr):
                form = ("rollBackInAllocate",)
            elif fn == "deallocate" and op == "-=" and hdr == "if !size.is_zero()":
                form = ("subInDeallocate",)
            else:
                form = ("other", re.sub(r"\s+", " ", src[off:off + 50]))
            muts.append((rel, line_of(src, off), fn, form))

    rsrc, _ = blank(open(os.path.join(REPO, "src", "runtime.rs")).read())
    flat = re.sub(r"\s+", " ", rsrc)
    ma = ALLOCATE_RE.search(flat)
    xsrc, _ = blank(open(os.path.join(REPO, "src", "xvalue.rs")).read())
    xflat = re.sub(r"\s+", " ", xsrc)
    recognised = bool(ma) and DEALLOCATE_TXT in flat and CAN_ALLOCATE_TXT in flat and xflat.count(DROP_TXT) == 2 and NEW_TXT in xflat
    notes = []
    if not ma:
        notes.append("fn allocate differs from the modelled text")
    if DEALLOCATE_TXT not in flat:
        notes.append("fn deallocate differs from the modelled text")
    if CAN_ALLOCATE_TXT not in flat:
        notes.append("fn can_allocate_by differs from the modelled text")
    if xflat.count(DROP_TXT) != 2:
        notes.append("the Drop impls of ManagedXValue / ManagedXError differ from the modelled text")
    if NEW_TXT not in xflat:
        notes.append("ManagedXValue::new differs from the modelled text")
    rolls = bool(ma and ma.group(2))
    return uses, muts, recognised, rolls, notes


def emit(uses, muts, recognised, rolls, notes):
    L = []
    A = L.append
    A("/- GENERATED by /verif/translate/size_uses.py from /repo/src on every run of `./check C09` — do not edit.")
    A("   Reads of `size_limit`, writes to the accounted total, and the shape of `Runtime::allocate`. -/")
    A("import XrayModel.Alloc")
    A("namespace Generated.SizeLimitUses")
    A("open XrayModel.Alloc")
    A("")

    def form(f):
        return "." + f[0] if len(f) == 1 else f".other {lean_str(f[1])}"

    A("def uses : List LimitUse := [")
    A(",\n".join(f"  {{ file := {lean_str(r)}, line := {l}, fn := {lean_str(fn)}, form := {form(f)} }}" for r, l, fn, f in uses))
    A("]")
    A("")
    A("def mutations : List SizeMutation := [")
    A(",\n".join(f"  {{ file := {lean_str(r)}, line := {l}, fn := {lean_str(fn)}, form := {form(f)} }}" for r, l, fn, f in muts))
    A("]")
    A("")
    for n in notes:
        A(f"-- {n}")
    A(f"def allocShape : AllocShape := {{ recognised := {'true' if recognised else 'false'}, rollsBack := {'true' if rolls else 'false'} }}")
    A("")
    A("end Generated.SizeLimitUses")
    return "\n".join(L) + "\n"


def main():
    res = scan()
    text = emit(*res)
    out = sys.argv[1] if len(sys.argv) > 1 and not sys.argv[1].startswith("-") else OUT
    old = open(out).read() if os.path.exists(out) else None
    if old != text:
        os.makedirs(os.path.dirname(out), exist_ok=True)
        with open(out, "w") as fh:
            fh.write(text)
    if "-v" in sys.argv:
        print(text)
    return 0


if __name__ == "__main__":
    sys.exit(main())
