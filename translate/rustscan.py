"""Tiny Rust source scanner shared by the table translators (python stdlib only).

It does not parse Rust.  It (1) blanks comments, string/char literals (keeping offsets and newlines, so that
every offset in the blanked text is an offset in the file), (2) matches braces and classifies each `{`
as the body of a `fn`, the body of a closure, a `lazy_static!` block or a plain block, and (3) offers
helpers to find the enclosing blocks of an offset.  Everything a translator does not recognise has to be
reported by the translator itself (they fail closed); this module only raises on unbalanced braces."""
import os
import re


class ScanError(Exception):
    pass


def blank(src):
    """return (code, strings): code = src with comments and the *contents* of string/char literals replaced by
    spaces (newlines kept); strings = list of (start, end, text) for every string literal (offsets of the quotes)."""
    out = list(src)
    strings = []
    i, n = 0, len(src)

    def wipe(a, b):
        for k in range(a, b):
            if out[k] != "\n":
                out[k] = " "

    while i < n:
        c = src[i]
        if c == "/" and i + 1 < n and src[i + 1] == "/":
            j = src.find("\n", i)
            j = n if j < 0 else j
            wipe(i, j)
            i = j
        elif c == "/" and i + 1 < n and src[i + 1] == "*":
            depth, j = 1, i + 2
            while j < n and depth:
                if src.startswith("/*", j):
                    depth += 1
                    j += 2
                elif src.startswith("*/", j):
                    depth -= 1
                    j += 2
                else:
                    j += 1
            wipe(i, j)
            i = j
        elif c == "r" and re.match(r'r#*"', src[i:i + 20]) and (i == 0 or not (src[i - 1].isalnum() or src[i - 1] == "_")):
            m = re.match(r'r(#*)"', src[i:i + 20])
            hashes = m.group(1)
            start = i + len(m.group(0))
            endtok = '"' + hashes
            j = src.find(endtok, start)
            if j < 0:
                raise ScanError("unterminated raw string")
            strings.append((i, j + len(endtok), src[start:j]))
            wipe(start, j)
            i = j + len(endtok)
        elif c == '"' or (c == "b" and i + 1 < n and src[i + 1] == '"' and (i == 0 or not (src[i - 1].isalnum() or src[i - 1] == "_"))):
            q = i if c == '"' else i + 1
            j = q + 1
            while j < n and src[j] != '"':
                j += 2 if src[j] == "\\" else 1
            if j >= n:
                raise ScanError("unterminated string")
            strings.append((q, j + 1, src[q + 1:j]))
            wipe(q + 1, j)
            i = j + 1
        elif c == "'":
            # char literal or lifetime
            m = re.match(r"'(\\(x[0-9a-fA-F]{2}|u\{[0-9a-fA-F_]+\}|.)|[^\\'\n])'", src[i:i + 14])
            if m:
                wipe(i + 1, i + len(m.group(0)) - 1)
                i += len(m.group(0))
            else:
                i += 1
        else:
            i += 1
    return "".join(out), strings


class Block:
    __slots__ = ("open", "close", "parent", "kind", "name", "header", "depth")

    def __repr__(self):
        return f"Block({self.kind} {self.name} {self.open}-{self.close})"


FN_RE = re.compile(r"\bfn\s+([A-Za-z_][A-Za-z0-9_]*)")
CLOSURE_TAIL_RE = re.compile(r"\|\s*(->\s*[^{;]+)?$")


def blocks(code):
    """all `{…}` blocks of the blanked code with their classification"""
    res = []
    stack = []
    for i, c in enumerate(code):
        if c == "{":
            b = Block()
            b.open = i
            b.close = None
            b.parent = stack[-1] if stack else None
            b.depth = len(stack)
            # header: text since the previous `;`, `{`, `}` or `,` at this position (cheap backwards scan)
            j = i - 1
            par = 0
            while j >= 0:
                ch = code[j]
                if ch in ")]":
                    par += 1
                elif ch in "([":
                    if par == 0:
                        break
                    par -= 1
                elif ch in ";{}" and par == 0:
                    break
                j -= 1
            header = code[j + 1:i]
            b.header = header
            hs = header.rstrip()
            m = None
            for m in FN_RE.finditer(header):
                pass
            if CLOSURE_TAIL_RE.search(hs) and "|" in hs:
                b.kind, b.name = "closure", None
            elif m is not None and "=>" not in header[m.end():]:
                b.kind, b.name = "fn", m.group(1)
            elif re.search(r"\blazy_static!\s*$", hs):
                b.kind, b.name = "lazy_static", None
            else:
                b.kind, b.name = "block", None
            res.append(b)
            stack.append(b)
        elif c == "}":
            if not stack:
                raise ScanError("unbalanced }")
            stack.pop().close = i
    if stack:
        raise ScanError("unbalanced {")
    return res


def enclosing(blks, off):
    """blocks containing offset off, innermost first"""
    inner = None
    for b in blks:
        if b.open < off < b.close and (inner is None or b.open > inner.open):
            inner = b
    out = []
    while inner is not None:
        out.append(inner)
        inner = inner.parent
    return out


def line_of(src, off):
    return src.count("\n", 0, off) + 1


def rust_files(root, exclude=()):
    out = []
    for d, _, fs in os.walk(root):
        for f in sorted(fs):
            if f.endswith(".rs"):
                p = os.path.join(d, f)
                rel = os.path.relpath(p, root)
                if any(rel == e or rel.startswith(e.rstrip("/") + "/") for e in exclude):
                    continue
                out.append((rel, p))
    return sorted(out)


def lean_str(s):
    return '"' + s.replace("\\", "\\\\").replace('"', '\\"').replace("\n", "\\n") + '"'
