"""Translator for C12: from src/xray.pest and src/parser.rs to lean/Generated/Rules.lean.

For every `match <x>.as_rule() { … }` in parser.rs (a *site*) it extracts the `Rule::…` names its arms handle and
whether its wildcard arm is harmless (does something) or absent/`unreachable!`/`panic!`.  From the grammar it
computes, per site, the rules that can arrive there (the *required* set): the non-silent rules that can occur as
children of the context rules, looking through silent (`_{…}`) rules and stopping at atomic (`@{…}`) ones.  Which
grammar contexts feed which site is the table SITES below (written from reading parser.rs; the site is located by
function name and discriminant text, so a moved or renamed match makes the translator fail closed).
The Lean side proves `arms_cover` over the generated table by `decide`."""
import os, re, sys

REPO = os.environ.get("XRAY_REPO", "/repo")
OUT = os.path.join(os.path.dirname(os.path.dirname(os.path.abspath(__file__))), "lean", "Generated", "Rules.lean")


class TranslateError(Exception):
    pass


# ------------------------------------------------------------------ grammar

def strip_pest_comments(text):
    """blank out `// …` and `/* … */` comments of the grammar file (outside string literals)"""
    out = []
    i, n = 0, len(text)
    while i < n:
        c = text[i]
        if c == '"':
            j = i + 1
            while text[j] != '"':
                j += 2 if text[j] == "\\" else 1
            out.append(text[i:j + 1])
            i = j + 1
        elif text.startswith("//", i):
            j = text.find("\n", i)
            i = n if j < 0 else j
        elif text.startswith("/*", i):
            j = text.find("*/", i)
            i = n if j < 0 else j + 2
        else:
            out.append(c)
            i += 1
    return "".join(out)


def parse_grammar(text):
    text = strip_pest_comments(text)
    rules = {}
    i = 0
    pat = re.compile(r"([A-Za-z_][A-Za-z_0-9]*)\s*=\s*([_@$!]?)\{")
    while True:
        m = pat.search(text, i)
        if not m:
            break
        name, mod = m.group(1), m.group(2)
        j = m.end()
        depth = 1
        in_str = False
        while depth:
            c = text[j]
            if in_str:
                if c == "\\":
                    j += 1
                elif c == '"':
                    in_str = False
            elif c == '"':
                in_str = True
            elif c == "{":
                depth += 1
            elif c == "}":
                depth -= 1
            j += 1
        rules[name] = (mod, text[m.end():j - 1])
        i = j
    return rules


BUILTINS = {"SOI", "ANY", "PEEK", "POP", "PUSH", "NEWLINE", "ASCII_DIGIT", "ASCII_ALPHA", "ASCII_ALPHANUMERIC",
            "ASCII_HEX_DIGIT", "WHITESPACE", "COMMENT"}


def refs(body):
    """rule names referenced in a body, outside string literals and outside negative/positive lookaheads"""
    body = re.sub(r'"(?:\\.|[^"\\])*"', " ", body)
    body = re.sub(r"\^", " ", body)
    # drop predicates !( … ) / !name / &( … ): they produce no tokens
    out = []
    i = 0
    while i < len(body):
        c = body[i]
        if c in "!&":
            j = i + 1
            while body[j].isspace():
                j += 1
            if body[j] == "(":
                depth = 1
                j += 1
                while depth:
                    depth += {"(": 1, ")": -1}.get(body[j], 0)
                    j += 1
            else:
                while j < len(body) and (body[j].isalnum() or body[j] == "_"):
                    j += 1
            i = j
            continue
        m = re.match(r"[A-Za-z_][A-Za-z_0-9]*", body[i:])
        if m:
            out.append(m.group(0))
            i += len(m.group(0))
        else:
            i += 1
    return out


def children(rules, ctx, seen=None):
    """non-silent rules that can occur as direct children of a pair of rule `ctx`"""
    seen = seen or set()
    mod, body = rules[ctx]
    if mod == "@":
        return set()
    out = set()
    for r in refs(body):
        if r in BUILTINS:
            continue
        if r == "EOI":
            out.add("EOI")
            continue
        if r not in rules:
            raise TranslateError(f"grammar rule {ctx} refers to unknown rule {r}")
        if rules[r][0] == "_":
            if r not in seen:
                out |= children(rules, r, seen | {r})
        else:
            out.add(r)
    return out


def alternatives(rules, silent):
    return children(rules, silent, {silent})


# ------------------------------------------------------------------ parser.rs

def strip_rust(src):
    """blank out comments, string and char literals (keeping length and newlines)"""
    out = []
    i = 0
    n = len(src)
    while i < n:
        c = src[i]
        if src.startswith("//", i):
            j = src.find("\n", i)
            j = n if j < 0 else j
            out.append(" " * (j - i))
            i = j
        elif src.startswith("/*", i):
            j = src.find("*/", i) + 2
            out.append(re.sub(r"[^\n]", " ", src[i:j]))
            i = j
        elif c == '"':
            j = i + 1
            while src[j] != '"':
                j += 2 if src[j] == "\\" else 1
            out.append('"' + re.sub(r"[^\n]", " ", src[i + 1:j]) + '"')
            i = j + 1
        elif c == "'" and re.match(r"'(\\.|[^\\'])'", src[i:]):
            m = re.match(r"'(\\.|[^\\'])'", src[i:])
            out.append(" " * len(m.group(0)))
            i += len(m.group(0))
        else:
            out.append(c)
            i += 1
    return "".join(out)


def block_end(s, open_idx):
    depth = 0
    i = open_idx
    while True:
        if s[i] == "{":
            depth += 1
        elif s[i] == "}":
            depth -= 1
            if depth == 0:
                return i
        i += 1


def match_sites(src):
    """[(function, discriminant, line, arms:set, wildcard: 'none'|'panics'|'handles')]"""
    s = strip_rust(src)
    fns = [(m.start(), m.group(1)) for m in re.finditer(r"\bfn\s+([a-z_0-9]+)", s)]
    sites = []
    for m in re.finditer(r"match\s+([a-z_0-9]+)\.as_rule\(\)\s*\{", s):
        start = m.end() - 1
        end = block_end(s, start)
        body = s[start + 1:end]
        # arms at depth 0 of the body: text before each top-level `=>`
        arms, wildcard = set(), "none"
        depth = 0
        i = 0
        arm_start = 0
        while i < len(body):
            c = body[i]
            if c in "{([":
                depth += 1
            elif c in "})]":
                depth -= 1
                if depth == 0 and c == "}":
                    arm_start = i + 1
            elif c == "," and depth == 0:
                arm_start = i + 1
            elif body.startswith("=>", i) and depth == 0:
                pat = body[arm_start:i].strip()
                names = re.findall(r"Rule::([A-Za-z_0-9]+)", pat)
                if names:
                    arms |= set(names)
                elif pat == "_":
                    # what does the wildcard arm do?
                    j = i + 2
                    while body[j].isspace():
                        j += 1
                    if body[j] == "{":
                        k = block_end(body, j)
                        arm_body = body[j:k + 1]
                    else:
                        k = body.find(",", j)
                        arm_body = body[j:k if k >= 0 else len(body)]
                    wildcard = "panics" if re.search(r"\b(unreachable|panic|unimplemented|todo)!", arm_body) else "handles"
                else:
                    raise TranslateError(f"unrecognised match arm pattern {pat!r} in a match on as_rule()")
                i += 1
            i += 1
        fn = [name for pos, name in fns if pos < m.start()][-1]
        line = s.count("\n", 0, m.start()) + 1
        sites.append((fn, m.group(1), line, arms, wildcard))
    return sites


# site key (function, discriminant) -> how the required set is computed from the grammar
def required_for(rules, key):
    ch = lambda r: children(rules, r)
    alt = lambda r: alternatives(rules, r)
    table = {
        # feed: the header pair and everything below it down to the declarations
        ("feed", "input"): lambda: {"header"} | ch("header") | ch("execution") | ch("declaration"),
        # get_complete_type is called on complete_type pairs only
        ("get_complete_type", "input"): lambda: {"complete_type"},
        # … and looks at the first child of complete_type (generic_arguments only ever follows a CNAME)
        ("get_complete_type", "part1"): lambda: ch("complete_type") - {"generic_arguments"},
        # parse_expr: expression pairs, their operands, and the primaries of expression2
        ("parse_expr", "input"): lambda: {"expression"} | (ch("expression") - alt("BINARY_OP"))
                                          | (ch("expression1") - alt("UNARY_OP")) | (ch("expression2") - alt("accessor")),
        ("parse_expr", "op"): lambda: alt("BINARY_OP"),
        ("parse_expr", "inner"): lambda: alt("UNARY_OP"),
        ("parse_expr", "accessor"): lambda: alt("accessor"),
        ("parse_expr", "part"): lambda: ch("f_inner_string_single") | ch("f_inner_string_double"),
    }
    if key not in table:
        raise TranslateError(f"match on as_rule() at an unknown site {key}: extend translate/rules.py (SITES)")
    return table[key]()


def translate(repo=REPO, out=OUT):
    rules = parse_grammar(open(os.path.join(repo, "src", "xray.pest")).read())
    if len(rules) < 80:
        raise TranslateError(f"only {len(rules)} grammar rules recognised")
    sites = match_sites(open(os.path.join(repo, "src", "parser.rs")).read())
    seen = set()
    rows = []
    for fn, disc, line, arms, wildcard in sites:
        key = (fn, disc)
        if key in seen:
            raise TranslateError(f"two matches on {disc}.as_rule() in fn {fn}")
        seen.add(key)
        unknown = arms - set(rules) - {"EOI"}
        if unknown:
            raise TranslateError(f"match arms name rules the grammar does not have: {sorted(unknown)}")
        rows.append((f"{fn}.{disc}", sorted(required_for(rules, key)), sorted(arms), wildcard))
    expected = {("feed", "input"), ("get_complete_type", "input"), ("get_complete_type", "part1"), ("parse_expr", "input"),
                ("parse_expr", "op"), ("parse_expr", "inner"), ("parse_expr", "accessor"), ("parse_expr", "part")}
    if seen != expected:
        raise TranslateError(f"match sites changed: {sorted(seen ^ expected)}")

    def lst(xs):
        return "[" + ", ".join('"' + x + '"' for x in xs) + "]"

    lines = ["/- GENERATED by /verif/translate/rules.py from src/xray.pest and src/parser.rs — do not edit. -/",
             "namespace XrayModel.Generated.Rules", "",
             "/-- a `match ….as_rule()` of parser.rs: the rules the grammar can deliver there, the rules its arms name,",
             "and whether a wildcard arm handles the rest without panicking -/",
             "structure Site where", "  name : String", "  required : List String", "  arms : List String",
             "  wildcardHandles : Bool", "", f"def ruleCount : Nat := {len(rules)}", "",
             "def sites : List Site := ["]
    for k, (name, req, arms, wc) in enumerate(rows):
        lines.append(f'  ⟨"{name}", {lst(req)},\n    {lst(arms)}, {"true" if wc == "handles" else "false"}⟩' + ("," if k + 1 < len(rows) else ""))
    lines += ["]", "", "end XrayModel.Generated.Rules", ""]
    text = "\n".join(lines)
    os.makedirs(os.path.dirname(out), exist_ok=True)
    if not os.path.exists(out) or open(out).read() != text:
        with open(out, "w") as fh:
            fh.write(text)
    return rows


if __name__ == "__main__":
    for r in translate():
        print(r[0], "required", len(r[1]), "arms", len(r[2]), r[3], "missing:", sorted(set(r[1]) - set(r[2])))
