"""Translator for C12 (determinism): every iteration over a HashMap / HashSet in the compile path.

std's HashMap/HashSet iterate in a per-instance random order, so any iteration over one in the compile path is a
determinism hazard unless its result does not depend on the order (or is sorted).  This scanner finds, in
src/{parser,compilation_scope,xtype,compile_err,root_compilation_scope}.rs,
  * the names bound to a hash collection: struct fields, `let` bindings, function parameters and struct-pattern
    names whose declared type or initialiser mentions HashMap/HashSet (`HashSet::new()`, `: HashSet<…>`,
    `collect::<HashMap<…>>`, `HashMap::from_iter`, …),
  * every use `name.iter()`, `.iter_mut()`, `.into_iter()`, `.keys()`, `.values()`, `.values_mut()`, `.drain()`,
    `.into_keys()`, `.into_values()`, `.retain(`, `for … in [&][mut ] name` (also through `self.`/a field path), and
    `Debug`-printing of such a field is covered by the hand-written `Debug` impls in xtype.rs,
and writes them as `found` next to the REVIEWED table below into lean/Generated/HashIter.lean.  The Lean theorem
`hash_iteration_sites_reviewed` (Props/C12.lean, `decide`) states that the two lists have the same members; a new
iteration site (or a vanished one) breaks it.  A site is `<file>:<function>:<name>.<use>`; line numbers are not part
of the key, so that unrelated edits do not disturb the table."""
import os, re, sys

sys.path.insert(0, os.path.dirname(os.path.abspath(__file__)))
from rules import strip_rust, TranslateError   # noqa: E402

REPO = os.environ.get("XRAY_REPO", "/repo")
OUT = os.path.join(os.path.dirname(os.path.dirname(os.path.abspath(__file__))), "lean", "Generated", "HashIter.lean")
FILES = ["parser.rs", "compilation_scope.rs", "xtype.rs", "compile_err.rs", "root_compilation_scope.rs"]

# reviewed sites: key -> why the iteration order cannot reach the outcome
REVIEWED = {
    "xtype.rs:fmt:0.iter": "sorted: IndicesInOrder collects the entries and sorts them by field index before printing",
    "xtype.rs:fmt:bound_generics.iter": "sorted: Debug for Bind collects the entries and sorts them by key text before printing",
    "xtype.rs:iter:bound_generics.iter": "wrapper: Bind::iter hands the iterator to its callers, which are the `bind.iter` sites of this table",
    "xtype.rs:mix:bound_generics.iter": "order-insensitive: every key is merged independently (insert / common_type), any failure gives None whatever the order",
    "xtype.rs:is_unknown:bind.iter": "order-insensitive: `.any(…)` over the bound types",
    "xtype.rs:is_unknown:bind.iter#2": "not a hash collection: the payload of XTail is a Vec",
    "xtype.rs:mentions_generic:bind.iter": "order-insensitive: `.any(…)` over the bound types",
    "xtype.rs:to_string_with_interner:bind.iter": "not a hash collection: the generic arguments of XNative are a Vec (positional)",
}

USES = r"(iter|iter_mut|into_iter|keys|values|values_mut|drain|into_keys|into_values|retain)"


def hash_names(s):
    names = set()
    # fields / parameters / typed lets:  name: [&][mut ]Hash…<   (also inside Option<>, Rc<RefCell<…>>)
    for m in re.finditer(r"\b([a-z_][a-z_0-9]*)\s*:\s*[^,;=(){}]*?\bHash(Map|Set)\b", s):
        names.add(m.group(1))
    # untyped lets whose initialiser *is* a hash collection: `HashSet::new()`, `HashMap::from_iter(…)`, `….collect::<HashMap<…>>()`
    for m in re.finditer(r"\blet\s+(?:mut\s+)?([a-z_][a-z_0-9]*)\s*=\s*([^;]*?);", s, re.S):
        init = m.group(2).strip()
        if re.match(r"(std::collections::)?Hash(Map|Set)\s*(::|<)", init) or re.search(r"collect::<\s*Hash(Map|Set)\b[^;]*$", init):
            names.add(m.group(1))
    # `Bind` (xtype.rs) wraps a HashMap and hands out its iterator (`Bind::iter`): names of that type, and the last
    # component of a `Compound(kind, spec, bind)` pattern
    for m in re.finditer(r"\b([a-z_][a-z_0-9]*)\s*:\s*&?\s*(?:mut\s+)?Bind\b", s):
        names.add(m.group(1))
    for m in re.finditer(r"\bCompound\s*\([^()]*?,\s*([a-z_][a-z_0-9]*)\s*\)", s):
        names.add(m.group(1))
    # tuple structs wrapping a hash collection: their payload is `.0`
    if re.search(r"\bstruct\s+[A-Za-z_0-9]+\s*(<[^>]*>)?\s*\([^)]*\bHash(Map|Set)\b", s):
        names.add("0")
    names.discard("self")
    return names


def scan(repo=REPO):
    found = []
    for fn in FILES:
        src = open(os.path.join(repo, "src", fn)).read()
        s = strip_rust(src)
        names = hash_names(s)
        fns = [(m.start(), m.group(1)) for m in re.finditer(r"\bfn\s+([a-z_0-9]+)", s)]

        def where(pos):
            inside = [name for p, name in fns if p < pos]
            return inside[-1] if inside else "<top>"
        if not names:
            continue
        alt = "|".join(sorted(re.escape(n) for n in names))
        for m in re.finditer(r"(?:\b[a-z_][a-z_0-9]*\s*\.\s*)*\b(%s)\s*\.\s*%s\s*\(" % (alt, USES), s):
            found.append(f"{fn}:{where(m.start())}:{m.group(1)}.{m.group(2)}")
        for m in re.finditer(r"\bfor\s+[^{;]*?\bin\s+&?\s*(?:mut\s+)?(?:[a-z_][a-z_0-9]*\s*\.\s*)*(%s)\s*\{" % alt, s):
            found.append(f"{fn}:{where(m.start())}:{m.group(1)}.for")
    # a site may occur several times in one function: keep multiplicity in the key
    out, seen = [], {}
    for k in found:
        seen[k] = seen.get(k, 0) + 1
        out.append(k if seen[k] == 1 else f"{k}#{seen[k]}")
    return sorted(out)


def translate(repo=REPO, out=OUT):
    found = scan(repo)

    def lst(xs):
        return "[" + ",\n   ".join('"' + x + '"' for x in xs) + "]"
    lines = ["/- GENERATED by /verif/translate/hashiter.py from the compile-path sources — do not edit. -/",
             "namespace XrayModel.Generated.HashIter", "",
             "/-- every iteration over a HashMap/HashSet found in the compile path: `file:function:name.use` -/",
             "def found : List String :=\n  " + lst(found), "",
             "/-- the reviewed sites (translate/hashiter.py, REVIEWED), each with the reason why the iteration order cannot",
             "reach the outcome of a compilation -/",
             "def reviewed : List (String × String) :=\n  [" + ",\n   ".join('("%s", "%s")' % (k, v.replace('"', "'")) for k, v in sorted(REVIEWED.items())) + "]", "",
             "end XrayModel.Generated.HashIter", ""]
    text = "\n".join(lines)
    os.makedirs(os.path.dirname(out), exist_ok=True)
    if not os.path.exists(out) or open(out).read() != text:
        with open(out, "w") as fh:
            fh.write(text)
    return found, dict(REVIEWED)


if __name__ == "__main__":
    f, r = translate()
    for k in f:
        print(("ok      " if k in r else "UNREVIEWED ") + k)
    for k in r:
        if k not in f:
            print("VANISHED " + k)
