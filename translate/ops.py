#!/usr/bin/env python3
"""C02 translator: /repo/src/xray.pest + /repo/src/parser.rs  ->  /verif/lean/Generated/Ops.lean   (python stdlib only)

Extracts, on every run,
 (a) from xray.pest: the ordered alternation `BINARY_OP = _{ .. }` and `UNARY_OP = _{ .. }` and the token text of
     every operator rule (`BINARY_ADD = {"+"}`);
 (b) from parser.rs: the `PrecClimber::new(vec![ .. ])` table (one vec element = one precedence level,
     `Operator::new(Rule::X, Left|Right)` joined by `|`), the infix closure's arms `Rule::X => <name>_symbol`
     together with the `interner.get_or_intern_static("<name>")` each symbol is bound to, the unary arms
     `Rule::UNARY_X => "<name>"`, and the function name of the index arm (`new_call("get", ..)`);
 (c) the *shape* of everything else the model mirrors by hand: the pest rules expression / expression1 /
     expression2 / accessor / method / call_args / member / call / index / expression3 / container /
     container_elements / tuple / trailing_comma / lambda_func / function_parameters / parameter, and the parser.rs arms for expression1, method, member, call, index, container,
     tuple and the driver code of the `Rule::expression` arm, are compared (whitespace-normalised) with the text
     the model was written against.

Fail closed: anything not recognised, a rule or arm whose text changed, an operator rule without a table entry or
without a desugaring arm (or vice versa) aborts with exit code 3 — the check then reports a broken tie instead of
running a stale model."""
import os
import re
import sys

REPO = os.environ.get("XRAY_REPO", "/repo")
OUT = os.path.join(os.path.dirname(os.path.dirname(os.path.abspath(__file__))), "lean", "Generated", "Ops.lean")


def die(msg):
    print("ops.py: " + msg, file=sys.stderr)
    sys.exit(3)


def norm(s):
    s = re.sub(r"//[^\n]*", "", s)          # line comments inside an arm do not matter
    return re.sub(r"\s+", "", s)


def lean_str(s):
    return '"' + s.replace("\\", "\\\\").replace('"', '\\"') + '"'


# ------------------------------------------------------------------------------------------------ xray.pest

def pest_rules(src):
    """name -> (modifier, body) for every rule; the grammar has no nested braces outside string literals
    except inside quoted tokens, so a brace-matching scan that skips string literals is enough."""
    src = re.sub(r"//[^\n]*", "", src) if False else src   # the grammar has no line comments outside strings; keep text
    rules = {}
    i, n = 0, len(src)
    rule_re = re.compile(r"\s*([A-Za-z_][A-Za-z_0-9]*)\s*=\s*([_@$!]?)\{")
    while True:
        m = rule_re.match(src, i)
        if not m:
            if src[i:].strip():
                die(f"xray.pest: cannot read a rule at offset {i}: {src[i:i+60]!r}")
            break
        name, mod = m.group(1), m.group(2)
        j = m.end()
        depth = 1
        start = j
        while j < n and depth:
            c = src[j]
            if c == '"':
                j += 1
                while j < n and src[j] != '"':
                    j += 2 if src[j] == "\\" else 1
                j += 1
                continue
            if c == "{":
                depth += 1
            elif c == "}":
                depth -= 1
            j += 1
        if depth:
            die(f"xray.pest: unbalanced braces in rule {name}")
        if name in rules:
            die(f"xray.pest: rule {name} defined twice")
        rules[name] = (mod, src[start:j - 1])
        i = j
    return rules


# the grammar text the model (XrayModel/Syntax.lean, `group*` functions) was written against
EXPECTED_RULES = {
    "eval": ("", "SOI ~ expression ~ EOI"),
    "expression": ("", "expression1 ~ (BINARY_OP ~ expression1)*"),
    "expression1": ("", "(UNARY_OP)* ~ expression2"),
    "expression2": ("", "expression3 ~ (accessor)*"),
    "accessor": ("_", "method | call | member | member_opt_value | member_value | index"),
    "method": ("", '"." ~ CNAME ~ call_args'),
    "call_args": ("", '"(" ~ container_elements? ~ ","? ~ ")"'),
    "member": ("", '"::" ~ CNAME'),
    "member_value": ("", '"!:" ~ CNAME'),
    "member_opt_value": ("", '"?:" ~ CNAME'),
    "call": ("", "call_args"),
    "index": ("", '"[" ~ container_elements ~ "]"'),
    "expression3": ("_", "STRING | RAW_STRING | FORMATTED_STRING | bool | NUMBER_ANY | container "
                         "| lambda_func | tuple | turbofish_cname | dyn_bind_cname | CNAME"),
    "container": ("", '"[" ~ container_elements? ~ ","? ~ "]"'),
    "container_elements": ("", 'expression ~ (","~expression)*'),
    "tuple": ("", '"(" ~ container_elements? ~ trailing_comma? ~ ")"'),
    "trailing_comma": ("", '","'),
    "lambda_func": ("", '"(" ~ function_parameters_opt ~ ")" ~ "->" ~ function_body'),
    "function_parameters_opt": ("", "function_parameters?"),
    "function_parameters": ("", 'parameter ~ ("," ~ parameter)*'),
    "parameter": ("", 'CNAME ~ ":" ~ complete_type ~ default_value?'),
    "bool": ("@", '"true"|"false"'),
    "CNAME": ("@", '("_" | ASCII_ALPHA) ~ ("_" | ASCII_ALPHANUMERIC)*'),
    "WHITESPACE": ("_", '" " | "\\t" | "\\r" | "\\n"'),
}


def read_pest():
    src = open(os.path.join(REPO, "src", "xray.pest")).read()
    rules = pest_rules(src)
    for name, (mod, body) in EXPECTED_RULES.items():
        if name not in rules:
            die(f"xray.pest: rule {name} is gone")
        if rules[name][0] != mod or norm(rules[name][1]) != norm(body):
            die(f"xray.pest: rule {name} changed: now {rules[name][0]}{{{rules[name][1].strip()}}}, the model mirrors {mod}{{{body}}}")

    def alternation(name):
        if name not in rules or rules[name][0] != "_":
            die(f"xray.pest: {name} is not a silent rule")
        alts = [a.strip() for a in rules[name][1].split("|")]
        for a in alts:
            if not re.fullmatch(r"[A-Z_]+", a):
                die(f"xray.pest: {name}: alternative {a!r} is not a rule name")
        if len(set(alts)) != len(alts):
            die(f"xray.pest: {name}: repeated alternative")
        return alts

    def token(rule):
        if rule not in rules:
            die(f"xray.pest: operator rule {rule} is not defined")
        mod, body = rules[rule]
        m = re.fullmatch(r'\s*"((?:[^"\\]|\\.)+)"\s*', body)
        if mod != "" or not m:
            die(f"xray.pest: operator rule {rule} is not a single literal token: {body!r}")
        t = m.group(1)
        if "\\" in t or " " in t:
            die(f"xray.pest: operator token of {rule} has an escape or a blank: {t!r}")
        return t

    binary = [(r, token(r)) for r in alternation("BINARY_OP")]
    unary = [(r, token(r)) for r in alternation("UNARY_OP")]
    # every rule named BINARY_*/UNARY_* must be in its alternation (no operator defined but unreachable)
    for r in rules:
        if r.startswith("BINARY_") and r != "BINARY_OP" and r not in dict(binary):
            die(f"xray.pest: {r} is defined but not an alternative of BINARY_OP")
        if r.startswith("UNARY_") and r != "UNARY_OP" and r not in dict(unary):
            die(f"xray.pest: {r} is defined but not an alternative of UNARY_OP")
    return binary, unary


# ------------------------------------------------------------------------------------------------ parser.rs

def balanced(src, i, open_c, close_c):
    """src[i] == open_c; returns index just after the matching close_c (no string literals with brackets in the
    regions this is used on except simple ones, which are skipped)."""
    assert src[i] == open_c
    depth, j, n = 0, i, len(src)
    while j < n:
        c = src[j]
        if c == '"':
            j += 1
            while j < n and src[j] != '"':
                j += 2 if src[j] == "\\" else 1
        elif c == open_c:
            depth += 1
        elif c == close_c:
            depth -= 1
            if depth == 0:
                return j + 1
        j += 1
    die("parser.rs: unbalanced " + open_c)


def split_top(s, sep):
    parts, depth, cur = [], 0, []
    for c in s:
        if c in "([{":
            depth += 1
        elif c in ")]}":
            depth -= 1
        if c == sep and depth == 0:
            parts.append("".join(cur))
            cur = []
        else:
            cur.append(c)
    parts.append("".join(cur))
    return parts


def arm(src, head, start=0):
    """text of the block of the match arm `head => { .. }` (first occurrence after start)."""
    m = re.compile(re.escape(head) + r"\s*=>\s*\{").search(src, start)
    if not m:
        die(f"parser.rs: match arm {head} not found")
    end = balanced(src, m.end() - 1, "{", "}")
    return src[m.end():end - 1], m.start()


# the arms the model mirrors by hand (whitespace-normalised comparison)
EXPECTED_ARMS = {
    "Rule::expression1": '''
                let mut iter = input.into_inner().rev();
                let mut expr = self.parse_expr(iter.next().unwrap(), interner)?;
                for inner in iter {
                    let func = match inner.as_rule() {
                        @UNARY@
                        _ => unreachable!(),
                    };

                    expr = XStaticExpr::new_call(func, vec![expr], interner);
                }
                Ok(expr)''',
    "Rule::method": '''
                            let mut meth_call_iter = accessor.into_inner();
                            let method = XStaticExpr::Ident(
                                interner.get_or_intern(meth_call_iter.next().unwrap().as_str()),
                            );
                            let args = match meth_call_iter.next().unwrap().into_inner().next() {
                                None => Ok(vec![ret]),
                                Some(c) => iter::once(Ok(ret))
                                    .chain(c.into_inner().map(|p| self.parse_expr(p, interner)))
                                    .collect(),
                            }?;
                            ret = XStaticExpr::Call(Box::new(method), args);''',
    "Rule::member": '''
                            let member = accessor.into_inner().next().unwrap();
                            ret = XStaticExpr::Member(
                                Box::new(ret),
                                interner.get_or_intern(member.as_str()),
                            );''',
    "Rule::call": '''
                            let mut iter = accessor.into_inner();
                            let raw_args = iter.next().unwrap();
                            let args = raw_args.into_inner().next().map_or_else(
                                || Ok(vec![]),
                                |c| {
                                    c.into_inner()
                                        .map(|p| self.parse_expr(p, interner))
                                        .collect()
                                },
                            )?;
                            ret = XStaticExpr::Call(Box::new(ret), args);''',
    "Rule::index": '''
                            let idxs_pair = accessor.into_inner().next().unwrap();
                            let args = iter::once(Ok(ret))
                            .chain(
                                idxs_pair
                                    .into_inner()
                                    .map(|p| self.parse_expr(p, interner)),
                            ).collect::<Result<_,_>>()?;
                            ret = XStaticExpr::new_call(@INDEX@, args, interner)''',
    "Rule::container": '''
                let mut iter = input.into_inner();
                let parts = iter.next().map_or_else(
                    || Ok(vec![]),
                    |c| {
                        c.into_inner()
                            .map(|p| self.parse_expr(p, interner))
                            .collect()
                    },
                )?;
                Ok(XStaticExpr::Array(parts))''',
    "Rule::tuple": '''
                let mut iter = input.into_inner().peekable();
                let elements = iter.next_if(|p| p.as_rule() == Rule::container_elements);
                let has_trailing_comma = iter.next().is_some();
                let mut parts: Vec<_> = elements.map_or_else(
                    || Ok(vec![]),
                    |c| {
                        c.into_inner()
                            .map(|p| self.parse_expr(p, interner))
                            .collect()
                    },
                )?;
                if parts.len() == 1 && !has_trailing_comma {
                    return Ok(parts.pop().unwrap());
                }
                Ok(XStaticExpr::Tuple(parts))''',
}


def read_parser(binary, unary):
    src = open(os.path.join(REPO, "src", "parser.rs")).read()
    if src.count("PrecClimber::new(") != 1:
        die("parser.rs: expected exactly one PrecClimber::new(")
    # --- the climber table
    k = src.index("PrecClimber::new(") + len("PrecClimber::new(")
    m = re.compile(r"\s*vec!\s*\[").match(src, k)
    if not m:
        die("parser.rs: PrecClimber::new is not applied to a vec![..] literal")
    end = balanced(src, m.end() - 1, "[", "]")
    body = src[m.end():end - 1]
    levels = []
    for lvl in split_top(body, ","):
        if not lvl.strip():
            continue
        ops = []
        for o in lvl.split("|"):
            mm = re.fullmatch(r"\s*Operator::new\(\s*Rule::([A-Z_]+)\s*,\s*(Left|Right)\s*\)\s*", o)
            if not mm:
                die(f"parser.rs: climber table entry not recognised: {o.strip()!r}")
            ops.append((mm.group(1), mm.group(2)))
        levels.append(ops)
    if not re.search(r"use pest::prec_climber::Assoc::\{Left, Right\};", src):
        die("parser.rs: `Left`/`Right` are no longer pest::prec_climber::Assoc::{Left, Right}")
    # --- the expression arm: symbols and infix arms
    expr_arm, pos = arm(src, "Rule::expression")
    if "Rule::expression =>" not in src[pos:pos + 40].replace("\n", " "):
        die("parser.rs: Rule::expression arm not found where expected")
    mt = re.search(r"let\s*\(\s*([a-z_,\s]+?)\)\s*=\s*\(", expr_arm)
    if not mt:
        die("parser.rs: the symbol tuple of the expression arm is not recognised")
    names = [x.strip() for x in mt.group(1).split(",") if x.strip()]
    vend = balanced(expr_arm, mt.end() - 1, "(", ")")
    vals = [v.strip() for v in split_top(expr_arm[mt.end():vend - 1], ",") if v.strip()]
    if len(names) != len(vals):
        die("parser.rs: symbol tuple and its initialiser have different lengths")
    sym = {}
    for nme, v in zip(names, vals):
        mv = re.fullmatch(r'interner\.get_or_intern_static\("([a-z_]+)"\)', v)
        if not mv:
            die(f"parser.rs: symbol {nme} is not bound to interner.get_or_intern_static(\"..\"): {v!r}")
        sym[nme] = mv.group(1)
    mc = re.search(r"CLIMBER\.climb\(", expr_arm)
    if not mc:
        die("parser.rs: the expression arm does not call CLIMBER.climb")
    cend = balanced(expr_arm, mc.end() - 1, "(", ")")
    cargs = split_top(expr_arm[mc.end():cend - 1], ",")
    cargs = [cargs[0], cargs[1], ",".join(cargs[2:]).rstrip().rstrip(",")]   # the closure's parameter list has commas
    if norm(cargs[0]) != "input.into_inner()" or norm(cargs[1]) != "|pair|self.parse_expr(pair,interner)":
        die("parser.rs: CLIMBER.climb is not called as climb(input.into_inner(), |pair| self.parse_expr(pair, interner), infix)")
    infix = cargs[2]
    mi = re.search(r"let func = match op\.as_rule\(\)\s*\{", infix)
    if not mi:
        die("parser.rs: infix closure: `let func = match op.as_rule()` not found")
    iend = balanced(infix, mi.end() - 1, "{", "}")
    arms_txt = infix[mi.end():iend - 1]
    infix_fn = {}
    for a in split_top(arms_txt, ","):
        a = a.strip()
        if not a:
            continue
        if norm(a) == "_=>unreachable!()":
            continue
        ma = re.fullmatch(r"Rule::([A-Z_]+)\s*=>\s*([a-z_]+)", a)
        if not ma or ma.group(2) not in sym:
            die(f"parser.rs: infix arm not recognised: {a!r}")
        if ma.group(1) in infix_fn:
            die(f"parser.rs: infix arm for {ma.group(1)} appears twice")
        infix_fn[ma.group(1)] = sym[ma.group(2)]
    skeleton = norm(infix[:mi.start()] + "@" + infix[iend:])
    if skeleton != norm("|lhs, op, rhs| { let lhs = lhs?; let rhs = rhs?; @; Ok(XStaticExpr::new_call_sym(func, vec![lhs, rhs])) }"):
        die("parser.rs: the infix closure no longer builds new_call_sym(func, vec![lhs, rhs]): " + skeleton)
    # --- the hand-mirrored arms
    e1, _ = arm(src, "Rule::expression1")
    mu = re.search(r"let func = match inner\.as_rule\(\)\s*\{", e1)
    if not mu:
        die("parser.rs: unary arm: `let func = match inner.as_rule()` not found")
    uend = balanced(e1, mu.end() - 1, "{", "}")
    unary_fn = {}
    for a in split_top(e1[mu.end():uend - 1], ","):
        a = a.strip()
        if not a or norm(a) == "_=>unreachable!()":
            continue
        ma = re.fullmatch(r'Rule::([A-Z_]+)\s*=>\s*"([a-z_]+)"', a)
        if not ma:
            die(f"parser.rs: unary arm not recognised: {a!r}")
        unary_fn[ma.group(1)] = ma.group(2)
    e1_skel = e1[:mu.end()] + "@UNARY@ _ => unreachable!()," + e1[uend - 1:]
    if norm(e1_skel) != norm(EXPECTED_ARMS["Rule::expression1"]):
        die("parser.rs: the Rule::expression1 arm changed; the model (Syntax.lean, applyUnary) mirrors the old text")
    e2, e2pos = arm(src, "Rule::expression2")
    index_fn = None
    for head in ["Rule::method", "Rule::member", "Rule::call", "Rule::index"]:
        txt, _ = arm(e2, head)
        want = EXPECTED_ARMS[head]
        if head == "Rule::index":
            mg = re.search(r'XStaticExpr::new_call\(\s*"([a-z_]+)"\s*,', txt)
            if not mg:
                die("parser.rs: index arm: new_call(\"<name>\", ..) not found")
            index_fn = mg.group(1)
            want = want.replace("@INDEX@", '"' + index_fn + '"')
        if norm(txt) != norm(want):
            die(f"parser.rs: the {head} arm changed; the model (Syntax.lean, applyAccessor) mirrors the old text")
    e2_skel = norm(e2)
    if not e2_skel.startswith(norm("let mut iter = input.into_inner(); let mut ret = self.parse_expr(iter.next().unwrap(), interner)?; for accessor in iter { match accessor.as_rule() {")):
        die("parser.rs: the Rule::expression2 arm no longer folds the accessors left to right over `ret`")
    for head in ["Rule::container", "Rule::tuple"]:
        txt, _ = arm(src, head, e2pos)
        if norm(txt) != norm(EXPECTED_ARMS[head]):
            die(f"parser.rs: the {head} arm changed; the model mirrors the old text")
    # --- consistency between the three tables
    brules = [r for r, _ in binary]
    table_rules = [r for lvl in levels for r, _ in lvl]
    if len(set(table_rules)) != len(table_rules):
        die("parser.rs: an operator appears twice in the climber table")
    if set(table_rules) != set(brules):
        die(f"operator rules of xray.pest and the climber table differ: {sorted(set(table_rules) ^ set(brules))}")
    if set(infix_fn) != set(brules):
        die(f"operator rules of xray.pest and the infix arms differ: {sorted(set(infix_fn) ^ set(brules))}")
    if set(unary_fn) != set(r for r, _ in unary):
        die(f"unary rules of xray.pest and the unary arms differ: {sorted(set(unary_fn) ^ set(r for r, _ in unary))}")
    return levels, infix_fn, unary_fn, index_fn


def main():
    binary, unary = read_pest()
    levels, infix_fn, unary_fn, index_fn = read_parser(binary, unary)
    L = []
    L.append("/- GENERATED by /verif/translate/ops.py from /repo/src/xray.pest and /repo/src/parser.rs on every run of")
    L.append("   `./check C02` — do not edit.  The operator tables of the expression parser. -/")
    L.append("namespace Generated.Ops")
    L.append("")
    L.append("inductive Assoc where")
    L.append("  | left | right")
    L.append("  deriving DecidableEq, Repr")
    L.append("")
    L.append("/-- xray.pest `BINARY_OP = _{ .. }`: (rule, token) in the order of the ordered choice -/")
    L.append("def pestBinary : List (String × String) := [" + ", ".join(f"({lean_str(r)}, {lean_str(t)})" for r, t in binary) + "]")
    L.append("")
    L.append("/-- xray.pest `UNARY_OP = _{ .. }`: (rule, token) -/")
    L.append("def pestUnary : List (String × String) := [" + ", ".join(f"({lean_str(r)}, {lean_str(t)})" for r, t in unary) + "]")
    L.append("")
    L.append("/-- parser.rs `PrecClimber::new(vec![ .. ])`: one inner list per vec element (precedence = index + 1) -/")
    L.append("def climberLevels : List (List (String × Assoc)) := [")
    L.append(",\n".join("  [" + ", ".join(f"({lean_str(r)}, .{a.lower()})" for r, a in lvl) + "]" for lvl in levels))
    L.append("]")
    L.append("")
    L.append("/-- parser.rs, infix closure of the `Rule::expression` arm: rule ↦ name of the function the operator calls -/")
    L.append("def infixFunc : List (String × String) := [" + ", ".join(f"({lean_str(r)}, {lean_str(f)})" for r, f in infix_fn.items()) + "]")
    L.append("")
    L.append("/-- parser.rs, `Rule::expression1` arm: rule ↦ function name -/")
    L.append("def unaryFunc : List (String × String) := [" + ", ".join(f"({lean_str(r)}, {lean_str(f)})" for r, f in unary_fn.items()) + "]")
    L.append("")
    L.append("/-- parser.rs, `Rule::index` arm: `a[b]` calls this function -/")
    L.append(f"def indexFunc : String := {lean_str(index_fn)}")
    L.append("")
    L.append("end Generated.Ops")
    text = "\n".join(L) + "\n"
    old = open(OUT).read() if os.path.exists(OUT) else None
    if old != text:
        os.makedirs(os.path.dirname(OUT), exist_ok=True)
        with open(OUT, "w") as fh:
            fh.write(text)
    print(f"ops.py: {len(binary)} binary operators on {len(levels)} levels, {len(unary)} unary operators, index -> {index_fn}")


if __name__ == "__main__":
    main()
