/- the product odometer enumerates the lexicographic product (C16) -/
import XrayProofs.GenProduct
namespace XrayModel.Gen

/-- iterating `next` from `it` yields exactly the values `xs` and then ends -/
def Lists (L : Option Nat) (fuel : Nat) : List V → It → Prop
  | [], it => next L fuel it = .done
  | x :: xs, it => ∃ s, next L fuel it = .item (.val x) s ∧ Lists L fuel xs s

/-- one position of the odometer: the part generator, the list it denotes, its running iterator, the element
it contributes to the current tuple, the elements still to come in this pass -/
structure PPos where
  g : G
  xs : List V
  it : It
  c : V
  r : List V

def PPos.ok (L : Option Nat) (fuel : Nat) (p : PPos) : Prop :=
  Lists L fuel p.xs (p.g.start L) ∧ Lists L fuel p.r p.it ∧ p.xs ≠ []

/-- the carry loop on positions, rightmost position first (the list is reversed) -/
def bumpR (L : Option Nat) (fuel : Nat) : List PPos → Option (List PPos × Bool)
  | [] => some ([], false)
  | p :: rest =>
    match next L fuel p.it with
    | .item (.val v) s => some ({ p with it := s, c := v, r := p.r.tail } :: rest, true)
    | .done =>
      match next L fuel (p.g.start L) with
      | .item (.val v) s =>
        match bumpR L fuel rest with
        | some (rest', f) => some ({ p with it := s, c := v, r := p.xs.tail } :: rest', f)
        | none => none
      | _ => none
    | _ => none

theorem get_mid {α : Type} (a : List α) (x : α) (b : List α) : (a ++ x :: b)[a.length]? = some x := by
  induction a with
  | nil => rfl
  | cons h t ih => simpa using ih

theorem set_mid {α : Type} (a : List α) (x y : α) (b : List α) : (a ++ x :: b).set a.length y = a ++ y :: b := by
  induction a with
  | nil => rfl
  | cons h t ih => simp [List.set, ih]

/-- the index-based loop of the model is the list recursion `bumpR` -/
theorem pbump_mech (L : Option Nat) (fuel : Nat) : ∀ (rpre post rpre' : List PPos) (f : Bool),
    bumpR L fuel rpre = some (rpre', f) →
    pbump L fuel ((rpre.reverse ++ post).map PPos.g) rpre.length
        ((rpre.reverse ++ post).map PPos.it) ((rpre.reverse ++ post).map PPos.c) =
      .inr ((rpre'.reverse ++ post).map PPos.it, (rpre'.reverse ++ post).map PPos.c, f) := by
  intro rpre
  induction rpre with
  | nil =>
    intro post rpre' f h
    simp only [bumpR, Option.some.injEq, Prod.mk.injEq] at h
    obtain ⟨rfl, rfl⟩ := h
    simp [pbump]
  | cons p rest ih =>
    intro post rpre' f h
    have hlen : (rest.reverse.map PPos.it).length = rest.length := by simp
    have hlenc : (rest.reverse.map PPos.c).length = rest.length := by simp
    have hleng : (rest.reverse.map PPos.g).length = rest.length := by simp
    have eit : ((p :: rest).reverse ++ post).map PPos.it = rest.reverse.map PPos.it ++ p.it :: post.map PPos.it := by simp
    have ec : ((p :: rest).reverse ++ post).map PPos.c = rest.reverse.map PPos.c ++ p.c :: post.map PPos.c := by simp
    have eg : ((p :: rest).reverse ++ post).map PPos.g = rest.reverse.map PPos.g ++ p.g :: post.map PPos.g := by simp
    have hgi : (rest.reverse.map PPos.it ++ p.it :: post.map PPos.it)[rest.length]? = some p.it := by
      have := get_mid (rest.reverse.map PPos.it) p.it (post.map PPos.it); rwa [hlen] at this
    have hgg : (rest.reverse.map PPos.g ++ p.g :: post.map PPos.g)[rest.length]? = some p.g := by
      have := get_mid (rest.reverse.map PPos.g) p.g (post.map PPos.g); rwa [hleng] at this
    have hsi : ∀ s, (rest.reverse.map PPos.it ++ p.it :: post.map PPos.it).set rest.length s =
        rest.reverse.map PPos.it ++ s :: post.map PPos.it := by
      intro s; have := set_mid (rest.reverse.map PPos.it) p.it s (post.map PPos.it); rwa [hlen] at this
    have hsc : ∀ v, (rest.reverse.map PPos.c ++ p.c :: post.map PPos.c).set rest.length v =
        rest.reverse.map PPos.c ++ v :: post.map PPos.c := by
      intro v; have := set_mid (rest.reverse.map PPos.c) p.c v (post.map PPos.c); rwa [hlenc] at this
    rw [eit, ec, eg, List.length_cons, pbump]
    simp only [hgi, hgg]
    simp only [bumpR] at h
    cases hn : next L fuel p.it with
    | outOfFuel => simp [hn] at h
    | item x s =>
      cases x with
      | val v =>
        simp only [hn, Option.some.injEq, Prod.mk.injEq] at h
        obtain ⟨rfl, rfl⟩ := h
        simp [hsi, hsc]
      | err => simp [hn] at h
      | viol => simp [hn] at h
    | done =>
      simp only [hn] at h
      cases hr : next L fuel (p.g.start L) with
      | outOfFuel => simp [hr] at h
      | done => simp [hr] at h
      | item x s =>
        cases x with
        | err => simp [hr] at h
        | viol => simp [hr] at h
        | val v =>
          simp only [hr] at h
          cases hb : bumpR L fuel rest with
          | none => simp [hb] at h
          | some res =>
            obtain ⟨rest', f'⟩ := res
            simp only [hb, Option.some.injEq, Prod.mk.injEq] at h
            obtain ⟨rfl, rfl⟩ := h
            simp only [hsi, hsc]
            have := ih ({ p with it := s, c := v, r := p.xs.tail } :: post) rest' f' hb
            simpa using this


/-! ### what the positions denote (everything reversed: the fastest part first) -/

def curR (rps : List PPos) : List V := rps.map PPos.c

/-- the (reversed) tuples still to come after the current one -/
def remR : List PPos → List (List V)
  | [] => []
  | a :: rest => a.r.map (· :: curR rest) ++ (remR rest).flatMap (fun t => a.xs.map (· :: t))

/-- the product with the first factor varying fastest, tuples reversed -/
def cartR : List (List V) → List (List V)
  | [] => [[]]
  | xs :: rest => (cartR rest).flatMap (fun t => xs.map (· :: t))

theorem lists_cons {L fuel x xs it} (h : Lists L fuel (x :: xs) it) :
    ∃ s, next L fuel it = .item (.val x) s ∧ Lists L fuel xs s := h

/-- one carry: the loop succeeds on well-formed positions, keeps them well-formed, and moves to the next tuple -/
theorem bumpR_den (L : Option Nat) (fuel : Nat) : ∀ (rps : List PPos), (∀ p ∈ rps, p.ok L fuel) →
    ∃ rps' f, bumpR L fuel rps = some (rps', f) ∧ (∀ p ∈ rps', p.ok L fuel) ∧
      rps'.map PPos.g = rps.map PPos.g ∧ rps'.map PPos.xs = rps.map PPos.xs ∧
      (f = true → remR rps = curR rps' :: remR rps') ∧ (f = false → remR rps = []) := by
  intro rps
  induction rps with
  | nil => intro _; exact ⟨[], false, rfl, by simp, rfl, rfl, by simp, by simp [remR]⟩
  | cons a rest ih =>
    intro hok
    have ha : a.ok L fuel := hok a (by simp)
    obtain ⟨hxs, hr, hne⟩ := ha
    cases har : a.r with
    | cons x r' =>
      rw [har] at hr
      obtain ⟨s, hn, hs⟩ := lists_cons hr
      refine ⟨{ a with it := s, c := x, r := a.r.tail } :: rest, true, by simp [bumpR, hn], ?_, by simp, by simp, ?_, by simp⟩
      · intro p hp
        rcases List.mem_cons.mp hp with rfl | hp
        · exact ⟨hxs, by simpa [har] using hs, hne⟩
        · exact hok p (by simp [hp])
      · intro _
        simp [remR, curR, har]
    | nil =>
      rw [har] at hr
      have hd : next L fuel a.it = .done := hr
      cases hax : a.xs with
      | nil => exact absurd hax hne
      | cons h t =>
        have hxs0 := hxs
        rw [hax] at hxs
        obtain ⟨s, hn, hs⟩ := lists_cons hxs
        obtain ⟨rest', f, hb, hok', hg, hx, ht, hf⟩ := ih (fun p hp => hok p (by simp [hp]))
        refine ⟨{ a with it := s, c := h, r := a.xs.tail } :: rest', f, by simp [bumpR, hd, hn, hb], ?_, by simp [hg], by simp [hx], ?_, ?_⟩
        · intro p hp
          rcases List.mem_cons.mp hp with rfl | hp
          · exact ⟨hxs0, by simpa [hax] using hs, hne⟩
          · exact hok' p hp
        · intro hf'
          simp [remR, curR, har, hax, ht hf']
        · intro hf'
          simp [remR, har, hf hf']

/-- the positions right after the first round denote the whole product -/
theorem init_all : ∀ (rps : List PPos), (∀ p ∈ rps, p.xs = p.c :: p.r) →
    curR rps :: remR rps = cartR (rps.map PPos.xs) := by
  intro rps
  induction rps with
  | nil => intro _; rfl
  | cons a rest ih =>
    intro h
    have ha := h a (by simp)
    have := ih (fun p hp => h p (by simp [hp]))
    simp only [List.map_cons, cartR, ← this, ha]
    simp [remR, curR, ha]

theorem cartR_empty : ∀ (rxss : List (List V)), [] ∈ rxss → cartR rxss = [] := by
  intro rxss
  induction rxss with
  | nil => intro h; simp at h
  | cons xs rest ih =>
    intro h
    rcases List.mem_cons.mp h with h | h
    · simp [cartR, ← h]
    · simp [cartR, ih h]


/-! ### running the product -/

theorem startAll_map (L : Option Nat) : ∀ (gs : List G), G.startAll L gs = gs.map (G.start L)
  | [] => rfl
  | g :: gs => by simp [G.startAll, startAll_map L gs]

/-- the first round over parts that denote non-empty lists: the heads, every part advanced by one -/
theorem pfirsts_lists (L : Option Nat) (fuel : Nat) : ∀ (ps : List (G × List V)) (doneIts : List It) (acc : List V),
    (∀ p ∈ ps, Lists L fuel p.2 (p.1.start L) ∧ p.2 ≠ []) →
    ∃ poss : List PPos, poss.map PPos.g = ps.map Prod.fst ∧ poss.map PPos.xs = ps.map Prod.snd ∧
      (∀ q ∈ poss, q.ok L fuel ∧ q.xs = q.c :: q.r) ∧
      pfirsts L fuel (ps.map (fun p => p.1.start L)) doneIts acc =
        .inr (doneIts.reverse ++ poss.map PPos.it, acc.reverse ++ poss.map PPos.c) := by
  intro ps
  induction ps with
  | nil => intro d a _; exact ⟨[], rfl, rfl, by simp, by simp [pfirsts]⟩
  | cons p ps ih =>
    intro d a h
    obtain ⟨hl, hne⟩ := h p (by simp)
    obtain ⟨g, xs⟩ := p
    cases xs with
    | nil => exact absurd rfl hne
    | cons x t =>
      obtain ⟨s, hn, hs⟩ := lists_cons hl
      obtain ⟨poss, hg, hx, hq, hp⟩ := ih (s :: d) (x :: a) (fun q hq => h q (by simp [hq]))
      refine ⟨⟨g, x :: t, s, x, t⟩ :: poss, by simp [hg], by simp [hx], ?_, ?_⟩
      · intro q hq'
        rcases List.mem_cons.mp hq' with rfl | hq'
        · exact ⟨⟨hl, hs, by simp⟩, rfl⟩
        · exact hq q hq'
      · simp only [List.map_cons, pfirsts, hn, hp]
        simp

/-- … and it ends the product at once when a part denotes the empty list -/
theorem pfirsts_done (L : Option Nat) (fuel : Nat) : ∀ (ps : List (G × List V)) (doneIts : List It) (acc : List V),
    (∀ p ∈ ps, Lists L fuel p.2 (p.1.start L)) → [] ∈ ps.map Prod.snd →
    ∃ its, pfirsts L fuel (ps.map (fun p => p.1.start L)) doneIts acc = .inl (.done, its) := by
  intro ps
  induction ps with
  | nil => intro _ _ _ h; simp at h
  | cons p ps ih =>
    intro d a h hmem
    have hl := h p (by simp)
    obtain ⟨g, xs⟩ := p
    cases xs with
    | nil =>
      have hd : next L fuel (g.start L) = .done := hl
      exact ⟨d.reverse ++ g.start L :: ps.map (fun p => p.1.start L), by simp only [List.map_cons, pfirsts, hd]⟩
    | cons x t =>
      obtain ⟨s, hn, _⟩ := lists_cons hl
      have hmem' : [] ∈ ps.map Prod.snd := by simpa using hmem
      obtain ⟨its, hi⟩ := ih (s :: d) (x :: a) (fun q hq => h q (by simp [hq])) hmem'
      exact ⟨its, by simp only [List.map_cons, pfirsts, hn, hi]⟩

/-- from well-formed positions the product yields the remaining tuples, in order -/
theorem ptake_from (L : Option Nat) (fuel : Nat) : ∀ (n : Nat) (rps : List PPos), (∀ p ∈ rps, p.ok L fuel) →
    ptake L fuel n ⟨rps.reverse.map PPos.g, rps.reverse.map PPos.it, some (rps.reverse.map PPos.c)⟩ =
      some (((remR rps).take n).map (fun t => V.tup t.reverse)) := by
  intro n
  induction n with
  | zero => intro rps _; simp [ptake]
  | succ n ih =>
    intro rps hok
    obtain ⟨rps', f, hb, hok', hg, _, ht, hf⟩ := bumpR_den L fuel rps hok
    have hm := pbump_mech L fuel rps [] rps' f hb
    simp only [List.append_nil] at hm
    have hlen : (rps.reverse.map PPos.c).length = rps.length := by simp
    simp only [ptake, pnext, hlen, hm]
    cases f with
    | false => simp [hf rfl]
    | true =>
      have hg' : rps.reverse.map PPos.g = rps'.reverse.map PPos.g := by
        rw [List.map_reverse, List.map_reverse, hg]
      simp only [hg', ih rps' hok', ht rfl]
      simp [curR, List.map_reverse]

/-- the product of parts denoting the finite lists `xss` yields, in order, the tuples of `cartR` (first factor of
the reversed list fastest, i.e. last part fastest) -/
theorem ptake_cartR (L : Option Nat) (fuel : Nat) (ps : List (G × List V)) (n : Nat)
    (h : ∀ p ∈ ps, Lists L fuel p.2 (p.1.start L)) :
    ptake L fuel n (pstart L (ps.map Prod.fst)) =
      some (((cartR (ps.map Prod.snd).reverse).take n).map (fun t => V.tup t.reverse)) := by
  have hst : pstart L (ps.map Prod.fst) = ⟨ps.map Prod.fst, ps.map (fun p => p.1.start L), none⟩ := by
    simp [pstart, startAll_map]
  by_cases hemp : [] ∈ ps.map Prod.snd
  · obtain ⟨its, hi⟩ := pfirsts_done L fuel ps [] [] h hemp
    have : cartR (ps.map Prod.snd).reverse = [] := cartR_empty _ (by simpa using hemp)
    cases n with
    | zero => simp [ptake]
    | succ n => simp [ptake, pnext, hst, hi, this]
  · have hne : ∀ p ∈ ps, Lists L fuel p.2 (p.1.start L) ∧ p.2 ≠ [] := by
      intro p hp
      refine ⟨h p hp, ?_⟩
      intro he
      exact hemp (by simpa using ⟨p.1, by rw [← he]; exact hp⟩)
    obtain ⟨poss, hg, hx, hq, hp⟩ := pfirsts_lists L fuel ps [] [] hne
    cases n with
    | zero => simp [ptake]
    | succ n =>
      have hall := init_all poss.reverse (fun p hp' => (hq p (by simpa using hp')).2)
      have hfrom := ptake_from L fuel n poss.reverse (fun p hp' => (hq p (by simpa using hp')).1)
      simp only [List.reverse_reverse] at hfrom
      simp only [ptake, pnext, hst, hp, List.reverse_nil, List.nil_append]
      rw [← hg, hfrom]
      have hx' : (poss.reverse.map PPos.xs) = (ps.map Prod.snd).reverse := by
        rw [List.map_reverse, hx]
      rw [← hx', ← hall]
      simp [curR, List.map_reverse]


/-! ### the usual lexicographic product -/

/-- the cartesian product of lists, last factor fastest (`itertools.product`) -/
def cart : List (List V) → List (List V)
  | [] => [[]]
  | xs :: xss => xs.flatMap (fun x => (cart xss).map (x :: ·))

theorem cartR_snoc : ∀ (a : List (List V)) (xs : List V),
    cartR (a ++ [xs]) = xs.flatMap (fun x => (cartR a).map (· ++ [x])) := by
  intro a
  induction a with
  | nil =>
    intro xs
    induction xs with
    | nil => rfl
    | cons x xs ih => simp_all [cartR]
  | cons y a ih =>
    intro xs
    simp only [List.cons_append, cartR, ih, List.flatMap_assoc, List.flatMap_map, List.map_flatMap, List.map_map]
    rfl

theorem cart_eq_cartR : ∀ (xss : List (List V)), cart xss = (cartR xss.reverse).map List.reverse := by
  intro xss
  induction xss with
  | nil => rfl
  | cons xs xss ih =>
    simp only [List.reverse_cons, cartR_snoc, cart, ih, List.map_flatMap, List.map_map]
    congr 1
    funext x
    simp [Function.comp_def]


/-! ### sources of `Lists`; an infinite last factor -/

theorem lists_arr (L : Option Nat) (fuel : Nat) : ∀ (vs : List V), Lists L (fuel + 1) vs (.arr vs)
  | [] => next_arr_nil L fuel
  | v :: vs => ⟨.arr vs, next_arr_cons L fuel v vs, lists_arr L fuel vs⟩

/-- the iterator yields at least the `n` values `f 0, …, f (n-1)` -/
def Strm (L : Option Nat) (fuel : Nat) : Nat → (Nat → V) → It → Prop
  | 0, _, _ => True
  | n + 1, f, it => ∃ s, next L fuel it = .item (.val (f 0)) s ∧ Strm L fuel n (fun k => f (k + 1)) s

theorem pfirsts_lists_tail (L : Option Nat) (fuel : Nat) : ∀ (ps : List (G × List V)) (tailIts doneIts : List It) (acc : List V),
    (∀ p ∈ ps, Lists L fuel p.2 (p.1.start L) ∧ p.2 ≠ []) →
    ∃ poss : List PPos, poss.map PPos.g = ps.map Prod.fst ∧ (∀ q ∈ poss, q.xs = q.c :: q.r) ∧
      poss.map PPos.xs = ps.map Prod.snd ∧
      pfirsts L fuel (ps.map (fun p => p.1.start L) ++ tailIts) doneIts acc =
        pfirsts L fuel tailIts ((poss.map PPos.it).reverse ++ doneIts) ((poss.map PPos.c).reverse ++ acc) := by
  intro ps
  induction ps with
  | nil => intro t d a _; exact ⟨[], rfl, by simp, rfl, by simp⟩
  | cons p ps ih =>
    intro t d a h
    obtain ⟨hl, hne⟩ := h p (by simp)
    obtain ⟨g, xs⟩ := p
    cases xs with
    | nil => exact absurd rfl hne
    | cons x tl =>
      obtain ⟨s, hn, _⟩ := lists_cons hl
      obtain ⟨poss, hg, hq, hx, hp⟩ := ih t (s :: d) (x :: a) (fun q hq => h q (by simp [hq]))
      refine ⟨⟨g, x :: tl, s, x, tl⟩ :: poss, by simp [hg], ?_, by simp [hx], ?_⟩
      · intro q hq'
        rcases List.mem_cons.mp hq' with rfl | hq'
        · rfl
        · exact hq q hq'
      · simp only [List.map_cons, List.cons_append, pfirsts, hn, hp]
        simp

/-- while the last part keeps yielding, only it advances -/
theorem ptake_stream (L : Option Nat) (fuel : Nat) : ∀ (n : Nat) (f : Nat → V) (p : PPos) (rest : List PPos),
    Strm L fuel n f p.it →
    ptake L fuel n ⟨(p :: rest).reverse.map PPos.g, (p :: rest).reverse.map PPos.it, some ((p :: rest).reverse.map PPos.c)⟩ =
      some ((List.range n).map (fun k => V.tup ((rest.reverse.map PPos.c) ++ [f k]))) := by
  intro n
  induction n with
  | zero => intro f p rest _; simp [ptake]
  | succ n ih =>
    intro f p rest hs
    obtain ⟨s, hn, hs'⟩ := hs
    have hb : bumpR L fuel (p :: rest) = some ({ p with it := s, c := f 0, r := p.r.tail } :: rest, true) := by
      simp [bumpR, hn]
    have hm := pbump_mech L fuel (p :: rest) [] _ true hb
    simp only [List.append_nil] at hm
    have hlen : ((p :: rest).reverse.map PPos.c).length = (p :: rest).length := by simp
    have := ih (fun k => f (k + 1)) { p with it := s, c := f 0, r := p.r.tail } rest hs'
    simp only [ptake, pnext, hlen, hm]
    have hg : (p :: rest).reverse.map PPos.g = ({ p with it := s, c := f 0, r := p.r.tail } :: rest).reverse.map PPos.g := by simp
    rw [hg, this]
    simp [List.range_succ_eq_map, Function.comp_def]


theorem heads_of_poss : ∀ (poss : List PPos), (∀ q ∈ poss, q.xs = q.c :: q.r) →
    (poss.map PPos.xs).filterMap List.head? = poss.map PPos.c := by
  intro poss
  induction poss with
  | nil => intro _; rfl
  | cons q poss ih =>
    intro h
    simp [h q (by simp), ih (fun p hp => h p (by simp [hp]))]

/-- laziness in the last factor: when the parts before it denote non-empty finite lists and the last part yields
(at least) `f 0 … f (n-1)`, the first `n` tuples are the heads of the other parts with `f k` — nothing else of the
other parts is pulled, and the last part is pulled exactly `n` times -/
theorem ptake_lazy_last (L : Option Nat) (fuel : Nat) (ps : List (G × List V)) (glast : G) (f : Nat → V) (n : Nat)
    (h : ∀ p ∈ ps, Lists L fuel p.2 (p.1.start L) ∧ p.2 ≠ []) (hs : Strm L fuel n f (glast.start L)) :
    ptake L fuel n (pstart L (ps.map Prod.fst ++ [glast])) =
      some ((List.range n).map (fun k => V.tup ((ps.map Prod.snd).filterMap List.head? ++ [f k]))) := by
  cases n with
  | zero => simp [ptake]
  | succ n =>
    obtain ⟨s, hn, hs'⟩ := hs
    obtain ⟨poss, hg, hq, hx, hp⟩ := pfirsts_lists_tail L fuel ps [glast.start L] [] [] h
    have hst : pstart L (ps.map Prod.fst ++ [glast]) =
        ⟨ps.map Prod.fst ++ [glast], ps.map (fun p => p.1.start L) ++ [glast.start L], none⟩ := by
      simp [pstart, startAll_map]
    have hstream := ptake_stream L fuel n (fun k => f (k + 1)) ⟨glast, [], s, f 0, []⟩ poss.reverse hs'
    simp only [List.reverse_cons, List.reverse_reverse, List.map_append, List.map_cons, List.map_nil] at hstream
    simp only [ptake, pnext, hst, hp, pfirsts, hn]
    simp only [List.append_nil, List.reverse_cons, List.reverse_reverse, List.reverse_append, List.reverse_nil,
      List.nil_append, List.singleton_append]
    rw [← hg]
    have e1 : (List.map PPos.it poss).reverse.reverse = List.map PPos.it poss := List.reverse_reverse _
    have e2 : (List.map PPos.c poss).reverse.reverse = List.map PPos.c poss := List.reverse_reverse _
    simp only [List.reverse_reverse] at *
    rw [hstream, ← hx, heads_of_poss poss hq]
    simp [List.range_succ_eq_map, Function.comp_def]

end XrayModel.Gen
