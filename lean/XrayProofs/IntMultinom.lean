/-
The `multinom` loop of `int.rs` (`IntB.multinom`): sorting, the inner and outer fold invariants, the closed form.
-/
import Mathlib.Data.Nat.Choose.Basic
import XrayProofs.LazyIntOps
namespace XrayModel.Multinom
open XrayModel LB

/-- sum of the entries (as naturals) -/
def sumN : List LB → Nat
  | [] => 0
  | x :: xs => x.den.toNat + sumN xs

/-- product of the factorials of the entries -/
def prodF : List LB → Nat
  | [] => 1
  | x :: xs => x.den.toNat.factorial * prodF xs

theorem sumN_perm {l₁ l₂ : List LB} (h : l₁.Perm l₂) : sumN l₁ = sumN l₂ := by
  induction h with
  | nil => rfl
  | cons x _ ih => simp only [sumN, ih]
  | swap x y l => simp only [sumN]; omega
  | trans _ _ ih1 ih2 => rw [ih1, ih2]

theorem prodF_perm {l₁ l₂ : List LB} (h : l₁.Perm l₂) : prodF l₁ = prodF l₂ := by
  induction h with
  | nil => rfl
  | cons x _ ih => simp only [prodF, ih]
  | swap x y l => simp only [prodF]; rw [← Nat.mul_assoc, ← Nat.mul_assoc, Nat.mul_comm (Nat.factorial _)]
  | trans _ _ ih1 ih2 => rw [ih1, ih2]

/-! ### sorting -/

theorem insertDesc_perm (x : LB) : ∀ l : List LB, (IntB.insertDesc x l).Perm (x :: l) := by
  intro l
  induction l with
  | nil => exact List.Perm.refl _
  | cons y ys ih =>
    unfold IntB.insertDesc
    split
    · exact ((List.perm_cons y).mpr ih).trans (List.Perm.swap x y ys)
    · exact List.Perm.refl _

theorem sortDesc_perm : ∀ s : List LB, (IntB.sortDesc s).Perm s := by
  intro s
  induction s with
  | nil => exact List.Perm.refl _
  | cons x xs ih =>
    show (IntB.insertDesc x (IntB.sortDesc xs)).Perm (x :: xs)
    exact (insertDesc_perm x _).trans ((List.perm_cons x).mpr ih)

/-- descending by denotation -/
def Desc (l : List LB) : Prop := List.Pairwise (fun a b => b.den ≤ a.den) l

theorem insertDesc_desc (x : LB) (hx : x.wf) : ∀ l : List LB, (∀ y ∈ l, y.wf) → Desc l → Desc (IntB.insertDesc x l) := by
  intro l
  induction l with
  | nil => intro _ _; exact List.pairwise_singleton _ _
  | cons y ys ih =>
    intro hw hd
    unfold IntB.insertDesc
    have hy : y.wf := hw y List.mem_cons_self
    rw [Ops.cmp_spec x y hx hy]
    obtain ⟨hhead, htail⟩ := List.pairwise_cons.mp hd
    split
    · rename_i hlt
      rw [beq_iff_eq, Int.compare_eq_lt] at hlt
      refine List.pairwise_cons.mpr ⟨?_, ih (fun z hz => hw z (List.mem_cons_of_mem _ hz)) htail⟩
      intro z hz
      rcases List.mem_cons.mp ((insertDesc_perm x ys).mem_iff.mp hz) with h | h
      · rw [h]; omega
      · exact hhead z h
    · rename_i hge
      rw [beq_iff_eq, Int.compare_eq_lt] at hge
      refine List.pairwise_cons.mpr ⟨?_, hd⟩
      intro z hz
      rcases List.mem_cons.mp hz with h | h
      · rw [h]; omega
      · have := hhead z h; omega

theorem sortDesc_desc : ∀ s : List LB, (∀ y ∈ s, y.wf) → Desc (IntB.sortDesc s) := by
  intro s
  induction s with
  | nil => intro _; exact List.Pairwise.nil
  | cons x xs ih =>
    intro hw
    show Desc (IntB.insertDesc x (IntB.sortDesc xs))
    apply insertDesc_desc x (hw x List.mem_cons_self)
    · intro y hy; exact hw y (List.mem_cons_of_mem _ ((sortDesc_perm xs).mem_iff.mp hy))
    · exact ih (fun y hy => hw y (List.mem_cons_of_mem _ hy))

/-! ### the inner loop -/

theorem inner_inv (ctr : LB) (hcw : ctr.wf) (c : Nat) (hc : ctr.den = c) (num denum : LB) (hnw : num.wf) (hdw : denum.wf) :
    ∀ k : Nat, ∃ num' den', ((List.range k).map (fun (i : Nat) => LB.ofInt (Int.ofNat i))).foldl (IntB.multinomStep ctr)
        (.ok (num, denum)) = .ok (num', den') ∧ num'.wf ∧ den'.wf ∧
      num'.den = num.den * (c.ascFactorial k : Nat) ∧ den'.den = denum.den * (k.factorial : Nat) := by
  intro k
  induction k with
  | zero => exact ⟨num, denum, rfl, hnw, hdw, by simp, by simp⟩
  | succ k ih =>
    obtain ⟨n1, d1, hf, hnw1, hdw1, hn, hd⟩ := ih
    rw [List.range_succ, List.map_append, List.foldl_append, hf]
    simp only [List.map_cons, List.map_nil, List.foldl_cons, List.foldl_nil, IntB.multinomStep]
    have hiw : (LB.ofInt (Int.ofNat k)).wf := ofInt_wf _
    have hid : (LB.ofInt (Int.ofNat k)).den = k := ofInt_den _
    obtain ⟨t, ht, htw, htd⟩ := Ops.add_correct _ ctr hiw hcw
    rw [ht]; simp only []
    obtain ⟨n2, hn2, hnw2, hnd2⟩ := Ops.mulAssign_correct n1 t hnw1 htw
    rw [hn2]; simp only []
    obtain ⟨u, hu, huw, hud⟩ := Ops.add_correct (LB.ofInt (Int.ofNat k)) (short 1) hiw (by decide)
    rw [hu]; simp only []
    obtain ⟨d2, hd2, hdw2, hdd2⟩ := Ops.mulAssign_correct d1 u hdw1 huw
    rw [hd2]
    refine ⟨n2, d2, rfl, hnw2, hdw2, ?_, ?_⟩
    · rw [hnd2, hn, htd, hc, hid, Nat.ascFactorial_succ]
      push_cast
      rw [Int.mul_assoc, Int.mul_comm ((c : Int) + k), Int.add_comm (k : Int)]
    · rw [hdd2, hd, hud, hid, Nat.factorial_succ]
      push_cast; simp only [den_short]
      rw [Int.mul_assoc, Int.mul_comm ((k : Int) + 1)]

/-! ### the outer loop -/

/-- invariant of the outer loop: `T` = sum so far (including the largest entry `s0`), `numCtr = T + 1`,
`num = M * denum`, `M * (s0! * denum) = T!`, `denum` = product of the factorials processed -/
structure Inv (s0 : Nat) (done : List LB) (st : LB × LB × LB) : Prop where
  cw : st.1.wf
  nw : st.2.1.wf
  dw : st.2.2.wf
  ctr : st.1.den = ((s0 + sumN done + 1 : Nat) : Int)
  den : st.2.2.den = ((prodF done : Nat) : Int)
  num : ∃ M : Nat, st.2.1.den = ((M * prodF done : Nat) : Int) ∧ M * (s0.factorial * prodF done) = (s0 + sumN done).factorial

theorem sumN_append (a b : List LB) : sumN (a ++ b) = sumN a + sumN b := by
  induction a with
  | nil => simp [sumN]
  | cons x xs ih => simp only [List.cons_append, sumN, ih]; omega

theorem prodF_append (a b : List LB) : prodF (a ++ b) = prodF a * prodF b := by
  induction a with
  | nil => simp [prodF]
  | cons x xs ih => simp only [List.cons_append, prodF, ih, Nat.mul_assoc]

theorem item_step (s0 : Nat) (done : List LB) (st : LB × LB × LB) (hinv : Inv s0 done st) (item : LB)
    (hiw : item.wf) (hin : 0 ≤ item.den) :
    ∃ st', IntB.multinomItem (.ok st) item = .ok st' ∧ Inv s0 (done ++ [item]) st' := by
  obtain ⟨ctr, num, denum⟩ := st
  obtain ⟨hcw, hnw, hdw, hctr, hden, M, hnum, hM⟩ := hinv
  simp only at hcw hnw hdw hctr hden hnum
  let k := item.den.toNat
  have hk : item.den = (k : Int) := by simp only [k]; omega
  obtain ⟨n', d', hf, hnw', hdw', hn', hd'⟩ := inner_inv ctr hcw _ hctr num denum hnw hdw k
  obtain ⟨c', hc', hcw', hcd'⟩ := Ops.addAssign_correct ctr item hcw hiw
  refine ⟨(c', n', d'), ?_, ?_⟩
  · simp only [IntB.multinomItem, IntB.rangeTo]
    rw [show item.den.toNat = k from rfl, hf]; simp only []; rw [hc']
  · have hs : sumN (done ++ [item]) = sumN done + k := by rw [sumN_append]; simp [sumN, k]
    have hp : prodF (done ++ [item]) = prodF done * k.factorial := by rw [prodF_append]; simp [prodF, k]
    refine ⟨hcw', hnw', hdw', ?_, ?_, ?_⟩
    · simp only; rw [hcd', hctr, hk, hs]; push_cast; omega
    · simp only; rw [hd', hden, hp]; push_cast; rfl
    · refine ⟨M * (s0 + sumN done + k).choose k, ?_, ?_⟩
      · simp only; rw [hn', hnum, hp, Nat.ascFactorial_eq_factorial_mul_choose]
        push_cast
        simp only [Int.mul_assoc, Int.mul_comm, Int.mul_left_comm]
      · rw [hp, hs, ← Nat.add_assoc, ← Nat.factorial_mul_ascFactorial (s0 + sumN done) k, ← hM,
          Nat.ascFactorial_eq_factorial_mul_choose]
        simp only [Nat.mul_assoc, Nat.mul_comm, Nat.mul_left_comm]

theorem outer_inv (s0 : Nat) : ∀ (items done : List LB) (st : LB × LB × LB), Inv s0 done st →
    (∀ x ∈ items, x.wf ∧ 0 ≤ x.den) →
    ∃ st', items.foldl IntB.multinomItem (.ok st) = .ok st' ∧ Inv s0 (done ++ items) st' := by
  intro items
  induction items with
  | nil => intro done st h _; exact ⟨st, rfl, by simpa using h⟩
  | cons x xs ih =>
    intro done st h hall
    obtain ⟨st1, h1, hinv1⟩ := item_step s0 done st h x (hall x List.mem_cons_self).1 (hall x List.mem_cons_self).2
    obtain ⟨st2, h2, hinv2⟩ := ih (done ++ [x]) st1 hinv1 (fun y hy => hall y (List.mem_cons_of_mem _ hy))
    refine ⟨st2, ?_, by simpa using hinv2⟩
    rw [List.foldl_cons, h1, h2]

/-! ### entries dropped by `take_while(is_positive)` are zeros -/

theorem dropWhile_zero : ∀ l : List LB, Desc l → (∀ x ∈ l, 0 ≤ x.den) →
    ∀ x ∈ l.dropWhile LB.isPositive, x.den = 0 := by
  intro l
  induction l with
  | nil => intro _ _ x hx; simp at hx
  | cons y ys ih =>
    intro hd hnn x hx
    obtain ⟨hhead, htail⟩ := List.pairwise_cons.mp hd
    rw [List.dropWhile_cons] at hx
    by_cases hp : LB.isPositive y = true
    · rw [if_pos hp] at hx
      exact ih htail (fun z hz => hnn z (List.mem_cons_of_mem _ hz)) x hx
    · rw [if_neg hp] at hx
      rw [isPositive_iff] at hp
      have hy0 : y.den = 0 := by have := hnn y List.mem_cons_self; omega
      rcases List.mem_cons.mp hx with h | h
      · rw [h]; exact hy0
      · have h1 := hhead x h
        have h2 := hnn x (List.mem_cons_of_mem _ h)
        omega

theorem zeros_sum_prod : ∀ l : List LB, (∀ x ∈ l, x.den = 0) → sumN l = 0 ∧ prodF l = 1 := by
  intro l
  induction l with
  | nil => intro _; exact ⟨rfl, rfl⟩
  | cons y ys ih =>
    intro h
    obtain ⟨h1, h2⟩ := ih (fun z hz => h z (List.mem_cons_of_mem _ hz))
    have hy := h y List.mem_cons_self
    simp only [sumN, prodF, h1, h2, hy]
    exact ⟨rfl, rfl⟩

theorem prodF_pos (l : List LB) : 0 < prodF l := by
  induction l with
  | nil => exact Nat.one_pos
  | cons y ys ih => exact Nat.mul_pos (Nat.factorial_pos _) ih

/-- `multinom(ks)` for non-negative entries: the multinomial coefficient `(Σ k)! / Π k!`, exact and canonical -/
theorem multinom_spec (s : List LB) (hs : ∀ x ∈ s, x.wf ∧ 0 ≤ x.den) :
    ∃ r, IntB.multinom s = .int r ∧ r.wf ∧ ∃ M : Nat, r.den = (M : Int) ∧ M * prodF s = (sumN s).factorial := by
  unfold IntB.multinom
  by_cases hlen : s.length ≤ 1
  · rw [if_pos hlen]
    refine ⟨short 1, rfl, by decide, 1, rfl, ?_⟩
    match s, hlen with
    | [], _ => rfl
    | [x], _ => simp [prodF, sumN]
  · rw [if_neg hlen]
    have hperm := sortDesc_perm s
    have hdesc := sortDesc_desc s (fun y hy => (hs y hy).1)
    cases hsd : IntB.sortDesc s with
    | nil =>
      rw [hsd] at hperm
      have := hperm.length_eq
      simp only [List.length_nil] at this
      omega
    | cons s0 rest =>
      rw [hsd] at hperm hdesc
      simp only []
      have hmem : ∀ x ∈ s0 :: rest, x.wf ∧ 0 ≤ x.den := fun x hx => hs x (hperm.mem_iff.mp hx)
      have hlast : LB.isNegative ((s0 :: rest).getLast (List.cons_ne_nil _ _)) = false := by
        rw [← Bool.not_eq_true, isNegative_iff]
        have := (hmem _ (List.getLast_mem (List.cons_ne_nil s0 rest))).2
        omega
      rw [hlast]
      simp only [Bool.false_eq_true, if_false]
      obtain ⟨hs0w, hs0n⟩ := hmem s0 List.mem_cons_self
      obtain ⟨ctr, hctr, hcw, hcd⟩ := Ops.add_correct s0 (short 1) hs0w (by decide)
      rw [hctr]; simp only []
      have hinit : Inv s0.den.toNat [] (ctr, short 1, short 1) := by
        refine ⟨hcw, (by decide : (short 1).wf), (by decide : (short 1).wf), ?_, rfl, 1, rfl, ?_⟩
        · simp only [sumN, hcd, den_short]; omega
        · simp [prodF, sumN]
      obtain ⟨hhead, htail⟩ := List.pairwise_cons.mp hdesc
      have hrest : ∀ x ∈ rest, x.wf ∧ 0 ≤ x.den := fun x hx => hmem x (List.mem_cons_of_mem _ hx)
      obtain ⟨⟨c', num, denum⟩, hfold, hinv⟩ := outer_inv s0.den.toNat (rest.takeWhile LB.isPositive) [] _ hinit
        (fun x hx => hrest x (List.takeWhile_subset _ hx))
      rw [hfold]; simp only []
      obtain ⟨_, hnw, hdw, _, hden, M, hnum, hM⟩ := hinv
      simp only [List.nil_append] at hnw hdw hden hnum hM
      have hpos := prodF_pos (rest.takeWhile LB.isPositive)
      have hd0 : denum.den ≠ 0 := by rw [hden]; omega
      obtain ⟨r, hr, hrw, hrd⟩ := Ops.div_correct num denum hnw hdw hd0
      refine ⟨r, by rw [hr]; rfl, hrw, M, ?_, ?_⟩
      · rw [hrd, hnum, hden]
        push_cast
        rw [Int.mul_comm]
        exact Int.mul_tdiv_cancel_left _ (by omega)
      · have hz := zeros_sum_prod _ (dropWhile_zero rest htail (fun x hx => (hrest x hx).2))
        have hsplit : rest = rest.takeWhile LB.isPositive ++ rest.dropWhile LB.isPositive :=
          List.takeWhile_append_dropWhile.symm
        have hsr : sumN rest = sumN (rest.takeWhile LB.isPositive) := by
          conv => lhs; rw [hsplit]
          rw [sumN_append, hz.1]; rfl
        have hpr : prodF rest = prodF (rest.takeWhile LB.isPositive) := by
          conv => lhs; rw [hsplit]
          rw [prodF_append, hz.2, Nat.mul_one]
        rw [← sumN_perm hperm, ← prodF_perm hperm]
        simp only [sumN, prodF]
        rw [hsr, hpr]; exact hM

theorem last_le : ∀ (l : List LB) (h : l ≠ []), Desc l → ∀ x ∈ l, (l.getLast h).den ≤ x.den := by
  intro l
  induction l with
  | nil => intro h; exact absurd rfl h
  | cons y ys ih =>
    intro h hd x hx
    obtain ⟨hhead, htail⟩ := List.pairwise_cons.mp hd
    by_cases hys : ys = []
    · subst hys
      simp only [List.mem_singleton] at hx
      rw [hx]; simp
    · rw [List.getLast_cons hys]
      rcases List.mem_cons.mp hx with hxy | hxy
      · rw [hxy]; exact hhead _ (List.getLast_mem hys)
      · exact ih hys htail x hxy

/-- a negative entry (among at least two) is the documented error value -/
theorem multinom_negative (s : List LB) (hs : ∀ x ∈ s, x.wf) (hlen : 2 ≤ s.length) (hneg : ∃ x ∈ s, x.den < 0) :
    IntB.multinom s = .err "sequence cannot have negative values" := by
  unfold IntB.multinom
  rw [if_neg (by omega)]
  have hperm := sortDesc_perm s
  have hdesc := sortDesc_desc s hs
  cases hsd : IntB.sortDesc s with
  | nil =>
    rw [hsd] at hperm
    have := hperm.length_eq
    simp only [List.length_nil] at this
    omega
  | cons s0 rest =>
    rw [hsd] at hperm hdesc
    simp only []
    obtain ⟨x, hx, hxn⟩ := hneg
    have := last_le (s0 :: rest) (List.cons_ne_nil _ _) hdesc x (hperm.mem_iff.mpr hx)
    have hl : LB.isNegative ((s0 :: rest).getLast (List.cons_ne_nil _ _)) = true := by
      rw [isNegative_iff]; omega
    rw [hl]; rfl

end XrayModel.Multinom
