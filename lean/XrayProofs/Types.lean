import XrayModel.Types
namespace XrayModel

theorem bindIn_callable_callable (ps ps' : List Ty) (r r' : Ty) (b : Bnd)
    (h : bindIn (.callable ps r) (.callable ps' r') = some b) : ps.length = ps'.length := by
  unfold bindIn at h
  split at h
  · cases h
  · rename_i hne; simpa using hne

end XrayModel
