/-
Helper definitions and lemmas for C04: the documented assignability relation `Sub` (declarative, written from
the book and the property text), the fragment of declarable types, arity well-formedness, and the lemmas that
relate `bindIn` / `mix` to them.
-/
import XrayModel.Types
set_option maxHeartbeats 800000
namespace XrayModel

theorem bindIn_callable_callable (ps ps' : List Ty) (r r' : Ty) (b : Bnd)
    (h : bindIn (.callable ps r) (.callable ps' r') = some b) : ps.length = ps'.length := by
  unfold bindIn at h
  split at h
  · cases h
  · rename_i hne; simpa using hne

/-! ## the documented relation -/
mutual
/-- `Sub s r`: a value of static type `s` may be used where `r` is required, with nothing left to bind:
identical types; the bottom type into anything; tuples, natives and compounds component- and name-wise;
function types by exact arity and component types (a function with optional parameters at every arity of
its window). Generic parameters are opaque here. -/
inductive Sub : Ty → Ty → Prop
  | bot (t : Ty) : Sub .unknown t
  | bool : Sub .bool .bool
  | int : Sub .int .int
  | float : Sub .float .float
  | str : Sub .str .str
  | generic (a : String) : Sub (.generic a) (.generic a)
  | tuple {ss rs : List Ty} : SubList ss rs → Sub (.tuple ss) (.tuple rs)
  | native {n : String} {ss rs : List Ty} : SubList ss rs → Sub (.native n ss) (.native n rs)
  | compound {k : Kind} {n : String} {ss rs : List Ty} : SubList ss rs → Sub (.compound k n ss) (.compound k n rs)
  | callable {ps' ps : List Ty} {r' r : Ty} : SubList ps' ps → Sub r' r → Sub (.callable ps' r') (.callable ps r)
  | func {g : Option (List String)} {ps' ps : List Ty} {n' : Nat} {r' r : Ty} :
      n' ≤ ps.length → ps.length ≤ ps'.length → SubList (ps'.take ps.length) ps → Sub r' r →
      Sub (.func g ps' n' r') (.callable ps r)
/-- component-wise, same length -/
inductive SubList : List Ty → List Ty → Prop
  | nil : SubList [] []
  | cons {s r : Ty} {ss rs : List Ty} : Sub s r → SubList ss rs → SubList (s :: ss) (r :: rs)
end

mutual
/-- types that can be written in a program: no `unknown`, no `XFunc` -/
def declarable : Ty → Bool
  | .unknown => false
  | .func _ _ _ _ => false
  | .tuple ts => declarableList ts
  | .native _ ts => declarableList ts
  | .compound _ _ ts => declarableList ts
  | .callable ps r => declarableList ps && declarable r
  | _ => true
def declarableList : List Ty → Bool
  | [] => true
  | t :: ts => declarable t && declarableList ts
end

mutual
/-- every native / compound name is used with the number of type arguments `ar` gives it
(`GenericParamCountMismatch` enforces this for written types, inference preserves it) -/
def wfTy (ar : String → Nat) : Ty → Bool
  | .tuple ts => wfList ar ts
  | .native n ts => ts.length == ar n && wfList ar ts
  | .compound _ n ts => ts.length == ar n && wfList ar ts
  | .callable ps r => wfList ar ps && wfTy ar r
  | .func _ ps n r => wfList ar ps && wfTy ar r && n ≤ ps.length
  | _ => true
def wfList (ar : String → Nat) : List Ty → Bool
  | [] => true
  | t :: ts => wfTy ar t && wfList ar ts
end

theorem SubList.length_eq {ss rs : List Ty} (h : SubList ss rs) : ss.length = rs.length := by
  induction ss generalizing rs with
  | nil => cases h; rfl
  | cons s ss ih => cases h with | cons h1 h2 => simp [ih h2]

/-! ## mix and emptiness -/
theorem insert_ne_nil (b : Bnd) (k : String) (v : Ty) : b.insert k v ≠ [] := by
  cases b with
  | nil => simp [Bnd.insert]
  | cons e rest => obtain ⟨k', v'⟩ := e; simp only [Bnd.insert]; split <;> simp

theorem mix_ne_nil_of_self (self other res : Bnd) (h : mix self other = some res) (hs : self ≠ []) : res ≠ [] := by
  induction other generalizing self with
  | nil => simp [mix] at h; subst h; exact hs
  | cons e rest ih =>
    obtain ⟨k, v⟩ := e
    simp only [mix] at h
    split at h
    · split at h
      · cases h
      · exact ih _ h (insert_ne_nil _ _ _)
    · exact ih _ h (insert_ne_nil _ _ _)

theorem mix_nil_iff (self other : Bnd) : mix self other = some [] ↔ self = [] ∧ other = [] := by
  constructor
  · intro h
    cases other with
    | nil => simp [mix] at h; exact ⟨h, rfl⟩
    | cons e rest =>
      obtain ⟨k, v⟩ := e
      simp only [mix] at h
      exfalso
      split at h
      · split at h
        · cases h
        · exact mix_ne_nil_of_self _ _ _ h (insert_ne_nil _ _ _) rfl
      · exact mix_ne_nil_of_self _ _ _ h (insert_ne_nil _ _ _) rfl
  · rintro ⟨rfl, rfl⟩; rfl


/-! ## inversion of `Sub` on the required side -/
theorem sub_bool_iff (s : Ty) : Sub s .bool ↔ s = .unknown ∨ s = .bool := by
  constructor
  · intro h; cases h <;> simp
  · rintro (rfl | rfl); exact .bot _; exact .bool
theorem sub_int_iff (s : Ty) : Sub s .int ↔ s = .unknown ∨ s = .int := by
  constructor
  · intro h; cases h <;> simp
  · rintro (rfl | rfl); exact .bot _; exact .int
theorem sub_float_iff (s : Ty) : Sub s .float ↔ s = .unknown ∨ s = .float := by
  constructor
  · intro h; cases h <;> simp
  · rintro (rfl | rfl); exact .bot _; exact .float
theorem sub_str_iff (s : Ty) : Sub s .str ↔ s = .unknown ∨ s = .str := by
  constructor
  · intro h; cases h <;> simp
  · rintro (rfl | rfl); exact .bot _; exact .str
theorem sub_generic_iff (s : Ty) (a : String) : Sub s (.generic a) ↔ s = .unknown ∨ s = .generic a := by
  constructor
  · intro h; cases h <;> simp
  · rintro (rfl | rfl); exact .bot _; exact .generic a
theorem sub_tuple_iff (s : Ty) (rs : List Ty) :
    Sub s (.tuple rs) ↔ s = .unknown ∨ ∃ ss, s = .tuple ss ∧ SubList ss rs := by
  constructor
  · intro h; cases h with
    | bot => simp
    | tuple h => exact .inr ⟨_, rfl, h⟩
  · rintro (rfl | ⟨ss, rfl, h⟩); exact .bot _; exact .tuple h
theorem sub_native_iff (s : Ty) (n : String) (rs : List Ty) :
    Sub s (.native n rs) ↔ s = .unknown ∨ ∃ ss, s = .native n ss ∧ SubList ss rs := by
  constructor
  · intro h; cases h with
    | bot => simp
    | native h => exact .inr ⟨_, rfl, h⟩
  · rintro (rfl | ⟨ss, rfl, h⟩); exact .bot _; exact .native h
theorem sub_compound_iff (s : Ty) (k : Kind) (n : String) (rs : List Ty) :
    Sub s (.compound k n rs) ↔ s = .unknown ∨ ∃ ss, s = .compound k n ss ∧ SubList ss rs := by
  constructor
  · intro h; cases h with
    | bot => simp
    | compound h => exact .inr ⟨_, rfl, h⟩
  · rintro (rfl | ⟨ss, rfl, h⟩); exact .bot _; exact .compound h
theorem sub_callable_iff (s : Ty) (ps : List Ty) (r : Ty) :
    Sub s (.callable ps r) ↔ s = .unknown ∨ (∃ ps' r', s = .callable ps' r' ∧ SubList ps' ps ∧ Sub r' r) ∨
      (∃ g ps' n' r', s = .func g ps' n' r' ∧ n' ≤ ps.length ∧ ps.length ≤ ps'.length ∧
        SubList (ps'.take ps.length) ps ∧ Sub r' r) := by
  constructor
  · intro h; cases h with
    | bot => simp
    | callable h1 h2 => exact .inr (.inl ⟨_, _, rfl, h1, h2⟩)
    | func h1 h2 h3 h4 => exact .inr (.inr ⟨_, _, _, _, rfl, h1, h2, h3, h4⟩)
  · rintro (rfl | ⟨ps', r', rfl, h1, h2⟩ | ⟨g, ps', n', r', rfl, h1, h2, h3, h4⟩)
    · exact .bot _
    · exact .callable h1 h2
    · exact .func h1 h2 h3 h4

theorem subList_cons_iff (s r : Ty) (ss rs : List Ty) : SubList (s :: ss) (r :: rs) ↔ Sub s r ∧ SubList ss rs := by
  constructor
  · intro h; cases h with | cons h1 h2 => exact ⟨h1, h2⟩
  · rintro ⟨h1, h2⟩; exact .cons h1 h2
theorem subList_nil_iff (ss : List Ty) : SubList ss [] ↔ ss = [] := by
  constructor
  · intro h; cases h; rfl
  · rintro rfl; exact .nil
theorem subList_nil_left_iff (rs : List Ty) : SubList [] rs ↔ rs = [] := by
  constructor
  · intro h; cases h; rfl
  · rintro rfl; exact .nil

theorem sub_tuple_tuple (ss rs : List Ty) : Sub (.tuple ss) (.tuple rs) ↔ SubList ss rs := by
  constructor
  · intro h; cases h with | tuple h => exact h
  · exact .tuple
theorem sub_native_native (n m : String) (ss rs : List Ty) :
    Sub (.native m ss) (.native n rs) ↔ n = m ∧ SubList ss rs := by
  constructor
  · intro h; cases h with | native h => exact ⟨rfl, h⟩
  · rintro ⟨rfl, h⟩; exact .native h
theorem sub_compound_compound (k k' : Kind) (n m : String) (ss rs : List Ty) :
    Sub (.compound k' m ss) (.compound k n rs) ↔ n = m ∧ k = k' ∧ SubList ss rs := by
  constructor
  · intro h; cases h with | compound h => exact ⟨rfl, rfl, h⟩
  · rintro ⟨rfl, rfl, h⟩; exact .compound h
theorem sub_callable_callable (ps' ps : List Ty) (r' r : Ty) :
    Sub (.callable ps' r') (.callable ps r) ↔ SubList ps' ps ∧ Sub r' r := by
  constructor
  · intro h; cases h with | callable h1 h2 => exact ⟨h1, h2⟩
  · rintro ⟨h1, h2⟩; exact .callable h1 h2
theorem sub_func_callable (g : Option (List String)) (ps' ps : List Ty) (n' : Nat) (r' r : Ty) :
    Sub (.func g ps' n' r') (.callable ps r) ↔
      n' ≤ ps.length ∧ ps.length ≤ ps'.length ∧ SubList (ps'.take ps.length) ps ∧ Sub r' r := by
  constructor
  · intro h; cases h with | func h1 h2 h3 h4 => exact ⟨h1, h2, h3, h4⟩
  · rintro ⟨h1, h2, h3, h4⟩; exact .func h1 h2 h3 h4

theorem bindZip_ne_nil : (rs ss : List Ty) → (acc res : Bnd) → acc ≠ [] → bindZip rs ss acc = some res → res ≠ []
  | [], ss, acc, res, hne, h => by simp [bindZip] at h; subst h; exact hne
  | r :: rs, [], acc, res, hne, h => by simp [bindZip] at h; subst h; exact hne
  | r :: rs, s :: ss, acc, res, hne, h => by
    simp only [bindZip] at h
    split at h
    · cases h
    · split at h
      · cases h
      · rename_i acc' hacc'
        exact bindZip_ne_nil rs ss acc' res (mix_ne_nil_of_self _ _ _ hacc' hne) h

/-- the three function-type arms end with the same two steps -/
theorem tail_nil_iff (z : Option Bnd) (o : Option Bnd) :
    (match z with
      | none => none
      | some acc => match o with
        | none => none
        | some b => mix acc b) = some [] ↔ z = some [] ∧ o = some [] := by
  cases z with
  | none => simp
  | some acc =>
    cases o with
    | none => simp
    | some b => simp [mix_nil_iff]

/-! ## `bind_in_assignment` with an empty binding is exactly `Sub` -/
mutual
theorem bindIn_nil_iff (ar : String → Nat) : (r s : Ty) → declarable r = true → wfTy ar r = true → wfTy ar s = true →
    (bindIn r s = some [] ↔ Sub s r)
  | .bool, s, _, _, _ => by cases s <;> simp [bindIn, sub_bool_iff]
  | .int, s, _, _, _ => by cases s <;> simp [bindIn, sub_int_iff]
  | .float, s, _, _, _ => by cases s <;> simp [bindIn, sub_float_iff]
  | .str, s, _, _, _ => by cases s <;> simp [bindIn, sub_str_iff]
  | .unknown, s, hd, _, _ => by simp [declarable] at hd
  | .func _ _ _ _, s, hd, _, _ => by simp [declarable] at hd
  | .generic a, s, _, _, _ => by
    cases s with
    | generic b =>
      by_cases h : a = b
      · subst h; simp [bindIn, sub_generic_iff]
      · have h' : ¬ b = a := fun e => h e.symm
        simp [bindIn, sub_generic_iff, h, h']
    | _ => simp [bindIn, sub_generic_iff]
  | .tuple rs, s, hd, hr, hs => by
    cases s with
    | tuple ss =>
      simp only [declarable, wfTy] at hd hr hs
      rw [sub_tuple_tuple]
      simp only [bindIn]
      by_cases hl : rs.length = ss.length
      · simp only [hl, bne_self_eq_false, Bool.false_eq_true, if_false]
        rw [bindZip_nil_iff ar rs ss hd hr hs (by omega), hl, List.take_length]
      · have : ¬ SubList ss rs := fun h => hl h.length_eq.symm
        simp [hl, this]
    | _ => simp [bindIn, sub_tuple_iff]
  | .native n rs, s, hd, hr, hs => by
    cases s with
    | native m ss =>
      simp only [declarable, wfTy, Bool.and_eq_true, beq_iff_eq] at hd hr hs
      rw [sub_native_native]
      simp only [bindIn]
      by_cases hnm : n = m
      · subst hnm
        have hl : rs.length = ss.length := by omega
        simp only [bne_self_eq_false, Bool.false_eq_true, if_false, true_and]
        rw [bindZip_nil_iff ar rs ss hd hr.2 hs.2 (by omega), hl, List.take_length]
      · simp [hnm]
    | _ => simp [bindIn, sub_native_iff]
  | .compound k n rs, s, hd, hr, hs => by
    cases s with
    | compound k' m ss =>
      simp only [declarable, wfTy, Bool.and_eq_true, beq_iff_eq] at hd hr hs
      rw [sub_compound_compound]
      simp only [bindIn]
      by_cases hnm : n = m
      · subst hnm
        by_cases hk : k = k'
        · subst hk
          have hl : rs.length = ss.length := by omega
          simp only [bne_self_eq_false, Bool.or_self, Bool.false_eq_true, if_false, true_and]
          exact bindZipRev_nil_iff ar rs ss hd hr.2 hs.2 hl
        · simp [hk]
      · simp [hnm]
    | _ => simp [bindIn, sub_compound_iff]
  | .callable ps r, s, hd, hr, hs => by
    simp only [declarable, wfTy, Bool.and_eq_true] at hd hr
    cases s with
    | callable ps' r' =>
      simp only [wfTy, Bool.and_eq_true] at hs
      rw [sub_callable_callable]
      simp only [bindIn]
      by_cases hl : ps.length = ps'.length
      · simp only [hl, bne_self_eq_false, Bool.false_eq_true, if_false]
        have e : SubList ps' ps ↔ bindZip ps ps' [] = some [] := by
          rw [bindZip_nil_iff ar ps ps' hd.1 hr.1 hs.1 (by omega), hl, List.take_length]
        rw [e, ← bindIn_nil_iff ar r r' hd.2 hr.2 hs.2]
        cases bindZip ps ps' [] <;> cases bindIn r r' <;> simp [mix_nil_iff]
      · have : ¬ SubList ps' ps := fun h => hl h.length_eq.symm
        simp [hl, this]
    | func g ps' n' r' =>
      simp only [wfTy, Bool.and_eq_true, decide_eq_true_eq] at hs
      rw [sub_func_callable]
      simp only [bindIn]
      by_cases hw : n' ≤ ps.length ∧ ps.length ≤ ps'.length
      · have hc : (decide (ps.length < n') || decide (ps.length > ps'.length)) = false := by
          simp; omega
        simp only [hc, Bool.false_eq_true, if_false]
        rw [← bindZip_nil_iff ar ps ps' hd.1 hr.1 hs.1.1 hw.2, ← bindIn_nil_iff ar r r' hd.2 hr.2 hs.1.2]
        cases bindZip ps ps' [] <;> cases bindIn r r' <;> simp [mix_nil_iff, hw.1, hw.2]
      · have hc : (decide (ps.length < n') || decide (ps.length > ps'.length)) = true := by
          simp; omega
        simp only [hc, if_true]
        constructor
        · intro h; cases h
        · rintro ⟨h1, h2, _⟩; exact absurd ⟨h1, h2⟩ hw
    | _ => simp [bindIn, sub_callable_iff]
theorem bindZip_nil_iff (ar : String → Nat) : (rs ss : List Ty) → declarableList rs = true → wfList ar rs = true →
    wfList ar ss = true → rs.length ≤ ss.length → (bindZip rs ss [] = some [] ↔ SubList (ss.take rs.length) rs)
  | [], ss, _, _, _, _ => by simp [bindZip, subList_nil_iff]
  | r :: rs, [], _, _, _, hl => by simp at hl
  | r :: rs, s :: ss, hd, hr, hs, hl => by
    simp only [declarableList, wfList, Bool.and_eq_true] at hd hr hs
    simp only [List.length_cons, Nat.add_le_add_iff_right] at hl
    simp only [bindZip, List.length_cons, List.take_succ_cons, subList_cons_iff]
    rw [← bindIn_nil_iff ar r s hd.1 hr.1 hs.1, ← bindZip_nil_iff ar rs ss hd.2 hr.2 hs.2 hl]
    constructor
    · intro h
      split at h
      · cases h
      · rename_i sub hsub
        split at h
        · cases h
        · rename_i acc' hacc'
          by_cases hne : acc' = []
          · subst hne
            obtain ⟨_, hs0⟩ := (mix_nil_iff _ _).mp hacc'
            subst hs0
            exact ⟨hsub, h⟩
          · exact absurd rfl (bindZip_ne_nil rs ss acc' [] hne h)
    · rintro ⟨h1, h2⟩
      simp [h1, mix, h2]
theorem bindZipRev_nil_iff (ar : String → Nat) : (rs ss : List Ty) → declarableList rs = true → wfList ar rs = true →
    wfList ar ss = true → rs.length = ss.length → (bindZipRev rs ss = some [] ↔ SubList ss rs)
  | [], ss, _, _, _, hl => by
    have : ss = [] := by cases ss <;> simp_all
    subst this; simp [bindZipRev, subList_nil_iff]
  | r :: rs, [], _, _, _, hl => by simp at hl
  | r :: rs, s :: ss, hd, hr, hs, hl => by
    simp only [declarableList, wfList, Bool.and_eq_true] at hd hr hs
    simp only [List.length_cons, Nat.add_right_cancel_iff] at hl
    simp only [bindZipRev, subList_cons_iff]
    rw [← bindIn_nil_iff ar r s hd.1 hr.1 hs.1, ← bindZipRev_nil_iff ar rs ss hd.2 hr.2 hs.2 hl]
    constructor
    · intro h
      split at h
      · cases h
      · rename_i acc hacc
        split at h
        · cases h
        · rename_i sub hsub
          obtain ⟨h1, h2⟩ := (mix_nil_iff _ _).mp h
          subst h1; subst h2
          exact ⟨hsub, hacc⟩
    · rintro ⟨h1, h2⟩
      simp [h1, h2, mix]
end


/-! ## reflexivity of `Sub` on declarable types ("identical types") -/
mutual
theorem sub_refl : (t : Ty) → declarable t = true → Sub t t
  | .bool, _ => .bool
  | .int, _ => .int
  | .float, _ => .float
  | .str, _ => .str
  | .unknown, _ => .bot _
  | .generic a, _ => .generic a
  | .tuple ts, h => .tuple (subList_refl ts (by simpa [declarable] using h))
  | .native _ ts, h => .native (subList_refl ts (by simpa [declarable] using h))
  | .compound _ _ ts, h => .compound (subList_refl ts (by simpa [declarable] using h))
  | .callable ps r, h => by
    simp only [declarable, Bool.and_eq_true] at h
    exact .callable (subList_refl ps h.1) (sub_refl r h.2)
  | .func _ _ _ _, h => by simp [declarable] at h
theorem subList_refl : (ts : List Ty) → declarableList ts = true → SubList ts ts
  | [], _ => .nil
  | t :: ts, h => by
    simp only [declarableList, Bool.and_eq_true] at h
    exact .cons (sub_refl t h.1) (subList_refl ts h.2)
end

/-! ## `Bind::mix` key by key -/
theorem get_insert_same (b : Bnd) (k : String) (v : Ty) : (b.insert k v).get k = some v := by
  induction b with
  | nil => simp [Bnd.insert, Bnd.get]
  | cons e rest ih =>
    obtain ⟨k', v'⟩ := e
    simp only [Bnd.insert]
    by_cases h : k' = k
    · simp [h, Bnd.get]
    · simp [h, Bnd.get, ih]

theorem get_insert_other (b : Bnd) (k k2 : String) (v : Ty) (h : k ≠ k2) : (b.insert k v).get k2 = b.get k2 := by
  induction b with
  | nil => simp [Bnd.insert, Bnd.get, h]
  | cons e rest ih =>
    obtain ⟨k', v'⟩ := e
    simp only [Bnd.insert]
    by_cases h1 : k' = k
    · subst h1; simp [Bnd.get, h]
    · by_cases h2 : k' = k2
      · subst h2; simp [h1, Bnd.get]
      · simp [h1, h2, Bnd.get, ih]

/-- the join two bindings must have at a key -/
def joinAt (x y : Option Ty) : Option (Option Ty) :=
  match x, y with
  | some a, some b => (commonType a b).map some
  | some a, none => some (some a)
  | none, some b => some (some b)
  | none, none => some none

theorem mix_get (self other res : Bnd) (hnd : (other.map Prod.fst).Nodup) (h : mix self other = some res) (k : String) :
    joinAt (Bnd.get self k) (Bnd.get other k) = some (Bnd.get res k) := by
  induction other generalizing self with
  | nil =>
    simp [mix] at h; subst h
    cases hs : Bnd.get self k <;> simp [joinAt, Bnd.get]
  | cons e rest ih =>
    obtain ⟨k1, v1⟩ := e
    simp only [List.map_cons, List.nodup_cons] at hnd
    have hrest : ∀ k', k' = k1 → Bnd.get rest k' = none := by
      intro k' hk; subst hk
      have : ∀ (r : Bnd), k' ∉ r.map Prod.fst → Bnd.get r k' = none := by
        intro r
        induction r with
        | nil => intro _; rfl
        | cons e2 r2 ih2 =>
          obtain ⟨k2, v2⟩ := e2
          intro hn
          simp only [List.map_cons, List.mem_cons, not_or] at hn
          simp [Bnd.get, Ne.symm hn.1, ih2 hn.2]
      exact this rest hnd.1
    simp only [mix] at h
    by_cases hk : k1 = k
    · subst hk
      simp only [Bnd.get, if_true]
      cases hs : Bnd.get self k1 with
      | some existing =>
        simp only [hs] at h
        cases hc : commonType existing v1 with
        | none => simp [hc] at h
        | some c =>
          simp only [hc] at h
          have := ih (self.insert k1 c) hnd.2 h
          rw [get_insert_same, hrest k1 rfl] at this
          simp only [joinAt] at this ⊢
          simp [hc]; simpa using this
      | none =>
        simp only [hs] at h
        have := ih (self.insert k1 v1) hnd.2 h
        rw [get_insert_same, hrest k1 rfl] at this
        simp only [joinAt] at this ⊢
        simpa using this
    · simp only [Bnd.get, hk, if_false]
      cases hs : Bnd.get self k1 with
      | some existing =>
        simp only [hs] at h
        cases hc : commonType existing v1 with
        | none => simp [hc] at h
        | some c =>
          simp only [hc] at h
          have := ih (self.insert k1 c) hnd.2 h
          rwa [get_insert_other _ _ _ _ hk] at this
      | none =>
        simp only [hs] at h
        have := ih (self.insert k1 v1) hnd.2 h
        rwa [get_insert_other _ _ _ _ hk] at this

theorem commonType_unknown_right (a : Ty) : commonType a .unknown = some a := by
  cases a <;> simp [commonType, Ty.beq]

theorem commonType_unknown_left (b : Ty) : commonType .unknown b = some b := by
  cases b <;> simp [commonType, Ty.beq]


/-! ## XFunc-free types, `==`, commutativity of `common_type` -/

mutual
/-- no `XFunc` inside (function *names* have XFunc types; every other expression type is free of them) -/
def funcFree : Ty → Bool
  | .func _ _ _ _ => false
  | .tuple ts => funcFreeList ts
  | .native _ ts => funcFreeList ts
  | .compound _ _ ts => funcFreeList ts
  | .callable ps r => funcFreeList ps && funcFree r
  | _ => true
def funcFreeList : List Ty → Bool
  | [] => true
  | t :: ts => funcFree t && funcFreeList ts
end

/-! ### on XFunc-free types `==` is structural equality -/
mutual
theorem beq_eq : (a b : Ty) → funcFree a = true → funcFree b = true → (Ty.beq a b = true ↔ a = b)
  | .bool, b, _, _ => by cases b <;> simp [Ty.beq]
  | .int, b, _, _ => by cases b <;> simp [Ty.beq]
  | .float, b, _, _ => by cases b <;> simp [Ty.beq]
  | .str, b, _, _ => by cases b <;> simp [Ty.beq]
  | .unknown, b, _, _ => by cases b <;> simp [Ty.beq]
  | .generic x, b, _, _ => by cases b <;> simp [Ty.beq]
  | .func _ _ _ _, b, h, _ => by simp [funcFree] at h
  | .tuple as, b, ha, hb => by
    cases b with
    | tuple bs => simp only [funcFree] at ha hb; simp [Ty.beq, beqList_eq as bs ha hb]
    | _ => simp [Ty.beq]
  | .native n as, b, ha, hb => by
    cases b with
    | native m bs => simp only [funcFree] at ha hb; simp [Ty.beq, beqList_eq as bs ha hb]
    | _ => simp [Ty.beq]
  | .compound k n as, b, ha, hb => by
    cases b with
    | compound k' m bs => simp only [funcFree] at ha hb; simp [Ty.beq, beqList_eq as bs ha hb, and_assoc]
    | _ => simp [Ty.beq]
  | .callable ps r, b, ha, hb => by
    cases b with
    | callable ps' r' =>
      simp only [funcFree, Bool.and_eq_true] at ha hb
      simp [Ty.beq, beqList_eq ps ps' ha.1 hb.1, beq_eq r r' ha.2 hb.2]
    | func _ _ _ _ => simp [funcFree] at hb
    | _ => simp [Ty.beq]
theorem beqList_eq : (as bs : List Ty) → funcFreeList as = true → funcFreeList bs = true →
    (Ty.beqList as bs = true ↔ as = bs)
  | [], [], _, _ => by simp [Ty.beqList]
  | [], _ :: _, _, _ => by simp [Ty.beqList]
  | _ :: _, [], _, _ => by simp [Ty.beqList]
  | a :: as, b :: bs, ha, hb => by
    simp only [funcFreeList, Bool.and_eq_true] at ha hb
    simp [Ty.beqList, beq_eq a b ha.1 hb.1, beqList_eq as bs ha.2 hb.2]
end

/-! ### `common_type` is commutative on XFunc-free types -/
mutual
theorem commonType_comm' : (a b : Ty) → funcFree a = true → funcFree b = true → commonType a b = commonType b a
  | a, b, ha, hb => by
    by_cases hab : a = b
    · subst hab; rfl
    · have hba : ¬ b = a := fun e => hab e.symm
      have e1 : Ty.beq a b = false := by
        rw [← Bool.not_eq_true, beq_eq a b ha hb]; exact hab
      have e2 : Ty.beq b a = false := by
        rw [← Bool.not_eq_true, beq_eq b a hb ha]; exact hba
      unfold commonType
      simp only [e1, e2, Bool.false_eq_true, if_false]
      cases a with
      | compound k0 n as =>
        cases b with
        | compound k1 m bs =>
          simp only [funcFree] at ha hb
          by_cases hn : n = m
          · by_cases hk : k0 = k1
            · subst hn; subst hk
              simp [commonZip_comm as bs ha hb]
            · have hk' : ¬ k1 = k0 := fun e => hk e.symm
              simp [hk, hk']
          · have hn' : ¬ m = n := fun e => hn e.symm
            simp [hn, hn']
        | _ => simp
      | tuple as =>
        cases b with
        | tuple bs =>
          simp only [funcFree] at ha hb
          by_cases hl : as.length = bs.length
          · simp [hl, commonZip_comm as bs ha hb]
          · have hl' : ¬ bs.length = as.length := fun e => hl e.symm
            simp [hl, hl']
        | _ => simp
      | native n as =>
        cases b with
        | native m bs =>
          simp only [funcFree] at ha hb
          by_cases hc : n = m
          · subst hc; simp [commonZip_comm as bs ha hb]
          · have hc' : ¬ m = n := fun e => hc e.symm
            simp [hc, hc']
        | _ => simp
      | func _ _ _ _ => simp [funcFree] at ha
      | _ => cases b <;> simp
theorem commonZip_comm : (as bs : List Ty) → funcFreeList as = true → funcFreeList bs = true →
    commonZip as bs = commonZip bs as
  | [], [], _, _ => rfl
  | [], _ :: _, _, _ => by simp [commonZip]
  | _ :: _, [], _, _ => by simp [commonZip]
  | a :: as, b :: bs, ha, hb => by
    simp only [funcFreeList, Bool.and_eq_true] at ha hb
    simp only [commonZip]
    rw [commonType_comm' a b ha.1 hb.1, commonZip_comm as bs ha.2 hb.2]
end


/-! ## transitivity of `Sub` -/

theorem sub_unknown_iff (s : Ty) : Sub s .unknown ↔ s = .unknown := by
  constructor
  · intro h; cases h; rfl
  · rintro rfl; exact .bot _
theorem sub_func_iff (s : Ty) (g : Option (List String)) (ps : List Ty) (n : Nat) (r : Ty) :
    Sub s (.func g ps n r) ↔ s = .unknown := by
  constructor
  · intro h; cases h; rfl
  · rintro rfl; exact .bot _

/-! ### `Sub` is transitive -/
mutual
theorem sub_trans : (u s t : Ty) → Sub s t → Sub t u → Sub s u
  | .bool, s, t, h1, h2 => by
    rcases (sub_bool_iff t).mp h2 with rfl | rfl
    · rw [(sub_unknown_iff s).mp h1]; exact .bot _
    · exact h1
  | .int, s, t, h1, h2 => by
    rcases (sub_int_iff t).mp h2 with rfl | rfl
    · rw [(sub_unknown_iff s).mp h1]; exact .bot _
    · exact h1
  | .float, s, t, h1, h2 => by
    rcases (sub_float_iff t).mp h2 with rfl | rfl
    · rw [(sub_unknown_iff s).mp h1]; exact .bot _
    · exact h1
  | .str, s, t, h1, h2 => by
    rcases (sub_str_iff t).mp h2 with rfl | rfl
    · rw [(sub_unknown_iff s).mp h1]; exact .bot _
    · exact h1
  | .unknown, s, t, h1, h2 => by
    rw [(sub_unknown_iff t).mp h2] at h1; exact h1
  | .generic a, s, t, h1, h2 => by
    rcases (sub_generic_iff t a).mp h2 with rfl | rfl
    · rw [(sub_unknown_iff s).mp h1]; exact .bot _
    · exact h1
  | .func g ps n r, s, t, h1, h2 => by
    rw [(sub_func_iff t g ps n r).mp h2] at h1
    rw [(sub_unknown_iff s).mp h1]; exact .bot _
  | .tuple us, s, t, h1, h2 => by
    rcases (sub_tuple_iff t us).mp h2 with rfl | ⟨ts, rfl, h2'⟩
    · rw [(sub_unknown_iff s).mp h1]; exact .bot _
    · rcases (sub_tuple_iff s ts).mp h1 with rfl | ⟨ss, rfl, h1'⟩
      · exact .bot _
      · exact .tuple (subList_trans us ss ts h1' h2')
  | .native n us, s, t, h1, h2 => by
    rcases (sub_native_iff t n us).mp h2 with rfl | ⟨ts, rfl, h2'⟩
    · rw [(sub_unknown_iff s).mp h1]; exact .bot _
    · rcases (sub_native_iff s n ts).mp h1 with rfl | ⟨ss, rfl, h1'⟩
      · exact .bot _
      · exact .native (subList_trans us ss ts h1' h2')
  | .compound k n us, s, t, h1, h2 => by
    rcases (sub_compound_iff t k n us).mp h2 with rfl | ⟨ts, rfl, h2'⟩
    · rw [(sub_unknown_iff s).mp h1]; exact .bot _
    · rcases (sub_compound_iff s k n ts).mp h1 with rfl | ⟨ss, rfl, h1'⟩
      · exact .bot _
      · exact .compound (subList_trans us ss ts h1' h2')
  | .callable ps r, s, t, h1, h2 => by
    rcases (sub_callable_iff t ps r).mp h2 with rfl | ⟨ps', r', rfl, hp, hr⟩ | ⟨g, ps', n', r', rfl, _, _, _, _⟩
    · rw [(sub_unknown_iff s).mp h1]; exact .bot _
    · rcases (sub_callable_iff s ps' r').mp h1 with rfl | ⟨ps'', r'', rfl, hp', hr'⟩ | ⟨g, ps'', n'', r'', rfl, hn, hl, hp', hr'⟩
      · exact .bot _
      · exact .callable (subList_trans ps ps'' ps' hp' hp) (sub_trans r r'' r' hr' hr)
      · have hlen := hp.length_eq
        refine .func (by omega) (by omega) ?_ (sub_trans r r'' r' hr' hr)
        rw [← hlen]
        exact subList_trans ps _ ps' hp' hp
    · rw [(sub_func_iff s g ps' n' r').mp h1]; exact .bot _
theorem subList_trans : (us ss ts : List Ty) → SubList ss ts → SubList ts us → SubList ss us
  | [], ss, ts, h1, h2 => by
    rw [(subList_nil_iff ts).mp h2] at h1; exact h1
  | u :: us, ss, ts, h1, h2 => by
    cases h2 with
    | cons h2a h2b =>
      cases h1 with
      | cons h1a h1b => exact .cons (sub_trans u _ _ h1a h2a) (subList_trans us _ _ h1b h2b)
end

/-! ### reflexivity on XFunc-free types (`funcFree` from a1) -/


/-! ## `common_type` is the least upper bound for `Sub` -/

mutual
theorem sub_refl' : (t : Ty) → funcFree t = true → Sub t t
  | .bool, _ => .bool
  | .int, _ => .int
  | .float, _ => .float
  | .str, _ => .str
  | .unknown, _ => .bot _
  | .generic a, _ => .generic a
  | .tuple ts, h => .tuple (subList_refl' ts (by simpa [funcFree] using h))
  | .native _ ts, h => .native (subList_refl' ts (by simpa [funcFree] using h))
  | .compound _ _ ts, h => .compound (subList_refl' ts (by simpa [funcFree] using h))
  | .callable ps r, h => by
    simp only [funcFree, Bool.and_eq_true] at h
    exact .callable (subList_refl' ps h.1) (sub_refl' r h.2)
  | .func _ _ _ _, h => by simp [funcFree] at h
theorem subList_refl' : (ts : List Ty) → funcFreeList ts = true → SubList ts ts
  | [], _ => .nil
  | t :: ts, h => by
    simp only [funcFreeList, Bool.and_eq_true] at h
    exact .cons (sub_refl' t h.1) (subList_refl' ts h.2)
end

/-- XFunc-free and arity-well-formed -/
def good (ar : String → Nat) (t : Ty) : Prop := funcFree t = true ∧ wfTy ar t = true
def goodList (ar : String → Nat) (ts : List Ty) : Prop := funcFreeList ts = true ∧ wfList ar ts = true

theorem goodList_cons (ar : String → Nat) (t : Ty) (ts : List Ty) : goodList ar (t :: ts) ↔ good ar t ∧ goodList ar ts := by
  simp only [goodList, good, funcFreeList, wfList, Bool.and_eq_true]; constructor
  · rintro ⟨⟨a, b⟩, c, d⟩; exact ⟨⟨a, c⟩, b, d⟩
  · rintro ⟨⟨a, c⟩, b, d⟩; exact ⟨⟨a, b⟩, c, d⟩

/-! ### `common_type` is an upper bound … -/
mutual
theorem commonType_ub' (ar : String → Nat) : (a b c : Ty) → good ar a → good ar b → commonType a b = some c →
    good ar c ∧ Sub a c ∧ Sub b c
  | a, b, c, ha, hb, h => by
    by_cases hab : a = b
    · subst hab
      have : Ty.beq a a = true := (beq_eq a a ha.1 ha.1).mpr rfl
      unfold commonType at h; simp only [this, if_true] at h
      cases h; exact ⟨ha, sub_refl' a ha.1, sub_refl' a ha.1⟩
    · have e1 : Ty.beq a b = false := by
        rw [← Bool.not_eq_true, beq_eq a b ha.1 hb.1]; exact hab
      unfold commonType at h
      simp only [e1, Bool.false_eq_true, if_false] at h
      cases a with
      | compound k0 n as =>
        cases b with
        | compound k1 m bs =>
          simp only at h
          split at h
          · cases h
          · rename_i hc
            simp only [Bool.or_eq_true, bne_iff_ne, ne_eq, not_or, Decidable.not_not] at hc
            obtain ⟨rfl, rfl⟩ := hc
            split at h
            · cases h
            · rename_i cs hz; cases h
              have ha' : goodList ar as ∧ as.length = ar n := by
                simp only [good, funcFree, wfTy, Bool.and_eq_true, beq_iff_eq] at ha; exact ⟨⟨ha.1, ha.2.2⟩, ha.2.1⟩
              have hb' : goodList ar bs ∧ bs.length = ar n := by
                simp only [good, funcFree, wfTy, Bool.and_eq_true, beq_iff_eq] at hb; exact ⟨⟨hb.1, hb.2.2⟩, hb.2.1⟩
              obtain ⟨hg, hl, s1, s2⟩ := commonZip_ub ar as bs cs ha'.1 hb'.1 (by omega) hz
              refine ⟨?_, .compound s1, .compound s2⟩
              simp only [good, funcFree, wfTy, Bool.and_eq_true, beq_iff_eq]
              exact ⟨hg.1, by omega, hg.2⟩
        | unknown => simp at h; cases h; exact ⟨ha, sub_refl' _ ha.1, .bot _⟩
        | _ => simp at h
      | tuple as =>
        cases b with
        | tuple bs =>
          simp only at h
          split at h
          · cases h
          · rename_i hl
            simp only [bne_iff_ne, ne_eq, Decidable.not_not] at hl
            split at h
            · cases h
            · rename_i cs hz; cases h
              have ha' : goodList ar as := by simpa [good, goodList, funcFree, wfTy] using ha
              have hb' : goodList ar bs := by simpa [good, goodList, funcFree, wfTy] using hb
              obtain ⟨hg, _, s1, s2⟩ := commonZip_ub ar as bs cs ha' hb' hl hz
              refine ⟨?_, .tuple s1, .tuple s2⟩
              simpa [good, goodList, funcFree, wfTy] using hg
        | unknown => simp at h; cases h; exact ⟨ha, sub_refl' _ ha.1, .bot _⟩
        | _ => simp at h
      | native n as =>
        cases b with
        | native m bs =>
          simp only at h
          split at h
          · cases h
          · rename_i hc
            simp only [bne_iff_ne, ne_eq, Decidable.not_not] at hc
            subst hc
            split at h
            · cases h
            · rename_i cs hz; cases h
              have ha' : goodList ar as ∧ as.length = ar n := by
                simp only [good, funcFree, wfTy, Bool.and_eq_true, beq_iff_eq] at ha; exact ⟨⟨ha.1, ha.2.2⟩, ha.2.1⟩
              have hb' : goodList ar bs ∧ bs.length = ar n := by
                simp only [good, funcFree, wfTy, Bool.and_eq_true, beq_iff_eq] at hb; exact ⟨⟨hb.1, hb.2.2⟩, hb.2.1⟩
              obtain ⟨hg, hl, s1, s2⟩ := commonZip_ub ar as bs cs ha'.1 hb'.1 (by omega) hz
              refine ⟨?_, .native s1, .native s2⟩
              simp only [good, funcFree, wfTy, Bool.and_eq_true, beq_iff_eq]
              exact ⟨hg.1, by omega, hg.2⟩
        | unknown => simp at h; cases h; exact ⟨ha, sub_refl' _ ha.1, .bot _⟩
        | _ => simp at h
      | unknown =>
        have : some b = some c := by cases b <;> simp_all
        cases this; exact ⟨hb, .bot _, sub_refl' _ hb.1⟩
      | func _ _ _ _ => simp [good, funcFree] at ha
      | bool => cases b <;> simp at h; cases h; exact ⟨ha, .bool, .bot _⟩
      | int => cases b <;> simp at h; cases h; exact ⟨ha, .int, .bot _⟩
      | float => cases b <;> simp at h; cases h; exact ⟨ha, .float, .bot _⟩
      | str => cases b <;> simp at h; cases h; exact ⟨ha, .str, .bot _⟩
      | generic x => cases b <;> simp at h; cases h; exact ⟨ha, .generic x, .bot _⟩
      | callable ps r => cases b <;> simp at h; cases h; exact ⟨ha, sub_refl' _ ha.1, .bot _⟩
theorem commonZip_ub (ar : String → Nat) : (as bs cs : List Ty) → goodList ar as → goodList ar bs → as.length = bs.length →
    commonZip as bs = some cs → goodList ar cs ∧ cs.length = as.length ∧ SubList as cs ∧ SubList bs cs
  | [], [], cs, _, _, _, h => by simp [commonZip] at h; subst h; exact ⟨⟨rfl, rfl⟩, rfl, .nil, .nil⟩
  | [], _ :: _, _, _, _, hl, _ => by simp at hl
  | _ :: _, [], _, _, _, hl, _ => by simp at hl
  | a :: as, b :: bs, cs, ha, hb, hl, h => by
    rw [goodList_cons] at ha hb
    simp only [List.length_cons, Nat.add_right_cancel_iff] at hl
    simp only [commonZip] at h
    split at h
    · cases h
    · rename_i c hc
      split at h
      · cases h
      · rename_i cs' hz; cases h
        obtain ⟨g1, s1, s2⟩ := commonType_ub' ar a b c ha.1 hb.1 hc
        obtain ⟨g2, l2, t1, t2⟩ := commonZip_ub ar as bs cs' ha.2 hb.2 hl hz
        exact ⟨(goodList_cons ar c cs').mpr ⟨g1, g2⟩, by simp [l2], .cons s1 t1, .cons s2 t2⟩
end

/-! ### … and the least one -/
mutual
theorem commonType_least' : (a b c d : Ty) → commonType a b = some c → Sub a d → Sub b d → Sub c d
  | a, b, c, d, h, h1, h2 => by
    unfold commonType at h
    split at h
    · cases h; exact h1
    · cases a with
      | compound k0 n as =>
        cases b with
        | compound k1 m bs =>
          simp only at h
          split at h
          · cases h
          · split at h
            · cases h
            · rename_i cs hz; cases h
              cases h1 with
              | compound hh1 =>
                cases h2 with
                | compound hh2 => exact .compound (commonZip_least as bs cs _ hz hh1 hh2)
        | unknown => simp at h; cases h; exact h1
        | _ => simp at h
      | tuple as =>
        cases b with
        | tuple bs =>
          simp only at h
          split at h
          · cases h
          · split at h
            · cases h
            · rename_i cs hz; cases h
              cases h1 with
              | tuple hh1 =>
                cases h2 with
                | tuple hh2 => exact .tuple (commonZip_least as bs cs _ hz hh1 hh2)
        | unknown => simp at h; cases h; exact h1
        | _ => simp at h
      | native n as =>
        cases b with
        | native m bs =>
          simp only at h
          split at h
          · cases h
          · split at h
            · cases h
            · rename_i cs hz; cases h
              cases h1 with
              | native hh1 =>
                cases h2 with
                | native hh2 => exact .native (commonZip_least as bs cs _ hz hh1 hh2)
        | unknown => simp at h; cases h; exact h1
        | _ => simp at h
      | unknown =>
        have : some b = some c := by cases b <;> simp_all
        cases this; exact h2
      | bool => cases b <;> simp at h; cases h; exact h1
      | int => cases b <;> simp at h; cases h; exact h1
      | float => cases b <;> simp at h; cases h; exact h1
      | str => cases b <;> simp at h; cases h; exact h1
      | generic x => cases b <;> simp at h; cases h; exact h1
      | callable ps r => cases b <;> simp at h; cases h; exact h1
      | func _ _ _ _ => cases b <;> simp at h; cases h; exact h1
theorem commonZip_least : (as bs cs ds : List Ty) → commonZip as bs = some cs → SubList as ds → SubList bs ds → SubList cs ds
  | [], _, cs, ds, h, h1, _ => by
    simp [commonZip] at h; subst h; exact h1
  | a :: as, [], cs, ds, h, h1, h2 => by
    cases h2; cases h1
  | a :: as, b :: bs, cs, ds, h, h1, h2 => by
    simp only [commonZip] at h
    split at h
    · cases h
    · rename_i c hc
      split at h
      · cases h
      · rename_i cs' hz; cases h
        cases h1 with
        | cons h1a h1b =>
          cases h2 with
          | cons h2a h2b =>
            exact .cons (commonType_least' a b c _ hc h1a h2a) (commonZip_least as bs cs' _ hz h1b h2b)
end


end XrayModel
