/-
Helper definitions and lemmas for C04: the documented assignability relation `Sub` (declarative, written from
the book and the property text), the fragment of declarable types, arity well-formedness, and the lemmas that
relate `bindIn` / `mix` to them.
-/
import XrayModel.Types
set_option maxHeartbeats 1600000
namespace XrayModel

theorem bindIn_callable_callable (ps ps' : List Ty) (r r' : Ty) (b : Bnd)
    (h : bindIn (.callable ps r) (.callable ps' r') = some b) : ps.length = ps'.length := by
  unfold bindIn at h
  split at h
  · cases h
  · rename_i hne; simpa using hne

/-! ## the documented relation -/
mutual
/-- `Sub s r`: a value of static type `s` may be used where `r` is required, with nothing left to bind:
identical types; the bottom type into anything; tuples, natives and compounds component- and name-wise;
function types by exact arity and component types (a function with optional parameters at every arity of
its window). Generic parameters are opaque here. -/
inductive Sub : Ty → Ty → Prop
  | bot (t : Ty) : Sub .unknown t
  | bool : Sub .bool .bool
  | int : Sub .int .int
  | float : Sub .float .float
  | str : Sub .str .str
  | generic (a : String) : Sub (.generic a) (.generic a)
  | tuple {ss rs : List Ty} : SubList ss rs → Sub (.tuple ss) (.tuple rs)
  | native {n : String} {ss rs : List Ty} : SubList ss rs → Sub (.native n ss) (.native n rs)
  | compound {k : Kind} {n : String} {ss rs : List Ty} : SubList ss rs → Sub (.compound k n ss) (.compound k n rs)
  | callable {ps' ps : List Ty} {r' r : Ty} : SubList ps' ps → Sub r' r → Sub (.callable ps' r') (.callable ps r)
  | func {g : Option (List String)} {ps' ps : List Ty} {n' : Nat} {r' r : Ty} :
      n' ≤ ps.length → ps.length ≤ ps'.length → SubList (ps'.take ps.length) ps → Sub r' r →
      Sub (.func g ps' n' r') (.callable ps r)
/-- component-wise, same length -/
inductive SubList : List Ty → List Ty → Prop
  | nil : SubList [] []
  | cons {s r : Ty} {ss rs : List Ty} : Sub s r → SubList ss rs → SubList (s :: ss) (r :: rs)
end

mutual
/-- types that can be written in a program: no `unknown`, no `XFunc` -/
def declarable : Ty → Bool
  | .unknown => false
  | .func _ _ _ _ => false
  | .tuple ts => declarableList ts
  | .native _ ts => declarableList ts
  | .compound _ _ ts => declarableList ts
  | .callable ps r => declarableList ps && declarable r
  | _ => true
def declarableList : List Ty → Bool
  | [] => true
  | t :: ts => declarable t && declarableList ts
end

mutual
/-- every native / compound name is used with the number of type arguments `ar` gives it
(`GenericParamCountMismatch` enforces this for written types, inference preserves it) -/
def wfTy (ar : String → Nat) : Ty → Bool
  | .tuple ts => wfList ar ts
  | .native n ts => ts.length == ar n && wfList ar ts
  | .compound _ n ts => ts.length == ar n && wfList ar ts
  | .callable ps r => wfList ar ps && wfTy ar r
  | .func _ ps n r => wfList ar ps && wfTy ar r && n ≤ ps.length
  | _ => true
def wfList (ar : String → Nat) : List Ty → Bool
  | [] => true
  | t :: ts => wfTy ar t && wfList ar ts
end

theorem SubList.length_eq {ss rs : List Ty} (h : SubList ss rs) : ss.length = rs.length := by
  induction ss generalizing rs with
  | nil => cases h; rfl
  | cons s ss ih => cases h with | cons h1 h2 => simp [ih h2]

/-! ## mix and emptiness -/
theorem insert_ne_nil (b : Bnd) (k : String) (v : Ty) : b.insert k v ≠ [] := by
  cases b with
  | nil => simp [Bnd.insert]
  | cons e rest => obtain ⟨k', v'⟩ := e; simp only [Bnd.insert]; split <;> simp

theorem mix_ne_nil_of_self (self other res : Bnd) (h : mix self other = some res) (hs : self ≠ []) : res ≠ [] := by
  induction other generalizing self with
  | nil => simp [mix] at h; subst h; exact hs
  | cons e rest ih =>
    obtain ⟨k, v⟩ := e
    simp only [mix] at h
    split at h
    · split at h
      · cases h
      · exact ih _ h (insert_ne_nil _ _ _)
    · exact ih _ h (insert_ne_nil _ _ _)

theorem mix_nil_iff (self other : Bnd) : mix self other = some [] ↔ self = [] ∧ other = [] := by
  constructor
  · intro h
    cases other with
    | nil => simp [mix] at h; exact ⟨h, rfl⟩
    | cons e rest =>
      obtain ⟨k, v⟩ := e
      simp only [mix] at h
      exfalso
      split at h
      · split at h
        · cases h
        · exact mix_ne_nil_of_self _ _ _ h (insert_ne_nil _ _ _) rfl
      · exact mix_ne_nil_of_self _ _ _ h (insert_ne_nil _ _ _) rfl
  · rintro ⟨rfl, rfl⟩; rfl


/-! ## inversion of `Sub` on the required side -/
theorem sub_bool_iff (s : Ty) : Sub s .bool ↔ s = .unknown ∨ s = .bool := by
  constructor
  · intro h; cases h <;> simp
  · rintro (rfl | rfl); exact .bot _; exact .bool
theorem sub_int_iff (s : Ty) : Sub s .int ↔ s = .unknown ∨ s = .int := by
  constructor
  · intro h; cases h <;> simp
  · rintro (rfl | rfl); exact .bot _; exact .int
theorem sub_float_iff (s : Ty) : Sub s .float ↔ s = .unknown ∨ s = .float := by
  constructor
  · intro h; cases h <;> simp
  · rintro (rfl | rfl); exact .bot _; exact .float
theorem sub_str_iff (s : Ty) : Sub s .str ↔ s = .unknown ∨ s = .str := by
  constructor
  · intro h; cases h <;> simp
  · rintro (rfl | rfl); exact .bot _; exact .str
theorem sub_generic_iff (s : Ty) (a : String) : Sub s (.generic a) ↔ s = .unknown ∨ s = .generic a := by
  constructor
  · intro h; cases h <;> simp
  · rintro (rfl | rfl); exact .bot _; exact .generic a
theorem sub_tuple_iff (s : Ty) (rs : List Ty) :
    Sub s (.tuple rs) ↔ s = .unknown ∨ ∃ ss, s = .tuple ss ∧ SubList ss rs := by
  constructor
  · intro h; cases h with
    | bot => simp
    | tuple h => exact .inr ⟨_, rfl, h⟩
  · rintro (rfl | ⟨ss, rfl, h⟩); exact .bot _; exact .tuple h
theorem sub_native_iff (s : Ty) (n : String) (rs : List Ty) :
    Sub s (.native n rs) ↔ s = .unknown ∨ ∃ ss, s = .native n ss ∧ SubList ss rs := by
  constructor
  · intro h; cases h with
    | bot => simp
    | native h => exact .inr ⟨_, rfl, h⟩
  · rintro (rfl | ⟨ss, rfl, h⟩); exact .bot _; exact .native h
theorem sub_compound_iff (s : Ty) (k : Kind) (n : String) (rs : List Ty) :
    Sub s (.compound k n rs) ↔ s = .unknown ∨ ∃ ss, s = .compound k n ss ∧ SubList ss rs := by
  constructor
  · intro h; cases h with
    | bot => simp
    | compound h => exact .inr ⟨_, rfl, h⟩
  · rintro (rfl | ⟨ss, rfl, h⟩); exact .bot _; exact .compound h
theorem sub_callable_iff (s : Ty) (ps : List Ty) (r : Ty) :
    Sub s (.callable ps r) ↔ s = .unknown ∨ (∃ ps' r', s = .callable ps' r' ∧ SubList ps' ps ∧ Sub r' r) ∨
      (∃ g ps' n' r', s = .func g ps' n' r' ∧ n' ≤ ps.length ∧ ps.length ≤ ps'.length ∧
        SubList (ps'.take ps.length) ps ∧ Sub r' r) := by
  constructor
  · intro h; cases h with
    | bot => simp
    | callable h1 h2 => exact .inr (.inl ⟨_, _, rfl, h1, h2⟩)
    | func h1 h2 h3 h4 => exact .inr (.inr ⟨_, _, _, _, rfl, h1, h2, h3, h4⟩)
  · rintro (rfl | ⟨ps', r', rfl, h1, h2⟩ | ⟨g, ps', n', r', rfl, h1, h2, h3, h4⟩)
    · exact .bot _
    · exact .callable h1 h2
    · exact .func h1 h2 h3 h4

theorem subList_cons_iff (s r : Ty) (ss rs : List Ty) : SubList (s :: ss) (r :: rs) ↔ Sub s r ∧ SubList ss rs := by
  constructor
  · intro h; cases h with | cons h1 h2 => exact ⟨h1, h2⟩
  · rintro ⟨h1, h2⟩; exact .cons h1 h2
theorem subList_nil_iff (ss : List Ty) : SubList ss [] ↔ ss = [] := by
  constructor
  · intro h; cases h; rfl
  · rintro rfl; exact .nil
theorem subList_nil_left_iff (rs : List Ty) : SubList [] rs ↔ rs = [] := by
  constructor
  · intro h; cases h; rfl
  · rintro rfl; exact .nil

theorem sub_tuple_tuple (ss rs : List Ty) : Sub (.tuple ss) (.tuple rs) ↔ SubList ss rs := by
  constructor
  · intro h; cases h with | tuple h => exact h
  · exact .tuple
theorem sub_native_native (n m : String) (ss rs : List Ty) :
    Sub (.native m ss) (.native n rs) ↔ n = m ∧ SubList ss rs := by
  constructor
  · intro h; cases h with | native h => exact ⟨rfl, h⟩
  · rintro ⟨rfl, h⟩; exact .native h
theorem sub_compound_compound (k k' : Kind) (n m : String) (ss rs : List Ty) :
    Sub (.compound k' m ss) (.compound k n rs) ↔ n = m ∧ k = k' ∧ SubList ss rs := by
  constructor
  · intro h; cases h with | compound h => exact ⟨rfl, rfl, h⟩
  · rintro ⟨rfl, rfl, h⟩; exact .compound h
theorem sub_callable_callable (ps' ps : List Ty) (r' r : Ty) :
    Sub (.callable ps' r') (.callable ps r) ↔ SubList ps' ps ∧ Sub r' r := by
  constructor
  · intro h; cases h with | callable h1 h2 => exact ⟨h1, h2⟩
  · rintro ⟨h1, h2⟩; exact .callable h1 h2
theorem sub_func_callable (g : Option (List String)) (ps' ps : List Ty) (n' : Nat) (r' r : Ty) :
    Sub (.func g ps' n' r') (.callable ps r) ↔
      n' ≤ ps.length ∧ ps.length ≤ ps'.length ∧ SubList (ps'.take ps.length) ps ∧ Sub r' r := by
  constructor
  · intro h; cases h with | func h1 h2 h3 h4 => exact ⟨h1, h2, h3, h4⟩
  · rintro ⟨h1, h2, h3, h4⟩; exact .func h1 h2 h3 h4

theorem bindZip_ne_nil : (rs ss : List Ty) → (acc res : Bnd) → acc ≠ [] → bindZip rs ss acc = some res → res ≠ []
  | [], ss, acc, res, hne, h => by simp [bindZip] at h; subst h; exact hne
  | r :: rs, [], acc, res, hne, h => by simp [bindZip] at h; subst h; exact hne
  | r :: rs, s :: ss, acc, res, hne, h => by
    simp only [bindZip] at h
    split at h
    · cases h
    · split at h
      · cases h
      · rename_i acc' hacc'
        exact bindZip_ne_nil rs ss acc' res (mix_ne_nil_of_self _ _ _ hacc' hne) h

/-- the three function-type arms end with the same two steps -/
theorem tail_nil_iff (z : Option Bnd) (o : Option Bnd) :
    (match z with
      | none => none
      | some acc => match o with
        | none => none
        | some b => mix acc b) = some [] ↔ z = some [] ∧ o = some [] := by
  cases z with
  | none => simp
  | some acc =>
    cases o with
    | none => simp
    | some b => simp [mix_nil_iff]

/-! ## `bind_in_assignment` with an empty binding is exactly `Sub` -/
mutual
theorem bindIn_nil_iff (ar : String → Nat) : (r s : Ty) → declarable r = true → wfTy ar r = true → wfTy ar s = true →
    (bindIn r s = some [] ↔ Sub s r)
  | .bool, s, _, _, _ => by cases s <;> simp [bindIn, sub_bool_iff]
  | .int, s, _, _, _ => by cases s <;> simp [bindIn, sub_int_iff]
  | .float, s, _, _, _ => by cases s <;> simp [bindIn, sub_float_iff]
  | .str, s, _, _, _ => by cases s <;> simp [bindIn, sub_str_iff]
  | .unknown, s, hd, _, _ => by simp [declarable] at hd
  | .func _ _ _ _, s, hd, _, _ => by simp [declarable] at hd
  | .generic a, s, _, _, _ => by
    cases s with
    | generic b =>
      by_cases h : a = b
      · subst h; simp [bindIn, sub_generic_iff]
      · have h' : ¬ b = a := fun e => h e.symm
        simp [bindIn, sub_generic_iff, h, h']
    | _ => simp [bindIn, sub_generic_iff]
  | .tuple rs, s, hd, hr, hs => by
    cases s with
    | tuple ss =>
      simp only [declarable, wfTy] at hd hr hs
      rw [sub_tuple_tuple]
      simp only [bindIn]
      by_cases hl : rs.length = ss.length
      · simp only [hl, bne_self_eq_false, Bool.false_eq_true, if_false]
        rw [bindZip_nil_iff ar rs ss hd hr hs (by omega), hl, List.take_length]
      · have : ¬ SubList ss rs := fun h => hl h.length_eq.symm
        simp [hl, this]
    | _ => simp [bindIn, sub_tuple_iff]
  | .native n rs, s, hd, hr, hs => by
    cases s with
    | native m ss =>
      simp only [declarable, wfTy, Bool.and_eq_true, beq_iff_eq] at hd hr hs
      rw [sub_native_native]
      simp only [bindIn]
      by_cases hnm : n = m
      · subst hnm
        have hl : rs.length = ss.length := by omega
        simp only [bne_self_eq_false, Bool.false_eq_true, if_false, true_and]
        rw [bindZip_nil_iff ar rs ss hd hr.2 hs.2 (by omega), hl, List.take_length]
      · simp [hnm]
    | _ => simp [bindIn, sub_native_iff]
  | .compound k n rs, s, hd, hr, hs => by
    cases s with
    | compound k' m ss =>
      simp only [declarable, wfTy, Bool.and_eq_true, beq_iff_eq] at hd hr hs
      rw [sub_compound_compound]
      simp only [bindIn]
      by_cases hnm : n = m
      · subst hnm
        by_cases hk : k = k'
        · subst hk
          have hl : rs.length = ss.length := by omega
          simp only [bne_self_eq_false, Bool.or_self, Bool.false_eq_true, if_false, true_and]
          exact bindZipRev_nil_iff ar rs ss hd hr.2 hs.2 hl
        · simp [hk]
      · simp [hnm]
    | _ => simp [bindIn, sub_compound_iff]
  | .callable ps r, s, hd, hr, hs => by
    simp only [declarable, wfTy, Bool.and_eq_true] at hd hr
    cases s with
    | callable ps' r' =>
      simp only [wfTy, Bool.and_eq_true] at hs
      rw [sub_callable_callable]
      simp only [bindIn]
      by_cases hl : ps.length = ps'.length
      · simp only [hl, bne_self_eq_false, Bool.false_eq_true, if_false]
        have e : SubList ps' ps ↔ bindZip ps ps' [] = some [] := by
          rw [bindZip_nil_iff ar ps ps' hd.1 hr.1 hs.1 (by omega), hl, List.take_length]
        rw [e, ← bindIn_nil_iff ar r r' hd.2 hr.2 hs.2]
        cases bindZip ps ps' [] <;> cases bindIn r r' <;> simp [mix_nil_iff]
      · have : ¬ SubList ps' ps := fun h => hl h.length_eq.symm
        simp [hl, this]
    | func g ps' n' r' =>
      simp only [wfTy, Bool.and_eq_true, decide_eq_true_eq] at hs
      rw [sub_func_callable]
      simp only [bindIn]
      by_cases hw : n' ≤ ps.length ∧ ps.length ≤ ps'.length
      · have hc : (decide (ps.length < n') || decide (ps.length > ps'.length)) = false := by
          simp; omega
        simp only [hc, Bool.false_eq_true, if_false]
        rw [← bindZip_nil_iff ar ps ps' hd.1 hr.1 hs.1.1 hw.2, ← bindIn_nil_iff ar r r' hd.2 hr.2 hs.1.2]
        cases bindZip ps ps' [] <;> cases bindIn r r' <;> simp [mix_nil_iff, hw.1, hw.2]
      · have hc : (decide (ps.length < n') || decide (ps.length > ps'.length)) = true := by
          simp; omega
        simp only [hc, if_true]
        constructor
        · intro h; cases h
        · rintro ⟨h1, h2, _⟩; exact absurd ⟨h1, h2⟩ hw
    | _ => simp [bindIn, sub_callable_iff]
theorem bindZip_nil_iff (ar : String → Nat) : (rs ss : List Ty) → declarableList rs = true → wfList ar rs = true →
    wfList ar ss = true → rs.length ≤ ss.length → (bindZip rs ss [] = some [] ↔ SubList (ss.take rs.length) rs)
  | [], ss, _, _, _, _ => by simp [bindZip, subList_nil_iff]
  | r :: rs, [], _, _, _, hl => by simp at hl
  | r :: rs, s :: ss, hd, hr, hs, hl => by
    simp only [declarableList, wfList, Bool.and_eq_true] at hd hr hs
    simp only [List.length_cons, Nat.add_le_add_iff_right] at hl
    simp only [bindZip, List.length_cons, List.take_succ_cons, subList_cons_iff]
    rw [← bindIn_nil_iff ar r s hd.1 hr.1 hs.1, ← bindZip_nil_iff ar rs ss hd.2 hr.2 hs.2 hl]
    constructor
    · intro h
      split at h
      · cases h
      · rename_i sub hsub
        split at h
        · cases h
        · rename_i acc' hacc'
          by_cases hne : acc' = []
          · subst hne
            obtain ⟨_, hs0⟩ := (mix_nil_iff _ _).mp hacc'
            subst hs0
            exact ⟨hsub, h⟩
          · exact absurd rfl (bindZip_ne_nil rs ss acc' [] hne h)
    · rintro ⟨h1, h2⟩
      simp [h1, mix, h2]
theorem bindZipRev_nil_iff (ar : String → Nat) : (rs ss : List Ty) → declarableList rs = true → wfList ar rs = true →
    wfList ar ss = true → rs.length = ss.length → (bindZipRev rs ss = some [] ↔ SubList ss rs)
  | [], ss, _, _, _, hl => by
    have : ss = [] := by cases ss <;> simp_all
    subst this; simp [bindZipRev, subList_nil_iff]
  | r :: rs, [], _, _, _, hl => by simp at hl
  | r :: rs, s :: ss, hd, hr, hs, hl => by
    simp only [declarableList, wfList, Bool.and_eq_true] at hd hr hs
    simp only [List.length_cons, Nat.add_right_cancel_iff] at hl
    simp only [bindZipRev, subList_cons_iff]
    rw [← bindIn_nil_iff ar r s hd.1 hr.1 hs.1, ← bindZipRev_nil_iff ar rs ss hd.2 hr.2 hs.2 hl]
    constructor
    · intro h
      split at h
      · cases h
      · rename_i acc hacc
        split at h
        · cases h
        · rename_i sub hsub
          obtain ⟨h1, h2⟩ := (mix_nil_iff _ _).mp h
          subst h1; subst h2
          exact ⟨hsub, hacc⟩
    · rintro ⟨h1, h2⟩
      simp [h1, h2, mix]
end


/-! ## reflexivity of `Sub` on declarable types ("identical types") -/
mutual
theorem sub_refl : (t : Ty) → declarable t = true → Sub t t
  | .bool, _ => .bool
  | .int, _ => .int
  | .float, _ => .float
  | .str, _ => .str
  | .unknown, _ => .bot _
  | .generic a, _ => .generic a
  | .tuple ts, h => .tuple (subList_refl ts (by simpa [declarable] using h))
  | .native _ ts, h => .native (subList_refl ts (by simpa [declarable] using h))
  | .compound _ _ ts, h => .compound (subList_refl ts (by simpa [declarable] using h))
  | .callable ps r, h => by
    simp only [declarable, Bool.and_eq_true] at h
    exact .callable (subList_refl ps h.1) (sub_refl r h.2)
  | .func _ _ _ _, h => by simp [declarable] at h
theorem subList_refl : (ts : List Ty) → declarableList ts = true → SubList ts ts
  | [], _ => .nil
  | t :: ts, h => by
    simp only [declarableList, Bool.and_eq_true] at h
    exact .cons (sub_refl t h.1) (subList_refl ts h.2)
end

/-! ## `Bind::mix` key by key -/
theorem get_insert_same (b : Bnd) (k : String) (v : Ty) : (b.insert k v).get k = some v := by
  induction b with
  | nil => simp [Bnd.insert, Bnd.get]
  | cons e rest ih =>
    obtain ⟨k', v'⟩ := e
    simp only [Bnd.insert]
    by_cases h : k' = k
    · simp [h, Bnd.get]
    · simp [h, Bnd.get, ih]

theorem get_insert_other (b : Bnd) (k k2 : String) (v : Ty) (h : k ≠ k2) : (b.insert k v).get k2 = b.get k2 := by
  induction b with
  | nil => simp [Bnd.insert, Bnd.get, h]
  | cons e rest ih =>
    obtain ⟨k', v'⟩ := e
    simp only [Bnd.insert]
    by_cases h1 : k' = k
    · subst h1; simp [Bnd.get, h]
    · by_cases h2 : k' = k2
      · subst h2; simp [h1, Bnd.get]
      · simp [h1, h2, Bnd.get, ih]

/-- the join two bindings must have at a key -/
def joinAt (x y : Option Ty) : Option (Option Ty) :=
  match x, y with
  | some a, some b => (commonType a b).map some
  | some a, none => some (some a)
  | none, some b => some (some b)
  | none, none => some none

theorem mix_get (self other res : Bnd) (hnd : (other.map Prod.fst).Nodup) (h : mix self other = some res) (k : String) :
    joinAt (Bnd.get self k) (Bnd.get other k) = some (Bnd.get res k) := by
  induction other generalizing self with
  | nil =>
    simp [mix] at h; subst h
    cases hs : Bnd.get self k <;> simp [joinAt, Bnd.get]
  | cons e rest ih =>
    obtain ⟨k1, v1⟩ := e
    simp only [List.map_cons, List.nodup_cons] at hnd
    have hrest : ∀ k', k' = k1 → Bnd.get rest k' = none := by
      intro k' hk; subst hk
      have : ∀ (r : Bnd), k' ∉ r.map Prod.fst → Bnd.get r k' = none := by
        intro r
        induction r with
        | nil => intro _; rfl
        | cons e2 r2 ih2 =>
          obtain ⟨k2, v2⟩ := e2
          intro hn
          simp only [List.map_cons, List.mem_cons, not_or] at hn
          simp [Bnd.get, Ne.symm hn.1, ih2 hn.2]
      exact this rest hnd.1
    simp only [mix] at h
    by_cases hk : k1 = k
    · subst hk
      simp only [Bnd.get, if_true]
      cases hs : Bnd.get self k1 with
      | some existing =>
        simp only [hs] at h
        cases hc : commonType existing v1 with
        | none => simp [hc] at h
        | some c =>
          simp only [hc] at h
          have := ih (self.insert k1 c) hnd.2 h
          rw [get_insert_same, hrest k1 rfl] at this
          simp only [joinAt] at this ⊢
          simp [hc]; simpa using this
      | none =>
        simp only [hs] at h
        have := ih (self.insert k1 v1) hnd.2 h
        rw [get_insert_same, hrest k1 rfl] at this
        simp only [joinAt] at this ⊢
        simpa using this
    · simp only [Bnd.get, hk, if_false]
      cases hs : Bnd.get self k1 with
      | some existing =>
        simp only [hs] at h
        cases hc : commonType existing v1 with
        | none => simp [hc] at h
        | some c =>
          simp only [hc] at h
          have := ih (self.insert k1 c) hnd.2 h
          rwa [get_insert_other _ _ _ _ hk] at this
      | none =>
        simp only [hs] at h
        have := ih (self.insert k1 v1) hnd.2 h
        rwa [get_insert_other _ _ _ _ hk] at this

theorem commonType_unknown_right (a : Ty) : commonType a .unknown = some a := by
  cases a <;> simp [commonType, Ty.beq]

theorem commonType_unknown_left (b : Ty) : commonType .unknown b = some b := by
  cases b <;> simp [commonType, Ty.beq]


/-! ## XFunc-free types, `==`, commutativity of `common_type` -/

mutual
/-- no `XFunc` inside (function *names* have XFunc types; every other expression type is free of them) -/
def funcFree : Ty → Bool
  | .func _ _ _ _ => false
  | .tuple ts => funcFreeList ts
  | .native _ ts => funcFreeList ts
  | .compound _ _ ts => funcFreeList ts
  | .callable ps r => funcFreeList ps && funcFree r
  | _ => true
def funcFreeList : List Ty → Bool
  | [] => true
  | t :: ts => funcFree t && funcFreeList ts
end

/-! ### on XFunc-free types `==` is structural equality -/
mutual
theorem beq_eq : (a b : Ty) → funcFree a = true → funcFree b = true → (Ty.beq a b = true ↔ a = b)
  | .bool, b, _, _ => by cases b <;> simp [Ty.beq]
  | .int, b, _, _ => by cases b <;> simp [Ty.beq]
  | .float, b, _, _ => by cases b <;> simp [Ty.beq]
  | .str, b, _, _ => by cases b <;> simp [Ty.beq]
  | .unknown, b, _, _ => by cases b <;> simp [Ty.beq]
  | .generic x, b, _, _ => by cases b <;> simp [Ty.beq]
  | .func _ _ _ _, b, h, _ => by simp [funcFree] at h
  | .tuple as, b, ha, hb => by
    cases b with
    | tuple bs => simp only [funcFree] at ha hb; simp [Ty.beq, beqList_eq as bs ha hb]
    | _ => simp [Ty.beq]
  | .native n as, b, ha, hb => by
    cases b with
    | native m bs => simp only [funcFree] at ha hb; simp [Ty.beq, beqList_eq as bs ha hb]
    | _ => simp [Ty.beq]
  | .compound k n as, b, ha, hb => by
    cases b with
    | compound k' m bs => simp only [funcFree] at ha hb; simp [Ty.beq, beqList_eq as bs ha hb, and_assoc]
    | _ => simp [Ty.beq]
  | .callable ps r, b, ha, hb => by
    cases b with
    | callable ps' r' =>
      simp only [funcFree, Bool.and_eq_true] at ha hb
      simp [Ty.beq, beqList_eq ps ps' ha.1 hb.1, beq_eq r r' ha.2 hb.2]
    | func _ _ _ _ => simp [funcFree] at hb
    | _ => simp [Ty.beq]
theorem beqList_eq : (as bs : List Ty) → funcFreeList as = true → funcFreeList bs = true →
    (Ty.beqList as bs = true ↔ as = bs)
  | [], [], _, _ => by simp [Ty.beqList]
  | [], _ :: _, _, _ => by simp [Ty.beqList]
  | _ :: _, [], _, _ => by simp [Ty.beqList]
  | a :: as, b :: bs, ha, hb => by
    simp only [funcFreeList, Bool.and_eq_true] at ha hb
    simp [Ty.beqList, beq_eq a b ha.1 hb.1, beqList_eq as bs ha.2 hb.2]
end

/-! ### `common_type` is commutative on XFunc-free types -/
mutual
theorem commonType_comm' : (a b : Ty) → funcFree a = true → funcFree b = true → commonType a b = commonType b a
  | a, b, ha, hb => by
    by_cases hab : a = b
    · subst hab; rfl
    · have hba : ¬ b = a := fun e => hab e.symm
      have e1 : Ty.beq a b = false := by
        rw [← Bool.not_eq_true, beq_eq a b ha hb]; exact hab
      have e2 : Ty.beq b a = false := by
        rw [← Bool.not_eq_true, beq_eq b a hb ha]; exact hba
      unfold commonType
      simp only [e1, e2, Bool.false_eq_true, if_false]
      cases a with
      | compound k0 n as =>
        cases b with
        | compound k1 m bs =>
          simp only [funcFree] at ha hb
          by_cases hn : n = m
          · by_cases hk : k0 = k1
            · subst hn; subst hk
              simp [commonZip_comm as bs ha hb]
            · have hk' : ¬ k1 = k0 := fun e => hk e.symm
              simp [hk, hk']
          · have hn' : ¬ m = n := fun e => hn e.symm
            simp [hn, hn']
        | _ => simp
      | tuple as =>
        cases b with
        | tuple bs =>
          simp only [funcFree] at ha hb
          by_cases hl : as.length = bs.length
          · simp [hl, commonZip_comm as bs ha hb]
          · have hl' : ¬ bs.length = as.length := fun e => hl e.symm
            simp [hl, hl']
        | _ => simp
      | native n as =>
        cases b with
        | native m bs =>
          simp only [funcFree] at ha hb
          by_cases hc : n = m
          · subst hc; simp [commonZip_comm as bs ha hb]
          · have hc' : ¬ m = n := fun e => hc e.symm
            simp [hc, hc']
        | _ => simp
      | func _ _ _ _ => simp [funcFree] at ha
      | _ => cases b <;> simp
theorem commonZip_comm : (as bs : List Ty) → funcFreeList as = true → funcFreeList bs = true →
    commonZip as bs = commonZip bs as
  | [], [], _, _ => rfl
  | [], _ :: _, _, _ => by simp [commonZip]
  | _ :: _, [], _, _ => by simp [commonZip]
  | a :: as, b :: bs, ha, hb => by
    simp only [funcFreeList, Bool.and_eq_true] at ha hb
    simp only [commonZip]
    rw [commonType_comm' a b ha.1 hb.1, commonZip_comm as bs ha.2 hb.2]
end


/-! ## transitivity of `Sub` -/

theorem sub_unknown_iff (s : Ty) : Sub s .unknown ↔ s = .unknown := by
  constructor
  · intro h; cases h; rfl
  · rintro rfl; exact .bot _
theorem sub_func_iff (s : Ty) (g : Option (List String)) (ps : List Ty) (n : Nat) (r : Ty) :
    Sub s (.func g ps n r) ↔ s = .unknown := by
  constructor
  · intro h; cases h; rfl
  · rintro rfl; exact .bot _

/-! ### `Sub` is transitive -/
mutual
theorem sub_trans : (u s t : Ty) → Sub s t → Sub t u → Sub s u
  | .bool, s, t, h1, h2 => by
    rcases (sub_bool_iff t).mp h2 with rfl | rfl
    · rw [(sub_unknown_iff s).mp h1]; exact .bot _
    · exact h1
  | .int, s, t, h1, h2 => by
    rcases (sub_int_iff t).mp h2 with rfl | rfl
    · rw [(sub_unknown_iff s).mp h1]; exact .bot _
    · exact h1
  | .float, s, t, h1, h2 => by
    rcases (sub_float_iff t).mp h2 with rfl | rfl
    · rw [(sub_unknown_iff s).mp h1]; exact .bot _
    · exact h1
  | .str, s, t, h1, h2 => by
    rcases (sub_str_iff t).mp h2 with rfl | rfl
    · rw [(sub_unknown_iff s).mp h1]; exact .bot _
    · exact h1
  | .unknown, s, t, h1, h2 => by
    rw [(sub_unknown_iff t).mp h2] at h1; exact h1
  | .generic a, s, t, h1, h2 => by
    rcases (sub_generic_iff t a).mp h2 with rfl | rfl
    · rw [(sub_unknown_iff s).mp h1]; exact .bot _
    · exact h1
  | .func g ps n r, s, t, h1, h2 => by
    rw [(sub_func_iff t g ps n r).mp h2] at h1
    rw [(sub_unknown_iff s).mp h1]; exact .bot _
  | .tuple us, s, t, h1, h2 => by
    rcases (sub_tuple_iff t us).mp h2 with rfl | ⟨ts, rfl, h2'⟩
    · rw [(sub_unknown_iff s).mp h1]; exact .bot _
    · rcases (sub_tuple_iff s ts).mp h1 with rfl | ⟨ss, rfl, h1'⟩
      · exact .bot _
      · exact .tuple (subList_trans us ss ts h1' h2')
  | .native n us, s, t, h1, h2 => by
    rcases (sub_native_iff t n us).mp h2 with rfl | ⟨ts, rfl, h2'⟩
    · rw [(sub_unknown_iff s).mp h1]; exact .bot _
    · rcases (sub_native_iff s n ts).mp h1 with rfl | ⟨ss, rfl, h1'⟩
      · exact .bot _
      · exact .native (subList_trans us ss ts h1' h2')
  | .compound k n us, s, t, h1, h2 => by
    rcases (sub_compound_iff t k n us).mp h2 with rfl | ⟨ts, rfl, h2'⟩
    · rw [(sub_unknown_iff s).mp h1]; exact .bot _
    · rcases (sub_compound_iff s k n ts).mp h1 with rfl | ⟨ss, rfl, h1'⟩
      · exact .bot _
      · exact .compound (subList_trans us ss ts h1' h2')
  | .callable ps r, s, t, h1, h2 => by
    rcases (sub_callable_iff t ps r).mp h2 with rfl | ⟨ps', r', rfl, hp, hr⟩ | ⟨g, ps', n', r', rfl, _, _, _, _⟩
    · rw [(sub_unknown_iff s).mp h1]; exact .bot _
    · rcases (sub_callable_iff s ps' r').mp h1 with rfl | ⟨ps'', r'', rfl, hp', hr'⟩ | ⟨g, ps'', n'', r'', rfl, hn, hl, hp', hr'⟩
      · exact .bot _
      · exact .callable (subList_trans ps ps'' ps' hp' hp) (sub_trans r r'' r' hr' hr)
      · have hlen := hp.length_eq
        refine .func (by omega) (by omega) ?_ (sub_trans r r'' r' hr' hr)
        rw [← hlen]
        exact subList_trans ps _ ps' hp' hp
    · rw [(sub_func_iff s g ps' n' r').mp h1]; exact .bot _
theorem subList_trans : (us ss ts : List Ty) → SubList ss ts → SubList ts us → SubList ss us
  | [], ss, ts, h1, h2 => by
    rw [(subList_nil_iff ts).mp h2] at h1; exact h1
  | u :: us, ss, ts, h1, h2 => by
    cases h2 with
    | cons h2a h2b =>
      cases h1 with
      | cons h1a h1b => exact .cons (sub_trans u _ _ h1a h2a) (subList_trans us _ _ h1b h2b)
end

/-! ### reflexivity on XFunc-free types (`funcFree` from a1) -/


/-! ## `common_type` is the least upper bound for `Sub` -/

mutual
theorem sub_refl' : (t : Ty) → funcFree t = true → Sub t t
  | .bool, _ => .bool
  | .int, _ => .int
  | .float, _ => .float
  | .str, _ => .str
  | .unknown, _ => .bot _
  | .generic a, _ => .generic a
  | .tuple ts, h => .tuple (subList_refl' ts (by simpa [funcFree] using h))
  | .native _ ts, h => .native (subList_refl' ts (by simpa [funcFree] using h))
  | .compound _ _ ts, h => .compound (subList_refl' ts (by simpa [funcFree] using h))
  | .callable ps r, h => by
    simp only [funcFree, Bool.and_eq_true] at h
    exact .callable (subList_refl' ps h.1) (sub_refl' r h.2)
  | .func _ _ _ _, h => by simp [funcFree] at h
theorem subList_refl' : (ts : List Ty) → funcFreeList ts = true → SubList ts ts
  | [], _ => .nil
  | t :: ts, h => by
    simp only [funcFreeList, Bool.and_eq_true] at h
    exact .cons (sub_refl' t h.1) (subList_refl' ts h.2)
end

/-- XFunc-free and arity-well-formed -/
def good (ar : String → Nat) (t : Ty) : Prop := funcFree t = true ∧ wfTy ar t = true
def goodList (ar : String → Nat) (ts : List Ty) : Prop := funcFreeList ts = true ∧ wfList ar ts = true

theorem goodList_cons (ar : String → Nat) (t : Ty) (ts : List Ty) : goodList ar (t :: ts) ↔ good ar t ∧ goodList ar ts := by
  simp only [goodList, good, funcFreeList, wfList, Bool.and_eq_true]; constructor
  · rintro ⟨⟨a, b⟩, c, d⟩; exact ⟨⟨a, c⟩, b, d⟩
  · rintro ⟨⟨a, c⟩, b, d⟩; exact ⟨⟨a, b⟩, c, d⟩

/-! ### `common_type` is an upper bound … -/
mutual
theorem commonType_ub' (ar : String → Nat) : (a b c : Ty) → good ar a → good ar b → commonType a b = some c →
    good ar c ∧ Sub a c ∧ Sub b c
  | a, b, c, ha, hb, h => by
    by_cases hab : a = b
    · subst hab
      have : Ty.beq a a = true := (beq_eq a a ha.1 ha.1).mpr rfl
      unfold commonType at h; simp only [this, if_true] at h
      cases h; exact ⟨ha, sub_refl' a ha.1, sub_refl' a ha.1⟩
    · have e1 : Ty.beq a b = false := by
        rw [← Bool.not_eq_true, beq_eq a b ha.1 hb.1]; exact hab
      unfold commonType at h
      simp only [e1, Bool.false_eq_true, if_false] at h
      cases a with
      | compound k0 n as =>
        cases b with
        | compound k1 m bs =>
          simp only at h
          split at h
          · cases h
          · rename_i hc
            simp only [Bool.or_eq_true, bne_iff_ne, ne_eq, not_or, Decidable.not_not] at hc
            obtain ⟨rfl, rfl⟩ := hc
            split at h
            · cases h
            · rename_i cs hz; cases h
              have ha' : goodList ar as ∧ as.length = ar n := by
                simp only [good, funcFree, wfTy, Bool.and_eq_true, beq_iff_eq] at ha; exact ⟨⟨ha.1, ha.2.2⟩, ha.2.1⟩
              have hb' : goodList ar bs ∧ bs.length = ar n := by
                simp only [good, funcFree, wfTy, Bool.and_eq_true, beq_iff_eq] at hb; exact ⟨⟨hb.1, hb.2.2⟩, hb.2.1⟩
              obtain ⟨hg, hl, s1, s2⟩ := commonZip_ub ar as bs cs ha'.1 hb'.1 (by omega) hz
              refine ⟨?_, .compound s1, .compound s2⟩
              simp only [good, funcFree, wfTy, Bool.and_eq_true, beq_iff_eq]
              exact ⟨hg.1, by omega, hg.2⟩
        | unknown => simp at h; cases h; exact ⟨ha, sub_refl' _ ha.1, .bot _⟩
        | _ => simp at h
      | tuple as =>
        cases b with
        | tuple bs =>
          simp only at h
          split at h
          · cases h
          · rename_i hl
            simp only [bne_iff_ne, ne_eq, Decidable.not_not] at hl
            split at h
            · cases h
            · rename_i cs hz; cases h
              have ha' : goodList ar as := by simpa [good, goodList, funcFree, wfTy] using ha
              have hb' : goodList ar bs := by simpa [good, goodList, funcFree, wfTy] using hb
              obtain ⟨hg, _, s1, s2⟩ := commonZip_ub ar as bs cs ha' hb' hl hz
              refine ⟨?_, .tuple s1, .tuple s2⟩
              simpa [good, goodList, funcFree, wfTy] using hg
        | unknown => simp at h; cases h; exact ⟨ha, sub_refl' _ ha.1, .bot _⟩
        | _ => simp at h
      | native n as =>
        cases b with
        | native m bs =>
          simp only at h
          split at h
          · cases h
          · rename_i hc
            simp only [bne_iff_ne, ne_eq, Decidable.not_not] at hc
            subst hc
            split at h
            · cases h
            · rename_i cs hz; cases h
              have ha' : goodList ar as ∧ as.length = ar n := by
                simp only [good, funcFree, wfTy, Bool.and_eq_true, beq_iff_eq] at ha; exact ⟨⟨ha.1, ha.2.2⟩, ha.2.1⟩
              have hb' : goodList ar bs ∧ bs.length = ar n := by
                simp only [good, funcFree, wfTy, Bool.and_eq_true, beq_iff_eq] at hb; exact ⟨⟨hb.1, hb.2.2⟩, hb.2.1⟩
              obtain ⟨hg, hl, s1, s2⟩ := commonZip_ub ar as bs cs ha'.1 hb'.1 (by omega) hz
              refine ⟨?_, .native s1, .native s2⟩
              simp only [good, funcFree, wfTy, Bool.and_eq_true, beq_iff_eq]
              exact ⟨hg.1, by omega, hg.2⟩
        | unknown => simp at h; cases h; exact ⟨ha, sub_refl' _ ha.1, .bot _⟩
        | _ => simp at h
      | unknown =>
        have : some b = some c := by cases b <;> simp_all
        cases this; exact ⟨hb, .bot _, sub_refl' _ hb.1⟩
      | func _ _ _ _ => simp [good, funcFree] at ha
      | bool => cases b <;> simp at h; cases h; exact ⟨ha, .bool, .bot _⟩
      | int => cases b <;> simp at h; cases h; exact ⟨ha, .int, .bot _⟩
      | float => cases b <;> simp at h; cases h; exact ⟨ha, .float, .bot _⟩
      | str => cases b <;> simp at h; cases h; exact ⟨ha, .str, .bot _⟩
      | generic x => cases b <;> simp at h; cases h; exact ⟨ha, .generic x, .bot _⟩
      | callable ps r => cases b <;> simp at h; cases h; exact ⟨ha, sub_refl' _ ha.1, .bot _⟩
theorem commonZip_ub (ar : String → Nat) : (as bs cs : List Ty) → goodList ar as → goodList ar bs → as.length = bs.length →
    commonZip as bs = some cs → goodList ar cs ∧ cs.length = as.length ∧ SubList as cs ∧ SubList bs cs
  | [], [], cs, _, _, _, h => by simp [commonZip] at h; subst h; exact ⟨⟨rfl, rfl⟩, rfl, .nil, .nil⟩
  | [], _ :: _, _, _, _, hl, _ => by simp at hl
  | _ :: _, [], _, _, _, hl, _ => by simp at hl
  | a :: as, b :: bs, cs, ha, hb, hl, h => by
    rw [goodList_cons] at ha hb
    simp only [List.length_cons, Nat.add_right_cancel_iff] at hl
    simp only [commonZip] at h
    split at h
    · cases h
    · rename_i c hc
      split at h
      · cases h
      · rename_i cs' hz; cases h
        obtain ⟨g1, s1, s2⟩ := commonType_ub' ar a b c ha.1 hb.1 hc
        obtain ⟨g2, l2, t1, t2⟩ := commonZip_ub ar as bs cs' ha.2 hb.2 hl hz
        exact ⟨(goodList_cons ar c cs').mpr ⟨g1, g2⟩, by simp [l2], .cons s1 t1, .cons s2 t2⟩
end

/-! ### … and the least one -/
mutual
theorem commonType_least' : (a b c d : Ty) → commonType a b = some c → Sub a d → Sub b d → Sub c d
  | a, b, c, d, h, h1, h2 => by
    unfold commonType at h
    split at h
    · cases h; exact h1
    · cases a with
      | compound k0 n as =>
        cases b with
        | compound k1 m bs =>
          simp only at h
          split at h
          · cases h
          · split at h
            · cases h
            · rename_i cs hz; cases h
              cases h1 with
              | compound hh1 =>
                cases h2 with
                | compound hh2 => exact .compound (commonZip_least as bs cs _ hz hh1 hh2)
        | unknown => simp at h; cases h; exact h1
        | _ => simp at h
      | tuple as =>
        cases b with
        | tuple bs =>
          simp only at h
          split at h
          · cases h
          · split at h
            · cases h
            · rename_i cs hz; cases h
              cases h1 with
              | tuple hh1 =>
                cases h2 with
                | tuple hh2 => exact .tuple (commonZip_least as bs cs _ hz hh1 hh2)
        | unknown => simp at h; cases h; exact h1
        | _ => simp at h
      | native n as =>
        cases b with
        | native m bs =>
          simp only at h
          split at h
          · cases h
          · split at h
            · cases h
            · rename_i cs hz; cases h
              cases h1 with
              | native hh1 =>
                cases h2 with
                | native hh2 => exact .native (commonZip_least as bs cs _ hz hh1 hh2)
        | unknown => simp at h; cases h; exact h1
        | _ => simp at h
      | unknown =>
        have : some b = some c := by cases b <;> simp_all
        cases this; exact h2
      | bool => cases b <;> simp at h; cases h; exact h1
      | int => cases b <;> simp at h; cases h; exact h1
      | float => cases b <;> simp at h; cases h; exact h1
      | str => cases b <;> simp at h; cases h; exact h1
      | generic x => cases b <;> simp at h; cases h; exact h1
      | callable ps r => cases b <;> simp at h; cases h; exact h1
      | func _ _ _ _ => cases b <;> simp at h; cases h; exact h1
theorem commonZip_least : (as bs cs ds : List Ty) → commonZip as bs = some cs → SubList as ds → SubList bs ds → SubList cs ds
  | [], _, cs, ds, h, h1, _ => by
    simp [commonZip] at h; subst h; exact h1
  | a :: as, [], cs, ds, h, h1, h2 => by
    cases h2; cases h1
  | a :: as, b :: bs, cs, ds, h, h1, h2 => by
    simp only [commonZip] at h
    split at h
    · cases h
    · rename_i c hc
      split at h
      · cases h
      · rename_i cs' hz; cases h
        cases h1 with
        | cons h1a h1b =>
          cases h2 with
          | cons h2a h2b =>
            exact .cons (commonType_least' a b c _ hc h1a h2a) (commonZip_least as bs cs' _ hz h1b h2b)
end


/-! ## soundness of non-empty bindings: ground types, substitution, `mix` as an upper bound -/

mutual
/-- fully known expression types: no XFunc, no generic parameter (the bottom type is allowed) -/
def ground : Ty → Bool
  | .func _ _ _ _ => false
  | .generic _ => false
  | .tuple ts => groundList ts
  | .native _ ts => groundList ts
  | .compound _ _ ts => groundList ts
  | .callable ps r => groundList ps && ground r
  | _ => true
def groundList : List Ty → Bool
  | [] => true
  | t :: ts => ground t && groundList ts
end

mutual
theorem ground_funcFree : (t : Ty) → ground t = true → funcFree t = true
  | .bool, _ | .int, _ | .float, _ | .str, _ | .unknown, _ => rfl
  | .generic _, h => by simp [ground] at h
  | .func _ _ _ _, h => by simp [ground] at h
  | .tuple ts, h => by simp only [ground] at h; simp only [funcFree]; exact groundList_funcFree ts h
  | .native _ ts, h => by simp only [ground] at h; simp only [funcFree]; exact groundList_funcFree ts h
  | .compound _ _ ts, h => by simp only [ground] at h; simp only [funcFree]; exact groundList_funcFree ts h
  | .callable ps r, h => by
    simp only [ground, Bool.and_eq_true] at h
    simp only [funcFree, Bool.and_eq_true]; exact ⟨groundList_funcFree ps h.1, ground_funcFree r h.2⟩
theorem groundList_funcFree : (ts : List Ty) → groundList ts = true → funcFreeList ts = true
  | [], _ => rfl
  | t :: ts, h => by
    simp only [groundList, Bool.and_eq_true] at h
    simp only [funcFreeList, Bool.and_eq_true]; exact ⟨ground_funcFree t h.1, groundList_funcFree ts h.2⟩
end

mutual
/-- substitution of a binding into a type (everywhere, also inside function types) -/
def subst (b : Bnd) : Ty → Ty
  | .generic a => match Bnd.get b a with | some t => t | none => .generic a
  | .tuple ts => .tuple (substList b ts)
  | .native n ts => .native n (substList b ts)
  | .compound k n ts => .compound k n (substList b ts)
  | .callable ps r => .callable (substList b ps) (subst b r)
  | .func g ps n r => .func g (substList b ps) n (subst b r)
  | t => t
def substList (b : Bnd) : List Ty → List Ty
  | [] => []
  | t :: ts => subst b t :: substList b ts
end

theorem substList_length (b : Bnd) : (ts : List Ty) → (substList b ts).length = ts.length
  | [] => rfl
  | _ :: ts => by simp [substList, substList_length b ts]

theorem substList_take (b : Bnd) : (ts : List Ty) → (n : Nat) → substList b (ts.take n) = (substList b ts).take n
  | [], n => by simp [substList]
  | _ :: ts, 0 => by simp [substList]
  | t :: ts, n + 1 => by simp [substList, substList_take b ts n]

/-! ### bindings: values, order -/
theorem get_mem (b : Bnd) (k : String) (v : Ty) (h : Bnd.get b k = some v) : (k, v) ∈ b := by
  induction b with
  | nil => simp [Bnd.get] at h
  | cons e rest ih =>
    obtain ⟨k', v'⟩ := e
    simp only [Bnd.get] at h
    split at h
    · rename_i hk; cases h; subst hk; simp
    · exact List.mem_cons_of_mem _ (ih h)

theorem mem_insert (b : Bnd) (k : String) (v : Ty) (e : String × Ty) (h : e ∈ Bnd.insert b k v) : e = (k, v) ∨ e ∈ b := by
  induction b with
  | nil => simp [Bnd.insert] at h; exact .inl h
  | cons e' rest ih =>
    obtain ⟨k', v'⟩ := e'
    simp only [Bnd.insert] at h
    split at h
    · simp only [List.mem_cons] at h ⊢
      rcases h with h | h
      · exact .inl h
      · exact .inr (.inr h)
    · simp only [List.mem_cons] at h ⊢
      rcases h with h | h
      · exact .inr (.inl h)
      · rcases ih h with h' | h'
        · exact .inl h'
        · exact .inr (.inr h')

/-- every bound type is XFunc-free and arity-well-formed -/
def BOk (ar : String → Nat) (b : Bnd) : Prop := ∀ k v, (k, v) ∈ b → good ar v

/-- `b2` binds at least the keys of `b1`, to types above (`Sub`) those of `b1` -/
def ble (b1 b2 : Bnd) : Prop := ∀ k v, Bnd.get b1 k = some v → ∃ v', Bnd.get b2 k = some v' ∧ Sub v v'

theorem ble_refl (ar : String → Nat) (b : Bnd) (h : BOk ar b) : ble b b :=
  fun k v hg => ⟨v, hg, sub_refl' v (h k v (get_mem b k v hg)).1⟩

theorem ble_trans {b1 b2 b3 : Bnd} (h12 : ble b1 b2) (h23 : ble b2 b3) : ble b1 b3 := by
  intro k v hg
  obtain ⟨v', hg', hs⟩ := h12 k v hg
  obtain ⟨v'', hg'', hs'⟩ := h23 k v' hg'
  exact ⟨v'', hg'', sub_trans _ _ _ hs hs'⟩

theorem bok_insert (ar : String → Nat) (b : Bnd) (k : String) (v : Ty) (hb : BOk ar b) (hv : good ar v) :
    BOk ar (Bnd.insert b k v) := by
  intro k' v' hm
  rcases mem_insert b k v _ hm with h | h
  · cases h; exact hv
  · exact hb k' v' h

/-- `mix` yields an upper bound of both bindings -/
theorem mix_ub (ar : String → Nat) (self other res : Bnd) (hs : BOk ar self) (ho : BOk ar other)
    (h : mix self other = some res) :
    BOk ar res ∧ ble self res ∧ ∀ k v, (k, v) ∈ other → ∃ v', Bnd.get res k = some v' ∧ Sub v v' := by
  induction other generalizing self with
  | nil =>
    simp [mix] at h; subst h
    exact ⟨hs, ble_refl ar self hs, fun _ _ hm => by simp at hm⟩
  | cons e rest ih =>
    obtain ⟨k, v⟩ := e
    have hv : good ar v := ho k v (by simp)
    have hrest : BOk ar rest := fun k' v' hm => ho k' v' (List.mem_cons_of_mem _ hm)
    simp only [mix] at h
    -- the binding after this entry, and what it guarantees
    have step : ∀ c, good ar c → Sub v c → (∀ ex, Bnd.get self k = some ex → Sub ex c) →
        mix (Bnd.insert self k c) rest = some res →
        BOk ar res ∧ ble self res ∧ ∀ k' v', (k', v') ∈ (k, v) :: rest → ∃ v'', Bnd.get res k' = some v'' ∧ Sub v' v'' := by
      intro c hc hvc hex hm
      obtain ⟨r1, r2, r3⟩ := ih (Bnd.insert self k c) (bok_insert ar self k c hs hc) hrest hm
      have hself : ble self (Bnd.insert self k c) := by
        intro k' v' hg
        by_cases hk : k = k'
        · subst hk; exact ⟨c, get_insert_same self k c, hex v' hg⟩
        · exact ⟨v', by rw [get_insert_other self k k' c hk]; exact hg, sub_refl' v' (hs k' v' (get_mem self k' v' hg)).1⟩
      refine ⟨r1, ble_trans hself r2, ?_⟩
      intro k' v' hm'
      simp only [List.mem_cons] at hm'
      rcases hm' with hm' | hm'
      · cases hm'
        obtain ⟨v'', hg'', hs''⟩ := r2 k c (get_insert_same self k c)
        exact ⟨v'', hg'', sub_trans _ _ _ hvc hs''⟩
      · exact r3 k' v' hm'
    cases hg : Bnd.get self k with
    | some ex =>
      simp only [hg] at h
      cases hc : commonType ex v with
      | none => simp [hc] at h
      | some c =>
        simp only [hc] at h
        obtain ⟨gc, s1, s2⟩ := commonType_ub' ar ex v c (hs k ex (get_mem self k ex hg)) hv hc
        exact step c gc s2 (fun ex' he => by rw [hg] at he; cases he; exact s1) h
    | none =>
      simp only [hg] at h
      exact step v hv (sub_refl' v hv.1) (fun ex he => by rw [hg] at he; cases he) h

/-! ### substitution is monotone in the binding (for fully known supplied types) -/
mutual
theorem subst_mono (b1 b2 : Bnd) (hb : ble b1 b2) : (r s : Ty) → ground s = true → Sub s (subst b1 r) → Sub s (subst b2 r)
  | .bool, _, _, h | .int, _, _, h | .float, _, _, h | .str, _, _, h | .unknown, _, _, h => by
    simpa [subst] using h
  | .generic a, s, hg, h => by
    simp only [subst] at h ⊢
    cases h1 : Bnd.get b1 a with
    | some v1 =>
      simp only [h1] at h
      obtain ⟨v2, h2, hs⟩ := hb a v1 h1
      simp only [h2]; exact sub_trans _ _ _ h hs
    | none =>
      simp only [h1] at h
      rcases (sub_generic_iff s a).mp h with rfl | rfl
      · exact .bot _
      · simp [ground] at hg
  | .tuple rs, s, hg, h => by
    simp only [subst] at h ⊢
    rcases (sub_tuple_iff s _).mp h with rfl | ⟨ss, rfl, hl⟩
    · exact .bot _
    · exact .tuple (substList_mono b1 b2 hb rs ss (by simpa [ground] using hg) hl)
  | .native n rs, s, hg, h => by
    simp only [subst] at h ⊢
    rcases (sub_native_iff s n _).mp h with rfl | ⟨ss, rfl, hl⟩
    · exact .bot _
    · exact .native (substList_mono b1 b2 hb rs ss (by simpa [ground] using hg) hl)
  | .compound k n rs, s, hg, h => by
    simp only [subst] at h ⊢
    rcases (sub_compound_iff s k n _).mp h with rfl | ⟨ss, rfl, hl⟩
    · exact .bot _
    · exact .compound (substList_mono b1 b2 hb rs ss (by simpa [ground] using hg) hl)
  | .callable ps r, s, hg, h => by
    simp only [subst] at h ⊢
    rcases (sub_callable_iff s _ _).mp h with rfl | ⟨ps', r', rfl, hp, hr⟩ | ⟨g, ps', n', r', rfl, _⟩
    · exact .bot _
    · simp only [ground, Bool.and_eq_true] at hg
      exact .callable (substList_mono b1 b2 hb ps ps' hg.1 hp) (subst_mono b1 b2 hb r r' hg.2 hr)
    · simp [ground] at hg
  | .func g ps n r, s, _, h => by
    simp only [subst] at h ⊢
    rw [(sub_func_iff s _ _ _ _).mp h]; exact .bot _
theorem substList_mono (b1 b2 : Bnd) (hb : ble b1 b2) : (rs ss : List Ty) → groundList ss = true →
    SubList ss (substList b1 rs) → SubList ss (substList b2 rs)
  | [], ss, _, h => by simpa [substList] using h
  | r :: rs, ss, hg, h => by
    simp only [substList] at h ⊢
    cases h with
    | cons h1 h2 =>
      simp only [groundList, Bool.and_eq_true] at hg
      exact .cons (subst_mono b1 b2 hb r _ hg.1 h1) (substList_mono b1 b2 hb rs _ hg.2 h2)
end


/-! ## soundness of `bind_in_assignment` with any binding -/

theorem ble_nil (b : Bnd) : ble [] b := fun k v h => by simp [Bnd.get] at h

theorem bok_nil (ar : String → Nat) : BOk ar [] := fun _ _ h => by simp at h

/-- membership form of the order implies the lookup form -/
theorem ble_of_mem {b1 b2 : Bnd} (h : ∀ k v, (k, v) ∈ b1 → ∃ v', Bnd.get b2 k = some v' ∧ Sub v v') : ble b1 b2 :=
  fun k v hg => h k v (get_mem b1 k v hg)

theorem ground_good (ar : String → Nat) (t : Ty) (hg : ground t = true) (hw : wfTy ar t = true) : good ar t :=
  ⟨ground_funcFree t hg, hw⟩

/-- the last two steps of the three function-type arms -/
theorem tail_sound (ar : String → Nat) (acc bret b : Bnd) (ps ps' : List Ty) (r r' : Ty)
    (hgp : groundList ps' = true) (hgr : ground r' = true)
    (hacc : BOk ar acc) (hbret : BOk ar bret) (hm : mix acc bret = some b)
    (h1 : SubList (ps'.take ps.length) (substList acc ps)) (h2 : Sub r' (subst bret r)) :
    BOk ar b ∧ SubList (ps'.take ps.length) (substList b ps) ∧ Sub r' (subst b r) := by
  obtain ⟨m1, m2, m3⟩ := mix_ub ar acc bret b hacc hbret hm
  refine ⟨m1, substList_mono acc b m2 ps _ ?_ h1, subst_mono bret b (ble_of_mem m3) r r' hgr h2⟩
  -- a prefix of a ground list is ground
  have : ∀ (l : List Ty) (n : Nat), groundList l = true → groundList (l.take n) = true := by
    intro l
    induction l with
    | nil => intro n _; simp [groundList]
    | cons x xs ih =>
      intro n h
      cases n with
      | zero => simp [groundList]
      | succ n =>
        simp only [groundList, Bool.and_eq_true, List.take_succ_cons] at h ⊢
        exact ⟨h.1, ih n h.2⟩
  exact this ps' ps.length hgp

mutual
theorem bindIn_sound (ar : String → Nat) : (r s : Ty) → (b : Bnd) → declarable r = true → wfTy ar r = true →
    ground s = true → wfTy ar s = true → bindIn r s = some b → BOk ar b ∧ Sub s (subst b r)
  | .bool, s, b, _, _, _, _, h => by
    cases s <;> simp [bindIn] at h <;> subst h <;> exact ⟨bok_nil ar, by simp [subst]; first | exact .bool | exact .bot _⟩
  | .int, s, b, _, _, _, _, h => by
    cases s <;> simp [bindIn] at h <;> subst h <;> exact ⟨bok_nil ar, by simp [subst]; first | exact .int | exact .bot _⟩
  | .float, s, b, _, _, _, _, h => by
    cases s <;> simp [bindIn] at h <;> subst h <;> exact ⟨bok_nil ar, by simp [subst]; first | exact .float | exact .bot _⟩
  | .str, s, b, _, _, _, _, h => by
    cases s <;> simp [bindIn] at h <;> subst h <;> exact ⟨bok_nil ar, by simp [subst]; first | exact .str | exact .bot _⟩
  | .unknown, _, _, hd, _, _, _, _ => by simp [declarable] at hd
  | .func _ _ _ _, _, _, hd, _, _, _, _ => by simp [declarable] at hd
  | .generic a, s, b, _, _, hg, hw, h => by
    have hgood := ground_good ar s hg hw
    cases s with
    | generic x => simp [ground] at hg
    | unknown => simp [bindIn] at h; subst h; exact ⟨bok_nil ar, .bot _⟩
    | func _ _ _ _ => simp [ground] at hg
    | _ =>
      simp [bindIn] at h; subst h
      refine ⟨?_, ?_⟩
      · intro k v hm; simp at hm; obtain ⟨_, rfl⟩ := hm; exact hgood
      · simp [subst, Bnd.get]; exact sub_refl' _ hgood.1
  | .tuple rs, s, b, hd, hr, hg, hw, h => by
    cases s with
    | unknown => simp [bindIn] at h; subst h; exact ⟨bok_nil ar, .bot _⟩
    | tuple ss =>
      simp only [declarable, wfTy, ground] at hd hr hg hw
      simp only [bindIn] at h
      split at h
      · cases h
      · rename_i hl
        simp only [bne_iff_ne, ne_eq, Decidable.not_not] at hl
        obtain ⟨k1, _, k3⟩ := bindZip_sound ar rs ss [] b hd hr hg hw (by omega) (bok_nil ar) h
        rw [hl, List.take_length] at k3
        exact ⟨k1, by simp only [subst]; exact .tuple k3⟩
    | _ => simp [bindIn] at h
  | .native n rs, s, b, hd, hr, hg, hw, h => by
    cases s with
    | unknown => simp [bindIn] at h; subst h; exact ⟨bok_nil ar, .bot _⟩
    | native m ss =>
      simp only [declarable, wfTy, ground, Bool.and_eq_true, beq_iff_eq] at hd hr hg hw
      simp only [bindIn] at h
      split at h
      · cases h
      · rename_i hc
        simp only [bne_iff_ne, ne_eq, Decidable.not_not] at hc
        subst hc
        have hl : rs.length = ss.length := by omega
        obtain ⟨k1, _, k3⟩ := bindZip_sound ar rs ss [] b hd hr.2 hg hw.2 (by omega) (bok_nil ar) h
        rw [hl, List.take_length] at k3
        exact ⟨k1, by simp only [subst]; exact .native k3⟩
    | _ => simp [bindIn] at h
  | .compound k n rs, s, b, hd, hr, hg, hw, h => by
    cases s with
    | unknown => simp [bindIn] at h; subst h; exact ⟨bok_nil ar, .bot _⟩
    | compound k' m ss =>
      simp only [declarable, wfTy, ground, Bool.and_eq_true, beq_iff_eq] at hd hr hg hw
      simp only [bindIn] at h
      split at h
      · cases h
      · rename_i hc
        simp only [Bool.or_eq_true, bne_iff_ne, ne_eq, not_or, Decidable.not_not] at hc
        obtain ⟨rfl, rfl⟩ := hc
        have hl : rs.length = ss.length := by omega
        obtain ⟨k1, k3⟩ := bindZipRev_sound ar rs ss b hd hr.2 hg hw.2 hl h
        exact ⟨k1, by simp only [subst]; exact .compound k3⟩
    | _ => simp [bindIn] at h
  | .callable ps r, s, b, hd, hr, hg, hw, h => by
    cases s with
    | unknown => simp [bindIn] at h; subst h; exact ⟨bok_nil ar, .bot _⟩
    | func _ _ _ _ => simp [ground] at hg
    | callable ps' r' =>
      simp only [declarable, wfTy, ground, Bool.and_eq_true] at hd hr hg hw
      simp only [bindIn] at h
      split at h
      · cases h
      · rename_i hl
        simp only [bne_iff_ne, ne_eq, Decidable.not_not] at hl
        split at h
        · cases h
        · rename_i acc hacc
          split at h
          · cases h
          · rename_i bret hbret
            obtain ⟨a1, _, a3⟩ := bindZip_sound ar ps ps' [] acc hd.1 hr.1 hg.1 hw.1 (by omega) (bok_nil ar) hacc
            obtain ⟨r1, r2⟩ := bindIn_sound ar r r' bret hd.2 hr.2 hg.2 hw.2 hbret
            obtain ⟨t1, t2, t3⟩ := tail_sound ar acc bret b ps ps' r r' hg.1 hg.2 a1 r1 h a3 r2
            rw [hl, List.take_length] at t2
            exact ⟨t1, by simp only [subst]; exact .callable t2 t3⟩
    | _ => simp [bindIn] at h
theorem bindZip_sound (ar : String → Nat) : (rs ss : List Ty) → (acc res : Bnd) → declarableList rs = true →
    wfList ar rs = true → groundList ss = true → wfList ar ss = true → rs.length ≤ ss.length → BOk ar acc →
    bindZip rs ss acc = some res →
    BOk ar res ∧ ble acc res ∧ SubList (ss.take rs.length) (substList res rs)
  | [], ss, acc, res, _, _, _, _, _, hacc, h => by
    simp [bindZip] at h; subst h
    exact ⟨hacc, ble_refl ar acc hacc, by simp [substList]; exact .nil⟩
  | _ :: _, [], _, _, _, _, _, _, hl, _, _ => by simp at hl
  | r :: rs, s :: ss, acc, res, hd, hr, hg, hw, hl, hacc, h => by
    simp only [declarableList, wfList, groundList, Bool.and_eq_true] at hd hr hg hw
    simp only [List.length_cons, Nat.add_le_add_iff_right] at hl
    simp only [bindZip] at h
    split at h
    · cases h
    · rename_i sub hsub
      split at h
      · cases h
      · rename_i acc' hacc'
        obtain ⟨s1, s2⟩ := bindIn_sound ar r s sub hd.1 hr.1 hg.1 hw.1 hsub
        obtain ⟨m1, m2, m3⟩ := mix_ub ar acc sub acc' hacc s1 hacc'
        obtain ⟨z1, z2, z3⟩ := bindZip_sound ar rs ss acc' res hd.2 hr.2 hg.2 hw.2 hl m1 h
        refine ⟨z1, ble_trans m2 z2, ?_⟩
        simp only [List.length_cons, List.take_succ_cons, substList]
        exact .cons (subst_mono sub res (ble_trans (ble_of_mem m3) z2) r s hg.1 s2) z3
theorem bindZipRev_sound (ar : String → Nat) : (rs ss : List Ty) → (res : Bnd) → declarableList rs = true →
    wfList ar rs = true → groundList ss = true → wfList ar ss = true → rs.length = ss.length →
    bindZipRev rs ss = some res → BOk ar res ∧ SubList ss (substList res rs)
  | [], ss, res, _, _, _, _, hl, h => by
    have : ss = [] := by cases ss <;> simp_all
    subst this
    simp [bindZipRev] at h; subst h
    exact ⟨bok_nil ar, by simp [substList]; exact .nil⟩
  | _ :: _, [], _, _, _, _, _, hl, _ => by simp at hl
  | r :: rs, s :: ss, res, hd, hr, hg, hw, hl, h => by
    simp only [declarableList, wfList, groundList, Bool.and_eq_true] at hd hr hg hw
    simp only [List.length_cons, Nat.add_right_cancel_iff] at hl
    simp only [bindZipRev] at h
    split at h
    · cases h
    · rename_i acc hacc
      split at h
      · cases h
      · rename_i sub hsub
        obtain ⟨s1, s2⟩ := bindIn_sound ar r s sub hd.1 hr.1 hg.1 hw.1 hsub
        obtain ⟨z1, z3⟩ := bindZipRev_sound ar rs ss acc hd.2 hr.2 hg.2 hw.2 hl hacc
        obtain ⟨m1, m2, m3⟩ := mix_ub ar acc sub res z1 s1 h
        refine ⟨m1, ?_⟩
        simp only [substList]
        exact .cons (subst_mono sub res (ble_of_mem m3) r s hg.1 s2) (substList_mono acc res m2 rs ss hg.2 z3)
end

/-- a function name (XFunc with fully known parameter and return types) supplied where a function type is required -/
theorem bindIn_sound_func (ar : String → Nat) (ps : List Ty) (r : Ty) (g : Option (List String)) (ps' : List Ty)
    (n' : Nat) (r' : Ty) (b : Bnd)
    (hd : declarable (.callable ps r) = true) (hr : wfTy ar (.callable ps r) = true)
    (hgp : groundList ps' = true) (hgr : ground r' = true) (hw : wfTy ar (.func g ps' n' r') = true)
    (h : bindIn (.callable ps r) (.func g ps' n' r') = some b) :
    Sub (.func g ps' n' r') (subst b (.callable ps r)) := by
  simp only [declarable, wfTy, Bool.and_eq_true, decide_eq_true_eq] at hd hr hw
  simp only [bindIn] at h
  split at h
  · cases h
  · rename_i hc
    simp only [Bool.or_eq_true, decide_eq_true_eq, not_or, Nat.not_lt] at hc
    split at h
    · cases h
    · rename_i acc hacc
      split at h
      · cases h
      · rename_i bret hbret
        obtain ⟨a1, _, a3⟩ := bindZip_sound ar ps ps' [] acc hd.1 hr.1 hgp hw.1.1 (by omega) (bok_nil ar) hacc
        obtain ⟨r1, r2⟩ := bindIn_sound ar r r' bret hd.2 hr.2 hgr hw.1.2 hbret
        obtain ⟨_, t2, t3⟩ := tail_sound ar acc bret b ps ps' r r' hgp hgr a1 r1 h a3 r2
        simp only [subst]
        refine .func (by rw [substList_length]; omega) (by rw [substList_length]; omega) ?_ t3
        rw [substList_length]; exact t2


/-! ## calls and constructors -/

theorem bindZip_take_left : (rs ss : List Ty) → (acc : Bnd) → bindZip rs ss acc = bindZip (rs.take ss.length) ss acc
  | [], ss, acc => by simp
  | r :: rs, [], acc => by simp [bindZip]
  | r :: rs, s :: ss, acc => by
    simp only [List.length_cons, List.take_succ_cons, bindZip]
    split
    · rfl
    · split
      · rfl
      · exact bindZip_take_left rs ss _

theorem declarableList_take : (l : List Ty) → (n : Nat) → declarableList l = true → declarableList (l.take n) = true
  | [], n, _ => by simp [declarableList]
  | _ :: _, 0, _ => by simp [declarableList]
  | x :: xs, n + 1, h => by
    simp only [declarableList, Bool.and_eq_true, List.take_succ_cons] at h ⊢
    exact ⟨h.1, declarableList_take xs n h.2⟩

theorem wfList_take (ar : String → Nat) : (l : List Ty) → (n : Nat) → wfList ar l = true → wfList ar (l.take n) = true
  | [], n, _ => by simp [wfList]
  | _ :: _, 0, _ => by simp [wfList]
  | x :: xs, n + 1, h => by
    simp only [wfList, Bool.and_eq_true, List.take_succ_cons] at h ⊢
    exact ⟨h.1, wfList_take ar xs n h.2⟩

/-- `XFuncSpec::bind`: every argument is assignable to its parameter instantiated with the final binding -/
theorem specBind_sound' (ar : String → Nat) (f : FuncSpec) (args : List Ty) (b : Bnd)
    (hd : declarableList f.ps = true) (hr : wfList ar f.ps = true)
    (hg : groundList args = true) (hw : wfList ar args = true) (h : specBind f args = some b) :
    SubList args (substList b (f.ps.take args.length)) := by
  unfold specBind at h
  split at h
  · cases h
  · rename_i hc
    simp only [Bool.or_eq_true, decide_eq_true_eq, not_or, Nat.not_lt, Nat.not_lt] at hc
    rw [bindZip_take_left] at h
    have hl : (f.ps.take args.length).length = args.length := by simp; omega
    obtain ⟨_, _, k3⟩ := bindZip_sound ar (f.ps.take args.length) args [] b
      (declarableList_take _ _ hd) (wfList_take ar _ _ hr) hg hw (by omega) (bok_nil ar) h
    rw [hl, List.take_length] at k3
    exact k3

theorem compoundBindLoop_eq : (as fs : List Ty) → (acc : Bnd) → compoundBindLoop as fs acc = bindZip fs as acc
  | [], [], acc => by simp [compoundBindLoop, bindZip]
  | [], _ :: _, acc => by simp [compoundBindLoop, bindZip]
  | _ :: _, [], acc => by simp [compoundBindLoop, bindZip]
  | a :: as, f :: fs, acc => by
    simp only [compoundBindLoop, bindZip]
    split
    · rfl
    · split
      · rfl
      · exact compoundBindLoop_eq as fs _

/-- `XCompoundSpec::bind`: every constructor argument is assignable to its field type instantiated with the final binding -/
theorem compoundBind_sound' (ar : String → Nat) (fields args : List Ty) (b : Bnd)
    (hd : declarableList fields = true) (hr : wfList ar fields = true)
    (hg : groundList args = true) (hw : wfList ar args = true) (h : compoundBind fields args = some b) :
    SubList args (substList b fields) := by
  unfold compoundBind at h
  split at h
  · cases h
  · rename_i hl
    simp only [bne_iff_ne, ne_eq, Decidable.not_not] at hl
    rw [compoundBindLoop_eq] at h
    obtain ⟨_, _, k3⟩ := bindZip_sound ar fields args [] b hd hr hg hw (by omega) (bok_nil ar) h
    rw [← hl, List.take_length] at k3
    exact k3


/-! ## calls through function-typed values -/
theorem callableArgs_iff (ar : String → Nat) : (ps args : List Ty) → declarableList ps = true → wfList ar ps = true →
    wfList ar args = true → ps.length = args.length → (callableArgs ps args = true ↔ SubList args ps)
  | [], [], _, _, _, _ => by simp [callableArgs, subList_nil_iff]
  | [], _ :: _, _, _, _, hl => by simp at hl
  | _ :: _, [], _, _, _, hl => by simp at hl
  | p :: ps, a :: as, hd, hr, hw, hl => by
    simp only [declarableList, wfList, Bool.and_eq_true] at hd hr hw
    simp only [List.length_cons, Nat.add_right_cancel_iff] at hl
    simp only [callableArgs, Bool.and_eq_true, subList_cons_iff]
    rw [callableArgs_iff ar ps as hd.2 hr.2 hw.2 hl, ← bindIn_nil_iff ar p a hd.1 hr.1 hw.1]
    cases h : bindIn p a with
    | none => simp
    | some b => cases b <;> simp

/-! ## completeness: data types, `common_type` succeeds under a common upper bound -/

mutual
/-- fully known data types: no function type (callable / XFunc), no generic parameter; `unknown` allowed -/
def data : Ty → Bool
  | .func _ _ _ _ => false
  | .callable _ _ => false
  | .generic _ => false
  | .tuple ts => dataList ts
  | .native _ ts => dataList ts
  | .compound _ _ ts => dataList ts
  | _ => true
def dataList : List Ty → Bool
  | [] => true
  | t :: ts => data t && dataList ts
end

mutual
theorem data_ground : (t : Ty) → data t = true → ground t = true
  | .bool, _ | .int, _ | .float, _ | .str, _ | .unknown, _ => rfl
  | .generic _, h => by simp [data] at h
  | .func _ _ _ _, h => by simp [data] at h
  | .callable _ _, h => by simp [data] at h
  | .tuple ts, h => by simp only [data] at h; simp only [ground]; exact dataList_ground ts h
  | .native _ ts, h => by simp only [data] at h; simp only [ground]; exact dataList_ground ts h
  | .compound _ _ ts, h => by simp only [data] at h; simp only [ground]; exact dataList_ground ts h
theorem dataList_ground : (ts : List Ty) → dataList ts = true → groundList ts = true
  | [], _ => rfl
  | t :: ts, h => by
    simp only [dataList, Bool.and_eq_true] at h
    simp only [groundList, Bool.and_eq_true]; exact ⟨data_ground t h.1, dataList_ground ts h.2⟩
end

/-! ### `common_type` succeeds whenever the two types have a common upper bound -/
mutual
theorem commonType_complete : (a b d : Ty) → data a = true → data b = true → Sub a d → Sub b d →
    ∃ c, commonType a b = some c ∧ data c = true
  | a, b, d, ha, hb, h1, h2 => by
    unfold commonType
    by_cases hbeq : Ty.beq a b = true
    · simp only [hbeq, if_true]; exact ⟨a, rfl, ha⟩
    · simp only [hbeq, Bool.false_eq_true, if_false]
      cases a with
      | unknown => refine ⟨b, ?_, hb⟩; cases b <;> simp_all [Ty.beq]
      | func _ _ _ _ => simp [data] at ha
      | callable _ _ => simp [data] at ha
      | generic _ => simp [data] at ha
      | bool =>
        rcases (sub_bool_iff b).mp (by cases h1; exact h2) with rfl | rfl
        · exact ⟨.bool, rfl, rfl⟩
        · simp [Ty.beq] at hbeq
      | int =>
        rcases (sub_int_iff b).mp (by cases h1; exact h2) with rfl | rfl
        · exact ⟨.int, rfl, rfl⟩
        · simp [Ty.beq] at hbeq
      | float =>
        rcases (sub_float_iff b).mp (by cases h1; exact h2) with rfl | rfl
        · exact ⟨.float, rfl, rfl⟩
        · simp [Ty.beq] at hbeq
      | str =>
        rcases (sub_str_iff b).mp (by cases h1; exact h2) with rfl | rfl
        · exact ⟨.str, rfl, rfl⟩
        · simp [Ty.beq] at hbeq
      | tuple as =>
        cases h1 with
        | tuple hh1 =>
          rename_i ds
          rcases (sub_tuple_iff b ds).mp h2 with rfl | ⟨bs, rfl, hh2⟩
          · exact ⟨.tuple as, rfl, ha⟩
          · simp only [data] at ha hb
            obtain ⟨cs, hz, hdc⟩ := commonZip_complete as bs ds ha hb hh1 hh2
            have hl : as.length = bs.length := by rw [hh1.length_eq, hh2.length_eq]
            exact ⟨.tuple cs, by simp [hl, hz], by simpa [data] using hdc⟩
      | native n as =>
        cases h1 with
        | native hh1 =>
          rename_i ds
          rcases (sub_native_iff b n ds).mp h2 with rfl | ⟨bs, rfl, hh2⟩
          · exact ⟨.native n as, rfl, ha⟩
          · simp only [data] at ha hb
            obtain ⟨cs, hz, hdc⟩ := commonZip_complete as bs ds ha hb hh1 hh2
            exact ⟨.native n cs, by simp [hz], by simpa [data] using hdc⟩
      | compound k n as =>
        cases h1 with
        | compound hh1 =>
          rename_i ds
          rcases (sub_compound_iff b k n ds).mp h2 with rfl | ⟨bs, rfl, hh2⟩
          · exact ⟨.compound k n as, rfl, ha⟩
          · simp only [data] at ha hb
            obtain ⟨cs, hz, hdc⟩ := commonZip_complete as bs ds ha hb hh1 hh2
            exact ⟨.compound k n cs, by simp [hz], by simpa [data] using hdc⟩
theorem commonZip_complete : (as bs ds : List Ty) → dataList as = true → dataList bs = true →
    SubList as ds → SubList bs ds → ∃ cs, commonZip as bs = some cs ∧ dataList cs = true
  | [], bs, ds, _, _, _, _ => ⟨[], by simp [commonZip], rfl⟩
  | a :: as, [], ds, _, _, h1, h2 => by cases h2; cases h1
  | a :: as, b :: bs, ds, ha, hb, h1, h2 => by
    simp only [dataList, Bool.and_eq_true] at ha hb
    cases h1 with
    | cons h1a h1b =>
      cases h2 with
      | cons h2a h2b =>
        obtain ⟨c, hc, hdc⟩ := commonType_complete a b _ ha.1 hb.1 h1a h2a
        obtain ⟨cs, hz, hdcs⟩ := commonZip_complete as bs _ ha.2 hb.2 h1b h2b
        exact ⟨c :: cs, by simp [commonZip, hc, hz], by simp [dataList, hdc, hdcs]⟩
end


/-! ## completeness of `bind_in_assignment` and minimality of the binding it finds -/

/-- every entry of `b` is below what `σ` gives its key -/
def bleM (b σ : Bnd) : Prop := ∀ k v, (k, v) ∈ b → ∃ v', Bnd.get σ k = some v' ∧ Sub v v'
/-- every bound type is a data type -/
def BData (b : Bnd) : Prop := ∀ k v, (k, v) ∈ b → data v = true

theorem bleM_nil (σ : Bnd) : bleM [] σ := fun _ _ h => by simp at h
theorem bdata_nil : BData [] := fun _ _ h => by simp at h

theorem bleM_ble {b σ : Bnd} (h : bleM b σ) : ble b σ := fun k v hg => h k v (get_mem b k v hg)

theorem bleM_insert {b σ : Bnd} (k : String) (v v' : Ty) (hb : bleM b σ) (hg : Bnd.get σ k = some v') (hs : Sub v v') :
    bleM (Bnd.insert b k v) σ := by
  intro k1 v1 hm
  rcases mem_insert b k v _ hm with h | h
  · cases h; exact ⟨v', hg, hs⟩
  · exact hb k1 v1 h

theorem bdata_insert {b : Bnd} (k : String) (v : Ty) (hb : BData b) (hv : data v = true) : BData (Bnd.insert b k v) := by
  intro k1 v1 hm
  rcases mem_insert b k v _ hm with h | h
  · cases h; exact hv
  · exact hb k1 v1 h

/-- two bindings below a common `σ` mix, and the result is below `σ` -/
theorem mix_complete (σ self other : Bnd) (hs : bleM self σ) (ho : bleM other σ) (ds : BData self) (do_ : BData other) :
    ∃ res, mix self other = some res ∧ bleM res σ ∧ BData res := by
  induction other generalizing self with
  | nil => exact ⟨self, rfl, hs, ds⟩
  | cons e rest ih =>
    obtain ⟨k, v⟩ := e
    have hrest : bleM rest σ := fun k' v' hm => ho k' v' (List.mem_cons_of_mem _ hm)
    have drest : BData rest := fun k' v' hm => do_ k' v' (List.mem_cons_of_mem _ hm)
    obtain ⟨v', hg', hs'⟩ := ho k v (by simp)
    have dv : data v = true := do_ k v (by simp)
    simp only [mix]
    cases hg : Bnd.get self k with
    | some ex =>
      simp only
      obtain ⟨v'', hg'', hs''⟩ := hs k ex (get_mem self k ex hg)
      rw [hg'] at hg''; cases hg''
      obtain ⟨c, hc, dc⟩ := commonType_complete ex v v' (ds k ex (get_mem self k ex hg)) dv hs'' hs'
      simp only [hc]
      exact ih (Bnd.insert self k c)
        (bleM_insert k c v' hs hg' (commonType_least' ex v c v' hc hs'' hs')) hrest (bdata_insert k c ds dc) drest
    | none =>
      simp only
      exact ih (Bnd.insert self k v) (bleM_insert k v v' hs hg' hs') hrest (bdata_insert k v ds dv) drest

theorem gen_aux (σ : Bnd) (a : String) (s : Ty) (hd : data s = true) (hb : bindIn (.generic a) s = some [(a, s)])
    (hne : s ≠ .unknown ∧ s ≠ .generic a) (h : Sub s (subst σ (.generic a))) :
    ∃ b, bindIn (.generic a) s = some b ∧ bleM b σ ∧ BData b := by
  refine ⟨[(a, s)], hb, ?_, ?_⟩
  · intro k v hm
    simp only [List.mem_singleton, Prod.mk.injEq] at hm
    obtain ⟨rfl, rfl⟩ := hm
    simp only [subst] at h
    cases hg : Bnd.get σ k with
    | some v' => rw [hg] at h; exact ⟨v', rfl, h⟩
    | none =>
      rw [hg] at h
      rcases (sub_generic_iff v k).mp h with e | e
      · exact absurd e hne.1
      · exact absurd e hne.2
  · intro k v hm
    simp only [List.mem_singleton, Prod.mk.injEq] at hm
    obtain ⟨rfl, rfl⟩ := hm; exact hd

theorem bindIn_generic_complete (σ : Bnd) (a : String) (s : Ty) (hd : data s = true)
    (h : Sub s (subst σ (.generic a))) : ∃ b, bindIn (.generic a) s = some b ∧ bleM b σ ∧ BData b := by
  cases s with
  | unknown => exact ⟨[], by simp [bindIn], bleM_nil σ, bdata_nil⟩
  | generic _ => simp [data] at hd
  | func _ _ _ _ => simp [data] at hd
  | callable _ _ => simp [data] at hd
  | bool => exact gen_aux σ a _ hd (by simp [bindIn]) (by simp) h
  | int => exact gen_aux σ a _ hd (by simp [bindIn]) (by simp) h
  | float => exact gen_aux σ a _ hd (by simp [bindIn]) (by simp) h
  | str => exact gen_aux σ a _ hd (by simp [bindIn]) (by simp) h
  | tuple _ => exact gen_aux σ a _ hd (by simp [bindIn]) (by simp) h
  | native _ _ => exact gen_aux σ a _ hd (by simp [bindIn]) (by simp) h
  | compound _ _ _ => exact gen_aux σ a _ hd (by simp [bindIn]) (by simp) h

mutual
theorem bindIn_complete (σ : Bnd) : (r s : Ty) → data s = true → Sub s (subst σ r) →
    ∃ b, bindIn r s = some b ∧ bleM b σ ∧ BData b
  | r, .unknown, _, _ => ⟨[], by cases r <;> simp [bindIn], bleM_nil σ, bdata_nil⟩
  | _, .generic _, hd, _ => by simp [data] at hd
  | _, .func _ _ _ _, hd, _ => by simp [data] at hd
  | _, .callable _ _, hd, _ => by simp [data] at hd
  | .generic a, s, hd, h => bindIn_generic_complete σ a s hd h
  | .bool, .bool, _, _ | .int, .int, _, _ | .float, .float, _, _ | .str, .str, _, _ =>
    ⟨[], by simp [bindIn], bleM_nil σ, bdata_nil⟩
  | .tuple rs, .tuple ss, hd, h => by
    simp only [subst] at h
    cases h with
    | tuple hh =>
      simp only [data] at hd
      have hl : rs.length = ss.length := by rw [hh.length_eq, substList_length]
      obtain ⟨res, hz, h1, h2⟩ := bindZip_complete σ rs ss [] hd hh (bleM_nil σ) bdata_nil
      exact ⟨res, by simp [bindIn, hl, hz], h1, h2⟩
  | .native n rs, .native m ss, hd, h => by
    simp only [subst] at h
    cases h with
    | native hh =>
      simp only [data] at hd
      obtain ⟨res, hz, h1, h2⟩ := bindZip_complete σ rs ss [] hd hh (bleM_nil σ) bdata_nil
      exact ⟨res, by simp [bindIn, hz], h1, h2⟩
  | .compound k n rs, .compound k' m ss, hd, h => by
    simp only [subst] at h
    cases h with
    | compound hh =>
      simp only [data] at hd
      obtain ⟨res, hz, h1, h2⟩ := bindZipRev_complete σ rs ss hd hh
      exact ⟨res, by simp [bindIn, hz], h1, h2⟩
  -- the remaining pairs have no `Sub` derivation
  | .bool, .int, _, h | .bool, .float, _, h | .bool, .str, _, h | .bool, .tuple _, _, h | .bool, .native _ _, _, h
  | .bool, .compound _ _ _, _, h => by simp only [subst] at h; cases h
  | .int, .bool, _, h | .int, .float, _, h | .int, .str, _, h | .int, .tuple _, _, h | .int, .native _ _, _, h
  | .int, .compound _ _ _, _, h => by simp only [subst] at h; cases h
  | .float, .bool, _, h | .float, .int, _, h | .float, .str, _, h | .float, .tuple _, _, h | .float, .native _ _, _, h
  | .float, .compound _ _ _, _, h => by simp only [subst] at h; cases h
  | .str, .bool, _, h | .str, .int, _, h | .str, .float, _, h | .str, .tuple _, _, h | .str, .native _ _, _, h
  | .str, .compound _ _ _, _, h => by simp only [subst] at h; cases h
  | .unknown, .bool, _, h | .unknown, .int, _, h | .unknown, .float, _, h | .unknown, .str, _, h
  | .unknown, .tuple _, _, h | .unknown, .native _ _, _, h | .unknown, .compound _ _ _, _, h => by
    simp only [subst] at h; cases h
  | .func _ _ _ _, .bool, _, h | .func _ _ _ _, .int, _, h | .func _ _ _ _, .float, _, h | .func _ _ _ _, .str, _, h
  | .func _ _ _ _, .tuple _, _, h | .func _ _ _ _, .native _ _, _, h | .func _ _ _ _, .compound _ _ _, _, h => by
    simp only [subst] at h; cases h
  | .callable _ _, .bool, _, h | .callable _ _, .int, _, h | .callable _ _, .float, _, h | .callable _ _, .str, _, h
  | .callable _ _, .tuple _, _, h | .callable _ _, .native _ _, _, h | .callable _ _, .compound _ _ _, _, h => by
    simp only [subst] at h; cases h
  | .tuple _, .bool, _, h | .tuple _, .int, _, h | .tuple _, .float, _, h | .tuple _, .str, _, h
  | .tuple _, .native _ _, _, h | .tuple _, .compound _ _ _, _, h => by simp only [subst] at h; cases h
  | .native _ _, .bool, _, h | .native _ _, .int, _, h | .native _ _, .float, _, h | .native _ _, .str, _, h
  | .native _ _, .tuple _, _, h | .native _ _, .compound _ _ _, _, h => by simp only [subst] at h; cases h
  | .compound _ _ _, .bool, _, h | .compound _ _ _, .int, _, h | .compound _ _ _, .float, _, h
  | .compound _ _ _, .str, _, h | .compound _ _ _, .tuple _, _, h | .compound _ _ _, .native _ _, _, h => by
    simp only [subst] at h; cases h
theorem bindZip_complete (σ : Bnd) : (rs ss : List Ty) → (acc : Bnd) → dataList ss = true →
    SubList ss (substList σ rs) → bleM acc σ → BData acc →
    ∃ res, bindZip rs ss acc = some res ∧ bleM res σ ∧ BData res
  | [], ss, acc, _, _, ha, da => ⟨acc, by simp [bindZip], ha, da⟩
  | r :: rs, [], acc, _, h, _, _ => by simp only [substList] at h; cases h
  | r :: rs, s :: ss, acc, hd, h, ha, da => by
    simp only [dataList, Bool.and_eq_true] at hd
    simp only [substList] at h
    cases h with
    | cons h1 h2 =>
      obtain ⟨sub, hs, s1, s2⟩ := bindIn_complete σ r s hd.1 h1
      obtain ⟨acc', hm, m1, m2⟩ := mix_complete σ acc sub ha s1 da s2
      obtain ⟨res, hz, z1, z2⟩ := bindZip_complete σ rs ss acc' hd.2 h2 m1 m2
      exact ⟨res, by simp [bindZip, hs, hm, hz], z1, z2⟩
theorem bindZipRev_complete (σ : Bnd) : (rs ss : List Ty) → dataList ss = true →
    SubList ss (substList σ rs) → ∃ res, bindZipRev rs ss = some res ∧ bleM res σ ∧ BData res
  | [], ss, _, _ => ⟨[], by simp [bindZipRev], bleM_nil σ, bdata_nil⟩
  | r :: rs, [], _, h => by simp only [substList] at h; cases h
  | r :: rs, s :: ss, hd, h => by
    simp only [dataList, Bool.and_eq_true] at hd
    simp only [substList] at h
    cases h with
    | cons h1 h2 =>
      obtain ⟨sub, hs, s1, s2⟩ := bindIn_complete σ r s hd.1 h1
      obtain ⟨acc, hz, z1, z2⟩ := bindZipRev_complete σ rs ss hd.2 h2
      obtain ⟨res, hm, m1, m2⟩ := mix_complete σ acc sub z1 s1 z2 s2
      exact ⟨res, by simp [bindZipRev, hs, hz, hm], m1, m2⟩
end


/-! ## the result type of a generic call is closed -/

/-- no value of the binding mentions generic `g` -/
def BNoGen (g : String) (b : Bnd) : Prop := ∀ k v, (k, v) ∈ b → mentionsGeneric g v = false

theorem bnogen_insert {g : String} {b : Bnd} (k : String) (v : Ty) (hb : BNoGen g b) (hv : mentionsGeneric g v = false) :
    BNoGen g (Bnd.insert b k v) := by
  intro k1 v1 hm
  rcases mem_insert b k v _ hm with h | h
  · cases h; exact hv
  · exact hb k1 v1 h

/-- after `fillUnbound`, every listed generic that the arguments do not mention is bound; no value mentions `g` -/
theorem fillUnbound_spec (args : List Ty) (g : String) : (gens : List String) → (b : Bnd) → BNoGen g b →
    BNoGen g (fillUnbound args b gens) ∧
    (∀ k, (Bnd.get b k).isSome = true → (Bnd.get (fillUnbound args b gens) k).isSome = true) ∧
    (∀ k, k ∈ gens → mentionsGenericList k args = false → (Bnd.get (fillUnbound args b gens) k).isSome = true)
  | [], b, hb => ⟨hb, fun _ h => h, fun _ h => by simp at h⟩
  | x :: xs, b, hb => by
    simp only [fillUnbound]
    split
    · rename_i hc
      simp only [Bool.and_eq_true, Option.isNone_iff_eq_none, Bool.not_eq_true'] at hc
      obtain ⟨i1, i2, i3⟩ := fillUnbound_spec args g xs (Bnd.insert b x .unknown)
        (bnogen_insert x .unknown hb (by simp [mentionsGeneric]))
      refine ⟨i1, ?_, ?_⟩
      · intro k hk
        apply i2
        by_cases hxk : x = k
        · subst hxk; simp [get_insert_same]
        · rw [get_insert_other _ _ _ _ hxk]; exact hk
      · intro k hk hm
        simp only [List.mem_cons] at hk
        rcases hk with rfl | hk
        · apply i2; simp [get_insert_same]
        · exact i3 k hk hm
    · rename_i hc
      obtain ⟨i1, i2, i3⟩ := fillUnbound_spec args g xs b hb
      refine ⟨i1, i2, ?_⟩
      intro k hk hm
      simp only [List.mem_cons] at hk
      rcases hk with rfl | hk
      · apply i2
        simp only [Bool.and_eq_true, Option.isNone_iff_eq_none, Bool.not_eq_true', not_and, Bool.not_eq_false] at hc
        cases hg : Bnd.get b k with
        | some v => rfl
        | none => have := hc hg; rw [hm] at this; cases this
      · exact i3 k hk hm

mutual
/-- resolving with a binding that binds `g` (to types that do not mention `g`) removes `g` from a written type -/
theorem resolveBind_closed (g : String) (b : Bnd) (hb : BNoGen g b) (hg : (Bnd.get b g).isSome = true) :
    (t : Ty) → declarable t = true → mentionsGeneric g (resolveBind b t) = false
  | .bool, _ | .int, _ | .float, _ | .str, _ => by simp [resolveBind, mentionsGeneric]
  | .unknown, h => by simp [declarable] at h
  | .func _ _ _ _, h => by simp [declarable] at h
  | .generic a, _ => by
    simp only [resolveBind]
    cases ha : Bnd.get b a with
    | some v => exact hb a v (get_mem b a v ha)
    | none =>
      simp only [mentionsGeneric, beq_eq_false_iff_ne, ne_eq]
      intro e; subst e; rw [ha] at hg; cases hg
  | .tuple ts, h => by
    simp only [declarable] at h
    simp only [resolveBind, mentionsGeneric]; exact resolveList_closed g b hb hg ts h
  | .native _ ts, h => by
    simp only [declarable] at h
    simp only [resolveBind, mentionsGeneric]; exact resolveList_closed g b hb hg ts h
  | .compound _ _ ts, h => by
    simp only [declarable] at h
    simp only [resolveBind, mentionsGeneric]; exact resolveList_closed g b hb hg ts h
  | .callable ps r, h => by
    simp only [declarable, Bool.and_eq_true] at h
    simp only [resolveBind, mentionsGeneric, Bool.or_eq_false_iff]
    exact ⟨resolveList_closed g b hb hg ps h.1, resolveBind_closed g b hb hg r h.2⟩
theorem resolveList_closed (g : String) (b : Bnd) (hb : BNoGen g b) (hg : (Bnd.get b g).isSome = true) :
    (ts : List Ty) → declarableList ts = true → mentionsGenericList g (resolveList b ts) = false
  | [], _ => rfl
  | t :: ts, h => by
    simp only [declarableList, Bool.and_eq_true] at h
    simp only [resolveList, mentionsGenericList, Bool.or_eq_false_iff]
    exact ⟨resolveBind_closed g b hb hg t h.1, resolveList_closed g b hb hg ts h.2⟩
end

theorem rtypeForCall_closed (gens : List String) (ret : Ty) (b : Bnd) (args : List Ty) (g : String)
    (hg : g ∈ gens) (hret : declarable ret = true) (hargs : mentionsGenericList g args = false) (hb : BNoGen g b) :
    mentionsGeneric g (rtypeForCall (some gens) ret b args) = false := by
  obtain ⟨i1, _, i3⟩ := fillUnbound_spec args g gens b hb
  exact resolveBind_closed g _ i1 (i3 g hg hargs) ret hret


end XrayModel
