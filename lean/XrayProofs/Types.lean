/-
Helper definitions and lemmas for C04: the documented assignability relation `Sub` (declarative, written from
the book and the property text), the fragment of declarable types, arity well-formedness, and the lemmas that
relate `bindIn` / `mix` to them.
-/
import XrayModel.Types
set_option maxHeartbeats 400000
namespace XrayModel

theorem bindIn_callable_callable (ps ps' : List Ty) (r r' : Ty) (b : Bnd)
    (h : bindIn (.callable ps r) (.callable ps' r') = some b) : ps.length = ps'.length := by
  unfold bindIn at h
  split at h
  · cases h
  · rename_i hne; simpa using hne

/-! ## the documented relation -/
mutual
/-- `Sub s r`: a value of static type `s` may be used where `r` is required, with nothing left to bind:
identical types; the bottom type into anything; tuples, natives and compounds component- and name-wise;
function types by exact arity and component types (a function with optional parameters at every arity of
its window). Generic parameters are opaque here. -/
inductive Sub : Ty → Ty → Prop
  | bot (t : Ty) : Sub .unknown t
  | bool : Sub .bool .bool
  | int : Sub .int .int
  | float : Sub .float .float
  | str : Sub .str .str
  | generic (a : String) : Sub (.generic a) (.generic a)
  | tuple {ss rs : List Ty} : SubList ss rs → Sub (.tuple ss) (.tuple rs)
  | native {n : String} {ss rs : List Ty} : SubList ss rs → Sub (.native n ss) (.native n rs)
  | compound {k : Kind} {n : String} {ss rs : List Ty} : SubList ss rs → Sub (.compound k n ss) (.compound k n rs)
  | callable {ps' ps : List Ty} {r' r : Ty} : SubList ps' ps → Sub r' r → Sub (.callable ps' r') (.callable ps r)
  | func {g : Option (List String)} {ps' ps : List Ty} {n' : Nat} {r' r : Ty} :
      n' ≤ ps.length → ps.length ≤ ps'.length → SubList (ps'.take ps.length) ps → Sub r' r →
      Sub (.func g ps' n' r') (.callable ps r)
/-- component-wise, same length -/
inductive SubList : List Ty → List Ty → Prop
  | nil : SubList [] []
  | cons {s r : Ty} {ss rs : List Ty} : Sub s r → SubList ss rs → SubList (s :: ss) (r :: rs)
end

mutual
/-- types that can be written in a program: no `unknown`, no `XFunc` -/
def declarable : Ty → Bool
  | .unknown => false
  | .func _ _ _ _ => false
  | .tuple ts => declarableList ts
  | .native _ ts => declarableList ts
  | .compound _ _ ts => declarableList ts
  | .callable ps r => declarableList ps && declarable r
  | _ => true
def declarableList : List Ty → Bool
  | [] => true
  | t :: ts => declarable t && declarableList ts
end

mutual
/-- every native / compound name is used with the number of type arguments `ar` gives it
(`GenericParamCountMismatch` enforces this for written types, inference preserves it) -/
def wfTy (ar : String → Nat) : Ty → Bool
  | .tuple ts => wfList ar ts
  | .native n ts => ts.length == ar n && wfList ar ts
  | .compound _ n ts => ts.length == ar n && wfList ar ts
  | .callable ps r => wfList ar ps && wfTy ar r
  | .func _ ps n r => wfList ar ps && wfTy ar r && n ≤ ps.length
  | _ => true
def wfList (ar : String → Nat) : List Ty → Bool
  | [] => true
  | t :: ts => wfTy ar t && wfList ar ts
end

theorem SubList.length_eq {ss rs : List Ty} (h : SubList ss rs) : ss.length = rs.length := by
  induction ss generalizing rs with
  | nil => cases h; rfl
  | cons s ss ih => cases h with | cons h1 h2 => simp [ih h2]

/-! ## mix and emptiness -/
theorem insert_ne_nil (b : Bnd) (k : String) (v : Ty) : b.insert k v ≠ [] := by
  cases b with
  | nil => simp [Bnd.insert]
  | cons e rest => obtain ⟨k', v'⟩ := e; simp only [Bnd.insert]; split <;> simp

theorem mix_ne_nil_of_self (self other res : Bnd) (h : mix self other = some res) (hs : self ≠ []) : res ≠ [] := by
  induction other generalizing self with
  | nil => simp [mix] at h; subst h; exact hs
  | cons e rest ih =>
    obtain ⟨k, v⟩ := e
    simp only [mix] at h
    split at h
    · split at h
      · cases h
      · exact ih _ h (insert_ne_nil _ _ _)
    · exact ih _ h (insert_ne_nil _ _ _)

theorem mix_nil_iff (self other : Bnd) : mix self other = some [] ↔ self = [] ∧ other = [] := by
  constructor
  · intro h
    cases other with
    | nil => simp [mix] at h; exact ⟨h, rfl⟩
    | cons e rest =>
      obtain ⟨k, v⟩ := e
      simp only [mix] at h
      exfalso
      split at h
      · split at h
        · cases h
        · exact mix_ne_nil_of_self _ _ _ h (insert_ne_nil _ _ _) rfl
      · exact mix_ne_nil_of_self _ _ _ h (insert_ne_nil _ _ _) rfl
  · rintro ⟨rfl, rfl⟩; rfl


/-! ## inversion of `Sub` on the required side -/
theorem sub_bool_iff (s : Ty) : Sub s .bool ↔ s = .unknown ∨ s = .bool := by
  constructor
  · intro h; cases h <;> simp
  · rintro (rfl | rfl); exact .bot _; exact .bool
theorem sub_int_iff (s : Ty) : Sub s .int ↔ s = .unknown ∨ s = .int := by
  constructor
  · intro h; cases h <;> simp
  · rintro (rfl | rfl); exact .bot _; exact .int
theorem sub_float_iff (s : Ty) : Sub s .float ↔ s = .unknown ∨ s = .float := by
  constructor
  · intro h; cases h <;> simp
  · rintro (rfl | rfl); exact .bot _; exact .float
theorem sub_str_iff (s : Ty) : Sub s .str ↔ s = .unknown ∨ s = .str := by
  constructor
  · intro h; cases h <;> simp
  · rintro (rfl | rfl); exact .bot _; exact .str
theorem sub_generic_iff (s : Ty) (a : String) : Sub s (.generic a) ↔ s = .unknown ∨ s = .generic a := by
  constructor
  · intro h; cases h <;> simp
  · rintro (rfl | rfl); exact .bot _; exact .generic a
theorem sub_tuple_iff (s : Ty) (rs : List Ty) :
    Sub s (.tuple rs) ↔ s = .unknown ∨ ∃ ss, s = .tuple ss ∧ SubList ss rs := by
  constructor
  · intro h; cases h with
    | bot => simp
    | tuple h => exact .inr ⟨_, rfl, h⟩
  · rintro (rfl | ⟨ss, rfl, h⟩); exact .bot _; exact .tuple h
theorem sub_native_iff (s : Ty) (n : String) (rs : List Ty) :
    Sub s (.native n rs) ↔ s = .unknown ∨ ∃ ss, s = .native n ss ∧ SubList ss rs := by
  constructor
  · intro h; cases h with
    | bot => simp
    | native h => exact .inr ⟨_, rfl, h⟩
  · rintro (rfl | ⟨ss, rfl, h⟩); exact .bot _; exact .native h
theorem sub_compound_iff (s : Ty) (k : Kind) (n : String) (rs : List Ty) :
    Sub s (.compound k n rs) ↔ s = .unknown ∨ ∃ ss, s = .compound k n ss ∧ SubList ss rs := by
  constructor
  · intro h; cases h with
    | bot => simp
    | compound h => exact .inr ⟨_, rfl, h⟩
  · rintro (rfl | ⟨ss, rfl, h⟩); exact .bot _; exact .compound h
theorem sub_callable_iff (s : Ty) (ps : List Ty) (r : Ty) :
    Sub s (.callable ps r) ↔ s = .unknown ∨ (∃ ps' r', s = .callable ps' r' ∧ SubList ps' ps ∧ Sub r' r) ∨
      (∃ g ps' n' r', s = .func g ps' n' r' ∧ n' ≤ ps.length ∧ ps.length ≤ ps'.length ∧
        SubList (ps'.take ps.length) ps ∧ Sub r' r) := by
  constructor
  · intro h; cases h with
    | bot => simp
    | callable h1 h2 => exact .inr (.inl ⟨_, _, rfl, h1, h2⟩)
    | func h1 h2 h3 h4 => exact .inr (.inr ⟨_, _, _, _, rfl, h1, h2, h3, h4⟩)
  · rintro (rfl | ⟨ps', r', rfl, h1, h2⟩ | ⟨g, ps', n', r', rfl, h1, h2, h3, h4⟩)
    · exact .bot _
    · exact .callable h1 h2
    · exact .func h1 h2 h3 h4

theorem subList_cons_iff (s r : Ty) (ss rs : List Ty) : SubList (s :: ss) (r :: rs) ↔ Sub s r ∧ SubList ss rs := by
  constructor
  · intro h; cases h with | cons h1 h2 => exact ⟨h1, h2⟩
  · rintro ⟨h1, h2⟩; exact .cons h1 h2
theorem subList_nil_iff (ss : List Ty) : SubList ss [] ↔ ss = [] := by
  constructor
  · intro h; cases h; rfl
  · rintro rfl; exact .nil
theorem subList_nil_left_iff (rs : List Ty) : SubList [] rs ↔ rs = [] := by
  constructor
  · intro h; cases h; rfl
  · rintro rfl; exact .nil

theorem sub_tuple_tuple (ss rs : List Ty) : Sub (.tuple ss) (.tuple rs) ↔ SubList ss rs := by
  constructor
  · intro h; cases h with | tuple h => exact h
  · exact .tuple
theorem sub_native_native (n m : String) (ss rs : List Ty) :
    Sub (.native m ss) (.native n rs) ↔ n = m ∧ SubList ss rs := by
  constructor
  · intro h; cases h with | native h => exact ⟨rfl, h⟩
  · rintro ⟨rfl, h⟩; exact .native h
theorem sub_compound_compound (k k' : Kind) (n m : String) (ss rs : List Ty) :
    Sub (.compound k' m ss) (.compound k n rs) ↔ n = m ∧ k = k' ∧ SubList ss rs := by
  constructor
  · intro h; cases h with | compound h => exact ⟨rfl, rfl, h⟩
  · rintro ⟨rfl, rfl, h⟩; exact .compound h
theorem sub_callable_callable (ps' ps : List Ty) (r' r : Ty) :
    Sub (.callable ps' r') (.callable ps r) ↔ SubList ps' ps ∧ Sub r' r := by
  constructor
  · intro h; cases h with | callable h1 h2 => exact ⟨h1, h2⟩
  · rintro ⟨h1, h2⟩; exact .callable h1 h2
theorem sub_func_callable (g : Option (List String)) (ps' ps : List Ty) (n' : Nat) (r' r : Ty) :
    Sub (.func g ps' n' r') (.callable ps r) ↔
      n' ≤ ps.length ∧ ps.length ≤ ps'.length ∧ SubList (ps'.take ps.length) ps ∧ Sub r' r := by
  constructor
  · intro h; cases h with | func h1 h2 h3 h4 => exact ⟨h1, h2, h3, h4⟩
  · rintro ⟨h1, h2, h3, h4⟩; exact .func h1 h2 h3 h4

theorem bindZip_ne_nil : (rs ss : List Ty) → (acc res : Bnd) → acc ≠ [] → bindZip rs ss acc = some res → res ≠ []
  | [], ss, acc, res, hne, h => by simp [bindZip] at h; subst h; exact hne
  | r :: rs, [], acc, res, hne, h => by simp [bindZip] at h; subst h; exact hne
  | r :: rs, s :: ss, acc, res, hne, h => by
    simp only [bindZip] at h
    split at h
    · cases h
    · split at h
      · cases h
      · rename_i acc' hacc'
        exact bindZip_ne_nil rs ss acc' res (mix_ne_nil_of_self _ _ _ hacc' hne) h

/-- the three function-type arms end with the same two steps -/
theorem tail_nil_iff (z : Option Bnd) (o : Option Bnd) :
    (match z with
      | none => none
      | some acc => match o with
        | none => none
        | some b => mix acc b) = some [] ↔ z = some [] ∧ o = some [] := by
  cases z with
  | none => simp
  | some acc =>
    cases o with
    | none => simp
    | some b => simp [mix_nil_iff]

/-! ## `bind_in_assignment` with an empty binding is exactly `Sub` -/
mutual
theorem bindIn_nil_iff (ar : String → Nat) : (r s : Ty) → declarable r = true → wfTy ar r = true → wfTy ar s = true →
    (bindIn r s = some [] ↔ Sub s r)
  | .bool, s, _, _, _ => by cases s <;> simp [bindIn, sub_bool_iff]
  | .int, s, _, _, _ => by cases s <;> simp [bindIn, sub_int_iff]
  | .float, s, _, _, _ => by cases s <;> simp [bindIn, sub_float_iff]
  | .str, s, _, _, _ => by cases s <;> simp [bindIn, sub_str_iff]
  | .unknown, s, hd, _, _ => by simp [declarable] at hd
  | .func _ _ _ _, s, hd, _, _ => by simp [declarable] at hd
  | .generic a, s, _, _, _ => by
    cases s with
    | generic b =>
      by_cases h : a = b
      · subst h; simp [bindIn, sub_generic_iff]
      · have h' : ¬ b = a := fun e => h e.symm
        simp [bindIn, sub_generic_iff, h, h']
    | _ => simp [bindIn, sub_generic_iff]
  | .tuple rs, s, hd, hr, hs => by
    cases s with
    | tuple ss =>
      simp only [declarable, wfTy] at hd hr hs
      rw [sub_tuple_tuple]
      simp only [bindIn]
      by_cases hl : rs.length = ss.length
      · simp only [hl, bne_self_eq_false, Bool.false_eq_true, if_false]
        rw [bindZip_nil_iff ar rs ss hd hr hs (by omega), hl, List.take_length]
      · have : ¬ SubList ss rs := fun h => hl h.length_eq.symm
        simp [hl, this]
    | _ => simp [bindIn, sub_tuple_iff]
  | .native n rs, s, hd, hr, hs => by
    cases s with
    | native m ss =>
      simp only [declarable, wfTy, Bool.and_eq_true, beq_iff_eq] at hd hr hs
      rw [sub_native_native]
      simp only [bindIn]
      by_cases hnm : n = m
      · subst hnm
        have hl : rs.length = ss.length := by omega
        simp only [bne_self_eq_false, Bool.false_eq_true, if_false, true_and]
        rw [bindZip_nil_iff ar rs ss hd hr.2 hs.2 (by omega), hl, List.take_length]
      · simp [hnm]
    | _ => simp [bindIn, sub_native_iff]
  | .compound k n rs, s, hd, hr, hs => by
    cases s with
    | compound k' m ss =>
      simp only [declarable, wfTy, Bool.and_eq_true, beq_iff_eq] at hd hr hs
      rw [sub_compound_compound]
      simp only [bindIn]
      by_cases hnm : n = m
      · subst hnm
        by_cases hk : k = k'
        · subst hk
          have hl : rs.length = ss.length := by omega
          simp only [bne_self_eq_false, Bool.or_self, Bool.false_eq_true, if_false, true_and]
          exact bindZipRev_nil_iff ar rs ss hd hr.2 hs.2 hl
        · simp [hk]
      · simp [hnm]
    | _ => simp [bindIn, sub_compound_iff]
  | .callable ps r, s, hd, hr, hs => by
    simp only [declarable, wfTy, Bool.and_eq_true] at hd hr
    cases s with
    | callable ps' r' =>
      simp only [wfTy, Bool.and_eq_true] at hs
      rw [sub_callable_callable]
      simp only [bindIn]
      by_cases hl : ps.length = ps'.length
      · simp only [hl, bne_self_eq_false, Bool.false_eq_true, if_false]
        have e : SubList ps' ps ↔ bindZip ps ps' [] = some [] := by
          rw [bindZip_nil_iff ar ps ps' hd.1 hr.1 hs.1 (by omega), hl, List.take_length]
        rw [e, ← bindIn_nil_iff ar r r' hd.2 hr.2 hs.2]
        cases bindZip ps ps' [] <;> cases bindIn r r' <;> simp [mix_nil_iff]
      · have : ¬ SubList ps' ps := fun h => hl h.length_eq.symm
        simp [hl, this]
    | func g ps' n' r' =>
      simp only [wfTy, Bool.and_eq_true, decide_eq_true_eq] at hs
      rw [sub_func_callable]
      simp only [bindIn]
      by_cases hw : n' ≤ ps.length ∧ ps.length ≤ ps'.length
      · have hc : (decide (ps.length < n') || decide (ps.length > ps'.length)) = false := by
          simp; omega
        simp only [hc, Bool.false_eq_true, if_false]
        rw [← bindZip_nil_iff ar ps ps' hd.1 hr.1 hs.1.1 hw.2, ← bindIn_nil_iff ar r r' hd.2 hr.2 hs.1.2]
        cases bindZip ps ps' [] <;> cases bindIn r r' <;> simp [mix_nil_iff, hw.1, hw.2]
      · have hc : (decide (ps.length < n') || decide (ps.length > ps'.length)) = true := by
          simp; omega
        simp only [hc, if_true]
        constructor
        · intro h; cases h
        · rintro ⟨h1, h2, _⟩; exact absurd ⟨h1, h2⟩ hw
    | _ => simp [bindIn, sub_callable_iff]
theorem bindZip_nil_iff (ar : String → Nat) : (rs ss : List Ty) → declarableList rs = true → wfList ar rs = true →
    wfList ar ss = true → rs.length ≤ ss.length → (bindZip rs ss [] = some [] ↔ SubList (ss.take rs.length) rs)
  | [], ss, _, _, _, _ => by simp [bindZip, subList_nil_iff]
  | r :: rs, [], _, _, _, hl => by simp at hl
  | r :: rs, s :: ss, hd, hr, hs, hl => by
    simp only [declarableList, wfList, Bool.and_eq_true] at hd hr hs
    simp only [List.length_cons, Nat.add_le_add_iff_right] at hl
    simp only [bindZip, List.length_cons, List.take_succ_cons, subList_cons_iff]
    rw [← bindIn_nil_iff ar r s hd.1 hr.1 hs.1, ← bindZip_nil_iff ar rs ss hd.2 hr.2 hs.2 hl]
    constructor
    · intro h
      split at h
      · cases h
      · rename_i sub hsub
        split at h
        · cases h
        · rename_i acc' hacc'
          by_cases hne : acc' = []
          · subst hne
            obtain ⟨_, hs0⟩ := (mix_nil_iff _ _).mp hacc'
            subst hs0
            exact ⟨hsub, h⟩
          · exact absurd rfl (bindZip_ne_nil rs ss acc' [] hne h)
    · rintro ⟨h1, h2⟩
      simp [h1, mix, h2]
theorem bindZipRev_nil_iff (ar : String → Nat) : (rs ss : List Ty) → declarableList rs = true → wfList ar rs = true →
    wfList ar ss = true → rs.length = ss.length → (bindZipRev rs ss = some [] ↔ SubList ss rs)
  | [], ss, _, _, _, hl => by
    have : ss = [] := by cases ss <;> simp_all
    subst this; simp [bindZipRev, subList_nil_iff]
  | r :: rs, [], _, _, _, hl => by simp at hl
  | r :: rs, s :: ss, hd, hr, hs, hl => by
    simp only [declarableList, wfList, Bool.and_eq_true] at hd hr hs
    simp only [List.length_cons, Nat.add_right_cancel_iff] at hl
    simp only [bindZipRev, subList_cons_iff]
    rw [← bindIn_nil_iff ar r s hd.1 hr.1 hs.1, ← bindZipRev_nil_iff ar rs ss hd.2 hr.2 hs.2 hl]
    constructor
    · intro h
      split at h
      · cases h
      · rename_i acc hacc
        split at h
        · cases h
        · rename_i sub hsub
          obtain ⟨h1, h2⟩ := (mix_nil_iff _ _).mp h
          subst h1; subst h2
          exact ⟨hsub, hacc⟩
    · rintro ⟨h1, h2⟩
      simp [h1, h2, mix]
end


/-! ## reflexivity of `Sub` on declarable types ("identical types") -/
mutual
theorem sub_refl : (t : Ty) → declarable t = true → Sub t t
  | .bool, _ => .bool
  | .int, _ => .int
  | .float, _ => .float
  | .str, _ => .str
  | .unknown, _ => .bot _
  | .generic a, _ => .generic a
  | .tuple ts, h => .tuple (subList_refl ts (by simpa [declarable] using h))
  | .native _ ts, h => .native (subList_refl ts (by simpa [declarable] using h))
  | .compound _ _ ts, h => .compound (subList_refl ts (by simpa [declarable] using h))
  | .callable ps r, h => by
    simp only [declarable, Bool.and_eq_true] at h
    exact .callable (subList_refl ps h.1) (sub_refl r h.2)
  | .func _ _ _ _, h => by simp [declarable] at h
theorem subList_refl : (ts : List Ty) → declarableList ts = true → SubList ts ts
  | [], _ => .nil
  | t :: ts, h => by
    simp only [declarableList, Bool.and_eq_true] at h
    exact .cons (sub_refl t h.1) (subList_refl ts h.2)
end

/-! ## `Bind::mix` key by key -/
theorem get_insert_same (b : Bnd) (k : String) (v : Ty) : (b.insert k v).get k = some v := by
  induction b with
  | nil => simp [Bnd.insert, Bnd.get]
  | cons e rest ih =>
    obtain ⟨k', v'⟩ := e
    simp only [Bnd.insert]
    by_cases h : k' = k
    · simp [h, Bnd.get]
    · simp [h, Bnd.get, ih]

theorem get_insert_other (b : Bnd) (k k2 : String) (v : Ty) (h : k ≠ k2) : (b.insert k v).get k2 = b.get k2 := by
  induction b with
  | nil => simp [Bnd.insert, Bnd.get, h]
  | cons e rest ih =>
    obtain ⟨k', v'⟩ := e
    simp only [Bnd.insert]
    by_cases h1 : k' = k
    · subst h1; simp [Bnd.get, h]
    · by_cases h2 : k' = k2
      · subst h2; simp [h1, Bnd.get]
      · simp [h1, h2, Bnd.get, ih]

/-- the join two bindings must have at a key -/
def joinAt (x y : Option Ty) : Option (Option Ty) :=
  match x, y with
  | some a, some b => (commonType a b).map some
  | some a, none => some (some a)
  | none, some b => some (some b)
  | none, none => some none

theorem mix_get (self other res : Bnd) (hnd : (other.map Prod.fst).Nodup) (h : mix self other = some res) (k : String) :
    joinAt (Bnd.get self k) (Bnd.get other k) = some (Bnd.get res k) := by
  induction other generalizing self with
  | nil =>
    simp [mix] at h; subst h
    cases hs : Bnd.get self k <;> simp [joinAt, Bnd.get]
  | cons e rest ih =>
    obtain ⟨k1, v1⟩ := e
    simp only [List.map_cons, List.nodup_cons] at hnd
    have hrest : ∀ k', k' = k1 → Bnd.get rest k' = none := by
      intro k' hk; subst hk
      have : ∀ (r : Bnd), k' ∉ r.map Prod.fst → Bnd.get r k' = none := by
        intro r
        induction r with
        | nil => intro _; rfl
        | cons e2 r2 ih2 =>
          obtain ⟨k2, v2⟩ := e2
          intro hn
          simp only [List.map_cons, List.mem_cons, not_or] at hn
          simp [Bnd.get, Ne.symm hn.1, ih2 hn.2]
      exact this rest hnd.1
    simp only [mix] at h
    by_cases hk : k1 = k
    · subst hk
      simp only [Bnd.get, if_true]
      cases hs : Bnd.get self k1 with
      | some existing =>
        simp only [hs] at h
        cases hc : commonType existing v1 with
        | none => simp [hc] at h
        | some c =>
          simp only [hc] at h
          have := ih (self.insert k1 c) hnd.2 h
          rw [get_insert_same, hrest k1 rfl] at this
          simp only [joinAt] at this ⊢
          simp [hc]; simpa using this
      | none =>
        simp only [hs] at h
        have := ih (self.insert k1 v1) hnd.2 h
        rw [get_insert_same, hrest k1 rfl] at this
        simp only [joinAt] at this ⊢
        simpa using this
    · simp only [Bnd.get, hk, if_false]
      cases hs : Bnd.get self k1 with
      | some existing =>
        simp only [hs] at h
        cases hc : commonType existing v1 with
        | none => simp [hc] at h
        | some c =>
          simp only [hc] at h
          have := ih (self.insert k1 c) hnd.2 h
          rwa [get_insert_other _ _ _ _ hk] at this
      | none =>
        simp only [hs] at h
        have := ih (self.insert k1 v1) hnd.2 h
        rwa [get_insert_other _ _ _ _ hk] at this

theorem commonType_unknown_right (a : Ty) : commonType a .unknown = some a := by
  cases a <;> simp [commonType, Ty.beq]

theorem commonType_unknown_left (b : Ty) : commonType .unknown b = some b := by
  cases b <;> simp [commonType, Ty.beq]


end XrayModel
