/- lemmas about the product odometer (C16) -/
import XrayModel.GenProduct
namespace XrayModel.Gen

theorem startAll_arrs (L : Option Nat) : ∀ (xss : List (List V)),
    G.startAll L (xss.map G.fromArr) = xss.map It.arr
  | [] => rfl
  | xs :: xss => by simp [G.startAll, G.start, startAll_arrs L xss]

theorem next_arr_nil (L : Option Nat) (fuel : Nat) : next L (fuel + 1) (.arr []) = .done := by
  simp [next, step]

theorem next_arr_cons (L : Option Nat) (fuel : Nat) (x : V) (xs : List V) :
    next L (fuel + 1) (.arr (x :: xs)) = .item (.val x) (.arr xs) := by
  simp [next, step]

/-- the first round ends the product as soon as it meets an empty part -/
theorem pfirsts_empty (L : Option Nat) (fuel : Nat) : ∀ (xss : List (List V)) (doneIts : List It) (acc : List V),
    [] ∈ xss → ∃ its, pfirsts L (fuel + 1) (xss.map It.arr) doneIts acc = .inl (.done, its) := by
  intro xss
  induction xss with
  | nil => intro _ _ h; simp at h
  | cons xs xss ih =>
    intro doneIts acc h
    cases xs with
    | nil => exact ⟨doneIts.reverse ++ It.arr [] :: xss.map It.arr, by simp [pfirsts, next_arr_nil]⟩
    | cons x xs =>
      have h' : [] ∈ xss := by simpa using h
      obtain ⟨its, hi⟩ := ih (It.arr xs :: doneIts) (x :: acc) h'
      exact ⟨its, by simp [pfirsts, next_arr_cons, hi]⟩

/-- the first round of a product of non-empty arrays yields the tuple of their first elements -/
theorem pfirsts_heads (L : Option Nat) (fuel : Nat) : ∀ (xss : List (List V)) (doneIts : List It) (acc : List V),
    [] ∉ xss →
      pfirsts L (fuel + 1) (xss.map It.arr) doneIts acc =
        .inr (doneIts.reverse ++ xss.map (fun xs => It.arr xs.tail), acc.reverse ++ xss.filterMap List.head?) := by
  intro xss
  induction xss with
  | nil => intro _ _ _; simp [pfirsts]
  | cons xs xss ih =>
    intro doneIts acc h
    cases xs with
    | nil => simp at h
    | cons x xs =>
      have h' : [] ∉ xss := by simpa using h
      simp [pfirsts, next_arr_cons, ih _ _ h']

end XrayModel.Gen
