/-
The extended evaluator (XrayModel/CoreX.lean) is conservative over the core evaluator (XrayModel/Core.lean):
embedding of syntax, values, outcomes, configuration, state and frames (`embE`, `embV`, `embR`, …), and
`consAt n : ConsAt n` — for each of the ten functions and every fuel `n`: whenever the old model's
outcome is not `stuck`, the extended model's outcome on the embedded arguments is the embedded outcome.
-/
import XrayProofs.CoreErrors
import XrayProofs.CoreXErrors
namespace XrayModel.Conservative
open XrayModel

/-! ## The embedding of the old model's syntax and values into the extended model's -/

mutual
  def embE : Core.Expr → CoreX.Expr
    | .int n => .int n
    | .bool b => .bool b
    | .str s => .str s
    | .var x => .var x
    | .call f args => .call f (embEs args)
    | .callE f args => .callE (embE f) (embEs args)
    | .lam fn => .lam (embF fn)
    | .tup es => .tup (embEs es)
    | .item e i => .item (embE e) i
    | .arr es => .arr (embEs es)
  def embEs : List Core.Expr → List CoreX.Expr
    | [] => []
    | e :: es => embE e :: embEs es
  def embP : Core.Param → CoreX.Param
    | .mk n none => .mk n none
    | .mk n (some d) => .mk n (some (embE d))
  def embPs : List Core.Param → List CoreX.Param
    | [] => []
    | p :: ps => embP p :: embPs ps
  def embD : Core.Decl → CoreX.Decl
    | .letD x e => .letD x (embE e)
    | .fnD f => .fnD (embF f)
  def embDs : List Core.Decl → List CoreX.Decl
    | [] => []
    | d :: ds => embD d :: embDs ds
  def embF : Core.Func → CoreX.Func
    | .mk n ps ds b => .mk n (embPs ps) (embDs ds) (embE b)
end

mutual
  def embV : Core.Val → CoreX.Val
    | .int n => .int n
    | .bool b => .bool b
    | .str s => .str s
    | .tup vs => .tup (embVs vs)
    | .arr vs => .arr (embVs vs)
    | .clos f ds env => .clos (embF f) (embVs ds) (embEnv env)
    | .err m => .err m
  def embVs : List Core.Val → List CoreX.Val
    | [] => []
    | v :: vs => embV v :: embVs vs
  def embEnv : List (String × Core.Val) → List (String × CoreX.Val)
    | [] => []
    | (x, v) :: rest => (x, embV v) :: embEnv rest
end

def embViol : Core.Viol → CoreX.Viol
  | .depth => .depth | .calls => .calls | .recursion => .recursion

def embR : Core.Res → CoreX.Res
  | .val v => .val (embV v)
  | .viol k => .viol (embViol k)
  | .tail args => .tail (embVs args)
  | .stuck w => .stuck w
  | .oof => .oof

def embCfg (c : Core.Cfg) : CoreX.Cfg :=
  { depthLimit := c.depthLimit, callLimit := c.callLimit, recLimit := c.recLimit, tco := c.tco }
def embSt (s : Core.St) : CoreX.St := { out := s.out, calls := s.calls }
def embFr (fr : Core.Frame) : CoreX.Frame :=
  { env := embEnv fr.env, self := fr.self.map (fun (n, c) => (n, embV c)), height := fr.height }

def _root_.XrayModel.Core.Res.isStuck : Core.Res → Bool
  | .stuck _ => true
  | _ => false

/-! ### the embedding commutes with the auxiliary functions -/

theorem embVs_eq_map (vs : List Core.Val) : embVs vs = vs.map embV := by
  induction vs with
  | nil => rfl
  | cons v vs ih => simp [embVs, ih]

@[simp] theorem embVs_nil : embVs [] = [] := rfl
@[simp] theorem embVs_cons (v vs) : embVs (v :: vs) = embV v :: embVs vs := rfl
@[simp] theorem embEs_nil : embEs [] = [] := rfl
@[simp] theorem embEs_cons (e es) : embEs (e :: es) = embE e :: embEs es := rfl

theorem embEnv_append (a b : List (String × Core.Val)) : embEnv (a ++ b) = embEnv a ++ embEnv b := by
  induction a with
  | nil => rfl
  | cons p a ih => obtain ⟨x, v⟩ := p; simp [embEnv, ih]

theorem isErr_emb (v : Core.Val) : (embV v).isErr = v.isErr := by
  cases v <;> rfl

theorem lookup_emb (x : String) (env : List (String × Core.Val)) :
    CoreX.lookup x (embEnv env) = (Core.lookup x env).map embV := by
  induction env with
  | nil => rfl
  | cons p env ih =>
    obtain ⟨y, v⟩ := p
    simp only [embEnv, CoreX.lookup, Core.lookup]
    split <;> simp [ih]

theorem get_emb (fr : Core.Frame) (x : String) : (embFr fr).get x = (fr.get x).map embV := by
  simp only [CoreX.Frame.get, Core.Frame.get, embFr, lookup_emb]
  cases hl : Core.lookup x fr.env with
  | some v => simp
  | none =>
    simp only [Option.map_none]
    cases hs : fr.self with
    | none => simp
    | some p =>
      obtain ⟨n, c⟩ := p
      simp only [Option.map_some]
      split <;> simp

theorem firstErr_emb (vs : List Core.Val) : CoreX.firstErr (embVs vs) = (Core.firstErr vs).map embV := by
  induction vs with
  | nil => rfl
  | cons v vs ih =>
    simp only [embVs, CoreX.firstErr, Core.firstErr, isErr_emb]
    split <;> simp [ih]

theorem toStr_emb (v : Core.Val) : CoreX.toStr (embV v) = Core.toStr v := by
  cases v <;> rfl

theorem getElem?_emb (vs : List Core.Val) (i : Nat) : (embVs vs)[i]? = (vs[i]?).map embV := by
  simp [embVs_eq_map]

theorem length_emb (vs : List Core.Val) : (embVs vs).length = vs.length := by
  simp [embVs_eq_map]

theorem dflt_emb (p : Core.Param) : (embP p).dflt = p.dflt.map embE := by
  obtain ⟨n, d⟩ := p; cases d <;> rfl
theorem name_emb (p : Core.Param) : (embP p).name = p.name := by
  obtain ⟨n, d⟩ := p; cases d <;> rfl

theorem bindParams_emb (ps : List Core.Param) (as ds : List Core.Val) :
    CoreX.bindParams (embPs ps) (embVs as) (embVs ds) = (Core.bindParams ps as ds).map embEnv := by
  induction ps generalizing as ds with
  | nil => cases as <;> simp [embPs, CoreX.bindParams, Core.bindParams, embEnv]
  | cons p ps ih =>
    cases as with
    | cons a as =>
      simp only [embPs, embVs_cons, CoreX.bindParams, Core.bindParams, dflt_emb, name_emb]
      cases hd : p.dflt with
      | none =>
        simp only [Option.map_none]
        rw [ih]; cases Core.bindParams ps as ds <;> simp [embEnv]
      | some d =>
        simp only [Option.map_some]
        have : List.drop 1 (embVs ds) = embVs (List.drop 1 ds) := by cases ds <;> simp
        rw [this, ih]; cases Core.bindParams ps as (List.drop 1 ds) <;> simp [embEnv]
    | nil =>
      cases ds with
      | nil => simp [embPs, CoreX.bindParams, Core.bindParams]
      | cons d ds =>
        simp only [embPs, embVs_cons, embVs_nil, CoreX.bindParams, Core.bindParams, dflt_emb, name_emb]
        cases hd : p.dflt with
        | none => simp
        | some d' =>
          simp only [Option.map_some]
          have := ih [] ds
          simp only [embVs_nil] at this
          rw [this]; cases Core.bindParams ps [] ds <;> simp [embEnv]

theorem prim_emb (f : String) (vs : List Core.Val) (h : (Core.prim f vs).isStuck = false) :
    CoreX.prim f (embVs vs) = embR (Core.prim f vs) := by
  unfold Core.prim at h ⊢
  split at h
  all_goals first
    | (simp [Core.Res.isStuck] at h; done)
    | (simp [CoreX.prim, embV, embR, embVs]; done)
    | skip
  · simp only [CoreX.prim, embVs, embV]; split <;> simp [embR, embV]
  · simp only [CoreX.prim, embVs, embV]; split <;> simp [embR, embV]
  · rename_i v
    simp only [CoreX.prim, embVs, toStr_emb]
    cases hs : Core.toStr v with
    | none => simp [hs, Core.Res.isStuck] at h
    | some s => simp [embR, embV]
  · simp [CoreX.prim, embV, embR, embVs, length_emb]

theorem embEnv_eq_map (env : List (String × Core.Val)) : embEnv env = env.map (fun p => (p.1, embV p.2)) := by
  induction env with
  | nil => rfl
  | cons p env ih => obtain ⟨x, v⟩ := p; simp [embEnv, ih]

theorem embEnv_reverse (env : List (String × Core.Val)) : embEnv env.reverse = (embEnv env).reverse := by
  simp [embEnv_eq_map]

theorem name_embF (f : Core.Func) : (embF f).name = f.name := by cases f; rfl
theorem params_embF (f : Core.Func) : (embF f).params = embPs f.params := by cases f; rfl
theorem decls_embF (f : Core.Func) : (embF f).decls = embDs f.decls := by cases f; rfl
theorem body_embF (f : Core.Func) : (embF f).body = embE f.body := by cases f; rfl

def exStuck {α : Type} : Except Core.Res α → Bool
  | .error r => r.isStuck
  | .ok _ => false

def embXL : Except Core.Res (List Core.Val) → Except CoreX.Res (List CoreX.Val)
  | .ok vs => .ok (embVs vs)
  | .error r => .error (embR r)
def embXF : Except Core.Res Core.Frame → Except CoreX.Res CoreX.Frame
  | .ok fr => .ok (embFr fr)
  | .error r => .error (embR r)

/-- agreement of the two evaluators at fuel `n`, one statement per function -/
structure ConsAt (n : Nat) : Prop where
  eval : ∀ {cfg fr e tail st r s'}, Core.eval n cfg fr e tail st = (r, s') → r.isStuck = false →
    CoreX.eval n (embCfg cfg) (embFr fr) (embE e) tail (embSt st) = (embR r, embSt s')
  callNamed : ∀ {cfg fr f args tail st r s'}, Core.callNamed n cfg fr f args tail st = (r, s') → r.isStuck = false →
    CoreX.callNamed n (embCfg cfg) (embFr fr) f (embEs args) tail (embSt st) = (embR r, embSt s')
  callVal : ∀ {cfg fr c args tail st r s'}, Core.callVal n cfg fr c args tail st = (r, s') → r.isStuck = false →
    CoreX.callVal n (embCfg cfg) (embFr fr) (embV c) (embEs args) tail (embSt st) = (embR r, embSt s')
  evalList : ∀ {cfg fr es st x s'}, Core.evalList n cfg fr es st = (x, s') → exStuck x = false →
    CoreX.evalList n (embCfg cfg) (embFr fr) (embEs es) (embSt st) = (embXL x, embSt s')
  mkClos : ∀ {cfg fr f st r s'}, Core.mkClos n cfg fr f st = (r, s') → r.isStuck = false →
    CoreX.mkClos n (embCfg cfg) (embFr fr) (embF f) (embSt st) = (embR r, embSt s')
  evalDflts : ∀ {cfg fr ps st x s'}, Core.evalDflts n cfg fr ps st = (x, s') → exStuck x = false →
    CoreX.evalDflts n (embCfg cfg) (embFr fr) (embPs ps) (embSt st) = (embXL x, embSt s')
  callUser : ∀ {cfg ht c args st r s'}, Core.callUser n cfg ht c args st = (r, s') → r.isStuck = false →
    CoreX.callUser n (embCfg cfg) ht (embV c) (embVs args) (embSt st) = (embR r, embSt s')
  tramp : ∀ {cfg ht c args rec st r s'}, Core.tramp n cfg ht c args rec st = (r, s') → r.isStuck = false →
    CoreX.tramp n (embCfg cfg) ht (embV c) (embVs args) rec (embSt st) = (embR r, embSt s')
  evalDecls : ∀ {cfg fr ds st x s'}, Core.evalDecls n cfg fr ds st = (x, s') → exStuck x = false →
    CoreX.evalDecls n (embCfg cfg) (embFr fr) (embDs ds) (embSt st) = (embXF x, embSt s')
  builtin : ∀ {cfg fr f args tail st r s'}, Core.builtin n cfg fr f args tail st = (r, s') → r.isStuck = false →
    CoreX.builtin n (embCfg cfg) (embFr fr) f (embEs args) tail (embSt st) = (embR r, embSt s')

theorem consAt_zero : ConsAt 0 := by
  constructor <;> intros <;>
    simp_all [Core.eval, Core.callNamed, Core.callVal, Core.evalList, Core.mkClos, Core.evalDflts, Core.callUser,
      Core.tramp, Core.evalDecls, Core.builtin, CoreX.eval, CoreX.callNamed, CoreX.callVal, CoreX.evalList,
      CoreX.mkClos, CoreX.evalDflts, CoreX.callUser, CoreX.tramp, CoreX.evalDecls, CoreX.builtin] <;>
    (first | (obtain ⟨rfl, rfl⟩ := ‹_ ∧ _›; simp [embR, embXL, embXF]) | skip)

set_option hygiene false in
/-- name the old model's sub-evaluation; if it is stuck so is the whole (contradiction), otherwise
replace the extended model's sub-evaluation by the embedded outcome -/
macro "cons_sub " t:term " => " ihx:term : tactic => `(tactic|
  (rcases hs : $t with ⟨r1, s1⟩
   rw [hs] at h
   by_cases h1 : Core.Res.isStuck r1 = true
   · (cases r1 with
      | stuck w => (simp only [] at h; cases h; simp [exStuck, Core.Res.isStuck] at hne)
      | _ => simp [Core.Res.isStuck] at h1)
   rw [$ihx hs (by simpa using h1)]))

set_option hygiene false in
macro "cons_subE " t:term " => " ihx:term : tactic => `(tactic|
  (rcases hs : $t with ⟨r1, s1⟩
   rw [hs] at h
   by_cases h1 : exStuck r1 = true
   · (cases r1 with
      | error r0 =>
        (cases r0 with
         | stuck w => (simp only [] at h; cases h; simp [exStuck, Core.Res.isStuck] at hne)
         | _ => simp [exStuck, Core.Res.isStuck] at h1)
      | ok _ => simp [exStuck] at h1)
   rw [$ihx hs (by simpa using h1)]))

set_option hygiene false in
macro "cons_stuck" : tactic => `(tactic| (simp only [] at h; cases h; simp [exStuck, Core.Res.isStuck] at hne))

-- close a leaf: `h` identifies the old model's answer
set_option hygiene false in
macro "cons_leaf" : tactic => `(tactic|
  (first
    | (cases h; rfl)
    | (cases h; simp [embR, embV, embXL, embXF, embVs]; done)))

theorem cons_eval_succ (n : Nat) (ih : ConsAt n) {cfg fr e tail st r s'}
    (h : Core.eval (n+1) cfg fr e tail st = (r, s')) (hne : r.isStuck = false) :
    CoreX.eval (n+1) (embCfg cfg) (embFr fr) (embE e) tail (embSt st) = (embR r, embSt s') := by
  cases e with
  | int _ => simp only [Core.eval] at h; simp only [embE, CoreX.eval]; cons_leaf
  | bool _ => simp only [Core.eval] at h; simp only [embE, CoreX.eval]; cons_leaf
  | str _ => simp only [Core.eval] at h; simp only [embE, CoreX.eval]; cons_leaf
  | var x =>
    simp only [Core.eval] at h; simp only [embE, CoreX.eval, get_emb]
    cases hg : fr.get x with
    | none => simp [hg] at h; obtain ⟨rfl, _⟩ := h; simp [Core.Res.isStuck] at hne
    | some v => simp only [hg, Option.map_some] at h ⊢; cons_leaf
  | item e i =>
    rw [Core.eval] at h; simp only [embE]; rw [CoreX.eval]
    cons_sub (Core.eval n cfg fr e false st) => ih.eval
    rcases r1 with v | _ | _ | _ | _
    · cases v
      case tup vs =>
        simp only [embR, embV, getElem?_emb] at h ⊢
        cases hi : vs[i]? with
        | none => simp [hi] at h; obtain ⟨rfl, _⟩ := h; simp [Core.Res.isStuck] at hne
        | some w => simp only [hi, Option.map_some] at h ⊢; cons_leaf
      all_goals first
        | (simp only [embR, embV] at h ⊢; cons_leaf)
        | (simp at h; obtain ⟨rfl, _⟩ := h; simp [Core.Res.isStuck] at hne)
    all_goals first
      | (simp only [embR] at h ⊢; cons_leaf)
      | (simp at h; obtain ⟨rfl, _⟩ := h; simp [Core.Res.isStuck] at hne)
  | tup es =>
    rw [Core.eval] at h; simp only [embE]; rw [CoreX.eval]
    cons_subE (Core.evalList n cfg fr es st) => ih.evalList
    cases r1 <;> (simp only [embXL] at h ⊢; cons_leaf)
  | arr es =>
    rw [Core.eval] at h; simp only [embE]; rw [CoreX.eval]
    cons_subE (Core.evalList n cfg fr es st) => ih.evalList
    cases r1 <;> (simp only [embXL] at h ⊢; cons_leaf)
  | lam f =>
    rw [Core.eval] at h; simp only [embE]; rw [CoreX.eval]
    exact ih.mkClos h hne
  | callE fe args =>
    rw [Core.eval] at h; simp only [embE]; rw [CoreX.eval]
    cons_sub (Core.eval n cfg fr fe false st) => ih.eval
    rcases r1 with v | _ | _ | _ | _
    · cases v <;> first
        | exact ih.callVal h hne
        | (simp only [embR, embV] at h ⊢; cons_leaf)
    all_goals first
      | (simp only [embR] at h ⊢; cons_leaf)
      | cons_stuck
  | call f args =>
    rw [Core.eval] at h; simp only [embE]; rw [CoreX.eval]
    rcases hself : fr.self with _ | ⟨sn, sc⟩
    · have hs' : (embFr fr).self = none := by simp [embFr, hself]
      simp only [hself] at h
      simp only [hs']
      exact ih.callNamed h hne
    · have hl : (CoreX.lookup f (embFr fr).env).isNone = (Core.lookup f fr.env).isNone := by
        simp [embFr, lookup_emb]
      have hs' : (embFr fr).self = some (sn, embV sc) := by simp [embFr, hself]
      simp only [hself] at h
      simp only [hs', hl]
      by_cases hc : (f = sn && (Core.lookup f fr.env).isNone) = true
      · simp only [hc, if_true] at h ⊢
        by_cases ht : (tail && cfg.tco) = true
        · have ht' : (tail && (embCfg cfg).tco) = true := ht
          simp only [ht, if_true] at h
          simp only [ht', if_true]
          cons_subE (Core.evalList n cfg fr args st) => ih.evalList
          cases r1 <;> (simp only [embXL] at h ⊢; cons_leaf)
        · have ht' : ¬ (tail && (embCfg cfg).tco) = true := ht
          simp only [ht] at h
          simp only [ht']
          exact ih.callVal h hne
      · simp only [hc] at h ⊢
        exact ih.callNamed h hne

theorem cons_callNamed_succ (n : Nat) (ih : ConsAt n) {cfg fr f args tail st r s'}
    (h : Core.callNamed (n+1) cfg fr f args tail st = (r, s')) (hne : r.isStuck = false) :
    CoreX.callNamed (n+1) (embCfg cfg) (embFr fr) f (embEs args) tail (embSt st) = (embR r, embSt s') := by
  rw [Core.callNamed] at h; rw [CoreX.callNamed, get_emb]
  cases hg : fr.get f with
  | none => simp only [hg, Option.map_none] at h ⊢; exact ih.builtin h hne
  | some c => simp only [hg, Option.map_some] at h ⊢; exact ih.callVal h hne

theorem cons_callVal_succ (n : Nat) (ih : ConsAt n) {cfg fr c args tail st r s'}
    (h : Core.callVal (n+1) cfg fr c args tail st = (r, s')) (hne : r.isStuck = false) :
    CoreX.callVal (n+1) (embCfg cfg) (embFr fr) (embV c) (embEs args) tail (embSt st) = (embR r, embSt s') := by
  cases c with
  | clos f d env =>
    rw [Core.callVal] at h; simp only [embV]; rw [CoreX.callVal]
    cons_subE (Core.evalList n cfg fr args st) => ih.evalList
    rcases r1 with x | vs
    · simp only [embXL] at h ⊢; cons_leaf
    · simp only [embXL] at h ⊢
      exact ih.callUser (c := .clos f d env) h hne
  | err m => simp only [Core.callVal] at h; simp only [embV, CoreX.callVal]; cons_leaf
  | _ => simp [Core.callVal] at h; obtain ⟨rfl, _⟩ := h; simp [Core.Res.isStuck] at hne

theorem cons_evalList_succ (n : Nat) (ih : ConsAt n) {cfg fr es st x s'}
    (h : Core.evalList (n+1) cfg fr es st = (x, s')) (hne : exStuck x = false) :
    CoreX.evalList (n+1) (embCfg cfg) (embFr fr) (embEs es) (embSt st) = (embXL x, embSt s') := by
  cases es with
  | nil => simp only [Core.evalList] at h; simp only [embEs, CoreX.evalList]; cons_leaf
  | cons e rest =>
    rw [Core.evalList] at h; simp only [embEs]; rw [CoreX.evalList]
    cons_sub (Core.eval n cfg fr e false st) => ih.eval
    rcases r1 with v | _ | _ | _ | _
    · cases v
      case err => simp only [embR, embV] at h ⊢; cons_leaf
      all_goals
        simp only [embR, embV] at h ⊢
        cons_subE (Core.evalList n cfg fr rest s1) => ih.evalList
        cases r1 <;> (simp only [embXL] at h ⊢; cons_leaf)
    all_goals first
      | (simp only [embR] at h ⊢; cons_leaf)
      | (simp only [] at h; cases h; simp [exStuck, Core.Res.isStuck] at hne)

theorem cons_mkClos_succ (n : Nat) (ih : ConsAt n) {cfg fr f st r s'}
    (h : Core.mkClos (n+1) cfg fr f st = (r, s')) (hne : r.isStuck = false) :
    CoreX.mkClos (n+1) (embCfg cfg) (embFr fr) (embF f) (embSt st) = (embR r, embSt s') := by
  rw [Core.mkClos] at h; rw [CoreX.mkClos, params_embF]
  cons_subE (Core.evalDflts n cfg fr f.params st) => ih.evalDflts
  cases r1 with
  | error r0 => simp only [embXL] at h ⊢; cons_leaf
  | ok ds =>
    simp only [embXL] at h ⊢
    cases h
    cases hself : fr.self with
    | none => simp [embR, embV, embFr, hself]
    | some p => obtain ⟨sn, sc⟩ := p; simp [embR, embV, embFr, hself, embEnv_append, embEnv]

theorem cons_evalDflts_succ (n : Nat) (ih : ConsAt n) {cfg fr ps st x s'}
    (h : Core.evalDflts (n+1) cfg fr ps st = (x, s')) (hne : exStuck x = false) :
    CoreX.evalDflts (n+1) (embCfg cfg) (embFr fr) (embPs ps) (embSt st) = (embXL x, embSt s') := by
  cases ps with
  | nil => simp only [Core.evalDflts] at h; simp only [embPs, CoreX.evalDflts]; cons_leaf
  | cons p rest =>
    rw [Core.evalDflts] at h; simp only [embPs]; rw [CoreX.evalDflts, dflt_emb]
    cases hd : p.dflt with
    | none => simp only [hd, Option.map_none] at h ⊢; exact ih.evalDflts h hne
    | some d =>
      simp only [hd, Option.map_some] at h ⊢
      cons_sub (Core.eval n cfg fr d false st) => ih.eval
      rcases r1 with v | _ | _ | _ | _
      · simp only [embR] at h ⊢
        cons_subE (Core.evalDflts n cfg fr rest s1) => ih.evalDflts
        cases r1 <;> (simp only [embXL] at h ⊢; cons_leaf)
      all_goals first
        | (simp only [embR] at h ⊢; cons_leaf)
        | cons_stuck

theorem cons_callUser_succ (n : Nat) (ih : ConsAt n) {cfg ht c args st r s'}
    (h : Core.callUser (n+1) cfg ht c args st = (r, s')) (hne : r.isStuck = false) :
    CoreX.callUser (n+1) (embCfg cfg) ht (embV c) (embVs args) (embSt st) = (embR r, embSt s') := by
  rw [Core.callUser] at h; rw [CoreX.callUser, firstErr_emb]
  cases hf : Core.firstErr args with
  | some e => simp only [hf, Option.map_some] at h ⊢; cons_leaf
  | none =>
    simp only [hf, Option.map_none] at h ⊢
    have hcl : (embCfg cfg).callLimit = cfg.callLimit := rfl
    rw [hcl]
    cases hl : cfg.callLimit with
    | none => simp only [hl] at h ⊢; exact ih.tramp h hne
    | some l =>
      simp only [hl] at h ⊢
      have hcalls : (embSt st).calls = st.calls := rfl
      rw [hcalls]
      split at h
      · rename_i hc; rw [if_pos hc]; cases h; rfl
      · rename_i hc; rw [if_neg hc]
        exact ih.tramp (st := { st with calls := st.calls + 1 }) h hne

theorem cons_evalDecls_succ (n : Nat) (ih : ConsAt n) {cfg fr ds st x s'}
    (h : Core.evalDecls (n+1) cfg fr ds st = (x, s')) (hne : exStuck x = false) :
    CoreX.evalDecls (n+1) (embCfg cfg) (embFr fr) (embDs ds) (embSt st) = (embXF x, embSt s') := by
  cases ds with
  | nil => simp only [Core.evalDecls] at h; simp only [embDs, CoreX.evalDecls]; cons_leaf
  | cons d rest =>
    cases d with
    | letD y e =>
      rw [Core.evalDecls] at h; simp only [embDs, embD]; rw [CoreX.evalDecls]
      cons_sub (Core.eval n cfg fr e false st) => ih.eval
      rcases r1 with v | _ | _ | _ | _
      · simp only [embR] at h ⊢
        exact ih.evalDecls (fr := { fr with env := (y, v) :: fr.env }) h hne
      all_goals first
        | (simp only [embR] at h ⊢; cons_leaf)
        | cons_stuck
    | fnD f =>
      rw [Core.evalDecls] at h; simp only [embDs, embD]; rw [CoreX.evalDecls]
      cons_sub (Core.mkClos n cfg fr f st) => ih.mkClos
      rcases r1 with v | _ | _ | _ | _
      · simp only [embR, name_embF] at h ⊢
        cases hn : f.name with
        | none => simp only [hn] at h ⊢; cases h; simp [exStuck, Core.Res.isStuck] at hne
        | some nm =>
          simp only [hn] at h ⊢
          exact ih.evalDecls (fr := { fr with env := (nm, v) :: fr.env }) h hne
      all_goals first
        | (simp only [embR] at h ⊢; cons_leaf)
        | cons_stuck

theorem depthTrips_emb (cfg : Core.Cfg) (h : Nat) : CoreX.depthTrips (embCfg cfg) h = Core.depthTrips cfg h := by
  unfold CoreX.depthTrips Core.depthTrips
  simp only [embCfg]
  cases cfg.depthLimit <;> rfl
theorem recTrips_emb (cfg : Core.Cfg) (h : Nat) : CoreX.recTrips (embCfg cfg) h = Core.recTrips cfg h := by
  unfold CoreX.recTrips Core.recTrips
  simp only [embCfg]
  cases cfg.recLimit <;> rfl
theorem bodyFrame_emb (h : Nat) (f : Core.Func) (d : List Core.Val) (env ps : List (String × Core.Val)) :
    CoreX.bodyFrame h (embF f) (embVs d) (embEnv env) (embEnv ps) = embFr (Core.bodyFrame h f d env ps) := by
  unfold CoreX.bodyFrame Core.bodyFrame embFr
  simp only [name_embF, embEnv_append, embEnv_reverse]
  cases f.name <;> simp [embV]

theorem cons_tramp_succ (n : Nat) (ih : ConsAt n) {cfg ht c args rec st r s'}
    (h : Core.tramp (n+1) cfg ht c args rec st = (r, s')) (hne : r.isStuck = false) :
    CoreX.tramp (n+1) (embCfg cfg) ht (embV c) (embVs args) rec (embSt st) = (embR r, embSt s') := by
  cases c with
  | clos f d env =>
    simp only [embV]
    cases hd : Core.depthTrips cfg ht with
    | true =>
      rw [Core.tramp_depth _ _ _ _ _ _ _ _ _ hd] at h
      rw [CoreX.tramp_depth _ _ _ _ _ _ _ _ _ (by rw [depthTrips_emb]; exact hd)]
      cases h; rfl
    | false =>
      have hd' : CoreX.depthTrips (embCfg cfg) ht = false := by rw [depthTrips_emb]; exact hd
      cases hb : Core.bindParams f.params args d with
      | none =>
        rw [Core.tramp_arity _ _ _ _ _ _ _ _ _ hd hb] at h
        cases h; simp [Core.Res.isStuck] at hne
      | some ps =>
        have hb' : CoreX.bindParams (embF f).params (embVs args) (embVs d) = some (embEnv ps) := by
          rw [params_embF, bindParams_emb, hb]; rfl
        rw [Core.tramp_unfold _ _ _ _ _ _ _ _ _ _ hd hb] at h
        rw [CoreX.tramp_unfold _ _ _ _ _ _ _ _ _ _ hd' hb', bodyFrame_emb, decls_embF]
        cons_subE (Core.evalDecls n cfg (Core.bodyFrame ht f d env ps) f.decls st) => ih.evalDecls
        cases r1 with
        | error r0 => simp only [embXF] at h ⊢; cons_leaf
        | ok fr' =>
          simp only [embXF, body_embF] at h ⊢
          cons_sub (Core.eval n cfg fr' f.body true s1) => ih.eval
          rcases r1 with v | _ | newArgs | _ | _
          case tail =>
            simp only [embR, recTrips_emb] at h ⊢
            cases hr : Core.recTrips cfg rec with
            | true => simp only [hr, if_true] at h ⊢; cases h; rfl
            | false =>
              simp only [hr, Bool.false_eq_true, if_false] at h ⊢
              exact ih.tramp (c := .clos f d env) h hne
          all_goals (simp only [embR] at h ⊢; cons_leaf)
  | _ => simp [Core.tramp] at h; obtain ⟨rfl, _⟩ := h; simp [Core.Res.isStuck] at hne

theorem isStrictPrim_emb {f : String} (h : Core.isStrictPrim f = true) : CoreX.isStrictPrim f = true := by
  simp only [Core.isStrictPrim, List.mem_cons, List.mem_nil_iff, or_false, decide_eq_true_eq] at h
  rcases h with rfl | rfl | rfl | rfl | rfl | rfl | rfl | rfl | rfl | rfl | rfl | rfl | rfl | rfl | rfl | rfl <;> decide

theorem cons_builtin_succ (n : Nat) (ih : ConsAt n) {cfg fr f args tail st r s'}
    (h : Core.builtin (n+1) cfg fr f args tail st = (r, s')) (hne : r.isStuck = false) :
    CoreX.builtin (n+1) (embCfg cfg) (embFr fr) f (embEs args) tail (embSt st) = (embR r, embSt s') := by
  rcases Core.builtin_shape f args with ⟨c, a, b, rfl, rfl⟩ | ⟨a, b, rfl, rfl⟩ | ⟨a, b, rfl, rfl⟩ | ⟨a, b, rfl, rfl⟩ |
    ⟨a, rfl, rfl⟩ | ⟨a, rfl, rfl⟩ | hd
  · rw [Core.builtin] at h; simp only [embEs]; rw [CoreX.builtin]
    cons_sub (Core.eval n cfg fr c false st) => ih.eval
    rcases r1 with v | _ | _ | _ | _
    · cases v
      case bool t =>
        cases t <;> simp only [embR, embV, if_true, if_false, Bool.false_eq_true] at h ⊢ <;> exact ih.eval h hne
      all_goals first
        | (simp only [embR, embV] at h ⊢; cons_leaf)
        | cons_stuck
    all_goals first
      | (simp only [embR] at h ⊢; cons_leaf)
      | cons_stuck
  · rw [Core.builtin] at h; simp only [embEs]; rw [CoreX.builtin]
    cons_sub (Core.eval n cfg fr a false st) => ih.eval
    rcases r1 with v | _ | _ | _ | _
    · cases v
      case bool t =>
        cases t
        · simp only [embR, embV] at h ⊢; cons_leaf
        · simp only [embR, embV] at h ⊢; exact ih.eval h hne
      all_goals first
        | (simp only [embR, embV] at h ⊢; cons_leaf)
        | cons_stuck
    all_goals first
      | (simp only [embR] at h ⊢; cons_leaf)
      | cons_stuck
  · rw [Core.builtin] at h; simp only [embEs]; rw [CoreX.builtin]
    cons_sub (Core.eval n cfg fr a false st) => ih.eval
    rcases r1 with v | _ | _ | _ | _
    · cases v
      case bool t =>
        cases t
        · simp only [embR, embV] at h ⊢; exact ih.eval h hne
        · simp only [embR, embV] at h ⊢; cons_leaf
      all_goals first
        | (simp only [embR, embV] at h ⊢; cons_leaf)
        | cons_stuck
    all_goals first
      | (simp only [embR] at h ⊢; cons_leaf)
      | cons_stuck
  · rw [Core.builtin] at h; simp only [embEs]; rw [CoreX.builtin]
    cons_sub (Core.eval n cfg fr a false st) => ih.eval
    rcases r1 with v | _ | _ | _ | _
    · cases v <;> simp only [embR, embV] at h ⊢ <;> first
        | exact ih.eval h hne
        | cons_leaf
    all_goals first
      | (simp only [embR] at h ⊢; cons_leaf)
      | cons_stuck
  · rw [Core.builtin] at h; simp only [embEs]; rw [CoreX.builtin]
    cons_sub (Core.eval n cfg fr a false st) => ih.eval
    rcases r1 with v | _ | _ | _ | _
    · simp only [embR, isErr_emb] at h ⊢; cons_leaf
    all_goals first
      | (simp only [embR] at h ⊢; cons_leaf)
      | cons_stuck
  · rw [Core.builtin] at h; simp only [embEs]; rw [CoreX.builtin]
    cons_sub (Core.eval n cfg fr a false st) => ih.eval
    rcases r1 with v | _ | _ | _ | _
    · cases v
      case err m => simp only [embR, embV] at h ⊢; cons_leaf
      all_goals
        simp only [embR, embV, CoreX.toStr, Core.toStr] at h ⊢
        first
          | (cases h; simp [embV, embSt, CoreX.showInt, Core.showInt]; done)
          | (cases h; simp [Core.Res.isStuck] at hne)
    all_goals first
      | (simp only [embR] at h ⊢; cons_leaf)
      | cons_stuck
  · rw [hd] at h
    unfold Core.strictCall at h
    split at h
    · rename_i hf
      rw [CoreX.builtin_strict (isStrictPrim_emb hf)]
      unfold CoreX.strictCall
      rw [if_pos (isStrictPrim_emb hf)]
      cons_subE (Core.evalList n cfg fr args st) => ih.evalList
      cases r1 with
      | error r0 => simp only [embXL] at h ⊢; cons_leaf
      | ok vs =>
        simp only [embXL] at h ⊢
        cases h
        rw [prim_emb f vs hne]
    · cases h; simp [Core.Res.isStuck] at hne

theorem consAt (n : Nat) : ConsAt n := by
  induction n with
  | zero => exact consAt_zero
  | succ n ih =>
    exact ⟨cons_eval_succ n ih, cons_callNamed_succ n ih, cons_callVal_succ n ih, cons_evalList_succ n ih,
      cons_mkClos_succ n ih, cons_evalDflts_succ n ih, cons_callUser_succ n ih, cons_tramp_succ n ih,
      cons_evalDecls_succ n ih, cons_builtin_succ n ih⟩

end XrayModel.Conservative
