/-
Specifications of the hand model of the xray-written integer library (`XrayModel/IntLib.lean`).
-/
import Mathlib.Data.Nat.GCD.Basic
import Mathlib.Data.Nat.Factorial.Basic
import Mathlib.Tactic.Linarith
import XrayModel.IntLib
import XrayProofs.LazyInt
namespace XrayModel.LibP
open XrayModel

theorem abs_eq (i : Int) : Lib.abs i = (i.natAbs : Int) := by
  unfold Lib.abs; split <;> omega

theorem helper_spec : ∀ (fuel m n : Nat), m < fuel →
    Lib.gcdHelper fuel (m : Int) (n : Int) = some ((Nat.gcd m n : Nat) : Int) := by
  intro fuel
  induction fuel with
  | zero => intro m n h; omega
  | succ fuel ih =>
    intro m n h
    unfold Lib.gcdHelper
    by_cases hm : m = 0
    · subst hm; simp
    · have : ¬ ((m : Int) = 0) := by omega
      rw [if_neg this, Int.fmod_eq_emod_of_nonneg _ (by omega), ← Int.natCast_mod]
      have hlt : n % m < m := Nat.mod_lt _ (by omega)
      rw [ih (n % m) m (by omega), Nat.gcd_rec m n]

theorem gcd_spec (a b : Int) : Lib.gcd a b = some ((Int.gcd a b : Nat) : Int) := by
  unfold Lib.gcd
  simp only [abs_eq]
  have e : Int.gcd a b = Nat.gcd a.natAbs b.natAbs := rfl
  split
  · rw [Int.toNat_natCast, helper_spec _ _ _ (by omega), e]
  · rw [Int.toNat_natCast, helper_spec _ _ _ (by omega), e, Nat.gcd_comm]

theorem lcm_spec (a b : Int) : Lib.lcm a b = some ((Int.lcm a b : Nat) : Int) := by
  unfold Lib.lcm
  rw [gcd_spec]
  simp only [abs_eq]
  have e : Int.lcm a b = Nat.lcm a.natAbs b.natAbs := rfl
  have eg : Int.gcd a b = Nat.gcd a.natAbs b.natAbs := rfl
  rw [e, eg]
  by_cases hg : Nat.gcd a.natAbs b.natAbs = 0
  · have := Nat.gcd_eq_zero_iff.mp hg
    rw [hg, this.1, this.2]; simp
  · have hg' : ¬ (((Nat.gcd a.natAbs b.natAbs : Nat) : Int) = 0) := by omega
    rw [if_neg hg', Int.fdiv_eq_ediv_of_nonneg _ (by omega), ← Int.natCast_div, ← Int.natCast_mul]
    congr 2
    unfold Nat.lcm
    exact Nat.div_mul_right_comm (Nat.gcd_dvd_left _ _) _

/-! ### factorial -/

theorem range_down_fold : ∀ (fuel k : Nat) (acc : Int), k < fuel →
    (Lib.rangeList fuel (k : Int) 0 (-1)).foldl (fun acc x => acc * x) acc = acc * (k.factorial : Nat) := by
  intro fuel
  induction fuel with
  | zero => intro k acc h; omega
  | succ fuel ih =>
    intro k acc h
    unfold Lib.rangeList
    cases k with
    | zero => simp
    | succ k =>
      have hc : ((0 : Int) < -1 ∧ ((k + 1 : Nat) : Int) < 0) ∨ ((-1 : Int) < 0 ∧ (0 : Int) < ((k + 1 : Nat) : Int)) := by
        right; omega
      rw [if_pos hc, List.foldl_cons]
      have e : ((k + 1 : Nat) : Int) + -1 = (k : Int) := by omega
      rw [e, ih k _ (by omega), Nat.factorial_succ]
      push_cast
      rw [Int.mul_assoc]

theorem factorial_spec (n : Nat) (hn : (n : Int) ≤ 9223372036854775807) :
    Lib.factorial n 1 = .ok ((n.factorial : Nat) : Int) := by
  unfold Lib.factorial Lib.range Lib.rangeGuard
  have h1 : fits (n : Int) = true := by rw [fits_iff]; omega
  have h2 : fits 0 = true := by decide
  have h3 : fits (-1) = true := by decide
  rw [if_neg (by omega)]
  simp only [h1, h2, h3, Bool.not_true, Bool.false_eq_true, if_false]
  rw [if_neg (by decide)]
  simp only []
  have := range_down_fold ((0 - (n : Int)).natAbs + 1) n 1 (by omega)
  rw [this, Int.one_mul]

theorem factorial_negative (n step : Int) (hn : n < 0) :
    Lib.factorial n step = .error "cannot get factorial of negative number" := by
  unfold Lib.factorial; rw [if_pos hn]

/-! ### bisect, floor_root, ceil_root -/

/-- `bisect` on a slice `lo … lo+len-1` with a total predicate that is monotone on the slice
(true on an initial segment): the result is `offset + k`, `k` the length of that segment -/
theorem bisect_spec (q : Int → Bool) : ∀ (fuel : Nat) (lo : Int) (len : Nat) (offset : Int), len < fuel →
    (∀ x y : Int, lo ≤ x → x ≤ y → y < lo + len → q y = true → q x = true) →
    ∃ k : Nat, k ≤ len ∧ Lib.bisectHelper (fun x => .ok (q x)) fuel lo len offset = some (.ok (offset + k)) ∧
      (∀ x : Int, lo ≤ x → x < lo + k → q x = true) ∧ (k < len → q (lo + k) = false) := by
  intro fuel
  induction fuel with
  | zero => intro lo len offset h; omega
  | succ fuel ih =>
    intro lo len offset hlen hmono
    unfold Lib.bisectHelper
    by_cases h0 : len = 0
    · subst h0
      refine ⟨0, Nat.le_refl _, by simp, fun x h1 h2 => by omega, fun h => by omega⟩
    · have hmid : len / 2 < len := Nat.div_lt_self (by omega) (by decide)
      have hne : ¬ (len / 2 = len) := by omega
      simp only [hne, if_false]
      cases hq : q (lo + ((len / 2 : Nat) : Int)) with
      | true =>
        simp only []
        obtain ⟨k, hk, hb, hall, hstop⟩ := ih (lo + ((len / 2 : Nat) : Int) + 1) (len - (len / 2 + 1))
          (offset + ((len / 2 : Nat) : Int) + 1) (by omega)
          (fun x y h1 h2 h3 => hmono x y (by omega) h2 (by omega))
        refine ⟨len / 2 + 1 + k, by omega, ?_, ?_, ?_⟩
        · rw [hb]; congr 2; push_cast; omega
        · intro x h1 h2
          by_cases hx : x ≤ lo + ((len / 2 : Nat) : Int)
          · exact hmono x _ h1 hx (by omega) hq
          · exact hall x (by omega) (by push_cast at h2; omega)
        · intro h
          have := hstop (by omega)
          rw [← this]; congr 1; push_cast; omega
      | false =>
        simp only []
        obtain ⟨k, hk, hb, hall, hstop⟩ := ih lo (len / 2) offset (by omega)
          (fun x y h1 h2 h3 => hmono x y h1 h2 (by omega))
        refine ⟨k, by omega, hb, hall, ?_⟩
        intro _
        by_cases hk2 : k < len / 2
        · exact hstop hk2
        · have : k = len / 2 := by omega
          rw [this]; exact hq

theorem pow_le_mono (b : Nat) (x y : Int) (hx : 0 ≤ x) (hxy : x ≤ y) : x ^ b ≤ y ^ b := by
  induction b with
  | zero => simp
  | succ b ih =>
    rw [Int.pow_succ, Int.pow_succ]
    have h1 : 0 ≤ x ^ b := Int.pow_nonneg hx
    have h2 : 0 ≤ y := by omega
    nlinarith

theorem self_lt_succ_pow (a : Int) (b : Nat) (ha : 0 ≤ a) (hb : 1 ≤ b) : a < (a + 1) ^ b := by
  obtain ⟨c, rfl⟩ : ∃ c, b = c + 1 := ⟨b - 1, by omega⟩
  rw [Int.pow_succ]
  have : 1 ≤ (a + 1) ^ c := by
    have := pow_le_mono c 1 (a + 1) (by omega) (by omega)
    simpa using this
  nlinarith

/-- `floor_root(a, b)` for `a ≥ 0` (below the `range` limit) and `b ≥ 1` is the integer `b`-th root rounded down -/
theorem floorRoot_spec (a b : Int) (ha : 0 ≤ a) (ha' : a + 1 ≤ 9223372036854775807) (hb : 1 ≤ b) :
    ∃ r : Int, Lib.floorRoot a b = some (.ok r) ∧ 0 ≤ r ∧ r ^ b.toNat ≤ a ∧ a < (r + 1) ^ b.toNat := by
  unfold Lib.floorRoot Lib.rangeGuard
  have h1 : fits 1 = true := by decide
  have h2 : fits (a + 1) = true := by rw [fits_iff]; omega
  rw [if_neg (by omega)]
  simp only [h1, h2, Bool.not_true, Bool.false_eq_true, if_false]
  rw [if_neg (by decide)]
  simp only []
  have hp : Lib.rootPred a b = (fun x => Except.ok (decide (x ^ b.toNat ≤ a)) : Int → Except String Bool) := by
    funext x
    unfold Lib.rootPred Lib.pow
    rw [if_neg (by omega), if_neg (by omega)]
  rw [hp]
  obtain ⟨k, hk, hbis, hall, hstop⟩ := bisect_spec (fun x => decide (x ^ b.toNat ≤ a)) (a.toNat + 1) 1 a.toNat 0
    (by omega) (by
      intro x y h1 h2 _ hy
      simp only [decide_eq_true_eq] at *
      exact Int.le_trans (pow_le_mono _ x y (by omega) h2) hy)
  refine ⟨k, by rw [hbis]; simp, by omega, ?_, ?_⟩
  · by_cases hk0 : k = 0
    · subst hk0
      have : (0 : Int) ^ b.toNat = 0 := Int.zero_pow (by omega)
      simp only [Int.natCast_zero] at *
      rw [this]; exact ha
    · have := hall k (by omega) (by omega)
      simpa using this
  · by_cases hka : k < a.toNat
    · have := hstop hka
      simp only [decide_eq_false_iff_not, Int.not_le] at this
      rw [Int.add_comm]; exact this
    · have : (k : Int) = a := by omega
      rw [this]; exact self_lt_succ_pow a b.toNat ha (by omega)

/-- `ceil_root(a, b)` for `a ≥ 1`, `b ≥ 1` is the integer `b`-th root rounded up -/
theorem ceilRoot_spec (a b : Int) (ha : 1 ≤ a) (ha' : a ≤ 9223372036854775807) (hb : 1 ≤ b) :
    ∃ r : Int, Lib.ceilRoot a b = some (.ok r) ∧ 1 ≤ r ∧ (r - 1) ^ b.toNat < a ∧ a ≤ r ^ b.toNat := by
  obtain ⟨f, hf, h0, h1, h2⟩ := floorRoot_spec (a - 1) b (by omega) (by omega) hb
  refine ⟨1 + f, ?_, by omega, ?_, ?_⟩
  · unfold Lib.ceilRoot; rw [if_neg (by omega), hf]
  · have : 1 + f - 1 = f := by omega
    rw [this]; omega
  · rw [Int.add_comm]; omega

end XrayModel.LibP
