/- step-count lemmas about the generator step machine (C10) -/
import XrayProofs.Gen
namespace XrayModel.Gen

/-- iterators without an internal loop: every step yields or ends -/
inductive Prod : It → Prop
  | arr (xs) : Prod (.arr xs)
  | count (i f) : Prod (.count i f)
  | succ (c f) : Prod (.succ c f)
  | map {it} (f) : Prod it → Prod (.map it f)
  | takeWhile {it} (p) : Prod it → Prod (.takeWhile it p)
  | aggregate {it} (st f first) : Prod it → Prod (.aggregate it st f first)
  | withCount {it} (eq seen) : Prod it → Prod (.withCount it eq seen)
  | budget {it} (perm) : Prod it → Prod (.budget it perm)

def stepGood : Out → Prop
  | .done => True
  | .yield _ s => Prod s
  | .skip _ => False

theorem prod_stepGood (L : Option Nat) {it : It} (h : Prod it) : stepGood (step L it) := by
  induction h with
  | arr xs => cases xs <;> simp [step, stepGood, Prod.arr]
  | count i f => simp only [step]; exact Prod.count _ _
  | succ c f => cases c <;> simp [step, stepGood, Prod.succ]
  | map f _ ih =>
    rw [step_map]
    cases h : step L _ <;> simp_all [stepGood]
    exact Prod.map f ih
  | takeWhile p _ ih =>
    rw [step]
    cases h : step L _ with
    | done => simp [stepGood]
    | skip s => simp [h, stepGood] at ih
    | «yield» x s =>
      simp only [h, stepGood] at ih
      have hs := Prod.takeWhile p ih
      cases x with
      | viol => exact hs
      | err => dsimp only; generalize p Item.err = r; cases r <;> simp [stepGood, hs]
      | val v => dsimp only; generalize p (Item.val v) = r; cases r <;> simp [stepGood, hs]
  | aggregate st f first hp ih =>
    rw [step]
    cases first with
    | true => simp only [↓reduceIte, stepGood]; exact Prod.aggregate _ _ _ hp
    | false =>
      simp only [Bool.false_eq_true, ↓reduceIte]
      cases h : step L _ with
      | done => simp [stepGood]
      | skip s => simp [h, stepGood] at ih
      | «yield» x s =>
        simp only [h, stepGood] at ih
        cases x with
        | viol => exact Prod.aggregate _ _ _ ih
        | err =>
          dsimp only; generalize f st Item.err = r
          cases r <;> simp [stepGood, Prod.aggregate _ _ _ ih]
        | val v =>
          dsimp only; generalize f st (Item.val v) = r
          cases r <;> simp [stepGood, Prod.aggregate _ _ _ ih]
  | withCount eq seen _ ih =>
    rw [step]
    cases h : step L _ with
    | done => simp [stepGood]
    | skip s => simp [h, stepGood] at ih
    | «yield» x s =>
      simp only [h, stepGood] at ih
      cases x <;> simp [stepGood, Prod.withCount _ _ ih]
  | budget perm _ ih =>
    rw [step]
    cases h : step L _ with
    | done => simp [stepGood]
    | skip s => simp [h, stepGood] at ih
    | «yield» x s =>
      simp only [h, stepGood] at ih
      generalize perm.next = r
      obtain ⟨t, q⟩ := r
      cases t <;> simp [stepGood, Prod.budget _ ih]

theorem prod_step (L : Option Nat) {it : It} (h : Prod it) :
    step L it = .done ∨ ∃ x s, step L it = .yield x s ∧ Prod s := by
  have := prod_stepGood L h
  cases hs : step L it with
  | done => exact Or.inl rfl
  | skip s => simp [hs, stepGood] at this
  | «yield» x s => simp only [hs, stepGood] at this; exact Or.inr ⟨x, s, rfl, this⟩

/-- the number of `Ok` permits still to come, plus one for the violation -/
def Permits.bound : Permits → Nat
  | .left k => k + 1
  | _ => 0

theorem filter_next_bounded_aux (L : Option Nat) (p : P) :
    ∀ (b : Nat) (perm : Permits) (it : It), perm ≠ .unlimited → perm.bound ≤ b → Prod it →
      next L (b + 1) (.filter it p perm) ≠ .outOfFuel := by
  intro b
  induction b with
  | zero =>
    intro perm it hu hb hp
    simp only [next]
    rw [step]
    rcases prod_step L hp with h | ⟨x, s, h, _⟩
    · simp [h]
    · simp only [h]
      cases perm with
      | unlimited => exact absurd rfl hu
      | left k => simp [Permits.bound] at hb
      | dead => simp [Permits.next]
  | succ b ih =>
    intro perm it hu hb hp
    rw [next]
    rw [step]
    rcases prod_step L hp with h | ⟨x, s, h, hs⟩
    · simp [h]
    · simp only [h]
      cases perm with
      | unlimited => exact absurd rfl hu
      | dead => simp [Permits.next]
      | left k =>
        cases k with
        | zero => simp [Permits.next]
        | succ k =>
          simp only [Permits.next]
          have hk : (Permits.left k).bound ≤ b := by simp [Permits.bound] at hb ⊢; omega
          have := ih (.left k) s (by simp) hk hs
          cases x with
          | viol => simp
          | err => dsimp only; generalize p Item.err = r; cases r <;> simp [this]
          | val v => dsimp only; generalize p (Item.val v) = r; cases r <;> simp [this]

theorem skipUntil_next_bounded_aux (L : Option Nat) (p : P) (found : Bool) :
    ∀ (b : Nat) (perm : Permits) (it : It), perm ≠ .unlimited → perm.bound ≤ b → Prod it →
      next L (b + 1) (.skipUntil it p found perm) ≠ .outOfFuel := by
  intro b
  induction b with
  | zero =>
    intro perm it hu hb hp
    simp only [next]
    rw [step]
    rcases prod_step L hp with h | ⟨x, s, h, _⟩
    · simp [h]
    · simp only [h]
      cases found with
      | true => simp
      | false =>
        cases perm with
        | unlimited => exact absurd rfl hu
        | left k => simp [Permits.bound] at hb
        | dead => simp [Permits.next]
  | succ b ih =>
    intro perm it hu hb hp
    rw [next]
    rw [step]
    rcases prod_step L hp with h | ⟨x, s, h, hs⟩
    · simp [h]
    · simp only [h]
      cases found with
      | true => simp
      | false =>
        simp only [Bool.false_eq_true, ↓reduceIte]
        cases perm with
        | unlimited => exact absurd rfl hu
        | dead => simp [Permits.next]
        | left k =>
          cases k with
          | zero => simp [Permits.next]
          | succ k =>
            simp only [Permits.next]
            have hk : (Permits.left k).bound ≤ b := by simp [Permits.bound] at hb ⊢; omega
            have := ih (.left k) s (by simp) hk hs
            cases x with
            | viol => simp
            | err => dsimp only; generalize p Item.err = r; cases r <;> simp [this]
            | val v => dsimp only; generalize p (Item.val v) = r; cases r <;> simp [this]

/-- discarding is bounded by the number of elements still to discard … -/
theorem slice_next_bounded_skip (L : Option Nat) :
    ∀ (a : Nat) (perm : Permits) (t : Option Nat) (it : It), Prod it →
      next L (a + 1) (.slice it a perm t) ≠ .outOfFuel := by
  intro a
  induction a with
  | zero =>
    intro perm t it hp
    simp only [next]
    by_cases ht : t = some 0
    · subst ht; rw [step]; simp
    · rw [step]
      rotate_left
      · intro h; exact ht h
      rcases prod_step L hp with h | ⟨x, s, h, _⟩ <;> simp [h]
  | succ a ih =>
    intro perm t it hp
    rw [next]
    by_cases ht : t = some 0
    · subst ht; rw [step]; simp
    · rw [step]
      rotate_left
      · intro h; exact ht h
      rcases prod_step L hp with h | ⟨x, s, h, hs⟩
      · simp [h]
      · simp only [h]
        generalize hr : perm.next = r
        obtain ⟨tk, q⟩ := r
        cases tk with
        | ok =>
          cases x with
          | viol => simp
          | err => simpa using ih q t s hs
          | val v => simpa using ih q t s hs
        | viol => simp
        | none => simp

/-- … and by the permits, however large the count is -/
theorem slice_next_bounded_permits (L : Option Nat) :
    ∀ (b : Nat) (perm : Permits) (a : Nat) (t : Option Nat) (it : It), perm ≠ .unlimited → perm.bound ≤ b → Prod it →
      next L (b + 1) (.slice it a perm t) ≠ .outOfFuel := by
  intro b
  induction b with
  | zero =>
    intro perm a t it hu hb hp
    simp only [next]
    by_cases ht : t = some 0
    · subst ht; rw [step]; simp
    · rw [step]
      rotate_left
      · intro h; exact ht h
      rcases prod_step L hp with h | ⟨x, s, h, _⟩
      · simp [h]
      · simp only [h]
        cases a with
        | zero => simp
        | succ a =>
          cases perm with
          | unlimited => exact absurd rfl hu
          | left k => simp [Permits.bound] at hb
          | dead => simp [Permits.next]
  | succ b ih =>
    intro perm a t it hu hb hp
    rw [next]
    by_cases ht : t = some 0
    · subst ht; rw [step]; simp
    · rw [step]
      rotate_left
      · intro h; exact ht h
      rcases prod_step L hp with h | ⟨x, s, h, hs⟩
      · simp [h]
      · simp only [h]
        cases a with
        | zero => simp
        | succ a =>
          cases perm with
          | unlimited => exact absurd rfl hu
          | dead => simp [Permits.next]
          | left k =>
            cases k with
            | zero => simp [Permits.next]
            | succ k =>
              simp only [Permits.next]
              have hk : (Permits.left k).bound ≤ b := by simp [Permits.bound] at hb ⊢; omega
              have := ih (.left k) a t s (by simp) hk hs
              cases x <;> simp [this]

/-- a never-accepting filter without permits never answers -/
theorem filter_unlimited_diverges (L : Option Nat) :
    ∀ (n i : Nat), next L n (.filter (.count i none) (fun _ => .f) .unlimited) = .outOfFuel := by
  intro n
  induction n with
  | zero => intro i; rfl
  | succ n ih =>
    intro i
    rw [next, step]
    simp [step, Permits.next, ih]

/-- `repeat` restarts at most once between two answers: an empty pass ends it -/
theorem repeat_next_bounded (L : Option Nat) (g : G) (cur : It) (fresh : Bool)
    (hg : Prod (g.start L)) (hc : Prod cur) :
    next L 2 (.repeat_ g cur fresh) ≠ .outOfFuel := by
  simp only [next]
  rw [step]
  rcases prod_step L hc with h | ⟨x, s, h, _⟩
  · simp only [h]
    cases fresh with
    | true => simp
    | false =>
      simp only [Bool.false_eq_true, ↓reduceIte]
      rw [step]
      rcases prod_step L hg with h' | ⟨x, s, h', _⟩ <;> simp [h']
  · simp [h]

/-- switching parts costs one step per part -/
theorem chain_next_bounded (L : Option Nat) :
    ∀ (rest : List G) (cur : It), (∀ g ∈ rest, Prod (g.start L)) → Prod cur →
      next L (rest.length + 1) (.chain cur rest) ≠ .outOfFuel := by
  intro rest
  induction rest with
  | nil =>
    intro cur _ hc
    simp only [List.length_nil, next]
    rw [step_chain]
    rcases prod_step L hc with h | ⟨x, s, h, _⟩ <;> simp [h]
  | cons g r ih =>
    intro cur hr hc
    rw [List.length_cons, next, step_chain]
    rcases prod_step L hc with h | ⟨x, s, h, _⟩
    · simp only [h]
      exact ih (g.start L) (fun g' hg' => hr g' (by simp [hg'])) (hr g (by simp))
    · simp [h]

end XrayModel.Gen
