/- C01: step lemmas, part 2 (declarations, calls of function values, calls by name). -/
import XrayProofs.CoreTypingStep1
namespace XrayModel.CoreTyping
open XrayModel.Core

theorem DeclsOk.of_ext {fr fr1 : Frame} {Γ' : TyEnv} {r : Except Res Frame} (hs : fr1.self = fr.self) (hh : fr1.height = fr.height)
    (h : DeclsOk fr1 Γ' r) : DeclsOk fr Γ' r := by
  cases r with
  | ok fr' => simp only [DeclsOk] at h ⊢; exact ⟨h.1, h.2.1.trans hs, h.2.2.trans hh⟩
  | error x => simpa [DeclsOk] using h

theorem step_evalDecls {n : Nat} (ih : Inv n) : ∀ cfg fr ds st Γ Γ', FrameTy fr Γ → checkDecls Γ ds = some Γ' →
    DeclsOk fr Γ' (evalDecls (n+1) cfg fr (eraseDs ds) st).1 := by
  intro cfg fr ds st Γ Γ' hfr hc
  cases ds with
  | nil =>
    simp only [checkDecls, Option.some.injEq] at hc
    subst hc
    simp [eraseDs, evalDecls, DeclsOk]
    exact hfr
  | cons d ds =>
    cases d with
    | letD x ann e =>
      simp only [checkDecls] at hc
      split at hc
      · cases hc
      · rename_i τ he
        have ihe := ih.eval cfg fr e false st Γ τ hfr he
        simp only [eraseDs, eraseD, evalDecls]
        split
        · rename_i v st' heq
          rw [heq] at ihe
          simp only [ResOk] at ihe
          cases ann with
          | none =>
            simp only at hc
            refine DeclsOk.of_ext rfl rfl (ih.evalDecls cfg _ ds st' _ Γ' ?_ hc)
            exact .cons ihe hfr
          | some α =>
            simp only at hc
            split at hc
            · rename_i hsub
              refine DeclsOk.of_ext rfl rfl (ih.evalDecls cfg _ ds st' _ Γ' ?_ hc)
              exact .cons (HasTy.mono _ _ hsub ihe) hfr
            · cases hc
        · rename_i a st' heq
          rw [heq] at ihe
          simp [ResOk] at ihe
        · rename_i r st' h1 h2 heq
          rw [heq] at ihe
          cases r <;> simp_all [ResOk, DeclsOk, ErrOk]
    | fnD f =>
      obtain ⟨name, ps, ret, dd, body⟩ := f
      cases name with
      | none => simp [checkDecls] at hc
      | some nm =>
        simp only [checkDecls] at hc
        split at hc
        · rename_i σ hf
          have ihm := ih.mkClos cfg fr (.mk (some nm) ps ret dd body) st Γ σ hfr hf
          simp only [eraseDs, eraseD, evalDecls]
          split
          · rename_i c st' heq
            rw [heq] at ihm
            simp only [ValOk] at ihm
            simp only [eraseF, Func.name]
            refine DeclsOk.of_ext rfl rfl (ih.evalDecls cfg _ ds st' _ Γ' ?_ hc)
            exact .cons ihm hfr
          · rename_i a st' heq
            rw [heq] at ihm
            simp [ValOk] at ihm
          · rename_i r st' h1 h2 heq
            rw [heq] at ihm
            cases r <;> simp_all [ValOk, DeclsOk, ErrOk]
        · cases hc


theorem firstErr_some {vs : List Val} {e : Val} (h : firstErr vs = some e) : ∃ m, e = .err m := by
  induction vs with
  | nil => simp [firstErr] at h
  | cons v vs ihv =>
    simp only [firstErr] at h
    split at h
    · simp only [Option.some.injEq] at h
      subst h
      rename_i hv
      cases v <;> simp_all [Val.isErr]
    · exact ihv h

theorem step_callVal {n : Nat} (ih : Inv n) : ∀ cfg fr c args tail st Γ req opt ret ats, FrameTy fr Γ → HasTy c (.fn req opt ret) →
    checkList Γ args = some ats → checkArgs req opt ats = true →
    ValOk ret (callVal (n+1) cfg fr c (eraseEs args) tail st).1 := by
  intro cfg fr c args tail st Γ req opt ret ats hfr hc hl hca
  cases hc with
  | err m => simp [callVal, ValOk]; exact .err _ _
  | @clos env Γc tf f dflts _ _ _ henv hchk her hd =>
    have ihl := ih.evalList cfg fr args st Γ ats hfr hl
    simp only [callVal]
    generalize evalList n cfg fr (eraseEs args) st = r at ihl ⊢
    obtain ⟨r1, r2⟩ := r
    cases r1 with
    | ok vs =>
      simp only [ListOk] at ihl
      exact ih.callUser cfg fr.height f dflts env vs r2 req opt ret (.clos henv hchk her hd) ⟨ats, ihl.1, hca⟩
    | error x => simpa [ListOk] using ErrOk.valOk ihl

theorem step_callUser {n : Nat} (ih : Inv n) : ∀ cfg h f dflts env args st req opt ret,
    HasTy (.clos f dflts env) (.fn req opt ret) → ArgsTy args req opt →
    ValOk ret (callUser (n+1) cfg h (.clos f dflts env) args st).1 := by
  intro cfg h f dflts env args st req opt ret hc ha
  simp only [callUser]
  split
  · rename_i e he
    obtain ⟨m, rfl⟩ := firstErr_some he
    simp [ValOk]; exact .err _ _
  · split
    · rename_i l hl
      split
      · simp [ValOk]
      · exact ih.tramp cfg h f dflts env args 0 _ req opt ret hc ha
    · exact ih.tramp cfg h f dflts env args 0 _ req opt ret hc ha

theorem step_callNamed {n : Nat} (ih : Inv n) : ∀ cfg fr f args tail st Γ τ, FrameTy fr Γ → check Γ (.call f args) = some τ →
    ResOk Γ fr tail τ (callNamed (n+1) cfg fr f (eraseEs args) tail st).1 := by
  intro cfg fr f args tail st Γ τ hfr hc
  simp only [check] at hc
  split at hc
  · cases hc
  · rename_i ats hl
    simp only [callNamed, Frame.get_eq]
    rcases lookup_envTy fr.eff Γ f hfr with ⟨h1, h2⟩ | ⟨v, t, h1, h2, hv⟩
    · rw [h1]
      rw [h2] at hc
      exact ih.builtin cfg fr f args tail st Γ ats τ hfr hl hc
    · rw [h1]
      rw [h2] at hc
      simp only
      split at hc
      · rename_i req opt ret heq
        simp only [Option.some.injEq] at heq
        subst heq
        split at hc
        · rename_i hca
          simp only [Option.some.injEq] at hc
          subst hc
          exact (ih.callVal cfg fr v args tail st Γ req opt _ ats hfr hv hl hca).resOk
        · cases hc
      · cases hc
      · rename_i hno
        simp at hno

end XrayModel.CoreTyping
