/-
C20 helper lemmas for the calendar conversions: the generated `date` / `julian_day` agree with the `Nat` mirror on
the base period; both are periodic with the 400-year Gregorian period (146 097 days); the base period is checked
by kernel evaluation in the chunk modules.
-/
import Generated.StdInt
import XrayModel.Conv
import XrayProofs.ConvNat
import XrayProofs.ConvChunks
namespace XrayModel.Conv
open XrayGen XrayModel.ConvNat

theorem fdiv_lit (a : Int) (b : Int) (h : 0 ≤ b) : Int.fdiv a b = a / b := Int.fdiv_eq_ediv_of_nonneg a h
theorem fmod_lit (a : Int) (b : Int) (h : 0 ≤ b) : Int.fmod a b = a % b := Int.fmod_eq_emod_of_nonneg a h

/-- floored division / remainder by the positive literals of the calendar code are `/` and `%` -/
macro "lit_norm" : tactic =>
  `(tactic| simp only [fdiv_lit _ _ (by decide : (0:Int) ≤ 146097), fdiv_lit _ _ (by decide : (0:Int) ≤ 4),
    fdiv_lit _ _ (by decide : (0:Int) ≤ 1461), fdiv_lit _ _ (by decide : (0:Int) ≤ 153), fdiv_lit _ _ (by decide : (0:Int) ≤ 5),
    fdiv_lit _ _ (by decide : (0:Int) ≤ 12), fdiv_lit _ _ (by decide : (0:Int) ≤ 100), fdiv_lit _ _ (by decide : (0:Int) ≤ 400),
    fmod_lit _ _ (by decide : (0:Int) ≤ 1461), fmod_lit _ _ (by decide : (0:Int) ≤ 153),
    fmod_lit _ _ (by decide : (0:Int) ≤ 12), fmod_lit _ _ (by decide : (0:Int) ≤ 7)])

def ofN (d : DateN) : Date := ⟨d.year, d.month, d.day⟩

/-! ### the generated definitions agree with the mirror -/

theorem date_ofNat (n : Nat) (h : 1721120 ≤ n) : date (n : Int) = ofN (dateN n) := by
  unfold date dateN ofN
  simp only [Date.mk.injEq]
  lit_norm
  have hx : ((4 * (n:Int) + 274277) / 146097 * 3 / 4) = (((4 * n + 274277) / 146097 * 3 / 4 : Nat) : Int) := by omega
  have hx2 : 36 ≤ (4 * n + 274277) / 146097 * 3 / 4 := by omega
  rw [hx]
  generalize ((4 * n + 274277) / 146097 * 3 / 4 : Nat) = x at *
  have hf : ((n:Int) + 1401 + (x:Int) - 38) = ((n + 1363 + x : Nat) : Int) := by omega
  rw [hf]
  have hf2 : 1722519 ≤ n + 1363 + x := by omega
  generalize (n + 1363 + x : Nat) = f at *
  have he : (4 * (f:Int) + 3) = ((4 * f + 3 : Nat) : Int) := by omega
  rw [he]
  have he2 : 4716 * 1461 ≤ 4 * f + 3 := by omega
  generalize (4 * f + 3 : Nat) = e at *
  have hg : ((e:Int) % 1461 / 4) = ((e % 1461 / 4 : Nat) : Int) := by omega
  rw [hg]
  generalize (e % 1461 / 4 : Nat) = g
  have hh : (5 * (g:Int) + 2) = ((5 * g + 2 : Nat) : Int) := by omega
  rw [hh]
  generalize (5 * g + 2 : Nat) = hh
  have hm : (((hh:Int) / 153 + 2) % 12 + 1) = (((hh / 153 + 2) % 12 + 1 : Nat) : Int) := by omega
  rw [hm]
  have hm2 : 1 ≤ (hh / 153 + 2) % 12 + 1 ∧ (hh / 153 + 2) % 12 + 1 ≤ 12 := by omega
  generalize ((hh / 153 + 2) % 12 + 1 : Nat) = mo at *
  refine ⟨?_, rfl, ?_⟩ <;> omega

theorem jd_ofNat (d : DateN) (h1 : 1 ≤ d.month) (h2 : d.month ≤ 12) :
    julian_day (ofN d) = (jdN d : Int) := by
  obtain ⟨Y, M, D⟩ := d
  unfold julian_day jdN ofN
  simp only [] at *
  lit_norm
  have ha : (14 - (M:Int)) / 12 = (((14 - M) / 12 : Nat) : Int) := by omega
  have ha2 : (14 - M) / 12 ≤ 1 ∧ 3 ≤ M + 12 * ((14 - M) / 12) := by omega
  rw [ha]
  generalize ((14 - M) / 12 : Nat) = a at *
  have hy : ((Y:Int) + 4800 - (a:Int)) = ((Y + 4800 - a : Nat) : Int) := by omega
  rw [hy]
  have hy2 : 4799 ≤ Y + 4800 - a := by omega
  generalize (Y + 4800 - a : Nat) = y at *
  have hm : ((M:Int) + 12 * (a:Int) - 3) = ((M + 12 * a - 3 : Nat) : Int) := by omega
  rw [hm]
  generalize (M + 12 * a - 3 : Nat) = m
  omega

/-! ### 400-year periodicity -/

theorem date_shift (jd : Int) :
    date (jd + 146097) = ⟨(date jd).year + 400, (date jd).month, (date jd).day⟩ := by
  simp only [date]
  lit_norm
  have h1 : (4 * (jd + 146097) + 274277) / 146097 = (4 * jd + 274277) / 146097 + 4 := by omega
  rw [h1]
  have h2 : ((4 * jd + 274277) / 146097 + 4) * 3 / 4 = (4 * jd + 274277) / 146097 * 3 / 4 + 3 := by omega
  rw [h2]
  generalize (4 * jd + 274277) / 146097 * 3 / 4 = q
  have h3 : (4 * (jd + 146097 + 1401 + (q + 3) - 38) + 3) = (4 * (jd + 1401 + q - 38) + 3) + 400 * 1461 := by omega
  rw [h3]
  generalize (4 * (jd + 1401 + q - 38) + 3) = e
  have h4 : (e + 400 * 1461) % 1461 = e % 1461 := by omega
  have h5 : (e + 400 * 1461) / 1461 = e / 1461 + 400 := by omega
  rw [h4, h5]
  congr 1
  omega

theorem jd_shift (y m d : Int) : julian_day ⟨y + 400, m, d⟩ = julian_day ⟨y, m, d⟩ + 146097 := by
  simp only [julian_day]
  lit_norm
  generalize (14 - m) / 12 = a
  have h : y + 400 + 4800 - a = (y + 4800 - a) + 400 := by omega
  rw [h]
  generalize y + 4800 - a = z
  omega

theorem isLeap_shift (y : Int) : isLeap (y + 400) ↔ isLeap y := by
  unfold isLeap; omega

theorem dim_shift (y m : Int) : daysInMonth (y + 400) m = daysInMonth y m := by
  unfold daysInMonth
  simp only [isLeap_shift]

theorem valid_shift (y m d : Int) : validYMD (y + 400) m d ↔ validYMD y m d := by
  unfold validYMD; rw [dim_shift]

theorem next_shift (y m d : Int) :
    nextYMD (y + 400) m d = ((nextYMD y m d).1 + 400, (nextYMD y m d).2.1, (nextYMD y m d).2.2) := by
  unfold nextYMD; rw [dim_shift]
  split
  · rfl
  · split
    · rfl
    · simp only [Prod.mk.injEq, and_true]; omega

/-! ### from one period to all integers -/

theorem periodic_all (P : Int → Prop) (T B : Int) (hT : 0 < T) (hstep : ∀ x, P x ↔ P (x + T))
    (hbase : ∀ x, B ≤ x → x < B + T → P x) : ∀ x, P x := by
  have keyN : ∀ (n : Nat) (r : Int), P r ↔ P (r + T * (n : Int)) := by
    intro n
    induction n with
    | zero => intro r; simp
    | succ i ih =>
      intro r
      rw [ih r, hstep (r + T * (i : Int))]
      have : r + T * (i : Int) + T = r + T * ((i + 1 : Nat) : Int) := by
        rw [Int.natCast_succ, Int.mul_add]; omega
      rw [this]
  have key : ∀ (k : Int) (r : Int), P r ↔ P (r + T * k) := by
    intro k r
    rcases Int.eq_nat_or_neg k with ⟨n, hn | hn⟩
    · subst hn; exact keyN n r
    · subst hn
      have h := keyN n (r + T * (-(n : Int)))
      have e : r + T * (-(n : Int)) + T * (n : Int) = r := by
        rw [Int.mul_neg]; omega
      rw [e] at h
      exact h.symm
  intro x
  have hr := hbase (B + (x - B) % T) (by have := Int.emod_nonneg (x - B) (Int.ne_of_gt hT); omega)
    (by have := Int.emod_lt_of_pos (x - B) hT; omega)
  have hx : x = (B + (x - B) % T) + T * ((x - B) / T) := by
    have := Int.emod_add_mul_ediv (x - B) T; omega
  rw [hx]
  exact (key _ _).mp hr

/-! ### bridging the calendar specification -/

theorem isLeapN_iff (y : Nat) : isLeapN y = true ↔ isLeap (y : Int) := by
  simp only [isLeapN, isLeap, Bool.and_eq_true, Bool.or_eq_true, Bool.not_eq_true', nbeq]
  constructor
  · rintro ⟨h1, h2⟩
    refine ⟨by omega, ?_⟩
    rcases h2 with h2 | h2
    · left
      have : Nat.beq (y % 100) 0 ≠ true := by simp [h2]
      rw [Ne, nbeq] at this
      omega
    · right; omega
  · rintro ⟨h1, h2⟩
    refine ⟨by omega, ?_⟩
    rcases h2 with h2 | h2
    · left
      cases hb : Nat.beq (y % 100) 0 with
      | false => rfl
      | true => rw [nbeq] at hb; omega
    · right; omega

theorem dimN_eq (y m : Nat) : (dimN y m : Int) = daysInMonth (y : Int) (m : Int) := by
  unfold dimN daysInMonth
  by_cases h2 : m = 2
  · subst h2
    have : Nat.beq 2 2 = true := rfl
    simp only [this, cond_true]
    by_cases hl : isLeapN y = true
    · have hl' := (isLeapN_iff y).mp hl
      simp [hl, hl']
    · have hl' : ¬ isLeap (y : Int) := fun c => hl ((isLeapN_iff y).mpr c)
      simp only [Bool.not_eq_true] at hl
      simp [hl, hl']
  · have hb : Nat.beq m 2 = false := by
      cases hb : Nat.beq m 2 with
      | false => rfl
      | true => rw [nbeq] at hb; exact absurd hb h2
    have h2' : ¬ ((m : Int) = 2) := by omega
    simp only [hb, cond_false, h2', if_false]
    by_cases h30 : m = 4 ∨ m = 6 ∨ m = 9 ∨ m = 11
    · have hb2 : (Nat.beq m 4 || Nat.beq m 6 || Nat.beq m 9 || Nat.beq m 11) = true := by
        rcases h30 with h | h | h | h <;> subst h <;> rfl
      have h30' : (m : Int) = 4 ∨ (m : Int) = 6 ∨ (m : Int) = 9 ∨ (m : Int) = 11 := by omega
      simp [hb2, h30']
    · have hb2 : (Nat.beq m 4 || Nat.beq m 6 || Nat.beq m 9 || Nat.beq m 11) = false := by
        simp only [Bool.or_eq_false_iff]
        refine ⟨⟨⟨?_, ?_⟩, ?_⟩, ?_⟩ <;>
          (cases hb : Nat.beq m _ with
           | false => rfl
           | true => rw [nbeq] at hb; omega)
      have h30' : ¬ ((m : Int) = 4 ∨ (m : Int) = 6 ∨ (m : Int) = 9 ∨ (m : Int) = 11) := by omega
      simp [hb2, h30']

theorem validN_iff (d : DateN) : validN d = true ↔ validYMD d.year d.month d.day := by
  simp only [validN, validYMD, Bool.and_eq_true, Nat.ble_eq, ← dimN_eq]
  omega

theorem nextN_eq (d : DateN) :
    nextYMD d.year d.month d.day = (((nextN d).year : Int), ((nextN d).month : Int), ((nextN d).day : Int)) := by
  unfold nextYMD nextN
  rw [← dimN_eq]
  by_cases h1 : d.day < dimN d.year d.month
  · have hb : Nat.blt d.day (dimN d.year d.month) = true := by rw [Nat.blt_eq]; exact h1
    have h1' : (d.day : Int) < (dimN d.year d.month : Int) := by omega
    simp [hb, h1']
  · have hb : Nat.blt d.day (dimN d.year d.month) = false := by
      cases hb : Nat.blt d.day (dimN d.year d.month) with
      | false => rfl
      | true => rw [Nat.blt_eq] at hb; exact absurd hb h1
    have h1' : ¬ (d.day : Int) < (dimN d.year d.month : Int) := by omega
    by_cases h2 : d.month < 12
    · have hb2 : Nat.blt d.month 12 = true := by rw [Nat.blt_eq]; exact h2
      have h2' : (d.month : Int) < 12 := by omega
      simp [hb, h1', hb2, h2']
    · have hb2 : Nat.blt d.month 12 = false := by
        cases hb2 : Nat.blt d.month 12 with
        | false => rfl
        | true => rw [Nat.blt_eq] at hb2; exact absurd hb2 h2
      have h2' : ¬ (d.month : Int) < 12 := by omega
      simp [hb, h1', hb2, h2']


/-! ### the three facts for every Julian day -/

def ofT (t : Int × Int × Int) : Date := ⟨t.1, t.2.1, t.2.2⟩

/-- `d` is a date of the proleptic Gregorian calendar -/
def DateValid (d : Date) : Prop := validYMD d.year d.month d.day

instance (d : Date) : Decidable (DateValid d) := by unfold DateValid; infer_instance

/-- the calendar day after `d` -/
def DateNext (d : Date) : Date := ofT (nextYMD d.year d.month d.day)

def Good (jd : Int) : Prop :=
  julian_day (date jd) = jd ∧ DateValid (date jd) ∧ date (jd + 1) = DateNext (date jd)

theorem good_base (x : Int) (h1 : 1721120 ≤ x) (h2 : x < 1721120 + 146097) : Good x := by
  obtain ⟨r, rfl⟩ : ∃ r : Nat, x = (r : Int) := ⟨x.toNat, by omega⟩
  have hr1 : 1721120 ≤ r := by omega
  have hok := base_days r hr1 (by omega)
  simp only [okN, Bool.and_eq_true, nbeq] at hok
  obtain ⟨⟨hjd, hval⟩, hnext⟩ := hok
  have hv := (validN_iff (dateN r)).mp hval
  have hm : 1 ≤ (dateN r).month ∧ (dateN r).month ≤ 12 := by
    simp only [validN, Bool.and_eq_true, Nat.ble_eq] at hval; omega
  have hd := date_ofNat r hr1
  have hd1 : date ((r : Int) + 1) = ofN (dateN (r + 1)) := by
    have := date_ofNat (r + 1) (by omega)
    rw [← this]; congr 1
  refine ⟨?_, ?_, ?_⟩
  · rw [hd, jd_ofNat _ hm.1 hm.2, hjd]
  · rw [hd]; exact hv
  · rw [hd1, hd]
    have hn := beqD_eq _ _ hnext
    unfold DateNext ofT
    simp only [ofN]
    rw [nextN_eq (dateN r)]
    simp only [hn.1, hn.2.1, hn.2.2]

theorem good_shift (x : Int) : Good x ↔ Good (x + 146097) := by
  unfold Good DateValid DateNext ofT
  have e1 : x + 146097 + 1 = (x + 1) + 146097 := by omega
  have eta : ∀ d : Date, (⟨d.year, d.month, d.day⟩ : Date) = d := fun d => rfl
  rw [e1, date_shift x, date_shift (x + 1), jd_shift, valid_shift, next_shift]
  simp only [eta]
  constructor
  · rintro ⟨a, b, c⟩
    refine ⟨by omega, b, ?_⟩
    rw [c]
  · rintro ⟨a, b, c⟩
    refine ⟨by omega, b, ?_⟩
    have hy := congrArg Date.year c
    have hm := congrArg Date.month c
    have hd := congrArg Date.day c
    simp only at hy hm hd
    cases hdd : date (x + 1) with
    | mk yy mm dd =>
      rw [hdd] at hy hm hd
      simp only at hy hm hd
      congr 1 <;> omega

theorem good_all (jd : Int) : Good jd :=
  periodic_all Good 146097 1721120 (by decide) good_shift good_base jd

/-! ### date (julian_day d) = d for every valid date -/

def Back (y : Int) : Prop := ∀ m d : Int, validYMD y m d → date (julian_day ⟨y, m, d⟩) = ⟨y, m, d⟩

theorem jdN_lower (Y M D : Nat) (hY : 1 ≤ Y) (h1 : 1 ≤ M) (h2 : M ≤ 12) (hD : 1 ≤ D) : 1721120 ≤ jdN ⟨Y, M, D⟩ := by
  unfold jdN
  simp only []
  have ha2 : (14 - M) / 12 ≤ 1 ∧ 3 ≤ M + 12 * ((14 - M) / 12) := by omega
  generalize ((14 - M) / 12 : Nat) = a at *
  have hy2 : 4800 ≤ Y + 4800 - a := by omega
  generalize (Y + 4800 - a : Nat) = y at *
  generalize (M + 12 * a - 3 : Nat) = m
  have h4 : 1200 ≤ y / 4 := by omega
  omega

theorem back_base (x : Int) (h1 : 1 ≤ x) (h2 : x < 1 + 400) : Back x := by
  obtain ⟨Y, rfl⟩ : ∃ r : Nat, x = (r : Int) := ⟨x.toNat, by omega⟩
  intro m d hv
  have hv' := hv
  obtain ⟨hm1, hm2, hd1, hd2⟩ := hv'
  obtain ⟨M, rfl⟩ : ∃ r : Nat, m = (r : Int) := ⟨m.toNat, by omega⟩
  obtain ⟨D, rfl⟩ : ∃ r : Nat, d = (r : Int) := ⟨d.toNat, by omega⟩
  rw [← dimN_eq] at hd2
  have hok := okYear_spec Y M D (base_years Y (by omega) (by omega)) (by omega) (by omega) (by omega) (by omega)
  have hq := beqD_eq _ _ hok
  have e : (⟨(Y : Int), (M : Int), (D : Int)⟩ : Date) = ofN ⟨Y, M, D⟩ := rfl
  rw [e, jd_ofNat ⟨Y, M, D⟩ (by simp only []; omega) (by simp only []; omega),
    date_ofNat _ (jdN_lower Y M D (by omega) (by omega) (by omega) (by omega))]
  simp only [ofN, hq.1, hq.2.1, hq.2.2]

theorem back_shift (y : Int) : Back y ↔ Back (y + 400) := by
  unfold Back
  constructor
  · intro h m d hv
    rw [jd_shift, date_shift, h m d ((valid_shift y m d).mp hv)]
  · intro h m d hv
    have := h m d ((valid_shift y m d).mpr hv)
    rw [jd_shift, date_shift] at this
    have hy := congrArg Date.year this
    have hm := congrArg Date.month this
    have hd := congrArg Date.day this
    simp only at hy hm hd
    cases hdd : date (julian_day ⟨y, m, d⟩) with
    | mk yy mm dd =>
      rw [hdd] at hy hm hd
      simp only at hy hm hd
      congr 1 <;> omega

theorem back_all (y : Int) : Back y :=
  periodic_all Back 400 1 (by decide) back_shift back_base y

end XrayModel.Conv
