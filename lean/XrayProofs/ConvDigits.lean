/- C20 helper lemmas: the digit list produced by the `digits` loop (C14's mirror `IntB.digitsLoop` of int.rs) is canonical:
no leading zero, length determined by the magnitude -/
import XrayProofs.IntDigits
namespace XrayModel.Conv
open XrayModel LB

/-- `ds` is the canonical digit list of a number of magnitude `m` in base `B`: empty for 0, otherwise its last
(most significant) digit is non-zero and `B^(len-1) ≤ m < B^len` -/
def CanonLen (B m : Nat) (ds : List LB) : Prop :=
  (m = 0 → ds = []) ∧
  (m ≠ 0 → (∃ d, ds.getLast? = some d ∧ d.den ≠ 0) ∧ B ^ (ds.length - 1) ≤ m ∧ m < B ^ ds.length)

theorem loop_len (b : LB) (hb : b.wf) (hb2 : 2 ≤ b.den) :
    ∀ (fuel : Nat) (n : LB) (acc : List LB), n.wf → n.den.natAbs < fuel →
      ∃ ds, IntB.digitsLoop fuel n b acc = some (.ok (acc.reverse ++ ds)) ∧
        CanonLen b.den.natAbs n.den.natAbs ds := by
  intro fuel
  induction fuel with
  | zero => intro n acc _ h; omega
  | succ fuel ih =>
    intro n acc hn hf
    unfold IntB.digitsLoop
    by_cases hz : LB.isZero n = true
    · rw [if_pos hz]
      have h0 := (isZero_iff n hn).mp hz
      exact ⟨[], by simp, fun _ => rfl, fun h => absurd (by omega) h⟩
    · rw [if_neg hz]
      have h0 : n.den ≠ 0 := fun h => hz ((isZero_iff n hn).mpr h)
      have hb0 : b.den ≠ 0 := by omega
      obtain ⟨d, hd, hdw, hdd⟩ := Ops.rem_correct n b hn hb hb0
      obtain ⟨q, hq, hqw, hqd⟩ := Ops.div_correct n b hn hb hb0
      rw [hd, hq]; simp only []
      have hlt := Digits.tdiv_natAbs_lt n.den b.den h0 hb2
      obtain ⟨ds, hl, hc⟩ := ih q (d :: acc) hqw (by rw [hqd]; omega)
      refine ⟨d :: ds, by rw [hl]; simp, fun h => absurd h (by omega), fun _ => ?_⟩
      have hB : 2 ≤ b.den.natAbs := by omega
      have hqa : q.den.natAbs = n.den.natAbs / b.den.natAbs := by rw [hqd, Int.natAbs_tdiv]; rfl
      by_cases hq0 : q.den.natAbs = 0
      · -- a single digit
        have hds := hc.1 hq0
        subst hds
        have hsmall : n.den.natAbs < b.den.natAbs := by
          rw [hqa] at hq0
          exact (Nat.div_eq_zero_iff.mp hq0).resolve_left (by omega)
        have hdn : d.den = n.den := by
          rw [hdd]
          have hq' : n.den.tdiv b.den = 0 := by rw [← hqd]; omega
          have := Int.mul_tdiv_add_tmod n.den b.den
          rw [hq', Int.mul_zero] at this; omega
        refine ⟨⟨d, rfl, by rw [hdn]; exact h0⟩, ?_, ?_⟩
        · simp; omega
        · simpa using hsmall
      · obtain ⟨⟨l, hl1, hl2⟩, hlo, hhi⟩ := hc.2 hq0
        have hne : ds ≠ [] := by intro e; rw [e] at hl1; simp at hl1
        have hlen : 1 ≤ ds.length := by
          cases ds with
          | nil => exact absurd rfl hne
          | cons _ _ => simp
        refine ⟨⟨l, by rw [List.getLast?_cons_of_ne_nil hne]; exact hl1, hl2⟩, ?_, ?_⟩
        · simp only [List.length_cons, Nat.add_sub_cancel]
          have : b.den.natAbs ^ ds.length = b.den.natAbs ^ (ds.length - 1) * b.den.natAbs := by
            rw [← Nat.pow_succ]; congr 1; omega
          rw [this]
          rw [hqa] at hlo
          exact (Nat.le_div_iff_mul_le (by omega)).mp hlo
        · simp only [List.length_cons, Nat.pow_succ]
          rw [hqa] at hhi
          exact (Nat.div_lt_iff_lt_mul (by omega)).mp hhi

/-- `digits(n, b)` for `b ≥ 2`: succeeds, its Horner value is `n` (so the positional expansion reads back as `n`), and the
list is canonical -/
theorem digits_canon (n b : LB) (hn : n.wf) (hb : b.wf) (hb2 : 2 ≤ b.den) :
    ∃ ds, IntB.digits n b = .ints ds ∧ Digits.horner b.den (ds.map LB.den) = n.den ∧
      CanonLen b.den.natAbs n.den.natAbs ds := by
  obtain ⟨ds1, h1, _, hh, _⟩ := Digits.loop_spec b hb hb2 (n.den.natAbs + 1) n [] hn (by omega)
  obtain ⟨ds2, h2, hc⟩ := loop_len b hb hb2 (n.den.natAbs + 1) n [] hn (by omega)
  have e : ds1 = ds2 := by
    rw [h1] at h2
    simpa using h2
  subst e
  unfold IntB.digits
  have hlt : (LB.cmp b (short 2) == .lt) = false := by
    cases hcmp : (LB.cmp b (short 2) == .lt) with
    | false => rfl
    | true =>
      rw [Ops.cmp_spec b (short 2) hb (by decide), beq_iff_eq, Int.compare_eq_lt] at hcmp
      simp only [den_short] at hcmp; omega
  rw [hlt]; simp only [Bool.false_eq_true, if_false]
  rw [h1]
  exact ⟨ds1, by simp, hh, hc⟩

end XrayModel.Conv
