/-
Bitwise operations of the model (`iland`, `ilor`, `ilxor` in `XrayModel/LazyInt.lean`): they are the two's-complement
operations (bit by bit), commutative, and closed on the `i64` range.
-/
import XrayProofs.LazyInt
namespace XrayModel.Bits
open XrayModel LB

/-- bit `i` of the (infinite) two's-complement expansion -/
def tbit (x : Int) (i : Nat) : Bool :=
  match x with
  | .ofNat m => m.testBit i
  | .negSucc m => !m.testBit i

/-- the two's-complement bits determine the integer -/
theorem tbit_ext (a b : Int) (h : ∀ i, tbit a i = tbit b i) : a = b := by
  have hfalse : ∀ m n : Nat, ¬ (∀ i, tbit (.ofNat m) i = tbit (.negSucc n) i) := by
    intro m n h
    have h1 : m < 2 ^ (m + n) := Nat.lt_of_lt_of_le Nat.lt_two_pow_self (Nat.pow_le_pow_right (by decide) (by omega))
    have h2 : n < 2 ^ (m + n) := Nat.lt_of_lt_of_le Nat.lt_two_pow_self (Nat.pow_le_pow_right (by decide) (by omega))
    have := h (m + n)
    simp only [tbit, Nat.testBit_lt_two_pow h1, Nat.testBit_lt_two_pow h2] at this
    exact absurd this (by decide)
  cases a with
  | ofNat m =>
    cases b with
    | ofNat n => simp only [tbit] at h; rw [Nat.eq_of_testBit_eq h]
    | negSucc n => exact absurd h (hfalse m n)
  | negSucc m =>
    cases b with
    | ofNat n => exact absurd (fun i => (h i).symm) (hfalse n m)
    | negSucc n =>
      simp only [tbit] at h
      have : m = n := Nat.eq_of_testBit_eq (fun i => by have := h i; cases hm : m.testBit i <;> cases hn : n.testBit i <;> simp_all)
      rw [this]

theorem iland_tbit (a b : Int) (i : Nat) : tbit (iland a b) i = (tbit a i && tbit b i) := by
  cases a <;> cases b <;> simp only [iland, tbit, Nat.testBit_and, Nat.testBit_or, Nat.testBit_xor] <;>
    cases Nat.testBit _ i <;> cases Nat.testBit _ i <;> rfl

theorem ilor_tbit (a b : Int) (i : Nat) : tbit (ilor a b) i = (tbit a i || tbit b i) := by
  cases a <;> cases b <;> simp only [ilor, tbit, Nat.testBit_and, Nat.testBit_or, Nat.testBit_xor] <;>
    cases Nat.testBit _ i <;> cases Nat.testBit _ i <;> rfl

theorem ilxor_tbit (a b : Int) (i : Nat) : tbit (ilxor a b) i = (tbit a i ^^ tbit b i) := by
  cases a <;> cases b <;> simp only [ilxor, tbit, Nat.testBit_xor] <;>
    cases Nat.testBit _ i <;> cases Nat.testBit _ i <;> rfl

theorem iland_comm (a b : Int) : iland a b = iland b a := by
  cases a <;> cases b <;> simp only [iland, Nat.and_comm, Nat.or_comm]
theorem ilor_comm (a b : Int) : ilor a b = ilor b a := by
  cases a <;> cases b <;> simp only [ilor, Nat.and_comm, Nat.or_comm]
theorem ilxor_comm (a b : Int) : ilxor a b = ilxor b a := by
  cases a <;> cases b <;> simp only [ilxor, Nat.xor_comm]

theorem fits_cases (v : Int) : fits v = true ↔
    (match v with | .ofNat m => m < 2 ^ 63 | .negSucc m => m < 2 ^ 63) := by
  rw [fits_iff]
  cases v with
  | ofNat m => simp only [Int.ofNat_eq_natCast]; omega
  | negSucc m => simp only [Int.negSucc_eq]; omega

theorem iland_fits (a b : Int) (ha : fits a = true) (hb : fits b = true) : fits (iland a b) = true := by
  rw [fits_cases] at *
  cases a <;> cases b <;> simp only [iland] at * <;> rename_i m n
  · exact Nat.and_lt_two_pow m hb
  · exact Nat.xor_lt_two_pow ha (Nat.and_lt_two_pow m hb)
  · exact Nat.xor_lt_two_pow hb (Nat.and_lt_two_pow n ha)
  · exact Nat.or_lt_two_pow ha hb

theorem ilor_fits (a b : Int) (ha : fits a = true) (hb : fits b = true) : fits (ilor a b) = true := by
  rw [fits_cases] at *
  cases a <;> cases b <;> simp only [ilor] at * <;> rename_i m n
  · exact Nat.or_lt_two_pow ha hb
  · exact Nat.xor_lt_two_pow hb (Nat.and_lt_two_pow n ha)
  · exact Nat.xor_lt_two_pow ha (Nat.and_lt_two_pow m hb)
  · exact Nat.and_lt_two_pow m hb

theorem ilxor_fits (a b : Int) (ha : fits a = true) (hb : fits b = true) : fits (ilxor a b) = true := by
  rw [fits_cases] at *
  cases a <;> cases b <;> simp only [ilxor] at * <;> exact Nat.xor_lt_two_pow ha hb

/-- representation-level operations: canonical result denoting the Int-level operation -/
theorem bitand_spec (a b : LB) (ha : a.wf) (hb : b.wf) :
    (LB.bitand a b).wf ∧ (LB.bitand a b).den = iland a.den b.den := by
  cases a <;> cases b <;> simp only [LB.bitand, ofInt_wf, ofInt_den, den_short, den_long, true_and]
  · exact ⟨iland_fits _ _ ha hb, trivial⟩
  · exact iland_comm _ _

theorem bitor_spec (a b : LB) (ha : a.wf) (hb : b.wf) :
    (LB.bitor a b).wf ∧ (LB.bitor a b).den = ilor a.den b.den := by
  cases a <;> cases b <;> simp only [LB.bitor, ofInt_wf, ofInt_den, den_short, den_long, true_and]
  · exact ⟨ilor_fits _ _ ha hb, trivial⟩
  · exact ilor_comm _ _

theorem bitxor_spec (a b : LB) (ha : a.wf) (hb : b.wf) :
    (LB.bitxor a b).wf ∧ (LB.bitxor a b).den = ilxor a.den b.den := by
  cases a <;> cases b <;> simp only [LB.bitxor, ofInt_wf, ofInt_den, den_short, den_long, true_and]
  · exact ⟨ilxor_fits _ _ ha hb, trivial⟩
  · exact ilxor_comm _ _

end XrayModel.Bits
