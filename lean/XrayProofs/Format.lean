/-
C19 — helper lemmas about the format-specifier model (`XrayModel/Format.lean`).
-/
import XrayModel.Format
import Mathlib.Tactic.Ring

namespace XrayModel.Format
open List

/-- the three pads: total length `width - len`, made of the fill character only, placed according to
the alignment -/
theorem fillers_spec (f : FillSpecs) (len : Nat) :
    let ch := f.filler.getD (if f.zeroPad then '0' else ' ')
    let al := f.alignment.getD (if f.zeroPad then '=' else '>')
    let p := fillers f len
    p.1.length + p.2.1.length + p.2.2.length = f.width - len ∧
    (∀ c ∈ p.1 ++ p.2.1 ++ p.2.2, c = ch) ∧
    (al = '<' → p.1 = [] ∧ p.2.1 = []) ∧
    (al = '>' → p.2.1 = [] ∧ p.2.2 = []) ∧
    (al = '=' → p.1 = [] ∧ p.2.2 = []) ∧
    (al = '^' → p.2.1 = [] ∧ p.1.length = (f.width - len) / 2 ∧
      p.2.2.length = (f.width - len) - (f.width - len) / 2) := by
  intro ch al p
  simp only [p, fillers]
  by_cases hw : f.width < len
  · simp only [hw, ite_true]
    refine ⟨by simp; omega, by simp, by simp, by simp, by simp, ?_⟩
    intro _; simp; omega
  · simp only [hw, ite_false]
    have hmem : ∀ n c, c ∈ rep ch n → c = ch := by
      intro n c hc; simp [rep] at hc; exact hc.2
    by_cases h1 : al = '<'
    · have : (f.alignment.getD (if f.zeroPad then '=' else '>') == '<') = true := by
        simpa [al] using h1
      simp only [this, ite_true]
      refine ⟨by simp [rep], ?_, by simp, ?_, ?_, ?_⟩
      · intro c hc; simp at hc; exact hmem _ c hc
      · intro h; rw [h1] at h; cases h
      · intro h; rw [h1] at h; cases h
      · intro h; rw [h1] at h; cases h
    · have n1 : (f.alignment.getD (if f.zeroPad then '=' else '>') == '<') = false := by
        simpa [al] using h1
      simp only [n1]
      by_cases h2 : al = '>'
      · have : (f.alignment.getD (if f.zeroPad then '=' else '>') == '>') = true := by
          simpa [al] using h2
        simp only [this, ite_true]
        refine ⟨by simp [rep], ?_, ?_, by simp, ?_, ?_⟩
        · intro c hc; simp at hc; exact hmem _ c hc
        · intro h; exact absurd h h1
        · intro h; rw [h2] at h; cases h
        · intro h; rw [h2] at h; cases h
      · have n2 : (f.alignment.getD (if f.zeroPad then '=' else '>') == '>') = false := by
          simpa [al] using h2
        simp only [n2]
        by_cases h3 : al = '='
        · have : (f.alignment.getD (if f.zeroPad then '=' else '>') == '=') = true := by
            simpa [al] using h3
          simp only [this, ite_true]
          refine ⟨by simp [rep], ?_, ?_, ?_, by simp, ?_⟩
          · intro c hc; simp at hc; exact hmem _ c hc
          · intro h; exact absurd h h1
          · intro h; exact absurd h h2
          · intro h; rw [h3] at h; cases h
        · have n3 : (f.alignment.getD (if f.zeroPad then '=' else '>') == '=') = false := by
            simpa [al] using h3
          simp only [n3]
          refine ⟨by simp [rep]; omega, ?_, ?_, ?_, ?_, ?_⟩
          · intro c hc
            simp at hc
            rcases hc with hc | hc <;> exact hmem _ c hc
          · intro h; exact absurd h h1
          · intro h; exact absurd h h2
          · intro h; exact absurd h h3
          · intro _; simp [rep]

/-- grouping only inserts separators: deleting them gives the digits back … -/
theorem groupRev_filter (g : Char) (l : List Char) (h : ∀ c ∈ l, c ≠ g) :
    (groupRev g l).filter (· != g) = l := by
  fun_induction groupRev g l with
  | case1 a b c d rest ih =>
    have ha := h a (by simp); have hb := h b (by simp); have hc := h c (by simp)
    have := ih (fun x hx => h x (by simp at hx ⊢; tauto))
    simp [List.filter_cons, ha, hb, hc, this]
  | case2 l hl =>
    apply List.filter_eq_self.mpr
    intro c hc; simpa using h c hc

/-- … and there is one separator after every complete group of three that is followed by more -/
theorem groupRev_length (g : Char) (l : List Char) :
    (groupRev g l).length = l.length + (l.length - 1) / 3 := by
  fun_induction groupRev g l with
  | case1 a b c d rest ih => simp at ih ⊢; omega
  | case2 l hl =>
    match l, hl with
    | [], _ => rfl
    | [_], _ => simp
    | [_, _], _ => simp
    | [_, _, _], _ => simp
    | a :: b :: c :: d :: rest, hl => exact absurd rfl (hl a b c d rest)

/-- the infix pad is only ever used by the sign-aware alignment -/
theorem fillers_infix_nil (f : FillSpecs) (len : Nat)
    (h : ¬ (f.alignment = some '=' ∨ (f.alignment = none ∧ f.zeroPad = true))) :
    (fillers f len).2.1 = [] := by
  obtain ⟨filler, alignment, zeroPad, width⟩ := f
  simp only at h
  unfold fillers
  simp only
  split
  · rfl
  · cases alignment with
    | none =>
      cases zeroPad with
      | true => exact absurd (Or.inr ⟨rfl, rfl⟩) h
      | false => simp
    | some a =>
      have ha : a ≠ '=' := fun e => h (Or.inl (by rw [e]))
      simp only [Option.getD_some]
      by_cases h1 : a = '<' <;> by_cases h2 : a = '>' <;> simp [h1, h2, ha]

end XrayModel.Format
