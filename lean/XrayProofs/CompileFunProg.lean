/-
compile_correct for programs of `let`s and top-level functions without captures: the compile-time half (what the
scope model compiles such a function declaration and expressions over a scope with functions to) and the declaration
loop (XrayProofs/CompileFun.lean has the run-time simulation `SimF`).
-/
import XrayProofs.CompileFun
import XrayProofs.CompileProg
namespace XrayModel.CellRun
open XrayModel.Scope

/-! ### compiling fragment expressions in any scope whose name lookup is known at the mentioned names -/

/-- what `get_item` answers for `x`, given the maps `vars` / `funs` the compiled form is computed from -/
def GI (ps : List Scope) (cur : Scope) (vars funs : List (String × Nat)) (x : String) : Prop :=
  match Scope.lookup x vars with
  | some k => getItem (cur :: ps) x = .ok (some (.value (cur.height, k, [])))
  | none => match Scope.lookup x funs with
    | some k => getItem (cur :: ps) x = .ok (some (.overloads [(cur.height, k, [])]))
    | none => getItem (cur :: ps) x = .ok none

mutual
  def CW (ps : List Scope) (cur : Scope) (vars funs : List (String × Nat)) : Core.Expr → Prop
    | .int _ => True
    | .bool _ => True
    | .str _ => True
    | .var x => GI ps cur vars funs x
    | .call f args => GI ps cur vars funs f ∧ CWs ps cur vars funs args
    | .tup es => CWs ps cur vars funs es
    | .arr es => CWs ps cur vars funs es
    | .item e _ => CW ps cur vars funs e
    | .callE _ _ => False
    | .lam _ => False
  def CWs (ps : List Scope) (cur : Scope) (vars funs : List (String × Nat)) : List Core.Expr → Prop
    | [] => True
    | e :: rest => CW ps cur vars funs e ∧ CWs ps cur vars funs rest
end

theorem useCand_same (ps : List Scope) (cur : Scope) (k : Nat) :
    useCand ps cur (cur.height, k, []) = .ok (.val k, cur) := by
  simp [useCand, requireForwards]

theorem compileIdent_GI (ps : List Scope) (cur : Scope) (vars funs : List (String × Nat)) (x : String)
    (h : GI ps cur vars funs x) (r : XE × Scope) (hc : compileIdent ps cur x = .ok r) :
    r = (cxf vars funs (.var x), cur) := by
  simp only [GI] at h
  simp only [cxf]
  cases hv : Scope.lookup x vars with
  | some k =>
    rw [hv] at h
    simp only [compileIdent, h, useCand_same] at hc
    cases hc; rfl
  | none =>
    rw [hv] at h
    cases hf : Scope.lookup x funs with
    | some k =>
      rw [hf] at h
      simp only [compileIdent, h, useCand_same] at hc
      cases hc; rfl
    | none =>
      rw [hf] at h
      simp [compileIdent, h] at hc

theorem compile_fragF : ∀ (fuel : Nat),
    (∀ e ps cur vars funs r, CW ps cur vars funs e → compileExpr fuel ps cur (px e) = .ok r → r = (cxf vars funs e, cur)) ∧
    (∀ es ps cur vars funs r, CWs ps cur vars funs es → compileList fuel ps cur (pxs es) = .ok r → r = (cxfs vars funs es, cur)) := by
  intro fuel
  induction fuel with
  | zero => constructor <;> intro _ ps cur vars funs r _ h <;> simp [compileExpr, compileList] at h
  | succ n ih =>
    obtain ⟨i1, i2⟩ := ih
    constructor
    · intro e ps cur vars funs r hw h
      cases e with
      | int v => simp only [px, compileExpr] at h; cases h; simp [cxf]
      | bool v => simp only [px, compileExpr] at h; cases h; simp [cxf]
      | str v => simp only [px, compileExpr] at h; cases h; simp [cxf]
      | var x =>
        simp only [CW] at hw
        simp only [px, compileExpr] at h
        exact compileIdent_GI ps cur vars funs x hw r h
      | callE f args => simp [CW] at hw
      | lam f => simp [CW] at hw
      | call f args =>
        simp only [CW] at hw
        obtain ⟨hg, hargs⟩ := hw
        simp only [px, compileExpr] at h
        split at h
        · cases h
        · rename_i args' cur1 h1
          have e1 := i2 args ps cur vars funs _ hargs h1
          simp only [Prod.mk.injEq] at e1
          obtain ⟨rfl, rfl⟩ := e1
          simp only [GI] at hg
          cases hv : Scope.lookup f vars with
          | some k =>
            rw [hv] at hg
            simp only [hg] at h
            split at h
            · cases h
            · rename_i f' cur2 h2
              cases n with
              | zero => simp [compileExpr] at h2
              | succ m =>
                simp only [compileExpr] at h2
                have hgi : GI ps cur1 vars funs f := by simp only [GI, hv]; exact hg
                have e2 := compileIdent_GI ps cur1 vars funs f hgi _ h2
                simp only [cxf, hv, Prod.mk.injEq] at e2
                obtain ⟨rfl, rfl⟩ := e2
                cases h; simp [cxf, hv]
          | none =>
            rw [hv] at hg
            cases hf : Scope.lookup f funs with
            | some k =>
              rw [hf] at hg
              simp only [hg, useCand_same] at h
              cases h; simp [cxf, hv, hf]
            | none =>
              rw [hf] at hg
              simp only [hg] at h
              cases h; simp [cxf, hv, hf]
      | tup es =>
        simp only [CW] at hw
        simp only [px, compileExpr] at h
        split at h
        · cases h
        · rename_i h2
          have := i2 es ps cur vars funs _ hw h2
          cases this; cases h; simp [cxf]
      | arr es =>
        simp only [CW] at hw
        simp only [px, compileExpr] at h
        split at h
        · cases h
        · rename_i h2
          have := i2 es ps cur vars funs _ hw h2
          cases this; cases h; simp [cxf]
      | item e i =>
        simp only [CW] at hw
        simp only [px, compileExpr] at h
        split at h
        · cases h
        · rename_i h2
          have := i1 e ps cur vars funs _ hw h2
          cases this; cases h; simp [cxf]
    · intro es ps cur vars funs r hw h
      cases es with
      | nil => simp only [pxs, compileList] at h; cases h; simp [cxfs]
      | cons e rest =>
        simp only [CWs] at hw
        simp only [pxs, compileList] at h
        split at h
        · cases h
        · rename_i h1
          have e1 := i1 e ps cur vars funs _ hw.1 h1
          cases e1
          split at h
          · cases h
          · rename_i h2
            have e2 := i2 rest ps cur vars funs _ hw.2 h2
            cases e2; cases h; simp [cxfs]

/-! ### a function declaration without captures compiles to `cfOf` -/

/-- the static function the compiler makes of `fn name(ps) { body }` (no captures, defaults, local declarations) -/
def cfOf (names : List String) (body : Core.Expr) : CFunc :=
  .mk names.length (List.replicate names.length .var ++ [.recur]) [] (paramDecls 0 names.length)
    (cxf (paramVars names) [] body) []

/-- the scope of its body -/
def subOf (h : Nat) (names : List String) (name : String) : Scope :=
  { cells := List.replicate names.length .var ++ [.recur], vars := paramVars names,
    funcs := [(name, names.length)], recName := some name, height := h + 1, decls := paramDecls 0 names.length }

theorem paramDecls_snoc (i m : Nat) : paramDecls i (m + 1) = paramDecls i m ++ [.param (i + m) (i + m)] := by
  induction m generalizing i with
  | zero => simp [paramDecls]
  | succ k ih =>
    rw [paramDecls, ih (i + 1), paramDecls]
    simp only [List.cons_append]
    have : i + 1 + k = i + (k + 1) := by omega
    rw [this]

theorem addParams_explicit : ∀ (names : List String) (s : Scope) (i : Nat), s.funcs = [] → s.cells.length = i →
    addParams s names i = .ok { s with cells := s.cells ++ List.replicate names.length .var,
                                       vars := paramVarsFrom names i s.vars,
                                       decls := s.decls ++ paramDecls i names.length } := by
  intro names
  induction names with
  | nil => intro s i _ _; simp [addParams, paramVarsFrom, paramDecls]
  | cons x rest ih =>
    intro s i hf hl
    simp only [addParams, addParameter, Scope.hasOverloads, hf, overloadCells]
    simp only [List.isEmpty_nil, Bool.not_true, Bool.false_eq_true, if_false]
    rw [ih _ (i + 1) (by simp [hf]) (by simp [hl])]
    simp [paramVarsFrom, paramDecls, List.replicate_succ, hl]

theorem parseDefaults_nodflt : ∀ (fuel : Nat) (pps : List Core.Param) (ps : List Scope) (cur : Scope) (r : List XE × Scope),
    (∀ p ∈ pps, p.dflt = none) → parseDefaults fuel ps cur (ofParams pps) = .ok r → r = ([], cur) := by
  intro fuel
  induction fuel with
  | zero => intro pps ps cur r _ h; simp [parseDefaults] at h
  | succ n ih =>
    intro pps ps cur r hd h
    cases pps with
    | nil => simp only [ofParams, parseDefaults] at h; cases h; rfl
    | cons p rest =>
      obtain ⟨pn, pd⟩ := p
      have : pd = none := by simpa [Core.Param.dflt] using hd (.mk pn pd) (by simp)
      subst this
      simp only [ofParams, parseDefaults] at h
      exact ih rest ps cur r (fun q hq => hd q (by simp [hq])) h

theorem ofParams_names (pps : List Core.Param) (hd : ∀ p ∈ pps, p.dflt = none) :
    (ofParams pps).map SParam.name = pps.map Core.Param.name := by
  induction pps with
  | nil => simp [ofParams]
  | cons p rest ih =>
    obtain ⟨pn, pd⟩ := p
    have : pd = none := by simpa [Core.Param.dflt] using hd (.mk pn pd) (by simp)
    subst this
    simp [ofParams, SParam.name, Core.Param.name, ih (fun q hq => hd q (by simp [hq]))]

theorem ofParams_length (pps : List Core.Param) : (ofParams pps).length = pps.length := by
  induction pps with
  | nil => simp [ofParams]
  | cons p rest ih =>
    obtain ⟨pn, pd⟩ := p
    cases pd <;> simp [ofParams, ih]

theorem threadCells_nocap : ∀ (cs : List Cell) (k : Nat), (∀ c ∈ cs, c = .var ∨ c = .recur) → threadCells cs k = (cs, []) := by
  intro cs
  induction cs with
  | nil => intro k _; simp [threadCells]
  | cons c rest ih =>
    intro k h
    have hr := ih k (fun c hc => h c (by simp [hc]))
    rcases h c (by simp) with rfl | rfl <;> simp [threadCells, hr]

theorem fromParent_explicit (cur : Scope) (names : List String) (name : String) (hn : name ∉ names) :
    fromParent cur names name = .ok (subOf cur.height names name) := by
  simp only [fromParent, fromParentLambda]
  rw [addParams_explicit names _ 0 rfl rfl]
  simp only [addRecourse, Scope.hasVariable, List.nil_append]
  have : Scope.lookup name (paramVarsFrom names 0 []) = none := by
    rw [lookup_paramVarsFrom_notin name names 0 [] hn]; rfl
  simp [this, subOf, paramVars]

mutual
  def BodyC (names : List String) (name : String) (cur : Scope) : Core.Expr → Prop
    | .int _ => True
    | .bool _ => True
    | .str _ => True
    | .var y => y ∈ names
    | .call g args => g ∉ names ∧ g ≠ name ∧ Scope.lookup g cur.vars = none ∧ overloadCells g cur.funcs = [] ∧
        BodyCs names name cur args
    | .tup es => BodyCs names name cur es
    | .arr es => BodyCs names name cur es
    | .item e _ => BodyC names name cur e
    | .callE _ _ => False
    | .lam _ => False
  def BodyCs (names : List String) (name : String) (cur : Scope) : List Core.Expr → Prop
    | [] => True
    | e :: rest => BodyC names name cur e ∧ BodyCs names name cur rest
end

theorem lookup_paramVarsFrom_mem (y : String) : ∀ (names : List String) (i : Nat) (acc : List (String × Nat)),
    y ∈ names → ∃ j, Scope.lookup y (paramVarsFrom names i acc) = some j ∧ i ≤ j ∧ j < i + names.length := by
  intro names
  induction names with
  | nil => intro i acc h; simp at h
  | cons p rest ih =>
    intro i acc hy
    simp only [paramVarsFrom]
    by_cases hr : y ∈ rest
    · obtain ⟨j, h1, h2, h3⟩ := ih (i + 1) ((p, i) :: acc) hr
      exact ⟨j, h1, by omega, by simp only [List.length_cons]; omega⟩
    · have : y = p := by simpa [hr] using hy
      subst this
      rw [lookup_paramVarsFrom_notin y rest _ _ hr]
      exact ⟨i, by simp [Scope.lookup], Nat.le_refl _, by simp⟩

theorem GI_param (cur : Scope) (names : List String) (name : String) (y : String) (hy : y ∈ names) :
    GI [cur] (subOf cur.height names name) (paramVars names) [] y := by
  obtain ⟨j, h1, -, h3⟩ := lookup_paramVarsFrom_mem y names 0 [] hy
  simp only [GI, paramVars, h1]
  have hc : (subOf cur.height names name).cells[j]? = some .var := by
    simp only [subOf]
    rw [List.getElem?_append_left (by simpa using h3)]
    simp [List.getElem?_replicate]; omega
  rw [getItem_var (subOf cur.height names name) [cur] y j (by simpa [subOf, paramVars] using h1) hc]
  simp [subOf, Scope.cellReqs, lookupReqs]

theorem GI_unbound (cur : Scope) (names : List String) (name : String) (g : String) (hg : g ∉ names) (hgn : g ≠ name)
    (hv : Scope.lookup g cur.vars = none) (hf : overloadCells g cur.funcs = []) :
    GI [cur] (subOf cur.height names name) (paramVars names) [] g := by
  have h1 : Scope.lookup g (paramVars names) = none := by
    simp only [paramVars]; rw [lookup_paramVarsFrom_notin g names 0 [] hg]; rfl
  simp only [GI, h1, Scope.lookup]
  simp [getItem, subOf, h1, overloadCells, hgn, hv, hf]

mutual
  theorem bodyC_cw (cur : Scope) (names : List String) (name : String) : (e : Core.Expr) → BodyC names name cur e →
      CW [cur] (subOf cur.height names name) (paramVars names) [] e
    | .int _, _ => by simp [CW]
    | .bool _, _ => by simp [CW]
    | .str _, _ => by simp [CW]
    | .var y, h => by simp only [BodyC] at h; simp only [CW]; exact GI_param cur names name y h
    | .call g args, h => by
      simp only [BodyC] at h
      obtain ⟨h1, h2, h3, h4, h5⟩ := h
      simp only [CW]
      exact ⟨GI_unbound cur names name g h1 h2 h3 h4, bodyCs_cw cur names name args h5⟩
    | .tup es, h => by simp only [BodyC] at h; simp only [CW]; exact bodyCs_cw cur names name es h
    | .arr es, h => by simp only [BodyC] at h; simp only [CW]; exact bodyCs_cw cur names name es h
    | .item e _, h => by simp only [BodyC] at h; simp only [CW]; exact bodyC_cw cur names name e h
    | .callE _ _, h => by simp [BodyC] at h
    | .lam _, h => by simp [BodyC] at h
  theorem bodyCs_cw (cur : Scope) (names : List String) (name : String) : (es : List Core.Expr) → BodyCs names name cur es →
      CWs [cur] (subOf cur.height names name) (paramVars names) [] es
    | [], _ => by simp [CWs]
    | e :: rest, h => by
      simp only [BodyCs] at h
      simp only [CWs]
      exact ⟨bodyC_cw cur names name e h.1, bodyCs_cw cur names name rest h.2⟩
end

/-- `closeFunc` on a declaration of the fragment: nothing is pushed into the declaring scope and the static function
is `cfOf` -/
theorem close_fun (fuel : Nat) (cur : Scope) (name : String) (pps : List Core.Param) (body : Core.Expr)
    (r : CFunc × Scope) (hd : ∀ p ∈ pps, p.dflt = none) (hn : name ∉ pps.map Core.Param.name) (hb : exprOK body = true)
    (hc : BodyC (pps.map Core.Param.name) name cur body)
    (h : closeFunc fuel [] cur (some name) (.mk (ofParams pps) [] (ofExpr body)) = .ok r) :
    r = (cfOf (pps.map Core.Param.name) body, cur) := by
  cases fuel with
  | zero => simp [closeFunc] at h
  | succ F =>
    simp only [closeFunc] at h
    split at h
    · cases h
    · rename_i ds cur1 h1
      have e1 := parseDefaults_nodflt F pps [] cur _ hd h1
      simp only [Prod.mk.injEq] at e1
      obtain ⟨rfl, rfl⟩ := e1
      cases F with
      | zero => simp [compileList] at h
      | succ G =>
        simp only [compileList, ofParams_names pps hd, fromParent_explicit cur1 _ name hn, feedDecls] at h
        split at h
        · cases h
        · rename_i o sub2 h2
          have e2 := (parse_frag (G + 1)).1 body hb _ _ _ h2
          simp only [Prod.mk.injEq] at e2
          obtain ⟨rfl, rfl⟩ := e2
          split at h
          · cases h
          · rename_i o' sub3 h3
            have e3 := (compile_fragF (G + 1)).1 body _ _ _ _ _ (bodyC_cw cur1 _ name body hc) h3
            simp only [Prod.mk.injEq] at e3
            obtain ⟨rfl, rfl⟩ := e3
            simp only [Except.ok.injEq] at h
            rw [← h]
            have htc : threadCells (List.replicate pps.length Cell.var ++ [Cell.recur]) cur1.cells.length
                = (List.replicate pps.length Cell.var ++ [Cell.recur], []) := by
              apply threadCells_nocap
              intro c hc'
              simp only [List.mem_append, List.mem_replicate, List.mem_cons, List.not_mem_nil, or_false] at hc'
              rcases hc' with ⟨-, rfl⟩ | rfl
              · exact Or.inl rfl
              · exact Or.inr rfl
            simp [intoStaticUd, htc, cfOf, subOf, ofParams_length]

/-! ### the decidable fragment: `let`s and top-level functions without captures -/

mutual
  /-- expressions at top level: `sig` = the functions declared so far with their arity; a function name is only
  used as a callee, with the right number of arguments -/
  def exprOKF (sig : List (String × Nat)) : Core.Expr → Bool
    | .int _ => true
    | .bool _ => true
    | .str _ => true
    | .var x => (Scope.lookup x sig).isNone
    | .call f args =>
      (match Scope.lookup f sig with
       | some n => args.length == n
       | none => true) && exprsOKF sig args
    | .tup es => exprsOKF sig es
    | .arr es => exprsOKF sig es
    | .item e _ => exprOKF sig e
    | .callE _ _ => false
    | .lam _ => false
  def exprsOKF (sig : List (String × Nat)) : List Core.Expr → Bool
    | [] => true
    | e :: rest => exprOKF sig e && exprsOKF sig rest
end

mutual
  /-- function bodies: variables are parameters, callees are names the program declares nowhere (natives) -/
  def bodyOKB (ps bad : List String) : Core.Expr → Bool
    | .int _ => true
    | .bool _ => true
    | .str _ => true
    | .var y => ps.contains y
    | .call g args => !ps.contains g && !bad.contains g && bodysOKB ps bad args
    | .tup es => bodysOKB ps bad es
    | .arr es => bodysOKB ps bad es
    | .item e _ => bodyOKB ps bad e
    | .callE _ _ => false
    | .lam _ => false
  def bodysOKB (ps bad : List String) : List Core.Expr → Bool
    | [] => true
    | e :: rest => bodyOKB ps bad e && bodysOKB ps bad rest
end

/-- `bad` = every name the program declares -/
def declsOKF (bad : List String) : List (String × Nat) → List Core.Decl → Bool
  | _, [] => true
  | sig, .letD x e :: rest =>
    exprOKF sig e && (Scope.lookup x sig).isNone && bad.contains x && declsOKF bad sig rest
  | sig, .fnD (.mk (some name) ps [] body) :: rest =>
    ps.all (fun p => p.dflt.isNone) && !(ps.map Core.Param.name).contains name && (Scope.lookup name sig).isNone &&
    bad.contains name && bodyOKB (ps.map Core.Param.name) bad body &&
    declsOKF bad ((name, ps.length) :: sig) rest
  | _, .fnD _ :: _ => false

def declNames : List Core.Decl → List String
  | [] => []
  | .letD x _ :: rest => x :: declNames rest
  | .fnD f :: rest => (f.name.getD "") :: declNames rest

def progOKF (ds : List Core.Decl) : Bool := declsOKF (declNames ds) [] ds

mutual
  theorem exprOKF_exprOK (sig : List (String × Nat)) : (e : Core.Expr) → exprOKF sig e = true → exprOK e = true
    | .int _, _ => rfl
    | .bool _, _ => rfl
    | .str _, _ => rfl
    | .var _, _ => rfl
    | .call f args, h => by
      simp only [exprOKF, Bool.and_eq_true] at h
      simp only [exprOK]; exact exprsOKF_exprsOK sig args h.2
    | .tup es, h => by simp only [exprOKF] at h; simp only [exprOK]; exact exprsOKF_exprsOK sig es h
    | .arr es, h => by simp only [exprOKF] at h; simp only [exprOK]; exact exprsOKF_exprsOK sig es h
    | .item e _, h => by simp only [exprOKF] at h; simp only [exprOK]; exact exprOKF_exprOK sig e h
    | .callE _ _, h => by simp [exprOKF] at h
    | .lam _, h => by simp [exprOKF] at h
  theorem exprsOKF_exprsOK (sig : List (String × Nat)) : (es : List Core.Expr) → exprsOKF sig es = true → exprsOK es = true
    | [], _ => rfl
    | e :: rest, h => by
      simp only [exprsOKF, Bool.and_eq_true] at h
      simp only [exprsOK, Bool.and_eq_true]
      exact ⟨exprOKF_exprOK sig e h.1, exprsOKF_exprsOK sig rest h.2⟩
end

mutual
  theorem bodyOKB_exprOK (ps bad : List String) : (e : Core.Expr) → bodyOKB ps bad e = true → exprOK e = true
    | .int _, _ => rfl
    | .bool _, _ => rfl
    | .str _, _ => rfl
    | .var _, _ => rfl
    | .call f args, h => by
      simp only [bodyOKB, Bool.and_eq_true] at h
      simp only [exprOK]; exact bodysOKB_exprsOK ps bad args h.2
    | .tup es, h => by simp only [bodyOKB] at h; simp only [exprOK]; exact bodysOKB_exprsOK ps bad es h
    | .arr es, h => by simp only [bodyOKB] at h; simp only [exprOK]; exact bodysOKB_exprsOK ps bad es h
    | .item e _, h => by simp only [bodyOKB] at h; simp only [exprOK]; exact bodyOKB_exprOK ps bad e h
    | .callE _ _, h => by simp [bodyOKB] at h
    | .lam _, h => by simp [bodyOKB] at h
  theorem bodysOKB_exprsOK (ps bad : List String) : (es : List Core.Expr) → bodysOKB ps bad es = true → exprsOK es = true
    | [], _ => rfl
    | e :: rest, h => by
      simp only [bodysOKB, Bool.and_eq_true] at h
      simp only [exprsOK, Bool.and_eq_true]
      exact ⟨bodyOKB_exprOK ps bad e h.1, bodysOKB_exprsOK ps bad rest h.2⟩
end

mutual
  /-- the decidable body condition gives the semantic one of `FunOK`, for any environment whose names are declared -/
  theorem bodyOKB_BodyOK (ps bad : List String) (x : String) (envc : List (String × Core.Val)) (hx : x ∈ bad)
      (henv : ∀ g, g ∉ bad → Core.lookup g envc = none) : (e : Core.Expr) → bodyOKB ps bad e = true → BodyOK ps x envc e
    | .int _, _ => by simp [BodyOK]
    | .bool _, _ => by simp [BodyOK]
    | .str _, _ => by simp [BodyOK]
    | .var y, h => by simpa [bodyOKB, BodyOK] using h
    | .call g args, h => by
      simp only [bodyOKB, Bool.and_eq_true, Bool.not_eq_true', List.contains_eq_mem, decide_eq_false_iff_not,
        decide_eq_true_eq] at h
      simp only [BodyOK]
      have hgb : g ∉ bad := by simpa using h.1.2
      exact ⟨by simpa using h.1.1, fun e => hgb (e ▸ hx), henv g hgb, bodysOKB_BodyOKs ps bad x envc hx henv args h.2⟩
    | .tup es, h => by simp only [bodyOKB] at h; simp only [BodyOK]; exact bodysOKB_BodyOKs ps bad x envc hx henv es h
    | .arr es, h => by simp only [bodyOKB] at h; simp only [BodyOK]; exact bodysOKB_BodyOKs ps bad x envc hx henv es h
    | .item e _, h => by simp only [bodyOKB] at h; simp only [BodyOK]; exact bodyOKB_BodyOK ps bad x envc hx henv e h
    | .callE _ _, h => by simp [bodyOKB] at h
    | .lam _, h => by simp [bodyOKB] at h
  theorem bodysOKB_BodyOKs (ps bad : List String) (x : String) (envc : List (String × Core.Val)) (hx : x ∈ bad)
      (henv : ∀ g, g ∉ bad → Core.lookup g envc = none) : (es : List Core.Expr) → bodysOKB ps bad es = true → BodyOKs ps x envc es
    | [], _ => by simp [BodyOKs]
    | e :: rest, h => by
      simp only [bodysOKB, Bool.and_eq_true] at h
      simp only [BodyOKs]
      exact ⟨bodyOKB_BodyOK ps bad x envc hx henv e h.1, bodysOKB_BodyOKs ps bad x envc hx henv rest h.2⟩
end

mutual
  /-- … and the compile-time one, for any scope whose names are declared -/
  theorem bodyOKB_BodyC (ps bad : List String) (x : String) (cur : Scope) (hx : x ∈ bad)
      (hv : ∀ g, g ∉ bad → Scope.lookup g cur.vars = none) (hf : ∀ g, g ∉ bad → overloadCells g cur.funcs = []) :
      (e : Core.Expr) → bodyOKB ps bad e = true → BodyC ps x cur e
    | .int _, _ => by simp [BodyC]
    | .bool _, _ => by simp [BodyC]
    | .str _, _ => by simp [BodyC]
    | .var y, h => by simpa [bodyOKB, BodyC] using h
    | .call g args, h => by
      simp only [bodyOKB, Bool.and_eq_true, Bool.not_eq_true', List.contains_eq_mem, decide_eq_false_iff_not,
        decide_eq_true_eq] at h
      simp only [BodyC]
      have hgb : g ∉ bad := by simpa using h.1.2
      exact ⟨by simpa using h.1.1, fun e => hgb (e ▸ hx), hv g hgb, hf g hgb, bodysOKB_BodyCs ps bad x cur hx hv hf args h.2⟩
    | .tup es, h => by simp only [bodyOKB] at h; simp only [BodyC]; exact bodysOKB_BodyCs ps bad x cur hx hv hf es h
    | .arr es, h => by simp only [bodyOKB] at h; simp only [BodyC]; exact bodysOKB_BodyCs ps bad x cur hx hv hf es h
    | .item e _, h => by simp only [bodyOKB] at h; simp only [BodyC]; exact bodyOKB_BodyC ps bad x cur hx hv hf e h
    | .callE _ _, h => by simp [bodyOKB] at h
    | .lam _, h => by simp [bodyOKB] at h
  theorem bodysOKB_BodyCs (ps bad : List String) (x : String) (cur : Scope) (hx : x ∈ bad)
      (hv : ∀ g, g ∉ bad → Scope.lookup g cur.vars = none) (hf : ∀ g, g ∉ bad → overloadCells g cur.funcs = []) :
      (es : List Core.Expr) → bodysOKB ps bad es = true → BodyCs ps x cur es
    | [], _ => by simp [BodyCs]
    | e :: rest, h => by
      simp only [bodysOKB, Bool.and_eq_true] at h
      simp only [BodyCs]
      exact ⟨bodyOKB_BodyC ps bad x cur hx hv hf e h.1, bodysOKB_BodyCs ps bad x cur hx hv hf rest h.2⟩
end

/-! ### invariants of the declaration loop -/

theorem overloadCells_of_lookup_none (x : String) : ∀ (l : List (String × Nat)), Scope.lookup x l = none → overloadCells x l = [] := by
  intro l
  induction l with
  | nil => intro _; rfl
  | cons p rest ih =>
    obtain ⟨y, k⟩ := p
    intro h
    simp only [Scope.lookup] at h
    split at h
    · cases h
    · rename_i hne; simp [overloadCells, hne, ih h]

/-- the root scope while such a program is compiled -/
structure InvC (bad : List String) (sig : List (String × Nat)) (cur : Scope) : Prop where
  height : cur.height = 0
  forwards : cur.forwards = []
  reqs : ∀ k, cur.cellReqs k = []
  allVar : ∀ c ∈ cur.cells, c = .var
  varsLt : ∀ x k, Scope.lookup x cur.vars = some k → k < cur.cells.length
  funs : ∀ x k, Scope.lookup x cur.funcs = some k →
    k < cur.cells.length ∧ overloadCells x cur.funcs = [k] ∧ Scope.lookup x cur.vars = none
  varsBad : ∀ x k, Scope.lookup x cur.vars = some k → x ∈ bad
  funsBad : ∀ x k, Scope.lookup x cur.funcs = some k → x ∈ bad
  funsig : ∀ x, (Scope.lookup x cur.funcs).isSome = (Scope.lookup x sig).isSome

theorem cells_var_of_lt (cur : Scope) (h : ∀ c ∈ cur.cells, c = .var) (k : Nat) (hk : k < cur.cells.length) :
    cur.cells[k]? = some .var := by
  have : cur.cells[k]? = some cur.cells[k] := by simp [hk]
  rw [this, h _ (List.getElem_mem hk)]

theorem GI_root (bad : List String) (sig : List (String × Nat)) (cur : Scope) (inv : InvC bad sig cur) (x : String) :
    GI [] cur cur.vars cur.funcs x := by
  simp only [GI]
  cases hv : Scope.lookup x cur.vars with
  | some k =>
    simp only []
    rw [getItem_var cur [] x k hv (cells_var_of_lt cur inv.allVar k (inv.varsLt x k hv)), inv.reqs]
  | none =>
    cases hf : Scope.lookup x cur.funcs with
    | some k =>
      obtain ⟨hlt, hov, -⟩ := inv.funs x k hf
      simp [getItem, hv, hov, candsOf, cells_var_of_lt cur inv.allVar k hlt, inv.reqs, Except.map]
    | none =>
      simp [getItem, hv, overloadCells_of_lookup_none x _ hf]

mutual
  theorem cw_root (bad : List String) (sig : List (String × Nat)) (cur : Scope) (inv : InvC bad sig cur) :
      (e : Core.Expr) → exprOK e = true → CW [] cur cur.vars cur.funcs e
    | .int _, _ => by simp [CW]
    | .bool _, _ => by simp [CW]
    | .str _, _ => by simp [CW]
    | .var x, _ => by simp only [CW]; exact GI_root bad sig cur inv x
    | .call f args, h => by
      simp only [exprOK] at h
      simp only [CW]; exact ⟨GI_root bad sig cur inv f, cws_root bad sig cur inv args h⟩
    | .tup es, h => by simp only [exprOK] at h; simp only [CW]; exact cws_root bad sig cur inv es h
    | .arr es, h => by simp only [exprOK] at h; simp only [CW]; exact cws_root bad sig cur inv es h
    | .item e _, h => by simp only [exprOK] at h; simp only [CW]; exact cw_root bad sig cur inv e h
    | .callE _ _, h => by simp [exprOK] at h
    | .lam _, h => by simp [exprOK] at h
  theorem cws_root (bad : List String) (sig : List (String × Nat)) (cur : Scope) (inv : InvC bad sig cur) :
      (es : List Core.Expr) → exprsOK es = true → CWs [] cur cur.vars cur.funcs es
    | [], _ => by simp [CWs]
    | e :: rest, h => by
      simp only [exprsOK, Bool.and_eq_true] at h
      simp only [CWs]
      exact ⟨cw_root bad sig cur inv e h.1, cws_root bad sig cur inv rest h.2⟩
end

/-- the named frame and the root activation while the program runs -/
structure InvR (bad : List String) (sig : List (String × Nat)) (fr : Core.Frame) (cur : Scope) (rfr : RFrame) (N : Nat) : Prop where
  self : fr.self = none
  height : rfr.height = fr.height
  tid : rfr.tmpl.id = []
  rel : ∀ x, RelAt ⟨fr, cur.vars, cur.funcs, rfr⟩ x
  names : ∀ x v, Core.lookup x fr.env = some v → x ∈ bad
  sigOK : ∀ x, match Scope.lookup x sig with
    | some n => ∃ f envc, Core.lookup x fr.env = some (.clos f [] envc) ∧ f.params.length = n
    | none => ∀ v, Core.lookup x fr.env = some v → closFree v = true
  uninit : ∀ k, cur.cells.length ≤ k → k < N → rfr.cells[k]? = some (.owned .uninit)

mutual
  theorem wf_root (bad : List String) (sig : List (String × Nat)) (fr : Core.Frame) (cur : Scope) (rfr : RFrame) (N : Nat)
      (inv : InvR bad sig fr cur rfr N) : (e : Core.Expr) → exprOKF sig e = true → WF ⟨fr, cur.vars, cur.funcs, rfr⟩ e
    | .int _, _ => by simp [WF]
    | .bool _, _ => by simp [WF]
    | .str _, _ => by simp [WF]
    | .var x, h => by
      simp only [exprOKF, Option.isNone_iff_eq_none] at h
      simp only [WF]
      refine ⟨?_, inv.rel x⟩
      have := inv.sigOK x
      rw [h] at this
      exact this
    | .call f args, h => by
      simp only [exprOKF, Bool.and_eq_true] at h
      simp only [WF]
      refine ⟨inv.rel f, ?_, inv.height, wfs_root bad sig fr cur rfr N inv args h.2⟩
      intro fc ds envc hl
      have := inv.sigOK f
      cases hs : Scope.lookup f sig with
      | some n =>
        rw [hs] at this
        obtain ⟨f0, envc0, hl0, hn⟩ := this
        rw [hl] at hl0
        simp only [Option.some.injEq, Core.Val.clos.injEq] at hl0
        have h1 := h.1
        rw [hs] at h1
        rw [hl0.1, hn]
        have h2 : args.length = n := by simpa using h1
        exact h2.symm
      | none =>
        rw [hs] at this
        have := this _ hl
        simp [closFree] at this
    | .tup es, h => by simp only [exprOKF] at h; simp only [WF]; exact wfs_root bad sig fr cur rfr N inv es h
    | .arr es, h => by simp only [exprOKF] at h; simp only [WF]; exact wfs_root bad sig fr cur rfr N inv es h
    | .item e _, h => by simp only [exprOKF] at h; simp only [WF]; exact wf_root bad sig fr cur rfr N inv e h
    | .callE _ _, h => by simp [exprOKF] at h
    | .lam _, h => by simp [exprOKF] at h
  theorem wfs_root (bad : List String) (sig : List (String × Nat)) (fr : Core.Frame) (cur : Scope) (rfr : RFrame) (N : Nat)
      (inv : InvR bad sig fr cur rfr N) : (es : List Core.Expr) → exprsOKF sig es = true → WFs ⟨fr, cur.vars, cur.funcs, rfr⟩ es
    | [], _ => by simp [WFs]
    | e :: rest, h => by
      simp only [exprsOKF, Bool.and_eq_true] at h
      simp only [WFs]
      exact ⟨wf_root bad sig fr cur rfr N inv e h.1, wfs_root bad sig fr cur rfr N inv rest h.2⟩
end

/-! ### creating the function value, on both sides -/

theorem scope_lookup_append (y : String) (a b : List (String × Nat)) :
    Scope.lookup y (a ++ b) = match Scope.lookup y a with | some k => some k | none => Scope.lookup y b := by
  induction a with
  | nil => simp [Scope.lookup]
  | cons p rest ih =>
    obtain ⟨z, k⟩ := p
    simp only [List.cons_append, Scope.lookup]
    split
    · rfl
    · exact ih

theorem core_evalDflts_none (cfg : Core.Cfg) (fr : Core.Frame) (st : St) : ∀ (F : Nat) (ps : List Core.Param),
    (∀ p ∈ ps, p.dflt = none) →
    Core.evalDflts F cfg fr ps st = if ps.length < F then (.ok [], st) else (.error .oof, st) := by
  intro F
  induction F with
  | zero => intro ps _; simp [Core.evalDflts]
  | succ m ih =>
    intro ps hd
    cases ps with
    | nil => simp [Core.evalDflts]
    | cons p rest =>
      have hp : p.dflt = none := hd p (by simp)
      simp only [Core.evalDflts, hp, ih rest (fun q hq => hd q (by simp [hq])), List.length_cons]
      by_cases h : rest.length < m <;> simp [h]

theorem cell_evalDflts_skip (cfg : Core.Cfg) (fr : RFrame) (st : St) : ∀ (F skip : Nat),
    evalDflts F cfg fr skip [] st = if skip < F then (.ok [], st) else (.error .oof, st) := by
  intro F
  induction F with
  | zero => intro skip; simp [evalDflts]
  | succ m ih =>
    intro skip
    cases skip with
    | zero => simp [evalDflts]
    | succ s =>
      simp only [evalDflts, ih s]
      by_cases h : s < m <;> simp [h]

theorem fromSpecs_fun (n : Nat) (fr : RFrame) :
    fromSpecs (List.replicate n Cell.var ++ [Cell.recur]) (some fr) = .ok (List.replicate n ECell.uninit ++ [ECell.localRec]) := by
  induction n with
  | zero => simp [fromSpecs, fromSpec]
  | succ m ih => simp [List.replicate_succ, fromSpecs, fromSpec, ih]

/-- `mkClos` of a function of the fragment, and `mkTemplate` of its compiled form in the root activation -/
theorem mk_both (cfg : Core.Cfg) (F : Nat) (fr : Core.Frame) (rfr : RFrame) (st : St) (name : String)
    (ps : List Core.Param) (body : Core.Expr) (k : Nat) (hd : ∀ p ∈ ps, p.dflt = none) (hs : fr.self = none)
    (hid : rfr.tmpl.id = []) :
    (Core.mkClos F cfg fr (.mk (some name) ps [] body) st =
      if ps.length + 1 < F then (.val (.clos (.mk (some name) ps [] body) [] fr.env), st) else (.oof, st)) ∧
    (mkTemplate F cfg rfr k (cfOf (ps.map Core.Param.name) body) st =
      if ps.length + 1 < F then (.val (.fn (tmplOf k (.mk (some name) ps [] body))), st) else (.oof, st)) := by
  cases F with
  | zero => simp [Core.mkClos, mkTemplate]
  | succ G =>
    constructor
    · simp only [Core.mkClos, Core.Func.params, core_evalDflts_none cfg fr st G ps hd, hs]
      by_cases h : ps.length < G <;> simp [h]
    · simp only [mkTemplate, cfOf, CFunc.cells, CFunc.defaults, CFunc.paramLen, CFunc.decls, CFunc.out,
        List.length_map, fromSpecs_fun, List.length_nil, Nat.sub_zero, cell_evalDflts_skip cfg rfr st G ps.length, hid]
      by_cases h : ps.length < G <;> simp [h, tmplOf, Core.Func.params, Core.Func.body]

/-! ### the declaration loop -/

def sigAfter : List (String × Nat) → List Core.Decl → List (String × Nat)
  | sig, [] => sig
  | sig, .letD _ _ :: rest => sigAfter sig rest
  | sig, .fnD f :: rest => sigAfter ((f.name.getD "", f.params.length) :: sig) rest

def DeclRelF (bad : List String) (sigF : List (String × Nat)) (root : Scope)
    (a : Except Core.Res Core.Frame × St) (b : Except CRes RFrame × St) : Prop :=
  a.2 = b.2 ∧
  match a.1, b.1 with
  | .ok fr, .ok rfr => InvR bad sigF fr root rfr root.cells.length
  | .error r, .error r' => r' = cr r
  | _, _ => False

theorem invR_let (bad : List String) (sig : List (String × Nat)) (fr : Core.Frame) (cur : Scope)
    (cells0 : List TCell) (h0 : Nat) (sp0 : Option RFrame) (t0 : Tmpl) (N : Nat)
    (inv : InvR bad sig fr cur (.mk cells0 h0 sp0 t0) N) (x : String) (v : Core.Val) (hv : closFree v = true)
    (hx : Scope.lookup x sig = none) (hb : x ∈ bad) (hN : cur.cells.length < N) (cur3 : Scope)
    (hc3 : cur3.cells = cur.cells ++ [.var]) (hv3 : cur3.vars = (x, cur.cells.length) :: cur.vars)
    (hf3 : cur3.funcs = cur.funcs) :
    InvR bad sig { fr with env := (x, v) :: fr.env } cur3
      (.mk (cells0.set cur.cells.length (.owned (.value (ofCore v)))) h0 sp0 t0) N := by
  have hn := inv.uninit cur.cells.length (Nat.le_refl _) hN
  simp only [RFrame.cells] at hn
  have hlt : cur.cells.length < cells0.length := by
    rcases Nat.lt_or_ge cur.cells.length cells0.length with h | h
    · exact h
    · rw [List.getElem?_eq_none_iff.mpr h] at hn; cases hn
  refine ⟨inv.self, inv.height, inv.tid, ?_, ?_, ?_, ?_⟩
  · intro y
    have old := inv.rel y
    simp only [RelAt, RFrame.cells, hv3, hf3] at old ⊢
    refine ⟨fun n c hs => (by rw [inv.self] at hs; cases hs), ?_⟩
    by_cases hy : y = x
    · subst hy
      simp only [Core.lookup, if_true, Scope.lookup]
      exact Or.inl ⟨hv, cur.cells.length, rfl, by rw [List.getElem?_set]; simp [hlt]⟩
    · simp only [Core.lookup, hy, if_false, Scope.lookup]
      cases hl : Core.lookup y fr.env with
      | none => rw [hl] at old; exact old.2
      | some w =>
        rw [hl] at old
        rcases old.2 with ⟨hw, k, hk, hc⟩ | ⟨f, envc, k, he, hfun, hvn, hfk, hc⟩
        · refine Or.inl ⟨hw, k, hk, ?_⟩
          have hne : cur.cells.length ≠ k := by intro e; rw [e] at hn; rw [hn] at hc; cases hc
          rw [List.getElem?_set_ne hne]; exact hc
        · refine Or.inr ⟨f, envc, k, he, hfun, hvn, hfk, ?_⟩
          have hne : cur.cells.length ≠ k := by intro e; rw [e] at hn; rw [hn] at hc; cases hc
          rw [List.getElem?_set_ne hne]; exact hc
  · intro y w hl
    simp only [Core.lookup] at hl
    split at hl
    · rename_i e; rw [e]; exact hb
    · exact inv.names y w hl
  · intro y
    have old := inv.sigOK y
    cases hs : Scope.lookup y sig with
    | some n =>
      rw [hs] at old
      have hy : y ≠ x := by intro e; rw [e, hx] at hs; cases hs
      simpa [Core.lookup, hy] using old
    | none =>
      rw [hs] at old
      intro w hl
      simp only [Core.lookup] at hl
      split at hl
      · cases hl; exact hv
      · exact old w hl
  · intro k hk1 hk2
    simp only [RFrame.cells]
    rw [hc3] at hk1
    simp only [List.length_append, List.length_cons, List.length_nil] at hk1
    rw [List.getElem?_set_ne (by omega)]
    exact inv.uninit k (by omega) hk2

theorem invR_fn (bad : List String) (sig : List (String × Nat)) (fr : Core.Frame) (cur : Scope)
    (cells0 : List TCell) (h0 : Nat) (sp0 : Option RFrame) (t0 : Tmpl) (N : Nat)
    (inv : InvR bad sig fr cur (.mk cells0 h0 sp0 t0) N) (name : String) (ps : List Core.Param) (body : Core.Expr)
    (hd : ∀ p ∈ ps, p.dflt = none) (hnn : name ∉ ps.map Core.Param.name) (hx : Scope.lookup name sig = none)
    (hb : name ∈ bad) (hbody : bodyOKB (ps.map Core.Param.name) bad body = true) (hN : cur.cells.length < N)
    (cur2 : Scope) (hc2 : cur2.cells = cur.cells ++ [.var]) (hv2 : cur2.vars = cur.vars)
    (hf2 : cur2.funcs = cur.funcs ++ [(name, cur.cells.length)])
    (hvn : Scope.lookup name cur.vars = none) (hfn : Scope.lookup name cur.funcs = none) :
    InvR bad ((name, ps.length) :: sig)
      { fr with env := (name, .clos (.mk (some name) ps [] body) [] fr.env) :: fr.env } cur2
      (.mk (cells0.set cur.cells.length (.owned (.value (.fn (tmplOf cur.cells.length (.mk (some name) ps [] body))))))
        h0 sp0 t0) N := by
  have hn := inv.uninit cur.cells.length (Nat.le_refl _) hN
  simp only [RFrame.cells] at hn
  have hlt : cur.cells.length < cells0.length := by
    rcases Nat.lt_or_ge cur.cells.length cells0.length with h | h
    · exact h
    · rw [List.getElem?_eq_none_iff.mpr h] at hn; cases hn
  have hfun : FunOK name (.mk (some name) ps [] body) fr.env := by
    refine ⟨rfl, rfl, hd, hnn, ?_⟩
    apply bodyOKB_BodyOK _ bad name fr.env hb _ body hbody
    intro g hg
    cases hl : Core.lookup g fr.env with
    | none => rfl
    | some w => exact absurd (inv.names g w hl) hg
  refine ⟨inv.self, inv.height, inv.tid, ?_, ?_, ?_, ?_⟩
  · intro y
    have old := inv.rel y
    simp only [RelAt, RFrame.cells, hv2, hf2] at old ⊢
    refine ⟨fun n c hs => (by rw [inv.self] at hs; cases hs), ?_⟩
    by_cases hy : y = name
    · subst hy
      simp only [Core.lookup, if_true]
      refine Or.inr ⟨_, fr.env, cur.cells.length, rfl, hfun, hvn, ?_, ?_⟩
      · rw [scope_lookup_append, hfn]; simp [Scope.lookup]
      · rw [List.getElem?_set]; simp [hlt]
    · simp only [Core.lookup, hy, if_false]
      have hfy : Scope.lookup y (cur.funcs ++ [(name, cur.cells.length)]) = Scope.lookup y cur.funcs := by
        rw [scope_lookup_append]
        cases Scope.lookup y cur.funcs with
        | some k => rfl
        | none => simp [Scope.lookup, hy]
      rw [hfy]
      cases hl : Core.lookup y fr.env with
      | none => rw [hl] at old; exact old.2
      | some w =>
        rw [hl] at old
        rcases old.2 with ⟨hw, k, hk, hc⟩ | ⟨f, envc, k, he, hfo, hvn', hfk, hc⟩
        · refine Or.inl ⟨hw, k, hk, ?_⟩
          have hne : cur.cells.length ≠ k := by intro e; rw [e] at hn; rw [hn] at hc; cases hc
          rw [List.getElem?_set_ne hne]; exact hc
        · refine Or.inr ⟨f, envc, k, he, hfo, hvn', hfk, ?_⟩
          have hne : cur.cells.length ≠ k := by intro e; rw [e] at hn; rw [hn] at hc; cases hc
          rw [List.getElem?_set_ne hne]; exact hc
  · intro y w hl
    simp only [Core.lookup] at hl
    split at hl
    · rename_i e; rw [e]; exact hb
    · exact inv.names y w hl
  · intro y
    have old := inv.sigOK y
    by_cases hy : y = name
    · subst hy
      simp only [Scope.lookup, if_true, Core.lookup]
      exact ⟨_, fr.env, rfl, rfl⟩
    · simp only [Scope.lookup, hy, if_false, Core.lookup]
      exact old
  · intro k hk1 hk2
    simp only [RFrame.cells]
    rw [hc2] at hk1
    simp only [List.length_append, List.length_cons, List.length_nil] at hk1
    rw [List.getElem?_set_ne (by omega)]
    exact inv.uninit k (by omega) hk2

theorem overloadCells_append (x : String) (a b : List (String × Nat)) :
    overloadCells x (a ++ b) = overloadCells x a ++ overloadCells x b := by
  induction a with
  | nil => rfl
  | cons p rest ih =>
    obtain ⟨y, k⟩ := p
    simp only [List.cons_append, overloadCells]
    split <;> simp [ih]

theorem invC_let (bad : List String) (sig : List (String × Nat)) (cur cur3 : Scope) (inv : InvC bad sig cur) (x : String)
    (hx : Scope.lookup x sig = none) (hb : x ∈ bad)
    (hc : cur3.cells = cur.cells ++ [.var]) (hv : cur3.vars = (x, cur.cells.length) :: cur.vars)
    (hf : cur3.funcs = cur.funcs) (hfw : cur3.forwards = cur.forwards) (hr : cur3.reqs = cur.reqs)
    (hh : cur3.height = cur.height) : InvC bad sig cur3 := by
  have hxf : Scope.lookup x cur.funcs = none := by
    have := inv.funsig x
    rw [hx] at this
    cases h : Scope.lookup x cur.funcs with
    | none => rfl
    | some k => rw [h] at this; simp at this
  refine ⟨by rw [hh, inv.height], by rw [hfw, inv.forwards], ?_, ?_, ?_, ?_, ?_, ?_, ?_⟩
  · intro k; simp only [Scope.cellReqs, hr]; exact inv.reqs k
  · intro c hc'
    rw [hc] at hc'
    simp only [List.mem_append, List.mem_cons, List.not_mem_nil, or_false] at hc'
    rcases hc' with h | h
    · exact inv.allVar c h
    · exact h
  · intro y k h
    rw [hv] at h
    rw [hc]
    simp only [Scope.lookup] at h
    simp only [List.length_append, List.length_cons, List.length_nil]
    split at h
    · cases h; omega
    · have := inv.varsLt y k h; omega
  · intro y k h
    rw [hf] at h
    obtain ⟨h1, h2, h3⟩ := inv.funs y k h
    have hyx : y ≠ x := by intro e; rw [e, hxf] at h; cases h
    refine ⟨by rw [hc]; simp only [List.length_append, List.length_cons, List.length_nil]; omega, by rw [hf]; exact h2, ?_⟩
    rw [hv]; simp [Scope.lookup, hyx, h3]
  · intro y k h
    rw [hv] at h
    simp only [Scope.lookup] at h
    split at h
    · rename_i e; rw [e]; exact hb
    · exact inv.varsBad y k h
  · intro y k h; rw [hf] at h; exact inv.funsBad y k h
  · intro y; rw [hf]; exact inv.funsig y

theorem invC_fn (bad : List String) (sig : List (String × Nat)) (cur cur2 : Scope) (inv : InvC bad sig cur) (name : String)
    (n : Nat) (hx : Scope.lookup name sig = none) (hb : name ∈ bad) (hvn : Scope.lookup name cur.vars = none)
    (hc : cur2.cells = cur.cells ++ [.var]) (hv : cur2.vars = cur.vars)
    (hf : cur2.funcs = cur.funcs ++ [(name, cur.cells.length)]) (hfw : cur2.forwards = cur.forwards)
    (hr : cur2.reqs = (cur.cells.length, []) :: cur.reqs) (hh : cur2.height = cur.height) :
    InvC bad ((name, n) :: sig) cur2 := by
  have hxf : Scope.lookup name cur.funcs = none := by
    have := inv.funsig name
    rw [hx] at this
    cases h : Scope.lookup name cur.funcs with
    | none => rfl
    | some k => rw [h] at this; simp at this
  have hlk : ∀ y, Scope.lookup y (cur.funcs ++ [(name, cur.cells.length)]) =
      if y = name then some cur.cells.length else Scope.lookup y cur.funcs := by
    intro y
    rw [scope_lookup_append]
    by_cases hy : y = name
    · subst hy; simp [hxf, Scope.lookup]
    · cases Scope.lookup y cur.funcs <;> simp [Scope.lookup, hy]
  refine ⟨by rw [hh, inv.height], by rw [hfw, inv.forwards], ?_, ?_, ?_, ?_, ?_, ?_, ?_⟩
  · intro k
    simp only [Scope.cellReqs, hr, lookupReqs]
    split
    · rfl
    · exact inv.reqs k
  · intro c hc'
    rw [hc] at hc'
    simp only [List.mem_append, List.mem_cons, List.not_mem_nil, or_false] at hc'
    rcases hc' with h | h
    · exact inv.allVar c h
    · exact h
  · intro y k h
    rw [hv] at h
    have := inv.varsLt y k h
    rw [hc]; simp only [List.length_append, List.length_cons, List.length_nil]; omega
  · intro y k h
    rw [hf, hlk] at h
    rw [hc, hf, hv, overloadCells_append]
    simp only [List.length_append, List.length_cons, List.length_nil]
    by_cases hy : y = name
    · subst hy
      simp only [if_true, Option.some.injEq] at h
      subst h
      refine ⟨by omega, ?_, hvn⟩
      simp [overloadCells_of_lookup_none _ _ hxf, overloadCells]
    · simp only [hy, if_false] at h
      obtain ⟨h1, h2, h3⟩ := inv.funs y k h
      refine ⟨by omega, ?_, h3⟩
      simp [h2, overloadCells, hy]
  · intro y k h; rw [hv] at h; exact inv.varsBad y k h
  · intro y k h
    rw [hf, hlk] at h
    by_cases hy : y = name
    · rw [hy]; exact hb
    · simp only [hy, if_false] at h; exact inv.funsBad y k h
  · intro y
    rw [hf, hlk]
    by_cases hy : y = name
    · simp [hy, Scope.lookup]
    · simp only [hy, if_false, Scope.lookup]; exact inv.funsig y

def letScope (cur : Scope) (x : String) (e : XE) : Scope :=
  { cur with cells := cur.cells ++ [.var], vars := (x, cur.cells.length) :: cur.vars,
             decls := cur.decls ++ [.value cur.cells.length e] }

def fnScope (cur : Scope) (name : String) (f : CFunc) : Scope :=
  { cur with cells := cur.cells ++ [.var], reqs := (cur.cells.length, []) :: cur.reqs,
             funcs := cur.funcs ++ [(name, cur.cells.length)], decls := cur.decls ++ [.func cur.cells.length f] }

theorem addVariable_ok (cur : Scope) (x : String) (e : XE) (h : Scope.lookup x cur.funcs = none) :
    addVariable cur x e = .ok (letScope cur x e) := by
  simp [addVariable, Scope.hasOverloads, overloadCells_of_lookup_none x _ h, letScope]

theorem addStaticFunc_ok (cur : Scope) (name : String) (names : List String) (body : Core.Expr)
    (hv : Scope.lookup name cur.vars = none) (hf : cur.forwards = []) :
    addStaticFunc cur name (cfOf names body) = .ok (fnScope cur name (cfOf names body)) := by
  simp [addStaticFunc, Scope.hasVariable, hv, hf, fulfil, fnScope, cfOf, CFunc.freqs]

theorem feed_runF (cfg : Core.Cfg) (bad : List String) : ∀ (ds : List Core.Decl) (sig : List (String × Nat)) (cf : Nat)
    (cur root : Scope), declsOKF bad sig ds = true → InvC bad sig cur → feedDecls cf [] cur (ofDecls ds) = .ok root →
    InvC bad (sigAfter sig ds) root ∧ cur.cells.length ≤ root.cells.length ∧ ∃ D, root.decls = cur.decls ++ D ∧
    (∀ c a rest, D ≠ .param c a :: rest) ∧
    ∀ (fuel : Nat) (fr : Core.Frame) (rfr : RFrame) (st : St) (args : List CVal),
      InvR bad sig fr cur rfr root.cells.length →
      DeclRelF bad (sigAfter sig ds) root (Core.evalDecls fuel cfg fr ds st) (runDecls fuel cfg rfr D args st) := by
  intro ds
  induction ds with
  | nil =>
    intro sig cf cur root _ invc h
    cases cf with
    | zero => simp [ofDecls, feedDecls] at h
    | succ c =>
      simp only [ofDecls, feedDecls, Except.ok.injEq] at h
      subst h
      refine ⟨invc, Nat.le_refl _, [], by simp, (fun c a rest e => by cases e), ?_⟩
      intro fuel fr rfr st args invr
      cases fuel with
      | zero => simp [DeclRelF, Core.evalDecls, runDecls, cr]
      | succ F => simpa [DeclRelF, Core.evalDecls, runDecls, sigAfter] using invr
  | cons d rest ih =>
    intro sig cf cur root hok invc h
    cases d with
    | letD x e =>
      simp only [declsOKF, Bool.and_eq_true, Option.isNone_iff_eq_none, List.contains_eq_mem, decide_eq_true_eq] at hok
      obtain ⟨⟨⟨hoe, hxs⟩, hxb⟩, hrest⟩ := hok
      cases cf with
      | zero => simp [ofDecls, feedDecls] at h
      | succ c =>
        simp only [ofDecls, feedDecls] at h
        split at h
        · cases h
        · rename_i p cur1 hp
          have e1 := (parse_frag c).1 e (exprOKF_exprOK sig e hoe) [] cur _ hp
          simp only [Prod.mk.injEq] at e1
          obtain ⟨rfl, rfl⟩ := e1
          split at h
          · cases h
          · rename_i c' cur2 hc
            have e2 := (compile_fragF c).1 e [] cur1 cur1.vars cur1.funcs _
              (cw_root bad sig cur1 invc e (exprOKF_exprOK sig e hoe)) hc
            simp only [Prod.mk.injEq] at e2
            obtain ⟨rfl, rfl⟩ := e2
            have hxf : Scope.lookup x cur2.funcs = none := by
              have := invc.funsig x
              rw [hxs] at this
              cases hq : Scope.lookup x cur2.funcs with
              | none => rfl
              | some k => rw [hq] at this; simp at this
            rw [addVariable_ok cur2 x _ hxf] at h
            have inv3 := invC_let bad sig cur2 (letScope cur2 x (cxf cur2.vars cur2.funcs e)) invc x hxs hxb rfl rfl rfl rfl rfl rfl
            obtain ⟨invR', hlen, D', hD', hnp, hsim⟩ := ih sig c _ root hrest inv3 h
            simp only [letScope, List.length_append, List.length_cons, List.length_nil] at hlen
            refine ⟨by simpa [sigAfter] using invR', by omega,
              .value cur2.cells.length (cxf cur2.vars cur2.funcs e) :: D', by rw [hD']; simp [letScope],
              (fun c a r e' => by cases e'), ?_⟩
            intro fuel fr rfr st args invr
            obtain ⟨cells0, h0, sp0, t0⟩ := rfr
            cases fuel with
            | zero => simp [DeclRelF, Core.evalDecls, runDecls, cr]
            | succ F =>
              have hw := wf_root bad sig fr cur2 _ _ invr e hoe
              obtain ⟨hev, hgood⟩ := (simF_all cfg F).1 e ⟨fr, cur2.vars, cur2.funcs, .mk cells0 h0 sp0 t0⟩ false st hw
              simp only [Core.evalDecls, runDecls, hev, sigAfter]
              cases hr : Core.eval F cfg fr e false st with
              | mk r s1 =>
                rw [hr] at hgood
                cases r with
                | val v =>
                  simp only [Good] at hgood
                  have hn := invr.uninit cur2.cells.length (Nat.le_refl _) (by omega)
                  simp only [RFrame.cells] at hn
                  simp only [cr, RFrame.put, putCell, RFrame.cells, hn]
                  exact hsim F _ _ s1 args
                    (invR_let bad sig fr cur2 cells0 h0 sp0 t0 _ invr x v hgood hxs hxb (by omega) (letScope cur2 x (cxf cur2.vars cur2.funcs e)) rfl rfl rfl)
                | viol k => simp [DeclRelF, cr]
                | tail a => simp [Good] at hgood
                | stuck w => simp [DeclRelF, cr]
                | oof => simp [DeclRelF, cr]
    | fnD f =>
      obtain ⟨nm, ps, fds, body⟩ := f
      cases nm with
      | none => simp [declsOKF] at hok
      | some name =>
        cases fds with
        | cons _ _ => simp [declsOKF] at hok
        | nil =>
          simp only [declsOKF, Bool.and_eq_true, Option.isNone_iff_eq_none, List.contains_eq_mem, decide_eq_true_eq,
            Bool.not_eq_true', decide_eq_false_iff_not, List.all_eq_true] at hok
          obtain ⟨⟨⟨⟨⟨hd', hnn⟩, hxs⟩, hxb⟩, hbody⟩, hrest⟩ := hok
          have hd : ∀ p ∈ ps, p.dflt = none := fun p hp => hd' p hp
          cases cf with
          | zero => simp [ofDecls, feedDecls] at h
          | succ c =>
            simp only [ofDecls, feedDecls, Option.getD_some] at h
            split at h
            · cases h
            · rename_i cf' cur1 hcl
              have hvb : ∀ g, g ∉ bad → Scope.lookup g cur.vars = none := by
                intro g hg
                cases hq : Scope.lookup g cur.vars with
                | none => rfl
                | some k => exact absurd (invc.varsBad g k hq) hg
              have hfb : ∀ g, g ∉ bad → overloadCells g cur.funcs = [] := by
                intro g hg
                apply overloadCells_of_lookup_none
                cases hq : Scope.lookup g cur.funcs with
                | none => rfl
                | some k => exact absurd (invc.funsBad g k hq) hg
              have e1 := close_fun c cur name ps body _ hd hnn (bodyOKB_exprOK _ bad body hbody)
                (bodyOKB_BodyC _ bad name cur hxb hvb hfb body hbody) hcl
              simp only [Prod.mk.injEq] at e1
              obtain ⟨rfl, rfl⟩ := e1
              cases hvn : Scope.lookup name cur1.vars with
              | some k => simp [addStaticFunc, Scope.hasVariable, hvn] at h
              | none =>
                have hxf : Scope.lookup name cur1.funcs = none := by
                  have := invc.funsig name
                  rw [hxs] at this
                  cases hq : Scope.lookup name cur1.funcs with
                  | none => rfl
                  | some k => rw [hq] at this; simp at this
                rw [addStaticFunc_ok cur1 name _ body hvn invc.forwards] at h
                have inv2 := invC_fn bad sig cur1 (fnScope cur1 name (cfOf (ps.map Core.Param.name) body)) invc name
                  ps.length hxs hxb hvn rfl rfl rfl rfl rfl rfl
                obtain ⟨invR', hlen, D', hD', hnp, hsim⟩ := ih _ c _ root hrest inv2 h
                simp only [fnScope, List.length_append, List.length_cons, List.length_nil] at hlen
                refine ⟨by simpa [sigAfter, Core.Func.name, Core.Func.params] using invR', by omega,
                  .func cur1.cells.length (cfOf (ps.map Core.Param.name) body) :: D', by rw [hD']; simp [fnScope],
                  (fun c a r e' => by cases e'), ?_⟩
                intro fuel fr rfr st args invr
                obtain ⟨cells0, h0, sp0, t0⟩ := rfr
                cases fuel with
                | zero => simp [DeclRelF, Core.evalDecls, runDecls, cr]
                | succ F =>
                  obtain ⟨hm1, hm2⟩ := mk_both cfg F fr (.mk cells0 h0 sp0 t0) st name ps body cur1.cells.length hd
                    invr.self invr.tid
                  simp only [Core.evalDecls, runDecls, hm1, hm2, sigAfter, Core.Func.name, Core.Func.params, Option.getD_some]
                  by_cases hF : ps.length + 1 < F
                  · have hn := invr.uninit cur1.cells.length (Nat.le_refl _) (by omega)
                    simp only [RFrame.cells] at hn
                    simp only [hF, if_true, RFrame.put, putCell, RFrame.cells, hn]
                    exact hsim F _ _ st args
                      (invR_fn bad sig fr cur1 cells0 h0 sp0 t0 _ invr name ps body hd hnn hxs hxb hbody (by omega)
                        (fnScope cur1 name (cfOf (ps.map Core.Param.name) body)) rfl rfl rfl hvn hxf)
                  · simp [hF, DeclRelF, cr]

/-- programs of `let`s and top-level functions without captures: the compiled program on the cell machine and the named
evaluator on the source end in the same state and related outcomes (every name's cell holds the named value, every
function's cell its template), for every fuel -/
theorem compile_correct_program_funs (cfg : Core.Cfg) (ds : List Core.Decl) (hok : progOKF ds = true) (cf : Nat)
    (root : Scope) (hc : compileProgram cf (ofDecls ds) = .ok root) (hdl : cfg.depthLimit ≠ some 0) (fuel : Nat) :
    DeclRelF (declNames ds) (sigAfter [] ds) root (Core.runProgram fuel cfg ds) (runRoot fuel cfg root) := by
  have invc0 : InvC (declNames ds) [] ({} : Scope) :=
    ⟨rfl, rfl, by intro k; rfl, by intro c hc; simp at hc, by intro x k h; simp [Scope.lookup] at h,
     by intro x k h; simp [Scope.lookup] at h, by intro x k h; simp [Scope.lookup] at h,
     by intro x k h; simp [Scope.lookup] at h, by intro x; rfl⟩
  obtain ⟨invcR, -, D, hD, hnp, hsim⟩ := feed_runF cfg (declNames ds) ds [] cf {} root hok invc0 hc
  simp only [List.nil_append] at hD
  have hrp : ∀ fr0 : RFrame, runParams fr0 root.decls [] = .ok (fr0, root.decls) := by
    intro fr0
    rw [hD]
    cases D with
    | nil => simp [runParams]
    | cons d rest =>
      cases d with
      | param c a => exact absurd rfl (hnp c a rest)
      | value c e => simp [runParams]
      | func c f => simp [runParams]
  have fin : DeclRelF (declNames ds) (sigAfter [] ds) root
      (Core.evalDecls fuel cfg { env := [], self := none, height := 0 } ds { })
      (runDecls fuel cfg
        (RFrame.mk (List.replicate root.cells.length (TCell.owned ECell.uninit)) 0 none
          (Tmpl.mk [] none (List.replicate root.cells.length ECell.uninit) root.decls 0 [] none))
        root.decls [] { }) := by
    rw [hD]
    apply hsim fuel { env := [], self := none, height := 0 } _ {} []
    refine ⟨rfl, rfl, rfl, ?_, ?_, ?_, ?_⟩
    · intro x
      simp only [RelAt]
      exact ⟨fun n c hs => (by cases hs), (by simp [Core.lookup, Scope.lookup])⟩
    · intro x v h; simp [Core.lookup] at h
    · intro x; simp [Scope.lookup, Core.lookup]
    · intro k _ hk
      simp only [RFrame.cells]
      rw [List.getElem?_replicate]
      simp [hk]
  simp only [runRoot, fromSpecs_allVar root.cells invcR.allVar, fromTemplate, initFrame, Tmpl.parentId, Tmpl.cells,
    Tmpl.decls, Core.runProgram, map_const_replicate, initCells_uninit]
  cases hl : cfg.depthLimit with
  | none => simpa [hrp] using fin
  | some l =>
    have : l ≠ 0 := by intro h0; subst h0; exact hdl hl
    simpa [this, hrp] using fin

end XrayModel.CellRun
