/-
Helper lemmas for C07 (tail-call optimisation is semantically transparent) over the core evaluator
(XrayModel/Core.lean).  The property theorems themselves are in Props/C07.lean.
-/
import XrayProofs.Core
namespace XrayModel.Core

def Res.isTail : Res → Bool
  | .tail _ => true
  | _ => false

@[simp] theorem Res.isTail_val (v) : (Res.val v).isTail = false := rfl
@[simp] theorem Res.isTail_viol (v) : (Res.viol v).isTail = false := rfl
@[simp] theorem Res.isTail_stuck (v) : (Res.stuck v).isTail = false := rfl
@[simp] theorem Res.isTail_oof : Res.oof.isTail = false := rfl
@[simp] theorem Res.isTail_tail (v) : (Res.tail v).isTail = true := rfl

/-- an `Except Res α` outcome does not carry a tail call -/
def exNoTail {α : Type} : Except Res α → Prop
  | .ok _ => True
  | .error r => r.isTail = false

structure NoTailAt (n : Nat) (cfg : Cfg) : Prop where
  eval : ∀ fr e tail st, (tail && cfg.tco) = false → (eval n cfg fr e tail st).1.isTail = false
  callNamed : ∀ fr f args tail st, (tail && cfg.tco) = false → (callNamed n cfg fr f args tail st).1.isTail = false
  builtin : ∀ fr f args tail st, (tail && cfg.tco) = false → (builtin n cfg fr f args tail st).1.isTail = false
  callVal : ∀ fr c args tail st, (callVal n cfg fr c args tail st).1.isTail = false
  evalList : ∀ fr es st, exNoTail (evalList n cfg fr es st).1
  mkClos : ∀ fr f st, (mkClos n cfg fr f st).1.isTail = false
  evalDflts : ∀ fr ps st, exNoTail (evalDflts n cfg fr ps st).1
  callUser : ∀ h c args st, (callUser n cfg h c args st).1.isTail = false
  tramp : ∀ h c args rec st, (tramp n cfg h c args rec st).1.isTail = false
  evalDecls : ∀ fr ds st, exNoTail (evalDecls n cfg fr ds st).1


theorem isTail_false_of {x : Res × St} (h : ∀ a s, x = (Res.tail a, s) → False) : x.1.isTail = false := by
  obtain ⟨r, s⟩ := x
  cases r <;> simp_all

theorem exNoTail_of {α} {x : Except Res α × St} (h : ∀ a s, x = (.error (Res.tail a), s) → False) : exNoTail x.1 := by
  obtain ⟨r, s⟩ := x
  cases r with
  | ok _ => trivial
  | error r => cases r <;> simp_all [exNoTail]


theorem NoTailAt.evalList' {n cfg} (ih : NoTailAt n cfg) {fr es st r s}
    (h : Core.evalList n cfg fr es st = (.error r, s)) : r.isTail = false := by
  have := ih.evalList fr es st; rw [h] at this; exact this
theorem NoTailAt.evalDflts' {n cfg} (ih : NoTailAt n cfg) {fr es st r s}
    (h : Core.evalDflts n cfg fr es st = (.error r, s)) : r.isTail = false := by
  have := ih.evalDflts fr es st; rw [h] at this; exact this
theorem NoTailAt.evalDecls' {n cfg} (ih : NoTailAt n cfg) {fr es st r s}
    (h : Core.evalDecls n cfg fr es st = (.error r, s)) : r.isTail = false := by
  have := ih.evalDecls fr es st; rw [h] at this; exact this

theorem prim_isTail (f : String) (vs : List Val) : (prim f vs).isTail = false := by
  unfold prim
  repeat' split
  all_goals rfl

theorem isTail_false_of' {r : Res} (h : ∀ a, r = Res.tail a → False) : r.isTail = false := by
  cases r <;> simp_all

theorem noTailAt (cfg : Cfg) (n : Nat) : NoTailAt n cfg := by
  induction n with
  | zero => constructor <;> intros <;> simp [eval, callNamed, builtin, callVal, evalList, mkClos, evalDflts, callUser, tramp, evalDecls, exNoTail]
  | succ n ih =>
    constructor
    case eval =>
      intro fr e tail st ht
      simp only [eval]
      repeat' split
      all_goals first
        | rfl
        | exact ih.mkClos _ _ _
        | exact ih.callVal _ _ _ _ _
        | exact ih.callNamed _ _ _ _ _ ht
        | (apply isTail_false_of; assumption)
        | exact ih.evalList' (by assumption)
        | simp_all
    case callNamed =>
      intro fr f args tail st ht
      simp only [callNamed]
      repeat' split
      all_goals first
        | exact ih.callVal _ _ _ _ _
        | exact ih.builtin _ _ _ _ _ ht
    case builtin =>
      intro fr f args tail st ht
      simp only [builtin]
      repeat' split
      all_goals first
        | rfl
        | exact ih.eval _ _ _ _ ht
        | (apply isTail_false_of; assumption)
        | exact ih.evalList' (by assumption)
        | exact prim_isTail _ _
    case callVal =>
      intro fr c args tail st
      simp only [callVal]
      repeat' split
      all_goals first
        | rfl
        | exact ih.callUser _ _ _ _
        | exact ih.evalList' (by assumption)
    case evalList =>
      intro fr es st
      simp only [evalList]
      repeat' split
      all_goals first
        | trivial
        | (apply exNoTail_of; assumption)
        | exact ih.evalList _ _ _
        | exact isTail_false_of' (by assumption)
    case mkClos =>
      intro fr f st
      simp only [mkClos]
      repeat' split
      all_goals first
        | rfl
        | exact ih.evalDflts' (by assumption)
    case evalDflts =>
      intro fr ps st
      simp only [evalDflts]
      repeat' split
      all_goals first
        | trivial
        | (apply exNoTail_of; assumption)
        | exact ih.evalDflts _ _ _
        | exact isTail_false_of' (by assumption)
    case callUser =>
      intro h c args st
      simp only [callUser]
      repeat' split
      all_goals first
        | rfl
        | exact ih.tramp _ _ _ _ _
    case tramp =>
      intro h c args rec st
      simp only [tramp]
      repeat' split
      all_goals first
        | rfl
        | exact ih.tramp _ _ _ _ _
        | (apply isTail_false_of; assumption)
        | exact ih.evalDecls' (by assumption)
    case evalDecls =>
      intro fr ds st
      simp only [evalDecls]
      repeat' split
      all_goals first
        | trivial
        | exact ih.evalDecls _ _ _
        | exact isTail_false_of' (by assumption)

theorem Res.isTail_false_iff (r : Res) : r.isTail = false ↔ ∀ a, r ≠ .tail a := by
  cases r <;> simp

/-! ### where a tail call comes from -/

/-- `e` is, syntactically, a call by name of `self` in tail position: the call itself, or the
forwarded argument of one of the natives that hand their tail slot on (`if` then/else, the second
argument of `and`, `or`, `if_error`). -/
inductive TailPos (self : String) : Expr → Prop
  | call (args : List Expr) : TailPos self (.call self args)
  | ifThen (c a b : Expr) : TailPos self a → TailPos self (.call "if" [c, a, b])
  | ifElse (c a b : Expr) : TailPos self b → TailPos self (.call "if" [c, a, b])
  | and (a b : Expr) : TailPos self b → TailPos self (.call "and" [a, b])
  | or (a b : Expr) : TailPos self b → TailPos self (.call "or" [a, b])
  | ifError (a b : Expr) : TailPos self b → TailPos self (.call "if_error" [a, b])

/-- where a tail call can come from: the slot was offered, tco is on, the frame has a recursion
cell that is not shadowed, and the expression is a call by name of that cell in tail position -/
def TailOrigin (cfg : Cfg) (fr : Frame) (tail : Bool) (e : Expr) : Prop :=
  tail = true ∧ cfg.tco = true ∧
    ∃ name c, fr.self = some (name, c) ∧ lookup name fr.env = none ∧ TailPos name e

theorem tail_contra {x : Res × St} {a s} (h : x = (Res.tail a, s)) (hx : x.1.isTail = false) : False := by
  subst h; simp at hx

theorem prim_ne_tail {f vs a} {s s' : St} (h : (prim f vs, s) = (Res.tail a, s')) : False := by
  have := prim_isTail f vs
  simp only [Prod.mk.injEq] at h
  rw [h.1] at this; simp at this

theorem TailOrigin.lift {cfg fr tail e e'} (h : TailOrigin cfg fr tail e)
    (f : ∀ name, TailPos name e → TailPos name e') : TailOrigin cfg fr tail e' := by
  obtain ⟨h1, h2, name, c, h3, h4, h5⟩ := h
  exact ⟨h1, h2, name, c, h3, h4, f _ h5⟩

structure TailOriginAt (n : Nat) (cfg : Cfg) : Prop where
  eval : ∀ fr e tail st a st', eval n cfg fr e tail st = (.tail a, st') → TailOrigin cfg fr tail e
  callNamed : ∀ fr f args tail st a st', callNamed n cfg fr f args tail st = (.tail a, st') →
    TailOrigin cfg fr tail (.call f args)
  builtin : ∀ fr f args tail st a st', builtin n cfg fr f args tail st = (.tail a, st') →
    TailOrigin cfg fr tail (.call f args)

theorem tailOriginAt (cfg : Cfg) (n : Nat) : TailOriginAt n cfg := by
  induction n with
  | zero => constructor <;> intros <;> simp_all [eval, callNamed, builtin]
  | succ n ih =>
    have nt := noTailAt cfg n
    constructor
    case eval =>
      intro fr e tail st a st' h
      simp only [eval] at h
      repeat' split at h
      all_goals first
        | (simp at h; done)
        | exact (tail_contra h (nt.mkClos _ _ _)).elim
        | exact (tail_contra h (nt.callVal _ _ _ _ _)).elim
        | exact (tail_contra h (nt.eval _ _ false _ (by simp))).elim
        | exact ih.callNamed _ _ _ _ _ _ _ h
        | (cases h; exact absurd (nt.evalList' (by assumption)) (by simp))
        | skip
      rename_i name c hs hf ht _ _ _ _
      simp only [Bool.and_eq_true, decide_eq_true_eq, Option.isNone_iff_eq_none] at hf ht
      obtain ⟨rfl, hl⟩ := hf
      exact ⟨ht.1, ht.2, _, _, hs, hl, .call _⟩
    case callNamed =>
      intro fr f args tail st a st' h
      simp only [callNamed] at h
      repeat' split at h
      all_goals first
        | exact (tail_contra h (nt.callVal _ _ _ _ _)).elim
        | exact ih.builtin _ _ _ _ _ _ _ h
    case builtin =>
      intro fr f args tail st a st' h
      simp only [builtin] at h
      repeat' split at h
      all_goals first
        | (simp at h; done)
        | exact (tail_contra h (nt.eval _ _ false _ (by simp))).elim
        | (cases h; exact absurd (nt.evalList' (by assumption)) (by simp))
        | exact (prim_ne_tail h).elim
        | exact (ih.eval _ _ _ _ _ _ h).lift (fun _ => .ifThen _ _ _)
        | exact (ih.eval _ _ _ _ _ _ h).lift (fun _ => .ifElse _ _ _)
        | exact (ih.eval _ _ _ _ _ _ h).lift (fun _ => .and _ _)
        | exact (ih.eval _ _ _ _ _ _ h).lift (fun _ => .or _ _)
        | exact (ih.eval _ _ _ _ _ _ h).lift (fun _ => .ifError _ _)

theorem TailPos.inv {name f : String} {args : List Expr} (h : TailPos name (.call f args)) :
    f = name ∨
    (∃ c a b, f = "if" ∧ args = [c, a, b] ∧ (TailPos name a ∨ TailPos name b)) ∨
    (∃ a b, (f = "and" ∨ f = "or" ∨ f = "if_error") ∧ args = [a, b] ∧ TailPos name b) := by
  cases h with
  | call => exact .inl rfl
  | ifThen c a b h => exact .inr (.inl ⟨c, a, b, rfl, rfl, .inl h⟩)
  | ifElse c a b h => exact .inr (.inl ⟨c, a, b, rfl, rfl, .inr h⟩)
  | and a b h => exact .inr (.inr ⟨a, b, .inl rfl, rfl, h⟩)
  | or a b h => exact .inr (.inr ⟨a, b, .inr (.inl rfl), rfl, h⟩)
  | ifError a b h => exact .inr (.inr ⟨a, b, .inr (.inr rfl), rfl, h⟩)

/-! ### one iteration of the trampoline -/

/-- the recursion cell of a frame running `f` as closure `c` -/
def selfCell (c : Val) (f : Func) : Option (String × Val) :=
  match f.name with
  | some n => some (n, c)
  | none => none

/-- the frame `from_template` builds for a call of the closure `.clos f dflts env` from height `h` -/
def callFrame (h : Nat) (f : Func) (dflts : List Val) (env ps : List (String × Val)) : Frame :=
  { env := ps.reverse ++ env, self := selfCell (.clos f dflts env) f, height := h + 1 }

def depthOk (cfg : Cfg) (h : Nat) : Prop := ∀ l, cfg.depthLimit = some l → h + 1 < l
def recOk (cfg : Cfg) (rec' : Nat) : Prop := ∀ l, cfg.recLimit = some l → rec' ≤ l

theorem tramp_body_tail (fuel : Nat) (cfg : Cfg) (h : Nat) (f : Func) (dflts : List Val) (env ps : List (String × Val))
    (args newArgs : List Val) (rec : Nat) (st st1 st2 : St) (fr' : Frame)
    (hd : depthOk cfg h)
    (hb : bindParams f.params args dflts = some ps)
    (hdecl : evalDecls fuel cfg (callFrame h f dflts env ps) f.decls st = (.ok fr', st1))
    (hbody : eval fuel cfg fr' f.body true st1 = (.tail newArgs, st2)) :
    (recOk cfg (rec + 1) →
      tramp (fuel + 1) cfg h (.clos f dflts env) args rec st = tramp fuel cfg h (.clos f dflts env) newArgs (rec + 1) st2) ∧
    (∀ l, cfg.recLimit = some l → rec + 1 > l →
      tramp (fuel + 1) cfg h (.clos f dflts env) args rec st = (.viol .recursion, st2)) := by
  unfold callFrame selfCell at hdecl
  unfold depthOk at hd
  have key : tramp (fuel + 1) cfg h (.clos f dflts env) args rec st =
      if (match cfg.recLimit with | some l => decide (rec + 1 > l) | none => false) then (.viol .recursion, st2)
      else tramp fuel cfg h (.clos f dflts env) newArgs (rec + 1) st2 := by
    cases hn : f.name <;> simp only [hn] at hdecl <;> cases hdl : cfg.depthLimit
    all_goals first
      | (simp [tramp, hdl, hn, hb, hdecl, hbody]; done)
      | (simp [tramp, hdl, hn, hb, hdecl, hbody]; rfl)
      | (rename_i l; have := hd l hdl; have h2 : ¬ (l ≤ h + 1) := by omega
         simp [tramp, hdl, hn, hb, hdecl, hbody, h2]; done)
      | (rename_i l; have := hd l hdl; have h2 : ¬ (l ≤ h + 1) := by omega
         simp [tramp, hdl, hn, hb, hdecl, hbody, h2]; rfl)
  rw [key]
  constructor
  · intro hr
    cases hl : cfg.recLimit with
    | none => simp
    | some l => have := hr l hl; simp; omega
  · intro l hl hgt
    simp [hl, hgt]

/-! ### `unwrap_value` is never applied to a TailCall: the outcome "tail escaped" is unreachable -/

/-- the outcome "the interpreter applied `unwrap_value` to a TailCall" -/
def Res.isEsc : Res → Bool
  | .stuck s => s == "tail escaped"
  | _ => false

@[simp] theorem Res.isEsc_val (v) : (Res.val v).isEsc = false := rfl
@[simp] theorem Res.isEsc_viol (v) : (Res.viol v).isEsc = false := rfl
@[simp] theorem Res.isEsc_tail (v) : (Res.tail v).isEsc = false := rfl
@[simp] theorem Res.isEsc_oof : Res.oof.isEsc = false := rfl
@[simp] theorem Res.isEsc_stuck (s) : (Res.stuck s).isEsc = (s == "tail escaped") := rfl

theorem esc_unbound (x : String) : ("unbound " ++ x == "tail escaped") = false := by
  simp only [beq_eq_false_iff_ne, ne_eq]
  intro h; have := congrArg String.toList h; simp at this
theorem esc_prim (x : String) : ("prim " ++ x == "tail escaped") = false := by
  simp only [beq_eq_false_iff_ne, ne_eq]
  intro h; have := congrArg String.toList h; simp at this
theorem esc_unknown (x : String) : ("unknown function " ++ x == "tail escaped") = false := by
  simp only [beq_eq_false_iff_ne, ne_eq]
  intro h; have := congrArg String.toList h; simp at this

theorem prim_isEsc (f : String) (vs : List Val) : (prim f vs).isEsc = false := by
  unfold prim
  repeat' split
  all_goals first | rfl | exact esc_prim _ | (simp; done)

def exNoEsc {α : Type} : Except Res α → Prop
  | .ok _ => True
  | .error r => r.isEsc = false

structure NoEscAt (n : Nat) (cfg : Cfg) : Prop where
  eval : ∀ fr e tail st, (eval n cfg fr e tail st).1.isEsc = false
  callNamed : ∀ fr f args tail st, (callNamed n cfg fr f args tail st).1.isEsc = false
  builtin : ∀ fr f args tail st, (builtin n cfg fr f args tail st).1.isEsc = false
  callVal : ∀ fr c args tail st, (callVal n cfg fr c args tail st).1.isEsc = false
  evalList : ∀ fr es st, exNoEsc (evalList n cfg fr es st).1
  mkClos : ∀ fr f st, (mkClos n cfg fr f st).1.isEsc = false
  evalDflts : ∀ fr ps st, exNoEsc (evalDflts n cfg fr ps st).1
  callUser : ∀ h c args st, (callUser n cfg h c args st).1.isEsc = false
  tramp : ∀ h c args rec st, (tramp n cfg h c args rec st).1.isEsc = false
  evalDecls : ∀ fr ds st, exNoEsc (evalDecls n cfg fr ds st).1

theorem NoEscAt.evalList' {n cfg} (ih : NoEscAt n cfg) {fr es st r s}
    (h : Core.evalList n cfg fr es st = (.error r, s)) : r.isEsc = false := by
  have := ih.evalList fr es st; rw [h] at this; exact this
theorem NoEscAt.evalDflts' {n cfg} (ih : NoEscAt n cfg) {fr es st r s}
    (h : Core.evalDflts n cfg fr es st = (.error r, s)) : r.isEsc = false := by
  have := ih.evalDflts fr es st; rw [h] at this; exact this
theorem NoEscAt.evalDecls' {n cfg} (ih : NoEscAt n cfg) {fr es st r s}
    (h : Core.evalDecls n cfg fr es st = (.error r, s)) : r.isEsc = false := by
  have := ih.evalDecls fr es st; rw [h] at this; exact this
theorem NoEscAt.eval' {n cfg} (ih : NoEscAt n cfg) {fr e tail st r s}
    (h : Core.eval n cfg fr e tail st = (r, s)) : r.isEsc = false := by
  have := ih.eval fr e tail st; rw [h] at this; exact this
theorem NoEscAt.mkClos' {n cfg} (ih : NoEscAt n cfg) {fr f st r s}
    (h : Core.mkClos n cfg fr f st = (r, s)) : r.isEsc = false := by
  have := ih.mkClos fr f st; rw [h] at this; exact this

theorem noEscAt (cfg : Cfg) (n : Nat) : NoEscAt n cfg := by
  induction n with
  | zero => constructor <;> intros <;> simp [eval, callNamed, builtin, callVal, evalList, mkClos, evalDflts, callUser, tramp, evalDecls, exNoEsc]
  | succ n ih =>
    have nt := noTailAt cfg n
    constructor
    case eval =>
      intro fr e tail st
      simp only [eval]
      repeat' split
      all_goals first
        | rfl
        | exact esc_unbound _
        | exact ih.mkClos _ _ _
        | exact ih.callVal _ _ _ _ _
        | exact ih.callNamed _ _ _ _ _
        | exact ih.eval _ _ _ _
        | exact ih.evalList' (by assumption)
        | exact (tail_contra (by assumption) (nt.eval _ _ false _ (by simp))).elim
    case callNamed =>
      intro fr f args tail st
      simp only [callNamed]
      repeat' split
      all_goals first
        | exact ih.callVal _ _ _ _ _
        | exact ih.builtin _ _ _ _ _
    case builtin =>
      intro fr f args tail st
      simp only [builtin]
      repeat' split
      all_goals first
        | rfl
        | exact esc_unknown _
        | exact prim_isEsc _ _
        | exact ih.eval _ _ _ _
        | exact ih.evalList' (by assumption)
        | exact (tail_contra (by assumption) (nt.eval _ _ false _ (by simp))).elim
    case callVal =>
      intro fr c args tail st
      simp only [callVal]
      repeat' split
      all_goals first
        | rfl
        | exact ih.callUser _ _ _ _
        | exact ih.evalList' (by assumption)
    case evalList =>
      intro fr es st
      simp only [evalList]
      repeat' split
      all_goals first
        | trivial
        | exact ih.evalList _ _ _
        | exact (tail_contra (by assumption) (nt.eval _ _ false _ (by simp))).elim
        | exact ih.eval' (by assumption)
    case mkClos =>
      intro fr f st
      simp only [mkClos]
      repeat' split
      all_goals first
        | rfl
        | exact ih.evalDflts' (by assumption)
    case evalDflts =>
      intro fr ps st
      simp only [evalDflts]
      repeat' split
      all_goals first
        | trivial
        | exact ih.evalDflts _ _ _
        | exact (tail_contra (by assumption) (nt.eval _ _ false _ (by simp))).elim
        | exact ih.eval' (by assumption)
    case callUser =>
      intro h c args st
      simp only [callUser]
      repeat' split
      all_goals first
        | rfl
        | exact ih.tramp _ _ _ _ _
    case tramp =>
      intro h c args rec st
      simp only [tramp]
      repeat' split
      all_goals first
        | rfl
        | exact ih.tramp _ _ _ _ _
        | exact ih.eval _ _ _ _
        | exact ih.evalDecls' (by assumption)
    case evalDecls =>
      intro fr ds st
      simp only [evalDecls]
      repeat' split
      all_goals first
        | trivial
        | exact ih.evalDecls _ _ _
        | exact (tail_contra (by assumption) (nt.eval _ _ false _ (by simp))).elim
        | exact (tail_contra (by assumption) (nt.mkClos _ _ _)).elim
        | exact ih.eval' (by assumption)
        | exact ih.mkClos' (by assumption)


/-! ### fuel monotonicity -/

def Res.isOof : Res → Bool
  | .oof => true
  | _ => false

@[simp] theorem Res.isOof_val (v) : (Res.val v).isOof = false := rfl
@[simp] theorem Res.isOof_viol (v) : (Res.viol v).isOof = false := rfl
@[simp] theorem Res.isOof_stuck (v) : (Res.stuck v).isOof = false := rfl
@[simp] theorem Res.isOof_tail (v) : (Res.tail v).isOof = false := rfl
@[simp] theorem Res.isOof_oof : Res.oof.isOof = true := rfl

/-- an `Except Res α` outcome is "out of fuel" -/
def exOof {α : Type} : Except Res α → Bool
  | .ok _ => false
  | .error r => r.isOof

@[simp] theorem exOof_ok {α} (a : α) : exOof (Except.ok a : Except Res α) = false := rfl
@[simp] theorem exOof_error {α} (r : Res) : exOof (Except.error r : Except Res α) = r.isOof := rfl

/-- whatever `n` units of fuel answer, `m` units answer too -/
structure FuelLe (n m : Nat) (cfg : Cfg) : Prop where
  eval : ∀ fr e tail st, (eval n cfg fr e tail st).1.isOof = false → eval m cfg fr e tail st = eval n cfg fr e tail st
  callNamed : ∀ fr f args tail st, (callNamed n cfg fr f args tail st).1.isOof = false →
    callNamed m cfg fr f args tail st = callNamed n cfg fr f args tail st
  builtin : ∀ fr f args tail st, (builtin n cfg fr f args tail st).1.isOof = false →
    builtin m cfg fr f args tail st = builtin n cfg fr f args tail st
  callVal : ∀ fr c args tail st, (callVal n cfg fr c args tail st).1.isOof = false →
    callVal m cfg fr c args tail st = callVal n cfg fr c args tail st
  evalList : ∀ fr es st, exOof (evalList n cfg fr es st).1 = false →
    evalList m cfg fr es st = evalList n cfg fr es st
  mkClos : ∀ fr f st, (mkClos n cfg fr f st).1.isOof = false → mkClos m cfg fr f st = mkClos n cfg fr f st
  evalDflts : ∀ fr ps st, exOof (evalDflts n cfg fr ps st).1 = false →
    evalDflts m cfg fr ps st = evalDflts n cfg fr ps st
  callUser : ∀ h c args st, (callUser n cfg h c args st).1.isOof = false →
    callUser m cfg h c args st = callUser n cfg h c args st
  tramp : ∀ h c args rec st, (tramp n cfg h c args rec st).1.isOof = false →
    tramp m cfg h c args rec st = tramp n cfg h c args rec st
  evalDecls : ∀ fr ds st, exOof (evalDecls n cfg fr ds st).1 = false →
    evalDecls m cfg fr ds st = evalDecls n cfg fr ds st

theorem fuelLe_zero (cfg : Cfg) (m : Nat) : FuelLe 0 m cfg := by
  constructor <;> intros <;> simp_all [eval, callNamed, builtin, callVal, evalList, mkClos, evalDflts, callUser, tramp, evalDecls]

theorem exOof_of_match {α} {x : Except Res α × St} {g : α → St → Res × St}
    (h : (match x with | (.ok v, s) => g v s | (.error r, s) => (r, s)).1.isOof = false) : exOof x.1 = false := by
  obtain ⟨r, s⟩ := x
  cases r <;> simp_all

theorem fuelLe_succ {cfg : Cfg} {n m : Nat} (ih : FuelLe n m cfg) : FuelLe (n + 1) (m + 1) cfg := by
    constructor
    case eval =>
      intro fr e tail st h
      cases e
      case call f args =>
        simp only [eval] at h ⊢
        cases hs : fr.self with
        | none => simp only [hs] at h ⊢; exact ih.callNamed _ _ _ _ _ h
        | some p =>
          obtain ⟨name, c⟩ := p
          simp only [hs] at h ⊢
          by_cases h1 : (decide (f = name) && (lookup f fr.env).isNone) = true
          · simp only [h1, if_true] at h ⊢
            by_cases h2 : (tail && cfg.tco) = true
            · simp only [h2, if_true] at h ⊢
              have hx : exOof (evalList n cfg fr args st).1 = false := by
                revert h; rcases evalList n cfg fr args st with ⟨r, s⟩; cases r <;> simp
              rw [ih.evalList _ _ _ hx]
            · simp only [h2] at h ⊢; exact ih.callVal _ _ _ _ _ h
          · simp only [h1] at h ⊢; exact ih.callNamed _ _ _ _ _ h
      all_goals simp only [eval] at h ⊢
      all_goals repeat' split at h
      all_goals (simp_all [ih.eval, ih.mkClos, ih.evalList, ih.callVal]; done)
    case callNamed =>
      intro fr f args tail st h
      simp only [callNamed] at h ⊢
      repeat' split at h
      all_goals (simp_all [ih.callVal, ih.builtin]; done)
    case builtin =>
      intro fr f args tail st h
      simp only [builtin] at h ⊢
      repeat' split at h
      all_goals try (simp_all [ih.eval, ih.evalList]; done)
    case callVal =>
      intro fr c args tail st h
      simp only [callVal] at h ⊢
      repeat' split at h
      all_goals try (simp_all [ih.evalList, ih.callUser]; done)
    case evalList =>
      intro fr es st h
      simp only [evalList] at h ⊢
      repeat' split at h
      all_goals try (simp_all [ih.evalList, ih.eval]; done)
    case mkClos =>
      intro fr f st h
      simp only [mkClos] at h ⊢
      repeat' split at h
      all_goals try (simp_all [ih.evalDflts]; done)
    case evalDflts =>
      intro fr ps st h
      simp only [evalDflts] at h ⊢
      repeat' split at h
      all_goals try (simp_all [ih.evalDflts, ih.eval]; done)
    case callUser =>
      intro hh c args st h
      simp only [callUser] at h ⊢
      repeat' split at h
      all_goals try (simp_all [ih.tramp]; done)
    case tramp =>
      intro hh c args rec st h
      simp only [tramp] at h ⊢
      repeat' split at h
      all_goals try (simp_all [ih.tramp, ih.evalDecls, ih.eval]; done)
    case evalDecls =>
      intro fr ds st h
      simp only [evalDecls] at h ⊢
      repeat' split at h
      all_goals try (simp_all [ih.evalDecls, ih.eval, ih.mkClos]; done)

theorem fuelLe {cfg : Cfg} {n m : Nat} (h : n ≤ m) : FuelLe n m cfg := by
  induction n generalizing m with
  | zero => exact fuelLe_zero cfg m
  | succ n ih =>
    cases m with
    | zero => omega
    | succ m => exact fuelLe_succ (ih (by omega))

/-! ### simulation, direction reference (tco off) ⟶ optimised (tco on), same fuel -/

/-- the two configurations C07 compares: no limits; the optimisation on / off -/
def cT : Cfg := { tco := true }
def cF : Cfg := { tco := false }

@[simp] theorem cT_tco : cT.tco = true := rfl
@[simp] theorem cF_tco : cF.tco = false := rfl
@[simp] theorem cT_depth : cT.depthLimit = none := rfl
@[simp] theorem cF_depth : cF.depthLimit = none := rfl
@[simp] theorem cT_call : cT.callLimit = none := rfl
@[simp] theorem cF_call : cF.callLimit = none := rfl
@[simp] theorem cT_rec : cT.recLimit = none := rfl
@[simp] theorem cF_rec : cF.recLimit = none := rfl

def Frame.atHeight (fr : Frame) (h : Nat) : Frame := { fr with height := h }

@[simp] theorem Frame.atHeight_env (fr : Frame) (h) : (fr.atHeight h).env = fr.env := rfl
@[simp] theorem Frame.atHeight_self (fr : Frame) (h) : (fr.atHeight h).self = fr.self := rfl
@[simp] theorem Frame.atHeight_height (fr : Frame) (h) : (fr.atHeight h).height = h := rfl
@[simp] theorem Frame.atHeight_get (fr : Frame) (h x) : (fr.atHeight h).get x = fr.get x := rfl
@[simp] theorem Frame.atHeight_cons (fr : Frame) (h p) :
    ({ fr.atHeight h with env := p :: fr.env } : Frame) = ({ fr with env := p :: fr.env } : Frame).atHeight h := rfl

/-- the recursion cell of a frame holds a closure (what `from_template` puts there) -/
def FrameOk (fr : Frame) : Prop := ∀ name c, fr.self = some (name, c) → ∃ f d e, c = .clos f d e

theorem FrameOk.cons {fr : Frame} (h : FrameOk fr) (p) : FrameOk { fr with env := p :: fr.env } := h

def setH (h : Nat) : Except Res Frame × St → Except Res Frame × St
  | (.ok f, s) => (.ok (f.atHeight h), s)
  | (.error r, s) => (.error r, s)

@[simp] theorem setH_ok (h f s) : setH h (.ok f, s) = (.ok (f.atHeight h), s) := rfl
@[simp] theorem setH_error (h r s) : setH h (.error r, s) = (.error r, s) := rfl

/-- the optimised run handed a tail call back where the reference run made the call: the reference
result is that of the trampoline started on the same arguments, with less fuel -/
def TailCase (n : Nat) (fr : Frame) (resT resF : Res × St) : Prop :=
  ∃ name c args st1, fr.self = some (name, c) ∧ resT = (.tail args, st1) ∧
    ∃ k, k < n ∧ tramp k cF fr.height c args 0 st1 = resF

def SimRes (n : Nat) (fr : Frame) (tail : Bool) (resT resF : Res × St) : Prop :=
  resT = resF ∨ (tail = true ∧ TailCase n fr resT resF)

@[simp] theorem SimRes.refl (n fr tail x) : SimRes n fr tail x x := .inl rfl

theorem SimRes.lift {n fr tail a b} (h : SimRes n fr tail a b) : SimRes (n + 1) fr tail a b := by
  rcases h with h | ⟨ht, name, c, args, st1, h1, h2, k, hk, h3⟩
  · exact .inl h
  · exact .inr ⟨ht, name, c, args, st1, h1, h2, k, by omega, h3⟩

theorem SimRes.eq_of_false {n fr a b} (h : SimRes n fr false a b) : a = b := by
  rcases h with h | ⟨ht, _⟩
  · exact h
  · cases ht

structure SimAt (n : Nat) : Prop where
  eval : ∀ fr h2 e tail st, FrameOk fr → (eval n cF fr e tail st).1.isOof = false →
    SimRes n fr tail (eval n cT (fr.atHeight h2) e tail st) (eval n cF fr e tail st)
  callNamed : ∀ fr h2 f args tail st, FrameOk fr → (callNamed n cF fr f args tail st).1.isOof = false →
    SimRes n fr tail (callNamed n cT (fr.atHeight h2) f args tail st) (callNamed n cF fr f args tail st)
  builtin : ∀ fr h2 f args tail st, FrameOk fr → (builtin n cF fr f args tail st).1.isOof = false →
    SimRes n fr tail (builtin n cT (fr.atHeight h2) f args tail st) (builtin n cF fr f args tail st)
  callVal : ∀ fr h2 c args tail st, FrameOk fr → (callVal n cF fr c args tail st).1.isOof = false →
    callVal n cT (fr.atHeight h2) c args tail st = callVal n cF fr c args tail st
  evalList : ∀ fr h2 es st, FrameOk fr → exOof (evalList n cF fr es st).1 = false →
    evalList n cT (fr.atHeight h2) es st = evalList n cF fr es st
  mkClos : ∀ fr h2 f st, FrameOk fr → (mkClos n cF fr f st).1.isOof = false →
    mkClos n cT (fr.atHeight h2) f st = mkClos n cF fr f st
  evalDflts : ∀ fr h2 ps st, FrameOk fr → exOof (evalDflts n cF fr ps st).1 = false →
    evalDflts n cT (fr.atHeight h2) ps st = evalDflts n cF fr ps st
  callUser : ∀ h h2 c args st, (callUser n cF h c args st).1.isOof = false →
    callUser n cT h2 c args st = callUser n cF h c args st
  tramp : ∀ h h2 c args rec rec2 st, (tramp n cF h c args rec st).1.isOof = false →
    tramp n cT h2 c args rec2 st = tramp n cF h c args rec st
  evalDecls : ∀ fr h2 ds st, FrameOk fr → exOof (evalDecls n cF fr ds st).1 = false →
    evalDecls n cT (fr.atHeight h2) ds st = setH h2 (evalDecls n cF fr ds st)

theorem SimAt.evalF {n} (ih : SimAt n) (fr h2 e st) (hf : FrameOk fr) (h : (Core.eval n cF fr e false st).1.isOof = false) :
    Core.eval n cT (fr.atHeight h2) e false st = Core.eval n cF fr e false st :=
  (ih.eval fr h2 e false st hf h).eq_of_false

theorem evalDecls_frame (n : Nat) (cfg : Cfg) (fr : Frame) (ds : List Decl) (st : St) (fr' : Frame) (st' : St)
    (h : evalDecls n cfg fr ds st = (.ok fr', st')) : fr'.self = fr.self ∧ fr'.height = fr.height := by
  induction n generalizing fr ds st with
  | zero => simp [evalDecls] at h
  | succ n ih =>
    simp only [evalDecls] at h
    repeat' split at h
    all_goals first
      | (simp at h; done)
      | (cases h; exact ⟨rfl, rfl⟩)
      | (have := ih _ _ _ h; exact this)

theorem match_not_tail {x : Res × St} {g : List Val → St → Res × St} (hx : x.1.isTail = false) :
    (match x with | (.tail a, s) => g a s | r => r) = x := by
  obtain ⟨r, s⟩ := x
  cases r <;> first | rfl | (simp at hx)

theorem simAt_zero : SimAt 0 := by
  constructor <;> intros <;> simp_all [eval, callNamed, builtin, callVal, evalList, mkClos, evalDflts, callUser, tramp, evalDecls]

theorem simAt_succ {n : Nat} (IH : ∀ k, k ≤ n → SimAt k) : SimAt (n + 1) := by
    have ih := IH n (Nat.le_refl _)
    constructor
    case callNamed =>
      intro fr h2 f args tail st hf h
      simp only [callNamed] at h ⊢
      simp only [Frame.atHeight_get]
      repeat' split at h
      · simp_all [ih.callVal]
      · exact (ih.builtin _ _ _ _ _ _ hf h).lift
    case builtin =>
      intro fr h2 f args tail st hf h
      simp only [builtin] at h ⊢
      repeat' split at h
      all_goals try (simp_all [ih.evalF, ih.evalList]; done)
      all_goals (simp [ih.evalF, *]; exact (ih.eval _ _ _ _ _ hf (by simp_all)).lift)
    case callVal =>
      intro fr h2 c args tail st hf h
      simp only [callVal] at h ⊢
      repeat' split at h
      all_goals try (simp_all [ih.evalList]; done)
      simp [ih.evalList, *]
      exact ih.callUser _ _ _ _ _ h
    case evalList =>
      intro fr h2 es st hf h
      simp only [evalList] at h ⊢
      repeat' split at h
      all_goals (simp_all [ih.evalList, ih.evalF]; done)
    case mkClos =>
      intro fr h2 f st hf h
      simp only [mkClos] at h ⊢
      repeat' split at h
      all_goals try (simp_all [ih.evalDflts]; done)
    case evalDflts =>
      intro fr h2 ps st hf h
      simp only [evalDflts] at h ⊢
      repeat' split at h
      all_goals try (simp_all [ih.evalDflts, ih.evalF]; done)
    case callUser =>
      intro hh h2 c args st h
      simp only [callUser] at h ⊢
      repeat' split at h
      all_goals try (simp_all; done)
      simp
      exact ih.tramp _ _ _ _ _ _ _ h
    case evalDecls =>
      intro fr h2 ds st hf h
      simp only [evalDecls] at h ⊢
      repeat' split at h
      all_goals try (simp_all [ih.evalF, ih.mkClos]; done)
      all_goals (
        simp [ih.evalF, ih.mkClos, *]
        exact ih.evalDecls { env := _ :: fr.env, self := fr.self, height := fr.height } h2 _ _ hf h)
    case eval =>
      intro fr h2 e tail st hf h
      cases e
      case call f args =>
        simp only [eval] at h ⊢
        simp only [Frame.atHeight_self, Frame.atHeight_env, cT_tco, cF_tco, Bool.and_true, Bool.and_false] at h ⊢
        cases hs : fr.self with
        | none => simp only [hs] at h ⊢; exact (ih.callNamed _ _ _ _ _ _ hf h).lift
        | some p =>
          obtain ⟨name, c⟩ := p
          simp only [hs] at h ⊢
          by_cases h1 : (decide (f = name) && (lookup f fr.env).isNone) = true
          · simp only [h1, if_true] at h ⊢
            cases tail with
            | false =>
              simp only [Bool.false_eq_true, if_false] at h ⊢
              exact .inl (ih.callVal _ _ _ _ _ _ hf h)
            | true =>
              simp only [if_true, Bool.false_eq_true, if_false] at h ⊢
              obtain ⟨fn, d, e, rfl⟩ := hf name c hs
              cases n with
              | zero => simp [callVal] at h
              | succ n' =>
                simp only [callVal] at h ⊢
                have hx : exOof (evalList n' cF fr args st).1 = false := by
                  revert h; rcases evalList n' cF fr args st with ⟨r, s⟩; cases r <;> simp
                have e1 := (IH n' (by omega)).evalList fr h2 args st hf hx
                have e2 := (fuelLe (cfg := cT) (Nat.le_succ n')).evalList (fr.atHeight h2) args st (by rw [e1]; exact hx)
                rw [e2, e1]
                rcases hl : evalList n' cF fr args st with ⟨x, st'⟩
                rw [hl] at h
                cases x with
                | error r => exact .inl rfl
                | ok vs =>
                  simp only at h ⊢
                  refine .inr ⟨rfl, name, _, vs, st', hs, rfl, ?_⟩
                  cases n' with
                  | zero => simp [callUser] at h
                  | succ n'' =>
                    refine ⟨n'', by omega, ?_⟩
                    have := (firstErr_none_iff vs).mpr (evalList_ok_noErr _ _ _ _ _ _ _ hl)
                    simp [callUser, this]
          · simp only [h1] at h ⊢; exact (ih.callNamed _ _ _ _ _ _ hf h).lift
      all_goals simp only [eval] at h ⊢
      all_goals repeat' split at h
      all_goals (simp_all [ih.evalF, ih.mkClos, ih.evalList, ih.callVal]; done)
    case tramp =>
      intro hh h2 c args rec rec2 st h
      cases c
      case clos f d env =>
        simp only [tramp, cT_depth, cF_depth, cT_rec, cF_rec, Bool.false_eq_true, if_false] at h ⊢
        cases hb : bindParams f.params args d with
        | none => simp
        | some ps =>
          simp only [hb] at h ⊢
          suffices key : ∀ self : Option (String × Val), (∀ name c, self = some (name, c) → c = Val.clos f d env) →
              (match evalDecls n cF { env := ps.reverse ++ env, self := self, height := hh + 1 } f.decls st with
                | (Except.error r, st') => (r, st')
                | (Except.ok fr', st') =>
                  match eval n cF fr' f.body true st' with
                  | (Res.tail newArgs, st'') => tramp n cF hh (Val.clos f d env) newArgs (rec + 1) st''
                  | r => r).fst.isOof = false →
              (match evalDecls n cT { env := ps.reverse ++ env, self := self, height := h2 + 1 } f.decls st with
                | (Except.error r, st') => (r, st')
                | (Except.ok fr', st') =>
                  match eval n cT fr' f.body true st' with
                  | (Res.tail newArgs, st'') => tramp n cT h2 (Val.clos f d env) newArgs (rec2 + 1) st''
                  | r => r) =
              (match evalDecls n cF { env := ps.reverse ++ env, self := self, height := hh + 1 } f.decls st with
                | (Except.error r, st') => (r, st')
                | (Except.ok fr', st') =>
                  match eval n cF fr' f.body true st' with
                  | (Res.tail newArgs, st'') => tramp n cF hh (Val.clos f d env) newArgs (rec + 1) st''
                  | r => r) by
            refine key _ ?_ h
            intro name c hs
            split at hs
            · cases hs; rfl
            · cases hs
          clear h
          intro self hself' h
          have hfok : FrameOk { env := ps.reverse ++ env, self := self, height := hh + 1 } := by
            intro name c hs
            exact ⟨_, _, _, hself' name c hs⟩
          have hx : exOof (evalDecls n cF { env := ps.reverse ++ env, self := self, height := hh + 1 } f.decls st).1 = false := by
            revert h
            rcases evalDecls n cF { env := ps.reverse ++ env, self := self, height := hh + 1 } f.decls st with ⟨r, s⟩
            cases r <;> simp
          have e1 := ih.evalDecls { env := ps.reverse ++ env, self := self, height := hh + 1 } (h2 + 1) f.decls st hfok hx
          change evalDecls n cT { env := ps.reverse ++ env, self := self, height := h2 + 1 } f.decls st = _ at e1
          rw [e1]
          rcases hd : evalDecls n cF { env := ps.reverse ++ env, self := self, height := hh + 1 } f.decls st with ⟨x, st'⟩
          rw [hd] at h
          cases x with
          | error r => rfl
          | ok fr' =>
            simp only [setH_ok] at h ⊢
            obtain ⟨hs', hh'⟩ := evalDecls_frame _ _ _ _ _ _ _ hd
            simp only at hs' hh'
            have hfok' : FrameOk fr' := by intro name c hs; rw [hs'] at hs; exact hfok name c hs
            have hnt : (eval n cF fr' f.body true st').1.isTail = false :=
              (noTailAt cF n).eval _ _ _ _ (by simp)
            have hsim := ih.eval fr' (h2 + 1) f.body true st' hfok'
            rcases hevF : eval n cF fr' f.body true st' with ⟨rF, sF⟩
            rw [hevF] at h hnt hsim
            cases rF
            case tail => simp at hnt
            all_goals (
              simp only at h ⊢
              rcases hsim h with he | ⟨_, name, c, args1, st1, hsf, heT, k, hk, hkF⟩
              · rw [he]
              · rw [heT]
                simp only
                rw [hs'] at hsf
                have hc := hself' name c hsf
                subst hc
                rw [hh'] at hkF
                have hne : (tramp k cF (hh + 1) (Val.clos f d env) args1 0 st1).1.isOof = false := by rw [hkF]; exact h
                have e2 := (IH k (by omega)).tramp (hh + 1) h2 (Val.clos f d env) args1 0 (rec2 + 1) st1 hne
                have e3 := (fuelLe (cfg := cT) (show k ≤ n by omega)).tramp h2 (Val.clos f d env) args1 (rec2 + 1) st1 (by rw [e2]; exact hne)
                rw [e3, e2, hkF])
      all_goals simp [tramp]

theorem simAt (n : Nat) : SimAt n := by
  induction n using Nat.strongRecOn with
  | _ n ih =>
    cases n with
    | zero => exact simAt_zero
    | succ n => exact simAt_succ (fun k hk => ih k (by omega))


/-! ### simulation, direction optimised (tco on, fuel `m`) ⟶ reference (tco off, fuel `phi m`) -/

/-- fuel that suffices for the reference run when the optimised run needs `m`: `m (m + 7) / 2` -/
def phi : Nat → Nat
  | 0 => 0
  | m + 1 => phi m + m + 4

theorem phi_succ (m : Nat) : phi (m + 1) = phi m + m + 4 := rfl

/-- a finished, ordinary outcome: neither out of fuel nor a tail call -/
def Res.isFin (r : Res) : Bool := !r.isOof && !r.isTail

@[simp] theorem Res.isFin_val (v) : (Res.val v).isFin = true := rfl
@[simp] theorem Res.isFin_viol (v) : (Res.viol v).isFin = true := rfl
@[simp] theorem Res.isFin_stuck (v) : (Res.stuck v).isFin = true := rfl
@[simp] theorem Res.isFin_tail (v) : (Res.tail v).isFin = false := rfl
@[simp] theorem Res.isFin_oof : Res.oof.isFin = false := rfl

theorem Res.isFin_iff (r : Res) : r.isFin = true ↔ r.isOof = false ∧ r.isTail = false := by
  cases r <;> simp

theorem Res.isFin_of {r : Res} (h1 : r.isOof = false) (h2 : r.isTail = false) : r.isFin = true := by
  cases r <;> simp_all

/-- the tail part: the optimised run handed back `.tail args`; whatever the reference trampoline
makes of these arguments (with enough fuel), the reference run of the expression gives -/
def TailB (m : Nat) (fr : Frame) (h : Nat) (args : List Val) (st1 : St) (runF : Nat → Res × St) : Prop :=
  ∃ name c, fr.self = some (name, c) ∧
    ∀ res N, phi m + m + 3 ≤ N → (∀ K, N ≤ K + m + 3 → tramp K cF h c args 0 st1 = res) → runF N = res

structure SimB (m : Nat) : Prop where
  eval : ∀ fr h e tail st j, FrameOk fr → (Core.eval m cT fr e tail st).1.isFin = true →
    Core.eval (phi m + j) cF (fr.atHeight h) e tail st = Core.eval m cT fr e tail st
  evalTail : ∀ fr h e tail st a st1, FrameOk fr → Core.eval m cT fr e tail st = (.tail a, st1) →
    TailB m fr h a st1 (fun N => Core.eval N cF (fr.atHeight h) e tail st)
  callNamed : ∀ fr h f args tail st j, FrameOk fr → (Core.callNamed m cT fr f args tail st).1.isFin = true →
    Core.callNamed (phi m + j) cF (fr.atHeight h) f args tail st = Core.callNamed m cT fr f args tail st
  callNamedTail : ∀ fr h f args tail st a st1, FrameOk fr → Core.callNamed m cT fr f args tail st = (.tail a, st1) →
    TailB m fr h a st1 (fun N => Core.callNamed N cF (fr.atHeight h) f args tail st)
  builtin : ∀ fr h f args tail st j, FrameOk fr → (Core.builtin m cT fr f args tail st).1.isFin = true →
    Core.builtin (phi m + j) cF (fr.atHeight h) f args tail st = Core.builtin m cT fr f args tail st
  builtinTail : ∀ fr h f args tail st a st1, FrameOk fr → Core.builtin m cT fr f args tail st = (.tail a, st1) →
    TailB m fr h a st1 (fun N => Core.builtin N cF (fr.atHeight h) f args tail st)
  callVal : ∀ fr h c args tail st j, FrameOk fr → (Core.callVal m cT fr c args tail st).1.isOof = false →
    Core.callVal (phi m + j) cF (fr.atHeight h) c args tail st = Core.callVal m cT fr c args tail st
  evalList : ∀ fr h es st j, FrameOk fr → exOof (Core.evalList m cT fr es st).1 = false →
    Core.evalList (phi m + j) cF (fr.atHeight h) es st = Core.evalList m cT fr es st
  mkClos : ∀ fr h f st j, FrameOk fr → (Core.mkClos m cT fr f st).1.isOof = false →
    Core.mkClos (phi m + j) cF (fr.atHeight h) f st = Core.mkClos m cT fr f st
  evalDflts : ∀ fr h ps st j, FrameOk fr → exOof (Core.evalDflts m cT fr ps st).1 = false →
    Core.evalDflts (phi m + j) cF (fr.atHeight h) ps st = Core.evalDflts m cT fr ps st
  callUser : ∀ h h2 c args st j, (Core.callUser m cT h2 c args st).1.isOof = false →
    Core.callUser (phi m + j) cF h c args st = Core.callUser m cT h2 c args st
  tramp : ∀ h h2 c args rec rec2 st j, (Core.tramp m cT h2 c args rec2 st).1.isOof = false →
    Core.tramp (phi m + j) cF h c args rec st = Core.tramp m cT h2 c args rec2 st
  evalDecls : ∀ fr h ds st j, FrameOk fr → exOof (Core.evalDecls m cT fr ds st).1 = false →
    Core.evalDecls (phi m + j) cF (fr.atHeight h) ds st = setH h (Core.evalDecls m cT fr ds st)

theorem SimB.evalF {m} (ih : SimB m) (fr h e st j) (hf : FrameOk fr) (hh : (Core.eval m cT fr e false st).1.isOof = false) :
    Core.eval (phi m + j) cF (fr.atHeight h) e false st = Core.eval m cT fr e false st :=
  ih.eval fr h e false st j hf (Res.isFin_of hh ((noTailAt cT m).eval _ _ _ _ (by simp)))

theorem SimB.evalF' {m N} (ih : SimB m) (hN : phi m ≤ N) {fr h e st} (hf : FrameOk fr)
    (hh : (Core.eval m cT fr e false st).1.isOof = false) :
    Core.eval N cF (fr.atHeight h) e false st = Core.eval m cT fr e false st := by
  have := ih.evalF fr h e st (N - phi m) hf hh
  rwa [show phi m + (N - phi m) = N by omega] at this

theorem SimB.evalList' {m N} (ih : SimB m) (hN : phi m ≤ N) {fr h es st} (hf : FrameOk fr)
    (hh : exOof (Core.evalList m cT fr es st).1 = false) :
    Core.evalList N cF (fr.atHeight h) es st = Core.evalList m cT fr es st := by
  have := ih.evalList fr h es st (N - phi m) hf hh
  rwa [show phi m + (N - phi m) = N by omega] at this

theorem SimB.tramp' {m N} (ih : SimB m) (hN : phi m ≤ N) {h h2 c args rec rec2 st}
    (hh : (Core.tramp m cT h2 c args rec2 st).1.isOof = false) :
    Core.tramp N cF h c args rec st = Core.tramp m cT h2 c args rec2 st := by
  have := ih.tramp h h2 c args rec rec2 st (N - phi m) hh
  rwa [show phi m + (N - phi m) = N by omega] at this

theorem simB_zero : SimB 0 := by
  constructor <;> intros <;> simp_all [eval, callNamed, builtin, callVal, evalList, mkClos, evalDflts, callUser, tramp, evalDecls]

theorem fuel_shape (m j : Nat) : phi (m + 1) + j = (phi m + (m + 3 + j)) + 1 := by
  rw [phi_succ]; omega

theorem simB_succ {m : Nat} (ih : SimB m) : SimB (m + 1) := by
    constructor
    case callVal =>
      intro fr h c args tail st j hf hT
      rw [fuel_shape]
      simp only [callVal] at hT ⊢
      repeat' split at hT
      all_goals try (simp_all [ih.evalList]; done)
      simp [ih.evalList, *]
      exact ih.callUser _ _ _ _ _ _ hT
    case evalList =>
      intro fr h es st j hf hT
      rw [fuel_shape]
      simp only [evalList] at hT ⊢
      repeat' split at hT
      all_goals (simp_all [ih.evalList, ih.evalF]; done)
    case mkClos =>
      intro fr h f st j hf hT
      rw [fuel_shape]
      simp only [mkClos] at hT ⊢
      repeat' split at hT
      all_goals try (simp_all [ih.evalDflts]; done)
    case evalDflts =>
      intro fr h ps st j hf hT
      rw [fuel_shape]
      simp only [evalDflts] at hT ⊢
      repeat' split at hT
      all_goals try (simp_all [ih.evalDflts, ih.evalF]; done)
    case callUser =>
      intro h h2 c args st j hT
      rw [fuel_shape]
      simp only [callUser] at hT ⊢
      repeat' split at hT
      all_goals try (simp_all; done)
      simp
      exact ih.tramp _ _ _ _ _ _ _ _ hT
    case evalDecls =>
      intro fr h ds st j hf hT
      rw [fuel_shape]
      simp only [evalDecls] at hT ⊢
      repeat' split at hT
      all_goals try (simp_all [ih.evalF, ih.mkClos]; done)
      all_goals (
        simp [ih.evalF, ih.mkClos, *]
        exact ih.evalDecls { env := _ :: fr.env, self := fr.self, height := fr.height } h _ _ _ hf hT)
    case callNamed =>
      intro fr h f args tail st j hf hT
      rw [fuel_shape]
      simp only [callNamed] at hT ⊢
      simp only [Frame.atHeight_get]
      repeat' split at hT
      · simp_all [ih.callVal, Res.isFin_iff]
      · simp_all [ih.builtin]
    case builtin =>
      intro fr h f args tail st j hf hT
      rw [fuel_shape]
      simp only [builtin] at hT ⊢
      repeat' split at hT
      all_goals try (simp_all [ih.evalF, ih.evalList, Res.isFin_iff]; done)
      all_goals (simp [ih.evalF, *]; exact ih.eval _ _ _ _ _ _ hf (by simp_all))
    case builtinTail =>
      intro fr h f args tail st a st1 hf hT
      have nt := noTailAt cT m
      simp only [builtin] at hT
      repeat' split at hT
      all_goals first
        | (simp at hT; done)
        | exact (tail_contra hT (nt.eval _ _ false _ (by simp))).elim
        | (cases hT; exact absurd (nt.evalList' (by assumption)) (by simp))
        | exact (prim_ne_tail hT).elim
        | skip
      all_goals (
        obtain ⟨name, c, hs, hcont⟩ := ih.evalTail _ h _ _ _ _ _ hf hT
        refine ⟨name, c, hs, fun res N hN hK => ?_⟩
        rw [phi_succ] at hN
        obtain ⟨N', rfl⟩ : ∃ N', N = N' + 1 := ⟨N - 1, by omega⟩
        simp only [builtin]
        rw [ih.evalF' (N := N') (by omega) hf (by simp [*])]
        simp only [*]
        first
          | exact hcont res N' (by omega) (fun K hK' => hK K (by omega))
          | (simp only [if_true, if_false, Bool.false_eq_true]; exact hcont res N' (by omega) (fun K hK' => hK K (by omega))))
    case callNamedTail =>
      intro fr h f args tail st a st1 hf hT
      have nt := noTailAt cT m
      simp only [callNamed] at hT
      split at hT
      · exact (tail_contra hT (nt.callVal _ _ _ _ _)).elim
      · rename_i hget
        obtain ⟨name, c, hs, hcont⟩ := ih.builtinTail _ h _ _ _ _ _ _ hf hT
        refine ⟨name, c, hs, fun res N hN hK => ?_⟩
        rw [phi_succ] at hN
        obtain ⟨N', rfl⟩ : ∃ N', N = N' + 1 := ⟨N - 1, by omega⟩
        simp only [callNamed, Frame.atHeight_get, hget]
        exact hcont res N' (by omega) (fun K hK' => hK K (by omega))
    case evalTail =>
      intro fr h e tail st a st1 hf hT
      have nt := noTailAt cT m
      simp only [eval] at hT
      repeat' split at hT
      all_goals first
        | (simp at hT; done)
        | exact (tail_contra hT (nt.mkClos _ _ _)).elim
        | exact (tail_contra hT (nt.callVal _ _ _ _ _)).elim
        | exact (tail_contra hT (nt.eval _ _ false _ (by simp))).elim
        | (cases hT; exact absurd (nt.evalList' (by assumption)) (by simp))
        | skip
      · rename_i _ f args _ name c hs h1 h2 _ vs st' hl
        simp only [Prod.mk.injEq, Res.tail.injEq] at hT
        obtain ⟨rfl, rfl⟩ := hT
        obtain ⟨fn, d, e, rfl⟩ := hf name c hs
        refine ⟨name, _, hs, fun res N hN hK => ?_⟩
        rw [phi_succ] at hN
        obtain ⟨N', rfl⟩ : ∃ N', N = N' + 3 := ⟨N - 3, by omega⟩
        simp only [Bool.and_eq_true, cT_tco, and_true] at h2
        subst h2
        simp only [eval, Frame.atHeight_self, Frame.atHeight_env, hs, h1, if_true, cF_tco, Bool.and_false,
          Bool.false_eq_true, if_false, callVal]
        rw [ih.evalList' (N := N' + 1) (by omega) hf (by simp [hl]), hl]
        simp only [callUser, (firstErr_none_iff vs).mpr (evalList_ok_noErr _ _ _ _ _ _ _ hl), cF_call,
          Frame.atHeight_height]
        exact hK N' (by omega)
      · rename_i _ f args _ name c hs h1
        obtain ⟨name', c', hs', hcont⟩ := ih.callNamedTail _ h _ _ _ _ _ _ hf hT
        refine ⟨name', c', hs', fun res N hN hK => ?_⟩
        rw [phi_succ] at hN
        obtain ⟨N', rfl⟩ : ∃ N', N = N' + 1 := ⟨N - 1, by omega⟩
        simp only [eval, Frame.atHeight_self, Frame.atHeight_env, hs, h1]
        exact hcont res N' (by omega) (fun K hK' => hK K (by omega))
      · rename_i _ f args _ hs
        obtain ⟨name', c', hs', hcont⟩ := ih.callNamedTail _ h _ _ _ _ _ _ hf hT
        refine ⟨name', c', hs', fun res N hN hK => ?_⟩
        rw [phi_succ] at hN
        obtain ⟨N', rfl⟩ : ∃ N', N = N' + 1 := ⟨N - 1, by omega⟩
        simp only [eval, Frame.atHeight_self, hs]
        exact hcont res N' (by omega) (fun K hK' => hK K (by omega))
    case eval =>
      intro fr h e tail st j hf hT
      rw [fuel_shape]
      cases e
      case call f args =>
        simp only [eval] at hT ⊢
        simp only [Frame.atHeight_self, Frame.atHeight_env, cT_tco, cF_tco, Bool.and_true, Bool.and_false] at hT ⊢
        cases hs : fr.self with
        | none => simp only [hs] at hT ⊢; exact ih.callNamed _ _ _ _ _ _ _ hf hT
        | some p =>
          obtain ⟨name, c⟩ := p
          simp only [hs] at hT ⊢
          by_cases h1 : (decide (f = name) && (lookup f fr.env).isNone) = true
          · simp only [h1, if_true] at hT ⊢
            cases tail with
            | false =>
              simp only [Bool.false_eq_true, if_false] at hT ⊢
              exact ih.callVal _ _ _ _ _ _ _ hf ((Res.isFin_iff _).mp hT).1
            | true =>
              simp only [if_true, Bool.false_eq_true, if_false] at hT ⊢
              obtain ⟨fn, d, e, rfl⟩ := hf name c hs
              rcases hl : evalList m cT fr args st with ⟨x, st'⟩
              rw [hl] at hT
              cases x with
              | ok vs => simp at hT
              | error r =>
                simp only at hT ⊢
                rw [show phi m + (m + 3 + j) = (phi m + (m + 2 + j)) + 1 by omega]
                simp only [callVal]
                rw [ih.evalList _ _ _ _ _ hf (by rw [hl]; exact ((Res.isFin_iff _).mp hT).1), hl]
          · simp only [h1] at hT ⊢; exact ih.callNamed _ _ _ _ _ _ _ hf hT
      all_goals simp only [eval] at hT ⊢
      all_goals repeat' split at hT
      all_goals (simp_all [ih.evalF, ih.mkClos, ih.evalList, ih.callVal, Res.isFin_iff]; done)
    case tramp =>
      intro h h2 c args rec rec2 st j hT
      rw [fuel_shape]
      cases c
      case clos f d env =>
        simp only [tramp, cT_depth, cF_depth, cT_rec, cF_rec, Bool.false_eq_true, if_false] at hT ⊢
        cases hb : bindParams f.params args d with
        | none => simp
        | some ps =>
          simp only [hb] at hT ⊢
          suffices key : ∀ self : Option (String × Val), (∀ name c, self = some (name, c) → c = Val.clos f d env) →
              (match evalDecls m cT { env := ps.reverse ++ env, self := self, height := h2 + 1 } f.decls st with
                | (Except.error r, st') => (r, st')
                | (Except.ok fr', st') =>
                  match eval m cT fr' f.body true st' with
                  | (Res.tail newArgs, st'') => tramp m cT h2 (Val.clos f d env) newArgs (rec2 + 1) st''
                  | r => r).fst.isOof = false →
              (match evalDecls (phi m + (m + 3 + j)) cF { env := ps.reverse ++ env, self := self, height := h + 1 } f.decls st with
                | (Except.error r, st') => (r, st')
                | (Except.ok fr', st') =>
                  match eval (phi m + (m + 3 + j)) cF fr' f.body true st' with
                  | (Res.tail newArgs, st'') => tramp (phi m + (m + 3 + j)) cF h (Val.clos f d env) newArgs (rec + 1) st''
                  | r => r) =
              (match evalDecls m cT { env := ps.reverse ++ env, self := self, height := h2 + 1 } f.decls st with
                | (Except.error r, st') => (r, st')
                | (Except.ok fr', st') =>
                  match eval m cT fr' f.body true st' with
                  | (Res.tail newArgs, st'') => tramp m cT h2 (Val.clos f d env) newArgs (rec2 + 1) st''
                  | r => r) by
            refine key _ ?_ hT
            intro name c hs
            split at hs
            · cases hs; rfl
            · cases hs
          clear hT
          intro self hself' hT
          have hfok : FrameOk { env := ps.reverse ++ env, self := self, height := h2 + 1 } := by
            intro name c hs
            exact ⟨_, _, _, hself' name c hs⟩
          have hx : exOof (evalDecls m cT { env := ps.reverse ++ env, self := self, height := h2 + 1 } f.decls st).1 = false := by
            revert hT
            rcases evalDecls m cT { env := ps.reverse ++ env, self := self, height := h2 + 1 } f.decls st with ⟨r, s⟩
            cases r <;> simp
          have e1 := ih.evalDecls { env := ps.reverse ++ env, self := self, height := h2 + 1 } (h + 1) f.decls st (m + 3 + j) hfok hx
          change evalDecls _ cF { env := ps.reverse ++ env, self := self, height := h + 1 } f.decls st = _ at e1
          rw [e1]
          rcases hd : evalDecls m cT { env := ps.reverse ++ env, self := self, height := h2 + 1 } f.decls st with ⟨x, st'⟩
          rw [hd] at hT
          cases x with
          | error r => rfl
          | ok fr' =>
            simp only [setH_ok] at hT ⊢
            obtain ⟨hs', hh'⟩ := evalDecls_frame _ _ _ _ _ _ _ hd
            simp only at hs' hh'
            have hfok' : FrameOk fr' := by intro name c hs; rw [hs'] at hs; exact hfok name c hs
            rcases hevT : eval m cT fr' f.body true st' with ⟨rT, sT⟩
            rw [hevT] at hT
            cases rT
            case tail a =>
              simp only at hT ⊢
              obtain ⟨name, c', hsf, hcont⟩ := ih.evalTail fr' (h + 1) f.body true st' a sT hfok' hevT
              rw [hs'] at hsf
              have hc := hself' name c' hsf
              subst hc
              have e2 : eval (phi m + (m + 3 + j)) cF (fr'.atHeight (h + 1)) f.body true st'
                  = tramp m cT h2 (Val.clos f d env) a (rec2 + 1) sT :=
                hcont _ _ (by omega) (fun K hK => ih.tramp' (by omega) hT)
              rw [e2]
              have hnt := (noTailAt cT m).tramp h2 (Val.clos f d env) a (rec2 + 1) sT
              revert hnt
              generalize tramp m cT h2 (Val.clos f d env) a (rec2 + 1) sT = x
              obtain ⟨r, s⟩ := x
              intro hnt
              cases r <;> first | rfl | (simp at hnt)
            case oof => simp at hT
            all_goals (
              simp only at hT ⊢
              rw [ih.eval fr' (h + 1) f.body true st' (m + 3 + j) hfok' (by rw [hevT]; rfl), hevT])
      all_goals simp [tramp]

theorem simB (m : Nat) : SimB m := by
  induction m with
  | zero => exact simB_zero
  | succ m ih => exact simB_succ ih


/-! ### the running example: `fn f(n, acc) { if(n == 0, acc, f(n - 1, acc + n)) }` -/

def sumBody : Expr :=
  .call "if" [.call "eq" [.var "n", .int 0], .var "acc",
    .call "f" [.call "sub" [.var "n", .int 1], .call "add" [.var "acc", .var "n"]]]
def sumFn : Func := .mk (some "f") [.mk "n" none, .mk "acc" none] [] sumBody
def sumClos : Val := .clos sumFn [] []
/-- the frame the trampoline builds for `f(n, acc)` called from height 0 -/
def sumFrame (n acc : Int) : Frame :=
  { env := [("acc", .int acc), ("n", .int n)], self := some ("f", sumClos), height := 1 }

/-! ### the tail loop of the running example, for every iteration count -/

/-- the frame the trampoline builds for `f(n, acc)` from height `h` -/
def sumFrameAt (h : Nat) (n acc : Int) : Frame :=
  { env := [("acc", .int acc), ("n", .int n)], self := some ("f", sumClos), height := h + 1 }

theorem sumBody_step (k : Nat) (cfg : Cfg) (htco : cfg.tco = true) (h : Nat) (n acc : Int) (hn : n ≠ 0) (st : St) :
    eval (k + 14) cfg (sumFrameAt h n acc) sumBody true st = (.tail [.int (n - 1), .int (acc + n)], st) := by
  simp [eval, sumFrameAt, sumBody, callNamed, builtin, evalList, Frame.get, lookup, isStrictPrim, prim, hn, htco]

theorem sumBody_base (k : Nat) (cfg : Cfg) (h : Nat) (acc : Int) (st : St) :
    eval (k + 14) cfg (sumFrameAt h 0 acc) sumBody true st = (.val (.int acc), st) := by
  simp [eval, sumFrameAt, sumBody, callNamed, builtin, evalList, Frame.get, lookup, isStrictPrim, prim]

/-- 0 + 1 + … + n -/
def tri : Nat → Int
  | 0 => 0
  | n + 1 => tri n + (n + 1 : Nat)

theorem two_tri (n : Nat) : 2 * tri n = n * (n + 1) := by
  induction n with
  | zero => rfl
  | succ n ih => simp only [tri]; push_cast; rw [Int.mul_add, ih]; simp only [Int.add_mul, Int.mul_add]; omega

theorem sum_loop (cfg : Cfg) (htco : cfg.tco = true) (h : Nat) (hd : depthOk cfg h) (n : Nat) :
    ∀ (acc : Int) (rec : Nat) (st : St) (k : Nat),
      (recOk cfg (rec + n) →
        tramp (k + 15 + n) cfg h sumClos [.int n, .int acc] rec st = (.val (.int (acc + tri n)), st)) ∧
      (∀ l, cfg.recLimit = some l → rec ≤ l → rec + n > l →
        tramp (k + 15 + n) cfg h sumClos [.int n, .int acc] rec st = (.viol .recursion, st)) := by
  induction n with
  | zero =>
    intro acc rec st k
    have hb := sumBody_base k cfg h acc st
    simp only [sumFrameAt] at hb
    have key : tramp (k + 15 + 0) cfg h sumClos [.int (0 : Nat), .int acc] rec st = (.val (.int (acc + tri 0)), st) := by
      cases hdl : cfg.depthLimit with
      | none =>
        simp [tramp, sumClos, sumFn, bindParams, evalDecls, Func.params, Func.name, Func.decls, Func.body, Param.name,
          hdl, tri]
        simp [sumClos, sumFn] at hb
        rw [hb]
      | some l =>
        have := hd l hdl
        have h2 : ¬ (l ≤ h + 1) := by omega
        simp [tramp, sumClos, sumFn, bindParams, evalDecls, Func.params, Func.name, Func.decls, Func.body, Param.name,
          hdl, tri, h2]
        simp [sumClos, sumFn] at hb
        rw [hb]
    exact ⟨fun _ => key, fun l hl hle hgt => by omega⟩
  | succ n ih =>
    intro acc rec st k
    have hbody := sumBody_step (k + n + 1) cfg htco h ((n + 1 : Nat) : Int) acc (by omega) st
    have hfuel' : k + n + 1 + 14 = k + 15 + n := by omega
    have hargs : ((n + 1 : Nat) : Int) - 1 = (n : Int) := by omega
    have step := tramp_body_tail (k + n + 1 + 14) cfg h sumFn [] [] [("n", .int ((n + 1 : Nat) : Int)), ("acc", .int acc)]
      [.int ((n + 1 : Nat) : Int), .int acc] [.int (((n + 1 : Nat) : Int) - 1), .int (acc + ((n + 1 : Nat) : Int))] rec st st st
      (sumFrameAt h ((n + 1 : Nat) : Int) acc) hd
      (by simp [bindParams, sumFn, Func.params, Param.name])
      (by simp [evalDecls, sumFn, Func.decls, callFrame, selfCell, sumFrameAt, sumClos, Func.name])
      (by simpa [sumFn, Func.body] using hbody)
    rw [hargs, hfuel'] at step
    change (recOk cfg (rec + 1) → tramp _ cfg h sumClos _ rec st = tramp _ cfg h sumClos _ (rec + 1) st) ∧
      (∀ l, cfg.recLimit = some l → rec + 1 > l → tramp _ cfg h sumClos _ rec st = _) at step
    rw [show k + 15 + (n + 1) = k + 15 + n + 1 from rfl]
    obtain ⟨ih1, ih2⟩ := ih (acc + ((n + 1 : Nat) : Int)) (rec + 1) st k
    constructor
    · intro hr
      rw [step.1 (fun l hl => by have := hr l hl; omega), ih1 (fun l hl => by have := hr l hl; omega)]
      simp only [tri]; congr 3; omega
    · intro l hl hle hgt
      by_cases h1 : rec + 1 > l
      · exact step.2 l hl h1
      · rw [step.1 (fun l' hl' => by rw [hl] at hl'; cases hl'; omega)]
        exact ih2 l hl (by omega) (by omega)


theorem sum_call (cfg : Cfg) (htco : cfg.tco = true) (h : Nat) (hd : depthOk cfg h) (n : Nat) (acc : Int) (st : St)
    (k : Nat) (hc : ∀ l, cfg.callLimit = some l → st.calls + 1 < l) :
    let st1 : St := if cfg.callLimit.isSome then { st with calls := st.calls + 1 } else st
    (recOk cfg n →
      callUser (k + 16 + n) cfg h sumClos [.int n, .int acc] st = (.val (.int (acc + tri n)), st1)) ∧
    (∀ l, cfg.recLimit = some l → n > l →
      callUser (k + 16 + n) cfg h sumClos [.int n, .int acc] st = (.viol .recursion, st1)) := by
  intro st1
  have hfuel : k + 16 + n = (k + 15 + n) + 1 := by omega
  have key : callUser (k + 16 + n) cfg h sumClos [.int n, .int acc] st =
      tramp (k + 15 + n) cfg h sumClos [.int n, .int acc] 0 st1 := by
    rw [hfuel]
    cases hl : cfg.callLimit with
    | none => simp [callUser, firstErr, Val.isErr, hl, st1]
    | some l =>
      have := hc l hl
      have h2 : ¬ (l ≤ st.calls + 1) := by omega
      simp [callUser, firstErr, Val.isErr, hl, st1, h2]
  obtain ⟨l1, l2⟩ := sum_loop cfg htco h hd n acc 0 st1 k
  rw [key]
  exact ⟨fun hr => l1 (by simpa using hr), fun l hl hgt => l2 l hl (by omega) (by omega)⟩

/-- run the evaluator on a closed example by rewriting -/
macro "core_run" : tactic => `(tactic|
  simp [eval, sumFrame, sumBody, sumClos, sumFn, callNamed, builtin, evalList, Frame.get, lookup,
    isStrictPrim, prim, callVal, callUser, tramp, evalDecls, evalDflts, mkClos, bindParams, firstErr, Val.isErr,
    Func.params, Func.name, Func.body, Func.decls, Param.name, Param.dflt])

end XrayModel.Core
