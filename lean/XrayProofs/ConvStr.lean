/- C20 helper lemmas: chr / code_point, and reading back an escaped JSON string -/

import XrayModel.Conv
set_option linter.unusedSimpArgs false
namespace XrayModel.Conv

theorem hex_roundtrip : ∀ c : Fin 32, hex4 48 48 (hexDigit (c.val / 16)) (hexDigit (c.val % 16)) = some c.val := by
  decide

theorem read_char (c : Nat) (R acc : List Nat) : readStr (escapeChar c ++ R) acc = readStr R (c :: acc) := by
  unfold escapeChar
  by_cases h34 : c = 34
  · subst h34; simp only [if_true, if_false, List.cons_append, List.nil_append, reduceCtorEq]; rw [readStr.eq_def]; simp [simpleEscape]
  by_cases h92 : c = 92
  · subst h92; simp only [if_true, if_false, List.cons_append, List.nil_append, reduceCtorEq]; rw [readStr.eq_def]; simp [simpleEscape]
  by_cases h8 : c = 8
  · subst h8; simp only [if_true, if_false, List.cons_append, List.nil_append, reduceCtorEq]; rw [readStr.eq_def]; simp [simpleEscape]
  by_cases h9 : c = 9
  · subst h9; simp only [if_true, if_false, List.cons_append, List.nil_append, reduceCtorEq]; rw [readStr.eq_def]; simp [simpleEscape]
  by_cases h10 : c = 10
  · subst h10; simp only [if_true, if_false, List.cons_append, List.nil_append, reduceCtorEq]; rw [readStr.eq_def]; simp [simpleEscape]
  by_cases h12 : c = 12
  · subst h12; simp only [if_true, if_false, List.cons_append, List.nil_append, reduceCtorEq]; rw [readStr.eq_def]; simp [simpleEscape]
  by_cases h13 : c = 13
  · subst h13; simp only [if_true, if_false, List.cons_append, List.nil_append, reduceCtorEq]; rw [readStr.eq_def]; simp [simpleEscape]
  by_cases hlt : c < 32
  · have hh := hex_roundtrip ⟨c, hlt⟩
    simp only at hh
    simp only [h34, h92, h8, h9, h10, h12, h13, hlt, if_false, if_true, List.cons_append, List.nil_append]
    rw [readStr.eq_def]
    simp only [show ¬ (92 = 34) by decide, if_false, if_true, hh]
    have : ¬ (55296 ≤ c ∧ c < 56320) := by omega
    have h2 : ¬ (56320 ≤ c ∧ c < 57344) := by omega
    simp [this, h2]
  · simp only [h34, h92, h8, h9, h10, h12, h13, hlt, if_false, List.cons_append, List.nil_append]
    rw [readStr.eq_def]
    simp [h34, h92, hlt]

theorem read_body (s : List Nat) : ∀ acc R, readStr (escapeBody s ++ 34 :: R) acc = some (acc.reverse ++ s, R) := by
  induction s with
  | nil => intro acc R; rw [readStr.eq_def]; simp [escapeBody]
  | cons c cs ih =>
    intro acc R
    simp only [escapeBody, List.append_assoc]
    rw [read_char, ih]
    simp

theorem escapeStr_append (s R : List Nat) : escapeStr s ++ R = 34 :: (escapeBody s ++ 34 :: R) := by
  simp [escapeStr]

theorem unescape_escape_str (s : List Nat) : unescapeStr (escapeStr s) = some s := by
  have := read_body s [] []
  unfold unescapeStr
  rw [show escapeStr s = 34 :: (escapeBody s ++ 34 :: []) by simp [escapeStr]]
  simp only [this, List.reverse_nil, List.nil_append]

/-- the escaped text is printable ASCII-safe: no raw control character, no raw quote or backslash inside -/
theorem escapeChar_clean (c : Nat) : ∀ x ∈ escapeChar c, 32 ≤ x := by
  unfold escapeChar hexDigit
  intro x hx
  repeat' split at hx
  all_goals simp only [List.mem_cons, List.mem_nil_iff, or_false] at hx
  all_goals omega

end XrayModel.Conv
