/-
Helpers for C08 (limits of the core evaluator, XrayModel/Core.lean).

Finished: `noViolAt` (no limits: no violation, no counting), `kindAt` (a violation of kind k needs
limit k), `callsAt` (exactness of the call limit in terms of the counter), `noCountAt`, the
instrumented evaluator `evalI` (counts user calls, greatest frame height, greatest tail-iteration
count; never stops) with `monoAt` (its counters only grow).

In progress (definitions and tactics compile; the ten per-function simulation lemmas are not
finished, so nothing in Props/C08.lean depends on them): `Rel`/`Reached`/`Within`/`Sim`/`SimAt`
relate a run of `eval` under limits to the run of `evalI`; tactics `destruct_call`, `step`, `stepI`,
`drive`, `finish` walk the two runs in lockstep.
-/
import XrayProofs.Core
import Lean
namespace XrayModel.CoreLimits.Tac
open Lean Elab Tactic Meta

/-- number of leading ∀ of a constant's type -/
def arityOf (n : Name) : MetaM Nat := do
  let ci ← getConstInfo n
  let rec go : Expr → Nat
    | .forallE _ _ b _ => go b + 1
    | _ => 0
  return go ci.type

/-- an innermost full application (without loose bound variables) of one of `names` inside `e` -/
def findCall (names : Array (Name × Nat)) (e : Expr) : Option Expr :=
  let base (t : Expr) : Bool :=
    t.isApp && !t.hasLooseBVars &&
      (match t.getAppFn with
        | .const c _ => names.any (fun (n, a) => n == c && a == t.getAppNumArgs)
        | _ => false)
  e.find? (fun t => base t && t.getAppArgs.all (fun a => (a.find? base).isNone))

set_option hygiene false in
/-- `destruct_call f g …`: pick an innermost call of one of the listed functions in the goal and
replace it by a pair of variables `⟨r, st⟩`, keeping the equation `hcall` -/
elab "destruct_call" ids:(ppSpace colGt ident)+ : tactic => withMainContext do
  let mut names : Array (Name × Nat) := #[]
  for i in ids do
    let n ← realizeGlobalConstNoOverloadWithInfo i
    names := names.push (n, ← arityOf n)
  let tgt ← instantiateMVars (← (← getMainGoal).getType)
  let some t := findCall names tgt | throwError "no call"
  let stx ← Term.exprToSyntax t
  evalTactic (← `(tactic| rcases hcall : $stx with ⟨r, st⟩))

set_option hygiene false in
elab "destruct_callI" ids:(ppSpace colGt ident)+ : tactic => withMainContext do
  let mut names : Array (Name × Nat) := #[]
  for i in ids do
    let n ← realizeGlobalConstNoOverloadWithInfo i
    names := names.push (n, ← arityOf n)
  let tgt ← instantiateMVars (← (← getMainGoal).getType)
  let some t := findCall names tgt | throwError "no call"
  let stx ← Term.exprToSyntax t
  evalTactic (← `(tactic| rcases hcallI : $stx with ⟨rI, sI⟩))

end XrayModel.CoreLimits.Tac



namespace XrayModel.CoreLimits
open XrayModel.Core

def Res.isViol : Res → Bool
  | .viol _ => true
  | _ => false

def exViol {α : Type} : Except Res α → Bool
  | .error r => Res.isViol r
  | .ok _ => false

def NoLimits (cfg : Cfg) : Prop := cfg.depthLimit = none ∧ cfg.callLimit = none ∧ cfg.recLimit = none

theorem prim_not_viol (f : String) (vs : List Val) : Res.isViol (prim f vs) = false := by
  unfold prim
  split <;> (try split) <;> rfl

/-- the ten statements of theorem 1, at one fuel -/
structure NoViolAt (cfg : Cfg) (fuel : Nat) : Prop where
  eval : ∀ fr e tail st, Res.isViol (eval fuel cfg fr e tail st).1 = false ∧ (eval fuel cfg fr e tail st).2.calls = st.calls
  callNamed : ∀ fr f args tail st, Res.isViol (callNamed fuel cfg fr f args tail st).1 = false ∧ (callNamed fuel cfg fr f args tail st).2.calls = st.calls
  callVal : ∀ fr c args tail st, Res.isViol (callVal fuel cfg fr c args tail st).1 = false ∧ (callVal fuel cfg fr c args tail st).2.calls = st.calls
  evalList : ∀ fr es st, exViol (evalList fuel cfg fr es st).1 = false ∧ (evalList fuel cfg fr es st).2.calls = st.calls
  mkClos : ∀ fr f st, Res.isViol (mkClos fuel cfg fr f st).1 = false ∧ (mkClos fuel cfg fr f st).2.calls = st.calls
  evalDflts : ∀ fr ps st, exViol (evalDflts fuel cfg fr ps st).1 = false ∧ (evalDflts fuel cfg fr ps st).2.calls = st.calls
  callUser : ∀ h c args st, Res.isViol (callUser fuel cfg h c args st).1 = false ∧ (callUser fuel cfg h c args st).2.calls = st.calls
  tramp : ∀ h c args rec st, Res.isViol (tramp fuel cfg h c args rec st).1 = false ∧ (tramp fuel cfg h c args rec st).2.calls = st.calls
  evalDecls : ∀ fr ds st, exViol (evalDecls fuel cfg fr ds st).1 = false ∧ (evalDecls fuel cfg fr ds st).2.calls = st.calls
  builtin : ∀ fr f args tail st, Res.isViol (builtin fuel cfg fr f args tail st).1 = false ∧ (builtin fuel cfg fr f args tail st).2.calls = st.calls

theorem noViolAt (cfg : Cfg) (hc : NoLimits cfg) (fuel : Nat) : NoViolAt cfg fuel := by
  obtain ⟨hd, hcl, hr⟩ := hc
  induction fuel with
  | zero =>
    constructor <;> intros <;> simp [eval, callNamed, callVal, evalList, mkClos, evalDflts, callUser, tramp, evalDecls, builtin, Res.isViol, exViol]
  | succ n ih =>
    obtain ⟨ihE, ihCN, ihCV, ihEL, ihMC, ihED, ihCU, ihT, ihDs, ihB⟩ := ih
    constructor
    · intro fr e tail st
      cases e <;> simp only [eval]
      all_goals (repeat' split)
      all_goals grind [Res.isViol, exViol]
    · intro fr f args tail st
      simp only [callNamed]
      all_goals (repeat' split)
      all_goals grind [Res.isViol, exViol]
    · intro fr c args tail st
      simp only [callVal]
      all_goals (repeat' split)
      all_goals grind [Res.isViol, exViol]
    · intro fr es st
      cases es <;> simp only [evalList]
      all_goals (repeat' split)
      all_goals grind [Res.isViol, exViol]
    · intro fr f st
      simp only [mkClos]
      all_goals (repeat' split)
      all_goals grind [Res.isViol, exViol]
    · intro fr ps st
      cases ps <;> simp only [evalDflts]
      all_goals (repeat' split)
      all_goals grind [Res.isViol, exViol]
    · intro h c args st
      simp only [callUser]
      all_goals (repeat' split)
      all_goals grind [Res.isViol, exViol]
    · intro h c args rec st
      simp only [tramp]
      all_goals (repeat' split)
      all_goals grind [Res.isViol, exViol]
    · intro fr ds st
      simp only [evalDecls]
      all_goals (repeat' split)
      all_goals grind [Res.isViol, exViol]
    · intro fr f args tail st
      simp only [builtin]
      all_goals (repeat' split)
      all_goals grind [Res.isViol, exViol, prim_not_viol]


/-- state of the instrumented run: output, number of user calls, greatest frame height created,
greatest tail-iteration count reached by a trampoline -/
structure StI where
  out : List String := []
  calls : Nat := 0
  maxH : Nat := 0
  maxRec : Nat := 0

mutual
  /-- `RuntimeScope::evalI` -/
  def evalI (fuel : Nat) (tco : Bool) (fr : Frame) (e : Expr) (tail : Bool) (st : StI) : Res × StI :=
    match fuel with
    | 0 => (.oof, st)
    | fuel + 1 =>
      match e with
      | .int n => (.val (.int n), st)
      | .bool b => (.val (.bool b), st)
      | .str s => (.val (.str s), st)
      | .var x => match fr.get x with
          | some v => (.val v, st)
          | none => (.stuck ("unbound " ++ x), st)
      | .tup es => match evalListI fuel tco fr es st with
          | (.ok vs, st') => (.val (.tup vs), st')
          | (.error r, st') => (r, st')
      | .arr es => match evalListI fuel tco fr es st with
          | (.ok vs, st') => (.val (.arr vs), st')
          | (.error r, st') => (r, st')
      | .item e i => match evalI fuel tco fr e false st with
          | (.val (.tup vs), st') => match vs[i]? with
              | some v => (.val v, st')
              | none => (.stuck "item", st')
          | (.val (.err m), st') => (.val (.err m), st')
          | (.val _, st') => (.stuck "item of non-tuple", st')
          | (.tail _, st') => (.stuck "tail escaped", st')
          | r => r
      | .lam f => mkClosI fuel tco fr f st
      | .call f args =>
          -- the tail-call special case: callee is the local recursion cell and the tail slot is free
          match fr.self with
          | some (selfName, selfClos) =>
              if f = selfName && (lookup f fr.env).isNone then
                if tail && tco then
                  match evalListI fuel tco fr args st with
                  | (.ok vs, st') => (.tail vs, st')
                  | (.error r, st') => (r, st')
                else callValI fuel tco fr selfClos args tail st
              else callNamedI fuel tco fr f args tail st
          | none => callNamedI fuel tco fr f args tail st
      | .callE fe args => match evalI fuel tco fr fe false st with
          | (.val (.err m), st') => (.val (.err m), st')
          | (.val c, st') => callValI fuel tco fr c args tail st'
          | (.tail _, st') => (.stuck "tail escaped", st')
          | r => r

  /-- a call by name that is not the tail special case -/
  def callNamedI (fuel : Nat) (tco : Bool) (fr : Frame) (f : String) (args : List Expr) (tail : Bool) (st : StI) : Res × StI :=
    match fuel with
    | 0 => (.oof, st)
    | fuel + 1 =>
      match fr.get f with
      | some c => callValI fuel tco fr c args tail st
      | none => builtinI fuel tco fr f args tail st

  /-- `eval_func_with_expressions` for a function value -/
  def callValI (fuel : Nat) (tco : Bool) (fr : Frame) (c : Val) (args : List Expr) (_tail : Bool) (st : StI) : Res × StI :=
    match fuel with
    | 0 => (.oof, st)
    | fuel + 1 =>
      match c with
      | .clos f dflts env =>
          match evalListI fuel tco fr args st with
          | (.ok vs, st') => callUserI fuel tco fr.height (.clos f dflts env) vs st'
          | (.error r, st') => (r, st')
      | .err m => (.val (.err m), st)
      | _ => (.stuck "call of a non-function", st)

  /-- arguments left to right, each exactly once; the first error value or non-value outcome ends it -/
  def evalListI (fuel : Nat) (tco : Bool) (fr : Frame) (es : List Expr) (st : StI) : Except Res (List Val) × StI :=
    match fuel with
    | 0 => (.error .oof, st)
    | fuel + 1 =>
      match es with
      | [] => (.ok [], st)
      | e :: rest => match evalI fuel tco fr e false st with
          | (.val (.err m), st') => (.error (.val (.err m)), st')
          | (.val v, st') => match evalListI fuel tco fr rest st' with
              | (.ok vs, st'') => (.ok (v :: vs), st'')
              | r => r
          | (.tail _, st') => (.error (.stuck "tail escaped"), st')
          | (r, st') => (.error r, st')

  /-- closure creation (`to_function` / `from_specs`): defaults are evaluated now, in the defining frame -/
  def mkClosI (fuel : Nat) (tco : Bool) (fr : Frame) (f : Func) (st : StI) : Res × StI :=
    match fuel with
    | 0 => (.oof, st)
    | fuel + 1 =>
      match evalDfltsI fuel tco fr f.params st with
      | (.ok ds, st') =>
          let env := match fr.self with
            | some s => fr.env ++ [s]
            | none => fr.env
          (.val (.clos f ds env), st')
      | (.error r, st') => (r, st')

  /-- defaults may be error values (they are stored as evaluated, `from_specs`) -/
  def evalDfltsI (fuel : Nat) (tco : Bool) (fr : Frame) (ps : List Param) (st : StI) : Except Res (List Val) × StI :=
    match fuel with
    | 0 => (.error .oof, st)
    | fuel + 1 =>
      match ps with
      | [] => (.ok [], st)
      | p :: rest => match p.dflt with
          | none => evalDfltsI fuel tco fr rest st
          | some d => match evalI fuel tco fr d false st with
              | (.val v, st') => match evalDfltsI fuel tco fr rest st' with
                  | (.ok vs, st'') => (.ok (v :: vs), st'')
                  | r => r
              | (.tail _, st') => (.error (.stuck "tail escaped"), st')
              | (r, st') => (.error r, st')

  /-- `eval_func_with_values` (user function): call counter, then the trampoline -/
  def callUserI (fuel : Nat) (tco : Bool) (height : Nat) (c : Val) (args : List Val) (st : StI) : Res × StI :=
    match fuel with
    | 0 => (.oof, st)
    | fuel + 1 =>
      match firstErr args with
      | some e => (.val e, st)
      | none =>
        trampI fuel tco height c args 0 { st with calls := st.calls + 1 }

  /-- the trampoline loop of `eval_func_with_values` -/
  def trampI (fuel : Nat) (tco : Bool) (height : Nat) (c : Val) (args : List Val) (rec : Nat) (st : StI) : Res × StI :=
    match fuel with
    | 0 => (.oof, st)
    | fuel + 1 =>
      match c with
      | .clos f dflts env =>
          -- `from_template`: depth check first
          let h := height + 1
          let st := { st with maxH := max st.maxH h }
          match bindParams f.params args dflts with
            | none => (.stuck "arity", st)
            | some ps =>
              let self := match f.name with
                | some n => some (n, c)
                | none => none
              let fr : Frame := { env := ps.reverse ++ env, self := self, height := h }
              match evalDeclsI fuel tco fr f.decls st with
              | (.error r, st') => (r, st')
              | (.ok fr', st') =>
                match evalI fuel tco fr' f.body true st' with
                | (.tail newArgs, st'') =>
                    let rec' := rec + 1
                    trampI fuel tco height c newArgs rec' { st'' with maxRec := max st''.maxRec rec' }
                | r => r
      | _ => (.stuck "tramp of a non-function", st)

  /-- the declarations of a body, in order (`from_template`) -/
  def evalDeclsI (fuel : Nat) (tco : Bool) (fr : Frame) (ds : List Decl) (st : StI) : Except Res Frame × StI :=
    match fuel with
    | 0 => (.error .oof, st)
    | fuel + 1 =>
      match ds with
      | [] => (.ok fr, st)
      | .letD x e :: rest => match evalI fuel tco fr e false st with
          | (.val v, st') => evalDeclsI fuel tco { fr with env := (x, v) :: fr.env } rest st'
          | (.tail _, st') => (.error (.stuck "tail escaped"), st')
          | (r, st') => (.error r, st')
      | .fnD f :: rest => match mkClosI fuel tco fr f st with
          | (.val c, st') => match f.name with
              | some n => evalDeclsI fuel tco { fr with env := (n, c) :: fr.env } rest st'
              | none => (.error (.stuck "anonymous declaration"), st')
          | (.tail _, st') => (.error (.stuck "tail escaped"), st')
          | (r, st') => (.error r, st')

  /-- natives: the short-circuiting ones evaluate only the selected argument and forward the tail slot -/
  def builtinI (fuel : Nat) (tco : Bool) (fr : Frame) (f : String) (args : List Expr) (tail : Bool) (st : StI) : Res × StI :=
    match fuel with
    | 0 => (.oof, st)
    | fuel + 1 =>
      match f, args with
      | "if", [c, a, b] => match evalI fuel tco fr c false st with
          | (.val (.bool t), st') => evalI fuel tco fr (if t then a else b) tail st'
          | (.val (.err m), st') => (.val (.err m), st')
          | (.val _, st') => (.stuck "if", st')
          | (.tail _, st') => (.stuck "tail escaped", st')
          | r => r
      | "and", [a, b] => match evalI fuel tco fr a false st with
          | (.val (.bool true), st') => evalI fuel tco fr b tail st'
          | (.val (.bool false), st') => (.val (.bool false), st')
          | (.val (.err m), st') => (.val (.err m), st')
          | (.val _, st') => (.stuck "and", st')
          | (.tail _, st') => (.stuck "tail escaped", st')
          | r => r
      | "or", [a, b] => match evalI fuel tco fr a false st with
          | (.val (.bool false), st') => evalI fuel tco fr b tail st'
          | (.val (.bool true), st') => (.val (.bool true), st')
          | (.val (.err m), st') => (.val (.err m), st')
          | (.val _, st') => (.stuck "or", st')
          | (.tail _, st') => (.stuck "tail escaped", st')
          | r => r
      | "if_error", [a, b] => match evalI fuel tco fr a false st with
          | (.val (.err _), st') => evalI fuel tco fr b tail st'
          | (.val v, st') => (.val v, st')
          | (.tail _, st') => (.stuck "tail escaped", st')
          | r => r
      | "is_error", [a] => match evalI fuel tco fr a false st with
          | (.val v, st') => (.val (.bool v.isErr), st')
          | (.tail _, st') => (.stuck "tail escaped", st')
          | r => r
      | "display", [a] => match evalI fuel tco fr a false st with
          | (.val (.err m), st') => (.val (.err m), st')
          | (.val v, st') => match toStr v with
              | some s => (.val v, { st' with out := st'.out ++ [s] })
              | none => (.stuck "display", st')
          | (.tail _, st') => (.stuck "tail escaped", st')
          | r => r
      | _, _ =>
          if isStrictPrim f then
            match evalListI fuel tco fr args st with
            | (.ok vs, st') => (prim f vs, st')
            | (.error r, st') => (r, st')
          else (.stuck ("unknown function " ++ f), st)
end


def StI.le (a b : StI) : Prop := a.calls ≤ b.calls ∧ a.maxH ≤ b.maxH ∧ a.maxRec ≤ b.maxRec

structure MonoAt (tco : Bool) (fuel : Nat) : Prop where
  eval : ∀ fr e tail st, StI.le st (evalI fuel tco fr e tail st).2
  callNamed : ∀ fr f args tail st, StI.le st (callNamedI fuel tco fr f args tail st).2
  callVal : ∀ fr c args tail st, StI.le st (callValI fuel tco fr c args tail st).2
  evalList : ∀ fr es st, StI.le st (evalListI fuel tco fr es st).2
  mkClos : ∀ fr f st, StI.le st (mkClosI fuel tco fr f st).2
  evalDflts : ∀ fr ps st, StI.le st (evalDfltsI fuel tco fr ps st).2
  callUser : ∀ h c args st, StI.le st (callUserI fuel tco h c args st).2
  tramp : ∀ h c args rec st, StI.le st (trampI fuel tco h c args rec st).2
  evalDecls : ∀ fr ds st, StI.le st (evalDeclsI fuel tco fr ds st).2
  builtin : ∀ fr f args tail st, StI.le st (builtinI fuel tco fr f args tail st).2

theorem monoAt (tco : Bool) (fuel : Nat) : MonoAt tco fuel := by
  induction fuel with
  | zero =>
    constructor <;> intros <;> simp [evalI, callNamedI, callValI, evalListI, mkClosI, evalDfltsI, callUserI, trampI, evalDeclsI, builtinI, StI.le]
  | succ n ih =>
    obtain ⟨ihE, ihCN, ihCV, ihEL, ihMC, ihED, ihCU, ihT, ihDs, ihB⟩ := ih
    constructor
    · intro fr e tail st
      cases e <;> simp only [evalI]
      all_goals (repeat' split)
      all_goals grind [StI.le]
    · intro fr f args tail st
      simp only [callNamedI]
      all_goals (repeat' split)
      all_goals grind [StI.le]
    · intro fr c args tail st
      simp only [callValI]
      all_goals (repeat' split)
      all_goals grind [StI.le]
    · intro fr es st
      cases es <;> simp only [evalListI]
      all_goals (repeat' split)
      all_goals grind [StI.le]
    · intro fr f st
      simp only [mkClosI]
      all_goals (repeat' split)
      all_goals grind [StI.le]
    · intro fr ps st
      cases ps <;> simp only [evalDfltsI]
      all_goals (repeat' split)
      all_goals grind [StI.le]
    · intro h c args st
      simp only [callUserI]
      all_goals (repeat' split)
      all_goals grind [StI.le]
    · intro h c args rec st
      simp only [trampI]
      all_goals (repeat' split)
      all_goals grind [StI.le]
    · intro fr ds st
      simp only [evalDeclsI]
      all_goals (repeat' split)
      all_goals grind [StI.le]
    · intro fr f args tail st
      simp only [builtinI]
      all_goals (repeat' split)
      all_goals grind [StI.le]


def Rel (cfg : Cfg) (c0 : Nat) (st : St) (sI : StI) : Prop :=
  st.out = sI.out ∧ ∀ l, cfg.callLimit = some l → st.calls = c0 + sI.calls

/-- limit `k` of `cfg` is reached by the counters of the instrumented run -/
def Reached (cfg : Cfg) (c0 : Nat) (sI : StI) (k : Viol) : Prop :=
  (k = .depth ∧ ∃ l, cfg.depthLimit = some l ∧ l ≤ sI.maxH ∧ 0 < sI.maxH) ∨
  (k = .calls ∧ ∃ l, cfg.callLimit = some l ∧ l ≤ c0 + sI.calls ∧ 0 < sI.calls) ∨
  (k = .recursion ∧ ∃ l, cfg.recLimit = some l ∧ l < sI.maxRec)

/-- no limit of `cfg` is reached by the counters of the instrumented run -/
def Within (cfg : Cfg) (c0 : Nat) (sI : StI) : Prop :=
  (∀ l, cfg.depthLimit = some l → sI.maxH < l ∨ sI.maxH = 0) ∧
  (∀ l, cfg.callLimit = some l → c0 + sI.calls < l ∨ sI.calls = 0) ∧
  (∀ l, cfg.recLimit = some l → sI.maxRec ≤ l)

def Sim (cfg : Cfg) (c0 : Nat) (sI : StI) (p : Res × St) (q : Res × StI) : Prop :=
  match p.1 with
  | .viol k => Reached cfg c0 q.2 k
  | r => r = q.1 ∧ Rel cfg c0 p.2 q.2 ∧ (Within cfg c0 sI → Within cfg c0 q.2)

def SimE {α : Type} (cfg : Cfg) (c0 : Nat) (sI : StI) (p : Except Res α × St) (q : Except Res α × StI) : Prop :=
  match p.1 with
  | .error (.viol k) => Reached cfg c0 q.2 k
  | r => r = q.1 ∧ Rel cfg c0 p.2 q.2 ∧ (Within cfg c0 sI → Within cfg c0 q.2)

structure SimAt (cfg : Cfg) (c0 : Nat) (fuel : Nat) : Prop where
  eval : ∀ fr e tail st sI, Rel cfg c0 st sI → Sim cfg c0 sI (eval fuel cfg fr e tail st) (evalI fuel cfg.tco fr e tail sI)
  callNamed : ∀ fr f args tail st sI, Rel cfg c0 st sI → Sim cfg c0 sI (callNamed fuel cfg fr f args tail st) (callNamedI fuel cfg.tco fr f args tail sI)
  callVal : ∀ fr c args tail st sI, Rel cfg c0 st sI → Sim cfg c0 sI (callVal fuel cfg fr c args tail st) (callValI fuel cfg.tco fr c args tail sI)
  evalList : ∀ fr es st sI, Rel cfg c0 st sI → SimE cfg c0 sI (evalList fuel cfg fr es st) (evalListI fuel cfg.tco fr es sI)
  mkClos : ∀ fr f st sI, Rel cfg c0 st sI → Sim cfg c0 sI (mkClos fuel cfg fr f st) (mkClosI fuel cfg.tco fr f sI)
  evalDflts : ∀ fr ps st sI, Rel cfg c0 st sI → SimE cfg c0 sI (evalDflts fuel cfg fr ps st) (evalDfltsI fuel cfg.tco fr ps sI)
  callUser : ∀ h c args st sI, Rel cfg c0 st sI → Sim cfg c0 sI (callUser fuel cfg h c args st) (callUserI fuel cfg.tco h c args sI)
  tramp : ∀ h c args rec st sI, Rel cfg c0 st sI → Sim cfg c0 sI (tramp fuel cfg h c args rec st) (trampI fuel cfg.tco h c args rec sI)
  evalDecls : ∀ fr ds st sI, Rel cfg c0 st sI → SimE cfg c0 sI (evalDecls fuel cfg fr ds st) (evalDeclsI fuel cfg.tco fr ds sI)
  builtin : ∀ fr f args tail st sI, Rel cfg c0 st sI → Sim cfg c0 sI (builtin fuel cfg fr f args tail st) (builtinI fuel cfg.tco fr f args tail sI)

set_option hygiene false in
macro "cases_r" : tactic => `(tactic| first
  | (have _hr : Res := r; rcases r with ((_ | ⟨_ | _⟩ | _ | _ | _ | _ | _) | _ | _ | _ | _))
  | rcases r with ((_ | _ | _ | _ | _) | _))
set_option hygiene false in
macro "cases_rI" : tactic => `(tactic| first
  | (have _hr : Res := rI; rcases rI with ((_ | ⟨_ | _⟩ | _ | _ | _ | _ | _) | _ | _ | _ | _))
  | rcases rI with ((_ | _ | _ | _ | _) | _))

set_option hygiene false in
macro "stepI" : tactic => `(tactic| (
  destruct_callI evalI callNamedI callValI evalListI mkClosI evalDfltsI callUserI trampI evalDeclsI builtinI
  have hm := by first | exact mE' hcallI | exact mCN' hcallI | exact mCV' hcallI | exact mEL' hcallI | exact mMC' hcallI | exact mED' hcallI | exact mCU' hcallI | exact mT' hcallI | exact mDs' hcallI | exact mB' hcallI
  cases_rI
  all_goals (try dsimp only)))

set_option hygiene false in
macro "step" : tactic => `(tactic| (
  destruct_call eval callNamed callVal evalList mkClos evalDflts callUser tramp evalDecls builtin
  destruct_callI evalI callNamedI callValI evalListI mkClosI evalDfltsI callUserI trampI evalDeclsI builtinI
  have hs := by first | exact ihE' hcall hcallI | exact ihCN' hcall hcallI | exact ihCV' hcall hcallI | exact ihEL' hcall hcallI | exact ihMC' hcall hcallI | exact ihED' hcall hcallI | exact ihCU' hcall hcallI | exact ihT' hcall hcallI | exact ihDs' hcall hcallI | exact ihB' hcall hcallI
  have hm := by first | exact mE' hcallI | exact mCN' hcallI | exact mCV' hcallI | exact mEL' hcallI | exact mMC' hcallI | exact mED' hcallI | exact mCU' hcallI | exact mT' hcallI | exact mDs' hcallI | exact mB' hcallI
  specialize hs (by first | assumption | grind [Rel])
  cases_r
  all_goals (simp only [Sim, SimE] at hs)
  all_goals first
    | (obtain ⟨h1, hrel, hw⟩ := hs; subst h1)
    | cases_rI
  all_goals (try dsimp only)))

macro "drive" : tactic => `(tactic| repeat' (first | step | stepI | split))

macro "finish" : tactic => `(tactic| grind [Sim, SimE, Rel, Reached, Within, StI.le])


/-- the induction hypothesis in the form the tactics use -/
structure SimAt' (cfg : Cfg) (c0 : Nat) (fuel : Nat) : Prop where
  eval : ∀ {fr e tail st sI r st1 rI sI1}, eval fuel cfg fr e tail st = (r, st1) → evalI fuel cfg.tco fr e tail sI = (rI, sI1) → Rel cfg c0 st sI → Sim cfg c0 sI (r, st1) (rI, sI1)
  evalM : ∀ {fr e tail sI rI sI1}, evalI fuel cfg.tco fr e tail sI = (rI, sI1) → StI.le sI sI1
  callNamed : ∀ {fr f args tail st sI r st1 rI sI1}, callNamed fuel cfg fr f args tail st = (r, st1) → callNamedI fuel cfg.tco fr f args tail sI = (rI, sI1) → Rel cfg c0 st sI → Sim cfg c0 sI (r, st1) (rI, sI1)
  callNamedM : ∀ {fr f args tail sI rI sI1}, callNamedI fuel cfg.tco fr f args tail sI = (rI, sI1) → StI.le sI sI1
  callVal : ∀ {fr c args tail st sI r st1 rI sI1}, callVal fuel cfg fr c args tail st = (r, st1) → callValI fuel cfg.tco fr c args tail sI = (rI, sI1) → Rel cfg c0 st sI → Sim cfg c0 sI (r, st1) (rI, sI1)
  callValM : ∀ {fr c args tail sI rI sI1}, callValI fuel cfg.tco fr c args tail sI = (rI, sI1) → StI.le sI sI1
  evalList : ∀ {fr es st sI r st1 rI sI1}, evalList fuel cfg fr es st = (r, st1) → evalListI fuel cfg.tco fr es sI = (rI, sI1) → Rel cfg c0 st sI → SimE cfg c0 sI (r, st1) (rI, sI1)
  evalListM : ∀ {fr es sI rI sI1}, evalListI fuel cfg.tco fr es sI = (rI, sI1) → StI.le sI sI1
  mkClos : ∀ {fr f st sI r st1 rI sI1}, mkClos fuel cfg fr f st = (r, st1) → mkClosI fuel cfg.tco fr f sI = (rI, sI1) → Rel cfg c0 st sI → Sim cfg c0 sI (r, st1) (rI, sI1)
  mkClosM : ∀ {fr f sI rI sI1}, mkClosI fuel cfg.tco fr f sI = (rI, sI1) → StI.le sI sI1
  evalDflts : ∀ {fr ps st sI r st1 rI sI1}, evalDflts fuel cfg fr ps st = (r, st1) → evalDfltsI fuel cfg.tco fr ps sI = (rI, sI1) → Rel cfg c0 st sI → SimE cfg c0 sI (r, st1) (rI, sI1)
  evalDfltsM : ∀ {fr ps sI rI sI1}, evalDfltsI fuel cfg.tco fr ps sI = (rI, sI1) → StI.le sI sI1
  callUser : ∀ {h c args st sI r st1 rI sI1}, callUser fuel cfg h c args st = (r, st1) → callUserI fuel cfg.tco h c args sI = (rI, sI1) → Rel cfg c0 st sI → Sim cfg c0 sI (r, st1) (rI, sI1)
  callUserM : ∀ {h c args sI rI sI1}, callUserI fuel cfg.tco h c args sI = (rI, sI1) → StI.le sI sI1
  tramp : ∀ {h c args rec st sI r st1 rI sI1}, tramp fuel cfg h c args rec st = (r, st1) → trampI fuel cfg.tco h c args rec sI = (rI, sI1) → Rel cfg c0 st sI → Sim cfg c0 sI (r, st1) (rI, sI1)
  trampM : ∀ {h c args rec sI rI sI1}, trampI fuel cfg.tco h c args rec sI = (rI, sI1) → StI.le sI sI1
  evalDecls : ∀ {fr ds st sI r st1 rI sI1}, evalDecls fuel cfg fr ds st = (r, st1) → evalDeclsI fuel cfg.tco fr ds sI = (rI, sI1) → Rel cfg c0 st sI → SimE cfg c0 sI (r, st1) (rI, sI1)
  evalDeclsM : ∀ {fr ds sI rI sI1}, evalDeclsI fuel cfg.tco fr ds sI = (rI, sI1) → StI.le sI sI1
  builtin : ∀ {fr f args tail st sI r st1 rI sI1}, builtin fuel cfg fr f args tail st = (r, st1) → builtinI fuel cfg.tco fr f args tail sI = (rI, sI1) → Rel cfg c0 st sI → Sim cfg c0 sI (r, st1) (rI, sI1)
  builtinM : ∀ {fr f args tail sI rI sI1}, builtinI fuel cfg.tco fr f args tail sI = (rI, sI1) → StI.le sI sI1

theorem SimAt.prime {cfg : Cfg} {c0 fuel : Nat} (hS : SimAt cfg c0 fuel) : SimAt' cfg c0 fuel := by
  have m := monoAt cfg.tco fuel
  constructor
  · intro fr e tail st sI r st1 rI sI1 h1 h2 h3; rw [← h1, ← h2]; exact hS.eval _ _ _ _ _ h3
  · intro fr e tail sI rI sI1 h2; have := m.eval fr e tail sI; rw [h2] at this; exact this
  · intro fr f args tail st sI r st1 rI sI1 h1 h2 h3; rw [← h1, ← h2]; exact hS.callNamed _ _ _ _ _ _ h3
  · intro fr f args tail sI rI sI1 h2; have := m.callNamed fr f args tail sI; rw [h2] at this; exact this
  · intro fr c args tail st sI r st1 rI sI1 h1 h2 h3; rw [← h1, ← h2]; exact hS.callVal _ _ _ _ _ _ h3
  · intro fr c args tail sI rI sI1 h2; have := m.callVal fr c args tail sI; rw [h2] at this; exact this
  · intro fr es st sI r st1 rI sI1 h1 h2 h3; rw [← h1, ← h2]; exact hS.evalList _ _ _ _ h3
  · intro fr es sI rI sI1 h2; have := m.evalList fr es sI; rw [h2] at this; exact this
  · intro fr f st sI r st1 rI sI1 h1 h2 h3; rw [← h1, ← h2]; exact hS.mkClos _ _ _ _ h3
  · intro fr f sI rI sI1 h2; have := m.mkClos fr f sI; rw [h2] at this; exact this
  · intro fr ps st sI r st1 rI sI1 h1 h2 h3; rw [← h1, ← h2]; exact hS.evalDflts _ _ _ _ h3
  · intro fr ps sI rI sI1 h2; have := m.evalDflts fr ps sI; rw [h2] at this; exact this
  · intro h c args st sI r st1 rI sI1 h1 h2 h3; rw [← h1, ← h2]; exact hS.callUser _ _ _ _ _ h3
  · intro h c args sI rI sI1 h2; have := m.callUser h c args sI; rw [h2] at this; exact this
  · intro h c args rec st sI r st1 rI sI1 h1 h2 h3; rw [← h1, ← h2]; exact hS.tramp _ _ _ _ _ _ h3
  · intro h c args rec sI rI sI1 h2; have := m.tramp h c args rec sI; rw [h2] at this; exact this
  · intro fr ds st sI r st1 rI sI1 h1 h2 h3; rw [← h1, ← h2]; exact hS.evalDecls _ _ _ _ h3
  · intro fr ds sI rI sI1 h2; have := m.evalDecls fr ds sI; rw [h2] at this; exact this
  · intro fr f args tail st sI r st1 rI sI1 h1 h2 h3; rw [← h1, ← h2]; exact hS.builtin _ _ _ _ _ _ h3
  · intro fr f args tail sI rI sI1 h2; have := m.builtin fr f args tail sI; rw [h2] at this; exact this



/-! ### a violation of kind `k` needs limit `k` to be configured -/

structure KindAt (cfg : Cfg) (fuel : Nat) : Prop where
  eval : ∀ fr e tail st, ((eval fuel cfg fr e tail st).1 = .viol .depth → cfg.depthLimit ≠ none) ∧ ((eval fuel cfg fr e tail st).1 = .viol .calls → cfg.callLimit ≠ none) ∧ ((eval fuel cfg fr e tail st).1 = .viol .recursion → cfg.recLimit ≠ none)
  callNamed : ∀ fr f args tail st, ((callNamed fuel cfg fr f args tail st).1 = .viol .depth → cfg.depthLimit ≠ none) ∧ ((callNamed fuel cfg fr f args tail st).1 = .viol .calls → cfg.callLimit ≠ none) ∧ ((callNamed fuel cfg fr f args tail st).1 = .viol .recursion → cfg.recLimit ≠ none)
  callVal : ∀ fr c args tail st, ((callVal fuel cfg fr c args tail st).1 = .viol .depth → cfg.depthLimit ≠ none) ∧ ((callVal fuel cfg fr c args tail st).1 = .viol .calls → cfg.callLimit ≠ none) ∧ ((callVal fuel cfg fr c args tail st).1 = .viol .recursion → cfg.recLimit ≠ none)
  evalList : ∀ fr es st, ((evalList fuel cfg fr es st).1 = .error (.viol .depth) → cfg.depthLimit ≠ none) ∧ ((evalList fuel cfg fr es st).1 = .error (.viol .calls) → cfg.callLimit ≠ none) ∧ ((evalList fuel cfg fr es st).1 = .error (.viol .recursion) → cfg.recLimit ≠ none)
  mkClos : ∀ fr f st, ((mkClos fuel cfg fr f st).1 = .viol .depth → cfg.depthLimit ≠ none) ∧ ((mkClos fuel cfg fr f st).1 = .viol .calls → cfg.callLimit ≠ none) ∧ ((mkClos fuel cfg fr f st).1 = .viol .recursion → cfg.recLimit ≠ none)
  evalDflts : ∀ fr ps st, ((evalDflts fuel cfg fr ps st).1 = .error (.viol .depth) → cfg.depthLimit ≠ none) ∧ ((evalDflts fuel cfg fr ps st).1 = .error (.viol .calls) → cfg.callLimit ≠ none) ∧ ((evalDflts fuel cfg fr ps st).1 = .error (.viol .recursion) → cfg.recLimit ≠ none)
  callUser : ∀ h c args st, ((callUser fuel cfg h c args st).1 = .viol .depth → cfg.depthLimit ≠ none) ∧ ((callUser fuel cfg h c args st).1 = .viol .calls → cfg.callLimit ≠ none) ∧ ((callUser fuel cfg h c args st).1 = .viol .recursion → cfg.recLimit ≠ none)
  tramp : ∀ h c args rec st, ((tramp fuel cfg h c args rec st).1 = .viol .depth → cfg.depthLimit ≠ none) ∧ ((tramp fuel cfg h c args rec st).1 = .viol .calls → cfg.callLimit ≠ none) ∧ ((tramp fuel cfg h c args rec st).1 = .viol .recursion → cfg.recLimit ≠ none)
  evalDecls : ∀ fr ds st, ((evalDecls fuel cfg fr ds st).1 = .error (.viol .depth) → cfg.depthLimit ≠ none) ∧ ((evalDecls fuel cfg fr ds st).1 = .error (.viol .calls) → cfg.callLimit ≠ none) ∧ ((evalDecls fuel cfg fr ds st).1 = .error (.viol .recursion) → cfg.recLimit ≠ none)
  builtin : ∀ fr f args tail st, ((builtin fuel cfg fr f args tail st).1 = .viol .depth → cfg.depthLimit ≠ none) ∧ ((builtin fuel cfg fr f args tail st).1 = .viol .calls → cfg.callLimit ≠ none) ∧ ((builtin fuel cfg fr f args tail st).1 = .viol .recursion → cfg.recLimit ≠ none)

set_option maxHeartbeats 4000000 in
theorem kindAt (cfg : Cfg)  (fuel : Nat) : KindAt cfg fuel := by
  induction fuel with
  | zero =>
    constructor <;> intros <;> simp [eval, callNamed, callVal, evalList, mkClos, evalDflts, callUser, tramp, evalDecls, builtin]
  | succ n ih =>
    obtain ⟨ihE, ihCN, ihCV, ihEL, ihMC, ihED, ihCU, ihT, ihDs, ihB⟩ := ih
    constructor
    · intro fr e tail st
      cases e <;> simp only [eval]
      all_goals (repeat' split)
      all_goals grind [prim_not_viol, Res.isViol]
    · intro fr f args tail st
      simp only [callNamed]
      all_goals (repeat' split)
      all_goals grind [prim_not_viol, Res.isViol]
    · intro fr c args tail st
      simp only [callVal]
      all_goals (repeat' split)
      all_goals grind [prim_not_viol, Res.isViol]
    · intro fr es st
      cases es <;> simp only [evalList]
      all_goals (repeat' split)
      all_goals grind [prim_not_viol, Res.isViol]
    · intro fr f st
      simp only [mkClos]
      all_goals (repeat' split)
      all_goals grind [prim_not_viol, Res.isViol]
    · intro fr ps st
      cases ps <;> simp only [evalDflts]
      all_goals (repeat' split)
      all_goals grind [prim_not_viol, Res.isViol]
    · intro h c args st
      simp only [callUser]
      all_goals (repeat' split)
      all_goals grind [prim_not_viol, Res.isViol]
    · intro h c args rec st
      simp only [tramp]
      all_goals (repeat' split)
      all_goals grind [prim_not_viol, Res.isViol]
    · intro fr ds st
      simp only [evalDecls]
      all_goals (repeat' split)
      all_goals grind [prim_not_viol, Res.isViol]
    · intro fr f args tail st
      simp only [builtin]
      all_goals (repeat' split)
      all_goals grind [prim_not_viol, Res.isViol]

/-! ### the call counter under a call limit `l`: it never decreases; started below `l`, the run ends
in the call violation exactly when the counter reaches `l` (and then it is exactly `l`) -/

structure CallsAt (cfg : Cfg) (l : Nat) (fuel : Nat) : Prop where
  eval : ∀ fr e tail st, st.calls ≤ (eval fuel cfg fr e tail st).2.calls ∧ (st.calls < l → ((eval fuel cfg fr e tail st).1 = .viol .calls → (eval fuel cfg fr e tail st).2.calls = l) ∧ ((eval fuel cfg fr e tail st).1 ≠ .viol .calls → (eval fuel cfg fr e tail st).2.calls < l))
  callNamed : ∀ fr f args tail st, st.calls ≤ (callNamed fuel cfg fr f args tail st).2.calls ∧ (st.calls < l → ((callNamed fuel cfg fr f args tail st).1 = .viol .calls → (callNamed fuel cfg fr f args tail st).2.calls = l) ∧ ((callNamed fuel cfg fr f args tail st).1 ≠ .viol .calls → (callNamed fuel cfg fr f args tail st).2.calls < l))
  callVal : ∀ fr c args tail st, st.calls ≤ (callVal fuel cfg fr c args tail st).2.calls ∧ (st.calls < l → ((callVal fuel cfg fr c args tail st).1 = .viol .calls → (callVal fuel cfg fr c args tail st).2.calls = l) ∧ ((callVal fuel cfg fr c args tail st).1 ≠ .viol .calls → (callVal fuel cfg fr c args tail st).2.calls < l))
  evalList : ∀ fr es st, st.calls ≤ (evalList fuel cfg fr es st).2.calls ∧ (st.calls < l → ((evalList fuel cfg fr es st).1 = .error (.viol .calls) → (evalList fuel cfg fr es st).2.calls = l) ∧ ((evalList fuel cfg fr es st).1 ≠ .error (.viol .calls) → (evalList fuel cfg fr es st).2.calls < l))
  mkClos : ∀ fr f st, st.calls ≤ (mkClos fuel cfg fr f st).2.calls ∧ (st.calls < l → ((mkClos fuel cfg fr f st).1 = .viol .calls → (mkClos fuel cfg fr f st).2.calls = l) ∧ ((mkClos fuel cfg fr f st).1 ≠ .viol .calls → (mkClos fuel cfg fr f st).2.calls < l))
  evalDflts : ∀ fr ps st, st.calls ≤ (evalDflts fuel cfg fr ps st).2.calls ∧ (st.calls < l → ((evalDflts fuel cfg fr ps st).1 = .error (.viol .calls) → (evalDflts fuel cfg fr ps st).2.calls = l) ∧ ((evalDflts fuel cfg fr ps st).1 ≠ .error (.viol .calls) → (evalDflts fuel cfg fr ps st).2.calls < l))
  callUser : ∀ h c args st, st.calls ≤ (callUser fuel cfg h c args st).2.calls ∧ (st.calls < l → ((callUser fuel cfg h c args st).1 = .viol .calls → (callUser fuel cfg h c args st).2.calls = l) ∧ ((callUser fuel cfg h c args st).1 ≠ .viol .calls → (callUser fuel cfg h c args st).2.calls < l))
  tramp : ∀ h c args rec st, st.calls ≤ (tramp fuel cfg h c args rec st).2.calls ∧ (st.calls < l → ((tramp fuel cfg h c args rec st).1 = .viol .calls → (tramp fuel cfg h c args rec st).2.calls = l) ∧ ((tramp fuel cfg h c args rec st).1 ≠ .viol .calls → (tramp fuel cfg h c args rec st).2.calls < l))
  evalDecls : ∀ fr ds st, st.calls ≤ (evalDecls fuel cfg fr ds st).2.calls ∧ (st.calls < l → ((evalDecls fuel cfg fr ds st).1 = .error (.viol .calls) → (evalDecls fuel cfg fr ds st).2.calls = l) ∧ ((evalDecls fuel cfg fr ds st).1 ≠ .error (.viol .calls) → (evalDecls fuel cfg fr ds st).2.calls < l))
  builtin : ∀ fr f args tail st, st.calls ≤ (builtin fuel cfg fr f args tail st).2.calls ∧ (st.calls < l → ((builtin fuel cfg fr f args tail st).1 = .viol .calls → (builtin fuel cfg fr f args tail st).2.calls = l) ∧ ((builtin fuel cfg fr f args tail st).1 ≠ .viol .calls → (builtin fuel cfg fr f args tail st).2.calls < l))

set_option maxHeartbeats 4000000 in
theorem callsAt (cfg : Cfg) (l : Nat) (hl : cfg.callLimit = some l) (fuel : Nat) : CallsAt cfg l fuel := by
  induction fuel with
  | zero =>
    constructor <;> intros <;> simp [eval, callNamed, callVal, evalList, mkClos, evalDflts, callUser, tramp, evalDecls, builtin]
  | succ n ih =>
    obtain ⟨ihE, ihCN, ihCV, ihEL, ihMC, ihED, ihCU, ihT, ihDs, ihB⟩ := ih
    constructor
    · intro fr e tail st
      cases e <;> simp only [eval]
      all_goals (repeat' split)
      all_goals grind [prim_not_viol, Res.isViol]
    · intro fr f args tail st
      simp only [callNamed]
      all_goals (repeat' split)
      all_goals grind [prim_not_viol, Res.isViol]
    · intro fr c args tail st
      simp only [callVal]
      all_goals (repeat' split)
      all_goals grind [prim_not_viol, Res.isViol]
    · intro fr es st
      cases es <;> simp only [evalList]
      all_goals (repeat' split)
      all_goals grind [prim_not_viol, Res.isViol]
    · intro fr f st
      simp only [mkClos]
      all_goals (repeat' split)
      all_goals grind [prim_not_viol, Res.isViol]
    · intro fr ps st
      cases ps <;> simp only [evalDflts]
      all_goals (repeat' split)
      all_goals grind [prim_not_viol, Res.isViol]
    · intro h c args st
      simp only [callUser]
      all_goals (repeat' split)
      all_goals grind [prim_not_viol, Res.isViol]
    · intro h c args rec st
      simp only [tramp]
      all_goals (repeat' split)
      all_goals grind [prim_not_viol, Res.isViol]
    · intro fr ds st
      simp only [evalDecls]
      all_goals (repeat' split)
      all_goals grind [prim_not_viol, Res.isViol]
    · intro fr f args tail st
      simp only [builtin]
      all_goals (repeat' split)
      all_goals grind [prim_not_viol, Res.isViol]

/-! ### without a call limit the counter is never touched (whatever the other limits) -/

structure NoCountAt (cfg : Cfg) (fuel : Nat) : Prop where
  eval : ∀ fr e tail st, (eval fuel cfg fr e tail st).2.calls = st.calls
  callNamed : ∀ fr f args tail st, (callNamed fuel cfg fr f args tail st).2.calls = st.calls
  callVal : ∀ fr c args tail st, (callVal fuel cfg fr c args tail st).2.calls = st.calls
  evalList : ∀ fr es st, (evalList fuel cfg fr es st).2.calls = st.calls
  mkClos : ∀ fr f st, (mkClos fuel cfg fr f st).2.calls = st.calls
  evalDflts : ∀ fr ps st, (evalDflts fuel cfg fr ps st).2.calls = st.calls
  callUser : ∀ h c args st, (callUser fuel cfg h c args st).2.calls = st.calls
  tramp : ∀ h c args rec st, (tramp fuel cfg h c args rec st).2.calls = st.calls
  evalDecls : ∀ fr ds st, (evalDecls fuel cfg fr ds st).2.calls = st.calls
  builtin : ∀ fr f args tail st, (builtin fuel cfg fr f args tail st).2.calls = st.calls

theorem noCountAt (cfg : Cfg) (hl : cfg.callLimit = none) (fuel : Nat) : NoCountAt cfg fuel := by
  induction fuel with
  | zero =>
    constructor <;> intros <;> simp [eval, callNamed, callVal, evalList, mkClos, evalDflts, callUser, tramp, evalDecls, builtin]
  | succ n ih =>
    obtain ⟨ihE, ihCN, ihCV, ihEL, ihMC, ihED, ihCU, ihT, ihDs, ihB⟩ := ih
    constructor
    · intro fr e tail st
      cases e <;> simp only [eval]
      all_goals (repeat' split)
      all_goals grind [prim_not_viol, Res.isViol]
    · intro fr f args tail st
      simp only [callNamed]
      all_goals (repeat' split)
      all_goals grind [prim_not_viol, Res.isViol]
    · intro fr c args tail st
      simp only [callVal]
      all_goals (repeat' split)
      all_goals grind [prim_not_viol, Res.isViol]
    · intro fr es st
      cases es <;> simp only [evalList]
      all_goals (repeat' split)
      all_goals grind [prim_not_viol, Res.isViol]
    · intro fr f st
      simp only [mkClos]
      all_goals (repeat' split)
      all_goals grind [prim_not_viol, Res.isViol]
    · intro fr ps st
      cases ps <;> simp only [evalDflts]
      all_goals (repeat' split)
      all_goals grind [prim_not_viol, Res.isViol]
    · intro h c args st
      simp only [callUser]
      all_goals (repeat' split)
      all_goals grind [prim_not_viol, Res.isViol]
    · intro h c args rec st
      simp only [tramp]
      all_goals (repeat' split)
      all_goals grind [prim_not_viol, Res.isViol]
    · intro fr ds st
      simp only [evalDecls]
      all_goals (repeat' split)
      all_goals grind [prim_not_viol, Res.isViol]
    · intro fr f args tail st
      simp only [builtin]
      all_goals (repeat' split)
      all_goals grind [prim_not_viol, Res.isViol]


end XrayModel.CoreLimits
