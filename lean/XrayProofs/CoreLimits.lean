/-
Helpers for C08 (limits of the core evaluator, XrayModel/Core.lean): violation predicates, the
no-limit invariant, the instrumented (counter-recording) evaluator and its simulation theorems.
-/
import XrayProofs.Core
namespace XrayModel.CoreLimits
open XrayModel.Core

def Res.isViol : Res → Bool
  | .viol _ => true
  | _ => false

def exViol {α : Type} : Except Res α → Bool
  | .error r => Res.isViol r
  | .ok _ => false

def NoLimits (cfg : Cfg) : Prop := cfg.depthLimit = none ∧ cfg.callLimit = none ∧ cfg.recLimit = none

theorem prim_not_viol (f : String) (vs : List Val) : Res.isViol (prim f vs) = false := by
  unfold prim
  split <;> (try split) <;> rfl

/-- the ten statements of theorem 1, at one fuel -/
structure NoViolAt (cfg : Cfg) (fuel : Nat) : Prop where
  eval : ∀ fr e tail st, Res.isViol (eval fuel cfg fr e tail st).1 = false ∧ (eval fuel cfg fr e tail st).2.calls = st.calls
  callNamed : ∀ fr f args tail st, Res.isViol (callNamed fuel cfg fr f args tail st).1 = false ∧ (callNamed fuel cfg fr f args tail st).2.calls = st.calls
  callVal : ∀ fr c args tail st, Res.isViol (callVal fuel cfg fr c args tail st).1 = false ∧ (callVal fuel cfg fr c args tail st).2.calls = st.calls
  evalList : ∀ fr es st, exViol (evalList fuel cfg fr es st).1 = false ∧ (evalList fuel cfg fr es st).2.calls = st.calls
  mkClos : ∀ fr f st, Res.isViol (mkClos fuel cfg fr f st).1 = false ∧ (mkClos fuel cfg fr f st).2.calls = st.calls
  evalDflts : ∀ fr ps st, exViol (evalDflts fuel cfg fr ps st).1 = false ∧ (evalDflts fuel cfg fr ps st).2.calls = st.calls
  callUser : ∀ h c args st, Res.isViol (callUser fuel cfg h c args st).1 = false ∧ (callUser fuel cfg h c args st).2.calls = st.calls
  tramp : ∀ h c args rec st, Res.isViol (tramp fuel cfg h c args rec st).1 = false ∧ (tramp fuel cfg h c args rec st).2.calls = st.calls
  evalDecls : ∀ fr ds st, exViol (evalDecls fuel cfg fr ds st).1 = false ∧ (evalDecls fuel cfg fr ds st).2.calls = st.calls
  builtin : ∀ fr f args tail st, Res.isViol (builtin fuel cfg fr f args tail st).1 = false ∧ (builtin fuel cfg fr f args tail st).2.calls = st.calls

theorem noViolAt (cfg : Cfg) (hc : NoLimits cfg) (fuel : Nat) : NoViolAt cfg fuel := by
  obtain ⟨hd, hcl, hr⟩ := hc
  induction fuel with
  | zero =>
    constructor <;> intros <;> simp [eval, callNamed, callVal, evalList, mkClos, evalDflts, callUser, tramp, evalDecls, builtin, Res.isViol, exViol]
  | succ n ih =>
    obtain ⟨ihE, ihCN, ihCV, ihEL, ihMC, ihED, ihCU, ihT, ihDs, ihB⟩ := ih
    constructor
    · intro fr e tail st
      cases e <;> simp only [eval]
      all_goals (repeat' split)
      all_goals grind [Res.isViol, exViol]
    · intro fr f args tail st
      simp only [callNamed]
      all_goals (repeat' split)
      all_goals grind [Res.isViol, exViol]
    · intro fr c args tail st
      simp only [callVal]
      all_goals (repeat' split)
      all_goals grind [Res.isViol, exViol]
    · intro fr es st
      cases es <;> simp only [evalList]
      all_goals (repeat' split)
      all_goals grind [Res.isViol, exViol]
    · intro fr f st
      simp only [mkClos]
      all_goals (repeat' split)
      all_goals grind [Res.isViol, exViol]
    · intro fr ps st
      cases ps <;> simp only [evalDflts]
      all_goals (repeat' split)
      all_goals grind [Res.isViol, exViol]
    · intro h c args st
      simp only [callUser]
      all_goals (repeat' split)
      all_goals grind [Res.isViol, exViol]
    · intro h c args rec st
      simp only [tramp]
      all_goals (repeat' split)
      all_goals grind [Res.isViol, exViol]
    · intro fr ds st
      simp only [evalDecls]
      all_goals (repeat' split)
      all_goals grind [Res.isViol, exViol]
    · intro fr f args tail st
      simp only [builtin]
      all_goals (repeat' split)
      all_goals grind [Res.isViol, exViol, prim_not_viol]

end XrayModel.CoreLimits
