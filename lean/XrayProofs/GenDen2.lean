/- denotations of enumerate, aggregate / reduce without initial state (C16) -/
import XrayProofs.GenLibrary
namespace XrayModel.Gen

theorem covers_zero (perm : Permits) : perm.covers 0 := by
  cases perm <;> simp [Permits.covers]

/-- an open slice ends exactly when its source does -/
theorem after_slice_open (L : Option Nat) : ∀ n it k perm, Permits.covers perm k →
    (after L n (.slice it k perm none)).isNone = (after L n it).isNone := by
  intro n
  induction n with
  | zero => intro it k perm _; rfl
  | succ n ih =>
    intro it k perm hc
    simp only [after]
    rw [step]
    rotate_left
    · intro h; cases h
    cases h : step L it with
    | done => simp
    | skip s => simpa using ih s k perm hc
    | «yield» x s =>
      cases k with
      | zero => simpa [decTake] using ih s 0 perm (covers_zero perm)
      | succ k =>
        obtain ⟨perm', hn, hc'⟩ := covers_next_ok hc
        simp only [hn]
        cases x <;> simpa [decTake] using ih s k perm' hc'

theorem den_slice_open {L it xs} (k : Nat) (perm : Permits) (h : Den L it xs) (hv : noViol xs)
    (hc : perm.covers k) : Den L (.slice it k perm none) (xs.drop k) := by
  obtain ⟨n, h1, h2⟩ := h
  refine ⟨n, ?_, ?_⟩
  · have := after_slice_open L n it k perm hc
    rw [h1] at this
    simpa using this
  · rw [outs_slice L n it k perm none hc, h2, sliceItems_noViol _ _ _ hv]; rfl

/-! ### aggregate / reduce without an initial state -/

/-- the running results of `aggregate(f)`: the first element, then the fold -/
def scan1 (h : V → V → V) : List V → List V
  | [] => []
  | v :: vs => v :: scanV h v vs

theorem scanItems_agg1_some (h : V → V → V) : ∀ (vs : List V) (a : V),
    scanItems (agg1Step (pureF2 h)) (.val (.tup [a])) (vs.map Item.val) =
      (scanV h a vs).map (fun r => Item.val (.tup [r])) := by
  intro vs
  induction vs with
  | nil => intro a; rfl
  | cons v vs ih => intro a; simp [scanItems, agg1Step, pureF2, scanV, ih]

theorem scanItems_agg1 (h : V → V → V) (vs : List V) :
    scanItems (agg1Step (pureF2 h)) (.val (.tup [])) (vs.map Item.val) =
      (scan1 h vs).map (fun r => Item.val (.tup [r])) := by
  cases vs with
  | nil => rfl
  | cons v vs => simp [scanItems, agg1Step, scan1, scanItems_agg1_some]

theorem aggregate1_den (L : Option Nat) (g : G) (h : V → V → V) (vs : List V)
    (hd : Den L (g.start L) (vs.map Item.val)) (hc : (Permits.ofLimit L).covers 1) :
    Den L ((g.aggregate1 (pureF2 h)).start L) ((scan1 h vs).map Item.val) := by
  have hmk : G.mkSlice (.aggregate g (.val (.tup [])) (agg1Step (pureF2 h))) 1 none =
      .slice (.aggregate g (.val (.tup [])) (agg1Step (pureF2 h))) 1 none := by simp [G.mkSlice]
  unfold G.aggregate1
  rw [hmk]
  simp only [G.start, Option.map_none]
  have h1 := den_aggregate (agg1Step (pureF2 h)) (.val (.tup [])) hd
  rw [scanItems_agg1] at h1
  have hv : noViol (Item.val (.tup []) :: (scan1 h vs).map (fun r => Item.val (.tup [r]))) := by
    intro x hx
    simp only [List.mem_cons, List.mem_map] at hx
    rcases hx with rfl | ⟨r, _, rfl⟩ <;> simp
  have h2 := den_slice_open 1 (Permits.ofLimit L) h1 hv hc
  have h3 := den_map optValue h2
  simpa [List.map_map, Function.comp_def, mapItem, optValue] using h3

theorem scan1_last (h : V → V → V) (v : V) (vs : List V) :
    (scan1 h (v :: vs)).getLast? = some (vs.foldl h v) := scanV_last h vs v

/-! ### enumerate: the zip of the mapped counter with a finite generator -/

theorem den_cons_inv (L : Option Nat) : ∀ n it x xs, after L n it = none → outs L n it = x :: xs →
    ∃ j it1 it', skipsTo L j it it1 ∧ step L it1 = .yield x it' ∧ Den L it' xs := by
  intro n
  induction n with
  | zero => intro it x xs h; simp [after] at h
  | succ n ih =>
    intro it x xs h ho
    simp only [after] at h
    simp only [outs] at ho
    cases hs : step L it with
    | done => simp [hs] at ho
    | skip s =>
      simp only [hs] at h ho
      obtain ⟨j, it1, it', hj, hy, hd⟩ := ih s x xs h ho
      exact ⟨j + 1, it1, it', ⟨s, hs, hj⟩, hy, hd⟩
    | «yield» y s =>
      simp only [hs, List.cons.injEq] at h ho
      obtain ⟨rfl, ho⟩ := ho
      exact ⟨0, it, s, rfl, hs, ⟨n, h, ho⟩⟩

theorem den_nil_inv (L : Option Nat) : ∀ n it, after L n it = none → outs L n it = [] →
    ∃ j it1, skipsTo L j it it1 ∧ step L it1 = .done := by
  intro n
  induction n with
  | zero => intro it h; simp [after] at h
  | succ n ih =>
    intro it h ho
    simp only [after] at h
    simp only [outs] at ho
    cases hs : step L it with
    | done => exact ⟨0, it, rfl, hs⟩
    | skip s =>
      simp only [hs] at h ho
      obtain ⟨j, it1, hj, hd⟩ := ih s h ho
      exact ⟨j + 1, it1, ⟨s, hs, hj⟩, hd⟩
    | «yield» y s => simp [hs] at ho

theorem den_prepend {L s s' ys zs} (N : Nat) (ho : outs L N s = ys) (ha : after L N s = some s')
    (h : Den L s' zs) : Den L s (ys ++ zs) := by
  obtain ⟨m, h1, h2⟩ := h
  exact ⟨N + m, by rw [after_add, ha]; simpa using h1, by rw [outs_add, ha, ho]; simp [h2]⟩

/-- the zip ends when its second part ends (the first has been pulled once more: the look-ahead of one) -/
theorem zip_ends_second (L : Option Nat) (a a1 a' b b1 : It) (ja jb : Nat) (x : Item)
    (ha : skipsTo L ja a a1) (hxa : step L a1 = .yield x a') (hx : x ≠ .viol)
    (hb : skipsTo L jb b b1) (hdb : step L b1 = .done) :
    outs L (ja + (1 + (jb + 1))) (.zip [a, b] [] [] false) = [] ∧
    after L (ja + (1 + (jb + 1))) (.zip [a, b] [] [] false) = none := by
  have h1 := run_congr L (fun c => It.zip (c :: [b]) [] [] false)
    (fun it s hs => step_zip_skip L [b] [] [] false it s hs) ja a a1 ha (1 + (jb + 1))
  rw [h1.1, h1.2]
  have hstep1 : ∃ acc' bad', step L (.zip [a1, b] [] [] false) = .skip (.zip [b] [a'] acc' bad') := by
    rw [step]; simp only [hxa]
    cases x with
    | viol => exact absurd rfl hx
    | err => exact ⟨[], true, rfl⟩
    | val v => exact ⟨[v], false, rfl⟩
  obtain ⟨acc', bad', hs1⟩ := hstep1
  rw [show 1 + (jb + 1) = (jb + 1) + 1 by omega]
  have e1 : outs L ((jb + 1) + 1) (.zip [a1, b] [] [] false) = outs L (jb + 1) (.zip [b] [a'] acc' bad') := by
    rw [outs, hs1]
  have e2 : after L ((jb + 1) + 1) (.zip [a1, b] [] [] false) = after L (jb + 1) (.zip [b] [a'] acc' bad') := by
    rw [after, hs1]
  rw [e1, e2]
  have h2 := run_congr L (fun c => It.zip [c] [a'] acc' bad')
    (fun it s hs => step_zip_skip L [] [a'] acc' bad' it s hs) jb b b1 hb 1
  rw [h2.1, h2.2]
  have : step L (.zip [b1] [a'] acc' bad') = .done := by rw [step]; simp [hdb]
  simp [outs, after, this]

/-- `enumerate` over a list of items: the index function applied to 0, 1, 2, … paired with the elements -/
def enumItems (f : F) : Nat → List Item → List Item
  | _, [] => []
  | i, x :: xs => pairItem (f (.val (.int i))) x :: enumItems f (i + 1) xs

theorem enumerate_den_aux (L : Option Nat) (f : F) (hf : ∀ i : Nat, f (.val (.int i)) ≠ .viol) :
    ∀ (xs : List Item) (i : Nat) (it : It), Den L it xs → noViol xs →
      Den L (.zip [.count i (some f), it] [] [] false) (enumItems f i xs) := by
  intro xs
  induction xs with
  | nil =>
    intro i it h _
    obtain ⟨n, h1, h2⟩ := h
    obtain ⟨jb, b1, hb, hdb⟩ := den_nil_inv L n it h1 h2
    have := zip_ends_second L (.count i (some f)) (.count i (some f)) (.count (i + 1) (some f)) it b1 0 jb
      (f (.val (.int i))) rfl (by simp [step]) (hf i) hb hdb
    exact ⟨_, this.2, this.1⟩
  | cons x xs ih =>
    intro i it h hv
    obtain ⟨n, h1, h2⟩ := h
    obtain ⟨jb, b1, b', hb, hyb, hd⟩ := den_cons_inv L n it x xs h1 h2
    have hx : x ≠ .viol := hv x (by simp)
    have hr := zip_round L (.count i (some f)) (.count i (some f)) (.count (i + 1) (some f)) it b1 b' 0 jb
      (f (.val (.int i))) x rfl (by simp [step]) (hf i) hb hyb hx
    have hrest := ih (i + 1) b' hd (fun y hy => hv y (by simp [hy]))
    exact den_prepend _ hr.1 hr.2 hrest

end XrayModel.Gen
