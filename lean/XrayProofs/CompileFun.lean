/-
compile_correct, the step towards functions: top-level function declarations whose bodies use only their own
parameters and natives (no captures, no recursion, no optional parameters, no local declarations), called by name.

* `cxf vars funs`: the compiled form of a fragment expression in a scope with variables `vars` and functions `funs`;
* `tmplOf k f`: the template the cell machine builds for such a function declared in cell `k` of the root;
* `WF C e`: at every name `e` mentions the named frame and the activation agree (`RelAt`): a function-free value in
  the variable's cell, or a closure `clos f [] envc` with `FunOK` and the template `tmplOf k f` in the function's cell;
* `SimF`: the simulation of `CompileSim.lean` under these hypotheses, with calls of such functions
  (`callUser`, the trampoline, `initFrame`/`runParams`/`runDecls`).
-/
import XrayProofs.CompileSim
import XrayProofs.Closure
namespace XrayModel.CellRun
open XrayModel.Scope

mutual
  def cxf (vars funs : List (String × Nat)) : Core.Expr → XE
    | .int n => .lit (.int n)
    | .bool b => .lit (.bool b)
    | .str s => .lit (.str s)
    | .var x => match Scope.lookup x vars with
        | some k => .val k
        | none => match Scope.lookup x funs with
          | some k => .val k
          | none => .ident x
    | .call f args => match Scope.lookup f vars with
        | some k => .call (.val k) (cxfs vars funs args)
        | none => match Scope.lookup f funs with
          | some k => .call (.val k) (cxfs vars funs args)
          | none => .bcall f (cxfs vars funs args)
    | .tup es => .tup (cxfs vars funs es)
    | .arr es => .arr (cxfs vars funs es)
    | .item e i => .member (cxf vars funs e) i
    | .callE _ _ => .lit (.int 0)
    | .lam _ => .lit (.int 0)
  def cxfs (vars funs : List (String × Nat)) : List Core.Expr → List XE
    | [] => []
    | e :: rest => cxf vars funs e :: cxfs vars funs rest
end

/-- the variables of a fresh function scope (`add_parameter` in order: the latest first) -/
def paramVarsFrom : List String → Nat → List (String × Nat) → List (String × Nat)
  | [], _, acc => acc
  | p :: rest, i, acc => paramVarsFrom rest (i + 1) ((p, i) :: acc)

def paramVars (ps : List String) : List (String × Nat) := paramVarsFrom ps 0 []

def paramDecls : Nat → Nat → List CDecl
  | _, 0 => []
  | i, m + 1 => .param i i :: paramDecls (i + 1) m

/-- the template of a top-level function without captures, defaults and local declarations, declared in cell `k` -/
def tmplOf (k : Nat) (f : Core.Func) : Tmpl :=
  .mk [k] (some []) (List.replicate f.params.length .uninit ++ [.localRec]) (paramDecls 0 f.params.length)
    f.params.length [] (some (cxf (paramVars (f.params.map Core.Param.name)) [] f.body))

/-! the body of such a function: only its parameters as variables, only unbound names (natives) as callees -/
mutual
  def BodyOK (ps : List String) (x : String) (envc : List (String × Core.Val)) : Core.Expr → Prop
    | .int _ => True
    | .bool _ => True
    | .str _ => True
    | .var y => y ∈ ps
    | .call g args => g ∉ ps ∧ g ≠ x ∧ Core.lookup g envc = none ∧ BodyOKs ps x envc args
    | .tup es => BodyOKs ps x envc es
    | .arr es => BodyOKs ps x envc es
    | .item e _ => BodyOK ps x envc e
    | .callE _ _ => False
    | .lam _ => False
  def BodyOKs (ps : List String) (x : String) (envc : List (String × Core.Val)) : List Core.Expr → Prop
    | [] => True
    | e :: rest => BodyOK ps x envc e ∧ BodyOKs ps x envc rest
end

def FunOK (x : String) (f : Core.Func) (envc : List (String × Core.Val)) : Prop :=
  f.name = some x ∧ f.decls = [] ∧ (∀ p ∈ f.params, p.dflt = none) ∧ x ∉ f.params.map Core.Param.name ∧
  BodyOK (f.params.map Core.Param.name) x envc f.body

structure Ctx where
  fr : Core.Frame
  vars : List (String × Nat)
  funs : List (String × Nat)
  rfr : RFrame

/-- the named frame and the activation agree at the name `x` -/
def RelAt (C : Ctx) (x : String) : Prop :=
  (∀ n c, C.fr.self = some (n, c) → n ≠ x) ∧
  match Core.lookup x C.fr.env with
  | some v =>
    (closFree v = true ∧ ∃ k, Scope.lookup x C.vars = some k ∧ C.rfr.cells[k]? = some (.owned (.value (ofCore v)))) ∨
    (∃ f envc k, v = .clos f [] envc ∧ FunOK x f envc ∧ Scope.lookup x C.vars = none ∧
      Scope.lookup x C.funs = some k ∧ C.rfr.cells[k]? = some (.owned (.value (.fn (tmplOf k f)))))
  | none => Scope.lookup x C.vars = none ∧ Scope.lookup x C.funs = none

def VarAt (C : Ctx) (x : String) : Prop := ∀ v, Core.lookup x C.fr.env = some v → closFree v = true

def ArityAt (C : Ctx) (f : String) (n : Nat) : Prop :=
  ∀ fc ds envc, Core.lookup f C.fr.env = some (.clos fc ds envc) → fc.params.length = n

mutual
  def WF (C : Ctx) : Core.Expr → Prop
    | .int _ => True
    | .bool _ => True
    | .str _ => True
    | .var x => VarAt C x ∧ RelAt C x
    | .call f args => RelAt C f ∧ ArityAt C f args.length ∧ C.rfr.height = C.fr.height ∧ WFs C args
    | .tup es => WFs C es
    | .arr es => WFs C es
    | .item e _ => WF C e
    | .callE _ _ => False
    | .lam _ => False
  def WFs (C : Ctx) : List Core.Expr → Prop
    | [] => True
    | e :: rest => WF C e ∧ WFs C rest
end

def SimF (cfg : Core.Cfg) (n : Nat) : Prop :=
  (∀ e (C : Ctx) tail st, WF C e →
    eval n cfg C.rfr (cxf C.vars C.funs e) tail st = (cr (Core.eval n cfg C.fr e tail st).1, (Core.eval n cfg C.fr e tail st).2) ∧
    Good (Core.eval n cfg C.fr e tail st).1) ∧
  (∀ es (C : Ctx) st, WFs C es →
    evalList n cfg C.rfr (cxfs C.vars C.funs es) st = (crl (Core.evalList n cfg C.fr es st).1, (Core.evalList n cfg C.fr es st).2) ∧
    GoodL (Core.evalList n cfg C.fr es st).1) ∧
  (∀ f args (C : Ctx) tail st, WFs C args →
    builtin n cfg C.rfr f (cxfs C.vars C.funs args) tail st = (cr (Core.builtin n cfg C.fr f args tail st).1, (Core.builtin n cfg C.fr f args tail st).2) ∧
    Good (Core.builtin n cfg C.fr f args tail st).1) ∧
  (∀ x f envc k (args : List Core.Val) (caller : RFrame) (h : Nat) st, FunOK x f envc → (∀ a ∈ args, closFree a = true) →
    args.length = f.params.length → caller.height = h →
    callUser n cfg caller (tmplOf k f) (args.map ofCore) st
      = (cr (Core.callUser n cfg h (.clos f [] envc) args st).1, (Core.callUser n cfg h (.clos f [] envc) args st).2) ∧
    Good (Core.callUser n cfg h (.clos f [] envc) args st).1)

theorem simF_zero (cfg : Core.Cfg) : SimF cfg 0 := by
  refine ⟨?_, ?_, ?_, ?_⟩
  · intro e C tail st _; simp [eval, Core.eval, cr, Good]
  · intro es C st _; simp [evalList, Core.evalList, crl, cr, GoodL, Good]
  · intro f args C tail st _; simp [builtin, Core.builtin, cr, Good]
  · intro x f envc k args caller h st _ _ _ _; simp [callUser, Core.callUser, cr, Good]

theorem simF_list (cfg : Core.Cfg) (n : Nat) (h1 : SimF cfg n) :
    ∀ es (C : Ctx) st, WFs C es →
    evalList (n + 1) cfg C.rfr (cxfs C.vars C.funs es) st = (crl (Core.evalList (n + 1) cfg C.fr es st).1, (Core.evalList (n + 1) cfg C.fr es st).2) ∧
    GoodL (Core.evalList (n + 1) cfg C.fr es st).1 := by
  intro es C st hw
  cases es with
  | nil => simp [cxfs, evalList, Core.evalList, crl, GoodL]
  | cons e rest =>
    simp only [WFs] at hw
    obtain ⟨he, hg⟩ := h1.1 e C false st hw.1
    simp only [cxfs, evalList, Core.evalList, he]
    cases hr : Core.eval n cfg C.fr e false st with
    | mk r st1 =>
      rw [hr] at hg
      cases r with
      | val v =>
        simp only [Good] at hg
        obtain ⟨hl, hgl⟩ := h1.2.1 rest C st1 hw.2
        cases hrl : Core.evalList n cfg C.fr rest st1 with
        | mk rl st2 =>
          rw [hrl] at hgl hl
          cases v with
          | clos f d e => simp [closFree] at hg
          | err m => simp [cr, ofCore, crl, GoodL, Good, closFree]
          | int a => simp only [cr, ofCore, hl]; cases rl <;> simp_all [crl, GoodL, ofCore, closFree]
          | bool a => simp only [cr, ofCore, hl]; cases rl <;> simp_all [crl, GoodL, ofCore, closFree]
          | str a => simp only [cr, ofCore, hl]; cases rl <;> simp_all [crl, GoodL, ofCore, closFree]
          | tup a => simp only [cr, ofCore, hl]; cases rl <;> simp_all [crl, GoodL, ofCore]
          | arr a => simp only [cr, ofCore, hl]; cases rl <;> simp_all [crl, GoodL, ofCore]
      | viol k => simp [cr, crl, GoodL, Good]
      | tail a => simp [Good] at hg
      | stuck w => simp [cr, crl, GoodL, Good]
      | oof => simp [cr, crl, GoodL, Good]

theorem frame_get_avoid (fr : Core.Frame) (x : String) (h : ∀ n c, fr.self = some (n, c) → n ≠ x) :
    fr.get x = Core.lookup x fr.env := by
  simp only [Core.Frame.get]
  cases hl : Core.lookup x fr.env with
  | some v => rfl
  | none =>
    cases hs : fr.self with
    | none => rfl
    | some p =>
      obtain ⟨n, c⟩ := p
      have := h n c hs
      simp [this]

theorem eval_call_named (n : Nat) (cfg : Core.Cfg) (fr : Core.Frame) (f : String) (args : List Core.Expr) (tail : Bool)
    (st : St) (h : ∀ s c, fr.self = some (s, c) → s ≠ f) :
    Core.eval (n + 1) cfg fr (.call f args) tail st = Core.callNamed n cfg fr f args tail st := by
  simp only [Core.eval]
  cases hs : fr.self with
  | none => rfl
  | some p =>
    obtain ⟨s, c⟩ := p
    have hne : ¬ f = s := fun e => h s c hs e.symm
    simp [hne]

theorem evalList_length (cfg : Core.Cfg) (fr : Core.Frame) : ∀ (n : Nat) (es : List Core.Expr) (st st' : St) (vs : List Core.Val),
    Core.evalList n cfg fr es st = (.ok vs, st') → vs.length = es.length := by
  intro n
  induction n with
  | zero => intro es st st' vs h; simp [Core.evalList] at h
  | succ m ih =>
    intro es st st' vs h
    cases es with
    | nil => simp only [Core.evalList, Prod.mk.injEq, Except.ok.injEq] at h; rw [← h.1]; rfl
    | cons e rest =>
      simp only [Core.evalList] at h
      split at h
      · cases h
      · split at h
        · rename_i vs1 st2 h2
          simp only [Prod.mk.injEq, Except.ok.injEq] at h
          rw [← h.1]
          simp [ih rest _ _ vs1 h2]
        · rename_i hne
          exact absurd h (hne _ _)
      · cases h
      · cases h

/-- the expression step -/
theorem simF_eval (cfg : Core.Cfg) (n : Nat) (hn : SimF cfg n) (hprev : ∀ m, m < n → SimF cfg m) :
    ∀ e (C : Ctx) tail st, WF C e →
    eval (n + 1) cfg C.rfr (cxf C.vars C.funs e) tail st = (cr (Core.eval (n + 1) cfg C.fr e tail st).1, (Core.eval (n + 1) cfg C.fr e tail st).2) ∧
    Good (Core.eval (n + 1) cfg C.fr e tail st).1 := by
  intro e C tail st hw
  cases e with
  | int v => simp [cxf, eval, Core.eval, cr, litVal, ofCore, Good, closFree]
  | bool v => simp [cxf, eval, Core.eval, cr, litVal, ofCore, Good, closFree]
  | str v => simp [cxf, eval, Core.eval, cr, litVal, ofCore, Good, closFree]
  | callE f args => simp [WF] at hw
  | lam f => simp [WF] at hw
  | var x =>
    simp only [WF] at hw
    obtain ⟨hva, hav, hx⟩ := hw
    simp only [Core.eval, frame_get_avoid C.fr x hav]
    cases hl : Core.lookup x C.fr.env with
    | none =>
      rw [hl] at hx
      simp [cxf, hx.1, hx.2, eval, cr, Good]
    | some v =>
      rw [hl] at hx
      have hcf := hva v hl
      rcases hx with ⟨-, k, hk, hc⟩ | ⟨f, envc, k, rfl, -⟩
      · simp [cxf, hk, eval, getCell_owned C.rfr k _ hc, readValue, cr, Good, hcf]
      · simp [closFree] at hcf
  | tup es =>
    simp only [WF] at hw
    obtain ⟨hl, hgl⟩ := hn.2.1 es C st hw
    simp only [cxf, eval, Core.eval, hl]
    cases hrl : Core.evalList n cfg C.fr es st with
    | mk rl st2 =>
      rw [hrl] at hgl
      cases rl with
      | ok vs => simp only [GoodL] at hgl; simp [crl, cr, ofCore, Good, closFree_tup]; exact hgl
      | error r => simpa [crl, GoodL] using hgl
  | arr es =>
    simp only [WF] at hw
    obtain ⟨hl, hgl⟩ := hn.2.1 es C st hw
    simp only [cxf, eval, Core.eval, hl]
    cases hrl : Core.evalList n cfg C.fr es st with
    | mk rl st2 =>
      rw [hrl] at hgl
      cases rl with
      | ok vs => simp only [GoodL] at hgl; simp [crl, cr, ofCore, Good, closFree_arr]; exact hgl
      | error r => simpa [crl, GoodL] using hgl
  | item e i =>
    simp only [WF] at hw
    obtain ⟨he, hg⟩ := hn.1 e C false st hw
    simp only [cxf, eval, Core.eval, he]
    cases hr : Core.eval n cfg C.fr e false st with
    | mk r st1 =>
      rw [hr] at hg
      cases r with
      | val v =>
        simp only [Good] at hg
        cases v with
        | clos f d e => simp [closFree] at hg
        | tup vs =>
          have hvs := (closFree_tup vs).mp hg
          simp only [cr, ofCore, List.getElem?_map]
          cases hi : vs[i]? with
          | none => simp [cr, Good]
          | some w => simp [cr, Good, hvs w (List.mem_of_getElem? hi)]
        | _ => simp [cr, ofCore, Good, closFree]
      | viol k => simp [cr, Good]
      | tail a => simp [Good] at hg
      | stuck w => simp [cr, Good]
      | oof => simp [cr, Good]
  | call f args =>
    simp only [WF] at hw
    obtain ⟨⟨hav, hf⟩, har, hh, hargs⟩ := hw
    rw [eval_call_named n cfg C.fr f args tail st hav]
    cases hl : Core.lookup f C.fr.env with
    | none =>
      rw [hl] at hf
      simp only [cxf, hf.1, hf.2, eval]
      cases n with
      | zero => simp [builtinStage, Core.callNamed, cr, Good]
      | succ m =>
        simp only [builtinStage, Core.callNamed, frame_get_avoid C.fr f hav, hl]
        exact (hprev m (Nat.lt_succ_self m)).2.2.1 f args C tail st hargs
    | some v =>
      rw [hl] at hf
      rcases hf with ⟨hcf, k, hk, hc⟩ | ⟨fc, envc, k, rfl, hfun, hvn, hfk, hc⟩
      · have hg := getCell_owned C.rfr k _ hc
        simp only [cxf, hk, eval, hg]
        simp only [Bool.false_and, Bool.false_eq_true, if_false]
        cases n with
        | zero => simp [callCell, Core.callNamed, cr, Good]
        | succ m =>
          simp only [callCell, hg, readValue, Core.callNamed, frame_get_avoid C.fr f hav, hl]
          cases m with
          | zero => simp [callVal, Core.callVal, cr, Good]
          | succ g =>
            cases v with
            | clos f' d e => simp [closFree] at hcf
            | _ => simp [callVal, Core.callVal, ofCore, cr, Good, closFree]
      · have hg := getCell_owned C.rfr k _ hc
        simp only [cxf, hvn, hfk, eval, hg]
        simp only [Bool.false_and, Bool.false_eq_true, if_false]
        cases n with
        | zero => simp [callCell, Core.callNamed, cr, Good]
        | succ m =>
          simp only [callCell, hg, readValue, Core.callNamed, frame_get_avoid C.fr f hav, hl]
          cases m with
          | zero => simp [callVal, Core.callVal, cr, Good]
          | succ g =>
            have hsg := hprev g (by omega)
            obtain ⟨hel, hgl⟩ := hsg.2.1 args C st hargs
            simp only [callVal, Core.callVal, hel]
            cases hrl : Core.evalList g cfg C.fr args st with
            | mk rl st2 =>
              rw [hrl] at hgl
              cases rl with
              | ok vs =>
                simp only [GoodL] at hgl
                simp only [crl]
                have hlen : vs.length = fc.params.length := by
                  rw [evalList_length cfg C.fr g args st st2 vs hrl]
                  exact (har fc [] envc hl).symm
                exact hsg.2.2.2 f fc envc k vs C.rfr C.fr.height st2 hfun hgl hlen hh
              | error r => simpa [crl, GoodL] using hgl

theorem cxfs_eq1 (vars funs : List (String × Nat)) (args : List Core.Expr) (x : XE) (h : cxfs vars funs args = [x]) :
    ∃ a, args = [a] := by
  match args, h with
  | [a], _ => exact ⟨a, rfl⟩

theorem cxfs_eq2 (vars funs : List (String × Nat)) (args : List Core.Expr) (x y : XE) (h : cxfs vars funs args = [x, y]) :
    ∃ a b, args = [a, b] := by
  match args, h with
  | [a, b], _ => exact ⟨a, b, rfl⟩

theorem cxfs_eq3 (vars funs : List (String × Nat)) (args : List Core.Expr) (x y z : XE) (h : cxfs vars funs args = [x, y, z]) :
    ∃ a b c, args = [a, b, c] := by
  match args, h with
  | [a, b, c], _ => exact ⟨a, b, c, rfl⟩

/-- the native step -/
theorem simF_builtin (cfg : Core.Cfg) (n : Nat) (hn : SimF cfg n) :
    ∀ f args (C : Ctx) tail st, WFs C args →
    builtin (n + 1) cfg C.rfr f (cxfs C.vars C.funs args) tail st = (cr (Core.builtin (n + 1) cfg C.fr f args tail st).1, (Core.builtin (n + 1) cfg C.fr f args tail st).2) ∧
    Good (Core.builtin (n + 1) cfg C.fr f args tail st).1 := by
  intro f args C tail st hargs
  by_cases h1 : ∃ c a b, f = "if" ∧ args = [c, a, b]
  · obtain ⟨c, a, b, rfl, rfl⟩ := h1
    simp only [WFs, and_true] at hargs
    obtain ⟨hc, ha, hb⟩ := hargs
    obtain ⟨he, hg⟩ := hn.1 c C false st hc
    simp only [cxfs, builtin, Core.builtin, he]
    cases hr : Core.eval n cfg C.fr c false st with
    | mk r st1 =>
      rw [hr] at hg
      cases r with
      | val v =>
        cases v with
        | bool t =>
          rw [show cr (Core.Res.val (Core.Val.bool t)) = CRes.val (CVal.bool t) from by simp [cr, ofCore]]
          cases t
          · simp only [Bool.false_eq_true, if_false]; exact hn.1 b C tail st1 hb
          · simp only [if_true]; exact hn.1 a C tail st1 ha
        | clos f d e => simp [Good, closFree] at hg
        | _ => simp [cr, ofCore, Good, closFree]
      | viol k => simp [cr, Good]
      | tail a => simp [Good] at hg
      | stuck w => simp [cr, Good]
      | oof => simp [cr, Good]
  by_cases h2 : ∃ a b, f = "and" ∧ args = [a, b]
  · obtain ⟨a, b, rfl, rfl⟩ := h2
    simp only [WFs, and_true] at hargs
    obtain ⟨ha, hb⟩ := hargs
    obtain ⟨he, hg⟩ := hn.1 a C false st ha
    simp only [cxfs, builtin, Core.builtin, he]
    cases hr : Core.eval n cfg C.fr a false st with
    | mk r st1 =>
      rw [hr] at hg
      cases r with
      | val v =>
        cases v with
        | bool t =>
          rw [show cr (Core.Res.val (Core.Val.bool t)) = CRes.val (CVal.bool t) from by simp [cr, ofCore]]
          cases t
          · simp [cr, ofCore, Good, closFree]
          · exact hn.1 b C tail st1 hb
        | clos f d e => simp [Good, closFree] at hg
        | _ => simp [cr, ofCore, Good, closFree]
      | viol k => simp [cr, Good]
      | tail a => simp [Good] at hg
      | stuck w => simp [cr, Good]
      | oof => simp [cr, Good]
  by_cases h3 : ∃ a b, f = "or" ∧ args = [a, b]
  · obtain ⟨a, b, rfl, rfl⟩ := h3
    simp only [WFs, and_true] at hargs
    obtain ⟨ha, hb⟩ := hargs
    obtain ⟨he, hg⟩ := hn.1 a C false st ha
    simp only [cxfs, builtin, Core.builtin, he]
    cases hr : Core.eval n cfg C.fr a false st with
    | mk r st1 =>
      rw [hr] at hg
      cases r with
      | val v =>
        cases v with
        | bool t =>
          rw [show cr (Core.Res.val (Core.Val.bool t)) = CRes.val (CVal.bool t) from by simp [cr, ofCore]]
          cases t
          · exact hn.1 b C tail st1 hb
          · simp [cr, ofCore, Good, closFree]
        | clos f d e => simp [Good, closFree] at hg
        | _ => simp [cr, ofCore, Good, closFree]
      | viol k => simp [cr, Good]
      | tail a => simp [Good] at hg
      | stuck w => simp [cr, Good]
      | oof => simp [cr, Good]
  by_cases h4 : ∃ a b, f = "if_error" ∧ args = [a, b]
  · obtain ⟨a, b, rfl, rfl⟩ := h4
    simp only [WFs, and_true] at hargs
    obtain ⟨ha, hb⟩ := hargs
    obtain ⟨he, hg⟩ := hn.1 a C false st ha
    simp only [cxfs, builtin, Core.builtin, he]
    cases hr : Core.eval n cfg C.fr a false st with
    | mk r st1 =>
      rw [hr] at hg
      cases r with
      | val v =>
        cases v with
        | err m =>
          rw [show cr (Core.Res.val (Core.Val.err m)) = CRes.val (CVal.err m) from by simp [cr, ofCore]]
          exact hn.1 b C tail st1 hb
        | clos f d e => simp [Good, closFree] at hg
        | _ => simp only [Good] at hg; simp [cr, ofCore, Good, hg]
      | viol k => simp [cr, Good]
      | tail a => simp [Good] at hg
      | stuck w => simp [cr, Good]
      | oof => simp [cr, Good]
  by_cases h5 : ∃ a, f = "is_error" ∧ args = [a]
  · obtain ⟨a, rfl, rfl⟩ := h5
    simp only [WFs, and_true] at hargs
    obtain ⟨he, hg⟩ := hn.1 a C false st hargs
    simp only [cxfs, builtin, Core.builtin, he]
    cases hr : Core.eval n cfg C.fr a false st with
    | mk r st1 =>
      rw [hr] at hg
      cases r with
      | val v =>
        simp only [Good] at hg
        simp [cr, ofCore, Good, closFree, ofCore_isErr v hg]
      | viol k => simp [cr, Good]
      | tail a => simp [Good] at hg
      | stuck w => simp [cr, Good]
      | oof => simp [cr, Good]
  by_cases hd : ∃ a, f = "display" ∧ args = [a]
  · obtain ⟨a, rfl, rfl⟩ := hd
    simp only [WFs, and_true] at hargs
    obtain ⟨he, hg⟩ := hn.1 a C false st hargs
    simp only [cxfs, builtin, Core.builtin, he]
    cases hr : Core.eval n cfg C.fr a false st with
    | mk r st1 =>
      rw [hr] at hg
      cases r with
      | val v =>
        simp only [Good] at hg
        have hts : toStr (ofCore v) = Core.toStr v := by simp [toStr, toCore_ofCore v hg]
        cases v with
        | clos f d e => simp [closFree] at hg
        | err m => simp [cr, ofCore, Good, closFree]
        | int a => simp only [ofCore] at hts; simp only [cr, ofCore, hts]; simp [Core.toStr, Good, closFree, ofCore, cr]
        | bool a => simp only [ofCore] at hts; simp only [cr, ofCore, hts]; simp [Core.toStr, Good, closFree, ofCore, cr]
        | str a => simp only [ofCore] at hts; simp only [cr, ofCore, hts]; simp [Core.toStr, Good, closFree, ofCore, cr]
        | tup a => simp only [ofCore] at hts; simp only [cr, ofCore, hts]; simp [Core.toStr, Good, hg, ofCore, cr]
        | arr a => simp only [ofCore] at hts; simp only [cr, ofCore, hts]; simp [Core.toStr, Good, hg, ofCore, cr]
      | viol k => simp [cr, Good]
      | tail a => simp [Good] at hg
      | stuck w => simp [cr, Good]
      | oof => simp [cr, Good]
  · have ns1 : NoSpecial f args :=
      ⟨fun c a b e1 e2 => h1 ⟨c, a, b, e1, e2⟩, fun a b e1 e2 => h2 ⟨a, b, e1, e2⟩, fun a b e1 e2 => h3 ⟨a, b, e1, e2⟩,
       fun a b e1 e2 => h4 ⟨a, b, e1, e2⟩, fun a e1 e2 => h5 ⟨a, e1, e2⟩, fun a e1 e2 => hd ⟨a, e1, e2⟩⟩
    have ns2 : NoSpecial f (cxfs C.vars C.funs args) := by
      refine ⟨?_, ?_, ?_, ?_, ?_, ?_⟩
      · intro x y z e1 e2; obtain ⟨a, b, c, e⟩ := cxfs_eq3 C.vars C.funs args x y z e2; exact ns1.nif a b c e1 e
      · intro x y e1 e2; obtain ⟨a, b, e⟩ := cxfs_eq2 C.vars C.funs args x y e2; exact ns1.nand a b e1 e
      · intro x y e1 e2; obtain ⟨a, b, e⟩ := cxfs_eq2 C.vars C.funs args x y e2; exact ns1.nor a b e1 e
      · intro x y e1 e2; obtain ⟨a, b, e⟩ := cxfs_eq2 C.vars C.funs args x y e2; exact ns1.niferr a b e1 e
      · intro x e1 e2; obtain ⟨a, e⟩ := cxfs_eq1 C.vars C.funs args x e2; exact ns1.niserr a e1 e
      · intro x e1 e2; obtain ⟨a, e⟩ := cxfs_eq1 C.vars C.funs args x e2; exact ns1.ndisp a e1 e
    rw [core_builtin_default n cfg C.fr f args tail st ns1, cell_builtin_default n cfg C.rfr f _ tail st ns2]
    by_cases hp : Core.isStrictPrim f = true
    · simp only [hp, if_true]
      obtain ⟨hel, hgl⟩ := hn.2.1 args C st hargs
      rw [hel]
      cases hrl : Core.evalList n cfg C.fr args st with
      | mk rl st2 =>
        rw [hrl] at hgl
        cases rl with
        | ok vs =>
          simp only [GoodL] at hgl
          simp only [crl]
          exact ⟨by rw [(cprim_ofCore f vs hgl).1], (cprim_ofCore f vs hgl).2⟩
        | error r => simpa [crl, GoodL] using hgl
    · simp [hp, cr, Good]


/-! ### binding the parameters: named environment and cells -/

def bindFrom : List String → List Core.Val → List (String × Core.Val) → List (String × Core.Val)
  | p :: rest, a :: as, acc => bindFrom rest as ((p, a) :: acc)
  | _, _, acc => acc

theorem bindFrom_eq (names : List String) (args : List Core.Val) (acc : List (String × Core.Val)) :
    bindFrom names args acc = (List.zip names args).reverse ++ acc := by
  induction names generalizing args acc with
  | nil => simp [bindFrom]
  | cons p rest ih =>
    cases args with
    | nil => simp [bindFrom]
    | cons a as => simp [bindFrom, ih]

theorem core_lookup_append (y : String) (A B : List (String × Core.Val)) :
    Core.lookup y (A ++ B) = match Core.lookup y A with | some v => some v | none => Core.lookup y B := by
  induction A with
  | nil => simp [Core.lookup]
  | cons p rest ih =>
    obtain ⟨z, v⟩ := p
    simp only [List.cons_append, Core.lookup]
    split
    · rfl
    · exact ih

theorem bind_inv (allArgs : List Core.Val) : ∀ (names : List String) (args : List Core.Val) (i : Nat)
    (accE : List (String × Core.Val)) (accV : List (String × Nat)),
    names.length = args.length → args = allArgs.drop i →
    (∀ y, match Core.lookup y accE with
          | some a => ∃ j, Scope.lookup y accV = some j ∧ allArgs[j]? = some a
          | none => Scope.lookup y accV = none) →
    ∀ y, match Core.lookup y (bindFrom names args accE) with
          | some a => ∃ j, Scope.lookup y (paramVarsFrom names i accV) = some j ∧ allArgs[j]? = some a
          | none => Scope.lookup y (paramVarsFrom names i accV) = none := by
  intro names
  induction names with
  | nil => intro args i accE accV _ _ inv y; simpa [bindFrom, paramVarsFrom] using inv y
  | cons p rest ih =>
    intro args i accE accV hlen hargs inv
    cases args with
    | nil => simp at hlen
    | cons a as =>
      simp only [bindFrom, paramVarsFrom]
      have hi : allArgs[i]? = some a := by
        have : (allArgs.drop i)[0]? = some a := by rw [← hargs]; rfl
        simpa using this
      have has : as = allArgs.drop (i + 1) := by
        have : (allArgs.drop i).drop 1 = as := by rw [← hargs]; rfl
        rw [← this, List.drop_drop]
      apply ih as (i + 1) ((p, a) :: accE) ((p, i) :: accV) (by simpa using hlen) has
      intro y
      simp only [Core.lookup, Scope.lookup]
      by_cases hy : y = p
      · simp only [hy, if_true]; exact ⟨i, rfl, hi⟩
      · simp only [hy, if_false]; exact inv y

theorem lookup_bindFrom_notin (g : String) : ∀ (names : List String) (args : List Core.Val) (acc : List (String × Core.Val)),
    g ∉ names → Core.lookup g (bindFrom names args acc) = Core.lookup g acc := by
  intro names
  induction names with
  | nil => intro args acc _; simp [bindFrom]
  | cons p rest ih =>
    intro args acc hg
    simp only [List.mem_cons, not_or] at hg
    cases args with
    | nil => simp [bindFrom]
    | cons a as =>
      simp only [bindFrom]
      rw [ih as _ hg.2]
      simp [Core.lookup, hg.1]

theorem lookup_paramVarsFrom_notin (g : String) : ∀ (names : List String) (i : Nat) (acc : List (String × Nat)),
    g ∉ names → Scope.lookup g (paramVarsFrom names i acc) = Scope.lookup g acc := by
  intro names
  induction names with
  | nil => intro i acc _; simp [paramVarsFrom]
  | cons p rest ih =>
    intro i acc hg
    simp only [List.mem_cons, not_or] at hg
    simp only [paramVarsFrom]
    rw [ih _ _ hg.2]
    simp [Scope.lookup, hg.1]

theorem bindParams_nodflt : ∀ (ps : List Core.Param) (args : List Core.Val), (∀ p ∈ ps, p.dflt = none) →
    args.length = ps.length → Core.bindParams ps args [] = some (List.zip (ps.map Core.Param.name) args) := by
  intro ps
  induction ps with
  | nil => intro args _ hl; cases args <;> simp_all [Core.bindParams]
  | cons p rest ih =>
    intro args hd hl
    cases args with
    | nil => simp at hl
    | cons a as =>
      have hp : p.dflt = none := hd p (by simp)
      simp only [Core.bindParams, hp, List.map_cons, List.zip_cons_cons]
      rw [ih as (fun q hq => hd q (by simp [hq])) (by simpa using hl)]
      rfl

theorem firstErr_map (vs : List Core.Val) (h : ∀ v ∈ vs, closFree v = true) :
    firstErr (vs.map ofCore) = (Core.firstErr vs).map ofCore := by
  induction vs with
  | nil => rfl
  | cons v rest ih =>
    have hv := h v (by simp)
    simp only [List.map_cons, firstErr, Core.firstErr, ofCore_isErr v hv]
    split
    · rfl
    · exact ih (fun w hw => h w (by simp [hw]))

/-- `runParams` over the parameter declarations `i … i+m-1` of an activation whose cells there are still
uninitialised: every cell gets its argument, nothing else changes -/
theorem runParams_fill : ∀ (m i : Nat) (fr : RFrame) (args : List CVal), i + m ≤ args.length →
    (∀ j, i ≤ j → j < i + m → fr.cells[j]? = some (.owned .uninit)) →
    ∃ fr1, runParams fr (paramDecls i m) args = .ok (fr1, []) ∧ fr1.height = fr.height ∧ fr1.tmpl = fr.tmpl ∧
      (∀ j, i ≤ j → j < i + m → ∃ a, args[j]? = some a ∧ fr1.cells[j]? = some (.owned (.value a))) ∧
      (∀ j, (j < i ∨ i + m ≤ j) → fr1.cells[j]? = fr.cells[j]?) := by
  intro m
  induction m with
  | zero =>
    intro i fr args _ _
    refine ⟨fr, by simp [paramDecls, runParams], rfl, rfl, ?_, ?_⟩
    · intro j h1 h2; omega
    · intro j _; rfl
  | succ k ih =>
    intro i fr args hlen hun
    obtain ⟨cells0, h0, sp0, t0⟩ := fr
    simp only [RFrame.cells] at hun
    have hi : i < args.length := by omega
    have hai : args[i]? = some args[i] := by simp [hi]
    have hci := hun i (Nat.le_refl _) (by omega)
    have hilt : i < cells0.length := by
      rcases Nat.lt_or_ge i cells0.length with h | h
      · exact h
      · rw [List.getElem?_eq_none_iff.mpr h] at hci; cases hci
    obtain ⟨fr1, hrun, hh, ht, hfill, hkeep⟩ := ih (i + 1)
      (.mk (cells0.set i (.owned (.value args[i]))) h0 sp0 t0) args (by omega)
      (by intro j h1 h2
          simp only [RFrame.cells]
          rw [List.getElem?_set_ne (by omega)]
          exact hun j (by omega) (by omega))
    refine ⟨fr1, ?_, hh, ht, ?_, ?_⟩
    · simp only [paramDecls, runParams, hai, RFrame.put, putCell, RFrame.cells, hci]
      exact hrun
    · intro j h1 h2
      rcases Nat.lt_or_ge i j with hlt | hge
      · exact hfill j (by omega) (by omega)
      · have : j = i := by omega
        subst this
        refine ⟨args[j], hai, ?_⟩
        rw [hkeep j (Or.inl (Nat.lt_succ_self j))]
        simp [RFrame.cells, hilt]
    · intro j hj
      rw [hkeep j (by omega)]
      simp only [RFrame.cells]
      rw [List.getElem?_set_ne (by omega)]

theorem initCells_replicate_append : ∀ (n i : Nat) (tl : List ECell),
    initCells (List.replicate n ECell.uninit ++ tl) i = List.replicate n (TCell.owned .uninit) ++ initCells tl (i + n) := by
  intro n
  induction n with
  | zero => intro i tl; simp
  | succ m ih =>
    intro i tl
    simp only [List.replicate_succ, List.cons_append, initCells, ih (i + 1) tl]
    have : i + 1 + m = i + (m + 1) := by omega
    rw [this]

theorem lookup_bindFrom_mem (y : String) : ∀ (names : List String) (args : List Core.Val) (acc : List (String × Core.Val)),
    y ∈ names → names.length = args.length → ∃ a, Core.lookup y (bindFrom names args acc) = some a := by
  intro names
  induction names with
  | nil => intro args acc h; simp at h
  | cons p rest ih =>
    intro args acc hy hl
    cases args with
    | nil => simp at hl
    | cons a as =>
      simp only [bindFrom]
      by_cases hr : y ∈ rest
      · exact ih as _ hr (by simpa using hl)
      · have : y = p := by simpa [hr] using hy
        subst this
        rw [lookup_bindFrom_notin y rest as _ hr]
        exact ⟨a, by simp [Core.lookup]⟩

theorem firstErr_mem (vs : List Core.Val) (e : Core.Val) (h : Core.firstErr vs = some e) : e ∈ vs := by
  induction vs with
  | nil => simp [Core.firstErr] at h
  | cons v rest ih =>
    simp only [Core.firstErr] at h
    split at h
    · cases h; simp
    · simp [ih h]

mutual
  theorem body_wf (C : Ctx) (ps : List String) (x : String) (envc : List (String × Core.Val))
      (hP : ∀ y, y ∈ ps → VarAt C y ∧ RelAt C y)
      (hU : ∀ g, g ∉ ps → g ≠ x → Core.lookup g envc = none → RelAt C g ∧ ∀ n, ArityAt C g n)
      (hH : C.rfr.height = C.fr.height) : (e : Core.Expr) → BodyOK ps x envc e → WF C e
    | .int _, _ => by simp [WF]
    | .bool _, _ => by simp [WF]
    | .str _, _ => by simp [WF]
    | .var y, h => by simp only [BodyOK] at h; simpa [WF] using hP y h
    | .call g args, h => by
      simp only [BodyOK] at h
      obtain ⟨h1, h2, h3, h4⟩ := h
      simp only [WF]
      exact ⟨(hU g h1 h2 h3).1, (hU g h1 h2 h3).2 _, hH, body_wfs C ps x envc hP hU hH args h4⟩
    | .tup es, h => by simp only [BodyOK] at h; simp only [WF]; exact body_wfs C ps x envc hP hU hH es h
    | .arr es, h => by simp only [BodyOK] at h; simp only [WF]; exact body_wfs C ps x envc hP hU hH es h
    | .item e _, h => by simp only [BodyOK] at h; simp only [WF]; exact body_wf C ps x envc hP hU hH e h
    | .callE _ _, h => by simp [BodyOK] at h
    | .lam _, h => by simp [BodyOK] at h
  theorem body_wfs (C : Ctx) (ps : List String) (x : String) (envc : List (String × Core.Val))
      (hP : ∀ y, y ∈ ps → VarAt C y ∧ RelAt C y)
      (hU : ∀ g, g ∉ ps → g ≠ x → Core.lookup g envc = none → RelAt C g ∧ ∀ n, ArityAt C g n)
      (hH : C.rfr.height = C.fr.height) : (es : List Core.Expr) → BodyOKs ps x envc es → WFs C es
    | [], _ => by simp [WFs]
    | e :: rest, h => by
      simp only [BodyOKs] at h
      simp only [WFs]
      exact ⟨body_wf C ps x envc hP hU hH e h.1, body_wfs C ps x envc hP hU hH rest h.2⟩
end

/-- the activation `initFrame` makes for a call from `caller` -/
def frame0 (caller : RFrame) (t : Tmpl) : RFrame :=
  .mk (initCells t.cells 0) (caller.height + 1)
    (match t.parentId with
     | none => none
     | some pid => findScopeParent (caller.height + 2) (some caller) pid) t

theorem cell_tramp_ok (j : Nat) (cfg : Core.Cfg) (caller : RFrame) (t : Tmpl) (args : List CVal) (r : Nat) (st : St)
    (hd : ∀ l, cfg.depthLimit = some l → caller.height + 1 < l) :
    tramp (j + 1) cfg caller t args r st =
      (match (match runParams (frame0 caller t) t.decls args with
              | .error e => ((Except.error e : Except CRes RFrame), st)
              | .ok (fr1, rest) => runDecls j cfg fr1 rest args st) with
       | (.error e, st') => (e, st')
       | (.ok fr, st') =>
         match t.out with
         | none => (.stuck "template without output", st')
         | some out =>
           match eval j cfg fr out true st' with
           | (.tail newArgs, st'') =>
             if (match cfg.recLimit with | some l => decide (r + 1 > l) | none => false) then (.viol .recursion, st'')
             else tramp j cfg caller t newArgs (r + 1) st''
           | r' => r') := by
  simp only [tramp, initFrame, frame0]
  cases hdl : cfg.depthLimit with
  | none => simp only [Bool.false_eq_true, if_false]; rfl
  | some l =>
    have := hd l hdl
    have hlt : ¬ (caller.height + 1 ≥ l) := by omega
    simp only [hlt, decide_false, Bool.false_eq_true, if_false]; rfl

theorem cell_tramp_viol (j : Nat) (cfg : Core.Cfg) (caller : RFrame) (t : Tmpl) (args : List CVal) (r : Nat) (st : St)
    (l : Nat) (hdl : cfg.depthLimit = some l) (hge : caller.height + 1 ≥ l) :
    tramp (j + 1) cfg caller t args r st = (.viol .depth, st) := by
  simp [tramp, initFrame, hdl, hge]

theorem core_tramp_viol (j : Nat) (cfg : Core.Cfg) (h : Nat) (f : Core.Func) (ds : List Core.Val)
    (env : List (String × Core.Val)) (args : List Core.Val) (r : Nat) (st : St)
    (l : Nat) (hdl : cfg.depthLimit = some l) (hge : h + 1 ≥ l) :
    Core.tramp (j + 1) cfg h (.clos f ds env) args r st = (.viol .depth, st) := by
  simp [Core.tramp, hdl, hge]

/-- the trampoline of a call of such a function: the new activation holds the arguments in the parameters' cells and
the body runs in it as it runs in the named frame `parameters ++ captured environment` -/
theorem simF_tramp (cfg : Core.Cfg) (n : Nat) (hprev : ∀ m, m < n → SimF cfg m)
    (x : String) (f : Core.Func) (envc : List (String × Core.Val)) (k : Nat) (args : List Core.Val) (caller : RFrame)
    (h : Nat) (r : Nat) (st : St) (hfun : FunOK x f envc) (hcf : ∀ a ∈ args, closFree a = true)
    (hlen : args.length = f.params.length) (hh : caller.height = h) :
    tramp n cfg caller (tmplOf k f) (args.map ofCore) r st
      = (cr (Core.tramp n cfg h (.clos f [] envc) args r st).1, (Core.tramp n cfg h (.clos f [] envc) args r st).2) ∧
    Good (Core.tramp n cfg h (.clos f [] envc) args r st).1 := by
  subst hh
  cases n with
  | zero => simp [tramp, Core.tramp, cr, Good]
  | succ j =>
    by_cases hv : ∃ l, cfg.depthLimit = some l ∧ caller.height + 1 ≥ l
    · obtain ⟨l, hdl, hge⟩ := hv
      rw [cell_tramp_viol j cfg caller _ _ r st l hdl hge, core_tramp_viol j cfg caller.height f [] envc args r st l hdl hge]
      simp [cr, Good]
    · have hd : ∀ l, cfg.depthLimit = some l → caller.height + 1 < l := by
        intro l hl
        rcases Nat.lt_or_ge (caller.height + 1) l with h1 | h1
        · exact h1
        · exact absurd ⟨l, hl, h1⟩ hv
      obtain ⟨hname, hdecls, hnd, hxn, hbody⟩ := hfun
      have hb := bindParams_nodflt f.params args hnd hlen
      rw [cell_tramp_ok j cfg caller _ _ r st hd, Core.tramp_frame j cfg caller.height f [] envc args r st _ hb hd]
      have hnl : (f.params.map Core.Param.name).length = args.length := by simp [hlen]
      have hfill := runParams_fill f.params.length 0 (frame0 caller (tmplOf k f)) (args.map ofCore) (by simp [hlen])
        (by intro jj _ h2
            simp only [frame0, tmplOf, Tmpl.cells, RFrame.cells, initCells_replicate_append]
            rw [List.getElem?_append_left (by simpa using h2)]
            simp [List.getElem?_replicate]; omega)
      obtain ⟨fr1, hrun, hh1, -, hcells, -⟩ := hfill
      have hdecls' : (tmplOf k f).decls = paramDecls 0 f.params.length := rfl
      have hout : (tmplOf k f).out = some (cxf (paramVars (f.params.map Core.Param.name)) [] f.body) := rfl
      simp only [hdecls', hrun, hout, hname, hdecls]
      cases j with
      | zero => simp [runDecls, Core.evalDecls, cr, Good]
      | succ i =>
        simp only [runDecls, Core.evalDecls]
        have henv : ∀ y, Core.lookup y (((f.params.map Core.Param.name).zip args).reverse ++ envc) =
            match Core.lookup y (bindFrom (f.params.map Core.Param.name) args []) with
            | some v => some v
            | none => Core.lookup y envc := by
          intro y
          rw [core_lookup_append, bindFrom_eq]; simp
        let Cb : Ctx := ⟨{ env := ((f.params.map Core.Param.name).zip args).reverse ++ envc,
                           self := some (x, Core.Val.clos f [] envc), height := caller.height + 1 },
                         paramVars (f.params.map Core.Param.name), [], fr1⟩
        have hP : ∀ y, y ∈ f.params.map Core.Param.name → VarAt Cb y ∧ RelAt Cb y := by
          intro y hy
          obtain ⟨a, ha⟩ := lookup_bindFrom_mem y _ args [] hy hnl
          have hinv := bind_inv args (f.params.map Core.Param.name) args 0 [] [] hnl (by simp)
            (by intro z; simp [Core.lookup, Scope.lookup]) y
          rw [ha] at hinv
          obtain ⟨jj, hj1, hj2⟩ := hinv
          have hl : Core.lookup y Cb.fr.env = some a := by simp only [Cb, henv y, ha]
          have hamem : a ∈ args := List.mem_of_getElem? hj2
          have hjlt : jj < args.length := by
            rcases Nat.lt_or_ge jj args.length with h1 | h1
            · exact h1
            · rw [List.getElem?_eq_none_iff.mpr h1] at hj2; cases hj2
          obtain ⟨a', ha1, ha2⟩ := hcells jj (Nat.zero_le _) (by omega)
          have ha' : a' = ofCore a := by
            rw [List.getElem?_map, hj2] at ha1
            simpa using ha1.symm
          subst ha'
          refine ⟨?_, ?_, ?_⟩
          · intro v hv; rw [hl] at hv; cases hv; exact hcf a hamem
          · intro n c hs
            simp only [Cb, Option.some.injEq, Prod.mk.injEq] at hs
            intro e; apply hxn; rw [hs.1, e]; exact hy
          · rw [hl]
            exact Or.inl ⟨hcf a hamem, jj, hj1, ha2⟩
        have hU : ∀ g, g ∉ f.params.map Core.Param.name → g ≠ x → Core.lookup g envc = none →
            RelAt Cb g ∧ ∀ n, ArityAt Cb g n := by
          intro g hg hgx hge
          have hl : Core.lookup g Cb.fr.env = none := by
            simp only [Cb, henv g, lookup_bindFrom_notin g _ args [] hg, Core.lookup, hge]
          refine ⟨⟨?_, ?_⟩, ?_⟩
          · intro n c hs
            simp only [Cb, Option.some.injEq, Prod.mk.injEq] at hs
            rw [← hs.1]; exact fun e => hgx e.symm
          · rw [hl]
            exact ⟨by simp [Cb, paramVars, lookup_paramVarsFrom_notin g _ 0 [] hg, Scope.lookup], by simp [Cb, Scope.lookup]⟩
          · intro n fc ds' envc' hc; rw [hl] at hc; cases hc
        have hwf : WF Cb f.body := body_wf Cb _ x envc hP hU (by show fr1.height = caller.height + 1; rw [hh1]; rfl) f.body hbody
        obtain ⟨hev, hg⟩ := (hprev (i + 1) (by omega)).1 f.body Cb true st hwf
        simp only [Cb] at hev hg
        rw [hev]
        cases hr : Core.eval (i + 1) cfg _ f.body true st with
        | mk r0 s0 =>
          rw [hr] at hg
          cases r0 with
          | tail a => simp [Good] at hg
          | val v => simpa [cr, Good] using hg
          | viol kk => simp [cr, Good]
          | stuck w => simp [cr, Good]
          | oof => simp [cr, Good]

theorem simF_callUser (cfg : Core.Cfg) (n : Nat) (hprev : ∀ m, m ≤ n → SimF cfg m) :
    ∀ x f envc k (args : List Core.Val) (caller : RFrame) (h : Nat) st, FunOK x f envc → (∀ a ∈ args, closFree a = true) →
    args.length = f.params.length → caller.height = h →
    callUser (n + 1) cfg caller (tmplOf k f) (args.map ofCore) st
      = (cr (Core.callUser (n + 1) cfg h (.clos f [] envc) args st).1, (Core.callUser (n + 1) cfg h (.clos f [] envc) args st).2) ∧
    Good (Core.callUser (n + 1) cfg h (.clos f [] envc) args st).1 := by
  intro x f envc k args caller h st hfun hcf hlen hh
  simp only [callUser, Core.callUser, firstErr_map args hcf]
  cases hfe : Core.firstErr args with
  | some e => simp [cr, Good, hcf e (firstErr_mem args e hfe)]
  | none =>
    simp only [Option.map_none]
    have ht := fun st' => simF_tramp cfg n (fun m hm => hprev m (Nat.le_of_lt hm)) x f envc k args caller h 0 st' hfun hcf hlen hh
    cases hcl : cfg.callLimit with
    | none => exact ht st
    | some l =>
      simp only []
      by_cases hge : st.calls + 1 ≥ l
      · simp [hge, cr, Good]
      · simp only [hge, if_false]
        exact ht _

theorem simF_upto (cfg : Core.Cfg) : ∀ n, ∀ m, m ≤ n → SimF cfg m := by
  intro n
  induction n with
  | zero => intro m hm; have : m = 0 := by omega
            subst this; exact simF_zero cfg
  | succ k ih =>
    intro m hm
    rcases Nat.lt_or_ge m (k + 1) with h | h
    · exact ih m (by omega)
    · have : m = k + 1 := by omega
      subst this
      exact ⟨simF_eval cfg k (ih k (Nat.le_refl k)) (fun j hj => ih j (by omega)),
             simF_list cfg k (ih k (Nat.le_refl k)), simF_builtin cfg k (ih k (Nat.le_refl k)),
             simF_callUser cfg k ih⟩

theorem simF_all (cfg : Core.Cfg) (n : Nat) : SimF cfg n := simF_upto cfg n n (Nat.le_refl n)

end XrayModel.CellRun
