/- compile_correct for function-free programs: the declaration loop at top level. -/
import XrayProofs.CompileSim
namespace XrayModel.CellRun
open XrayModel.Scope

def DeclRel (vars : List (String × Nat)) (a : Except Core.Res Core.Frame × St) (b : Except CRes RFrame × St) : Prop :=
  a.2 = b.2 ∧
  match a.1, b.1 with
  | .ok fr, .ok rfr => fr.self = none ∧ FrRel fr.env vars rfr
  | .error r, .error r' => r' = cr r
  | _, _ => False

theorem rootOK_addVariable (cur cur' : Scope) (rok : RootOK cur) (x : String) (e : XE)
    (h : addVariable cur x e = .ok cur') :
    RootOK cur' ∧ cur'.cells = cur.cells ++ [.var] ∧ cur'.vars = (x, cur.cells.length) :: cur.vars ∧
    cur'.decls = cur.decls ++ [.value cur.cells.length e] := by
  simp only [addVariable, Scope.hasOverloads, rok.funcs, overloadCells] at h
  simp at h
  subst h
  refine ⟨⟨by simp [rok.funcs], by simp [rok.height], by simp [rok.reqs], ?_, ?_⟩, rfl, rfl, by simp [rok.funcs]⟩
  rotate_left
  · intro c hc
    simp only [List.mem_append, List.mem_cons, List.not_mem_nil, or_false] at hc
    rcases hc with hc | hc
    · exact rok.allVar c hc
    · exact hc
  intro y k hk
  simp only [Scope.lookup] at hk
  split at hk
  · cases hk; simp
  · have := rok.cells y k hk
    have hlt : k < cur.cells.length := by
      rcases Nat.lt_or_ge k cur.cells.length with h | h
      · exact h
      · rw [List.getElem?_eq_none_iff.mpr h] at this; cases this
    simp only [List.getElem?_append_left hlt, this]

theorem frRel_extend (env : List (String × Core.Val)) (vars : List (String × Nat)) (rfr : RFrame) (x : String)
    (v : Core.Val) (n : Nat) (hv : closFree v = true) (hrel : FrRel env vars rfr)
    (hn : rfr.cells[n]? = some (.owned .uninit)) :
    FrRel ((x, v) :: env) ((x, n) :: vars)
      (.mk (rfr.cells.set n (.owned (.value (ofCore v)))) rfr.height rfr.scopeParent rfr.tmpl) := by
  obtain ⟨cells0, h0, sp0, t0⟩ := rfr
  simp only [RFrame.cells, RFrame.height, RFrame.scopeParent, RFrame.tmpl] at hn ⊢
  have hrel : ∀ x, match Core.lookup x env with
       | some v => closFree v = true ∧ ∃ k, Scope.lookup x vars = some k ∧ cells0[k]? = some (.owned (.value (ofCore v)))
       | none => Scope.lookup x vars = none := hrel
  have hlt : n < cells0.length := by
    rcases Nat.lt_or_ge n cells0.length with h | h
    · exact h
    · rw [List.getElem?_eq_none_iff.mpr h] at hn; cases hn
  intro y
  by_cases hy : y = x
  · subst hy
    simp only [Core.lookup, if_true, Scope.lookup, RFrame.cells]
    exact ⟨hv, n, rfl, by rw [List.getElem?_set]; simp [hlt]⟩
  · have := hrel y
    simp only [Core.lookup, hy, if_false, Scope.lookup, RFrame.cells]
    cases hl : Core.lookup y env with
    | none => rw [hl] at this; exact this
    | some w =>
      rw [hl] at this
      obtain ⟨hw, k, hk, hc⟩ := this
      refine ⟨hw, k, hk, ?_⟩
      have hne : n ≠ k := by
        intro he; subst he; rw [hn] at hc; cases hc
      rw [List.getElem?_set_ne hne]; exact hc

theorem feed_run (cfg : Core.Cfg) : ∀ (ds : List Core.Decl), declsOK ds = true → ∀ (cf : Nat) (cur root : Scope),
    RootOK cur → feedDecls cf [] cur (ofDecls ds) = .ok root →
    RootOK root ∧ cur.cells.length ≤ root.cells.length ∧ ∃ D, root.decls = cur.decls ++ D ∧
    (D = [] ∨ ∃ c e D', D = .value c e :: D') ∧
    ∀ (fuel : Nat) (fr : Core.Frame) (rfr : RFrame) (st : St) (args : List CVal), fr.self = none →
      FrRel fr.env cur.vars rfr →
      (∀ k, cur.cells.length ≤ k → k < root.cells.length → rfr.cells[k]? = some (.owned .uninit)) →
      DeclRel root.vars (Core.evalDecls fuel cfg fr ds st) (runDecls fuel cfg rfr D args st) := by
  intro ds
  induction ds with
  | nil =>
    intro _ cf cur root rok h
    cases cf with
    | zero => simp [ofDecls, feedDecls] at h
    | succ c =>
      simp only [ofDecls, feedDecls, Except.ok.injEq] at h
      subst h
      refine ⟨rok, Nat.le_refl _, [], by simp, Or.inl rfl, ?_⟩
      intro fuel fr rfr st args hs hrel _
      cases fuel with
      | zero => simp [DeclRel, Core.evalDecls, runDecls, cr]
      | succ F => simp [DeclRel, Core.evalDecls, runDecls, hs, hrel]
  | cons d rest ih =>
    intro hok cf cur root rok h
    cases d with
    | fnD f => simp [declsOK] at hok
    | letD x e =>
      simp only [declsOK, Bool.and_eq_true] at hok
      cases cf with
      | zero => simp [ofDecls, feedDecls] at h
      | succ c =>
        simp only [ofDecls, feedDecls] at h
        split at h
        · cases h
        · rename_i p cur1 hp
          have e1 := (parse_frag c).1 e hok.1 [] cur _ hp
          simp only [Prod.mk.injEq] at e1
          obtain ⟨rfl, rfl⟩ := e1
          split at h
          · cases h
          · rename_i c' cur2 hc
            have e2 := (compile_frag c).1 e hok.1 cur1 _ rok hc
            simp only [Prod.mk.injEq] at e2
            obtain ⟨rfl, rfl⟩ := e2
            split at h
            · cases h
            · rename_i cur3 hadd
              obtain ⟨rok3, hcells3, hvars3, hdecls3⟩ := rootOK_addVariable _ _ rok x _ hadd
              obtain ⟨rokR, hlen, D', hD', -, hsim⟩ := ih hok.2 c cur3 root rok3 h
              have hlen3 : cur3.cells.length = cur2.cells.length + 1 := by rw [hcells3]; simp
              refine ⟨rokR, by omega, .value cur2.cells.length (cx cur2.vars e) :: D', by rw [hD', hdecls3]; simp, Or.inr ⟨_, _, _, rfl⟩, ?_⟩
              intro fuel fr rfr st args hs hrel hun
              cases fuel with
              | zero => simp [DeclRel, Core.evalDecls, runDecls, cr]
              | succ F =>
                obtain ⟨hev, hgood⟩ := (sim_all cfg F).1 e hok.1 fr rfr cur2.vars false st hs hrel
                simp only [Core.evalDecls, runDecls, hev]
                cases hr : Core.eval F cfg fr e false st with
                | mk r s1 =>
                  rw [hr] at hgood
                  cases r with
                  | val v =>
                    simp only [Good] at hgood
                    have hn := hun cur2.cells.length (Nat.le_refl _) (by omega)
                    simp only [cr, RFrame.put, putCell, hn]
                    have hrel' := frRel_extend fr.env cur2.vars rfr x v cur2.cells.length hgood hrel hn
                    rw [← hvars3] at hrel'
                    apply hsim F { fr with env := (x, v) :: fr.env } _ s1 args hs hrel'
                    intro k hk1 hk2
                    simp only [RFrame.cells]
                    rw [List.getElem?_set_ne (by omega)]
                    exact hun k (by omega) hk2
                  | viol k => simp [DeclRel, cr]
                  | tail a => simp [Good] at hgood
                  | stuck w => simp [DeclRel, cr]
                  | oof => simp [DeclRel, cr]

theorem fromSpecs_allVar (cells : List Cell) (h : ∀ c ∈ cells, c = .var) :
    fromSpecs cells none = .ok (cells.map (fun _ => ECell.uninit)) := by
  induction cells with
  | nil => simp [fromSpecs]
  | cons c rest ih =>
    have hc : c = .var := h c (by simp)
    subst hc
    simp [fromSpecs, fromSpec, ih (fun c hc => h c (by simp [hc]))]

theorem initCells_uninit (n : Nat) (i : Nat) :
    initCells (List.replicate n ECell.uninit) i = List.replicate n (TCell.owned .uninit) := by
  induction n generalizing i with
  | zero => simp [initCells]
  | succ m ih => simp [List.replicate_succ, initCells, ih]

theorem map_const_replicate {α β : Type} (l : List α) (b : β) : l.map (fun _ => b) = List.replicate l.length b := by
  induction l with
  | nil => rfl
  | cons a rest ih => simp [List.replicate_succ, ih]

/-- function-free programs: the compiled program on the cell machine and the named evaluator on the source end
in the same outcome and state, with the same bindings, for every fuel -/
theorem compile_correct_program (cfg : Core.Cfg) (ds : List Core.Decl) (hok : declsOK ds = true) (cf : Nat)
    (root : Scope) (hc : compileProgram cf (ofDecls ds) = .ok root) (hdl : cfg.depthLimit ≠ some 0) (fuel : Nat) :
    DeclRel root.vars (Core.runProgram fuel cfg ds) (runRoot fuel cfg root) := by
  have rok0 : RootOK ({} : Scope) :=
    ⟨rfl, rfl, rfl, by intro x k h; simp [Scope.lookup] at h, by intro c hc; simp at hc⟩
  obtain ⟨rokR, -, D, hD, hshape, hsim⟩ := feed_run cfg ds hok cf {} root rok0 hc
  simp only [List.nil_append] at hD
  have hrp : ∀ fr0 : RFrame, runParams fr0 root.decls [] = .ok (fr0, root.decls) := by
    intro fr0
    rw [hD]
    rcases hshape with rfl | ⟨c, e, D', rfl⟩ <;> simp [runParams]
  have fin : DeclRel root.vars (Core.evalDecls fuel cfg { env := [], self := none, height := 0 } ds { })
      (runDecls fuel cfg
        (RFrame.mk (List.replicate root.cells.length (TCell.owned ECell.uninit)) 0 none
          (Tmpl.mk [] none (List.replicate root.cells.length ECell.uninit) root.decls 0 [] none))
        root.decls [] { }) := by
    rw [hD]
    apply hsim fuel { env := [], self := none, height := 0 } _ {} [] rfl
    · intro x; simp [Core.lookup, Scope.lookup]
    · intro k _ hk
      simp only [RFrame.cells]
      rw [List.getElem?_replicate]
      simp [hk]
  simp only [runRoot, fromSpecs_allVar root.cells rokR.allVar, fromTemplate, initFrame, Tmpl.parentId, Tmpl.cells,
    Tmpl.decls, Core.runProgram, map_const_replicate, initCells_uninit]
  cases hl : cfg.depthLimit with
  | none => simpa [hrp] using fin
  | some l =>
    have : l ≠ 0 := by intro h0; subst h0; exact hdl hl
    simpa [this, hrp] using fin

end XrayModel.CellRun
