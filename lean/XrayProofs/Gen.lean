/- helper lemmas about the generator step machine (C16, C10) -/
import XrayModel.Gen
namespace XrayModel.Gen

end XrayModel.Gen
