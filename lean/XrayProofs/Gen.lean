/- helper definitions and lemmas about the generator step machine (C16, C10) -/
import XrayModel.Gen
namespace XrayModel.Gen

/-! ### the list-level meaning of the adaptors (on items: values, error values, violations) -/

/-- `map`: a violation passes, everything else (also an error value) goes through the function -/
def mapItem (f : F) : Item → Item
  | .viol => .viol
  | x => f x

/-- what `filter` does with one element: `none` = rejected -/
def filt (p : P) : Item → Option Item
  | .viol => some .viol
  | x => match p x with
    | .viol => some .viol
    | .err => some .err
    | .t => some x
    | .f => none

/-- `take_while` on a list of items -/
def twItems (p : P) : List Item → List Item
  | [] => []
  | x :: xs =>
    match x with
    | .viol => .viol :: twItems p xs
    | x => match p x with
      | .viol => .viol :: twItems p xs
      | .err => .err :: twItems p xs
      | .t => x :: twItems p xs
      | .f => []

/-- `skip_until` on a list of items -/
def suItems (p : P) : List Item → List Item
  | [] => []
  | x :: xs =>
    match x with
    | .viol => .viol :: suItems p xs
    | x => match p x with
      | .viol => .viol :: suItems p xs
      | .err => .err :: suItems p xs
      | .t => x :: xs
      | .f => suItems p xs

/-- `Slice(start, end)` on a list of items: discard `k` (a violation among them is not discarded),
then at most `t` -/
def sliceItems : Nat → Option Nat → List Item → List Item
  | _, some 0, _ => []
  | _, _, [] => []
  | 0, t, x :: xs => x :: sliceItems 0 (decTake t) xs
  | k + 1, t, x :: xs =>
    match x with
    | .viol => .viol :: sliceItems k (decTake t) xs
    | _ => sliceItems k t xs

/-- `aggregate` (a scan) on a list of items, after the initial state has been yielded -/
def scanItems (f : F2) : Item → List Item → List Item
  | _, [] => []
  | st, x :: xs =>
    match x with
    | .viol => .viol :: scanItems f st xs
    | x => match f st x with
      | .viol => .viol :: scanItems f st xs
      | r => r :: scanItems f r xs

def takeOpt {α : Type} : Option Nat → List α → List α
  | none, xs => xs
  | some n, xs => xs.take n

/-- enough permits for `m` elements -/
def Permits.covers : Permits → Nat → Prop
  | .unlimited, _ => True
  | .left k, m => m ≤ k
  | .dead, m => m = 0

/-- state after `n` steps (`none`: the iterator has answered `done`) -/
def after (L : Option Nat) : Nat → It → Option It
  | 0, it => some it
  | n + 1, it =>
    match step L it with
    | .done => none
    | .skip s => after L n s
    | .yield _ s => after L n s

def noViol (xs : List Item) : Prop := ∀ x ∈ xs, x ≠ Item.viol

/-! ### one step of an adaptor is one step of its source -/

theorem step_map (L it f) : step L (.map it f) =
    match step L it with
    | .done => .done
    | .skip s => .skip (.map s f)
    | .yield x s => .yield (mapItem f x) (.map s f) := by
  rw [step]
  cases step L it <;> simp [mapItem]
  rename_i x s
  cases x <;> rfl

theorem outs_map (L : Option Nat) (f : F) :
    ∀ n it, outs L n (.map it f) = (outs L n it).map (mapItem f) := by
  intro n
  induction n with
  | zero => intro it; rfl
  | succ n ih =>
    intro it
    simp only [outs, step_map]
    cases h : step L it <;> simp [ih]

theorem after_map (L : Option Nat) (f : F) :
    ∀ n it, after L n (.map it f) = (after L n it).map (fun s => .map s f) := by
  intro n
  induction n with
  | zero => intro it; rfl
  | succ n ih =>
    intro it
    simp only [after, step_map]
    cases h : step L it <;> simp [ih]

theorem ended_map (L : Option Nat) (f : F) :
    ∀ n it, ended L n (.map it f) = ended L n it := by
  intro n
  induction n with
  | zero => intro it; rfl
  | succ n ih =>
    intro it
    simp only [ended, step_map]
    cases h : step L it <;> simp [ih]

theorem covers_next_ok {perm : Permits} {m : Nat} (h : perm.covers (m + 1)) :
    ∃ perm', perm.next = (.ok, perm') ∧ perm'.covers m := by
  cases perm with
  | unlimited => exact ⟨.unlimited, rfl, trivial⟩
  | left k =>
    cases k with
    | zero => simp [Permits.covers] at h
    | succ k => exact ⟨.left k, rfl, by simp [Permits.covers] at h ⊢; omega⟩
  | dead => simp [Permits.covers] at h

theorem covers_mono {perm : Permits} {m m' : Nat} (h : perm.covers m) (hm : m' ≤ m) : perm.covers m' := by
  cases perm <;> simp [Permits.covers] at h ⊢ <;> omega

theorem outs_length_le (L : Option Nat) : ∀ n it, (outs L n it).length ≤ n := by
  intro n
  induction n with
  | zero => intro it; simp [outs]
  | succ n ih =>
    intro it
    simp only [outs]
    cases h : step L it <;> simp
    · have := ih ‹It›; omega
    · have := ih ‹It›; omega

/-- `filter` with enough permits for the elements its source yields -/
theorem outs_filter (L : Option Nat) (p : P) :
    ∀ n it perm, perm.covers (outs L n it).length →
      outs L n (.filter it p perm) = (outs L n it).filterMap (filt p) := by
  intro n
  induction n with
  | zero => intro it perm _; rfl
  | succ n ih =>
    intro it perm hc
    simp only [outs] at hc ⊢
    rw [step]
    cases h : step L it with
    | done => simp
    | skip s => simp only [h] at hc; simp [ih s perm hc]
    | «yield» x s =>
      simp only [h, List.length_cons] at hc
      obtain ⟨perm', hn, hc'⟩ := covers_next_ok hc
      simp only [hn]
      cases x with
      | viol => simp [filt, ih s perm' hc']
      | err =>
        simp only [List.filterMap_cons, filt]
        cases p .err <;> simp [ih s perm' hc']
      | val v =>
        simp only [List.filterMap_cons, filt]
        cases p (.val v) <;> simp [ih s perm' hc']

theorem after_filter (L : Option Nat) (p : P) :
    ∀ n it perm, perm.covers (outs L n it).length →
      ∃ perm', after L n (.filter it p perm) = (after L n it).map (fun s => .filter s p perm') := by
  intro n
  induction n with
  | zero => intro it perm _; exact ⟨perm, rfl⟩
  | succ n ih =>
    intro it perm hc
    simp only [outs] at hc
    simp only [after]
    rw [step]
    cases h : step L it with
    | done => exact ⟨perm, by simp⟩
    | skip s => simp only [h] at hc; simpa using ih s perm hc
    | «yield» x s =>
      simp only [h, List.length_cons] at hc
      obtain ⟨perm', hn, hc'⟩ := covers_next_ok hc
      simp only [hn]
      obtain ⟨q, hq⟩ := ih s perm' hc'
      refine ⟨q, ?_⟩
      cases x with
      | viol => simpa using hq
      | err => dsimp only; generalize p Item.err = r; cases r <;> simpa using hq
      | val v => dsimp only; generalize p (Item.val v) = r; cases r <;> simpa using hq

theorem outs_takeWhile (L : Option Nat) (p : P) :
    ∀ n it, outs L n (.takeWhile it p) = twItems p (outs L n it) := by
  intro n
  induction n with
  | zero => intro it; rfl
  | succ n ih =>
    intro it
    simp only [outs]
    rw [step]
    cases h : step L it with
    | done => simp [twItems]
    | skip s => simp [ih]
    | «yield» x s =>
      cases x with
      | viol => simp [twItems, ih]
      | err => simp only [twItems]; cases p .err <;> simp [ih]
      | val v => simp only [twItems]; cases p (.val v) <;> simp [ih]

theorem outs_skipUntil_found (L : Option Nat) (p : P) (perm : Permits) :
    ∀ n it, outs L n (.skipUntil it p true perm) = outs L n it := by
  intro n
  induction n with
  | zero => intro it; rfl
  | succ n ih =>
    intro it
    simp only [outs]
    rw [step]
    cases h : step L it <;> simp [ih]

theorem outs_skipUntil (L : Option Nat) (p : P) :
    ∀ n it perm, perm.covers (outs L n it).length →
      outs L n (.skipUntil it p false perm) = suItems p (outs L n it) := by
  intro n
  induction n with
  | zero => intro it perm _; rfl
  | succ n ih =>
    intro it perm hc
    simp only [outs] at hc ⊢
    rw [step]
    cases h : step L it with
    | done => simp [suItems]
    | skip s => simp only [h] at hc; simp [ih s perm hc]
    | «yield» x s =>
      simp only [h, List.length_cons] at hc
      obtain ⟨perm', hn, hc'⟩ := covers_next_ok hc
      simp only [hn, Bool.false_eq_true, ↓reduceIte]
      cases x with
      | viol => simp [suItems, ih s perm' hc']
      | err => simp only [suItems]; cases p .err <;> simp [ih s perm' hc', outs_skipUntil_found]
      | val v => simp only [suItems]; cases p (.val v) <;> simp [ih s perm' hc', outs_skipUntil_found]

/-! ### slices -/

theorem sliceItems_nil (k : Nat) (t : Option Nat) : sliceItems k t [] = [] := by
  cases t with
  | none => cases k <;> rfl
  | some t => cases t <;> cases k <;> rfl

theorem outs_slice (L : Option Nat) :
    ∀ n it k perm t, Permits.covers perm k →
      outs L n (.slice it k perm t) = sliceItems k t (outs L n it) := by
  intro n
  induction n with
  | zero => intro it k perm t _; simp [outs, sliceItems_nil]
  | succ n ih =>
    intro it k perm t hc
    simp only [outs]
    by_cases ht : t = some 0
    · subst ht; rw [step]; simp [sliceItems]
    · rw [step]
      rotate_left
      · intro h; exact ht h
      have hsl : ∀ (k : Nat) (x : Item) (xs : List Item), sliceItems k t (x :: xs) =
          (match k with
           | 0 => x :: sliceItems 0 (decTake t) xs
           | k + 1 => match x with
             | .viol => .viol :: sliceItems k (decTake t) xs
             | _ => sliceItems k t xs) := by
        intro k x xs
        cases t with
        | none => cases k <;> rfl
        | some t =>
          cases t with
          | zero => exact absurd rfl ht
          | succ t => cases k <;> rfl
      cases h : step L it with
      | done => simp [sliceItems_nil]
      | skip s => simp [ih s k perm t hc]
      | «yield» x s =>
        rw [hsl]
        cases k with
        | zero => simp [ih s 0 perm (decTake t) hc]
        | succ k =>
          obtain ⟨perm', hn, hc'⟩ := covers_next_ok hc
          simp only [hn]
          cases x <;> simp [ih s k perm' _ hc']

theorem sliceItems_noViol : ∀ (xs : List Item) (k : Nat) (t : Option Nat), noViol xs →
    sliceItems k t xs = takeOpt t (xs.drop k) := by
  intro xs
  induction xs with
  | nil => intro k t _; rw [sliceItems_nil]; cases t <;> simp [takeOpt]
  | cons x xs ih =>
    intro k t hv
    have hx : x ≠ .viol := hv x (by simp)
    have hxs : noViol xs := fun y hy => hv y (by simp [hy])
    cases t with
    | none =>
      cases k with
      | zero => simp [sliceItems, decTake, takeOpt]; simpa [takeOpt] using ih 0 none hxs
      | succ k => cases x <;> simp_all [sliceItems, takeOpt]
    | some t =>
      cases t with
      | zero => simp [sliceItems, takeOpt]
      | succ t =>
        cases k with
        | zero => simp [sliceItems, decTake, takeOpt]; simpa [takeOpt] using ih 0 (some t) hxs
        | succ k => cases x <;> simp_all [sliceItems, takeOpt]

/-! ### aggregate, budget -/

theorem outs_aggregate (L : Option Nat) (f : F2) :
    ∀ n it st, outs L n (.aggregate it st f false) = scanItems f st (outs L n it) := by
  intro n
  induction n with
  | zero => intro it st; simp [outs, scanItems]
  | succ n ih =>
    intro it st
    simp only [outs]
    rw [step]
    simp only [Bool.false_eq_true, ↓reduceIte]
    cases h : step L it with
    | done => simp [scanItems]
    | skip s => simp [ih]
    | «yield» x s =>
      cases x with
      | viol => simp [scanItems, ih]
      | err => simp only [scanItems]; generalize f st Item.err = r; cases r <;> simp [ih]
      | val v => simp only [scanItems]; generalize f st (Item.val v) = r; cases r <;> simp [ih]

theorem outs_aggregate_first (L : Option Nat) (f : F2) (n : Nat) (it : It) (st : Item) :
    outs L (n + 1) (.aggregate it st f true) = st :: scanItems f st (outs L n it) := by
  simp only [outs]
  rw [step]
  simp [outs_aggregate]

theorem outs_budget (L : Option Nat) :
    ∀ n it perm, Permits.covers perm (outs L n it).length →
      outs L n (.budget it perm) = outs L n it := by
  intro n
  induction n with
  | zero => intro it perm _; rfl
  | succ n ih =>
    intro it perm hc
    simp only [outs] at hc ⊢
    rw [step]
    cases h : step L it with
    | done => simp
    | skip s => simp only [h] at hc; simp [ih s perm hc]
    | «yield» x s =>
      simp only [h, List.length_cons] at hc
      obtain ⟨perm', hn, hc'⟩ := covers_next_ok hc
      simp [hn, ih s perm' hc']

theorem after_budget (L : Option Nat) :
    ∀ n it perm, Permits.covers perm (outs L n it).length →
      (after L n (.budget it perm)).isNone = (after L n it).isNone := by
  intro n
  induction n with
  | zero => intro it perm _; rfl
  | succ n ih =>
    intro it perm hc
    simp only [outs] at hc
    simp only [after]
    rw [step]
    cases h : step L it with
    | done => simp
    | skip s => simp only [h] at hc; simp [ih s perm hc]
    | «yield» x s =>
      simp only [h, List.length_cons] at hc
      obtain ⟨perm', hn, hc'⟩ := covers_next_ok hc
      simp [hn, ih s perm' hc']

/-! ### splitting a run, finite denotations, chains -/

theorem outs_add (L : Option Nat) : ∀ k m it,
    outs L (k + m) it = outs L k it ++ (match after L k it with | some s => outs L m s | none => []) := by
  intro k
  induction k with
  | zero => intro m it; simp [outs, after]
  | succ k ih =>
    intro m it
    rw [show k + 1 + m = (k + m) + 1 by omega]
    simp only [outs, after]
    cases h : step L it <;> simp [ih]

theorem after_add (L : Option Nat) : ∀ k m it,
    after L (k + m) it = (after L k it).bind (after L m) := by
  intro k
  induction k with
  | zero => intro m it; simp [after]
  | succ k ih =>
    intro m it
    rw [show k + 1 + m = (k + m) + 1 by omega]
    simp only [after]
    cases h : step L it <;> simp [ih]

/-- the iterator yields exactly `xs` and then answers `done` -/
def Den (L : Option Nat) (it : It) (xs : List Item) : Prop :=
  ∃ n, after L n it = none ∧ outs L n it = xs

theorem den_arr (L : Option Nat) (vs : List V) : Den L (.arr vs) (vs.map Item.val) := by
  induction vs with
  | nil => exact ⟨1, by simp [after, step], by simp [outs, step]⟩
  | cons v vs ih =>
    obtain ⟨n, h1, h2⟩ := ih
    exact ⟨n + 1, by simp [after, step, h1], by simp [outs, step, h2]⟩

theorem den_map {L it xs} (f : F) (h : Den L it xs) : Den L (.map it f) (xs.map (mapItem f)) := by
  obtain ⟨n, h1, h2⟩ := h
  exact ⟨n, by simp [after_map, h1], by simp [outs_map, h2]⟩

theorem den_filter {L it xs} (p : P) (perm : Permits) (h : Den L it xs) (hc : perm.covers xs.length) :
    Den L (.filter it p perm) (xs.filterMap (filt p)) := by
  obtain ⟨n, h1, h2⟩ := h
  have hc' : perm.covers (outs L n it).length := by rw [h2]; exact hc
  obtain ⟨q, hq⟩ := after_filter L p n it perm hc'
  exact ⟨n, by simp [hq, h1], by rw [outs_filter L p n it perm hc', h2]⟩

theorem den_budget {L it xs} (perm : Permits) (h : Den L it xs) (hc : perm.covers xs.length) :
    Den L (.budget it perm) xs := by
  obtain ⟨n, h1, h2⟩ := h
  have hc' : perm.covers (outs L n it).length := by rw [h2]; exact hc
  refine ⟨n, ?_, by rw [outs_budget L n it perm hc', h2]⟩
  have := after_budget L n it perm hc'
  rw [h1] at this
  simpa using this

theorem step_chain (L : Option Nat) (cur : It) (rest : List G) : step L (.chain cur rest) =
    match step L cur with
    | .yield x s => .yield x (.chain s rest)
    | .skip s => .skip (.chain s rest)
    | .done =>
      match rest with
      | [] => .done
      | g :: r => .skip (.chain (g.start L) r) := by
  cases rest <;> rw [step] <;> cases step L cur <;> rfl

/-- every part denotes a finite list; the whole is their concatenation -/
inductive DenParts (L : Option Nat) : List G → List Item → Prop
  | nil : DenParts L [] []
  | cons {g r ys zs} : Den L (g.start L) ys → DenParts L r zs → DenParts L (g :: r) (ys ++ zs)

/-- while the current part runs, the chain is that part -/
theorem chain_running (L : Option Nat) (rest : List G) : ∀ k cur c,
    after L k cur = some c →
      after L k (.chain cur rest) = some (.chain c rest) ∧ outs L k (.chain cur rest) = outs L k cur := by
  intro k
  induction k with
  | zero => intro cur c h; simp [after] at h; subst h; simp [after, outs]
  | succ k ih =>
    intro cur c h
    simp only [after] at h
    simp only [after, outs]
    rw [step_chain]
    cases hs : step L cur with
    | done => simp [hs] at h
    | skip s => simp only [hs] at h; simpa using ih s c h
    | «yield» x s => simp only [hs] at h; simpa using ih s c h

theorem den_chain_cons {L cur g r xs ys} (h1 : Den L cur xs) (h2 : Den L (.chain (g.start L) r) ys) :
    Den L (.chain cur (g :: r)) (xs ++ ys) := by
  obtain ⟨n, hn, hx⟩ := h1
  obtain ⟨m, hm, hy⟩ := h2
  -- find the step at which `cur` answers done
  have key : ∀ n cur xs, after L n cur = none → outs L n cur = xs →
      ∃ k, after L k (.chain cur (g :: r)) = some (.chain (g.start L) r) ∧ outs L k (.chain cur (g :: r)) = xs := by
    intro n
    induction n with
    | zero => intro cur xs h; simp [after] at h
    | succ n ih =>
      intro cur xs h ho
      simp only [after] at h
      simp only [outs] at ho
      cases hs : step L cur with
      | done =>
        simp only [hs] at ho
        refine ⟨1, ?_, ?_⟩
        · simp only [after]; rw [step_chain]; simp [hs]
        · simp only [outs]; rw [step_chain]; simp [hs, ← ho]
      | skip s =>
        simp only [hs] at h ho
        obtain ⟨k, hk1, hk2⟩ := ih s xs h ho
        refine ⟨k + 1, ?_, ?_⟩
        · simp only [after]; rw [step_chain]; simp [hs, hk1]
        · simp only [outs]; rw [step_chain]; simp [hs, hk2]
      | «yield» x s =>
        simp only [hs] at h ho
        cases xs with
        | nil => simp at ho
        | cons x' xs' =>
          simp only [List.cons.injEq] at ho
          obtain ⟨k, hk1, hk2⟩ := ih s xs' h ho.2
          refine ⟨k + 1, ?_, ?_⟩
          · simp only [after]; rw [step_chain]; simp [hs, hk1]
          · simp only [outs]; rw [step_chain]; simp [hs, hk2, ho.1]
  obtain ⟨k, hk1, hk2⟩ := key n cur xs hn hx
  refine ⟨k + m, ?_, ?_⟩
  · rw [after_add, hk1]; simpa using hm
  · rw [outs_add, hk1, hk2]; simp [hy]

theorem den_chain_nil {L cur xs} (h1 : Den L cur xs) : Den L (.chain cur []) xs := by
  obtain ⟨n, hn, hx⟩ := h1
  have key : ∀ n cur xs, after L n cur = none → outs L n cur = xs →
      after L n (.chain cur []) = none ∧ outs L n (.chain cur []) = xs := by
    intro n
    induction n with
    | zero => intro cur xs h; simp [after] at h
    | succ n ih =>
      intro cur xs h ho
      simp only [after] at h
      simp only [outs] at ho
      simp only [after, outs]
      rw [step_chain]
      cases hs : step L cur with
      | done => simp only [hs] at ho; simp [← ho]
      | skip s => simp only [hs] at h ho; simpa using ih s xs h ho
      | «yield» x s =>
        simp only [hs] at h ho
        cases xs with
        | nil => simp at ho
        | cons x' xs' =>
          simp only [List.cons.injEq] at ho
          obtain ⟨a, b⟩ := ih s xs' h ho.2
          simp [a, b, ho.1]
  exact ⟨n, key n cur xs hn hx⟩

/-- a chain whose parts denote lists denotes their concatenation -/
theorem den_chain_parts (L : Option Nat) : ∀ (parts : List G) (zs : List Item) (cur : It) (xs : List Item),
    Den L cur xs → DenParts L parts zs → Den L (.chain cur parts) (xs ++ zs) := by
  intro parts
  induction parts with
  | nil => intro zs cur xs h hp; cases hp; simpa using den_chain_nil h
  | cons g r ih =>
    intro zs cur xs h hp
    cases hp with
    | cons hg hr =>
      rename_i ys zs'
      have := ih zs' (g.start L) ys hg hr
      exact den_chain_cons h this

/-! ### consumers -/

theorem drain_den (L : Option Nat) : ∀ n it (vs acc : List V),
    after L n it = none → outs L n it = vs.map Item.val →
      drain L n it acc = .ok (acc.reverse ++ vs) := by
  intro n
  induction n with
  | zero => intro it vs acc h; simp [after] at h
  | succ n ih =>
    intro it vs acc h ho
    simp only [after] at h
    simp only [outs] at ho
    simp only [drain]
    cases hs : step L it with
    | done =>
      simp only [hs] at ho
      cases vs with
      | nil => simp
      | cons v vs => simp at ho
    | skip s => simp only [hs] at h ho; simpa using ih s vs acc h ho
    | «yield» x s =>
      simp only [hs] at h ho
      cases vs with
      | nil => simp at ho
      | cons v vs =>
        simp only [List.map_cons, List.cons.injEq] at ho
        obtain ⟨hx, ho⟩ := ho
        subst hx
        simpa using ih s vs (v :: acc) h ho

/-! ### construction: slice merging, chain splicing -/

theorem noViol_takeOpt_drop {xs : List Item} (t : Option Nat) (k : Nat) (h : noViol xs) :
    noViol (takeOpt t (xs.drop k)) := by
  intro x hx
  apply h x
  cases t with
  | none => exact List.mem_of_mem_drop (by simpa [takeOpt] using hx)
  | some t => exact List.mem_of_mem_drop (List.mem_of_mem_take (by simpa [takeOpt] using hx))

/-- the end of two merged slices (`generators.rs:505-509`) -/
def mergeEnd (iend : Option Nat) (end_ : Option Nat) (istart : Nat) : Option Nat :=
  match iend, end_.map (· + istart) with
  | none, none => none
  | some a, none => some a
  | none, some b => some b
  | some a, some b => some (min a b)

theorem slice_slice_list (xs : List Item) (a c : Nat) (b d : Option Nat) :
    takeOpt (d.map (· - c)) ((takeOpt (b.map (· - a)) (xs.drop a)).drop c) =
    takeOpt ((mergeEnd b d a).map (· - (a + c))) (xs.drop (a + c)) := by
  unfold mergeEnd
  cases b <;> cases d <;> simp [takeOpt, List.drop_take, List.take_take, List.drop_drop, Nat.add_comm] <;> omega

/-- a (single, unmerged) slice of any generator: drop `a`, then at most `b - a` -/
theorem outs_start_slice (L : Option Nat) (n : Nat) (g : G) (a : Nat) (b : Option Nat)
    (hc : (Permits.ofLimit L).covers a) (hv : noViol (outs L n (g.start L))) :
    outs L n ((G.slice g a b).start L) = takeOpt (b.map (· - a)) ((outs L n (g.start L)).drop a) := by
  rw [G.start, outs_slice L n _ a _ _ hc, sliceItems_noViol _ _ _ hv]

theorem mkSlice_slice (inner : G) (a : Nat) (b : Option Nat) (c : Nat) (d : Option Nat)
    (h : ¬ (c = 0 ∧ d = none)) :
    G.mkSlice (.slice inner a b) c d = .slice inner (a + c) (mergeEnd b d a) := by
  unfold G.mkSlice mergeEnd
  have : (c == 0 && d.isNone) = false := by
    cases d <;> simp_all
  simp only [this]
  cases b <;> cases d <;> simp

/-- the parts a generator contributes to a chain -/
def G.parts : G → List G
  | .chain ps => ps
  | g => [g]

theorem mkChain_parts (a b : G) : a.mkChain b = .chain (a.parts ++ b.parts) := by
  cases a <;> cases b <;> rfl

theorem denParts_append {L p0 p1 xs ys} (h0 : DenParts L p0 xs) (h1 : DenParts L p1 ys) :
    DenParts L (p0 ++ p1) (xs ++ ys) := by
  induction h0 with
  | nil => simpa using h1
  | cons hg _ ih => simpa [List.append_assoc] using DenParts.cons hg ih

theorem den_arr_nil (L : Option Nat) : Den L (.arr []) [] := by
  simpa using den_arr L []


/-! ### with_count, windows, repeat -/

/-- `with_count` on a list of items -/
def wcItems (eq : V → V → Bool) : List (V × Nat) → List Item → List Item
  | _, [] => []
  | seen, x :: xs =>
    match x with
    | .viol => .viol :: wcItems eq seen xs
    | .err => .err :: wcItems eq seen xs
    | .val v => .val (.tup [v, .int (bump eq v seen).1]) :: wcItems eq (bump eq v seen).2 xs

theorem outs_withCount (L : Option Nat) (eq : V → V → Bool) :
    ∀ n it seen, outs L n (.withCount it eq seen) = wcItems eq seen (outs L n it) := by
  intro n
  induction n with
  | zero => intro it seen; simp [outs, wcItems]
  | succ n ih =>
    intro it seen
    simp only [outs]
    rw [step]
    cases h : step L it with
    | done => simp [wcItems]
    | skip s => simp [ih]
    | «yield» x s => cases x <;> simp [wcItems, ih]

/-- sliding windows of width `size` over a list of items, `mem` being the elements already held -/
def winItems (size : Nat) : List V → List Item → List Item
  | _, [] => []
  | mem, x :: xs =>
    match x with
    | .val v =>
      if (mem ++ [v]).length == size then .val (.seq (mem ++ [v])) :: winItems size (mem ++ [v]).tail xs
      else winItems size (mem ++ [v]) xs
    | x => x :: winItems size mem xs

theorem outs_windows (L : Option Nat) (size : Nat) :
    ∀ n it mem perm, Permits.covers perm (outs L n it).length →
      outs L n (.windows it size mem perm) = winItems size mem (outs L n it) := by
  intro n
  induction n with
  | zero => intro it mem perm _; simp [outs, winItems]
  | succ n ih =>
    intro it mem perm hc
    simp only [outs] at hc ⊢
    rw [step]
    cases h : step L it with
    | done => simp [winItems]
    | skip s => simp only [h] at hc; simp [ih s mem perm hc]
    | «yield» x s =>
      simp only [h, List.length_cons] at hc
      obtain ⟨perm', hn, hc'⟩ := covers_next_ok hc
      simp only [hn]
      cases x with
      | viol => simp [winItems, ih s mem perm' hc']
      | err => simp [winItems, ih s mem perm' hc']
      | val v =>
        simp only [winItems]
        by_cases hl : ((mem ++ [v]).length == size) = true
        · simp only [hl, ↓reduceIte, ih s _ perm' hc']
        · simp only [hl, Bool.false_eq_true, ↓reduceIte, ih s _ perm' hc']

/-- one pass of `repeat`: while the pass runs the repetition is the pass; when the pass ends after having
yielded something, the next pass starts from the generator value again -/
theorem repeat_pass (L : Option Nat) (g : G) : ∀ n cur fresh xs,
    after L n cur = none → outs L n cur = xs →
      ∃ k, outs L k (.repeat_ g cur fresh) = xs ∧
        after L k (.repeat_ g cur fresh) =
          (if fresh && xs.isEmpty then none else some (.repeat_ g (g.start L) true)) := by
  intro n
  induction n with
  | zero => intro cur fresh xs h; simp [after] at h
  | succ n ih =>
    intro cur fresh xs h ho
    simp only [after] at h
    simp only [outs] at ho
    cases hs : step L cur with
    | done =>
      simp only [hs] at ho
      subst ho
      refine ⟨1, ?_, ?_⟩
      · simp only [outs]; rw [step]; simp only [hs]; cases fresh <;> simp [outs]
      · simp only [after]; rw [step]; simp only [hs]; cases fresh <;> simp [after]
    | skip s =>
      simp only [hs] at h ho
      obtain ⟨k, hk1, hk2⟩ := ih s fresh xs h ho
      refine ⟨k + 1, ?_, ?_⟩
      · simp only [outs]; rw [step]; simp [hs, hk1]
      · simp only [after]; rw [step]; simp [hs, hk2]
    | «yield» x s =>
      simp only [hs] at h ho
      cases xs with
      | nil => simp at ho
      | cons x' xs' =>
        simp only [List.cons.injEq] at ho
        obtain ⟨k, hk1, hk2⟩ := ih s false xs' h ho.2
        refine ⟨k + 1, ?_, ?_⟩
        · simp only [outs]; rw [step]; simp [hs, hk1, ho.1]
        · simp only [after]; rw [step]; simp [hs, hk2]

/-- the repetition of a generator that denotes a non-empty finite list yields that list again and again:
every pass sees the same elements -/
theorem repeat_cycles (L : Option Nat) (g : G) (xs : List Item) (h : Den L (g.start L) xs) (hne : xs ≠ []) :
    ∀ m, ∃ k, outs L k (.repeat_ g (g.start L) true) = (List.replicate m xs).flatten ∧
      after L k (.repeat_ g (g.start L) true) = some (.repeat_ g (g.start L) true) := by
  obtain ⟨n, hn, hx⟩ := h
  intro m
  induction m with
  | zero => exact ⟨0, by simp [outs], by simp [after]⟩
  | succ m ih =>
    obtain ⟨k, hk1, hk2⟩ := ih
    obtain ⟨j, hj1, hj2⟩ := repeat_pass L g n (g.start L) true xs hn hx
    have hemp : xs.isEmpty = false := by cases xs <;> simp_all
    simp only [hemp, Bool.and_false, Bool.false_eq_true, ↓reduceIte] at hj2
    refine ⟨k + j, ?_, ?_⟩
    · rw [outs_add, hk1, hk2]; simp only [hj1, List.replicate_succ']; simp
    · rw [after_add, hk2]; simpa using hj2

/-- the repetition of an empty generator is empty (it used to spin: 44f5035) -/
theorem repeat_empty (L : Option Nat) (g : G) (h : Den L (g.start L) []) :
    Den L (.repeat_ g (g.start L) true) [] := by
  obtain ⟨n, hn, hx⟩ := h
  obtain ⟨k, hk1, hk2⟩ := repeat_pass L g n (g.start L) true [] hn hx
  exact ⟨k, by simpa using hk2, hk1⟩


/-! ### zip: one round -/

/-- `j` consecutive skips lead from `it` to `it'` -/
def skipsTo (L : Option Nat) : Nat → It → It → Prop
  | 0, it, it' => it = it'
  | n + 1, it, it' => ∃ s, step L it = .skip s ∧ skipsTo L n s it'

/-- an adaptor that passes the skips of its source on runs in lock-step through them -/
theorem run_congr (L : Option Nat) (C : It → It)
    (hC : ∀ it s, step L it = .skip s → step L (C it) = .skip (C s)) :
    ∀ j it it', skipsTo L j it it' → ∀ F,
      outs L (j + F) (C it) = outs L F (C it') ∧ after L (j + F) (C it) = after L F (C it') := by
  intro j
  induction j with
  | zero => intro it it' h F; simp only [skipsTo] at h; subst h; simp
  | succ j ih =>
    intro it it' h F
    obtain ⟨s, hs, hr⟩ := h
    rw [show j + 1 + F = (j + F) + 1 by omega]
    simp only [outs, after, hC it s hs]
    exact ih s it' hr F

/-- the element a round of a two-part zip yields -/
def pairItem : Item → Item → Item
  | .val a, .val b => .val (.tup [a, b])
  | _, _ => .err

theorem step_zip_skip (L : Option Nat) (rest pulled : List It) (acc : List V) (bad : Bool) (it s : It)
    (hs : step L it = .skip s) :
    step L (.zip (it :: rest) pulled acc bad) = .skip (.zip (s :: rest) pulled acc bad) := by
  rw [step]; simp [hs]

/-- one round of `zip(a, b)`: whatever the two parts yield next — values or error values — the round takes
exactly one element from each and yields the pair (or the error): the parts stay aligned (182c226) -/
theorem zip_round (L : Option Nat) (a a1 a' b b1 b' : It) (ja jb : Nat) (x y : Item)
    (ha : skipsTo L ja a a1) (hxa : step L a1 = .yield x a') (hx : x ≠ .viol)
    (hb : skipsTo L jb b b1) (hyb : step L b1 = .yield y b') (hy : y ≠ .viol) :
    outs L (ja + (1 + (jb + 1))) (.zip [a, b] [] [] false) = [pairItem x y] ∧
    after L (ja + (1 + (jb + 1))) (.zip [a, b] [] [] false) = some (.zip [a', b'] [] [] false) := by
  have h1 := run_congr L (fun c => It.zip (c :: [b]) [] [] false)
    (fun it s hs => step_zip_skip L [b] [] [] false it s hs) ja a a1 ha (1 + (jb + 1))
  rw [h1.1, h1.2]
  have hstep1 : ∃ acc' bad', step L (.zip [a1, b] [] [] false) = .skip (.zip [b] [a'] acc' bad') ∧
      ((∃ v, x = .val v ∧ acc' = [v] ∧ bad' = false) ∨ (x = .err ∧ acc' = [] ∧ bad' = true)) := by
    rw [step]; simp only [hxa]
    cases x with
    | viol => exact absurd rfl hx
    | err => exact ⟨[], true, rfl, Or.inr ⟨rfl, rfl, rfl⟩⟩
    | val v => exact ⟨[v], false, rfl, Or.inl ⟨v, rfl, rfl, rfl⟩⟩
  obtain ⟨acc', bad', hs1, hcase⟩ := hstep1
  rw [show 1 + (jb + 1) = (jb + 1) + 1 by omega]
  have e1 : outs L ((jb + 1) + 1) (.zip [a1, b] [] [] false) = outs L (jb + 1) (.zip [b] [a'] acc' bad') := by
    rw [outs, hs1]
  have e2 : after L ((jb + 1) + 1) (.zip [a1, b] [] [] false) = after L (jb + 1) (.zip [b] [a'] acc' bad') := by
    rw [after, hs1]
  rw [e1, e2]
  have h2 := run_congr L (fun c => It.zip [c] [a'] acc' bad')
    (fun it s hs => step_zip_skip L [] [a'] acc' bad' it s hs) jb b b1 hb 1
  rw [h2.1, h2.2]
  have hstep2 : step L (.zip [b1] [a'] acc' bad') = .yield (pairItem x y) (.zip [a', b'] [] [] false) := by
    rw [step]; simp only [hyb]
    rcases hcase with ⟨v, rfl, rfl, rfl⟩ | ⟨rfl, rfl, rfl⟩
    · cases y with
      | viol => exact absurd rfl hy
      | err => simp [pairItem]
      | val w => simp [pairItem]
    · cases y with
      | viol => exact absurd rfl hy
      | err => simp [pairItem]
      | val w => simp [pairItem]
  simp [outs, after, hstep2]

/-- a round ends the zip as soon as a part has ended, without pulling the parts behind it -/
theorem zip_ends_first (L : Option Nat) (a a1 b : It) (ja : Nat)
    (ha : skipsTo L ja a a1) (hda : step L a1 = .done) :
    outs L (ja + 1) (.zip [a, b] [] [] false) = [] ∧ after L (ja + 1) (.zip [a, b] [] [] false) = none := by
  have h1 := run_congr L (fun c => It.zip (c :: [b]) [] [] false)
    (fun it s hs => step_zip_skip L [b] [] [] false it s hs) ja a a1 ha 1
  rw [h1.1, h1.2]
  have : step L (.zip [a1, b] [] [] false) = .done := by rw [step]; simp [hda]
  simp [outs, after, this]


/-! ### group -/

/-- `group` on a list of items: what is yielded while the source runs, and the group still open at its end -/
def grpRun (eq : P2) : List V → List Item → List Item × List V
  | cur, [] => ([], cur)
  | cur, x :: xs =>
    match x with
    | .val v =>
      match cur with
      | [] => grpRun eq [v] xs
      | k :: ks =>
        match eq (.val k) (.val v) with
        | .t => grpRun eq (k :: ks ++ [v]) xs
        | .f => (.val (.seq (k :: ks)) :: (grpRun eq [v] xs).1, (grpRun eq [v] xs).2)
        | .err => (.err :: (grpRun eq (k :: ks) xs).1, (grpRun eq (k :: ks) xs).2)
        | .viol => (.viol :: (grpRun eq (k :: ks) xs).1, (grpRun eq (k :: ks) xs).2)
    | .err => (.err :: (grpRun eq cur xs).1, (grpRun eq cur xs).2)
    | .viol => (.viol :: (grpRun eq cur xs).1, (grpRun eq cur xs).2)

/-- the last group is flushed when the source ends -/
def flushGroup : List V → List Item
  | [] => []
  | c => [.val (.seq c)]

theorem den_group (L : Option Nat) (eq : P2) : ∀ n it cur perm xs,
    after L n it = none → outs L n it = xs → Permits.covers perm (xs.length + 1) →
      Den L (.group it eq cur perm false) ((grpRun eq cur xs).1 ++ flushGroup (grpRun eq cur xs).2) := by
  intro n
  induction n with
  | zero => intro it cur perm xs h; simp [after] at h
  | succ n ih =>
    intro it cur perm xs h ho hc
    simp only [after] at h
    simp only [outs] at ho
    cases hs : step L it with
    | done =>
      simp only [hs] at ho
      subst ho
      obtain ⟨perm', hn, _⟩ := covers_next_ok (m := 0) (by simpa using hc)
      cases cur with
      | nil =>
        refine ⟨1, ?_, ?_⟩
        · simp only [after]; rw [step]; simp [hs, hn]
        · simp only [outs]; rw [step]; simp [hs, hn, grpRun, flushGroup]
      | cons c cs =>
        refine ⟨2, ?_, ?_⟩
        · simp only [after]; rw [step]; simp only [hs, hn, Bool.false_eq_true, ↓reduceIte]; rw [step]; simp
        · simp only [outs]; rw [step]; simp only [hs, hn, Bool.false_eq_true, ↓reduceIte]; rw [step]
          simp [grpRun, flushGroup]
    | skip s =>
      simp only [hs] at h ho
      obtain ⟨m, hm1, hm2⟩ := ih s cur perm xs h ho hc
      refine ⟨m + 1, ?_, ?_⟩
      · simp only [after]; rw [step]; simp [hs, hm1]
      · simp only [outs]; rw [step]; simp [hs, hm2]
    | «yield» x s =>
      simp only [hs] at h ho
      cases xs with
      | nil => simp at ho
      | cons x' xs' =>
        simp only [List.cons.injEq] at ho
        obtain ⟨hx, ho⟩ := ho
        subst hx
        simp only [List.length_cons] at hc
        obtain ⟨perm', hn, hc'⟩ := covers_next_ok hc
        cases x with
        | viol =>
          obtain ⟨m, hm1, hm2⟩ := ih s cur perm' xs' h ho hc'
          refine ⟨m + 1, ?_, ?_⟩
          · simp only [after]; rw [step]; simp [hs, hn, hm1]
          · simp only [outs]; rw [step]; simp [hs, hn, hm2, grpRun]
        | err =>
          obtain ⟨m, hm1, hm2⟩ := ih s cur perm' xs' h ho hc'
          refine ⟨m + 1, ?_, ?_⟩
          · simp only [after]; rw [step]; simp [hs, hn, hm1]
          · simp only [outs]; rw [step]; simp [hs, hn, hm2, grpRun]
        | val v =>
          cases cur with
          | nil =>
            obtain ⟨m, hm1, hm2⟩ := ih s [v] perm' xs' h ho hc'
            refine ⟨m + 1, ?_, ?_⟩
            · simp only [after]; rw [step]; simp [hs, hn, hm1]
            · simp only [outs]; rw [step]; simp [hs, hn, hm2, grpRun]
          | cons k ks =>
            cases he : eq (.val k) (.val v) with
            | t =>
              obtain ⟨m, hm1, hm2⟩ := ih s (k :: ks ++ [v]) perm' xs' h ho hc'
              simp only [List.cons_append] at hm1 hm2
              refine ⟨m + 1, ?_, ?_⟩
              · simp only [after]; rw [step]; simp [hs, hn, he, hm1]
              · simp only [outs]; rw [step]; simp [hs, hn, he, hm2, grpRun]
            | f =>
              obtain ⟨m, hm1, hm2⟩ := ih s [v] perm' xs' h ho hc'
              refine ⟨m + 1, ?_, ?_⟩
              · simp only [after]; rw [step]; simp [hs, hn, he, hm1]
              · simp only [outs]; rw [step]; simp [hs, hn, he, hm2, grpRun]
            | err =>
              obtain ⟨m, hm1, hm2⟩ := ih s (k :: ks) perm' xs' h ho hc'
              refine ⟨m + 1, ?_, ?_⟩
              · simp only [after]; rw [step]; simp [hs, hn, he, hm1]
              · simp only [outs]; rw [step]; simp [hs, hn, he, hm2, grpRun]
            | viol =>
              obtain ⟨m, hm1, hm2⟩ := ih s (k :: ks) perm' xs' h ho hc'
              refine ⟨m + 1, ?_, ?_⟩
              · simp only [after]; rw [step]; simp [hs, hn, he, hm1]
              · simp only [outs]; rw [step]; simp [hs, hn, he, hm2, grpRun]

end XrayModel.Gen
