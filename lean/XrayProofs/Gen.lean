/- helper definitions and lemmas about the generator step machine (C16, C10) -/
import XrayModel.Gen
namespace XrayModel.Gen

/-! ### the list-level meaning of the adaptors (on items: values, error values, violations) -/

/-- `map`: a violation passes, everything else (also an error value) goes through the function -/
def mapItem (f : F) : Item → Item
  | .viol => .viol
  | x => f x

/-- what `filter` does with one element: `none` = rejected -/
def filt (p : P) : Item → Option Item
  | .viol => some .viol
  | x => match p x with
    | .viol => some .viol
    | .err => some .err
    | .t => some x
    | .f => none

/-- `take_while` on a list of items -/
def twItems (p : P) : List Item → List Item
  | [] => []
  | x :: xs =>
    match x with
    | .viol => .viol :: twItems p xs
    | x => match p x with
      | .viol => .viol :: twItems p xs
      | .err => .err :: twItems p xs
      | .t => x :: twItems p xs
      | .f => []

/-- `skip_until` on a list of items -/
def suItems (p : P) : List Item → List Item
  | [] => []
  | x :: xs =>
    match x with
    | .viol => .viol :: suItems p xs
    | x => match p x with
      | .viol => .viol :: suItems p xs
      | .err => .err :: suItems p xs
      | .t => x :: xs
      | .f => suItems p xs

/-- `Slice(start, end)` on a list of items: discard `k` (a violation among them is not discarded),
then at most `t` -/
def sliceItems : Nat → Option Nat → List Item → List Item
  | _, some 0, _ => []
  | _, _, [] => []
  | 0, t, x :: xs => x :: sliceItems 0 (decTake t) xs
  | k + 1, t, x :: xs =>
    match x with
    | .viol => .viol :: sliceItems k (decTake t) xs
    | _ => sliceItems k t xs

/-- `aggregate` (a scan) on a list of items, after the initial state has been yielded -/
def scanItems (f : F2) : Item → List Item → List Item
  | _, [] => []
  | st, x :: xs =>
    match x with
    | .viol => .viol :: scanItems f st xs
    | x => match f st x with
      | .viol => .viol :: scanItems f st xs
      | r => r :: scanItems f r xs

def takeOpt {α : Type} : Option Nat → List α → List α
  | none, xs => xs
  | some n, xs => xs.take n

/-- enough permits for `m` elements -/
def Permits.covers : Permits → Nat → Prop
  | .unlimited, _ => True
  | .left k, m => m ≤ k
  | .dead, m => m = 0

/-- state after `n` steps (`none`: the iterator has answered `done`) -/
def after (L : Option Nat) : Nat → It → Option It
  | 0, it => some it
  | n + 1, it =>
    match step L it with
    | .done => none
    | .skip s => after L n s
    | .yield _ s => after L n s

def noViol (xs : List Item) : Prop := ∀ x ∈ xs, x ≠ Item.viol

/-! ### one step of an adaptor is one step of its source -/

theorem step_map (L it f) : step L (.map it f) =
    match step L it with
    | .done => .done
    | .skip s => .skip (.map s f)
    | .yield x s => .yield (mapItem f x) (.map s f) := by
  rw [step]
  cases step L it <;> simp [mapItem]
  rename_i x s
  cases x <;> rfl

theorem outs_map (L : Option Nat) (f : F) :
    ∀ n it, outs L n (.map it f) = (outs L n it).map (mapItem f) := by
  intro n
  induction n with
  | zero => intro it; rfl
  | succ n ih =>
    intro it
    simp only [outs, step_map]
    cases h : step L it <;> simp [ih]

theorem after_map (L : Option Nat) (f : F) :
    ∀ n it, after L n (.map it f) = (after L n it).map (fun s => .map s f) := by
  intro n
  induction n with
  | zero => intro it; rfl
  | succ n ih =>
    intro it
    simp only [after, step_map]
    cases h : step L it <;> simp [ih]

theorem ended_map (L : Option Nat) (f : F) :
    ∀ n it, ended L n (.map it f) = ended L n it := by
  intro n
  induction n with
  | zero => intro it; rfl
  | succ n ih =>
    intro it
    simp only [ended, step_map]
    cases h : step L it <;> simp [ih]

theorem covers_next_ok {perm : Permits} {m : Nat} (h : perm.covers (m + 1)) :
    ∃ perm', perm.next = (.ok, perm') ∧ perm'.covers m := by
  cases perm with
  | unlimited => exact ⟨.unlimited, rfl, trivial⟩
  | left k =>
    cases k with
    | zero => simp [Permits.covers] at h
    | succ k => exact ⟨.left k, rfl, by simp [Permits.covers] at h ⊢; omega⟩
  | dead => simp [Permits.covers] at h

theorem covers_mono {perm : Permits} {m m' : Nat} (h : perm.covers m) (hm : m' ≤ m) : perm.covers m' := by
  cases perm <;> simp [Permits.covers] at h ⊢ <;> omega

theorem outs_length_le (L : Option Nat) : ∀ n it, (outs L n it).length ≤ n := by
  intro n
  induction n with
  | zero => intro it; simp [outs]
  | succ n ih =>
    intro it
    simp only [outs]
    cases h : step L it <;> simp
    · have := ih ‹It›; omega
    · have := ih ‹It›; omega

/-- `filter` with enough permits for the elements its source yields -/
theorem outs_filter (L : Option Nat) (p : P) :
    ∀ n it perm, perm.covers (outs L n it).length →
      outs L n (.filter it p perm) = (outs L n it).filterMap (filt p) := by
  intro n
  induction n with
  | zero => intro it perm _; rfl
  | succ n ih =>
    intro it perm hc
    simp only [outs] at hc ⊢
    rw [step]
    cases h : step L it with
    | done => simp
    | skip s => simp only [h] at hc; simp [ih s perm hc]
    | «yield» x s =>
      simp only [h, List.length_cons] at hc
      obtain ⟨perm', hn, hc'⟩ := covers_next_ok hc
      simp only [hn]
      cases x with
      | viol => simp [filt, ih s perm' hc']
      | err =>
        simp only [List.filterMap_cons, filt]
        cases p .err <;> simp [ih s perm' hc']
      | val v =>
        simp only [List.filterMap_cons, filt]
        cases p (.val v) <;> simp [ih s perm' hc']

theorem after_filter (L : Option Nat) (p : P) :
    ∀ n it perm, perm.covers (outs L n it).length →
      ∃ perm', after L n (.filter it p perm) = (after L n it).map (fun s => .filter s p perm') := by
  intro n
  induction n with
  | zero => intro it perm _; exact ⟨perm, rfl⟩
  | succ n ih =>
    intro it perm hc
    simp only [outs] at hc
    simp only [after]
    rw [step]
    cases h : step L it with
    | done => exact ⟨perm, by simp⟩
    | skip s => simp only [h] at hc; simpa using ih s perm hc
    | «yield» x s =>
      simp only [h, List.length_cons] at hc
      obtain ⟨perm', hn, hc'⟩ := covers_next_ok hc
      simp only [hn]
      obtain ⟨q, hq⟩ := ih s perm' hc'
      refine ⟨q, ?_⟩
      cases x with
      | viol => simpa using hq
      | err => dsimp only; generalize p Item.err = r; cases r <;> simpa using hq
      | val v => dsimp only; generalize p (Item.val v) = r; cases r <;> simpa using hq

theorem outs_takeWhile (L : Option Nat) (p : P) :
    ∀ n it, outs L n (.takeWhile it p) = twItems p (outs L n it) := by
  intro n
  induction n with
  | zero => intro it; rfl
  | succ n ih =>
    intro it
    simp only [outs]
    rw [step]
    cases h : step L it with
    | done => simp [twItems]
    | skip s => simp [ih]
    | «yield» x s =>
      cases x with
      | viol => simp [twItems, ih]
      | err => simp only [twItems]; cases p .err <;> simp [ih]
      | val v => simp only [twItems]; cases p (.val v) <;> simp [ih]

theorem outs_skipUntil_found (L : Option Nat) (p : P) (perm : Permits) :
    ∀ n it, outs L n (.skipUntil it p true perm) = outs L n it := by
  intro n
  induction n with
  | zero => intro it; rfl
  | succ n ih =>
    intro it
    simp only [outs]
    rw [step]
    cases h : step L it <;> simp [ih]

theorem outs_skipUntil (L : Option Nat) (p : P) :
    ∀ n it perm, perm.covers (outs L n it).length →
      outs L n (.skipUntil it p false perm) = suItems p (outs L n it) := by
  intro n
  induction n with
  | zero => intro it perm _; rfl
  | succ n ih =>
    intro it perm hc
    simp only [outs] at hc ⊢
    rw [step]
    cases h : step L it with
    | done => simp [suItems]
    | skip s => simp only [h] at hc; simp [ih s perm hc]
    | «yield» x s =>
      simp only [h, List.length_cons] at hc
      obtain ⟨perm', hn, hc'⟩ := covers_next_ok hc
      simp only [hn, Bool.false_eq_true, ↓reduceIte]
      cases x with
      | viol => simp [suItems, ih s perm' hc']
      | err => simp only [suItems]; cases p .err <;> simp [ih s perm' hc', outs_skipUntil_found]
      | val v => simp only [suItems]; cases p (.val v) <;> simp [ih s perm' hc', outs_skipUntil_found]

/-! ### slices -/

theorem sliceItems_nil (k : Nat) (t : Option Nat) : sliceItems k t [] = [] := by
  cases t with
  | none => cases k <;> rfl
  | some t => cases t <;> cases k <;> rfl

theorem outs_slice (L : Option Nat) :
    ∀ n it k perm t, Permits.covers perm k →
      outs L n (.slice it k perm t) = sliceItems k t (outs L n it) := by
  intro n
  induction n with
  | zero => intro it k perm t _; simp [outs, sliceItems_nil]
  | succ n ih =>
    intro it k perm t hc
    simp only [outs]
    by_cases ht : t = some 0
    · subst ht; rw [step]; simp [sliceItems]
    · rw [step]
      rotate_left
      · intro h; exact ht h
      have hsl : ∀ (k : Nat) (x : Item) (xs : List Item), sliceItems k t (x :: xs) =
          (match k with
           | 0 => x :: sliceItems 0 (decTake t) xs
           | k + 1 => match x with
             | .viol => .viol :: sliceItems k (decTake t) xs
             | _ => sliceItems k t xs) := by
        intro k x xs
        cases t with
        | none => cases k <;> rfl
        | some t =>
          cases t with
          | zero => exact absurd rfl ht
          | succ t => cases k <;> rfl
      cases h : step L it with
      | done => simp [sliceItems_nil]
      | skip s => simp [ih s k perm t hc]
      | «yield» x s =>
        rw [hsl]
        cases k with
        | zero => simp [ih s 0 perm (decTake t) hc]
        | succ k =>
          obtain ⟨perm', hn, hc'⟩ := covers_next_ok hc
          simp only [hn]
          cases x <;> simp [ih s k perm' _ hc']

theorem sliceItems_noViol : ∀ (xs : List Item) (k : Nat) (t : Option Nat), noViol xs →
    sliceItems k t xs = takeOpt t (xs.drop k) := by
  intro xs
  induction xs with
  | nil => intro k t _; rw [sliceItems_nil]; cases t <;> simp [takeOpt]
  | cons x xs ih =>
    intro k t hv
    have hx : x ≠ .viol := hv x (by simp)
    have hxs : noViol xs := fun y hy => hv y (by simp [hy])
    cases t with
    | none =>
      cases k with
      | zero => simp [sliceItems, decTake, takeOpt]; simpa [takeOpt] using ih 0 none hxs
      | succ k => cases x <;> simp_all [sliceItems, takeOpt]
    | some t =>
      cases t with
      | zero => simp [sliceItems, takeOpt]
      | succ t =>
        cases k with
        | zero => simp [sliceItems, decTake, takeOpt]; simpa [takeOpt] using ih 0 (some t) hxs
        | succ k => cases x <;> simp_all [sliceItems, takeOpt]

/-! ### aggregate, budget -/

theorem outs_aggregate (L : Option Nat) (f : F2) :
    ∀ n it st, outs L n (.aggregate it st f false) = scanItems f st (outs L n it) := by
  intro n
  induction n with
  | zero => intro it st; simp [outs, scanItems]
  | succ n ih =>
    intro it st
    simp only [outs]
    rw [step]
    simp only [Bool.false_eq_true, ↓reduceIte]
    cases h : step L it with
    | done => simp [scanItems]
    | skip s => simp [ih]
    | «yield» x s =>
      cases x with
      | viol => simp [scanItems, ih]
      | err => simp only [scanItems]; generalize f st Item.err = r; cases r <;> simp [ih]
      | val v => simp only [scanItems]; generalize f st (Item.val v) = r; cases r <;> simp [ih]

theorem outs_aggregate_first (L : Option Nat) (f : F2) (n : Nat) (it : It) (st : Item) :
    outs L (n + 1) (.aggregate it st f true) = st :: scanItems f st (outs L n it) := by
  simp only [outs]
  rw [step]
  simp [outs_aggregate]

theorem outs_budget (L : Option Nat) :
    ∀ n it perm, Permits.covers perm (outs L n it).length →
      outs L n (.budget it perm) = outs L n it := by
  intro n
  induction n with
  | zero => intro it perm _; rfl
  | succ n ih =>
    intro it perm hc
    simp only [outs] at hc ⊢
    rw [step]
    cases h : step L it with
    | done => simp
    | skip s => simp only [h] at hc; simp [ih s perm hc]
    | «yield» x s =>
      simp only [h, List.length_cons] at hc
      obtain ⟨perm', hn, hc'⟩ := covers_next_ok hc
      simp [hn, ih s perm' hc']

theorem after_budget (L : Option Nat) :
    ∀ n it perm, Permits.covers perm (outs L n it).length →
      (after L n (.budget it perm)).isNone = (after L n it).isNone := by
  intro n
  induction n with
  | zero => intro it perm _; rfl
  | succ n ih =>
    intro it perm hc
    simp only [outs] at hc
    simp only [after]
    rw [step]
    cases h : step L it with
    | done => simp
    | skip s => simp only [h] at hc; simp [ih s perm hc]
    | «yield» x s =>
      simp only [h, List.length_cons] at hc
      obtain ⟨perm', hn, hc'⟩ := covers_next_ok hc
      simp [hn, ih s perm' hc']

/-! ### splitting a run, finite denotations, chains -/

theorem outs_add (L : Option Nat) : ∀ k m it,
    outs L (k + m) it = outs L k it ++ (match after L k it with | some s => outs L m s | none => []) := by
  intro k
  induction k with
  | zero => intro m it; simp [outs, after]
  | succ k ih =>
    intro m it
    rw [show k + 1 + m = (k + m) + 1 by omega]
    simp only [outs, after]
    cases h : step L it <;> simp [ih]

theorem after_add (L : Option Nat) : ∀ k m it,
    after L (k + m) it = (after L k it).bind (after L m) := by
  intro k
  induction k with
  | zero => intro m it; simp [after]
  | succ k ih =>
    intro m it
    rw [show k + 1 + m = (k + m) + 1 by omega]
    simp only [after]
    cases h : step L it <;> simp [ih]

/-- the iterator yields exactly `xs` and then answers `done` -/
def Den (L : Option Nat) (it : It) (xs : List Item) : Prop :=
  ∃ n, after L n it = none ∧ outs L n it = xs

theorem den_arr (L : Option Nat) (vs : List V) : Den L (.arr vs) (vs.map Item.val) := by
  induction vs with
  | nil => exact ⟨1, by simp [after, step], by simp [outs, step]⟩
  | cons v vs ih =>
    obtain ⟨n, h1, h2⟩ := ih
    exact ⟨n + 1, by simp [after, step, h1], by simp [outs, step, h2]⟩

theorem den_map {L it xs} (f : F) (h : Den L it xs) : Den L (.map it f) (xs.map (mapItem f)) := by
  obtain ⟨n, h1, h2⟩ := h
  exact ⟨n, by simp [after_map, h1], by simp [outs_map, h2]⟩

theorem den_filter {L it xs} (p : P) (perm : Permits) (h : Den L it xs) (hc : perm.covers xs.length) :
    Den L (.filter it p perm) (xs.filterMap (filt p)) := by
  obtain ⟨n, h1, h2⟩ := h
  have hc' : perm.covers (outs L n it).length := by rw [h2]; exact hc
  obtain ⟨q, hq⟩ := after_filter L p n it perm hc'
  exact ⟨n, by simp [hq, h1], by rw [outs_filter L p n it perm hc', h2]⟩

theorem den_budget {L it xs} (perm : Permits) (h : Den L it xs) (hc : perm.covers xs.length) :
    Den L (.budget it perm) xs := by
  obtain ⟨n, h1, h2⟩ := h
  have hc' : perm.covers (outs L n it).length := by rw [h2]; exact hc
  refine ⟨n, ?_, by rw [outs_budget L n it perm hc', h2]⟩
  have := after_budget L n it perm hc'
  rw [h1] at this
  simpa using this

theorem step_chain (L : Option Nat) (cur : It) (rest : List G) : step L (.chain cur rest) =
    match step L cur with
    | .yield x s => .yield x (.chain s rest)
    | .skip s => .skip (.chain s rest)
    | .done =>
      match rest with
      | [] => .done
      | g :: r => .skip (.chain (g.start L) r) := by
  cases rest <;> rw [step] <;> cases step L cur <;> rfl

/-- every part denotes a finite list; the whole is their concatenation -/
inductive DenParts (L : Option Nat) : List G → List Item → Prop
  | nil : DenParts L [] []
  | cons {g r ys zs} : Den L (g.start L) ys → DenParts L r zs → DenParts L (g :: r) (ys ++ zs)

/-- while the current part runs, the chain is that part -/
theorem chain_running (L : Option Nat) (rest : List G) : ∀ k cur c,
    after L k cur = some c →
      after L k (.chain cur rest) = some (.chain c rest) ∧ outs L k (.chain cur rest) = outs L k cur := by
  intro k
  induction k with
  | zero => intro cur c h; simp [after] at h; subst h; simp [after, outs]
  | succ k ih =>
    intro cur c h
    simp only [after] at h
    simp only [after, outs]
    rw [step_chain]
    cases hs : step L cur with
    | done => simp [hs] at h
    | skip s => simp only [hs] at h; simpa using ih s c h
    | «yield» x s => simp only [hs] at h; simpa using ih s c h

theorem den_chain_cons {L cur g r xs ys} (h1 : Den L cur xs) (h2 : Den L (.chain (g.start L) r) ys) :
    Den L (.chain cur (g :: r)) (xs ++ ys) := by
  obtain ⟨n, hn, hx⟩ := h1
  obtain ⟨m, hm, hy⟩ := h2
  -- find the step at which `cur` answers done
  have key : ∀ n cur xs, after L n cur = none → outs L n cur = xs →
      ∃ k, after L k (.chain cur (g :: r)) = some (.chain (g.start L) r) ∧ outs L k (.chain cur (g :: r)) = xs := by
    intro n
    induction n with
    | zero => intro cur xs h; simp [after] at h
    | succ n ih =>
      intro cur xs h ho
      simp only [after] at h
      simp only [outs] at ho
      cases hs : step L cur with
      | done =>
        simp only [hs] at ho
        refine ⟨1, ?_, ?_⟩
        · simp only [after]; rw [step_chain]; simp [hs]
        · simp only [outs]; rw [step_chain]; simp [hs, ← ho]
      | skip s =>
        simp only [hs] at h ho
        obtain ⟨k, hk1, hk2⟩ := ih s xs h ho
        refine ⟨k + 1, ?_, ?_⟩
        · simp only [after]; rw [step_chain]; simp [hs, hk1]
        · simp only [outs]; rw [step_chain]; simp [hs, hk2]
      | «yield» x s =>
        simp only [hs] at h ho
        cases xs with
        | nil => simp at ho
        | cons x' xs' =>
          simp only [List.cons.injEq] at ho
          obtain ⟨k, hk1, hk2⟩ := ih s xs' h ho.2
          refine ⟨k + 1, ?_, ?_⟩
          · simp only [after]; rw [step_chain]; simp [hs, hk1]
          · simp only [outs]; rw [step_chain]; simp [hs, hk2, ho.1]
  obtain ⟨k, hk1, hk2⟩ := key n cur xs hn hx
  refine ⟨k + m, ?_, ?_⟩
  · rw [after_add, hk1]; simpa using hm
  · rw [outs_add, hk1, hk2]; simp [hy]

theorem den_chain_nil {L cur xs} (h1 : Den L cur xs) : Den L (.chain cur []) xs := by
  obtain ⟨n, hn, hx⟩ := h1
  have key : ∀ n cur xs, after L n cur = none → outs L n cur = xs →
      after L n (.chain cur []) = none ∧ outs L n (.chain cur []) = xs := by
    intro n
    induction n with
    | zero => intro cur xs h; simp [after] at h
    | succ n ih =>
      intro cur xs h ho
      simp only [after] at h
      simp only [outs] at ho
      simp only [after, outs]
      rw [step_chain]
      cases hs : step L cur with
      | done => simp only [hs] at ho; simp [← ho]
      | skip s => simp only [hs] at h ho; simpa using ih s xs h ho
      | «yield» x s =>
        simp only [hs] at h ho
        cases xs with
        | nil => simp at ho
        | cons x' xs' =>
          simp only [List.cons.injEq] at ho
          obtain ⟨a, b⟩ := ih s xs' h ho.2
          simp [a, b, ho.1]
  exact ⟨n, key n cur xs hn hx⟩

/-- a chain whose parts denote lists denotes their concatenation -/
theorem den_chain_parts (L : Option Nat) : ∀ (parts : List G) (zs : List Item) (cur : It) (xs : List Item),
    Den L cur xs → DenParts L parts zs → Den L (.chain cur parts) (xs ++ zs) := by
  intro parts
  induction parts with
  | nil => intro zs cur xs h hp; cases hp; simpa using den_chain_nil h
  | cons g r ih =>
    intro zs cur xs h hp
    cases hp with
    | cons hg hr =>
      rename_i ys zs'
      have := ih zs' (g.start L) ys hg hr
      exact den_chain_cons h this

/-! ### consumers -/

theorem drain_den (L : Option Nat) : ∀ n it (vs acc : List V),
    after L n it = none → outs L n it = vs.map Item.val →
      drain L n it acc = .ok (acc.reverse ++ vs) := by
  intro n
  induction n with
  | zero => intro it vs acc h; simp [after] at h
  | succ n ih =>
    intro it vs acc h ho
    simp only [after] at h
    simp only [outs] at ho
    simp only [drain]
    cases hs : step L it with
    | done =>
      simp only [hs] at ho
      cases vs with
      | nil => simp
      | cons v vs => simp at ho
    | skip s => simp only [hs] at h ho; simpa using ih s vs acc h ho
    | «yield» x s =>
      simp only [hs] at h ho
      cases vs with
      | nil => simp at ho
      | cons v vs =>
        simp only [List.map_cons, List.cons.injEq] at ho
        obtain ⟨hx, ho⟩ := ho
        subst hx
        simpa using ih s vs (v :: acc) h ho

/-! ### construction: slice merging, chain splicing -/

theorem noViol_takeOpt_drop {xs : List Item} (t : Option Nat) (k : Nat) (h : noViol xs) :
    noViol (takeOpt t (xs.drop k)) := by
  intro x hx
  apply h x
  cases t with
  | none => exact List.mem_of_mem_drop (by simpa [takeOpt] using hx)
  | some t => exact List.mem_of_mem_drop (List.mem_of_mem_take (by simpa [takeOpt] using hx))

/-- the end of two merged slices (`generators.rs:505-509`) -/
def mergeEnd (iend : Option Nat) (end_ : Option Nat) (istart : Nat) : Option Nat :=
  match iend, end_.map (· + istart) with
  | none, none => none
  | some a, none => some a
  | none, some b => some b
  | some a, some b => some (min a b)

theorem slice_slice_list (xs : List Item) (a c : Nat) (b d : Option Nat) :
    takeOpt (d.map (· - c)) ((takeOpt (b.map (· - a)) (xs.drop a)).drop c) =
    takeOpt ((mergeEnd b d a).map (· - (a + c))) (xs.drop (a + c)) := by
  unfold mergeEnd
  cases b <;> cases d <;> simp [takeOpt, List.drop_take, List.take_take, List.drop_drop, Nat.add_comm] <;> omega

/-- a (single, unmerged) slice of any generator: drop `a`, then at most `b - a` -/
theorem outs_start_slice (L : Option Nat) (n : Nat) (g : G) (a : Nat) (b : Option Nat)
    (hc : (Permits.ofLimit L).covers a) (hv : noViol (outs L n (g.start L))) :
    outs L n ((G.slice g a b).start L) = takeOpt (b.map (· - a)) ((outs L n (g.start L)).drop a) := by
  rw [G.start, outs_slice L n _ a _ _ hc, sliceItems_noViol _ _ _ hv]

theorem mkSlice_slice (inner : G) (a : Nat) (b : Option Nat) (c : Nat) (d : Option Nat)
    (h : ¬ (c = 0 ∧ d = none)) :
    G.mkSlice (.slice inner a b) c d = .slice inner (a + c) (mergeEnd b d a) := by
  unfold G.mkSlice mergeEnd
  have : (c == 0 && d.isNone) = false := by
    cases d <;> simp_all
  simp only [this]
  cases b <;> cases d <;> simp

/-- the parts a generator contributes to a chain -/
def G.parts : G → List G
  | .chain ps => ps
  | g => [g]

theorem mkChain_parts (a b : G) : a.mkChain b = .chain (a.parts ++ b.parts) := by
  cases a <;> cases b <;> rfl

theorem denParts_append {L p0 p1 xs ys} (h0 : DenParts L p0 xs) (h1 : DenParts L p1 ys) :
    DenParts L (p0 ++ p1) (xs ++ ys) := by
  induction h0 with
  | nil => simpa using h1
  | cons hg _ ih => simpa [List.append_assoc] using DenParts.cons hg ih

theorem den_arr_nil (L : Option Nat) : Den L (.arr []) [] := by
  simpa using den_arr L []

end XrayModel.Gen
