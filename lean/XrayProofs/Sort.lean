/-
C19 — helper lemmas about the sort model (`XrayModel/Sort.lean`).

`Good lt n P xs r`: the outcome `r` of a routine that was started with comparison counter `n` on a
slice holding `xs` (a) is not a panic, (b) holds a permutation of `xs` — in the result on success, in
the buffer left behind on failure —, (c) has used exactly the comparison indices `n .. n'-1`, each of
which answered, except that on failure the last one (`n'-1`) is the one that failed with the reported
error.
-/
import XrayModel.Sort
import Mathlib.Data.List.Perm.Basic

namespace XrayModel.Sort
open List

variable {ε α β γ : Type}

/-- all comparisons `n ≤ i < n'` were made and answered -/
def Answered (lt : Cmp ε α) (n n' : Nat) : Prop :=
  ∀ i, n ≤ i → i < n' → ∃ a b r, lt i a b = .ok r

theorem Answered.refl (lt : Cmp ε α) (n : Nat) : Answered lt n n := by
  intro i h1 h2; omega

theorem Answered.trans {lt : Cmp ε α} {a b c : Nat} (h1 : Answered lt a b) (h2 : Answered lt b c) :
    Answered lt a c := by
  intro i hi1 hi2
  by_cases h : i < b
  · exact h1 i hi1 h
  · exact h2 i (by omega) hi2

theorem Answered.step {lt : Cmp ε α} {n : Nat} {a b : α} {r : Bool} (h : lt n a b = .ok r) :
    Answered lt n (n + 1) := by
  intro i h1 h2
  have : i = n := by omega
  subst this
  exact ⟨a, b, r, h⟩

def Good (lt : Cmp ε α) (n : Nat) (P : β → List α) (xs : List α) : Res ε α β → Prop
  | .ok v n' => (P v).Perm xs ∧ n ≤ n' ∧ Answered lt n n'
  | .fail e buf n' => buf.Perm xs ∧ n < n' ∧ Answered lt n (n' - 1) ∧ ∃ a b, lt (n' - 1) a b = .error e
  | .panic => False

theorem Good.perm {lt : Cmp ε α} {n : Nat} {P : β → List α} {xs ys : List α} {r : Res ε α β}
    (h : Good lt n P xs r) (hp : xs.Perm ys) : Good lt n P ys r := by
  cases r with
  | ok v n' => exact ⟨h.1.trans hp, h.2⟩
  | fail e b n' => exact ⟨h.1.trans hp, h.2⟩
  | panic => exact h

theorem Good.failCtx {lt : Cmp ε α} {n : Nat} {P : β → List α} {xs : List α} {r : Res ε α β}
    (pre post : List α) (h : Good lt n P xs r) :
    Good lt n (fun v => pre ++ P v ++ post) (pre ++ xs ++ post) (r.failCtx pre post) := by
  cases r with
  | ok v n' => exact ⟨(h.1.append_left pre).append_right post, h.2⟩
  | fail e b n' => exact ⟨(h.1.append_left pre).append_right post, h.2⟩
  | panic => exact h

theorem Good.ctx {lt : Cmp ε α} {n : Nat} {xs : List α} {r : LRes ε α}
    (pre post : List α) (h : Good lt n id xs r) :
    Good lt n id (pre ++ xs ++ post) (r.ctx pre post) := by
  cases r with
  | ok v n' => exact ⟨(h.1.append_left pre).append_right post, h.2⟩
  | fail e b n' => exact ⟨(h.1.append_left pre).append_right post, h.2⟩
  | panic => exact h

theorem Good.mapAll {lt : Cmp ε α} {n : Nat} {xs : List α} {r : LRes ε α}
    (g : List α → List α) (hg : ∀ l, (g l).Perm l) (h : Good lt n id xs r) :
    Good lt n id xs (r.mapAll g) := by
  cases r with
  | ok v n' => exact ⟨(hg v).trans h.1, h.2⟩
  | fail e b n' => exact ⟨(hg b).trans h.1, h.2⟩
  | panic => exact h

theorem Good.map {lt : Cmp ε α} {n : Nat} {P : β → List α} {Q : γ → List α} {xs : List α}
    {r : Res ε α β} (g : β → γ) (hg : ∀ v, (Q (g v)).Perm (P v)) (h : Good lt n P xs r) :
    Good lt n Q xs (r.map g) := by
  cases r with
  | ok v n' => exact ⟨(hg v).trans h.1, h.2⟩
  | fail e b n' => exact h
  | panic => exact h

theorem Good.bind {lt : Cmp ε α} {n : Nat} {P : β → List α} {Q : γ → List α} {xs : List α}
    {r : Res ε α β} {f : β → Nat → Res ε α γ}
    (h : Good lt n P xs r)
    (hf : ∀ v n', r = .ok v n' → (P v).Perm xs → n ≤ n' → Good lt n' Q (P v) (f v n')) :
    Good lt n Q xs (r.bind f) := by
  cases r with
  | ok v n' =>
    obtain ⟨hp, hle, ha⟩ := h
    have h2 := hf v n' rfl hp hle
    simp only [Res.bind]
    cases hr : f v n' with
    | ok w m =>
      rw [hr] at h2
      exact ⟨h2.1.trans hp, by have := h2.2.1; omega, ha.trans h2.2.2⟩
    | fail e b m =>
      rw [hr] at h2
      obtain ⟨q1, q2, q3, q4⟩ := h2
      exact ⟨q1.trans hp, by omega, ha.trans q3, q4⟩
    | panic => rw [hr] at h2; exact h2
  | fail e b n' => exact h
  | panic => exact h

theorem Good.after {lt : Cmp ε α} {n : Nat} {P : β → List α} {xs : List α} {r : Res ε α β}
    {a b : α} {c : Bool} (hc : lt n a b = .ok c) (h : Good lt (n + 1) P xs r) : Good lt n P xs r := by
  cases r with
  | ok v n' => exact ⟨h.1, by have := h.2.1; omega, (Answered.step hc).trans h.2.2⟩
  | fail e buf n' =>
    obtain ⟨q1, q2, q3, q4⟩ := h
    refine ⟨q1, by omega, ?_, q4⟩
    have : n + 1 ≤ n' - 1 ∨ n' - 1 = n := by omega
    rcases this with h' | h'
    · exact (Answered.step hc).trans q3
    · rw [h'] at q4; obtain ⟨a', b', q4⟩ := q4
      rw [h']; exact Answered.refl _ _
  | panic => exact h

theorem Good.failNow {lt : Cmp ε α} {n : Nat} {P : β → List α} {xs buf : List α} {a b : α} {e : ε}
    (hc : lt n a b = .error e) (hp : buf.Perm xs) : Good lt n P xs (.fail e buf (n + 1)) :=
  ⟨hp, by omega, by simpa using Answered.refl lt n, ⟨a, b, by simpa using hc⟩⟩

theorem Good.okNow {lt : Cmp ε α} {n : Nat} {P : β → List α} {xs : List α} {v : β}
    (hp : (P v).Perm xs) : Good lt n P xs (.ok v n) :=
  ⟨hp, Nat.le_refl _, Answered.refl _ _⟩

/-! ### insertion -/

theorem insertTail_good (lt : Cmp ε α) (x : α) (zs : List α) (n : Nat) :
    Good lt n id (x :: zs) (insertTail lt x zs n) := by
  induction zs generalizing n with
  | nil => exact Good.okNow (Perm.refl _)
  | cons z zs ih =>
    simp only [insertTail]
    cases h : lt n z x with
    | error e => exact Good.failNow h (Perm.refl _)
    | ok b =>
      cases b with
      | false => exact Good.after h (Good.okNow (Perm.refl _))
      | true =>
        exact Good.after h (((ih (n + 1)).ctx [z] []).perm (by simpa using (Perm.swap x z zs)))

theorem insertHead_good (lt : Cmp ε α) (xs : List α) (n : Nat) :
    Good lt n id xs (insertHead lt xs n) := by
  cases xs with
  | nil => exact Good.okNow (Perm.refl _)
  | cons x rest => exact insertTail_good lt x rest n

theorem insertionSort_good (lt : Cmp ε α) (xs : List α) (n : Nat) :
    Good lt n id xs (insertionSort lt xs n) := by
  induction xs generalizing n with
  | nil => exact Good.okNow (Perm.refl _)
  | cons x xs ih =>
    simp only [insertionSort]
    have h1 : Good lt n id (x :: xs) ((insertionSort lt xs n).ctx [x] []) := by
      simpa using (ih n).ctx [x] []
    exact h1.bind (fun v n' _ _ _ => insertHead_good lt v n')

/-! ### merge -/

theorem mergeLoAux_good (lt : Cmp ε α) (a : α) (l : List α) (recL : List α → Nat → LRes ε α)
    (hrec : ∀ r n, Good lt n id (l ++ r) (recL r n)) (r : List α) (n : Nat) :
    Good lt n id (a :: l ++ r) (mergeLoAux lt a l recL r n) := by
  induction r generalizing n with
  | nil => exact Good.okNow (by simp)
  | cons b r ih =>
    simp only [mergeLoAux]
    cases h : lt n b a with
    | error e => exact Good.failNow h (Perm.refl _)
    | ok c =>
      cases c with
      | true =>
        refine Good.after h (((ih (n + 1)).ctx [b] []).perm ?_)
        simpa using (perm_middle (a := b) (l₁ := a :: l) (l₂ := r)).symm
      | false =>
        refine Good.after h (((hrec (b :: r) (n + 1)).ctx [a] []).perm ?_)
        simp

theorem mergeLo_good (lt : Cmp ε α) (l r : List α) (n : Nat) :
    Good lt n id (l ++ r) (mergeLo lt l r n) := by
  induction l generalizing r n with
  | nil => exact Good.okNow (by simp)
  | cons a l ih => exact mergeLoAux_good lt a l (mergeLo lt l) (fun r n => ih r n) r n

theorem mergeHiAux_good (lt : Cmp ε α) (b : α) (rr : List α) (recR : List α → Nat → LRes ε α)
    (hrec : ∀ rl n, Good lt n id (rr ++ rl) (recR rl n)) (rl : List α) (n : Nat) :
    Good lt n id (b :: rr ++ rl) (mergeHiAux lt b rr recR rl n) := by
  induction rl generalizing n with
  | nil => exact Good.okNow (by simp)
  | cons a rl ih =>
    simp only [mergeHiAux]
    cases h : lt n b a with
    | error e => exact Good.failNow h (Perm.refl _)
    | ok c =>
      cases c with
      | true =>
        refine Good.after h (((ih (n + 1)).ctx [a] []).perm ?_)
        simpa using (perm_middle (a := a) (l₁ := b :: rr) (l₂ := rl)).symm
      | false =>
        refine Good.after h (((hrec (a :: rl) (n + 1)).ctx [b] []).perm ?_)
        simp

theorem mergeHiRev_good (lt : Cmp ε α) (rr rl : List α) (n : Nat) :
    Good lt n id (rr ++ rl) (mergeHiRev lt rr rl n) := by
  induction rr generalizing rl n with
  | nil => exact Good.okNow (by simp)
  | cons b rr ih => exact mergeHiAux_good lt b rr (mergeHiRev lt rr) (fun rl n => ih rl n) rl n

theorem merge_good (lt : Cmp ε α) (l r : List α) (n : Nat) :
    Good lt n id (l ++ r) (merge lt l r n) := by
  unfold merge
  split
  · exact mergeLo_good lt l r n
  · refine ((mergeHiRev_good lt r.reverse l.reverse n).mapAll List.reverse (fun l => reverse_perm l)).perm ?_
    exact ((reverse_perm r).append (reverse_perm l)).trans perm_append_comm

/-! ### natural runs -/

/-- the buffer a step denotes: unprocessed prefix, then the run -/
def stepList (p : List α × List α) : List α := p.2.reverse ++ p.1

theorem scan_good (lt : Cmp ε α) (want : Bool) (cur : α) (run rest : List α) (n : Nat) :
    Good lt n stepList (rest.reverse ++ run) (scan lt want cur run rest n) := by
  induction rest generalizing cur run n with
  | nil => exact Good.okNow (by simp [stepList])
  | cons c rest ih =>
    simp only [scan]
    cases h : lt n cur c with
    | error e => exact Good.failNow h (Perm.refl _)
    | ok b =>
      simp only []
      split
      · refine Good.after h ((ih c (c :: run) (n + 1)).perm ?_)
        simp
      · exact Good.after h (Good.okNow (by simp [stepList]))

theorem findRun_good (lt : Cmp ε α) (rpre : List α) (n : Nat) :
    Good lt n stepList rpre.reverse (findRun lt rpre n) := by
  match rpre with
  | [] => exact Good.okNow (by simp [stepList])
  | [a] => exact Good.okNow (by simp [stepList])
  | a :: b :: rest =>
    simp only [findRun]
    cases h : lt n a b with
    | error e => exact Good.failNow h (Perm.refl _)
    | ok c =>
      have hs : ∀ w, Good lt (n + 1) stepList (a :: b :: rest).reverse (scan lt w b [b, a] rest (n + 1)) := by
        intro w
        refine (scan_good lt w b [b, a] rest (n + 1)).perm ?_
        simp
      cases c with
      | true =>
        refine Good.after h ((hs true).map _ ?_)
        intro v
        simp only [stepList]
        exact (Perm.refl _).append (reverse_perm _)
      | false => exact Good.after h (hs false)

theorem extendRun_good (lt : Cmp ε α) (run rest : List α) (n : Nat) :
    Good lt n stepList (rest.reverse ++ run) (extendRun lt run rest n) := by
  induction rest generalizing run n with
  | nil => exact Good.okNow (by simp [stepList])
  | cons c rest ih =>
    simp only [extendRun]
    split
    · have h1 := (insertHead_good lt (c :: run) n).failCtx rest.reverse []
      have h2 : Good lt n (fun v : List α => rest.reverse ++ v) ((c :: rest).reverse ++ run)
          ((insertHead lt (c :: run) n).failCtx rest.reverse []) := by
        simpa using h1
      refine h2.bind (Q := stepList) (fun v n' _ _ _ => ?_)
      exact ih v n'
    · exact Good.okNow (by simp [stepList])

/-! ### the run stack -/

theorem collapse_some_false {az : Bool} {st : List (List α)} (h : collapse az st = some false) :
    ∃ s0 s1 rest, st = s0 :: s1 :: rest := by
  match st with
  | [] => simp [collapse] at h
  | [_] => simp [collapse] at h
  | s0 :: s1 :: rest => exact ⟨s0, s1, rest, rfl⟩

theorem collapse_some_true {az : Bool} {st : List (List α)} (h : collapse az st = some true) :
    ∃ s0 s1 s2 rest, st = s0 :: s1 :: s2 :: rest := by
  match st with
  | [] => simp [collapse] at h
  | [_] => simp [collapse] at h
  | [s0, s1] =>
    simp only [collapse] at h
    split at h <;> simp at h
  | s0 :: s1 :: s2 :: rest => exact ⟨s0, s1, s2, rest, rfl⟩

theorem collapse_none_atZero {st : List (List α)} (h : collapse true st = none) : st.length < 2 := by
  match st with
  | [] => simp
  | [_] => simp
  | s0 :: s1 :: rest =>
    simp only [collapse, Bool.true_or, ite_true] at h
    split at h
    · split at h <;> simp at h
    · simp at h

theorem collapseLoop_good (lt : Cmp ε α) (az : Bool) (fuel : Nat) (st : List (List α)) (n : Nat)
    (hf : st.length ≤ fuel + 1) :
    Good lt n List.flatten st.flatten (collapseLoop lt az fuel st n) := by
  induction fuel generalizing st n with
  | zero =>
    have : collapse az st = none := by
      match st, hf with
      | [], _ => rfl
      | [_], _ => rfl
    simp only [collapseLoop, this]
    exact Good.okNow (Perm.refl _)
  | succ fuel ih =>
    cases hc : collapse az st with
    | none =>
      have : collapseLoop lt az (fuel + 1) st n = .ok st n := by
        unfold collapseLoop; simp [hc]
      rw [this]; exact Good.okNow (Perm.refl _)
    | some b =>
      cases b with
      | false =>
        obtain ⟨s0, s1, rest, rfl⟩ := collapse_some_false hc
        have : collapseLoop lt az (fuel + 1) (s0 :: s1 :: rest) n =
            ((merge lt s0 s1 n).failCtx [] rest.flatten).bind
              (fun m n' => collapseLoop lt az fuel (m :: rest) n') := by
          conv_lhs => unfold collapseLoop
          simp only [hc]
        rw [this]
        have h1 := (merge_good lt s0 s1 n).failCtx [] rest.flatten
        have h2 : Good lt n (fun v : List α => v ++ rest.flatten) (s0 :: s1 :: rest).flatten
            ((merge lt s0 s1 n).failCtx [] rest.flatten) := by
          simpa using h1
        refine h2.bind (Q := List.flatten) (fun v n' _ _ _ => ?_)
        have := ih (v :: rest) n' (by simp at hf ⊢; omega)
        simpa using this
      | true =>
        obtain ⟨s0, s1, s2, rest, rfl⟩ := collapse_some_true hc
        have : collapseLoop lt az (fuel + 1) (s0 :: s1 :: s2 :: rest) n =
            ((merge lt s1 s2 n).failCtx s0 rest.flatten).bind
              (fun m n' => collapseLoop lt az fuel (s0 :: m :: rest) n') := by
          conv_lhs => unfold collapseLoop
          simp only [hc]
        rw [this]
        have h1 := (merge_good lt s1 s2 n).failCtx s0 rest.flatten
        have h2 : Good lt n (fun v : List α => s0 ++ v ++ rest.flatten) (s0 :: s1 :: s2 :: rest).flatten
            ((merge lt s1 s2 n).failCtx s0 rest.flatten) := by
          simpa using h1
        refine h2.bind (Q := List.flatten) (fun v n' _ _ _ => ?_)
        have := ih (s0 :: v :: rest) n' (by simp at hf ⊢; omega)
        simpa using this

theorem Res.bind_eq_ok {r : Res ε α β} {f : β → Nat → Res ε α γ} {w : γ} {m : Nat}
    (h : r.bind f = .ok w m) : ∃ v n, r = .ok v n ∧ f v n = .ok w m := by
  cases r with
  | ok v n => exact ⟨v, n, rfl, h⟩
  | fail e b n => simp [Res.bind] at h
  | panic => simp [Res.bind] at h

theorem Res.failCtx_eq_ok {r : Res ε α β} {pre post : List α} {w : β} {m : Nat}
    (h : r.failCtx pre post = .ok w m) : r = .ok w m := by
  cases r with
  | ok v n => simpa [Res.failCtx] using h
  | fail e b n => simp [Res.failCtx] at h
  | panic => simp [Res.failCtx] at h

theorem collapseLoop_none (lt : Cmp ε α) {az : Bool} (fuel : Nat) {st : List (List α)} (n : Nat)
    (hc : collapse az st = none) : collapseLoop lt az fuel st n = .ok st n := by
  cases fuel with
  | zero => simp only [collapseLoop, hc]
  | succ fuel => unfold collapseLoop; simp only [hc]

theorem collapseLoop_false (lt : Cmp ε α) {az : Bool} (fuel : Nat) {s0 s1 : List α}
    {rest : List (List α)} (n : Nat) (hc : collapse az (s0 :: s1 :: rest) = some false) :
    collapseLoop lt az (fuel + 1) (s0 :: s1 :: rest) n =
      ((merge lt s0 s1 n).failCtx [] rest.flatten).bind
        (fun m n' => collapseLoop lt az fuel (m :: rest) n') := by
  conv_lhs => unfold collapseLoop
  simp only [hc]

theorem collapseLoop_true (lt : Cmp ε α) {az : Bool} (fuel : Nat) {s0 s1 s2 : List α}
    {rest : List (List α)} (n : Nat) (hc : collapse az (s0 :: s1 :: s2 :: rest) = some true) :
    collapseLoop lt az (fuel + 1) (s0 :: s1 :: s2 :: rest) n =
      ((merge lt s1 s2 n).failCtx s0 rest.flatten).bind
        (fun m n' => collapseLoop lt az fuel (s0 :: m :: rest) n') := by
  conv_lhs => unfold collapseLoop
  simp only [hc]

theorem collapseLoop_ok_shape (lt : Cmp ε α) (az : Bool) (fuel : Nat) (st st' : List (List α))
    (n n' : Nat) (h : collapseLoop lt az fuel st n = .ok st' n') :
    collapse az st' = none ∧ (st ≠ [] → st' ≠ []) := by
  induction fuel generalizing st n with
  | zero =>
    cases hc : collapse az st with
    | none =>
      rw [collapseLoop_none lt 0 n hc] at h
      cases h; exact ⟨hc, id⟩
    | some b => simp [collapseLoop, hc] at h
  | succ fuel ih =>
    cases hc : collapse az st with
    | none =>
      rw [collapseLoop_none lt _ n hc] at h
      cases h; exact ⟨hc, id⟩
    | some b =>
      cases b with
      | false =>
        obtain ⟨s0, s1, rest, rfl⟩ := collapse_some_false hc
        rw [collapseLoop_false lt fuel n hc] at h
        obtain ⟨m, n1, _, h2⟩ := Res.bind_eq_ok h
        exact ⟨(ih _ _ h2).1, fun _ => (ih _ _ h2).2 (by simp)⟩
      | true =>
        obtain ⟨s0, s1, s2, rest, rfl⟩ := collapse_some_true hc
        rw [collapseLoop_true lt fuel n hc] at h
        obtain ⟨m, n1, _, h2⟩ := Res.bind_eq_ok h
        exact ⟨(ih _ _ h2).1, fun _ => (ih _ _ h2).2 (by simp)⟩

theorem scan_ok_len {lt : Cmp ε α} {want : Bool} {cur : α} {run rest : List α} {n n' : Nat}
    {p : List α × List α} (h : scan lt want cur run rest n = .ok p n') : p.2.length ≤ rest.length := by
  induction rest generalizing cur run n with
  | nil => simp [scan] at h; obtain ⟨rfl, _⟩ := h; simp
  | cons c rest ih =>
    simp only [scan] at h
    cases hc : lt n cur c with
    | error e => simp [hc] at h
    | ok b =>
      simp only [hc] at h
      split at h
      · have := ih h; simp; omega
      · cases h; simp

theorem findRun_ok_len {lt : Cmp ε α} {a : α} {rpre : List α} {n n' : Nat}
    {p : List α × List α} (h : findRun lt (a :: rpre) n = .ok p n') : p.2.length ≤ rpre.length := by
  match rpre with
  | [] => simp [findRun] at h; obtain ⟨rfl, _⟩ := h; simp
  | b :: rest =>
    simp only [findRun] at h
    cases hc : lt n a b with
    | error e => simp [hc] at h
    | ok c =>
      cases c with
      | true =>
        simp only [hc] at h
        cases hs : scan lt true b [b, a] rest (n + 1) with
        | ok q m =>
          rw [hs] at h; simp [Res.map] at h
          obtain ⟨rfl, _⟩ := h
          have := scan_ok_len hs; simp; omega
        | fail e bf m => rw [hs] at h; simp [Res.map] at h
        | panic => rw [hs] at h; simp [Res.map] at h
      | false =>
        simp only [hc] at h
        have := scan_ok_len h; simp; omega

theorem extendRun_ok_len {lt : Cmp ε α} {run rest : List α} {n n' : Nat}
    {q : List α × List α} (h : extendRun lt run rest n = .ok q n') : q.2.length ≤ rest.length := by
  induction rest generalizing run n with
  | nil => simp [extendRun] at h; obtain ⟨rfl, _⟩ := h; simp
  | cons c rest ih =>
    simp only [extendRun] at h
    split at h
    · obtain ⟨v, m, _, h2⟩ := Res.bind_eq_ok h
      have := ih h2; simp; omega
    · cases h; simp

/-! ### the main loop and `try_sort` -/

theorem mainLoop_good (lt : Cmp ε α) (fuel : Nat) (rpre : List α) (st : List (List α)) (n : Nat)
    (hf : rpre.length ≤ fuel) (hinv : rpre = [] → ∃ r, st = [r]) :
    Good lt n id (rpre.reverse ++ st.flatten) (mainLoop lt fuel rpre st n) := by
  induction fuel generalizing rpre st n with
  | zero =>
    have : rpre = [] := by cases rpre with | nil => rfl | cons a t => simp at hf
    subst this
    obtain ⟨r, rfl⟩ := hinv rfl
    simp only [mainLoop]
    exact Good.okNow (by simp)
  | succ fuel ih =>
    cases rpre with
    | nil =>
      obtain ⟨r, rfl⟩ := hinv rfl
      simp only [mainLoop]
      exact Good.okNow (by simp)
    | cons a rpre =>
      simp only [mainLoop]
      have h1 := (findRun_good lt (a :: rpre) n).failCtx [] st.flatten
      have h1' : Good lt n (fun p : List α × List α => stepList p ++ st.flatten)
          ((a :: rpre).reverse ++ st.flatten)
          ((findRun lt (a :: rpre) n).failCtx [] st.flatten) := by simpa using h1
      refine h1'.bind (Q := id) (fun p n1 e1 _ _ => ?_)
      have h2 := (extendRun_good lt p.1 p.2 n1).failCtx [] st.flatten
      have h2' : Good lt n1 (fun q : List α × List α => stepList q ++ st.flatten)
          (stepList p ++ st.flatten)
          ((extendRun lt p.1 p.2 n1).failCtx [] st.flatten) := by simpa [stepList] using h2
      refine h2'.bind (Q := id) (fun q n2 e2 hq _ => ?_)
      have h3 := (collapseLoop_good lt q.2.isEmpty (st.length + 1) (q.1 :: st) n2 (by simp)).failCtx
        q.2.reverse []
      have h3' : Good lt n2 (fun s : List (List α) => q.2.reverse ++ s.flatten)
          (stepList q ++ st.flatten)
          ((collapseLoop lt q.2.isEmpty (st.length + 1) (q.1 :: st) n2).failCtx q.2.reverse []) := by
        simpa [stepList] using h3
      refine h3'.bind (Q := id) (fun st' n3 e3 _ _ => ?_)
      have hsh := collapseLoop_ok_shape lt _ _ _ _ _ _ (Res.failCtx_eq_ok e3)
      have hl1 := findRun_ok_len (Res.failCtx_eq_ok e1)
      have hl2 := extendRun_ok_len (Res.failCtx_eq_ok e2)
      have := ih q.2 st' n3 (by simp at hf; omega) (fun hq0 => by
        have hn : st' ≠ [] := hsh.2 (by simp)
        have hc := hsh.1
        rw [hq0] at hc
        have hlen := collapse_none_atZero (by simpa using hc)
        match st', hn, hlen with
        | [r], _, _ => exact ⟨r, rfl⟩)
      simpa using this

theorem trySort_good (lt : Cmp ε α) (v : List α) (n : Nat) :
    Good lt n id v (trySort lt v n) := by
  unfold trySort
  split
  · exact insertionSort_good lt v n
  · have := mainLoop_good lt v.length v.reverse [] n (by simp) (fun h => by
      have : v = [] := by simpa using h
      subst this; simp [MAX_INSERTION] at *)
    simpa using this

/-! ## Functional correctness under a pure comparator that is a strict weak order

Reference stable sort: insertion sort `isort` (an element is inserted BEFORE the first element that
is not strictly smaller: equal elements keep their input order). -/

/-- strict weak order (`r a b` = "a is strictly less than b") -/
structure StrictWeak (r : α → α → Bool) : Prop where
  irrefl : ∀ a, r a a = false
  trans : ∀ a b c, r a b = true → r b c = true → r a c = true
  /-- negative transitivity: "not less" is transitive (so incomparability is an equivalence) -/
  ntrans : ∀ a b c, r a b = false → r b c = false → r a c = false

def oinsert (r : α → α → Bool) (x : α) : List α → List α
  | [] => [x]
  | z :: zs => if r z x then z :: oinsert r x zs else x :: z :: zs

def isort (r : α → α → Bool) : List α → List α
  | [] => []
  | x :: xs => oinsert r x (isort r xs)

/-- no element is strictly smaller than an earlier one -/
def Sorted (r : α → α → Bool) (l : List α) : Prop := l.Pairwise (fun a b => r b a = false)

/-- `a` and `b` are tied (neither is less) -/
def eqv (r : α → α → Bool) (a b : α) : Bool := !r a b && !r b a

/-- `ys` is `xs` stably sorted: sorted, and every class of tied elements appears in its input order -/
def StableSorted (r : α → α → Bool) (xs ys : List α) : Prop :=
  Sorted r ys ∧ ∀ c, ys.filter (eqv r c) = xs.filter (eqv r c)

set_option linter.unusedSectionVars false
namespace StrictWeak
variable {r : α → α → Bool} (h : StrictWeak r)
include h

theorem asymm {a b : α} (hab : r a b = true) : r b a = false := by
  cases hba : r b a with
  | false => rfl
  | true => have := h.trans a b a hab hba; rw [h.irrefl] at this; cases this

theorem lt_of_lt_of_le {a b c : α} (hab : r a b = true) (hbc : r c b = false) : r a c = true := by
  cases hac : r a c with
  | true => rfl
  | false => have := h.ntrans a c b hac hbc; rw [hab] at this; cases this

theorem lt_of_le_of_lt {a b c : α} (hab : r b a = false) (hbc : r b c = true) : r a c = true := by
  cases hac : r a c with
  | true => rfl
  | false => have := h.ntrans b a c hab hac; rw [hbc] at this; cases this

theorem eqv_refl (a : α) : eqv r a a = true := by simp [eqv, h.irrefl]

theorem eqv_symm {a b : α} : eqv r a b = eqv r b a := by simp [eqv, Bool.and_comm]

theorem eqv_trans {a b c : α} (hab : eqv r a b = true) (hbc : eqv r b c = true) : eqv r a c = true := by
  simp only [eqv, Bool.and_eq_true, Bool.not_eq_true'] at *
  exact ⟨h.ntrans a b c hab.1 hbc.1, h.ntrans c b a hbc.2 hab.2⟩

theorem not_eqv_of_lt {a b : α} (hab : r a b = true) : eqv r a b = false := by simp [eqv, hab]

theorem not_eqv_of_lt' {a b : α} (hab : r a b = true) : eqv r b a = false := by simp [eqv, hab]

/-- an element strictly below `x` is in no class that contains `x` -/
theorem class_lt {c x z : α} (hx : eqv r c x = true) (hz : r z x = true) : eqv r c z = false := by
  cases hcz : eqv r c z with
  | false => rfl
  | true =>
    have : eqv r z x = true := h.eqv_trans (by rw [h.eqv_symm]; exact hcz) hx
    rw [h.not_eqv_of_lt hz] at this; cases this

end StrictWeak

theorem mem_oinsert {r : α → α → Bool} {x y : α} {l : List α} :
    y ∈ oinsert r x l ↔ y = x ∨ y ∈ l := by
  induction l with
  | nil => simp [oinsert]
  | cons z zs ih =>
    simp only [oinsert]
    split
    · simp [ih]; tauto
    · simp

theorem sorted_oinsert {r : α → α → Bool} (h : StrictWeak r) (x : α) {l : List α}
    (hl : Sorted r l) : Sorted r (oinsert r x l) := by
  induction l with
  | nil => simp [oinsert, Sorted]
  | cons z zs ih =>
    simp only [oinsert]
    have hz := List.pairwise_cons.mp hl
    split
    · rename_i hzx
      refine List.pairwise_cons.mpr ⟨?_, ih hz.2⟩
      intro y hy
      rcases mem_oinsert.mp hy with rfl | hy
      · exact h.asymm hzx
      · exact hz.1 y hy
    · rename_i hzx
      have hzx : r z x = false := by simpa using hzx
      refine List.pairwise_cons.mpr ⟨?_, hl⟩
      intro y hy
      rcases List.mem_cons.mp hy with rfl | hy
      · exact hzx
      · exact h.ntrans y z x (hz.1 y hy) hzx

theorem filter_oinsert {r : α → α → Bool} (h : StrictWeak r) (c x : α) (l : List α) :
    (oinsert r x l).filter (eqv r c) = if eqv r c x then x :: l.filter (eqv r c) else l.filter (eqv r c) := by
  induction l with
  | nil => cases hx : eqv r c x <;> simp [oinsert, List.filter, hx]
  | cons z zs ih =>
    simp only [oinsert]
    split
    · rename_i hzx
      by_cases hx : eqv r c x = true
      · have hz : eqv r c z = false := h.class_lt hx hzx
        simp [List.filter_cons, hz, ih, hx]
      · simp only [List.filter_cons, ih, hx]
        simp
    · simp [List.filter_cons]

theorem stableSorted_isort {r : α → α → Bool} (h : StrictWeak r) (xs : List α) :
    StableSorted r xs (isort r xs) := by
  induction xs with
  | nil => exact ⟨List.Pairwise.nil, fun _ => rfl⟩
  | cons x xs ih =>
    refine ⟨sorted_oinsert h x ih.1, fun c => ?_⟩
    simp only [isort, filter_oinsert h, ih.2 c, List.filter_cons]

/-- a stably sorted rearrangement is unique -/
theorem stableSorted_unique {r : α → α → Bool} (h : StrictWeak r) {ys zs : List α}
    (hy : Sorted r ys) (hz : Sorted r zs) (hf : ∀ c, ys.filter (eqv r c) = zs.filter (eqv r c)) :
    ys = zs := by
  induction ys generalizing zs with
  | nil =>
    cases zs with
    | nil => rfl
    | cons z zs =>
      have := hf z
      simp [List.filter_cons, h.eqv_refl] at this
  | cons y ys ih =>
    cases zs with
    | nil =>
      have := hf y
      simp [List.filter_cons, h.eqv_refl] at this
    | cons z zs =>
      have hy' := List.pairwise_cons.mp hy
      have hz' := List.pairwise_cons.mp hz
      -- y and z are tied
      have hyz : eqv r y z = true := by
        by_cases hyz : y = z
        · subst hyz; exact h.eqv_refl y
        -- z occurs in ys, y occurs in zs
        have hzin : z ∈ y :: ys := by
          have : z ∈ (y :: ys).filter (eqv r z) := by
            rw [hf z]; simp [List.filter_cons, h.eqv_refl]
          exact (List.mem_filter.mp this).1
        have hyin : y ∈ z :: zs := by
          have : y ∈ (z :: zs).filter (eqv r y) := by
            rw [← hf y]; simp [List.filter_cons, h.eqv_refl]
          exact (List.mem_filter.mp this).1
        have hz2 : z ∈ ys := by
          rcases List.mem_cons.mp hzin with e | e
          · exact absurd e.symm hyz
          · exact e
        have hy2 : y ∈ zs := by
          rcases List.mem_cons.mp hyin with e | e
          · exact absurd e hyz
          · exact e
        simp only [eqv, Bool.and_eq_true, Bool.not_eq_true']
        exact ⟨hz'.1 y hy2, hy'.1 z hz2⟩
      have hfy := hf y
      simp only [List.filter_cons, h.eqv_refl, hyz, ite_true] at hfy
      have hyz' : y = z := (List.cons.inj hfy).1
      subst hyz'
      congr 1
      apply ih hy'.2 hz'.2
      intro c
      have := hf c
      simp only [List.filter_cons] at this
      split at this
      · exact (List.cons.inj this).2
      · exact this

theorem eq_isort_of_stableSorted {r : α → α → Bool} (h : StrictWeak r) {xs ys : List α}
    (hs : StableSorted r xs ys) : ys = isort r xs :=
  stableSorted_unique h hs.1 (stableSorted_isort h xs).1
    (fun c => (hs.2 c).trans ((stableSorted_isort h xs).2 c).symm)

/-! ### what the routines compute when the comparator is pure (partial correctness: "if it answers
`ok v`, then `v` is …"; that it does answer `ok` follows from `Good`) -/

/-- the comparator never fails, ignores the comparison index and decides the relation `r` -/
def Pure (lt : Cmp ε α) (r : α → α → Bool) : Prop := ∀ i a b, lt i a b = .ok (r a b)

theorem Res.ctx_eq_ok {x : LRes ε α} {pre post l : List α} {m : Nat}
    (h : x.ctx pre post = .ok l m) : ∃ l', x = .ok l' m ∧ l = pre ++ l' ++ post := by
  cases x with
  | ok v n => simp only [Res.ctx, Res.ok.injEq] at h; exact ⟨v, by rw [h.2], h.1.symm⟩
  | fail e b n => simp [Res.ctx] at h
  | panic => simp [Res.ctx] at h

theorem Res.map_eq_ok {x : Res ε α β} {g : β → γ} {w : γ} {m : Nat}
    (h : x.map g = .ok w m) : ∃ v, x = .ok v m ∧ w = g v := by
  cases x with
  | ok v n => simp [Res.map] at h; exact ⟨v, by simp [h.2], h.1.symm⟩
  | fail e b n => simp [Res.map] at h
  | panic => simp [Res.map] at h

theorem Res.mapAll_eq_ok {x : LRes ε α} {g : List α → List α} {w : List α} {m : Nat}
    (h : x.mapAll g = .ok w m) : ∃ v, x = .ok v m ∧ w = g v := by
  cases x with
  | ok v n => simp [Res.mapAll] at h; exact ⟨v, by simp [h.2], h.1.symm⟩
  | fail e b n => simp [Res.mapAll] at h
  | panic => simp [Res.mapAll] at h

section pure
variable {lt : Cmp ε α} {r : α → α → Bool}

theorem insertTail_pure (hp : Pure lt r) {x : α} {zs l : List α} {n n' : Nat}
    (h : insertTail lt x zs n = .ok l n') : l = oinsert r x zs := by
  induction zs generalizing l n with
  | nil => simp [insertTail] at h; simp [oinsert, h.1]
  | cons z zs ih =>
    simp only [insertTail, hp n z x] at h
    cases hr : r z x with
    | false => simp [hr] at h; simp [oinsert, hr, h.1]
    | true =>
      simp only [hr] at h
      obtain ⟨l', h1, h2⟩ := Res.ctx_eq_ok h
      simp [oinsert, hr, h2, ih h1]

theorem insertHead_pure (hp : Pure lt r) {x : α} {zs l : List α} {n n' : Nat}
    (h : insertHead lt (x :: zs) n = .ok l n') : l = oinsert r x zs :=
  insertTail_pure hp h

theorem insertionSort_pure (hp : Pure lt r) {xs l : List α} {n n' : Nat}
    (h : insertionSort lt xs n = .ok l n') : l = isort r xs := by
  induction xs generalizing l n n' with
  | nil => simp [insertionSort] at h; simp [isort, h.1]
  | cons x xs ih =>
    simp only [insertionSort] at h
    obtain ⟨v, m, h1, h2⟩ := Res.bind_eq_ok h
    obtain ⟨l', h3, h4⟩ := Res.ctx_eq_ok h1
    have := ih h3
    subst this
    simp only [List.singleton_append, List.append_nil] at h4
    subst h4
    simp only [isort]
    exact insertHead_pure hp h2

/-! merging -/

/-- what a merge of two stably sorted runs has to deliver -/
def MergeSpec (s : α → α → Bool) (X Y m : List α) : Prop :=
  Sorted s m ∧ (∀ z, z ∈ m ↔ z ∈ X ∨ z ∈ Y) ∧
    ∀ c, m.filter (eqv s c) = X.filter (eqv s c) ++ Y.filter (eqv s c)

theorem StrictWeak.class_gt {s : α → α → Bool} (h : StrictWeak s) {c b x : α}
    (hb : eqv s c b = true) (hx : s b x = true) : eqv s c x = false := by
  cases hcx : eqv s c x with
  | false => rfl
  | true =>
    have : eqv s b x = true := h.eqv_trans (by rw [h.eqv_symm]; exact hb) hcx
    rw [h.not_eqv_of_lt hx] at this; cases this

theorem mergeLoAux_spec {s : α → α → Bool} (hs : StrictWeak s) (hp : Pure lt s)
    (a : α) (l : List α) (recL : List α → Nat → LRes ε α) (hal : Sorted s (a :: l))
    (hrec : ∀ Y n m n', Sorted s Y → recL Y n = .ok m n' → MergeSpec s l Y m)
    (Y : List α) (n : Nat) (m : List α) (n' : Nat) (hY : Sorted s Y)
    (h : mergeLoAux lt a l recL Y n = .ok m n') : MergeSpec s (a :: l) Y m := by
  have hal' := List.pairwise_cons.mp hal
  induction Y generalizing n m with
  | nil =>
    simp [mergeLoAux] at h
    obtain ⟨rfl, _⟩ := h
    exact ⟨hal, by simp, by simp⟩
  | cons b rr ih =>
    have hY' := List.pairwise_cons.mp hY
    simp only [mergeLoAux, hp n b a] at h
    cases hba : s b a with
    | true =>
      simp only [hba] at h
      obtain ⟨m', h1, h2⟩ := Res.ctx_eq_ok h
      obtain ⟨q1, q2, q3⟩ := ih (n + 1) m' hY'.2 h1
      simp only [List.singleton_append, List.append_nil] at h2
      subst h2
      have hbx : ∀ x, x ∈ a :: l → s b x = true := by
        intro x hx
        rcases List.mem_cons.mp hx with rfl | hx
        · exact hba
        · exact hs.lt_of_lt_of_le hba (hal'.1 x hx)
      refine ⟨List.pairwise_cons.mpr ⟨?_, q1⟩, ?_, ?_⟩
      · intro y hy
        rcases (q2 y).mp hy with hy | hy
        · exact hs.asymm (hbx y hy)
        · exact hY'.1 y hy
      · intro z; simp only [List.mem_cons, q2 z]; tauto
      · intro c
        simp only [List.filter_cons (x := b), q3 c]
        split
        · rename_i hcb
          have : (a :: l).filter (eqv s c) = [] := by
            apply List.filter_eq_nil_iff.mpr
            intro x hx
            simp [hs.class_gt hcb (hbx x hx)]
          simp [this]
        · rfl
    | false =>
      simp only [hba] at h
      obtain ⟨m', h1, h2⟩ := Res.ctx_eq_ok h
      obtain ⟨q1, q2, q3⟩ := hrec (b :: rr) (n + 1) m' n' hY h1
      simp only [List.singleton_append, List.append_nil] at h2
      subst h2
      refine ⟨List.pairwise_cons.mpr ⟨?_, q1⟩, ?_, ?_⟩
      · intro y hy
        rcases (q2 y).mp hy with hy | hy
        · exact hal'.1 y hy
        · rcases List.mem_cons.mp hy with rfl | hy
          · exact hba
          · exact hs.ntrans y b a (hY'.1 y hy) hba
      · intro z; simp only [List.mem_cons, q2 z]; tauto
      · intro c
        simp only [List.filter_cons (x := a), q3 c]
        split <;> simp

theorem mergeLo_spec {s : α → α → Bool} (hs : StrictWeak s) (hp : Pure lt s)
    (X Y : List α) (n : Nat) (m : List α) (n' : Nat) (hX : Sorted s X) (hY : Sorted s Y)
    (h : mergeLo lt X Y n = .ok m n') : MergeSpec s X Y m := by
  induction X generalizing Y n m n' with
  | nil =>
    simp [mergeLo] at h
    obtain ⟨rfl, _⟩ := h
    exact ⟨hY, by simp, by simp⟩
  | cons a l ih =>
    have hal' := List.pairwise_cons.mp hX
    exact mergeLoAux_spec hs hp a l (mergeLo lt l) hX
      (fun Y n m n' hY h => ih Y n m n' hal'.2 hY h) Y n m n' hY h

theorem mergeHiAux_eq (lt : Cmp ε α) (b : α) (rr : List α) (recR recR' : List α → Nat → LRes ε α)
    (hrec : ∀ l n, recR l n = recR' l n) (rl : List α) (n : Nat) :
    mergeHiAux lt b rr recR rl n = mergeLoAux (fun i x y => lt i y x) b rr recR' rl n := by
  induction rl generalizing n with
  | nil => rfl
  | cons a rl ih =>
    simp only [mergeHiAux, mergeLoAux]
    cases lt n b a with
    | error e => rfl
    | ok c => cases c <;> simp [ih, hrec]

/-- the backward merge is the forward merge of the reversed runs under the flipped comparator -/
theorem mergeHiRev_eq (lt : Cmp ε α) (rr rl : List α) (n : Nat) :
    mergeHiRev lt rr rl n = mergeLo (fun i x y => lt i y x) rr rl n := by
  induction rr generalizing rl n with
  | nil => rfl
  | cons b rr ih =>
    simp only [mergeHiRev, mergeLo]
    exact mergeHiAux_eq lt b rr _ _ (fun l n => ih l n) rl n

theorem StrictWeak.flip {s : α → α → Bool} (h : StrictWeak s) : StrictWeak (fun a b => s b a) :=
  ⟨fun a => h.irrefl a, fun a b c hab hbc => h.trans c b a hbc hab,
   fun a b c hab hbc => h.ntrans c b a hbc hab⟩

theorem eqv_flip (s : α → α → Bool) (c x : α) : eqv (fun a b => s b a) c x = eqv s c x := by
  simp [eqv, Bool.and_comm]

theorem sorted_flip_reverse {s : α → α → Bool} {l : List α} (h : Sorted s l) :
    Sorted (fun a b => s b a) l.reverse := by
  unfold Sorted at *
  rw [List.pairwise_reverse]
  exact h

theorem merge_spec (hs : StrictWeak r) (hp : Pure lt r)
    (X Y : List α) (n : Nat) (m : List α) (n' : Nat) (hX : Sorted r X) (hY : Sorted r Y)
    (h : merge lt X Y n = .ok m n') : MergeSpec r X Y m := by
  unfold merge at h
  split at h
  · exact mergeLo_spec hs hp X Y n m n' hX hY h
  · obtain ⟨m', h1, h2⟩ := Res.mapAll_eq_ok h
    rw [mergeHiRev_eq] at h1
    have hp' : Pure (fun i x y => lt i y x) (fun a b => r b a) := fun i a b => hp i b a
    obtain ⟨q1, q2, q3⟩ := mergeLo_spec hs.flip hp' Y.reverse X.reverse n m' n'
      (sorted_flip_reverse hY) (sorted_flip_reverse hX) h1
    subst h2
    refine ⟨?_, ?_, ?_⟩
    · have := sorted_flip_reverse q1
      simpa [Sorted] using this
    · intro z; simp only [List.mem_reverse, q2 z]; tauto
    · intro c
      have := q3 c
      have e : eqv (fun a b => r b a) c = eqv r c := by
        funext x; exact eqv_flip r c x
      rw [e] at this
      rw [List.filter_reverse, this, List.reverse_append, List.filter_reverse, List.filter_reverse,
        List.reverse_reverse, List.reverse_reverse]

/-! natural runs -/

/-- every later element is strictly smaller than every earlier one -/
def SDesc (r : α → α → Bool) (l : List α) : Prop := l.Pairwise (fun a b => r b a = true)

theorem filter_reverse_sdesc (hs : StrictWeak r) (c : α) {l : List α} (hl : SDesc r l) :
    l.reverse.filter (eqv r c) = l.filter (eqv r c) := by
  induction l with
  | nil => rfl
  | cons x t ih =>
    have hx := List.pairwise_cons.mp hl
    simp only [List.reverse_cons, List.filter_append, ih hx.2, List.filter_cons (x := x)]
    split
    · rename_i hcx
      have : t.filter (eqv r c) = [] := by
        apply List.filter_eq_nil_iff.mpr
        intro y hy
        simp [hs.class_lt hcx (hx.1 y hy)]
      simp [this]
    · simp

theorem sorted_reverse_sdesc (hs : StrictWeak r) {l : List α} (hl : SDesc r l) :
    Sorted r l.reverse := by
  unfold Sorted
  rw [List.pairwise_reverse]
  exact hl.imp (fun {a b} hab => hs.asymm hab)

/-- scanning the non-descending branch keeps the run sorted and only moves the boundary -/
theorem scan_false_spec (hs : StrictWeak r) (hp : Pure lt r) {cur : α} {tl rest : List α} {n n' : Nat}
    {p : List α × List α} (hrun : Sorted r (cur :: tl))
    (h : scan lt false cur (cur :: tl) rest n = .ok p n') :
    Sorted r p.1 ∧ p.2.reverse ++ p.1 = rest.reverse ++ (cur :: tl) := by
  induction rest generalizing cur tl n with
  | nil => simp [scan] at h; obtain ⟨rfl, _⟩ := h; exact ⟨hrun, rfl⟩
  | cons c rest ih =>
    simp only [scan, hp n cur c] at h
    cases hr : r cur c with
    | false =>
      simp only [hr, beq_self_eq_true, ite_true] at h
      have hrun' : Sorted r (c :: cur :: tl) := by
        refine List.pairwise_cons.mpr ⟨?_, hrun⟩
        intro y hy
        rcases List.mem_cons.mp hy with rfl | hy
        · exact hr
        · exact hs.ntrans y cur c ((List.pairwise_cons.mp hrun).1 y hy) hr
      obtain ⟨q1, q2⟩ := ih hrun' h
      exact ⟨q1, by simp [q2]⟩
    | true =>
      simp [hr] at h
      obtain ⟨rfl, _⟩ := h
      exact ⟨hrun, rfl⟩

theorem scan_true_spec (hs : StrictWeak r) (hp : Pure lt r) {cur : α} {tl rest : List α} {n n' : Nat}
    {p : List α × List α} (hrun : SDesc r (cur :: tl))
    (h : scan lt true cur (cur :: tl) rest n = .ok p n') :
    SDesc r p.1 ∧ p.2.reverse ++ p.1 = rest.reverse ++ (cur :: tl) := by
  induction rest generalizing cur tl n with
  | nil => simp [scan] at h; obtain ⟨rfl, _⟩ := h; exact ⟨hrun, rfl⟩
  | cons c rest ih =>
    simp only [scan, hp n cur c] at h
    cases hr : r cur c with
    | true =>
      simp only [hr, beq_self_eq_true, ite_true] at h
      have hrun' : SDesc r (c :: cur :: tl) := by
        refine List.pairwise_cons.mpr ⟨?_, hrun⟩
        intro y hy
        rcases List.mem_cons.mp hy with rfl | hy
        · exact hr
        · exact hs.trans y cur c ((List.pairwise_cons.mp hrun).1 y hy) hr
      obtain ⟨q1, q2⟩ := ih hrun' h
      exact ⟨q1, by simp [q2]⟩
    | false =>
      simp [hr] at h
      obtain ⟨rfl, _⟩ := h
      exact ⟨hrun, rfl⟩

/-- `findRun` cuts a segment `seg` off the end of the unprocessed prefix and delivers it stably sorted -/
theorem findRun_spec (hs : StrictWeak r) (hp : Pure lt r) {rpre : List α} {n n' : Nat}
    {p : List α × List α} (h : findRun lt rpre n = .ok p n') :
    ∃ seg, StableSorted r seg p.1 ∧ p.2.reverse ++ seg = rpre.reverse := by
  match rpre with
  | [] => simp [findRun] at h; obtain ⟨rfl, _⟩ := h; exact ⟨[], ⟨List.Pairwise.nil, fun _ => rfl⟩, rfl⟩
  | [a] =>
    simp [findRun] at h; obtain ⟨rfl, _⟩ := h
    exact ⟨[a], ⟨List.pairwise_singleton _ _, fun _ => rfl⟩, rfl⟩
  | a :: b :: rest =>
    simp only [findRun, hp n a b] at h
    cases hr : r a b with
    | true =>
      simp only [hr] at h
      obtain ⟨q, h1, h2⟩ := Res.map_eq_ok h
      have hrun : SDesc r [b, a] := by simp [SDesc, hr]
      obtain ⟨q1, q2⟩ := scan_true_spec hs hp hrun h1
      subst h2
      refine ⟨q.1, ⟨sorted_reverse_sdesc hs q1, fun c => filter_reverse_sdesc hs c q1⟩, ?_⟩
      simp [q2]
    | false =>
      simp only [hr] at h
      have hrun : Sorted r [b, a] := by simp [Sorted, hr]
      obtain ⟨q1, q2⟩ := scan_false_spec hs hp hrun h
      exact ⟨p.1, ⟨q1, fun _ => rfl⟩, by simp [q2]⟩

theorem stableSorted_oinsert (hs : StrictWeak r) {seg run : List α} (c : α)
    (h : StableSorted r seg run) : StableSorted r (c :: seg) (oinsert r c run) := by
  refine ⟨sorted_oinsert hs c h.1, fun d => ?_⟩
  simp only [filter_oinsert hs, h.2 d, List.filter_cons]

theorem extendRun_spec (hs : StrictWeak r) (hp : Pure lt r) {run rest seg : List α} {n n' : Nat}
    {q : List α × List α} (hrun : StableSorted r seg run)
    (h : extendRun lt run rest n = .ok q n') :
    ∃ seg', StableSorted r seg' q.1 ∧ q.2.reverse ++ seg' = rest.reverse ++ seg := by
  induction rest generalizing run seg n with
  | nil => simp [extendRun] at h; obtain ⟨rfl, _⟩ := h; exact ⟨seg, hrun, rfl⟩
  | cons c rest ih =>
    simp only [extendRun] at h
    split at h
    · obtain ⟨v, m, h1, h2⟩ := Res.bind_eq_ok h
      have h1' := insertHead_pure hp (Res.failCtx_eq_ok h1)
      subst h1'
      obtain ⟨seg', q1, q2⟩ := ih (stableSorted_oinsert hs c hrun) h2
      exact ⟨seg', q1, by simp [q2]⟩
    · cases h; exact ⟨seg, hrun, rfl⟩

/-! the stack: every pending run is the stable sort of the segment it covers -/

theorem stableSorted_merge (hs : StrictWeak r) (hp : Pure lt r) {g0 g1 s0 s1 m : List α} {n n' : Nat}
    (h0 : StableSorted r g0 s0) (h1 : StableSorted r g1 s1) (h : merge lt s0 s1 n = .ok m n') :
    StableSorted r (g0 ++ g1) m := by
  obtain ⟨q1, _, q3⟩ := merge_spec hs hp s0 s1 n m n' h0.1 h1.1 h
  exact ⟨q1, fun c => by rw [q3 c, h0.2 c, h1.2 c, List.filter_append]⟩

theorem collapseLoop_spec (hs : StrictWeak r) (hp : Pure lt r) (az : Bool) (fuel : Nat)
    (segs st st' : List (List α)) (n n' : Nat) (hst : List.Forall₂ (StableSorted r) segs st)
    (h : collapseLoop lt az fuel st n = .ok st' n') :
    ∃ segs', List.Forall₂ (StableSorted r) segs' st' ∧ segs'.flatten = segs.flatten := by
  induction fuel generalizing segs st n with
  | zero =>
    cases hc : collapse az st with
    | none => rw [collapseLoop_none lt 0 n hc] at h; cases h; exact ⟨segs, hst, rfl⟩
    | some b => simp [collapseLoop, hc] at h
  | succ fuel ih =>
    cases hc : collapse az st with
    | none => rw [collapseLoop_none lt _ n hc] at h; cases h; exact ⟨segs, hst, rfl⟩
    | some b =>
      cases b with
      | false =>
        obtain ⟨s0, s1, rest, rfl⟩ := collapse_some_false hc
        rw [collapseLoop_false lt fuel n hc] at h
        obtain ⟨m, n1, h1, h2⟩ := Res.bind_eq_ok h
        match segs, hst with
        | g0 :: g1 :: gs, .cons a0 (.cons a1 ar) =>
          obtain ⟨segs', q1, q2⟩ := ih (segs := (g0 ++ g1) :: gs) _ _
            (.cons (stableSorted_merge hs hp a0 a1 (Res.failCtx_eq_ok h1)) ar) h2
          exact ⟨segs', q1, by simp [q2]⟩
      | true =>
        obtain ⟨s0, s1, s2, rest, rfl⟩ := collapse_some_true hc
        rw [collapseLoop_true lt fuel n hc] at h
        obtain ⟨m, n1, h1, h2⟩ := Res.bind_eq_ok h
        match segs, hst with
        | g0 :: g1 :: g2 :: gs, .cons a0 (.cons a1 (.cons a2 ar)) =>
          obtain ⟨segs', q1, q2⟩ := ih (segs := g0 :: (g1 ++ g2) :: gs) _ _
            (.cons a0 (.cons (stableSorted_merge hs hp a1 a2 (Res.failCtx_eq_ok h1)) ar)) h2
          exact ⟨segs', q1, by simp [q2]⟩

theorem mainLoop_spec (hs : StrictWeak r) (hp : Pure lt r) (fuel : Nat) (rpre : List α)
    (segs st : List (List α)) (n n' : Nat) (ys : List α)
    (hst : List.Forall₂ (StableSorted r) segs st)
    (h : mainLoop lt fuel rpre st n = .ok ys n') :
    StableSorted r (rpre.reverse ++ segs.flatten) ys := by
  induction fuel generalizing rpre segs st n with
  | zero =>
    cases rpre with
    | nil =>
      match st, segs, hst with
      | [s], [g], .cons a .nil => simp [mainLoop] at h; obtain ⟨rfl, _⟩ := h; simpa using a
      | [], _, _ => simp [mainLoop] at h
      | _ :: _ :: _, _, _ => simp [mainLoop] at h
    | cons a t => simp [mainLoop] at h
  | succ fuel ih =>
    cases rpre with
    | nil =>
      match st, segs, hst with
      | [s], [g], .cons a .nil => simp [mainLoop] at h; obtain ⟨rfl, _⟩ := h; simpa using a
      | [], _, _ => simp [mainLoop] at h
      | _ :: _ :: _, _, _ => simp [mainLoop] at h
    | cons a rpre =>
      simp only [mainLoop] at h
      obtain ⟨p, n1, e1, h⟩ := Res.bind_eq_ok h
      obtain ⟨q, n2, e2, h⟩ := Res.bind_eq_ok h
      obtain ⟨st', n3, e3, h⟩ := Res.bind_eq_ok h
      obtain ⟨seg, s1, s2⟩ := findRun_spec hs hp (Res.failCtx_eq_ok e1)
      obtain ⟨seg', t1, t2⟩ := extendRun_spec hs hp s1 (Res.failCtx_eq_ok e2)
      obtain ⟨segs', u1, u2⟩ := collapseLoop_spec hs hp _ _ (seg' :: segs) _ _ _ _ (.cons t1 hst)
        (Res.failCtx_eq_ok e3)
      have := ih q.2 segs' st' n3 u1 h
      rw [u2] at this
      have e : q.2.reverse ++ (seg' :: segs).flatten = (a :: rpre).reverse ++ segs.flatten := by
        rw [List.flatten_cons, ← List.append_assoc, t2, s2]
      rw [e] at this
      exact this

/-- **functional correctness of `try_sort`**: with a pure comparator deciding a strict weak order the
answer, if any, is the reference stable sort of the input -/
theorem trySort_spec (hs : StrictWeak r) (hp : Pure lt r) {xs ys : List α} {n n' : Nat}
    (h : trySort lt xs n = .ok ys n') : ys = isort r xs := by
  unfold trySort at h
  split at h
  · exact insertionSort_pure hp h
  · have := mainLoop_spec hs hp _ _ [] [] _ _ _ .nil h
    exact eq_isort_of_stableSorted hs (by simpa using this)

/-- with a pure comparator there is an answer -/
theorem trySort_pure_ok (hp : Pure lt r) (xs : List α) (n : Nat) :
    ∃ ys n', trySort lt xs n = .ok ys n' := by
  have hg := trySort_good lt xs n
  cases hr : trySort lt xs n with
  | ok ys n' => exact ⟨ys, n', rfl⟩
  | fail e b n' =>
    rw [hr] at hg
    obtain ⟨_, _, _, a, b', hab⟩ := hg
    rw [hp] at hab; cases hab
  | panic => rw [hr] at hg; exact hg.elim

/-! ### `XSequence::sorted` -/

theorem isSortedPre_true_spec {cmp : Cmp3 ε α} {c3 : α → α → Int} (hp : ∀ i a b, cmp i a b = .ok (c3 a b))
    {xs : List α} {n n' : Nat} (h : isSortedPre cmp xs n = .ok true n') :
    xs.IsChain (fun a b => ¬ c3 a b > 0) := by
  induction xs generalizing n with
  | nil => exact List.IsChain.nil
  | cons a t ih =>
    cases t with
    | nil => exact List.IsChain.singleton a
    | cons b t =>
      simp only [isSortedPre, hp n a b] at h
      split at h
      · simp at h
      · rename_i hc
        exact List.IsChain.cons_cons hc (ih h)

theorem sorted_of_chain (hs : StrictWeak r) {xs : List α}
    (h : xs.IsChain (fun a b => r b a = false)) : Sorted r xs := by
  unfold Sorted
  induction xs with
  | nil => exact List.Pairwise.nil
  | cons a t ih =>
    cases t with
    | nil => exact List.pairwise_singleton _ _
    | cons b t =>
      have hab : r b a = false := (List.isChain_cons_cons.mp h).1
      have ht := ih (List.isChain_cons_cons.mp h).2
      refine List.pairwise_cons.mpr ⟨?_, ht⟩
      intro y hy
      rcases List.mem_cons.mp hy with rfl | hy
      · exact hab
      · exact hs.ntrans y b a ((List.pairwise_cons.mp ht).1 y hy) hab

end pure


/-! ## conservation for the index-based routines (`TryHeap`, `quickselect`): whatever the comparator
does, the array holds the same elements afterwards — also in the state a failure leaves behind -/

def Conserves (P : β → List α) (xs : List α) : Res ε α β → Prop
  | .ok v _ => (P v).Perm xs
  | .fail _ b _ => b.Perm xs
  | .panic => True

theorem Conserves.perm {P : β → List α} {xs ys : List α} {r : Res ε α β}
    (h : Conserves P xs r) (hp : xs.Perm ys) : Conserves P ys r := by
  cases r with
  | ok v n => exact Perm.trans h hp
  | fail e b n => exact Perm.trans h hp
  | panic => trivial

theorem Conserves.bind {P : β → List α} {Q : γ → List α} {xs : List α} {r : Res ε α β}
    {f : β → Nat → Res ε α γ} (h : Conserves P xs r)
    (hf : ∀ v n, r = .ok v n → Conserves Q (P v) (f v n)) : Conserves Q xs (r.bind f) := by
  cases r with
  | ok v n => exact (hf v n rfl).perm h
  | fail e b n => exact h
  | panic => trivial

theorem Conserves.map {P : β → List α} {Q : γ → List α} {xs : List α} {r : Res ε α β} (g : β → γ)
    (hg : ∀ v, Q (g v) = P v) (h : Conserves P xs r) : Conserves Q xs (r.map g) := by
  cases r with
  | ok v n => simpa [Res.map, Conserves, hg] using h
  | fail e b n => exact h
  | panic => trivial

open Classical in
theorem set_set_perm {l : List α} {i j : Nat} {p x : α} (hj : l[j]? = some p) (hij : i ≠ j)
    (hi : i < l.length) : ((l.set i p).set j x).Perm (l.set i x) := by
  have hjl : j < l.length := by
    rcases Nat.lt_or_ge j l.length with h | h
    · exact h
    · rw [List.getElem?_eq_none_iff.mpr h] at hj; cases hj
  have hjv : l[j] = p := by
    rw [List.getElem?_eq_getElem hjl] at hj; exact Option.some.inj hj
  rw [List.perm_iff_count]
  intro c
  rw [List.count_set (by simpa using hjl), List.count_set hi, List.count_set hi]
  have h1 : (l.set i p)[j]'(by simpa using hjl) = p := by
    rw [List.getElem_set_of_ne hij]; exact hjv
  rw [h1]
  have hb : (if (l[i] == c) = true then 1 else 0) ≤ count c l := by
    split
    · rename_i h
      have : l[i] = c := by simpa using h
      exact List.count_pos_iff.mpr (this ▸ List.getElem_mem hi)
    · omega
  split <;> split <;> split <;> omega

theorem lt_length_of_getElem? {l : List α} {i : Nat} {a : α} (h : l[i]? = some a) : i < l.length := by
  rcases Nat.lt_or_ge i l.length with h' | h'
  · exact h'
  · rw [List.getElem?_eq_none_iff.mpr h'] at h; cases h

theorem set_self_of_getElem? {l : List α} {i : Nat} {a : α} (h : l[i]? = some a) : l.set i a = l := by
  have hi := lt_length_of_getElem? h
  rw [List.getElem?_eq_getElem hi] at h
  have : l[i] = a := Option.some.inj h
  subst this
  exact List.set_getElem_self hi

namespace Select

theorem swap_perm {l l' : List α} {i j : Nat} (h : swap l i j = some l') : l'.Perm l := by
  unfold swap at h
  cases hi : l[i]? with
  | none => simp [hi] at h
  | some a =>
    cases hj : l[j]? with
    | none => simp [hi, hj] at h
    | some b =>
      simp only [hi, hj, Option.some.injEq] at h
      subst h
      by_cases hij : i = j
      · subst hij
        rw [hi] at hj; cases hj
        simp [set_self_of_getElem? hi]
      · have := set_set_perm (x := a) hj hij (lt_length_of_getElem? hi)
        rw [set_self_of_getElem? hi] at this
        exact this

theorem partLoop_conserves (cmp : Cmp3 ε α) (pivot : α) (k : Nat) (items : List α) (j ret n : Nat) :
    Conserves (fun p : List α × Nat => p.1) items (partLoop cmp pivot k items j ret n) := by
  induction k generalizing items j ret n with
  | zero => exact Perm.refl _
  | succ k ih =>
    simp only [partLoop]
    cases items[j]? with
    | none => trivial
    | some x =>
      simp only
      cases cmp n x pivot with
      | error e => exact Perm.refl _
      | ok c =>
        simp only
        split
        · cases hs : swap items j ret with
          | none => trivial
          | some items' => exact (ih items' _ _ _).perm (swap_perm hs)
        · exact ih items _ _ _

theorem choosePivot_conserves (cmp : Cmp3 ε α) (items : List α) (left right n : Nat) :
    Conserves (fun _ : Nat => items) items (choosePivot cmp items left right n) := by
  unfold choosePivot
  simp only
  split
  · split
    · exact Perm.refl _
    · split
      · exact Perm.refl _
      · split
        · exact Perm.refl _
        · split
          · exact Perm.refl _
          · split <;> exact Perm.refl _
  · trivial

theorem partition_conserves (cmp : Cmp3 ε α) (items : List α) (left right n : Nat) :
    Conserves (fun p : List α × Nat => p.1) items (partition cmp items left right n) := by
  unfold partition
  split
  · exact Perm.refl _
  · refine (choosePivot_conserves cmp items left right n).bind (fun piv n1 _ => ?_)
    cases hs : swap items piv right with
    | none => trivial
    | some items1 =>
      simp only
      cases items1[right]? with
      | none => trivial
      | some pivot =>
        simp only
        refine ((partLoop_conserves cmp pivot _ items1 left left n1).perm (swap_perm hs)).bind
          (fun st n2 _ => ?_)
        cases hs2 : swap st.1 st.2 right with
        | none => trivial
        | some items2 => exact swap_perm hs2

theorem selectLoop_conserves (cmp : Cmp3 ε α) (target fuel : Nat) (arr : List α) (left right n : Nat) :
    Conserves (fun p : α × List α => p.2) arr (selectLoop cmp target fuel arr left right n) := by
  induction fuel generalizing arr left right n with
  | zero => trivial
  | succ fuel ih =>
    simp only [selectLoop]
    refine (partition_conserves cmp arr left right n).bind (fun st n1 _ => ?_)
    obtain ⟨arr', p⟩ := st
    simp only
    split
    · cases arr'[p]? with
      | none => trivial
      | some x => exact Perm.refl _
    · split
      · split
        · trivial
        · exact ih _ _ _ _
      · exact ih _ _ _ _

theorem selectLoop_mem (cmp : Cmp3 ε α) (target fuel : Nat) (arr : List α) (left right n n' : Nat)
    (x : α) (arr' : List α) (h : selectLoop cmp target fuel arr left right n = .ok (x, arr') n') :
    x ∈ arr' := by
  induction fuel generalizing arr left right n with
  | zero => simp [selectLoop] at h
  | succ fuel ih =>
    simp only [selectLoop] at h
    obtain ⟨st, n1, _, h2⟩ := Res.bind_eq_ok h
    obtain ⟨a1, p⟩ := st
    simp only at h2
    split at h2
    · cases hx : a1[p]? with
      | none => simp [hx] at h2
      | some y =>
        simp only [hx, Res.ok.injEq, Prod.mk.injEq] at h2
        obtain ⟨⟨rfl, rfl⟩, _⟩ := h2
        exact List.mem_of_getElem? hx
    · split at h2
      · split at h2
        · cases h2
        · exact ih _ _ _ _ h2
      · exact ih _ _ _ _ h2

end Select

namespace Heap

theorem siftUp_conserves (le : Cmp ε α) (start fuel : Nat) (data : List α) (elt : α) (pos n : Nat)
    (hpos : pos < data.length) :
    Conserves (fun p : List α × Nat => p.1) (data.set pos elt) (siftUp le start fuel data elt pos n) := by
  induction fuel generalizing data pos n with
  | zero => trivial
  | succ fuel ih =>
    simp only [siftUp]
    split
    · rename_i hgt
      cases hp : data[(pos - 1) / 2]? with
      | none => trivial
      | some p =>
        simp only
        cases le n elt p with
        | error e => exact Perm.refl _
        | ok c =>
          cases c with
          | true => exact Perm.refl _
          | false =>
            have hne : pos ≠ (pos - 1) / 2 := by omega
            have hpl := lt_length_of_getElem? hp
            refine (ih (data.set pos p) ((pos - 1) / 2) (n + 1) (by simpa using hpl)).perm ?_
            exact set_set_perm hp hne hpos
    · exact Perm.refl _

def sdlPost (elt : α) (data : List α) (hole : Nat) : Res ε α (List α × Nat × Nat) → Prop
  | .ok st _ => (st.1.set st.2.1 elt).Perm (data.set hole elt) ∧ st.2.1 < st.1.length ∧ st.2.1 < st.2.2
  | .fail _ b _ => b.Perm (data.set hole elt)
  | .panic => True

theorem sdlPost_perm {elt : α} {data data' : List α} {hole hole' : Nat}
    {r : Res ε α (List α × Nat × Nat)} (h : sdlPost elt data' hole' r)
    (hp : (data'.set hole' elt).Perm (data.set hole elt)) : sdlPost elt data hole r := by
  cases r with
  | ok st m => exact ⟨h.1.trans hp, h.2⟩
  | fail e b m => exact Perm.trans h hp
  | panic => trivial

theorem siftDownLoop_conserves (le : Cmp ε α) (elt : α) (fuel : Nat) (data : List α)
    (hole child n : Nat) (hh : hole < data.length) (hc : hole < child) :
    sdlPost elt data hole (siftDownLoop le elt fuel data hole child n) := by
  induction fuel generalizing data hole child n with
  | zero => trivial
  | succ fuel ih =>
    simp only [siftDownLoop]
    split
    · cases hl : data[child]? with
      | none => trivial
      | some l =>
        cases hr : data[child + 1]? with
        | none => trivial
        | some r =>
          simp only
          cases le n l r with
          | error e => exact Perm.refl _
          | ok c =>
            simp only
            cases hv : data[if c = true then child + 1 else child]? with
            | none => trivial
            | some v =>
              simp only
              have hchl := lt_length_of_getElem? hv
              have hne : hole ≠ (if c = true then child + 1 else child) := by split <;> omega
              have := ih (data.set hole v) (if c = true then child + 1 else child)
                (2 * (if c = true then child + 1 else child) + 1) (n + 1) (by simpa using hchl) (by omega)
              exact sdlPost_perm this (set_set_perm (x := elt) hv hne hh)
    · exact ⟨Perm.refl _, hh, hc⟩

theorem siftDownToBottom_conserves (le : Cmp ε α) (data : List α) (pos n : Nat) :
    Conserves id data (siftDownToBottom le data pos n) := by
  unfold siftDownToBottom
  cases he : data[pos]? with
  | none => trivial
  | some elt =>
    simp only
    have hpos := lt_length_of_getElem? he
    have hl := siftDownLoop_conserves le elt (data.length + 1) data pos (2 * pos + 1) n hpos (by omega)
    generalize siftDownLoop le elt (data.length + 1) data pos (2 * pos + 1) n = res at hl
    cases res with
    | panic => trivial
    | fail e b m =>
      have : b.Perm (data.set pos elt) := hl
      rw [set_self_of_getElem? he] at this
      exact this
    | ok st n1 =>
      obtain ⟨d, hole, child⟩ := st
      obtain ⟨q1, q2, q3⟩ := hl
      simp only at q1 q2 q3
      rw [set_self_of_getElem? he] at q1
      simp only [Res.bind]
      split
      · trivial
      · refine Conserves.map (P := fun p : List α × Nat => p.1) _ (fun _ => rfl) ?_
        by_cases hcl : child = d.length - 1
        · cases hv : d[child]? with
          | none =>
            simp only [hcl, ite_true] at hv ⊢
            exact (siftUp_conserves le pos _ d elt hole n1 q2).perm q1
          | some v =>
            have hchl := lt_length_of_getElem? hv
            simp only [hcl, ite_true] at hv ⊢
            refine (siftUp_conserves le pos _ (d.set hole v) elt _ n1 (by simp; omega)).perm ?_
            exact (set_set_perm hv (by omega) q2).trans q1
        · simp only [hcl, ite_false]
          exact (siftUp_conserves le pos _ d elt hole n1 q2).perm q1

theorem push_conserves (le : Cmp ε α) (data : List α) (item : α) (n : Nat) :
    Conserves id (data ++ [item]) (push le data item n) := by
  unfold push
  refine Conserves.map (P := fun p : List α × Nat => p.1) _ (fun _ => rfl) ?_
  have := siftUp_conserves le 0 (data.length + 1) (data ++ [item]) item data.length n (by simp)
  have hs : (data ++ [item]).set data.length item = data ++ [item] := by
    apply set_self_of_getElem?; simp
  rw [hs] at this
  exact this

end Heap

/-- what `quickselect` owes its caller whatever the comparator does -/
def Select.Post (arr : List α) : Res ε α (α × List α) → Prop
  | .ok v _ => v.2.Perm arr ∧ v.1 ∈ arr
  | .fail _ buf _ => buf.Perm arr
  | .panic => True

/-- what `pop` owes its caller whatever the comparator does -/
def Heap.PopPost (data : List α) : Res ε α (Option α × List α) → Prop
  | .ok (some x, rest) _ => (x :: rest).Perm data
  | .ok (none, rest) _ => data = [] ∧ rest = []
  | .fail _ buf _ => ∃ root, data.head? = some root ∧ (root :: buf).Perm data
  | .panic => True

/-! ## `quickselect` stays inside the array for every comparator (after 9e13c00) -/

/-- post-condition with an index bound: not a panic, and an `ok` payload satisfies `Q` -/
def OkSat (Q : β → Prop) : Res ε α β → Prop
  | .ok v _ => Q v
  | .fail _ _ _ => True
  | .panic => False

theorem OkSat.bind {Q : β → Prop} {Q' : γ → Prop} {r : Res ε α β} {f : β → Nat → Res ε α γ}
    (h : OkSat Q r) (hf : ∀ v n, Q v → OkSat Q' (f v n)) : OkSat Q' (r.bind f) := by
  cases r with
  | ok v n => exact hf v n h
  | fail e b n => trivial
  | panic => exact h

namespace Select

theorem swap_some {l : List α} {i j : Nat} (hi : i < l.length) (hj : j < l.length) :
    ∃ l', swap l i j = some l' ∧ l'.length = l.length := by
  unfold swap
  rw [List.getElem?_eq_getElem hi, List.getElem?_eq_getElem hj]
  exact ⟨_, rfl, by simp⟩

theorem partLoop_ok (cmp : Cmp3 ε α) (pivot : α) (k : Nat) (items : List α) (j ret n : Nat)
    (hret : ret ≤ j) (hjk : j + k ≤ items.length) :
    OkSat (fun p : List α × Nat => p.1.length = items.length ∧ ret ≤ p.2 ∧ p.2 ≤ j + k)
      (partLoop cmp pivot k items j ret n) := by
  induction k generalizing items j ret n with
  | zero => exact ⟨rfl, Nat.le_refl _, hret⟩
  | succ k ih =>
    simp only [partLoop]
    have hj : j < items.length := by omega
    rw [List.getElem?_eq_getElem hj]
    simp only
    cases cmp n items[j] pivot with
    | error e => trivial
    | ok c =>
      simp only
      split
      · obtain ⟨l', hs, hl⟩ := swap_some (l := items) (i := j) (j := ret) hj (by omega)
        rw [hs]
        simp only
        have := ih l' (j + 1) (ret + 1) (n + 1) (by omega) (by omega)
        revert this
        cases partLoop cmp pivot k l' (j + 1) (ret + 1) (n + 1) with
        | ok v m => intro this; exact ⟨by rw [this.1, hl], by have := this.2.1; omega, by have := this.2.2; omega⟩
        | fail e b m => intro _; trivial
        | panic => intro this; exact this
      · have := ih items (j + 1) ret (n + 1) (by omega) (by omega)
        revert this
        cases partLoop cmp pivot k items (j + 1) ret (n + 1) with
        | ok v m => intro this; exact ⟨this.1, this.2.1, by have := this.2.2; omega⟩
        | fail e b m => intro _; trivial
        | panic => intro this; exact this

theorem choosePivot_ok (cmp : Cmp3 ε α) (items : List α) (left right n : Nat)
    (hlr : left ≤ right) (hr : right < items.length) :
    OkSat (fun p : Nat => p < items.length) (choosePivot cmp items left right n) := by
  unfold choosePivot
  have hl : left < items.length := by omega
  have hm : (left + right) / 2 < items.length := by omega
  simp only [List.getElem?_eq_getElem hl, List.getElem?_eq_getElem hr, List.getElem?_eq_getElem hm]
  split
  · trivial
  · split
    · trivial
    · split
      · exact hl
      · split
        · trivial
        · split
          · exact hr
          · exact hm

theorem partition_ok (cmp : Cmp3 ε α) (items : List α) (left right n : Nat)
    (hlr : left ≤ right) (hr : right < items.length) :
    OkSat (fun p : List α × Nat => p.1.length = items.length ∧ left ≤ p.2 ∧ p.2 ≤ right)
      (partition cmp items left right n) := by
  unfold partition
  split
  · rename_i h; exact ⟨rfl, Nat.le_refl _, by omega⟩
  · refine (choosePivot_ok cmp items left right n hlr hr).bind (fun piv n1 hpiv => ?_)
    obtain ⟨items1, hs, hl1⟩ := swap_some (l := items) (i := piv) (j := right) hpiv hr
    rw [hs]
    simp only
    rw [List.getElem?_eq_getElem (by omega : right < items1.length)]
    simp only
    refine (partLoop_ok cmp _ (right - left) items1 left left n1 (Nat.le_refl _) (by omega)).bind
      (fun st n2 hst => ?_)
    obtain ⟨h1, h2, h3⟩ := hst
    obtain ⟨items2, hs2, hl2⟩ := swap_some (l := st.1) (i := st.2) (j := right) (by omega) (by omega)
    rw [hs2]
    exact ⟨by simp only; omega, h2, by simp only; omega⟩

theorem selectLoop_ok (cmp : Cmp3 ε α) (target fuel : Nat) (arr : List α) (left right n : Nat)
    (hlt : left ≤ target) (htr : target ≤ right) (hr : right < arr.length) (hf : right - left < fuel) :
    OkSat (fun _ : α × List α => True) (selectLoop cmp target fuel arr left right n) := by
  induction fuel generalizing arr left right n with
  | zero => omega
  | succ fuel ih =>
    simp only [selectLoop]
    refine (partition_ok cmp arr left right n (by omega) hr).bind (fun st n1 hst => ?_)
    obtain ⟨arr', p⟩ := st
    obtain ⟨h1, h2, h3⟩ := hst
    simp only at h1 h2 h3 ⊢
    split
    · rw [List.getElem?_eq_getElem (by omega : p < arr'.length)]
      trivial
    · split
      · split
        · omega
        · exact ih arr' left (p - 1) n1 hlt (by omega) (by omega) (by omega)
      · exact ih arr' (p + 1) right n1 (by omega) htr (by omega) (by omega)

/-- after the repair 9e13c00: for EVERY comparator (inconsistent ones included) and every rank inside
the array, `quickselect` never indexes out of bounds (and never exhausts the model's fuel) -/
theorem quickselect_ok (cmp : Cmp3 ε α) (arr : List α) (target : Nat) (ht : target < arr.length) :
    quickselect cmp arr target ≠ .panic := by
  unfold quickselect
  split
  · omega
  · have := selectLoop_ok cmp target (arr.length + 1) arr 0 (arr.length - 1) 0 (Nat.zero_le _)
      (by omega) (by omega) (by omega)
    intro h
    rw [h] at this
    exact this

end Select
/-! ## `quickselect` selects the element of the rank asked for (pure total-preorder comparator) -/

namespace Select

theorem swap_get {l l' : List α} {i j : Nat} (h : swap l i j = some l') :
    l'.length = l.length ∧ ∀ k, l'[k]? = if k = j then l[i]? else if k = i then l[j]? else l[k]? := by
  unfold swap at h
  cases hi : l[i]? with
  | none => simp [hi] at h
  | some a =>
    cases hj : l[j]? with
    | none => simp [hi, hj] at h
    | some b =>
      simp only [hi, hj, Option.some.injEq] at h
      subst h
      have hil := lt_length_of_getElem? hi
      have hjl := lt_length_of_getElem? hj
      refine ⟨by simp, fun k => ?_⟩
      simp only [List.getElem?_set, List.length_set]
      by_cases h1 : k = j
      · subst h1; simp [hjl]
      · by_cases h2 : k = i
        · subst h2; simp [hil, Ne.symm h1]; intro e; exact absurd e h1
        · simp [h1, h2, Ne.symm h1, Ne.symm h2]

/-- `arr'` is `arr` with the entries of the index range `[left, right]` rearranged among themselves -/
structure RangeRel (arr arr' : List α) (left right : Nat) : Prop where
  len : arr'.length = arr.length
  out : ∀ i, (i < left ∨ right < i) → arr'[i]? = arr[i]?
  inn : ∀ j, left ≤ j → j ≤ right → ∃ j', left ≤ j' ∧ j' ≤ right ∧ arr'[j]? = arr[j']?

theorem RangeRel.refl (arr : List α) (left right : Nat) : RangeRel arr arr left right :=
  ⟨rfl, fun _ _ => rfl, fun j h1 h2 => ⟨j, h1, h2, rfl⟩⟩

theorem RangeRel.trans {a b c : List α} {left right : Nat} (h1 : RangeRel a b left right)
    (h2 : RangeRel b c left right) : RangeRel a c left right := by
  refine ⟨h2.len.trans h1.len, fun i hi => (h2.out i hi).trans (h1.out i hi), fun j hl hr => ?_⟩
  obtain ⟨j', a1, a2, a3⟩ := h2.inn j hl hr
  obtain ⟨j'', b1, b2, b3⟩ := h1.inn j' a1 a2
  exact ⟨j'', b1, b2, a3.trans b3⟩

theorem RangeRel.of_swap {l l' : List α} {i j left right : Nat} (h : swap l i j = some l')
    (hi1 : left ≤ i) (hi2 : i ≤ right) (hj1 : left ≤ j) (hj2 : j ≤ right) : RangeRel l l' left right := by
  obtain ⟨hl, hg⟩ := swap_get h
  refine ⟨hl, fun k hk => ?_, fun k h1 h2 => ?_⟩
  · rw [hg k]
    have : k ≠ j := by omega
    have : k ≠ i := by omega
    simp [*]
  · rw [hg k]
    by_cases e1 : k = j
    · exact ⟨i, hi1, hi2, by simp [e1]⟩
    · by_cases e2 : k = i
      · exact ⟨j, hj1, hj2, by subst e2; simp [e1]⟩
      · exact ⟨k, h1, h2, by simp [e1, e2]⟩

/-- the comparator never fails, ignores the comparison index and computes `c3` -/
def Pure3 (cmp : Cmp3 ε α) (c3 : α → α → Int) : Prop := ∀ i a b, cmp i a b = .ok (c3 a b)

/-- the routine answers `ok` (no failure, no panic) and the payload satisfies `Q` -/
def PureSat (Q : β → Prop) : Res ε α β → Prop
  | .ok v _ => Q v
  | .fail _ _ _ => False
  | .panic => False

theorem PureSat.mono {Q Q' : β → Prop} {r : Res ε α β} (h : PureSat Q r) (hq : ∀ v, Q v → Q' v) :
    PureSat Q' r := by
  cases r with
  | ok v n => exact hq v h
  | fail e b n => exact h
  | panic => exact h

theorem PureSat.bind {Q : β → Prop} {Q' : γ → Prop} {r : Res ε α β} {f : β → Nat → Res ε α γ}
    (h : PureSat Q r) (hf : ∀ v n, Q v → PureSat Q' (f v n)) : PureSat Q' (r.bind f) := by
  cases r with
  | ok v n => exact hf v n h
  | fail e b n => exact h
  | panic => exact h

section spec
variable {cmp : Cmp3 ε α} {c3 : α → α → Int}

theorem partLoop_spec (hp : Pure3 cmp c3) (pivot : α) (left right : Nat) (k : Nat) (items : List α)
    (j ret n : Nat) (h1 : left ≤ ret) (h2 : ret ≤ j) (h3 : j + k = right) (h4 : right < items.length)
    (hpv : items[right]? = some pivot)
    (hA : ∀ i a, left ≤ i → i < ret → items[i]? = some a → c3 a pivot = -1)
    (hB : ∀ i a, ret ≤ i → i < j → items[i]? = some a → c3 a pivot ≠ -1) :
    PureSat (fun p : List α × Nat => ret ≤ p.2 ∧ p.2 ≤ right ∧ RangeRel items p.1 left right ∧
        p.1[right]? = some pivot ∧
        (∀ i a, left ≤ i → i < p.2 → p.1[i]? = some a → c3 a pivot = -1) ∧
        (∀ i a, p.2 ≤ i → i < right → p.1[i]? = some a → c3 a pivot ≠ -1))
      (partLoop cmp pivot k items j ret n) := by
  induction k generalizing items j ret n with
  | zero =>
    have : j = right := by omega
    subst this
    exact ⟨Nat.le_refl _, h2, RangeRel.refl _ _ _, hpv, hA, hB⟩
  | succ k ih =>
    simp only [partLoop]
    have hj : j < items.length := by omega
    rw [List.getElem?_eq_getElem hj]
    simp only [hp n]
    split
    · rename_i hc
      have hc' : c3 items[j] pivot = -1 := by simpa using hc
      obtain ⟨items', hs, hl⟩ := swap_some (l := items) (i := j) (j := ret) hj (by omega)
      obtain ⟨_, hg⟩ := swap_get hs
      rw [hs]
      simp only
      have hxj : items[j]? = some items[j] := List.getElem?_eq_getElem hj
      refine (ih items' (j + 1) (ret + 1) (n + 1) (by omega) (by omega) (by omega) (by omega) ?_ ?_ ?_).mono ?_
      · rw [hg right]
        have e1 : right ≠ ret := by omega
        have e2 : right ≠ j := by omega
        simp only [e1, e2, ite_false]; exact hpv
      · intro i a hi1 hi2 hia
        rw [hg i] at hia
        by_cases e : i = ret
        · simp only [e, ite_true] at hia
          rw [hxj] at hia
          cases hia; exact hc'
        · have : i ≠ j := by omega
          simp only [e, this, ite_false] at hia
          exact hA i a hi1 (by omega) hia
      · intro i a hi1 hi2 hia
        rw [hg i] at hia
        have e : i ≠ ret := by omega
        by_cases e2 : i = j
        · simp only [e, e2, ite_false, ite_true] at hia
          have : ret ≠ j := by omega
          simp only [e2 ▸ e, ite_false] at hia
          exact hB ret a (Nat.le_refl _) (by omega) hia
        · simp only [e, e2, ite_false] at hia
          exact hB i a (by omega) (by omega) hia
      · intro v hv
        obtain ⟨q1, q2, q3, q4, q5, q6⟩ := hv
        exact ⟨by omega, q2, (RangeRel.of_swap hs (by omega) (by omega) (by omega) (by omega)).trans q3,
          q4, q5, q6⟩
    · rename_i hc
      have hc' : c3 items[j] pivot ≠ -1 := by simpa using hc
      refine (ih items (j + 1) ret (n + 1) h1 (by omega) (by omega) h4 hpv hA ?_).mono (fun v hv => hv)
      intro i a hi1 hi2 hia
      by_cases e : i = j
      · subst e
        rw [List.getElem?_eq_getElem hj] at hia
        cases hia; exact hc'
      · exact hB i a hi1 (by omega) hia

theorem choosePivot_spec (hp : Pure3 cmp c3) (items : List α) (left right n : Nat)
    (hlr : left ≤ right) (hr : right < items.length) :
    PureSat (fun p : Nat => left ≤ p ∧ p ≤ right) (choosePivot cmp items left right n) := by
  unfold choosePivot
  have hl : left < items.length := by omega
  have hm : (left + right) / 2 < items.length := by omega
  have hp' : ∀ i a b, cmp i a b = .ok (c3 a b) := hp
  simp only [List.getElem?_eq_getElem hl, List.getElem?_eq_getElem hr, List.getElem?_eq_getElem hm, hp']
  split
  · exact ⟨Nat.le_refl _, hlr⟩
  · split
    · exact ⟨hlr, Nat.le_refl _⟩
    · exact ⟨by omega, by omega⟩

/-- what `partition` establishes: the returned index `p` lies in the range, the range is rearranged
within itself, everything left of `p` is strictly below the pivot now sitting at `p`, nothing right of it is -/
def PartPost (c3 : α → α → Int) (items : List α) (left right : Nat) (st : List α × Nat) : Prop :=
  left ≤ st.2 ∧ st.2 ≤ right ∧ RangeRel items st.1 left right ∧
  (∀ i a x, left ≤ i → i < st.2 → st.1[i]? = some a → st.1[st.2]? = some x → c3 a x = -1) ∧
  (∀ i a x, st.2 < i → i ≤ right → st.1[i]? = some a → st.1[st.2]? = some x → c3 a x ≠ -1)

theorem partition_spec (hp : Pure3 cmp c3) (items : List α) (left right n : Nat)
    (hlr : left ≤ right) (hr : right < items.length) :
    PureSat (PartPost c3 items left right) (partition cmp items left right n) := by
  unfold partition
  split
  · rename_i h
    subst h
    exact ⟨Nat.le_refl _, Nat.le_refl _, RangeRel.refl _ _ _, fun i a x h1 h2 => by omega,
      fun i a x h1 h2 => by omega⟩
  · rename_i hne
    refine (choosePivot_spec hp items left right n hlr hr).bind (fun piv n1 hpiv => ?_)
    obtain ⟨items1, hs, hl1⟩ := swap_some (l := items) (i := piv) (j := right) (by omega) hr
    rw [hs]
    simp only
    have hr1 : right < items1.length := by omega
    rw [List.getElem?_eq_getElem hr1]
    simp only
    refine (partLoop_spec hp items1[right] left right (right - left) items1 left left n1 (Nat.le_refl _)
      (Nat.le_refl _) (by omega) hr1 (List.getElem?_eq_getElem hr1) (fun i a h1 h2 => by omega)
      (fun i a h1 h2 => by omega)).bind (fun st n2 hst => ?_)
    obtain ⟨q1, q2, q3, q4, q5, q6⟩ := hst
    have hlen : st.1.length = items1.length := q3.len
    obtain ⟨items2, hs2, hl2⟩ := swap_some (l := st.1) (i := st.2) (j := right) (by omega) (by omega)
    obtain ⟨_, hg⟩ := swap_get hs2
    rw [hs2]
    have hst2 : st.2 < st.1.length := by omega
    have hpivot : items2[st.2]? = some items1[right] := by
      rw [hg st.2]
      by_cases e : st.2 = right
      · simp only [e, ite_true]; exact q4
      · simp only [e, ite_false, ite_true]; exact q4
    refine ⟨q1, q2, ?_, ?_, ?_⟩
    · exact ((RangeRel.of_swap hs (by omega) (by omega) hlr (Nat.le_refl _)).trans q3).trans
        (RangeRel.of_swap hs2 (by omega) q2 hlr (Nat.le_refl _))
    · intro i a x h1 h2 hia hx
      simp only at hia hx h2
      rw [hpivot] at hx
      cases hx
      rw [hg i] at hia
      have e1 : i ≠ right := by omega
      have e2 : i ≠ st.2 := by omega
      simp only [e1, e2, ite_false] at hia
      exact q5 i a h1 h2 hia
    · intro i a x h1 h2 hia hx
      simp only at hia hx h1
      rw [hpivot] at hx
      cases hx
      rw [hg i] at hia
      have e2 : i ≠ st.2 := by omega
      by_cases e1 : i = right
      · simp only [e1, ite_true] at hia
        exact q6 st.2 a (Nat.le_refl _) (by omega) hia
      · simp only [e1, e2, ite_false] at hia
        exact q6 i a (by omega) (by omega) hia

/-- a three-way comparison that is a total preorder: `c3 a b = -1` "a below b", `= 1` "a above b",
anything else "tied"; sign-antisymmetric, and "not above" is transitive -/
structure TotalPre (c3 : α → α → Int) : Prop where
  anti : ∀ a b, c3 a b = -1 ↔ c3 b a = 1
  le_trans : ∀ a b c, c3 a b ≠ 1 → c3 b c ≠ 1 → c3 a c ≠ 1

theorem TotalPre.refl (h : TotalPre c3) (a : α) : c3 a a ≠ 1 := by
  intro e
  have := (h.anti a a).mpr e
  omega

theorem TotalPre.le_of_not_lt (h : TotalPre c3) {a b : α} (e : c3 a b ≠ -1) : c3 b a ≠ 1 :=
  fun e' => e ((h.anti a b).mpr e')

def InvL (c3 : α → α → Int) (arr : List α) (left : Nat) : Prop :=
  ∀ i j a b, i < left → left ≤ j → arr[i]? = some a → arr[j]? = some b → c3 a b ≠ 1
def InvR (c3 : α → α → Int) (arr : List α) (right : Nat) : Prop :=
  ∀ i j a b, i ≤ right → right < j → arr[i]? = some a → arr[j]? = some b → c3 a b ≠ 1

theorem InvL.of_rangeRel {arr arr' : List α} {left right : Nat} (h : InvL c3 arr left)
    (hr : RangeRel arr arr' left right) : InvL c3 arr' left := by
  intro i j a b hi hj hia hjb
  rw [hr.out i (Or.inl hi)] at hia
  by_cases hjr : j ≤ right
  · obtain ⟨j', q1, q2, q3⟩ := hr.inn j hj hjr
    rw [q3] at hjb
    exact h i j' a b hi q1 hia hjb
  · rw [hr.out j (Or.inr (by omega))] at hjb
    exact h i j a b hi hj hia hjb

theorem InvR.of_rangeRel {arr arr' : List α} {left right : Nat} (h : InvR c3 arr right)
    (hr : RangeRel arr arr' left right) : InvR c3 arr' right := by
  intro i j a b hi hj hia hjb
  rw [hr.out j (Or.inr hj)] at hjb
  by_cases hil : left ≤ i
  · obtain ⟨i', q1, q2, q3⟩ := hr.inn i hil hi
    rw [q3] at hia
    exact h i' j a b q2 hj hia hjb
  · rw [hr.out i (Or.inl (by omega))] at hia
    exact h i j a b hi hj hia hjb

/-- after a partition round everything at or before `p` is not above everything at or after `p` -/
theorem part_sep (ht : TotalPre c3) {arr' : List α} {left right p : Nat} {x : α}
    (hl : InvL c3 arr' left) (hr : InvR c3 arr' right) (hpl : left ≤ p) (hpr : p ≤ right)
    (hx : arr'[p]? = some x)
    (hlt : ∀ i a x, left ≤ i → i < p → arr'[i]? = some a → arr'[p]? = some x → c3 a x = -1)
    (hge : ∀ i a x, p < i → i ≤ right → arr'[i]? = some a → arr'[p]? = some x → c3 a x ≠ -1) :
    (∀ i a, i ≤ p → arr'[i]? = some a → c3 a x ≠ 1) ∧ (∀ j b, p ≤ j → arr'[j]? = some b → c3 x b ≠ 1) := by
  constructor
  · intro i a hi hia
    by_cases h1 : i < left
    · exact hl i p a x h1 hpl hia hx
    · by_cases h2 : i = p
      · subst h2; rw [hx] at hia; cases hia; exact ht.refl _
      · have := hlt i a x (by omega) (by omega) hia hx
        omega
  · intro j b hj hjb
    by_cases h1 : right < j
    · exact hr p j x b hpr h1 hx hjb
    · by_cases h2 : j = p
      · subst h2; rw [hx] at hjb; cases hjb; exact ht.refl _
      · exact ht.le_of_not_lt (hge j b x (by omega) (by omega) hjb hx)

/-- what `quickselect` delivers: the element at index `target` of the final array, with nothing above it
before and nothing below it after -/
def SelPost (c3 : α → α → Int) (target : Nat) (st : α × List α) : Prop :=
  st.2[target]? = some st.1 ∧ (∀ i a, i < target → st.2[i]? = some a → c3 a st.1 ≠ 1) ∧
    (∀ i a, target < i → st.2[i]? = some a → c3 a st.1 ≠ -1)

theorem selectLoop_spec (hp : Pure3 cmp c3) (ht : TotalPre c3) (target fuel : Nat) (arr : List α)
    (left right n : Nat) (hlt : left ≤ target) (htr : target ≤ right) (hr : right < arr.length)
    (hf : right - left < fuel) (hL : InvL c3 arr left) (hR : InvR c3 arr right) :
    PureSat (SelPost c3 target) (selectLoop cmp target fuel arr left right n) := by
  induction fuel generalizing arr left right n with
  | zero => omega
  | succ fuel ih =>
    simp only [selectLoop]
    refine (partition_spec hp arr left right n (by omega) hr).bind (fun st n1 hst => ?_)
    obtain ⟨arr', p⟩ := st
    obtain ⟨q1, q2, q3, q4, q5⟩ := hst
    simp only at q1 q2 q3 q4 q5 ⊢
    have hL' := hL.of_rangeRel q3
    have hR' := hR.of_rangeRel q3
    have hlen : arr'.length = arr.length := q3.len
    have hpl : p < arr'.length := by omega
    have hx : arr'[p]? = some arr'[p] := List.getElem?_eq_getElem hpl
    obtain ⟨s1, s2⟩ := part_sep ht hL' hR' q1 q2 hx q4 q5
    split
    · rename_i hpt
      rw [hx]
      subst hpt
      refine ⟨hx, fun i a hi hia => s1 i a (by omega) hia, fun i a hi hia => ?_⟩
      have := s2 i a (by omega) hia
      intro e
      exact this ((ht.anti a _).mp e)
    · split
      · split
        · omega
        · refine ih arr' left (p - 1) n1 hlt (by omega) (by omega) (by omega) hL' ?_
          intro i j a b hi hj hia hjb
          exact ht.le_trans a _ b (s1 i a (by omega) hia) (s2 j b (by omega) hjb)
      · refine ih arr' (p + 1) right n1 (by omega) htr (by omega) (by omega) ?_ hR'
        intro i j a b hi hj hia hjb
        exact ht.le_trans a _ b (s1 i a (by omega) hia) (s2 j b (by omega) hjb)

theorem countP_le_of_tail_false (P : α → Bool) (l : List α) (p : Nat)
    (h : ∀ i a, p ≤ i → l[i]? = some a → P a = false) : l.countP P ≤ p := by
  induction l generalizing p with
  | nil => simp
  | cons x t ih =>
    cases p with
    | zero =>
      have : ∀ a ∈ x :: t, ¬ P a = true := by
        intro a ha
        obtain ⟨i, hi⟩ := List.getElem?_of_mem ha
        simp [h i a (Nat.zero_le _) hi]
      simp [List.countP_eq_zero.mpr this]
    | succ p =>
      have := ih p (fun i a hi hia => h (i + 1) a (by omega) (by simpa using hia))
      rw [List.countP_cons]
      split <;> omega

theorem lt_countP_of_head_true (P : α → Bool) (l : List α) (p : Nat) (hp : p < l.length)
    (h : ∀ i a, i ≤ p → l[i]? = some a → P a = true) : p < l.countP P := by
  induction l generalizing p with
  | nil => simp at hp
  | cons x t ih =>
    have hx : P x = true := h 0 x (Nat.zero_le _) (by simp)
    rw [List.countP_cons, if_pos hx]
    cases p with
    | zero => omega
    | succ p =>
      have := ih p (by simpa using hp) (fun i a hi hia => h (i + 1) a (by omega) (by simpa using hia))
      omega

/-- **`quickselect` selects the element of rank `k`** (0-based) for a pure comparator that is a total
preorder: it answers (no failure, no panic, fuel `len + 1` suffices), the answer `x` is an element of the
input, at most `k` elements are strictly below it and more than `k` are not above it — i.e. `x` is tied
with what any sort of the input puts at index `k`. -/
theorem quickselect_rank (hp : Pure3 cmp c3) (ht : TotalPre c3) (arr : List α) (k : Nat)
    (hk : k < arr.length) :
    ∃ x arr' n, quickselect cmp arr k = .ok (x, arr') n ∧ x ∈ arr ∧ arr'.Perm arr ∧
      arr.countP (fun y => decide (c3 y x = -1)) ≤ k ∧ k < arr.countP (fun y => decide (c3 y x ≠ 1)) := by
  unfold quickselect
  rw [if_neg (by omega)]
  have hs := selectLoop_spec hp ht k (arr.length + 1) arr 0 (arr.length - 1) 0 (Nat.zero_le _) (by omega)
    (by omega) (by omega) (fun i j a b hi => by omega)
    (fun i j a b hi hj hia hjb => by
      have := lt_length_of_getElem? hjb
      omega)
  have hc := selectLoop_conserves cmp k (arr.length + 1) arr 0 (arr.length - 1) 0
  cases hr : selectLoop cmp k (arr.length + 1) arr 0 (arr.length - 1) 0 with
  | fail e b m => rw [hr] at hs; exact hs.elim
  | panic => rw [hr] at hs; exact hs.elim
  | ok st m =>
    obtain ⟨x, arr'⟩ := st
    rw [hr] at hs hc
    obtain ⟨s1, s2, s3⟩ := hs
    simp only at s1 s2 s3
    have hperm : arr'.Perm arr := hc
    have hk' : k < arr'.length := by rw [hperm.length_eq]; exact hk
    refine ⟨x, arr', m, rfl, hperm.subset (List.mem_of_getElem? s1), hperm, ?_, ?_⟩
    · rw [← hperm.countP_eq]
      apply countP_le_of_tail_false
      intro i a hi hia
      by_cases e : i = k
      · subst e; rw [s1] at hia; cases hia
        have := ht.refl x
        have h2 := (ht.anti x x)
        simp only [decide_eq_false_iff_not]
        intro e'; exact this (h2.mp e')
      · simpa using s3 i a (by omega) hia
    · rw [← hperm.countP_eq]
      apply lt_countP_of_head_true _ _ _ hk'
      intro i a hi hia
      by_cases e : i = k
      · subst e; rw [s1] at hia; cases hia
        simpa using ht.refl x
      · simpa using s2 i a (by omega) hia

/-- integer comparison (the sign of `a - b`) is a total preorder in the sense of `TotalPre` -/
theorem int_totalPre : TotalPre (fun a b : Int => if a < b then -1 else if b < a then 1 else 0) := by
  constructor
  · intro a b
    split <;> split <;> (try split) <;> (try split) <;> omega
  · intro a b c
    split <;> split <;> (try split) <;> (try split) <;> (try split) <;> (try split) <;> omega

end spec
end Select
/-! ## `TryHeap`: the heap property (pure total-preorder `is_le`), `n_largest` / `n_smallest` -/

namespace Heap
open Select (PureSat)

/-- `is_le` as a total preorder on Bool -/
structure TotalLe (r : α → α → Bool) : Prop where
  total : ∀ a b, r a b = true ∨ r b a = true
  trans : ∀ a b c, r a b = true → r b c = true → r a c = true

/-- the entry at index `i` is `is_le` its parent's -/
def HeapAt (r : α → α → Bool) (d : List α) (i : Nat) : Prop :=
  ∀ c p, d[i]? = some c → d[(i - 1) / 2]? = some p → r c p = true

/-- the binary max-heap property w.r.t. `is_le` -/
def HeapInv (r : α → α → Bool) (d : List α) : Prop := ∀ i, 0 < i → HeapAt r d i

/-- heap everywhere except between `pos` and its parent; the children of `pos` already respect the
parent of `pos` (the state of `sift_up` with the hole at `pos` filled by the travelling element) -/
def SU (r : α → α → Bool) (d : List α) (pos : Nat) : Prop :=
  (∀ i, 0 < i → i ≠ pos → HeapAt r d i) ∧
  (0 < pos → ∀ c, 0 < c → (c - 1) / 2 = pos → ∀ x g, d[c]? = some x → d[(pos - 1) / 2]? = some g →
    r x g = true)

theorem su_step {r : α → α → Bool} (ht : TotalLe r) {d d' : List α} {pos : Nat} {elt p : α}
    (hpos : 0 < pos) (hdp : d[(pos - 1) / 2]? = some p) (hpe : r p elt = true)
    (hSU : SU r d pos)
    (hd' : ∀ i, d'[i]? = if i = (pos - 1) / 2 then some elt else if i = pos then some p else d[i]?) :
    SU r d' ((pos - 1) / 2) := by
  obtain ⟨h1, h2⟩ := hSU
  have h2 := h2 hpos
  constructor
  · intro i hi hne c q hc hq
    rw [hd' i] at hc
    rw [hd' ((i - 1) / 2)] at hq
    simp only [hne, ite_false] at hc
    by_cases e1 : i = pos
    · subst e1
      simp only [ite_true] at hc hq
      cases hc; cases hq; exact hpe
    · simp only [e1, ite_false] at hc
      by_cases e2 : (i - 1) / 2 = (pos - 1) / 2
      · simp only [e2, ite_true] at hq
        cases hq
        have := h1 i hi e1 c p hc (by rw [e2]; exact hdp)
        exact ht.trans _ _ _ this hpe
      · simp only [e2, ite_false] at hq
        by_cases e3 : (i - 1) / 2 = pos
        · simp only [e3, ite_true] at hq
          cases hq
          exact h2 i hi e3 c p hc hdp
        · simp only [e3, ite_false] at hq
          exact h1 i hi e1 c q hc hq
  · intro hpar c hc0 hcp x g hx hg
    rw [hd' c] at hx
    rw [hd' (((pos - 1) / 2 - 1) / 2)] at hg
    have e1 : ((pos - 1) / 2 - 1) / 2 ≠ (pos - 1) / 2 := by omega
    have e2 : ((pos - 1) / 2 - 1) / 2 ≠ pos := by omega
    simp only [e1, e2, ite_false] at hg
    have hpg : r p g = true := h1 ((pos - 1) / 2) hpar (by omega) p g hdp hg
    have e3 : c ≠ (pos - 1) / 2 := by omega
    simp only [e3, ite_false] at hx
    by_cases e4 : c = pos
    · simp only [e4, ite_true] at hx
      cases hx; exact hpg
    · simp only [e4, ite_false] at hx
      have := h1 c hc0 e4 x p hx (by rw [hcp]; exact hdp)
      exact ht.trans _ _ _ this hpg

theorem getElem?_set' {l : List α} {i j : Nat} {v : α} (hi : i < l.length) :
    (l.set i v)[j]? = if j = i then some v else l[j]? := by
  rw [List.getElem?_set]
  by_cases e : i = j
  · subst e; simp [hi]
  · have : j ≠ i := fun h => e h.symm
    simp [e, this]

theorem siftUp_heap {le : Cmp ε α} {r : α → α → Bool} (hp : Pure le r) (ht : TotalLe r)
    (fuel : Nat) (data : List α) (elt : α) (pos n : Nat) (hpos : pos < data.length) (hf : pos < fuel)
    (hSU : SU r (data.set pos elt) pos) :
    PureSat (fun st : List α × Nat => HeapInv r st.1) (siftUp le 0 fuel data elt pos n) := by
  induction fuel generalizing data pos n with
  | zero => omega
  | succ fuel ih =>
    simp only [siftUp]
    split
    · rename_i hgt
      have hpar : (pos - 1) / 2 < data.length := by omega
      rw [List.getElem?_eq_getElem hpar]
      simp only [hp n]
      have hdp : (data.set pos elt)[(pos - 1) / 2]? = some data[(pos - 1) / 2] := by
        rw [getElem?_set' hpos, if_neg (by omega), List.getElem?_eq_getElem hpar]
      cases hc : r elt data[(pos - 1) / 2] with
      | true =>
        simp only
        intro i hi
        by_cases e : i = pos
        · subst e
          intro c p h1 h2
          rw [getElem?_set' hpos, if_pos rfl] at h1
          rw [hdp] at h2
          cases h1; cases h2; exact hc
        · exact hSU.1 i hi e
      | false =>
        simp only
        have hpe : r data[(pos - 1) / 2] elt = true := by
          rcases ht.total data[(pos - 1) / 2] elt with h | h
          · exact h
          · rw [hc] at h; cases h
        refine ih (data.set pos data[(pos - 1) / 2]) ((pos - 1) / 2) (n + 1) (by simpa using hpar)
          (by omega) ?_
        refine su_step ht hgt hdp hpe hSU (fun i => ?_)
        rw [getElem?_set' (by simpa using hpar), getElem?_set' hpos, getElem?_set' hpos]
        by_cases e1 : i = (pos - 1) / 2
        · simp [e1]
        · by_cases e2 : i = pos <;> simp [e1, e2]
    · rename_i hle
      have : pos = 0 := by omega
      subst this
      intro i hi
      exact hSU.1 i hi (by omega)

theorem push_heap {le : Cmp ε α} {r : α → α → Bool} (hp : Pure le r) (ht : TotalLe r)
    (data : List α) (item : α) (n : Nat) (hd : HeapInv r data) :
    PureSat (fun d : List α => HeapInv r d) (push le data item n) := by
  unfold push
  have hs : (data ++ [item]).set data.length item = data ++ [item] := by
    apply set_self_of_getElem?; simp
  have := siftUp_heap hp ht (data.length + 1) (data ++ [item]) item data.length n (by simp) (by omega) (by
    rw [hs]
    constructor
    · intro i hi hne c p h1 h2
      have hil : i < data.length := by
        have := lt_length_of_getElem? h1
        simp at this; omega
      rw [List.getElem?_append_left hil] at h1
      rw [List.getElem?_append_left (by omega)] at h2
      exact hd i hi c p h1 h2
    · intro _ c hc0 hcp x g hx
      have := lt_length_of_getElem? hx
      simp at this; omega)
  revert this
  cases siftUp le 0 (data.length + 1) (data ++ [item]) item data.length n with
  | ok v m => intro h; exact h
  | fail e b m => intro h; exact h
  | panic => intro h; exact h

/-- heap everywhere except at the relations that involve `hole`; the children of `hole` already respect
the parent of `hole` (the state of `sift_down_to_bottom` while the hole travels down) -/
def SD (r : α → α → Bool) (d : List α) (hole : Nat) : Prop :=
  (∀ i, 0 < i → i ≠ hole → (i - 1) / 2 ≠ hole → HeapAt r d i) ∧
  (0 < hole → ∀ c, 0 < c → (c - 1) / 2 = hole → ∀ x g, d[c]? = some x → d[(hole - 1) / 2]? = some g →
    r x g = true)

theorem sd_step {r : α → α → Bool} {d d' : List α} {hole ch : Nat} {v : α}
    (hch0 : 0 < ch) (hchp : (ch - 1) / 2 = hole) (hv : d[ch]? = some v)
    (hother : ∀ o w, 0 < o → (o - 1) / 2 = hole → o ≠ ch → d[o]? = some w → r w v = true)
    (hSD : SD r d hole)
    (hd' : ∀ i, d'[i]? = if i = hole then some v else d[i]?) : SD r d' ch := by
  obtain ⟨h1, h2⟩ := hSD
  constructor
  · intro i hi hne hpne c q hc hq
    rw [hd' i] at hc
    rw [hd' ((i - 1) / 2)] at hq
    by_cases e1 : i = hole
    · subst e1
      simp only [ite_true] at hc
      cases hc
      have e2 : (i - 1) / 2 ≠ i := by omega
      simp only [e2, ite_false] at hq
      exact h2 hi ch hch0 hchp v q hv hq
    · simp only [e1, ite_false] at hc
      by_cases e2 : (i - 1) / 2 = hole
      · simp only [e2, ite_true] at hq
        cases hq
        exact hother i c hi e2 hne hc
      · simp only [e2, ite_false] at hq
        exact h1 i hi e1 e2 c q hc hq
  · intro _ c hc0 hcp x g hx hg
    rw [hd' c] at hx
    rw [hd' ((ch - 1) / 2)] at hg
    have e1 : c ≠ hole := by omega
    simp only [e1, ite_false, hchp, ite_true] at hx hg
    cases hg
    exact h1 c hc0 e1 (by omega) x v hx (by rw [hcp]; exact hv)

def SDLPost (r : α → α → Bool) (len : Nat) (st : List α × Nat × Nat) : Prop :=
  SD r st.1 st.2.1 ∧ st.2.1 < st.1.length ∧ st.2.2 = 2 * st.2.1 + 1 ∧ st.1.length = len ∧
    ¬ st.2.2 ≤ len - 2

theorem siftDownLoop_heap {le : Cmp ε α} {r : α → α → Bool} (hp : Pure le r) (ht : TotalLe r)
    (elt : α) (fuel : Nat) (data : List α) (hole child n : Nat) (hh : hole < data.length)
    (hc : child = 2 * hole + 1) (hf : data.length - hole ≤ fuel) (hSD : SD r data hole) :
    PureSat (SDLPost r data.length) (siftDownLoop le elt fuel data hole child n) := by
  induction fuel generalizing data hole child n with
  | zero => omega
  | succ fuel ih =>
    simp only [siftDownLoop]
    split
    · rename_i hle
      have h1 : child < data.length := by omega
      have h2 : child + 1 < data.length := by omega
      rw [List.getElem?_eq_getElem h1, List.getElem?_eq_getElem h2]
      simp only [hp n]
      cases hcr : r data[child] data[child + 1] with
      | true =>
        simp only [ite_true]
        rw [List.getElem?_eq_getElem h2]
        simp only
        have := ih (data.set hole data[child + 1]) (child + 1) (2 * (child + 1) + 1) (n + 1)
          (by simp; omega) rfl (by simp; omega) ?_
        · rw [List.length_set] at this; exact this
        · refine sd_step (by omega) (by omega) (List.getElem?_eq_getElem h2) ?_ hSD
            (fun i => getElem?_set' hh)
          intro o w ho hop hne how
          have : o = child := by omega
          subst this
          rw [List.getElem?_eq_getElem h1] at how
          cases how; exact hcr
      | false =>
        simp only [Bool.false_eq_true, ite_false]
        rw [List.getElem?_eq_getElem h1]
        simp only
        have := ih (data.set hole data[child]) child (2 * child + 1) (n + 1)
          (by simp; omega) rfl (by simp; omega) ?_
        · rw [List.length_set] at this; exact this
        · refine sd_step (by omega) (by omega) (List.getElem?_eq_getElem h1) ?_ hSD
            (fun i => getElem?_set' hh)
          intro o w ho hop hne how
          have : o = child + 1 := by omega
          subst this
          rw [List.getElem?_eq_getElem h2] at how
          cases how
          rcases ht.total data[child + 1] data[child] with h | h
          · exact h
          · rw [hcr] at h; cases h
    · rename_i hgt
      exact ⟨hSD, hh, hc, rfl, hgt⟩

/-- a hole at a leaf, filled with `elt`: ready for `sift_up` -/
theorem su_of_sd_leaf {r : α → α → Bool} {d : List α} {hole : Nat} {elt : α} (hh : hole < d.length)
    (hleaf : d.length ≤ 2 * hole + 1) (hSD : SD r d hole) : SU r (d.set hole elt) hole := by
  constructor
  · intro i hi hne c p h1 h2
    rw [getElem?_set' hh, if_neg hne] at h1
    have hil := lt_length_of_getElem? h1
    have e : (i - 1) / 2 ≠ hole := by omega
    rw [getElem?_set' hh, if_neg e] at h2
    exact hSD.1 i hi hne e c p h1 h2
  · intro _ c hc0 hcp x g hx
    have := lt_length_of_getElem? hx
    simp at this; omega

theorem siftDownToBottom_heap {le : Cmp ε α} {r : α → α → Bool} (hp : Pure le r) (ht : TotalLe r)
    (data : List α) (n : Nat) (hne : 0 < data.length) (hSD : SD r data 0) :
    PureSat (fun d : List α => HeapInv r d ∧ d.length = data.length) (siftDownToBottom le data 0 n) := by
  unfold siftDownToBottom
  rw [List.getElem?_eq_getElem hne]
  simp only
  refine (siftDownLoop_heap hp ht data[0] (data.length + 1) data 0 (2 * 0 + 1) n hne rfl (by omega) hSD).bind
    (fun st n1 hst => ?_)
  obtain ⟨d, hole, child⟩ := st
  obtain ⟨q1, q2, q3, q4, q5⟩ := hst
  simp only at q1 q2 q3 q4 q5 ⊢
  rw [if_neg (by omega)]
  have fin : ∀ (d2 : List α) (h2 : Nat), h2 < d2.length → d2.length = data.length → d2.length ≤ 2 * h2 + 1 →
      SD r d2 h2 →
      PureSat (fun d : List α => HeapInv r d ∧ d.length = data.length)
        ((siftUp le 0 (h2 + 1) d2 data[0] h2 n1).map (·.1)) := by
    intro d2 h2 hl1 hl2 hleaf hsd
    have hs := siftUp_heap hp ht (h2 + 1) d2 data[0] h2 n1 hl1 (by omega) (su_of_sd_leaf hl1 hleaf hsd)
    have hc := siftUp_conserves le 0 (h2 + 1) d2 data[0] h2 n1 hl1
    revert hs hc
    cases siftUp le 0 (h2 + 1) d2 data[0] h2 n1 with
    | ok v m =>
      intro hs hc
      refine ⟨hs, ?_⟩
      have : v.1.length = (d2.set h2 data[0]).length := (show v.1.Perm _ from hc).length_eq
      simpa [hl2] using this
    | fail e b m => intro hs _; exact hs
    | panic => intro hs _; exact hs
  by_cases hcl : child = d.length - 1
  · have hcl' : child < d.length := by omega
    simp only [hcl, ite_true]
    rw [List.getElem?_eq_getElem (by omega : d.length - 1 < d.length)]
    simp only
    refine fin (d.set hole d[d.length - 1]) (d.length - 1) (by simp; omega) (by simp; omega)
      (by simp; omega) ?_
    refine sd_step (by omega) (by omega) (List.getElem?_eq_getElem (by omega)) ?_ q1
      (fun i => getElem?_set' q2)
    intro o w ho hop hne' how
    have := lt_length_of_getElem? how
    omega
  · simp only [hcl, ite_false]
    exact fin d hole q2 q4 (by omega) q1

theorem TotalLe.refl {r : α → α → Bool} (ht : TotalLe r) (a : α) : r a a = true := by
  rcases ht.total a a with h | h <;> exact h

/-- in a heap every entry is `is_le` the root -/
theorem root_max {r : α → α → Bool} (ht : TotalLe r) {d : List α} (hd : HeapInv r d) :
    ∀ (i : Nat) (x m : α), d[i]? = some x → d[0]? = some m → r x m = true := by
  intro i
  induction i using Nat.strongRecOn with
  | _ i ih =>
    intro x m hx hm
    by_cases h0 : i = 0
    · subst h0; rw [hx] at hm; cases hm; exact ht.refl _
    · have hil := lt_length_of_getElem? hx
      have hpl : (i - 1) / 2 < d.length := by omega
      have hp := List.getElem?_eq_getElem hpl
      exact ht.trans _ _ _ (hd i (by omega) x _ hx hp) (ih ((i - 1) / 2) (by omega) _ m hp hm)

theorem heapInv_nil (r : α → α → Bool) : HeapInv r ([] : List α) := by
  intro i _ c p h; simp at h

/-- what `pop` delivers on a heap with a pure comparator -/
def PopSpec (r : α → α → Bool) (data : List α) (st : Option α × List α) : Prop :=
  match st.1 with
  | none => data = [] ∧ st.2 = []
  | some x => (x :: st.2).Perm data ∧ HeapInv r st.2 ∧ ∀ b ∈ data, r b x = true

theorem pop_spec {le : Cmp ε α} {r : α → α → Bool} (hp : Pure le r) (ht : TotalLe r)
    (data : List α) (n : Nat) (hd : HeapInv r data) :
    PureSat (PopSpec r data) (pop le data n) := by
  unfold pop
  cases hl : data.getLast? with
  | none =>
    have : data = [] := List.getLast?_eq_none_iff.mp hl
    simp [this, PureSat, PopSpec]
  | some last =>
    simp only
    have hdata : data = data.dropLast ++ [last] :=
      (List.dropLast_append_getLast? last (by simpa using hl)).symm
    cases hdl : data.dropLast with
    | nil =>
      simp only
      rw [hdl] at hdata
      refine ⟨by rw [hdata]; simp, heapInv_nil r, ?_⟩
      intro b hb
      rw [hdata] at hb
      simp at hb; subst hb; exact ht.refl _
    | cons root t =>
      simp only
      have hlen : 0 < ((root :: t).set 0 last).length := by simp
      have hroot : data[0]? = some root := by rw [hdata, hdl]; rfl
      have hmax : ∀ b ∈ data, r b root = true := by
        intro b hb
        obtain ⟨i, hi⟩ := List.getElem?_of_mem hb
        exact root_max ht hd i b root hi hroot
      have hperm : (root :: (root :: t).set 0 last).Perm data := by
        rw [hdata, hdl]
        simp only [List.set_cons_zero]
        refine (List.Perm.swap last root t).trans ?_
        simpa using (List.perm_append_comm (l₁ := [last]) (l₂ := root :: t))
      have hSD : SD r ((root :: t).set 0 last) 0 := by
        constructor
        · intro i hi hne hpne c p h1 h2
          simp only [List.set_cons_zero] at h1 h2
          have hil : i < (root :: t).length := by
            have := lt_length_of_getElem? h1; simpa using this
          have e1 : data[i]? = some c := by
            rw [hdata, hdl, List.getElem?_append_left hil]
            cases i with
            | zero => omega
            | succ i' => simpa using h1
          have e2 : data[(i - 1) / 2]? = some p := by
            rw [hdata, hdl, List.getElem?_append_left (by omega)]
            cases hpi : (i - 1) / 2 with
            | zero => omega
            | succ j => rw [hpi] at h2; simpa using h2
          exact hd i hi c p e1 e2
        · intro h; omega
      have hs := siftDownToBottom_heap hp ht ((root :: t).set 0 last) n hlen hSD
      have hc := siftDownToBottom_conserves le ((root :: t).set 0 last) 0 n
      revert hs hc
      cases siftDownToBottom le ((root :: t).set 0 last) 0 n with
      | ok d' m =>
        intro hs hc
        exact ⟨(List.Perm.cons root hc).trans hperm, hs.1, hmax⟩
      | fail e b m => intro hs _; exact hs
      | panic => intro hs _; exact hs

theorem pushAll_heap {le : Cmp ε α} {r : α → α → Bool} (hp : Pure le r) (ht : TotalLe r)
    (data xs : List α) (n : Nat) (hd : HeapInv r data) :
    PureSat (fun d : List α => HeapInv r d ∧ d.Perm (data ++ xs)) (pushAll le data xs n) := by
  induction xs generalizing data n with
  | nil => exact ⟨hd, by simp⟩
  | cons x xs ih =>
    simp only [pushAll]
    have h1 := push_heap hp ht data x n hd
    have h2 := push_conserves le data x n
    revert h1 h2
    cases push le data x n with
    | ok d m =>
      intro h1 h2
      simp only [Res.bind]
      refine (ih d m h1).mono (fun v hv => ⟨hv.1, hv.2.trans ?_⟩)
      have : d.Perm (data ++ [x]) := h2
      simpa using this.append_right xs
    | fail e b m => intro h1 _; exact h1
    | panic => intro h1 _; exact h1

/-- `k` pops from a heap: the `min k len` entries that nothing left behind exceeds, each one not exceeded
by the later ones -/
def PopNSpec (r : α → α → Bool) (data acc : List α) (k : Nat) (st : List α × List α) : Prop :=
  ∃ qs, st.1 = acc.reverse ++ qs ∧ (qs ++ st.2).Perm data ∧ qs.length = min k data.length ∧
    qs.Pairwise (fun a b => r b a = true) ∧ (∀ a ∈ qs, ∀ b ∈ st.2, r b a = true) ∧ HeapInv r st.2

theorem popN_spec {le : Cmp ε α} {r : α → α → Bool} (hp : Pure le r) (ht : TotalLe r)
    (k : Nat) (data acc : List α) (n : Nat) (hd : HeapInv r data) :
    PureSat (PopNSpec r data acc k) (popN le k data acc n) := by
  induction k generalizing data acc n with
  | zero => exact ⟨[], by simp, by simp, by simp, List.Pairwise.nil, by simp, hd⟩
  | succ k ih =>
    simp only [popN]
    refine (pop_spec hp ht data n hd).bind (fun st n1 hst => ?_)
    obtain ⟨o, rest⟩ := st
    cases o with
    | none =>
      obtain ⟨h1, h2⟩ := hst
      simp only at h1 h2
      subst h1; subst h2
      exact ⟨[], by simp, by simp, by simp, List.Pairwise.nil, by simp, heapInv_nil r⟩
    | some x =>
      obtain ⟨h1, h2, h3⟩ := hst
      simp only at h1 h2 h3 ⊢
      refine (ih rest (x :: acc) n1 h2).mono (fun v hv => ?_)
      obtain ⟨qs, q1, q2, q3, q4, q5, q6⟩ := hv
      have hsub : ∀ y, y ∈ qs ++ v.2 → y ∈ data := by
        intro y hy
        exact h1.subset (List.mem_cons_of_mem x (q2.subset hy))
      refine ⟨x :: qs, by simp [q1], ?_, ?_, ?_, ?_, q6⟩
      · exact (List.Perm.cons x q2).trans h1
      · have : data.length = rest.length + 1 := by rw [← h1.length_eq]; simp
        simp only [List.length_cons, q3, this]; omega
      · exact List.pairwise_cons.mpr ⟨fun a ha => h3 a (hsub a (by simp [ha])), q4⟩
      · intro a ha b hb
        rcases List.mem_cons.mp ha with rfl | ha
        · exact h3 b (hsub b (by simp [hb]))
        · exact q5 a ha b hb


/-- what `n_largest` / `n_smallest` deliver: the `min n len` entries that nothing left behind exceeds
(w.r.t. `is_le`), each one not exceeded by the later ones -/
def NLargestSpec (r : α → α → Bool) (xs : List α) (k : Nat) (ps : List α) : Prop :=
  ∃ rest, (ps ++ rest).Perm xs ∧ ps.length = min k xs.length ∧ ps.Pairwise (fun a b => r b a = true) ∧
    ∀ a ∈ ps, ∀ b ∈ rest, r b a = true

theorem nLargest_spec {le : Cmp ε α} {r : α → α → Bool} (hp : Pure le r) (ht : TotalLe r)
    (k : Nat) (xs : List α) : PureSat (NLargestSpec r xs k) (nLargest le k xs) := by
  unfold nLargest
  refine (pushAll_heap hp ht [] xs 0 (heapInv_nil r)).bind (fun d c hd => ?_)
  have hs := popN_spec hp ht k d [] c hd.1
  revert hs
  cases popN le k d [] c with
  | ok v m =>
    intro hs
    obtain ⟨qs, q1, q2, q3, q4, q5, _⟩ := hs
    have hperm : d.Perm xs := by simpa using hd.2
    simp only [Res.map, PureSat]
    refine ⟨v.2, ?_, ?_, ?_, ?_⟩
    · rw [q1]; simpa using q2.trans hperm
    · rw [q1]; simp [q3, hperm.length_eq]
    · rw [q1]; simpa using q4
    · rw [q1]; simpa using q5
  | fail e b m => intro hs; exact hs
  | panic => intro hs; exact hs

end Heap

end XrayModel.Sort
