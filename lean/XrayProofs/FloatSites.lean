/-
C13 — helper lemmas about the checked constructor and construction at a site.
-/
import XrayModel.FloatSites
namespace XrayModel.FloatSites

theorem mk_allFin (D : FloatDom) (x : D.F) : AllFin D (mk D x) := by
  unfold mk
  by_cases h : D.isFin x = true
  · simp [h, AllFin]
  · simp [h, AllFin]

theorem siteOk_of_table {T : List FSite} (hT : sitesOk T = true) {s : Nat} {site : FSite}
    (hs : T[s]? = some site) : site.tag ≠ .unguarded := by
  unfold sitesOk at hT
  rw [List.all_eq_true] at hT
  have := hT site (List.mem_of_getElem? hs)
  intro h
  simp [siteOk, h] at this

/-- construction at a site of an all-guarded table yields only finite floats, provided the raw float is finite
    whenever the code at the call has a closed form -/
theorem construct_allFin (D : FloatDom) {T : List FSite} (hT : sitesOk T = true) (s : Nat) (h? : Option Hyp) (x : D.F)
    (hx : h? ≠ none → D.isFin x = true) : AllFin D (construct D T s h? x) := by
  unfold construct
  cases hs : T[s]? with
  | none => simp [AllFin]
  | some site =>
    have hne := siteOk_of_table hT hs
    simp only
    cases htag : site.tag with
    | guarded => exact mk_allFin D x
    | unguarded => exact absurd htag hne
    | closed h =>
      simp only
      by_cases hh : h? = some h
      · simp only [hh, if_true, AllFin]
        exact hx (by simp [hh])
      · simp [hh, AllFin]

end XrayModel.FloatSites
