/-
C20 helper lemmas for fractions: the generated `gcd` (Euclid with fuel) is total and equals `Int.gcd`;
`fraction n d` is the canonical representative of n/d.
-/
import Generated.StdInt
namespace XrayModel.Conv
open XrayGen

theorem abs_eq (a : Int) : XrayGen.abs a = (a.natAbs : Int) := by
  unfold XrayGen.abs
  split <;> rename_i h <;> simp only [decide_eq_true_eq] at h <;> omega

theorem sign_eq (a : Int) : XrayGen.sign a = if 0 < a then 1 else if a < 0 then -1 else 0 := by
  unfold XrayGen.sign
  simp only [gt_iff_lt, decide_eq_true_eq]

/-- Euclid's loop on non-negative operands: enough fuel ⇒ no error, result `Nat.gcd` -/
theorem helper_spec : ∀ (fuel x y : Nat), x < fuel →
    gcd_helper fuel (x : Int) (y : Int) = (Nat.gcd x y : Int) ∧ gcd_helper_dom fuel (x : Int) (y : Int) = true := by
  intro fuel
  induction fuel with
  | zero => intro x y h; omega
  | succ f ih =>
    intro x y h
    unfold gcd_helper gcd_helper_dom
    by_cases hx : x = 0
    · subst hx
      simp
    · have hx' : ¬ ((x : Int) = 0) := by omega
      have hm : Int.fmod (y : Int) (x : Int) = ((y % x : Nat) : Int) := by
        rw [Int.fmod_eq_emod_of_nonneg _ (by omega), Int.natCast_emod]
      have hlt : y % x < f := by
        have := Nat.mod_lt y (Nat.pos_of_ne_zero hx); omega
      have := ih (y % x) x hlt
      simp only [hx', decide_false, Bool.false_eq_true, if_false, hm, this.1, this.2, ne_eq, not_false_eq_true,
        decide_true, Bool.and_self]
      exact ⟨by rw [Nat.gcd_rec x y], trivial⟩

theorem gcd_spec (a b : Int) : XrayGen.gcd a b = (Int.gcd a b : Int) := by
  unfold XrayGen.gcd
  simp only [abs_eq, Int.natAbs_natCast, decide_eq_true_eq]
  split
  · rw [(helper_spec _ _ _ (Nat.lt_succ_self _)).1]; rfl
  · rw [(helper_spec _ _ _ (Nat.lt_succ_self _)).1, Nat.gcd_comm]; rfl

theorem gcd_total (a b : Int) : gcd_dom a b = true := by
  unfold gcd_dom
  simp only [abs_eq, Int.natAbs_natCast, decide_eq_true_eq]
  split
  · exact (helper_spec _ _ _ (Nat.lt_succ_self _)).2
  · exact (helper_spec _ _ _ (Nat.lt_succ_self _)).2

theorem gcd_natAbs_right (a b : Int) : Int.gcd a (b.natAbs : Int) = Int.gcd a b := by
  unfold Int.gcd; rw [Int.natAbs_natCast]

/-- the canonical form of a fraction: positive denominator, lowest terms -/
def Canonical (f : Fraction) : Prop := 0 < f.d ∧ Int.gcd f.n f.d = 1

theorem fraction_spec (n d : Int) (hd : d ≠ 0) :
    fraction_dom n d = true ∧ Canonical (fraction n d) ∧ (fraction n d).n * d = n * (fraction n d).d := by
  have hgpos : 0 < Int.gcd n d := Int.gcd_pos_of_ne_zero_right n hd
  obtain ⟨n', hn'⟩ := Int.gcd_dvd_left n d
  obtain ⟨d', hd'⟩ := Int.gcd_dvd_right n d
  generalize hg : (Int.gcd n d : Int) = g at hn' hd'
  have hg0 : 0 < g := by omega
  have hd'0 : d' ≠ 0 := by intro h; rw [h, Int.mul_zero] at hd'; exact hd hd'
  -- coprimality of the cofactors
  have hco : Int.gcd n' d' = 1 := by
    have h := Int.gcd_mul_left g n' d'
    rw [← hn', ← hd'] at h
    have h2 : (Int.gcd n d : Int) = (g.natAbs : Int) * (Int.gcd n' d' : Int) := by rw [h]; simp
    rw [hg, Int.natAbs_of_nonneg (by omega)] at h2
    have h3 : g * 1 = g * (Int.gcd n' d' : Int) := by omega
    have := Int.eq_of_mul_eq_mul_left (by omega) h3
    omega
  have hs : XrayGen.sign d = XrayGen.sign d' ∧ (XrayGen.sign d' = 1 ∨ XrayGen.sign d' = -1) := by
    rw [sign_eq, sign_eq]
    by_cases hp : 0 < d'
    · have : 0 < d := by rw [hd']; exact Int.mul_pos hg0 hp
      simp [hp, this]
    · have hneg : d' < 0 := by omega
      have : d < 0 := by rw [hd']; exact Int.mul_neg_of_pos_of_neg hg0 hneg
      have h1 : ¬ 0 < d := by omega
      simp [hp, hneg, this, h1]
  have habs : XrayGen.abs d = g * XrayGen.abs d' := by
    rw [abs_eq, abs_eq, hd', Int.natAbs_mul, Int.natCast_mul, Int.natAbs_of_nonneg (by omega)]
  have hsd : XrayGen.sign d' * d' = XrayGen.abs d' := by
    rw [sign_eq, abs_eq]; split
    · omega
    · split <;> omega
  -- the two exact divisions
  have hnum : Int.fdiv n (g * XrayGen.sign d) = n' * XrayGen.sign d' := by
    rw [hs.1, hn']
    rcases hs.2 with h | h <;> rw [h]
    · rw [Int.mul_one, Int.mul_one, Int.mul_comm, Int.mul_fdiv_cancel _ (by omega)]
    · have : g * n' = (n' * -1) * (g * -1) := by
        rw [Int.mul_comm g n', Int.mul_neg_one, Int.mul_neg_one, Int.neg_mul_neg]
      rw [this, Int.mul_fdiv_cancel _ (by omega)]
  have hden : Int.fdiv (XrayGen.abs d) g = XrayGen.abs d' := by
    rw [habs, Int.mul_comm, Int.mul_fdiv_cancel _ (by omega)]
  unfold fraction_dom fraction Canonical
  simp only [gcd_spec, gcd_total, hg, hnum, hden, Bool.true_and, Bool.and_eq_true, decide_eq_true_eq, ne_eq]
  refine ⟨⟨?_, by omega⟩, ⟨?_, ?_⟩, ?_⟩
  · rcases hs.2 with h | h <;> rw [hs.1, h] <;> omega
  · rw [abs_eq]; omega
  · rw [abs_eq]
    rcases hs.2 with h | h <;> rw [h]
    · rw [Int.mul_one, gcd_natAbs_right]; exact hco
    · have : n' * -1 = -n' := by omega
      rw [this, Int.neg_gcd, gcd_natAbs_right]; exact hco
  · rw [hd', hn', ← hsd]
    simp only [Int.mul_assoc, Int.mul_comm, Int.mul_left_comm]


theorem fraction_zero_den (n : Int) : fraction_dom n 0 = false := by
  unfold fraction_dom
  have : XrayGen.sign 0 = 0 := by decide
  simp [this]

/-- a rational number has only one canonical representative -/
theorem canonical_unique (a b : Fraction) (ha : Canonical a) (hb : Canonical b) (h : a.n * b.d = b.n * a.d) : a = b := by
  obtain ⟨an, ad⟩ := a
  obtain ⟨bn, bd⟩ := b
  unfold Canonical at ha hb
  simp only at ha hb h
  have hN : an.natAbs * bd.natAbs = bn.natAbs * ad.natAbs := by
    have := congrArg Int.natAbs h
    rwa [Int.natAbs_mul, Int.natAbs_mul] at this
  have ca : Nat.Coprime ad.natAbs an.natAbs := by
    have := ha.2; unfold Int.gcd at this; unfold Nat.Coprime; rwa [Nat.gcd_comm]
  have cb : Nat.Coprime bd.natAbs bn.natAbs := by
    have := hb.2; unfold Int.gcd at this; unfold Nat.Coprime; rwa [Nat.gcd_comm]
  have d1 : ad.natAbs ∣ bd.natAbs := ca.dvd_of_dvd_mul_left ⟨bn.natAbs, by rw [hN, Nat.mul_comm]⟩
  have d2 : bd.natAbs ∣ ad.natAbs := cb.dvd_of_dvd_mul_left ⟨an.natAbs, by rw [← hN, Nat.mul_comm]⟩
  have hd : ad = bd := by
    have := Nat.dvd_antisymm d1 d2; omega
  subst hd
  have hn : an = bn := Int.eq_of_mul_eq_mul_right (by omega) h
  subst hn; rfl

theorem fr_floor_bounds (a : Fraction) (h : 0 < a.d) : fr_floor a * a.d ≤ a.n ∧ a.n < (fr_floor a + 1) * a.d := by
  unfold fr_floor
  rw [Int.fdiv_eq_ediv_of_nonneg _ (by omega)]
  exact ⟨Int.ediv_mul_le _ (by omega), Int.lt_ediv_add_one_mul_self _ h⟩

theorem fr_ceil_bounds (a : Fraction) (h : 0 < a.d) : (fr_ceil a - 1) * a.d < a.n ∧ a.n ≤ fr_ceil a * a.d := by
  unfold fr_ceil
  rw [Int.fdiv_eq_ediv_of_nonneg _ (by omega)]
  have h1 := Int.ediv_mul_le (-a.n) (show a.d ≠ 0 by omega)
  have h2 := Int.lt_ediv_add_one_mul_self (-a.n) h
  generalize (-a.n) / a.d = q at *
  constructor
  · have : (-q - 1) * a.d = -((q + 1) * a.d) := by
      rw [Int.add_mul, Int.sub_mul, Int.neg_mul]; omega
    omega
  · have : -q * a.d = -(q * a.d) := Int.neg_mul _ _
    omega

theorem fr_trunc_tdiv (a : Fraction) (h : 0 < a.d) : fr_trunc a = Int.tdiv a.n a.d := by
  unfold fr_trunc fr_floor fr_ceil
  by_cases hn : 0 ≤ a.n
  · simp only [ge_iff_le, hn, decide_true, if_true]
    rw [Int.fdiv_eq_ediv_of_nonneg _ (by omega), Int.tdiv_eq_ediv_of_nonneg hn]
  · simp only [ge_iff_le, hn, decide_false, Bool.false_eq_true, if_false]
    rw [Int.fdiv_eq_ediv_of_nonneg _ (by omega), ← Int.tdiv_eq_ediv_of_nonneg (by omega), Int.neg_tdiv, Int.neg_neg]

theorem fr_pow_pos (a : Fraction) (b : Int) (ha : a.d ≠ 0) (hb : 0 < b) :
    fr_pow_dom a b = true ∧ Canonical (fr_pow a b) ∧
      (fr_pow a b).n * a.d ^ b.toNat = a.n ^ b.toNat * (fr_pow a b).d := by
  have hd : a.d ^ b.toNat ≠ 0 := Int.pow_ne_zero ha
  obtain ⟨h1, h2, h3⟩ := fraction_spec (a.n ^ b.toNat) (a.d ^ b.toNat) hd
  unfold fr_pow_dom fr_pow
  have hb' : (decide (b ≥ 0)) = true := by simp; omega
  have hb0 : ¬ b = 0 := by omega
  simp only [hb', if_true, h1, hb0, decide_false, Bool.and_false, Bool.not_false, Bool.and_true]
  exact ⟨by trivial, h2, h3⟩

theorem fr_mod_spec (a b : Fraction) (ha : a.d ≠ 0) (hb : b.d ≠ 0) (hn : b.n ≠ 0) :
    fr_mod_dom a b = true ∧ Canonical (fr_mod a b) ∧
      (fr_mod a b).n * (a.d * b.d) = Int.fmod (a.n * b.d) (b.n * a.d) * (fr_mod a b).d := by
  obtain ⟨h1, h2, h3⟩ := fraction_spec (Int.fmod (a.n * b.d) (b.n * a.d)) (a.d * b.d) (Int.mul_ne_zero ha hb)
  unfold fr_mod_dom fr_mod
  have : b.n * a.d ≠ 0 := Int.mul_ne_zero hn ha
  simp only [h1, Bool.and_true, decide_eq_true_eq, ne_eq]
  exact ⟨this, h2, h3⟩
end XrayModel.Conv
