/-
Port of the first part of XrayProofs/CoreTco.lean (the no-tail-call invariant `NoTailAt`) to the extended
evaluator XrayModel/CoreX.lean.
-/
import XrayProofs.CoreXBasic
namespace XrayModel.CoreX

def Res.isTail : Res → Bool
  | .tail _ => true
  | _ => false

@[simp] theorem Res.isTail_val (v) : (Res.val v).isTail = false := rfl
@[simp] theorem Res.isTail_viol (v) : (Res.viol v).isTail = false := rfl
@[simp] theorem Res.isTail_stuck (v) : (Res.stuck v).isTail = false := rfl
@[simp] theorem Res.isTail_oof : Res.oof.isTail = false := rfl
@[simp] theorem Res.isTail_tail (v) : (Res.tail v).isTail = true := rfl

/-- an `Except Res α` outcome does not carry a tail call -/
def exNoTail {α : Type} : Except Res α → Prop
  | .ok _ => True
  | .error r => r.isTail = false

structure NoTailAt (n : Nat) (cfg : Cfg) : Prop where
  eval : ∀ fr e tail st, (tail && cfg.tco) = false → (eval n cfg fr e tail st).1.isTail = false
  callNamed : ∀ fr f args tail st, (tail && cfg.tco) = false → (callNamed n cfg fr f args tail st).1.isTail = false
  builtin : ∀ fr f args tail st, (tail && cfg.tco) = false → (builtin n cfg fr f args tail st).1.isTail = false
  callVal : ∀ fr c args tail st, (callVal n cfg fr c args tail st).1.isTail = false
  evalList : ∀ fr es st, exNoTail (evalList n cfg fr es st).1
  mkClos : ∀ fr f st, (mkClos n cfg fr f st).1.isTail = false
  evalDflts : ∀ fr ps st, exNoTail (evalDflts n cfg fr ps st).1
  callUser : ∀ h c args st, (callUser n cfg h c args st).1.isTail = false
  tramp : ∀ h c args rec st, (tramp n cfg h c args rec st).1.isTail = false
  evalDecls : ∀ fr ds st, exNoTail (evalDecls n cfg fr ds st).1


theorem isTail_false_of {x : Res × St} (h : ∀ a s, x = (Res.tail a, s) → False) : x.1.isTail = false := by
  obtain ⟨r, s⟩ := x
  cases r <;> simp_all

theorem exNoTail_of {α} {x : Except Res α × St} (h : ∀ a s, x = (.error (Res.tail a), s) → False) : exNoTail x.1 := by
  obtain ⟨r, s⟩ := x
  cases r with
  | ok _ => trivial
  | error r => cases r <;> simp_all [exNoTail]


theorem NoTailAt.evalList' {n cfg} (ih : NoTailAt n cfg) {fr es st r s}
    (h : CoreX.evalList n cfg fr es st = (.error r, s)) : r.isTail = false := by
  have := ih.evalList fr es st; rw [h] at this; exact this
theorem NoTailAt.evalDflts' {n cfg} (ih : NoTailAt n cfg) {fr es st r s}
    (h : CoreX.evalDflts n cfg fr es st = (.error r, s)) : r.isTail = false := by
  have := ih.evalDflts fr es st; rw [h] at this; exact this
theorem NoTailAt.evalDecls' {n cfg} (ih : NoTailAt n cfg) {fr es st r s}
    (h : CoreX.evalDecls n cfg fr es st = (.error r, s)) : r.isTail = false := by
  have := ih.evalDecls fr es st; rw [h] at this; exact this

theorem getIdx_isTail (vs : List Val) (i : Int) : (getIdx vs i).isTail = false := by
  unfold getIdx
  simp only []
  repeat' split
  all_goals rfl

theorem prim_isTail (f : String) (vs : List Val) : (prim f vs).isTail = false := by
  unfold prim
  repeat' split
  all_goals first | rfl | exact getIdx_isTail _ _

theorem isTail_false_of' {r : Res} (h : ∀ a, r = Res.tail a → False) : r.isTail = false := by
  cases r <;> simp_all

theorem noTailAt (cfg : Cfg) (n : Nat) : NoTailAt n cfg := by
  induction n with
  | zero => constructor <;> intros <;> simp [eval, callNamed, builtin, callVal, evalList, mkClos, evalDflts, callUser, tramp, evalDecls, exNoTail]
  | succ n ih =>
    constructor
    case eval =>
      intro fr e tail st ht
      simp only [eval]
      repeat' split
      all_goals first
        | rfl
        | exact ih.mkClos _ _ _
        | exact ih.callVal _ _ _ _ _
        | exact ih.callNamed _ _ _ _ _ ht
        | (apply isTail_false_of; assumption)
        | exact ih.evalList' (by assumption)
        | simp_all
    case callNamed =>
      intro fr f args tail st ht
      simp only [callNamed]
      repeat' split
      all_goals first
        | exact ih.callVal _ _ _ _ _
        | exact ih.builtin _ _ _ _ _ ht
    case builtin =>
      intro fr f args tail st ht
      simp only [builtin]
      repeat' split
      all_goals first
        | rfl
        | exact ih.eval _ _ _ _ ht
        | (apply isTail_false_of; assumption)
        | exact ih.evalList' (by assumption)
        | exact prim_isTail _ _
        | exact ih.callUser _ _ _ _
    case callVal =>
      intro fr c args tail st
      simp only [callVal]
      repeat' split
      all_goals first
        | rfl
        | exact ih.callUser _ _ _ _
        | exact ih.evalList' (by assumption)
    case evalList =>
      intro fr es st
      simp only [evalList]
      repeat' split
      all_goals first
        | trivial
        | (apply exNoTail_of; assumption)
        | exact ih.evalList _ _ _
        | exact isTail_false_of' (by assumption)
    case mkClos =>
      intro fr f st
      simp only [mkClos]
      repeat' split
      all_goals first
        | rfl
        | exact ih.evalDflts' (by assumption)
    case evalDflts =>
      intro fr ps st
      simp only [evalDflts]
      repeat' split
      all_goals first
        | trivial
        | (apply exNoTail_of; assumption)
        | exact ih.evalDflts _ _ _
        | exact isTail_false_of' (by assumption)
    case callUser =>
      intro h c args st
      simp only [callUser]
      repeat' split
      all_goals first
        | rfl
        | exact ih.tramp _ _ _ _ _
    case tramp =>
      intro h c args rec st
      simp only [tramp]
      repeat' split
      all_goals first
        | rfl
        | exact ih.tramp _ _ _ _ _
        | (apply isTail_false_of; assumption)
        | exact ih.evalDecls' (by assumption)
    case evalDecls =>
      intro fr ds st
      simp only [evalDecls]
      repeat' split
      all_goals first
        | trivial
        | exact ih.evalDecls _ _ _
        | exact isTail_false_of' (by assumption)

theorem Res.isTail_false_iff (r : Res) : r.isTail = false ↔ ∀ a, r ≠ .tail a := by
  cases r <;> simp


end XrayModel.CoreX
