/- Port of XrayProofs/Core.lean to the extended evaluator (XrayModel/CoreX.lean). -/
import XrayModel.CoreX
namespace XrayModel.CoreX

theorem firstErr_isErr {vs : List Val} {e : Val} (h : firstErr vs = some e) : e.isErr = true := by
  induction vs with
  | nil => simp [firstErr] at h
  | cons v rest ih =>
    simp only [firstErr] at h
    split at h
    · cases h; assumption
    · exact ih h

theorem firstErr_none_iff (vs : List Val) : firstErr vs = none ↔ ∀ v ∈ vs, v.isErr = false := by
  induction vs with
  | nil => simp [firstErr]
  | cons v rest ih =>
    simp only [firstErr, List.mem_cons, forall_eq_or_imp]
    split
    · simp_all
    · simp_all

/-- `evalList` only ever hands on error-free values (arguments, tuple and array items) -/
theorem evalList_ok_noErr (fuel : Nat) (cfg : Cfg) (fr : Frame) (es : List Expr) (st st' : St) (vs : List Val)
    (h : evalList fuel cfg fr es st = (.ok vs, st')) : ∀ v ∈ vs, v.isErr = false := by
  induction fuel generalizing es st st' vs with
  | zero => rw [evalList] at h; cases h
  | succ n ih =>
    cases es with
    | nil => rw [evalList] at h; cases h; simp
    | cons e rest =>
      simp only [evalList] at h
      split at h
      · simp at h
      · rename_i v st1 hv hne
        split at h
        · rename_i vs1 st2 hrest
          simp only [Prod.mk.injEq, Except.ok.injEq] at h
          obtain ⟨h1, _⟩ := h
          subst h1
          intro w hw
          simp only [List.mem_cons] at hw
          rcases hw with rfl | hw
          · cases w <;> simp_all [Val.isErr]
          · exact ih rest st1 st2 vs1 hrest w hw
        · rename_i r hr
          cases r with
          | mk a b => cases a <;> simp_all
      · simp at h
      · simp at h

/-- when `evalList` stops early, the outcome it reports is never an ordinary (non-error) value -/
theorem evalList_error_not_value (fuel : Nat) (cfg : Cfg) (fr : Frame) (es : List Expr) (st st' : St) (v : Val)
    (h : evalList fuel cfg fr es st = (.error (.val v), st')) (hv : v.isErr = false) : False := by
  induction fuel generalizing es st st' with
  | zero => rw [evalList] at h; cases h
  | succ n ih =>
    cases es with
    | nil => rw [evalList] at h; cases h
    | cons e rest =>
      simp only [evalList] at h
      split at h
      · simp only [Prod.mk.injEq, Except.error.injEq, Res.val.injEq] at h
        obtain ⟨h1, _⟩ := h
        subst h1
        simp [Val.isErr] at hv
      · split at h
        · cases h
        · exact ih _ _ _ h
      · cases h
      · rename_i r st1 h1 h2 h3 _
        simp only [Prod.mk.injEq, Except.error.injEq] at h
        obtain ⟨h4, _⟩ := h
        exact h2 v h4

end XrayModel.CoreX
