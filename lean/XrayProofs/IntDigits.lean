/-
The `digits` loop of `int.rs` (`IntB.digitsLoop`): the fuel `|n| + 1` suffices, the digits are the
little-endian expansion of `n` (Horner form) and have the sign of `n`.
-/
import XrayProofs.LazyIntOps
namespace XrayModel.Digits
open XrayModel LB

/-- little-endian value of a digit list in base `b` (Horner) -/
def horner (b : Int) (ds : List Int) : Int := ds.foldr (fun d acc => d + b * acc) 0

theorem tdiv_natAbs_lt (n b : Int) (hn : n ≠ 0) (hb : 2 ≤ b) : (n.tdiv b).natAbs < n.natAbs := by
  rw [Int.natAbs_tdiv]
  exact Nat.div_lt_self (by omega) (by omega)

theorem tmod_range (n b : Int) (hb : 2 ≤ b) :
    (0 ≤ n → 0 ≤ n.tmod b ∧ n.tmod b < b) ∧ (n ≤ 0 → -b < n.tmod b ∧ n.tmod b ≤ 0) := by
  constructor
  · intro h; exact ⟨Int.tmod_nonneg _ h, Int.tmod_lt_of_pos _ (by omega)⟩
  · intro h
    have e : n.tmod b = -((-n).tmod b) := by rw [Int.neg_tmod]; omega
    have h1 := Int.tmod_nonneg b (show 0 ≤ -n by omega)
    have h2 := Int.tmod_lt_of_pos (-n) (show 0 < b by omega)
    omega

theorem tdiv_sign (n b : Int) (hb : 2 ≤ b) : (0 ≤ n → 0 ≤ n.tdiv b) ∧ (n ≤ 0 → n.tdiv b ≤ 0) := by
  constructor
  · intro h; exact Int.tdiv_nonneg h (by omega)
  · intro h
    have e : n.tdiv b = -((-n).tdiv b) := by rw [Int.neg_tdiv]; omega
    have := Int.tdiv_nonneg (show 0 ≤ -n by omega) (show 0 ≤ b by omega)
    omega

theorem loop_spec (b : LB) (hb : b.wf) (hb2 : 2 ≤ b.den) :
    ∀ (fuel : Nat) (n : LB) (acc : List LB), n.wf → n.den.natAbs < fuel →
      ∃ ds, IntB.digitsLoop fuel n b acc = some (.ok (acc.reverse ++ ds)) ∧ (∀ d ∈ ds, d.wf) ∧
        horner b.den (ds.map LB.den) = n.den ∧
        (∀ d ∈ ds, (0 ≤ n.den → 0 ≤ d.den ∧ d.den < b.den) ∧ (n.den ≤ 0 → -b.den < d.den ∧ d.den ≤ 0)) := by
  intro fuel
  induction fuel with
  | zero => intro n acc _ h; omega
  | succ fuel ih =>
    intro n acc hn hf
    unfold IntB.digitsLoop
    by_cases hz : LB.isZero n = true
    · rw [if_pos hz]
      have h0 := (isZero_iff n hn).mp hz
      exact ⟨[], by simp, by simp, by simp [horner, h0], by simp⟩
    · rw [if_neg hz]
      have h0 : n.den ≠ 0 := fun h => hz ((isZero_iff n hn).mpr h)
      have hb0 : b.den ≠ 0 := by omega
      obtain ⟨d, hd, hdw, hdd⟩ := Ops.rem_correct n b hn hb hb0
      obtain ⟨q, hq, hqw, hqd⟩ := Ops.div_correct n b hn hb hb0
      rw [hd, hq]; simp only []
      have hlt := tdiv_natAbs_lt n.den b.den h0 hb2
      obtain ⟨ds, hl, hw, hh, hr⟩ := ih q (d :: acc) hqw (by rw [hqd]; omega)
      refine ⟨d :: ds, ?_, ?_, ?_, ?_⟩
      · rw [hl]; simp
      · intro x hx; rcases List.mem_cons.mp hx with h | h
        · rw [h]; exact hdw
        · exact hw x h
      · simp only [List.map_cons, horner, List.foldr_cons]
        have := Int.mul_tdiv_add_tmod n.den b.den
        simp only [horner] at hh
        rw [hh, hqd, hdd]; omega
      · intro x hx
        have hs := tdiv_sign n.den b.den hb2
        rcases List.mem_cons.mp hx with h | h
        · rw [h, hdd]; exact tmod_range n.den b.den hb2
        · have := hr x h
          rw [hqd] at this
          exact ⟨fun h0 => this.1 (hs.1 h0), fun h0 => this.2 (hs.2 h0)⟩

end XrayModel.Digits
