/- C01: step lemmas, part 5 (the natives the evaluator implements itself and the dispatch to the strict natives). -/
import XrayProofs.CoreTypingStep4
import XrayProofs.CoreMono
namespace XrayModel.CoreTyping
open XrayModel.Core

theorem ResOk.mono {Γ fr tail a b r} (hs : sub a b = true) (h : ResOk Γ fr tail a r) : ResOk Γ fr tail b r := by
  cases r <;> simp_all [ResOk]
  exact HasTy.mono _ _ hs h

theorem checkList_nil_inv {Γ : TyEnv} {es : List TExpr} (h : checkList Γ es = some []) : es = [] := by
  cases es with
  | nil => rfl
  | cons e es => simp only [checkList] at h; split at h <;> simp at h

theorem checkList_cons_inv {Γ : TyEnv} {es : List TExpr} {t : Ty} {ts : List Ty} (h : checkList Γ es = some (t :: ts)) :
    ∃ e es', es = e :: es' ∧ check Γ e = some t ∧ checkList Γ es' = some ts := by
  cases es with
  | nil => simp [checkList] at h
  | cons e es =>
    simp only [checkList] at h
    split at h
    · rename_i t' ts' h1 h2
      simp only [Option.some.injEq, List.cons.injEq] at h
      obtain ⟨rfl, rfl⟩ := h
      exact ⟨e, es, rfl, h1, h2⟩
    · cases h

theorem step_builtin {n : Nat} (ih : Inv n) : ∀ cfg fr f args tail st Γ ats τ, FrameTy fr Γ → checkList Γ args = some ats →
    builtinTy f ats = some τ → ResOk Γ fr tail τ (builtin (n+1) cfg fr f (eraseEs args) tail st).1 := by
  intro cfg fr f args tail st Γ ats τ hfr hl hb
  unfold builtinTy at hb
  split at hb
  · unfold lazyTy at hb
    split at hb
    · -- if
      obtain ⟨c, r1, rfl, hc, hl1⟩ := checkList_cons_inv hl
      obtain ⟨a, r2, rfl, ha, hl2⟩ := checkList_cons_inv hl1
      obtain ⟨b, r3, rfl, hb', hl3⟩ := checkList_cons_inv hl2
      cases checkList_nil_inv hl3
      split at hb
      · rename_i hcb
        obtain ⟨hja, hjb⟩ := join_sound hb
        have ihc := ih.eval cfg fr c false st Γ _ hfr hc
        simp only [eraseEs, builtin]
        generalize eval n cfg fr (eraseE c) false st = r at ihc ⊢
        obtain ⟨q1, q2⟩ := r
        cases q1 with
        | val v =>
          simp only [ResOk] at ihc
          rcases (HasTy.mono _ _ hcb ihc).bool_inv with ⟨t, rfl⟩ | ⟨m, rfl⟩
          · cases t
            · simpa using (ih.eval cfg fr b tail q2 Γ _ hfr hb').mono hjb
            · simpa using (ih.eval cfg fr a tail q2 Γ _ hfr ha).mono hja
          · simp [ResOk]; exact .err _ _
        | tail x => simp [ResOk] at ihc
        | stuck w => simp [ResOk] at ihc
        | viol k => simp [ResOk]
        | oof => simp [ResOk]
      · cases hb
    · -- and
      obtain ⟨a, r2, rfl, ha, hl2⟩ := checkList_cons_inv hl
      obtain ⟨b, r3, rfl, hb', hl3⟩ := checkList_cons_inv hl2
      cases checkList_nil_inv hl3
      split at hb
      · rename_i hcb
        simp only [Bool.and_eq_true] at hcb
        simp only [Option.some.injEq] at hb
        subst hb
        have ihc := ih.eval cfg fr a false st Γ _ hfr ha
        simp only [eraseEs, builtin]
        generalize eval n cfg fr (eraseE a) false st = r at ihc ⊢
        obtain ⟨q1, q2⟩ := r
        cases q1 with
        | val v =>
          simp only [ResOk] at ihc
          rcases (HasTy.mono _ _ hcb.1 ihc).bool_inv with ⟨t, rfl⟩ | ⟨m, rfl⟩
          · cases t
            · simp [ResOk]; exact .bool _
            · simpa using (ih.eval cfg fr b tail q2 Γ _ hfr hb').mono hcb.2
          · simp [ResOk]; exact .err _ _
        | tail x => simp [ResOk] at ihc
        | stuck w => simp [ResOk] at ihc
        | viol k => simp [ResOk]
        | oof => simp [ResOk]
      · cases hb
    · -- or
      obtain ⟨a, r2, rfl, ha, hl2⟩ := checkList_cons_inv hl
      obtain ⟨b, r3, rfl, hb', hl3⟩ := checkList_cons_inv hl2
      cases checkList_nil_inv hl3
      split at hb
      · rename_i hcb
        simp only [Bool.and_eq_true] at hcb
        simp only [Option.some.injEq] at hb
        subst hb
        have ihc := ih.eval cfg fr a false st Γ _ hfr ha
        simp only [eraseEs, builtin]
        generalize eval n cfg fr (eraseE a) false st = r at ihc ⊢
        obtain ⟨q1, q2⟩ := r
        cases q1 with
        | val v =>
          simp only [ResOk] at ihc
          rcases (HasTy.mono _ _ hcb.1 ihc).bool_inv with ⟨t, rfl⟩ | ⟨m, rfl⟩
          · cases t
            · simpa using (ih.eval cfg fr b tail q2 Γ _ hfr hb').mono hcb.2
            · simp [ResOk]; exact .bool _
          · simp [ResOk]; exact .err _ _
        | tail x => simp [ResOk] at ihc
        | stuck w => simp [ResOk] at ihc
        | viol k => simp [ResOk]
        | oof => simp [ResOk]
      · cases hb
    · -- if_error
      obtain ⟨a, r2, rfl, ha, hl2⟩ := checkList_cons_inv hl
      obtain ⟨b, r3, rfl, hb', hl3⟩ := checkList_cons_inv hl2
      cases checkList_nil_inv hl3
      obtain ⟨hja, hjb⟩ := join_sound hb
      have ihc := ih.eval cfg fr a false st Γ _ hfr ha
      simp only [eraseEs, builtin]
      generalize eval n cfg fr (eraseE a) false st = r at ihc ⊢
      obtain ⟨q1, q2⟩ := r
      cases q1 with
      | val v =>
        simp only [ResOk] at ihc
        have hv := HasTy.mono _ _ hja ihc
        have key := (ih.eval cfg fr b tail q2 Γ _ hfr hb').mono hjb
        cases v <;> first | (simpa [ResOk] using hv) | (simpa using key)
      | tail x => simp [ResOk] at ihc
      | stuck w => simp [ResOk] at ihc
      | viol k => simp [ResOk]
      | oof => simp [ResOk]
    · -- is_error
      obtain ⟨a, r2, rfl, ha, hl2⟩ := checkList_cons_inv hl
      cases checkList_nil_inv hl2
      simp only [Option.some.injEq] at hb
      subst hb
      have ihc := ih.eval cfg fr a false st Γ _ hfr ha
      simp only [eraseEs, builtin]
      generalize eval n cfg fr (eraseE a) false st = r at ihc ⊢
      obtain ⟨q1, q2⟩ := r
      cases q1 with
      | val v => simp [ResOk]; exact .bool _
      | tail x => simp [ResOk] at ihc
      | stuck w => simp [ResOk] at ihc
      | viol k => simp [ResOk]
      | oof => simp [ResOk]
    · -- display
      obtain ⟨a, r2, rfl, ha, hl2⟩ := checkList_cons_inv hl
      cases checkList_nil_inv hl2
      split at hb
      · rename_i hp
        simp only [Option.some.injEq] at hb
        subst hb
        have ihc := ih.eval cfg fr a false st Γ _ hfr ha
        simp only [eraseEs, builtin]
        generalize eval n cfg fr (eraseE a) false st = r at ihc ⊢
        obtain ⟨q1, q2⟩ := r
        cases q1 with
        | val v =>
          simp only [ResOk] at ihc
          by_cases he : v.isErr = true
          · cases v <;> simp [Val.isErr] at he
            simp [ResOk]; exact .err _ _
          · have he' : v.isErr = false := by simpa using he
            obtain ⟨s, hs⟩ := printable_toStr hp ihc he'
            cases v <;> simp_all [ResOk, toStr, Val.isErr]
        | tail x => simp [ResOk] at ihc
        | stuck w => simp [ResOk] at ihc
        | viol k => simp [ResOk]
        | oof => simp [ResOk]
      · cases hb
    · cases hb
  · -- the strict natives: arguments left to right, then the table
    rename_i hlazy
    split at hb
    · rename_i hstrict
      have ihl := ih.evalList cfg fr args st Γ ats hfr hl
      rcases builtin_shape f (eraseEs args) with ⟨c, a, b, rfl, _⟩ | ⟨a, b, rfl, _⟩ | ⟨a, b, rfl, _⟩ | ⟨a, b, rfl, _⟩ |
        ⟨a, rfl, _⟩ | ⟨a, rfl, _⟩ | hd
      · exact absurd (by decide) hlazy
      · exact absurd (by decide) hlazy
      · exact absurd (by decide) hlazy
      · exact absurd (by decide) hlazy
      · exact absurd (by decide) hlazy
      · exact absurd (by decide) hlazy
      rw [hd n cfg fr tail st]
      simp only [strictCall, hstrict, if_true]
      generalize evalList n cfg fr (eraseEs args) st = r at ihl ⊢
      obtain ⟨r1, r2⟩ := r
      cases r1 with
      | ok vs =>
        simp only [ListOk] at ihl
        obtain ⟨v, hv, hty⟩ := prim_sound hb ihl.1 ihl.2
        simp only [hv, ResOk]; exact hty
      | error x => simpa [ListOk] using ErrOk.resOk ihl
    · cases hb

end XrayModel.CoreTyping
