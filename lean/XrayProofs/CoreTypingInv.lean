/-
C01: the invariants of the soundness proof (typing of frames, outcomes) and the lemmas about
environments, lookups and parameter binding that do not involve evaluation.
-/
import XrayProofs.CoreTyping
namespace XrayModel.CoreTyping
open XrayModel.Core

/-- the bindings a frame can see, nearest first: its cells, then the function it runs (recursion cell) -/
def _root_.XrayModel.Core.Frame.eff (fr : Frame) : List (String × Val) :=
  fr.env ++ (match fr.self with | some s => [s] | none => [])

/-- a frame is typed by a context when the visible bindings have the context's names and types -/
def FrameTy (fr : Frame) (Γ : TyEnv) : Prop := EnvTy fr.eff Γ

/-- the outermost entry of a context -/
def lastTy : TyEnv → Option (String × Ty)
  | [] => none
  | [a] => some a
  | _ :: b :: r => lastTy (b :: r)

/-- a list of argument values fits a parameter list -/
def ArgsTy (vs : List Val) (req opt : List Ty) : Prop :=
  ∃ ats, HasTys vs ats ∧ checkArgs req opt ats = true

/-- a tail self-call handed back to the trampoline: the frame runs a function whose type is the
outermost entry of the context, and the new arguments fit it -/
def TailOk (Γ : TyEnv) (fr : Frame) (vs : List Val) : Prop :=
  ∃ n c req opt ret, fr.self = some (n, c) ∧ lastTy Γ = some (n, .fn req opt ret) ∧ ArgsTy vs req opt

def ResOk (Γ : TyEnv) (fr : Frame) (tail : Bool) (τ : Ty) : Res → Prop
  | .val v => HasTy v τ
  | .tail vs => tail = true ∧ TailOk Γ fr vs
  | .stuck _ => False
  | .viol _ => True
  | .oof => True

def ValOk (τ : Ty) : Res → Prop
  | .val v => HasTy v τ
  | .tail _ => False
  | .stuck _ => False
  | .viol _ => True
  | .oof => True

def ErrOk : Res → Prop
  | .val v => v.isErr = true
  | .tail _ => False
  | .stuck _ => False
  | .viol _ => True
  | .oof => True

def ListOk (ts : List Ty) : Except Res (List Val) → Prop
  | .ok vs => HasTys vs ts ∧ firstErr vs = none
  | .error r => ErrOk r

def DfltsOk (ts : List Ty) : Except Res (List Val) → Prop
  | .ok vs => HasTys vs ts
  | .error r => ErrOk r

def DeclsOk (fr : Frame) (Γ' : TyEnv) : Except Res Frame → Prop
  | .ok fr' => FrameTy fr' Γ' ∧ fr'.self = fr.self ∧ fr'.height = fr.height
  | .error r => ErrOk r

theorem ValOk.resOk {Γ fr tail τ r} (h : ValOk τ r) : ResOk Γ fr tail τ r := by
  cases r <;> simp_all [ValOk, ResOk]

theorem ErrOk.valOk {τ r} (h : ErrOk r) : ValOk τ r := by
  cases r with
  | val v => cases v <;> simp_all [ErrOk, ValOk, Val.isErr]; exact .err _ _
  | _ => simp_all [ErrOk, ValOk]

theorem ErrOk.resOk {Γ fr tail τ r} (h : ErrOk r) : ResOk Γ fr tail τ r := h.valOk.resOk

theorem ValOk.mono {a b r} (hs : sub a b = true) (h : ValOk a r) : ValOk b r := by
  cases r <;> simp_all [ValOk]
  exact HasTy.mono _ _ hs h

/-! ### environments -/

theorem lookup_envTy : ∀ (env : List (String × Val)) (Γ : TyEnv) (x : String), EnvTy env Γ →
    (lookup x env = none ∧ lookupTy x Γ = none) ∨
    (∃ v t, lookup x env = some v ∧ lookupTy x Γ = some t ∧ HasTy v t)
  | [], Γ, x, h => by cases h; simp [lookup, lookupTy]
  | (y, v) :: env, Γ, x, h => by
      cases h with
      | cons hv hr =>
        simp only [lookup, lookupTy]
        by_cases hxy : x = y
        · simp [hxy]; exact hv
        · simp only [hxy, if_false]; exact lookup_envTy env _ x hr

theorem lookup_append (x : String) : ∀ (a b : List (String × Val)),
    lookup x (a ++ b) = (match lookup x a with | some v => some v | none => lookup x b)
  | [], b => by simp [lookup]
  | (y, v) :: a, b => by
      simp only [List.cons_append, lookup]
      by_cases hxy : x = y
      · simp [hxy]
      · simp [hxy]; exact lookup_append x a b

theorem _root_.XrayModel.Core.Frame.get_eq (fr : Frame) (x : String) : fr.get x = lookup x fr.eff := by
  unfold Frame.get Frame.eff
  rw [lookup_append]
  cases h1 : lookup x fr.env with
  | some v => simp
  | none =>
    cases h2 : fr.self with
    | none => simp [lookup]
    | some s =>
      obtain ⟨n, c⟩ := s
      simp only [lookup]
      by_cases hx : x = n
      · simp [hx]
      · have : ¬ n = x := fun h => hx h.symm
        simp [hx, this]

theorem EnvTy.append : ∀ {a : List (String × Val)} {Γa : TyEnv} {b : List (String × Val)} {Γb : TyEnv},
    EnvTy a Γa → EnvTy b Γb → EnvTy (a ++ b) (Γa ++ Γb)
  | [], _, _, _, ha, hb => by cases ha; simpa using hb
  | _ :: a, _, _, _, ha, hb => by
      cases ha with
      | cons hv hr => exact .cons hv (EnvTy.append hr hb)

theorem EnvTy.split_last : ∀ (env : List (String × Val)) (Γ : TyEnv) (n : String) (c : Val),
    EnvTy (env ++ [(n, c)]) Γ → ∃ Γe σ, Γ = Γe ++ [(n, σ)] ∧ EnvTy env Γe ∧ HasTy c σ
  | [], Γ, n, c, h => by
      cases h with
      | cons hv hr => cases hr; exact ⟨[], _, rfl, .nil, hv⟩
  | (y, v) :: env, Γ, n, c, h => by
      cases h with
      | cons hv hr =>
        obtain ⟨Γe, σ, rfl, he, hc⟩ := EnvTy.split_last env _ n c hr
        exact ⟨_ :: Γe, σ, rfl, .cons hv he, hc⟩

theorem EnvTy.lookup_none : ∀ (env : List (String × Val)) (Γ : TyEnv) (x : String), EnvTy env Γ →
    lookup x env = none → lookupTy x Γ = none := by
  intro env Γ x h hn
  rcases lookup_envTy env Γ x h with ⟨_, h2⟩ | ⟨v, t, h1, _, _⟩
  · exact h2
  · rw [hn] at h1; cases h1

theorem lookupTy_append_none (x : String) : ∀ (a b : TyEnv), lookupTy x a = none → lookupTy x (a ++ b) = lookupTy x b
  | [], b, _ => by simp
  | (y, t) :: a, b, h => by
      simp only [lookupTy] at h
      simp only [List.cons_append, lookupTy]
      by_cases hxy : x = y
      · simp [hxy] at h
      · simp [hxy] at h ⊢; exact lookupTy_append_none x a b h

theorem HasTys.get : ∀ {vs : List Val} {ts : List Ty} (i : Nat) {τ : Ty}, HasTys vs ts → ts[i]? = some τ →
    ∃ v, vs[i]? = some v ∧ HasTy v τ
  | _, _, i, τ, .nil, h => by simp at h
  | _, _, 0, τ, .cons hv _, h => by simp at h; subst h; exact ⟨_, by simp, hv⟩
  | _, _, i + 1, τ, .cons _ hr, h => by
      simp at h
      obtain ⟨v, h1, h2⟩ := HasTys.get i hr h
      exact ⟨v, by simpa using h1, h2⟩

theorem lastTy_append_ne : ∀ (Δ Γ : TyEnv), Γ ≠ [] → lastTy (Δ ++ Γ) = lastTy Γ
  | [], Γ, _ => by simp
  | [a], Γ, h => by
      cases Γ with
      | nil => exact absurd rfl h
      | cons b r => simp [lastTy]
  | a :: b :: Δ, Γ, h => by
      have := lastTy_append_ne (b :: Δ) Γ h
      simpa [lastTy] using this

theorem lastTy_snoc (Γ : TyEnv) (x : String × Ty) : lastTy (Γ ++ [x]) = some x := by
  rw [lastTy_append_ne _ _ (by simp)]; rfl


theorem checkDecls_suffix : ∀ (ds : List TDecl) (Γ Γ' : TyEnv), checkDecls Γ ds = some Γ' → ∃ Δ, Γ' = Δ ++ Γ
  | [], Γ, Γ', h => by
      simp only [checkDecls, Option.some.injEq] at h
      exact ⟨[], by simp [h]⟩
  | .letD x ann e :: ds, Γ, Γ', h => by
      simp only [checkDecls] at h
      split at h
      · cases h
      · rename_i τ _
        cases ann with
        | none =>
          simp only at h
          obtain ⟨Δ, rfl⟩ := checkDecls_suffix ds _ _ h
          exact ⟨Δ ++ [(x, τ)], by simp⟩
        | some α =>
          simp only at h
          split at h
          · obtain ⟨Δ, rfl⟩ := checkDecls_suffix ds _ _ h
            exact ⟨Δ ++ [(x, α)], by simp⟩
          · cases h
  | .fnD f :: ds, Γ, Γ', h => by
      obtain ⟨name, ps, ret, dd, body⟩ := f
      cases name with
      | none => simp [checkDecls] at h
      | some n =>
        simp only [checkDecls] at h
        split at h
        · rename_i σ _
          obtain ⟨Δ, rfl⟩ := checkDecls_suffix ds _ _ h
          exact ⟨Δ ++ [(n, σ)], by simp⟩
        · cases h

@[simp] theorem Param.name_mk (n : String) (d : Option Expr) : (Param.mk n d).name = n := rfl
@[simp] theorem Param.dflt_mk (n : String) (d : Option Expr) : (Param.mk n d).dflt = d := rfl

theorem checkArgs_nil_inv {req opt : List Ty} (h : checkArgs req opt [] = true) : req = [] := by
  cases req <;> simp_all [checkArgs]

theorem bindParams_ok : ∀ (ps : List TParam) (Γ : TyEnv) (req opt : List Ty) (args : List Val) (ats : List Ty) (dflts : List Val),
    checkParams Γ ps = some (req, opt) → HasTys args ats → checkArgs req opt ats = true → HasTys dflts opt →
    ∃ bs, bindParams (erasePs ps) args dflts = some bs ∧ EnvTy bs.reverse (paramEnv ps)
  | [], Γ, req, opt, args, ats, dflts, hp, ha, hc, hd => by
      simp only [checkParams, Option.some.injEq, Prod.mk.injEq] at hp
      obtain ⟨rfl, rfl⟩ := hp
      cases ats with
      | nil => cases ha; exact ⟨[], by simp [erasePs, bindParams], by simpa [paramEnv] using EnvTy.nil⟩
      | cons a as => simp [checkArgs] at hc
  | .mk n t none :: ps, Γ, req, opt, args, ats, dflts, hp, ha, hc, hd => by
      simp only [checkParams] at hp
      split at hp
      · rename_i req' opt' hps
        simp only [Option.some.injEq, Prod.mk.injEq] at hp
        obtain ⟨rfl, rfl⟩ := hp
        cases ats with
        | nil => simp [checkArgs] at hc
        | cons a as =>
          simp only [checkArgs, Bool.and_eq_true] at hc
          cases ha with
          | @cons v _ vs _ hv hvs =>
            obtain ⟨bs, hb, he⟩ := bindParams_ok ps Γ req' opt' _ as dflts hps hvs hc.2 hd
            refine ⟨(n, v) :: bs, by simp [erasePs, eraseP, bindParams, hb], ?_⟩
            simp only [List.reverse_cons, paramEnv, TParam.name, TParam.ty]
            exact EnvTy.append he (.cons (HasTy.mono _ _ hc.1 hv) .nil)
      · cases hp
  | .mk n t (some d) :: ps, Γ, req, opt, args, ats, dflts, hp, ha, hc, hd => by
      simp only [checkParams] at hp
      split at hp
      · rename_i dt opt' hd1 hps
        split at hp
        · simp only [Option.some.injEq, Prod.mk.injEq] at hp
          obtain ⟨rfl, rfl⟩ := hp
          cases hd with
          | @cons dv _ dvs _ hdv hdvs =>
            cases ats with
            | nil =>
              cases ha
              obtain ⟨bs, hb, he⟩ := bindParams_ok ps Γ [] opt' [] [] _ hps .nil (by cases opt' <;> simp [checkArgs]) hdvs
              refine ⟨(n, dv) :: bs, by simp [erasePs, eraseP, bindParams, hb], ?_⟩
              simp only [List.reverse_cons, paramEnv, TParam.name, TParam.ty]
              exact EnvTy.append he (.cons hdv .nil)
            | cons a as =>
              simp only [checkArgs, Bool.and_eq_true] at hc
              cases ha with
              | @cons v _ vs _ hv hvs =>
                obtain ⟨bs, hb, he⟩ := bindParams_ok ps Γ [] opt' _ as _ hps hvs hc.2 hdvs
                refine ⟨(n, v) :: bs, by simp [erasePs, eraseP, bindParams, hb], ?_⟩
                simp only [List.reverse_cons, paramEnv, TParam.name, TParam.ty]
                exact EnvTy.append he (.cons (HasTy.mono _ _ hc.1 hv) .nil)
        · cases hp
      · cases hp

end XrayModel.CoreTyping
