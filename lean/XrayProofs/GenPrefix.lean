/- the needed-prefix theorem: the first n steps of a pipeline depend only on the first n steps of its source (C16) -/
import XrayProofs.GenDen2
namespace XrayModel.Gen

/-- two iterators behave alike for `n` steps -/
def Agree (L : Option Nat) : Nat → It → It → Prop
  | 0, _, _ => True
  | n + 1, a, b =>
    match step L a, step L b with
    | .done, .done => True
    | .skip s, .skip t => Agree L n s t
    | .yield x s, .yield y t => x = y ∧ Agree L n s t
    | _, _ => False

theorem agree_refl (L : Option Nat) : ∀ n a, Agree L n a a := by
  intro n
  induction n with
  | zero => intro a; trivial
  | succ n ih => intro a; simp only [Agree]; cases step L a <;> simp [ih]

theorem agree_mono (L : Option Nat) : ∀ n a b, Agree L (n + 1) a b → Agree L n a b := by
  intro n
  induction n with
  | zero => intro a b _; trivial
  | succ n ih =>
    intro a b h
    rw [Agree] at h ⊢
    rcases ha : step L a with ⟨x, s⟩ | s | _ <;> rcases hb : step L b with ⟨y, t⟩ | t | _ <;>
      simp only [ha, hb] at h ⊢
    · exact ⟨h.1, ih _ _ h.2⟩
    · exact ih _ _ h

theorem agree_outs (L : Option Nat) : ∀ n a b, Agree L n a b →
    outs L n a = outs L n b ∧ (after L n a).isSome = (after L n b).isSome := by
  intro n
  induction n with
  | zero => intro a b _; exact ⟨rfl, rfl⟩
  | succ n ih =>
    intro a b h
    rw [Agree] at h
    simp only [outs, after]
    rcases ha : step L a with ⟨x, s⟩ | s | _ <;> rcases hb : step L b with ⟨y, t⟩ | t | _ <;>
      simp only [ha, hb] at h ⊢
    · obtain ⟨rfl, h⟩ := h
      have := ih _ _ h
      exact ⟨by rw [this.1], this.2⟩
    · exact ih _ _ h
    · simp

/-- the shape of one step of the source, and what an adaptor answers to it -/
inductive Sh where
  | done | skip | yld (x : Item)

inductive TO (α : Type) where
  | done
  | skip (a : α)
  | yld (y : Item) (a : α)

def TO.toOut {α : Type} (C : α → It) : TO α → Out
  | .done => .done
  | .skip a => .skip (C a)
  | .yld y a => .yield y (C a)

/-- an adaptor whose step is a function of its own state and of the *shape* of one step of its source behaves
alike on sources that behave alike -/
theorem agree_frame {α : Type} (L : Option Nat) (C : α → It → It) (T : α → Sh → TO α)
    (hT : ∀ a it, step L (C a it) =
      match step L it with
      | .done => (T a .done).toOut (fun a' => C a' it)
      | .skip s => (T a .skip).toOut (fun a' => C a' s)
      | .yield x s => (T a (.yld x)).toOut (fun a' => C a' s)) :
    ∀ n a it it', Agree L n it it' → Agree L n (C a it) (C a it') := by
  intro n
  induction n with
  | zero => intro a it it' _; trivial
  | succ n ih =>
    intro a it it' h
    have hm := agree_mono L n it it' h
    rw [Agree] at h ⊢
    rw [hT a it, hT a it']
    rcases h1 : step L it with ⟨x, s⟩ | s | _ <;> rcases h2 : step L it' with ⟨y, t⟩ | t | _ <;>
      simp only [h1, h2] at h ⊢
    · obtain ⟨rfl, h⟩ := h
      cases T a (.yld x) <;> simp only [TO.toOut]
      · exact ih _ _ _ h
      · exact ⟨trivial, ih _ _ _ h⟩
    · cases T a .skip <;> simp only [TO.toOut]
      · exact ih _ _ _ h
      · exact ⟨trivial, ih _ _ _ h⟩
    · cases T a .done <;> simp only [TO.toOut]
      · exact ih _ _ _ hm
      · exact ⟨trivial, ih _ _ _ hm⟩


/-! ### the adaptors as frames -/

def tMap (f : F) : Unit → Sh → TO Unit
  | _, .done => .done
  | _, .skip => .skip ()
  | _, .yld x => .yld (mapItem f x) ()

theorem agree_map (L : Option Nat) (f : F) (n : Nat) (a b : It) (h : Agree L n a b) :
    Agree L n (.map a f) (.map b f) := by
  refine agree_frame L (fun (_ : Unit) it => It.map it f) (tMap f) ?_ n () a b h
  intro _ it
  rw [step_map]
  cases step L it <;> rfl

def tFilter (p : P) : Permits → Sh → TO Permits
  | _, .done => .done
  | perm, .skip => .skip perm
  | perm, .yld x =>
    match perm.next with
    | (.none, _) => .done
    | (.viol, q) => .yld .viol q
    | (.ok, q) =>
      match x with
      | .viol => .yld .viol q
      | x =>
        match p x with
        | .viol => .yld .viol q
        | .err => .yld .err q
        | .t => .yld x q
        | .f => .skip q

theorem agree_filter (L : Option Nat) (p : P) (perm : Permits) (n : Nat) (a b : It) (h : Agree L n a b) :
    Agree L n (.filter a p perm) (.filter b p perm) := by
  refine agree_frame L (fun (perm : Permits) it => It.filter it p perm) (tFilter p) ?_ n perm a b h
  intro perm it
  rw [step]
  cases step L it with
  | done => rfl
  | skip s => rfl
  | «yield» x s =>
    simp only [tFilter]
    generalize perm.next = r
    obtain ⟨t, q⟩ := r
    cases t with
    | none => rfl
    | viol => rfl
    | ok =>
      cases x with
      | viol => rfl
      | err => dsimp only; generalize p Item.err = r; cases r <;> rfl
      | val v => dsimp only; generalize p (Item.val v) = r; cases r <;> rfl


def tTakeWhile (p : P) : Unit → Sh → TO Unit
  | _, .done => .done
  | _, .skip => .skip ()
  | _, .yld x =>
    match x with
    | .viol => .yld .viol ()
    | x =>
      match p x with
      | .viol => .yld .viol ()
      | .err => .yld .err ()
      | .t => .yld x ()
      | .f => .done

theorem agree_takeWhile (L : Option Nat) (p : P) (n : Nat) (a b : It) (h : Agree L n a b) :
    Agree L n (.takeWhile a p) (.takeWhile b p) := by
  refine agree_frame L (fun (_ : Unit) it => It.takeWhile it p) (tTakeWhile p) ?_ n () a b h
  intro _ it
  rw [step]
  cases step L it with
  | done => rfl
  | skip s => rfl
  | «yield» x s =>
    simp only [tTakeWhile]
    cases x with
    | viol => rfl
    | err => dsimp only; generalize p Item.err = r; cases r <;> rfl
    | val v => dsimp only; generalize p (Item.val v) = r; cases r <;> rfl

def tSkipUntil (p : P) : Bool × Permits → Sh → TO (Bool × Permits)
  | _, .done => .done
  | a, .skip => .skip a
  | (found, perm), .yld x =>
    if found then .yld x (true, perm)
    else
      match perm.next with
      | (.ok, q) =>
        match x with
        | .viol => .yld .viol (false, q)
        | x =>
          match p x with
          | .viol => .yld .viol (false, q)
          | .err => .yld .err (false, q)
          | .t => .yld x (true, q)
          | .f => .skip (false, q)
      | (_, q) => .yld .viol (false, q)

theorem agree_skipUntil (L : Option Nat) (p : P) (found : Bool) (perm : Permits) (n : Nat) (a b : It)
    (h : Agree L n a b) : Agree L n (.skipUntil a p found perm) (.skipUntil b p found perm) := by
  refine agree_frame L (fun (c : Bool × Permits) it => It.skipUntil it p c.1 c.2) (tSkipUntil p) ?_ n (found, perm) a b h
  intro c it
  obtain ⟨found, perm⟩ := c
  rw [step]
  cases step L it with
  | done => rfl
  | skip s => rfl
  | «yield» x s =>
    simp only [tSkipUntil]
    cases found with
    | true => rfl
    | false =>
      simp only [Bool.false_eq_true, ↓reduceIte]
      generalize perm.next = r
      obtain ⟨t, q⟩ := r
      cases t with
      | none => rfl
      | viol => rfl
      | ok =>
        cases x with
        | viol => rfl
        | err => dsimp only; generalize p Item.err = r; cases r <;> rfl
        | val v => dsimp only; generalize p (Item.val v) = r; cases r <;> rfl

def tSlice : Nat × Permits × Option Nat → Sh → TO (Nat × Permits × Option Nat)
  | (_, _, some 0), _ => .done
  | _, .done => .done
  | a, .skip => .skip a
  | (0, perm, t), .yld x => .yld x (0, perm, decTake t)
  | (k + 1, perm, t), .yld x =>
    match perm.next with
    | (.ok, q) =>
      match x with
      | .viol => .yld .viol (k, q, decTake t)
      | _ => .skip (k, q, t)
    | (_, q) => .yld .viol (k + 1, q, decTake t)

theorem agree_slice (L : Option Nat) (k : Nat) (perm : Permits) (t : Option Nat) (n : Nat) (a b : It)
    (h : Agree L n a b) : Agree L n (.slice a k perm t) (.slice b k perm t) := by
  refine agree_frame L (fun (c : Nat × Permits × Option Nat) it => It.slice it c.1 c.2.1 c.2.2) tSlice ?_ n (k, perm, t) a b h
  intro c it
  obtain ⟨k, perm, t⟩ := c
  by_cases ht : t = some 0
  · subst ht
    rw [step]
    cases step L it <;> simp [tSlice, TO.toOut]
  · rw [step]
    rotate_left
    · intro h'; exact ht h'
    have hts : ∀ sh, tSlice (k, perm, t) sh =
        (match sh with
         | .done => TO.done
         | .skip => .skip (k, perm, t)
         | .yld x =>
           match k with
           | 0 => .yld x (0, perm, decTake t)
           | k + 1 =>
             match perm.next with
             | (.ok, q) => (match x with | .viol => .yld .viol (k, q, decTake t) | _ => .skip (k, q, t))
             | (_, q) => .yld .viol (k + 1, q, decTake t)) := by
      intro sh
      cases t with
      | none => cases sh <;> cases k <;> rfl
      | some tt =>
        cases tt with
        | zero => exact absurd rfl ht
        | succ tt => cases sh <;> cases k <;> rfl
    simp only [hts]
    cases step L it with
    | done => rfl
    | skip s => rfl
    | «yield» x s =>
      cases k with
      | zero => rfl
      | succ k =>
        dsimp only
        generalize perm.next = r
        obtain ⟨tk, q⟩ := r
        cases tk with
        | none => rfl
        | viol => rfl
        | ok => cases x <;> rfl

def tAggregate (f : F2) : Item → Sh → TO Item
  | _, .done => .done
  | st, .skip => .skip st
  | st, .yld x =>
    match x with
    | .viol => .yld .viol st
    | x =>
      match f st x with
      | .viol => .yld .viol st
      | r => .yld r r

theorem agree_aggregate_run (L : Option Nat) (f : F2) (st : Item) (n : Nat) (a b : It) (h : Agree L n a b) :
    Agree L n (.aggregate a st f false) (.aggregate b st f false) := by
  refine agree_frame L (fun (st : Item) it => It.aggregate it st f false) (tAggregate f) ?_ n st a b h
  intro st it
  rw [step]
  simp only [Bool.false_eq_true, ↓reduceIte]
  cases step L it with
  | done => rfl
  | skip s => rfl
  | «yield» x s =>
    simp only [tAggregate]
    cases x with
    | viol => rfl
    | err => dsimp only; generalize f st Item.err = r; cases r <;> rfl
    | val v => dsimp only; generalize f st (Item.val v) = r; cases r <;> rfl

/-- the first step of `aggregate` yields the initial state without touching its source -/
theorem agree_aggregate (L : Option Nat) (f : F2) (st : Item) (first : Bool) (n : Nat) (a b : It)
    (h : Agree L n a b) : Agree L n (.aggregate a st f first) (.aggregate b st f first) := by
  cases first with
  | false => exact agree_aggregate_run L f st n a b h
  | true =>
    cases n with
    | zero => trivial
    | succ n =>
      rw [Agree]
      have e : ∀ it, step L (.aggregate it st f true) = .yield st (.aggregate it st f false) := by
        intro it; rw [step]; simp
      rw [e a, e b]
      exact ⟨rfl, agree_aggregate_run L f st n a b (agree_mono L n a b h)⟩

def tWithCount (eq : V → V → Bool) : List (V × Nat) → Sh → TO (List (V × Nat))
  | _, .done => .done
  | seen, .skip => .skip seen
  | seen, .yld x =>
    match x with
    | .viol => .yld .viol seen
    | .err => .yld .err seen
    | .val v => .yld (.val (.tup [v, .int (bump eq v seen).1])) (bump eq v seen).2

theorem agree_withCount (L : Option Nat) (eq : V → V → Bool) (seen : List (V × Nat)) (n : Nat) (a b : It)
    (h : Agree L n a b) : Agree L n (.withCount a eq seen) (.withCount b eq seen) := by
  refine agree_frame L (fun (seen : List (V × Nat)) it => It.withCount it eq seen) (tWithCount eq) ?_ n seen a b h
  intro seen it
  rw [step]
  cases step L it with
  | done => rfl
  | skip s => rfl
  | «yield» x s => cases x <;> rfl

def tWindows (size : Nat) : List V × Permits → Sh → TO (List V × Permits)
  | _, .done => .done
  | a, .skip => .skip a
  | (mem, perm), .yld x =>
    match perm.next with
    | (.none, _) => .done
    | (.viol, q) => .yld .viol (mem, q)
    | (.ok, q) =>
      match x with
      | .val v =>
        if (mem ++ [v]).length == size then .yld (.val (.seq (mem ++ [v]))) ((mem ++ [v]).tail, q)
        else .skip (mem ++ [v], q)
      | x => .yld x (mem, q)

theorem agree_windows (L : Option Nat) (size : Nat) (mem : List V) (perm : Permits) (n : Nat) (a b : It)
    (h : Agree L n a b) : Agree L n (.windows a size mem perm) (.windows b size mem perm) := by
  refine agree_frame L (fun (c : List V × Permits) it => It.windows it size c.1 c.2) (tWindows size) ?_ n (mem, perm) a b h
  intro c it
  obtain ⟨mem, perm⟩ := c
  rw [step]
  cases step L it with
  | done => rfl
  | skip s => rfl
  | «yield» x s =>
    simp only [tWindows]
    generalize perm.next = r
    obtain ⟨t, q⟩ := r
    cases t with
    | none => rfl
    | viol => rfl
    | ok =>
      cases x with
      | viol => rfl
      | err => rfl
      | val v =>
        dsimp only
        by_cases hl : ((mem ++ [v]).length == size) = true
        · rw [if_pos hl, if_pos hl]; rfl
        · rw [if_neg hl, if_neg hl]; rfl

def tBudget : Permits → Sh → TO Permits
  | _, .done => .done
  | perm, .skip => .skip perm
  | perm, .yld x =>
    match perm.next with
    | (.none, _) => .done
    | (.viol, q) => .yld .viol q
    | (.ok, q) => .yld x q

theorem agree_budget (L : Option Nat) (perm : Permits) (n : Nat) (a b : It) (h : Agree L n a b) :
    Agree L n (.budget a perm) (.budget b perm) := by
  refine agree_frame L (fun (perm : Permits) it => It.budget it perm) tBudget ?_ n perm a b h
  intro perm it
  rw [step]
  cases step L it with
  | done => rfl
  | skip s => rfl
  | «yield» x s =>
    simp only [tBudget]
    generalize perm.next = r
    obtain ⟨t, q⟩ := r
    cases t <;> rfl


def tGroup (eq : P2) : List V × Permits × Bool → Sh → TO (List V × Permits × Bool)
  | (_, _, true), _ => .done
  | (cur, perm, false), .skip => .skip (cur, perm, false)
  | (cur, perm, false), .done =>
    match perm.next with
    | (.none, _) => .done
    | (.viol, q) => .yld .viol (cur, q, true)
    | (.ok, q) =>
      match cur with
      | [] => .done
      | c :: cs => .yld (.val (.seq (c :: cs))) ([], q, true)
  | (cur, perm, false), .yld x =>
    match perm.next with
    | (.none, _) => .done
    | (.viol, q) => .yld .viol (cur, q, false)
    | (.ok, q) =>
      match x with
      | .val v =>
        match cur with
        | [] => .skip ([v], q, false)
        | k :: ks =>
          match eq (.val k) (.val v) with
          | .t => .skip (k :: ks ++ [v], q, false)
          | .f => .yld (.val (.seq (k :: ks))) ([v], q, false)
          | .err => .yld .err (k :: ks, q, false)
          | .viol => .yld .viol (k :: ks, q, false)
      | x => .yld x (cur, q, false)

theorem agree_group (L : Option Nat) (eq : P2) (cur : List V) (perm : Permits) (flushed : Bool) (n : Nat) (a b : It)
    (h : Agree L n a b) : Agree L n (.group a eq cur perm flushed) (.group b eq cur perm flushed) := by
  refine agree_frame L (fun (c : List V × Permits × Bool) it => It.group it eq c.1 c.2.1 c.2.2) (tGroup eq) ?_ n
    (cur, perm, flushed) a b h
  intro c it
  obtain ⟨cur, perm, flushed⟩ := c
  rw [step]
  cases flushed with
  | true => cases step L it <;> simp [tGroup, TO.toOut]
  | false =>
    simp only [Bool.false_eq_true, ↓reduceIte]
    cases step L it with
    | skip s => rfl
    | done =>
      simp only [tGroup]
      generalize perm.next = r
      obtain ⟨t, q⟩ := r
      cases t with
      | none => rfl
      | viol => rfl
      | ok => cases cur <;> rfl
    | «yield» x s =>
      simp only [tGroup]
      generalize perm.next = r
      obtain ⟨t, q⟩ := r
      cases t with
      | none => rfl
      | viol => rfl
      | ok =>
        cases x with
        | viol => rfl
        | err => rfl
        | val v =>
          cases cur with
          | nil => rfl
          | cons k ks => dsimp only; generalize eq (Item.val k) (Item.val v) = r; cases r <;> rfl

/-! ### pipelines of unary adaptors -/

/-- the unary adaptors of the model (every constructor of `G` with exactly one generator argument, except `repeat`,
which restarts its argument) -/
inductive UA where
  | map (f : F)
  | filter (p : P)
  | slice (a : Nat) (b : Option Nat)
  | takeWhile (p : P)
  | skipUntil (p : P)
  | aggregate (init : Item) (f : F2)
  | withCount (eq : V → V → Bool)
  | group (eq : P2)
  | windows (k : Nat)

def UA.toG : UA → G → G
  | .map f, g => .map g f
  | .filter p, g => .filter g p
  | .slice a b, g => .slice g a b
  | .takeWhile p, g => .takeWhile g p
  | .skipUntil p, g => .skipUntil g p
  | .aggregate i f, g => .aggregate g i f
  | .withCount e, g => .withCount g e
  | .group e, g => .group g e
  | .windows k, g => .windows g k

def UA.apply (L : Option Nat) : UA → It → It
  | .map f, it => .map it f
  | .filter p, it => .filter it p (Permits.ofLimit L)
  | .slice a b, it => .slice it a (Permits.ofLimit L) (b.map (· - a))
  | .takeWhile p, it => .takeWhile it p
  | .skipUntil p, it => .skipUntil it p false (Permits.ofLimit L)
  | .aggregate i f, it => .aggregate it i f true
  | .withCount e, it => .withCount it e []
  | .group e, it => .group it e [] (Permits.ofLimit L) false
  | .windows k, it => .windows it k [] (Permits.ofLimit L)

theorem start_toG (L : Option Nat) (A : UA) (g : G) : (A.toG g).start L = A.apply L (g.start L) := by
  cases A <;> simp [UA.toG, UA.apply, G.start]

theorem agree_ua (L : Option Nat) (A : UA) (n : Nat) (a b : It) (h : Agree L n a b) :
    Agree L n (A.apply L a) (A.apply L b) := by
  cases A with
  | map f => exact agree_map L f n a b h
  | filter p => exact agree_filter L p _ n a b h
  | slice k t => exact agree_slice L k _ _ n a b h
  | takeWhile p => exact agree_takeWhile L p n a b h
  | skipUntil p => exact agree_skipUntil L p false _ n a b h
  | aggregate i f => exact agree_aggregate L f i true n a b h
  | withCount e => exact agree_withCount L e [] n a b h
  | group e => exact agree_group L e [] _ false n a b h
  | windows k => exact agree_windows L k [] _ n a b h

/-- a pipeline: the adaptors applied one after the other -/
def pipeG (As : List UA) (g : G) : G := As.foldl (fun g A => A.toG g) g
def pipeIt (L : Option Nat) (As : List UA) (it : It) : It := As.foldl (fun it A => A.apply L it) it

theorem start_pipeG (L : Option Nat) : ∀ (As : List UA) (g : G), (pipeG As g).start L = pipeIt L As (g.start L) := by
  intro As
  induction As with
  | nil => intro g; rfl
  | cons A As ih => intro g; simp only [pipeG, pipeIt, List.foldl_cons] at ih ⊢; rw [ih, start_toG]

theorem agree_pipe (L : Option Nat) : ∀ (As : List UA) (n : Nat) (a b : It), Agree L n a b →
    Agree L n (pipeIt L As a) (pipeIt L As b) := by
  intro As
  induction As with
  | nil => intro n a b h; exact h
  | cons A As ih => intro n a b h; exact ih n _ _ (agree_ua L A n a b h)

/-- two arrays with a common prefix behave alike for as many steps as the prefix is long -/
theorem agree_arr_prefix (L : Option Nat) : ∀ (pre r1 r2 : List V) (n : Nat), n ≤ pre.length →
    Agree L n (.arr (pre ++ r1)) (.arr (pre ++ r2)) := by
  intro pre
  induction pre with
  | nil => intro r1 r2 n h; have : n = 0 := by simpa using h
           subst this; trivial
  | cons v pre ih =>
    intro r1 r2 n h
    cases n with
    | zero => trivial
    | succ n =>
      rw [Agree]
      simp only [List.cons_append, step]
      exact ⟨trivial, ih r1 r2 n (by simpa using h)⟩

end XrayModel.Gen
