/-
Pure integer facts used by the C14 proofs: the nonlinear ones (`omega` treats products and
quotients with a variable divisor as atoms).  Nothing here mentions the model.
-/
import Mathlib.Tactic.Linarith
namespace XrayModel.Arith

/-- a product of two values outside the `i64` range is outside the `i64` range -/
theorem mul_big (a b : Int)
    (ha : a < -9223372036854775808 ∨ 9223372036854775807 < a)
    (hb : b < -9223372036854775808 ∨ 9223372036854775807 < b) :
    a * b < -9223372036854775808 ∨ 9223372036854775807 < a * b := by
  rcases ha with ha | ha <;> rcases hb with hb | hb
  · right; nlinarith
  · left; nlinarith
  · left; nlinarith
  · right; nlinarith

theorem natAbs_two_le (b : Int) (h0 : b ≠ 0) (h1 : b ≠ -1) (h2 : b ≠ 1) : 2 ≤ b.natAbs := by omega

/-- truncated quotient of an `i64` by anything but `0`, `-1` is an `i64` -/
theorem tdiv_fits (a b : Int) (ha : -9223372036854775808 ≤ a ∧ a ≤ 9223372036854775807)
    (h0 : b ≠ 0) (h1 : b ≠ -1) :
    -9223372036854775808 ≤ a.tdiv b ∧ a.tdiv b ≤ 9223372036854775807 := by
  by_cases h2 : b = 1
  · subst h2; rw [Int.tdiv_one]; exact ha
  · have hb := natAbs_two_le b h0 h1 h2
    have h := Int.natAbs_tdiv a b
    have h3 : a.natAbs.div b.natAbs ≤ a.natAbs / 2 := Nat.div_le_div_left hb (by decide)
    omega

/-- `|tdiv a b| ≤ |a|` -/
theorem natAbs_tdiv_le (a b : Int) : (a.tdiv b).natAbs ≤ a.natAbs := by
  rw [Int.natAbs_tdiv]; exact Nat.div_le_self _ _

theorem tdiv_bound2 (a b : Int) (hb : 2 ≤ b.natAbs) : (a.tdiv b).natAbs ≤ a.natAbs / 2 := by
  rw [Int.natAbs_tdiv]; exact Nat.div_le_div_left hb (by decide)

/-- `fdiv` is `tdiv` or `tdiv - 1` -/
theorem fdiv_tdiv (a b : Int) : a.fdiv b = a.tdiv b ∨ a.fdiv b = a.tdiv b - 1 := by
  rw [Int.fdiv_eq_tdiv]
  have hs : b < 0 → b.sign = -1 := fun h => Int.sign_eq_neg_one_iff_neg.mpr h
  have hp : 0 < b → b.sign = 1 := fun h => Int.sign_eq_one_iff_pos.mpr h
  by_cases hb0 : b = 0
  · subst hb0; simp
  split
  · left; omega
  · split <;> split
    · left; omega
    · right; omega
    · right; have := hp (by omega); omega
    · left; have := hs (by omega); omega

/-- floored quotient of an `i64` by anything but `0`, `-1` is an `i64` -/
theorem fdiv_fits (a b : Int) (ha : -9223372036854775808 ≤ a ∧ a ≤ 9223372036854775807)
    (h0 : b ≠ 0) (h1 : b ≠ -1) :
    -9223372036854775808 ≤ a.fdiv b ∧ a.fdiv b ≤ 9223372036854775807 := by
  by_cases h2 : b = 1
  · subst h2; rw [Int.fdiv_one]; exact ha
  · have hb := natAbs_two_le b h0 h1 h2
    have h3 := tdiv_bound2 a b hb
    rcases fdiv_tdiv a b with h | h <;> omega

/-- ceiling quotient (`-(fdiv (-a) b)`) of an `i64` by anything but `0`, `-1` is an `i64` -/
theorem cdiv_fits (a b : Int) (ha : -9223372036854775808 ≤ a ∧ a ≤ 9223372036854775807)
    (h0 : b ≠ 0) (h1 : b ≠ -1) :
    -9223372036854775808 ≤ -((-a).fdiv b) ∧ -((-a).fdiv b) ≤ 9223372036854775807 := by
  by_cases h2 : b = 1
  · subst h2; rw [Int.fdiv_one]; omega
  · have hb := natAbs_two_le b h0 h1 h2
    have h3 := tdiv_bound2 (-a) b hb
    rcases fdiv_tdiv (-a) b with h | h <;> omega

/-- truncated remainder of anything by a nonzero `i64` is an `i64` -/
theorem tmod_fits (a b : Int) (hb : -9223372036854775808 ≤ b ∧ b ≤ 9223372036854775807) (h0 : b ≠ 0) :
    -9223372036854775808 ≤ a.tmod b ∧ a.tmod b ≤ 9223372036854775807 := by
  have h := Int.natAbs_tmod a b
  have h2 : a.natAbs % b.natAbs < b.natAbs := Nat.mod_lt _ (by omega)
  omega

theorem tmod_neg_one (a : Int) : a.tmod (-1) = 0 := by
  rw [Int.tmod_neg, Int.tmod_one]

theorem tdiv_neg_one (a : Int) : a.tdiv (-1) = -a := by
  rw [Int.tdiv_neg, Int.tdiv_one]

theorem fdiv_neg_one (a : Int) : a.fdiv (-1) = -a := by
  rw [Int.fdiv_eq_ediv_of_dvd ⟨-a, by omega⟩]; omega

theorem cdiv_neg_one (a : Int) : -((-a).fdiv (-1)) = -a := by
  rw [fdiv_neg_one]; omega

/-- the floored modulo obtained from the truncated remainder the way `int.rs` does it -/
theorem fmod_of_tmod (a b : Int) :
    a.fmod b = if a.tmod b ≠ 0 ∧ (decide (a.tmod b < 0) != decide (b < 0)) = true
      then a.tmod b + b else a.tmod b := by
  rw [Int.fmod_eq_tmod]
  have hs := Int.sign_tmod a b
  have hd : b ∣ a ↔ a.tmod b = 0 := Int.dvd_iff_tmod_eq_zero
  by_cases hdv : b ∣ a
  · have := hd.mp hdv; simp [hdv, this]
  · have hne : a.tmod b ≠ 0 := fun h => hdv (hd.mpr h)
    rw [if_neg hdv] at hs
    simp only [if_neg hdv, hne, ne_eq, not_false_eq_true, true_and, bne_iff_ne, decide_eq_decide]
    have hsgn : (a.tmod b < 0 ↔ a < 0) := by
      constructor
      · intro h; have := Int.sign_eq_neg_one_iff_neg.mpr h; rw [hs] at this
        exact Int.sign_eq_neg_one_iff_neg.mp this
      · intro h; have := Int.sign_eq_neg_one_iff_neg.mpr h; rw [← hs] at this
        exact Int.sign_eq_neg_one_iff_neg.mp this
    by_cases ha : 0 ≤ a <;> by_cases hb' : 0 ≤ b <;> simp only [ha, hb', if_true, if_false] <;>
      split <;> omega

/-- characterisation of the ceiling quotient `q = -(fdiv (-a) b)`: `a = q*b - r`, `r` between 0 and `b` -/
theorem cdiv_char (a b : Int) (hb : b ≠ 0) :
    ∃ r, a = (-((-a).fdiv b)) * b - r ∧ (0 < b → 0 ≤ r ∧ r < b) ∧ (b < 0 → b < r ∧ r ≤ 0) := by
  refine ⟨(-a).fmod b, ?_, ?_, ?_⟩
  · have := Int.mul_fdiv_add_fmod (-a) b
    have e : -(-a).fdiv b * b = -(b * (-a).fdiv b) := by rw [Int.neg_mul, Int.mul_comm]
    omega
  · intro h; exact ⟨Int.fmod_nonneg_of_pos _ h, Int.fmod_lt_of_pos _ h⟩
  · intro h
    rw [Int.fmod_eq_emod]
    have h1 := Int.emod_nonneg (-a) hb
    have h2 := Int.emod_lt (-a) hb
    by_cases hd : b ∣ -a
    · have : (-a) % b = 0 := Int.emod_eq_zero_of_dvd hd
      simp [hd, this]; omega
    · have h3 := Int.emod_pos_of_not_dvd hd
      have : ¬ (0 ≤ b ∨ b ∣ -a) := by omega
      rw [if_neg this]; omega

/-- characterisation of the floored quotient: `a = q*b + r`, `r` between 0 and `b` -/
theorem fdiv_char (a b : Int) (hb : b ≠ 0) :
    ∃ r, a = (a.fdiv b) * b + r ∧ (0 < b → 0 ≤ r ∧ r < b) ∧ (b < 0 → b < r ∧ r ≤ 0) := by
  refine ⟨a.fmod b, ?_, ?_, ?_⟩
  · have := Int.mul_fdiv_add_fmod a b
    rw [Int.mul_comm] at this; omega
  · intro h; exact ⟨Int.fmod_nonneg_of_pos _ h, Int.fmod_lt_of_pos _ h⟩
  · intro h
    rw [Int.fmod_eq_emod]
    have h1 := Int.emod_nonneg a hb
    have h2 := Int.emod_lt a hb
    by_cases hd : b ∣ a
    · have : a % b = 0 := Int.emod_eq_zero_of_dvd hd
      simp [hd, this]; omega
    · have h3 := Int.emod_pos_of_not_dvd hd
      have : ¬ (0 ≤ b ∨ b ∣ a) := by omega
      rw [if_neg this]; omega

/-- a power (exponent ≥ 1) of a value outside the `i64` range is outside the `i64` range -/
theorem pow_big (b : Int) (e : Nat) (he : e ≠ 0)
    (hb : b < -9223372036854775808 ∨ 9223372036854775807 < b) :
    b ^ e < -9223372036854775808 ∨ 9223372036854775807 < b ^ e := by
  have h1 := Int.natAbs_pow b e
  have h2 : b.natAbs ≤ b.natAbs ^ e := Nat.le_self_pow he _
  rcases hb with hb | hb
  · omega
  · have : 0 < b ^ e := Int.pow_pos (by omega)
    omega

theorem neg_one_pow (e : Nat) : (-1 : Int) ^ e = if e % 2 = 0 then 1 else -1 := by
  induction e using Nat.strongRecOn with
  | _ e ih =>
    match e with
    | 0 => rfl
    | 1 => rfl
    | e + 2 =>
      have := ih e (by omega)
      rw [Int.pow_succ, Int.pow_succ, this]
      have : (e + 2) % 2 = e % 2 := by omega
      rw [this]; split <;> rfl

/-- quotient of a value by a divisor of at least its magnitude (`b > 0`): 1 at `x = b`, else 0 or -1 by the sign -/
theorem fdiv_small_pos (x b : Int) (hb : 0 < b) (h1 : -b ≤ x) (h2 : x ≤ b) :
    x.fdiv b = if x = b then 1 else if 0 ≤ x then 0 else -1 := by
  rw [Int.fdiv_eq_ediv_of_nonneg _ (by omega)]
  by_cases e : x = b
  · rw [if_pos e]
    exact ((Int.ediv_emod_unique (r := 0) hb).mpr ⟨by omega, by omega, hb⟩).1
  · rw [if_neg e]
    by_cases h0 : 0 ≤ x
    · rw [if_pos h0]
      exact ((Int.ediv_emod_unique (r := x) hb).mpr ⟨by omega, h0, by omega⟩).1
    · rw [if_neg h0]
      exact ((Int.ediv_emod_unique (r := x + b) hb).mpr ⟨by omega, by omega, by omega⟩).1

theorem fdiv_small_neg (x b : Int) (hb : b < 0) (h1 : b ≤ x) (h2 : x ≤ -b) :
    x.fdiv b = if x = b then 1 else if x ≤ 0 then 0 else -1 := by
  rw [← Int.neg_fdiv_neg, fdiv_small_pos (-x) (-b) (by omega) (by omega) (by omega)]
  by_cases e : x = b
  · rw [if_pos (by omega), if_pos e]
  · rw [if_neg (by omega), if_neg e]
    by_cases h0 : x ≤ 0
    · rw [if_pos (by omega), if_pos h0]
    · rw [if_neg (by omega), if_neg h0]
end XrayModel.Arith
