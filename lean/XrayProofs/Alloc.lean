/-
C09 — helper lemmas: the accounting invariant and its preservation by every event.
-/
import XrayModel.Alloc
namespace XrayModel.Alloc

theorem liveSum_cons (i r : Nat) (l : List (Nat × Nat)) : liveSum ((i, r) :: l) = r + liveSum l := by
  simp [liveSum]

theorem lookup_erase_sum (id : Nat) : ∀ (l : List (Nat × Nat)) (rec : Nat),
    l.lookup id = some rec → liveSum l = rec + liveSum (eraseId id l)
  | [], _, h => by simp [List.lookup] at h
  | (i, r) :: t, rec, h => by
    by_cases hi : i = id
    · subst hi
      simp [List.lookup] at h
      subst h
      simp [eraseId, liveSum_cons]
    · have hne : (id == i) = false := by simpa using (fun h : id = i => hi h.symm)
      simp only [List.lookup, hne] at h
      have ih := lookup_erase_sum id t rec h
      simp only [eraseId, hi, if_false, liveSum_cons, ih]
      omega

/-- the accounting invariant: the accounted total is the baseline plus the recorded sizes of the live values,
    the limit never changes, and (with a limit) the total stays within it -/
structure Inv (base : Nat) (limit : Option Nat) (r : Run) : Prop where
  sum : r.st.size = base + liveSum r.live
  lim : r.st.limit = limit
  within : ∀ L, limit = some L → r.st.size ≤ L
  noUnderflow : r.underflows = 0

theorem allocate_spec (sh : AllocShape) (s : St) (bytes : Nat) :
    (s.limit = none ∧ allocate sh s bytes = (s, .ok 0)) ∨
    (∃ L, s.limit = some L ∧ s.size + bytes > L ∧
      allocate sh s bytes = (if sh.rollsBack then s else { s with size := s.size + bytes }, .violation)) ∨
    (∃ L, s.limit = some L ∧ s.size + bytes ≤ L ∧ allocate sh s bytes = ({ s with size := s.size + bytes }, .ok bytes)) := by
  unfold allocate
  cases hl : s.limit with
  | none => exact Or.inl ⟨rfl, rfl⟩
  | some L =>
    by_cases hgt : s.size + bytes > L
    · exact Or.inr (Or.inl ⟨L, rfl, hgt, by simp [hgt]⟩)
    · exact Or.inr (Or.inr ⟨L, rfl, by omega, by simp [hgt]⟩)

theorem deallocate_spec (s : St) (rec : Nat) :
    (rec = 0 ∧ deallocate s rec = (s, .ok 0)) ∨
    (rec ≠ 0 ∧ rec ≤ s.size ∧ deallocate s rec = ({ s with size := s.size - rec }, .ok 0)) ∨
    (rec ≠ 0 ∧ ¬ rec ≤ s.size ∧ deallocate s rec = (s, .panic)) := by
  unfold deallocate
  by_cases h0 : rec = 0
  · exact Or.inl ⟨h0, by simp [h0]⟩
  · by_cases hle : rec ≤ s.size
    · exact Or.inr (Or.inl ⟨h0, hle, by simp [h0, hle]⟩)
    · exact Or.inr (Or.inr ⟨h0, hle, by simp [h0, hle]⟩)

theorem step_inv (sh : AllocShape) (hsh : sh.rollsBack = true) (base : Nat) (limit : Option Nat)
    (r : Run) (h : Inv base limit r) (e : Ev) : Inv base limit (step sh r e) := by
  obtain ⟨hsum, hlim, hwithin, hunder⟩ := h
  cases e with
  | alloc id bytes =>
    simp only [step]
    rcases allocate_spec sh r.st bytes with ⟨hl, ha⟩ | ⟨L, hl, hgt, ha⟩ | ⟨L, hl, hle, ha⟩
    · rw [ha]
      exact ⟨by simp [liveSum_cons, hsum], hlim, hwithin, hunder⟩
    · rw [ha, hsh]
      exact ⟨hsum, hlim, hwithin, hunder⟩
    · rw [ha]
      have hL : limit = some L := by rw [← hlim, hl]
      refine ⟨by simp [liveSum_cons, hsum]; omega, hlim, ?_, hunder⟩
      intro L' hL'
      rw [hL] at hL'
      injection hL' with hL'
      subst hL'
      exact hle
  | drop id =>
    simp only [step]
    cases hlk : r.live.lookup id with
    | none => exact ⟨hsum, hlim, hwithin, hunder⟩
    | some rec =>
      have hs := lookup_erase_sum id r.live rec hlk
      simp only
      rcases deallocate_spec r.st rec with ⟨h0, hd⟩ | ⟨h0, hle, hd⟩ | ⟨h0, hle, hd⟩
      · rw [hd]
        subst h0
        exact ⟨by simp only; rw [hsum, hs]; simp, hlim, hwithin, hunder⟩
      · rw [hd]
        refine ⟨by simp only; rw [hsum, hs]; omega, hlim, ?_, hunder⟩
        intro L hL
        have := hwithin L hL
        simp only
        omega
      · exact absurd (show rec ≤ r.st.size by rw [hsum, hs]; omega) hle
  | preflight n =>
    simp only [step]
    cases canAllocate r.st n with
    | ok _ => exact ⟨hsum, hlim, hwithin, hunder⟩
    | violation => exact ⟨hsum, hlim, hwithin, hunder⟩
    | panic => exact ⟨hsum, hlim, hwithin, hunder⟩

theorem run_inv (sh : AllocShape) (hsh : sh.rollsBack = true) (base : Nat) (limit : Option Nat) :
    ∀ (evs : List Ev) (r : Run), Inv base limit r → Inv base limit (run sh r evs)
  | [], r, h => h
  | e :: es, r, h => by
    unfold run
    simp only [List.foldl]
    exact run_inv sh hsh base limit es (step sh r e) (step_inv sh hsh base limit r h e)

theorem startAt_inv (base : Nat) (limit : Option Nat) (h : ∀ L, limit = some L → base ≤ L) :
    Inv base limit (startAt base limit) :=
  ⟨by simp [startAt, liveSum], rfl, by intro L hL; exact h L hL, rfl⟩

/-- violations are only ever counted up -/
theorem step_viols_mono (sh : AllocShape) (r : Run) (e : Ev) : r.viols ≤ (step sh r e).viols := by
  cases e with
  | alloc id bytes =>
    simp only [step]
    rcases allocate_spec sh r.st bytes with ⟨_, ha⟩ | ⟨L, _, _, ha⟩ | ⟨L, _, _, ha⟩ <;> rw [ha] <;> simp
  | drop id =>
    simp only [step]
    cases r.live.lookup id with
    | none => exact Nat.le_refl _
    | some rec =>
      simp only
      rcases deallocate_spec r.st rec with ⟨_, hd⟩ | ⟨_, _, hd⟩ | ⟨_, _, hd⟩ <;> rw [hd] <;> simp
  | preflight n =>
    simp only [step]
    cases canAllocate r.st n <;> simp

theorem run_viols_mono (sh : AllocShape) : ∀ (evs : List Ev) (r : Run), r.viols ≤ (run sh r evs).viols
  | [], r => Nat.le_refl _
  | e :: es, r => by
    unfold run
    simp only [List.foldl]
    exact Nat.le_trans (step_viols_mono sh r e) (run_viols_mono sh es (step sh r e))

/-- two runs that differ only in the limit -/
def SameBut (L' : Nat) (r r' : Run) : Prop :=
  r'.st.size = r.st.size ∧ r'.st.limit = some L' ∧ r'.live = r.live ∧ r'.viols = r.viols ∧
  r'.underflows = r.underflows

theorem step_sameBut (sh : AllocShape) (L L' : Nat) (hLL : L ≤ L') (r r' : Run) (hl : r.st.limit = some L)
    (h : SameBut L' r r') (e : Ev) (hv : (step sh r e).viols = r.viols) :
    SameBut L' (step sh r e) (step sh r' e) ∧ (step sh r e).st.limit = some L := by
  obtain ⟨hsz, hl', hlive, hviol, hun⟩ := h
  cases e with
  | alloc id bytes =>
    simp only [step] at hv ⊢
    rcases allocate_spec sh r.st bytes with ⟨hn, _⟩ | ⟨L1, hl1, hgt, ha⟩ | ⟨L1, hl1, hle, ha⟩
    · rw [hl] at hn; cases hn
    · rw [ha] at hv; simp at hv
    · rw [hl] at hl1; injection hl1 with hl1; subst hl1
      rcases allocate_spec sh r'.st bytes with ⟨hn, _⟩ | ⟨L2, hl2, hgt2, _⟩ | ⟨L2, hl2, _, ha2⟩
      · rw [hl'] at hn; cases hn
      · rw [hl'] at hl2; injection hl2 with hl2; subst hl2; rw [hsz] at hgt2; omega
      · rw [ha, ha2]
        exact ⟨⟨by simp [hsz], by simpa using hl', by simp [hlive], hviol, hun⟩, by simpa using hl⟩
  | drop id =>
    simp only [step]
    rw [hlive]
    cases hlk : r.live.lookup id with
    | none => exact ⟨⟨hsz, hl', hlive, hviol, hun⟩, hl⟩
    | some rec =>
      simp only
      rcases deallocate_spec r.st rec with ⟨h0, hd⟩ | ⟨h0, hle, hd⟩ | ⟨h0, hle, hd⟩ <;>
        rcases deallocate_spec r'.st rec with ⟨h0', hd'⟩ | ⟨h0', hle', hd'⟩ | ⟨h0', hle', hd'⟩ <;>
        first
          | (exfalso; omega)
          | (rw [hd, hd']
             exact ⟨⟨by simp [hsz], by simpa using hl', rfl, hviol, by simp [hun]⟩, by simpa using hl⟩)
  | preflight n =>
    simp only [step, canAllocate, hl, hl'] at hv ⊢
    rw [hsz]
    by_cases hgt : min (r.st.size + n) (usizeBound - 1) > L
    · simp [hgt] at hv
    · have hgt' : ¬ min (r.st.size + n) (usizeBound - 1) > L' := by omega
      simp only [hgt, hgt', if_false]
      exact ⟨⟨hsz, hl', hlive, hviol, hun⟩, hl⟩

theorem run_sameBut (sh : AllocShape) (L L' : Nat) (hLL : L ≤ L') :
    ∀ (evs : List Ev) (r r' : Run), r.st.limit = some L → SameBut L' r r' →
      (run sh r evs).viols = r.viols → SameBut L' (run sh r evs) (run sh r' evs)
  | [], r, r', _, h, _ => h
  | e :: es, r, r', hl, h, hv => by
    unfold run at hv ⊢
    simp only [List.foldl] at hv ⊢
    have h1 : r.viols ≤ (step sh r e).viols := step_viols_mono sh r e
    have h2 : (step sh r e).viols ≤ (run sh (step sh r e) es).viols := run_viols_mono sh es _
    unfold run at h2
    have hstep : (step sh r e).viols = r.viols := by omega
    obtain ⟨hs, hl2⟩ := step_sameBut sh L L' hLL r r' hl h e hstep
    exact run_sameBut sh L L' hLL es _ _ hl2 hs (by unfold run; omega)

end XrayModel.Alloc
