/-
The converse half of need-based exactness for the depth and the recursion limit (C08): if the
instrumented counters of the unchecked run `evalI` reach a configured limit, the limited run ends in
a violation.  Configuration: depth and recursion limit each set or not, no call limit
(the call limit has its whole-run iff in `callsAt`).
-/
import XrayProofs.CoreLimitsSim
import Lean
namespace XrayModel.CoreLimitsSim
open XrayModel.Core XrayModel.CoreLimits

/-- depth limit `Ld`, recursion limit `Lr` (each set or not), no call limit -/
def cfgO (tco : Bool) (Ld Lr : Option Nat) : Cfg := { depthLimit := Ld, callLimit := none, recLimit := Lr, tco := tco }

@[simp] theorem cfgO_tco (tco Ld Lr) : (cfgO tco Ld Lr).tco = tco := rfl
@[simp] theorem cfgO_depth (tco Ld Lr) : (cfgO tco Ld Lr).depthLimit = Ld := rfl
@[simp] theorem cfgO_call (tco Ld Lr) : (cfgO tco Ld Lr).callLimit = none := rfl
@[simp] theorem cfgO_rec (tco Ld Lr) : (cfgO tco Ld Lr).recLimit = Lr := rfl

/-- the state of the limited run: the output of the instrumented state, the counter untouched -/
def TO (c0 : Nat) (s : StI) : St := { out := s.out, calls := c0 }
@[simp] theorem TO_out (c0 s) : (TO c0 s).out = s.out := rfl
@[simp] theorem TO_calls (c0 s) : (TO c0 s).calls = c0 := rfl
theorem TO_mk (c0 o c h r) : TO c0 { out := o, calls := c, maxH := h, maxRec := r } = { out := o, calls := c0 } := rfl

def mapTO (c0 : Nat) (p : Res × StI) : Res × St := (p.1, TO c0 p.2)
def mapTOE {α : Type} (c0 : Nat) (p : Except Res α × StI) : Except Res α × St := (p.1, TO c0 p.2)
@[simp] theorem mapTO_mk (c0 r s) : mapTO c0 (r, s) = (r, TO c0 s) := rfl
@[simp] theorem mapTOE_mk {α} (c0) (r : Except Res α) (s) : mapTOE c0 (r, s) = (r, TO c0 s) := rfl

def optLt (a : Nat) : Option Nat → Prop
  | none => True
  | some l => a < l
def optLeN (a : Nat) : Option Nat → Prop
  | none => True
  | some l => a ≤ l

/-- the instrumented counters are below the configured limits: every frame height `<` depth limit,
every tail-iteration count `≤` recursion limit -/
def WithinO (Ld Lr : Option Nat) (s : StI) : Prop := optLt s.maxH Ld ∧ optLeN s.maxRec Lr

/-- half 2 as equations for `cfgO`, from `simI` (all limits set) and `simL` (limits removed) -/
structure SimO (tco : Bool) (Ld Lr : Option Nat) (c0 : Nat) (n : Nat) : Prop where
  eval : ∀ fr e tail s, WithinO Ld Lr (evalI n tco fr e tail s).2 →
    eval n (cfgO tco Ld Lr) fr e tail (TO c0 s) = mapTO c0 (evalI n tco fr e tail s)
  callNamed : ∀ fr f args tail s, WithinO Ld Lr (callNamedI n tco fr f args tail s).2 →
    callNamed n (cfgO tco Ld Lr) fr f args tail (TO c0 s) = mapTO c0 (callNamedI n tco fr f args tail s)
  builtin : ∀ fr f args tail s, WithinO Ld Lr (builtinI n tco fr f args tail s).2 →
    builtin n (cfgO tco Ld Lr) fr f args tail (TO c0 s) = mapTO c0 (builtinI n tco fr f args tail s)
  callVal : ∀ fr c args tail s, WithinO Ld Lr (callValI n tco fr c args tail s).2 →
    callVal n (cfgO tco Ld Lr) fr c args tail (TO c0 s) = mapTO c0 (callValI n tco fr c args tail s)
  evalList : ∀ fr es s, WithinO Ld Lr (evalListI n tco fr es s).2 →
    evalList n (cfgO tco Ld Lr) fr es (TO c0 s) = mapTOE c0 (evalListI n tco fr es s)
  mkClos : ∀ fr f s, WithinO Ld Lr (mkClosI n tco fr f s).2 →
    mkClos n (cfgO tco Ld Lr) fr f (TO c0 s) = mapTO c0 (mkClosI n tco fr f s)
  evalDflts : ∀ fr ps s, WithinO Ld Lr (evalDfltsI n tco fr ps s).2 →
    evalDflts n (cfgO tco Ld Lr) fr ps (TO c0 s) = mapTOE c0 (evalDfltsI n tco fr ps s)
  callUser : ∀ h c args s, WithinO Ld Lr (callUserI n tco h c args s).2 →
    callUser n (cfgO tco Ld Lr) h c args (TO c0 s) = mapTO c0 (callUserI n tco h c args s)
  tramp : ∀ h c args rec s, WithinO Ld Lr (trampI n tco h c args rec s).2 →
    tramp n (cfgO tco Ld Lr) h c args rec (TO c0 s) = mapTO c0 (trampI n tco h c args rec s)
  evalDecls : ∀ fr ds s, WithinO Ld Lr (evalDeclsI n tco fr ds s).2 →
    evalDecls n (cfgO tco Ld Lr) fr ds (TO c0 s) = mapTOE c0 (evalDeclsI n tco fr ds s)

/-- limits for `simI` chosen just above the final counters `s'` where `cfgO` has none -/
theorem weaker_cfgO (tco : Bool) (Ld Lr : Option Nat) (c0 : Nat) (s' : StI) (h : WithinO Ld Lr s') :
    Weaker (cfgL tco (Ld.getD (s'.maxH + 1)) (s'.calls + 1) (Lr.getD s'.maxRec)) (cfgO tco Ld Lr) (fun _ => c0) ∧
    WithinL (Ld.getD (s'.maxH + 1)) (s'.calls + 1) (Lr.getD s'.maxRec) 0 s' := by
  obtain ⟨h1, h2⟩ := h
  refine ⟨⟨rfl, ?_, ?_, ?_⟩, ?_, ?_, ?_⟩
  · cases Ld <;> simp [cfgL, cfgO, optLe]
  · cases Lr <;> simp [cfgL, cfgO, optLe]
  · simp [CallOk, cfgL, cfgO]
  · cases Ld with
    | none => simp
    | some l => simpa [optLt] using h1
  · omega
  · cases Lr with
    | none => simp
    | some l => simpa [optLeN] using h2

theorem simO (tco : Bool) (Ld Lr : Option Nat) (c0 n : Nat) : SimO tco Ld Lr c0 n := by
  have tt : ∀ s : StI, T (fun _ => c0) (TI 0 s) = TO c0 s := fun _ => rfl
  constructor
  · intro fr e tail s h
    obtain ⟨W, hw⟩ := weaker_cfgO tco Ld Lr c0 _ h
    have e1 := (simI tco _ _ _ 0 n).eval fr e tail s hw
    have e2 := (simL W n).eval fr e tail (TI 0 s) (by rw [e1]; exact (noViolI tco n).eval fr e tail s)
    rw [tt, e1] at e2; exact e2
  · intro fr f args tail s h
    obtain ⟨W, hw⟩ := weaker_cfgO tco Ld Lr c0 _ h
    have e1 := (simI tco _ _ _ 0 n).callNamed fr f args tail s hw
    have e2 := (simL W n).callNamed fr f args tail (TI 0 s) (by rw [e1]; exact (noViolI tco n).callNamed fr f args tail s)
    rw [tt, e1] at e2; exact e2
  · intro fr f args tail s h
    obtain ⟨W, hw⟩ := weaker_cfgO tco Ld Lr c0 _ h
    have e1 := (simI tco _ _ _ 0 n).builtin fr f args tail s hw
    have e2 := (simL W n).builtin fr f args tail (TI 0 s) (by rw [e1]; exact (noViolI tco n).builtin fr f args tail s)
    rw [tt, e1] at e2; exact e2
  · intro fr c args tail s h
    obtain ⟨W, hw⟩ := weaker_cfgO tco Ld Lr c0 _ h
    have e1 := (simI tco _ _ _ 0 n).callVal fr c args tail s hw
    have e2 := (simL W n).callVal fr c args tail (TI 0 s) (by rw [e1]; exact (noViolI tco n).callVal fr c args tail s)
    rw [tt, e1] at e2; exact e2
  · intro fr es s h
    obtain ⟨W, hw⟩ := weaker_cfgO tco Ld Lr c0 _ h
    have e1 := (simI tco _ _ _ 0 n).evalList fr es s hw
    have e2 := (simL W n).evalList fr es (TI 0 s) (by rw [e1]; exact (noViolI tco n).evalList fr es s)
    rw [tt, e1] at e2; exact e2
  · intro fr f s h
    obtain ⟨W, hw⟩ := weaker_cfgO tco Ld Lr c0 _ h
    have e1 := (simI tco _ _ _ 0 n).mkClos fr f s hw
    have e2 := (simL W n).mkClos fr f (TI 0 s) (by rw [e1]; exact (noViolI tco n).mkClos fr f s)
    rw [tt, e1] at e2; exact e2
  · intro fr ps s h
    obtain ⟨W, hw⟩ := weaker_cfgO tco Ld Lr c0 _ h
    have e1 := (simI tco _ _ _ 0 n).evalDflts fr ps s hw
    have e2 := (simL W n).evalDflts fr ps (TI 0 s) (by rw [e1]; exact (noViolI tco n).evalDflts fr ps s)
    rw [tt, e1] at e2; exact e2
  · intro hh c args s h
    obtain ⟨W, hw⟩ := weaker_cfgO tco Ld Lr c0 _ h
    have e1 := (simI tco _ _ _ 0 n).callUser hh c args s hw
    have e2 := (simL W n).callUser hh c args (TI 0 s) (by rw [e1]; exact (noViolI tco n).callUser hh c args s)
    rw [tt, e1] at e2; exact e2
  · intro hh c args rec s h
    obtain ⟨W, hw⟩ := weaker_cfgO tco Ld Lr c0 _ h
    have e1 := (simI tco _ _ _ 0 n).tramp hh c args rec s hw
    have e2 := (simL W n).tramp hh c args rec (TI 0 s) (by rw [e1]; exact (noViolI tco n).tramp hh c args rec s)
    rw [tt, e1] at e2; exact e2
  · intro fr ds s h
    obtain ⟨W, hw⟩ := weaker_cfgO tco Ld Lr c0 _ h
    have e1 := (simI tco _ _ _ 0 n).evalDecls fr ds s hw
    have e2 := (simL W n).evalDecls fr ds (TI 0 s) (by rw [e1]; exact (noViolI tco n).evalDecls fr ds s)
    rw [tt, e1] at e2; exact e2

/-! ### the converse -/

theorem withinO_of_le {Ld Lr : Option Nat} {s s' : StI} (hle : StI.le s s') (h : WithinO Ld Lr s') : WithinO Ld Lr s := by
  unfold WithinO StI.le at *
  cases Ld <;> cases Lr <;> simp only [optLt, optLeN, true_and, and_true] at * <;> omega

section monoO
variable {n : Nat} {tco : Bool} {Ld Lr : Option Nat}
theorem mO_eval {fr e tail s} (h : WithinO Ld Lr (evalI n tco fr e tail s).2) : WithinO Ld Lr s :=
  withinO_of_le ((monoAt tco n).eval fr e tail s) h
theorem mO_callNamed {fr f args tail s} (h : WithinO Ld Lr (callNamedI n tco fr f args tail s).2) : WithinO Ld Lr s :=
  withinO_of_le ((monoAt tco n).callNamed fr f args tail s) h
theorem mO_builtin {fr f args tail s} (h : WithinO Ld Lr (builtinI n tco fr f args tail s).2) : WithinO Ld Lr s :=
  withinO_of_le ((monoAt tco n).builtin fr f args tail s) h
theorem mO_callVal {fr c args tail s} (h : WithinO Ld Lr (callValI n tco fr c args tail s).2) : WithinO Ld Lr s :=
  withinO_of_le ((monoAt tco n).callVal fr c args tail s) h
theorem mO_evalList {fr es s} (h : WithinO Ld Lr (evalListI n tco fr es s).2) : WithinO Ld Lr s :=
  withinO_of_le ((monoAt tco n).evalList fr es s) h
theorem mO_mkClos {fr f s} (h : WithinO Ld Lr (mkClosI n tco fr f s).2) : WithinO Ld Lr s :=
  withinO_of_le ((monoAt tco n).mkClos fr f s) h
theorem mO_evalDflts {fr ps s} (h : WithinO Ld Lr (evalDfltsI n tco fr ps s).2) : WithinO Ld Lr s :=
  withinO_of_le ((monoAt tco n).evalDflts fr ps s) h
theorem mO_evalDecls {fr ds s} (h : WithinO Ld Lr (evalDeclsI n tco fr ds s).2) : WithinO Ld Lr s :=
  withinO_of_le ((monoAt tco n).evalDecls fr ds s) h
theorem mO_callUser {h' c args s} (h : WithinO Ld Lr (callUserI n tco h' c args s).2) : WithinO Ld Lr s :=
  withinO_of_le ((monoAt tco n).callUser h' c args s) h
theorem mO_tramp {h' c args rec s} (h : WithinO Ld Lr (trampI n tco h' c args rec s).2) : WithinO Ld Lr s :=
  withinO_of_le ((monoAt tco n).tramp h' c args rec s) h
end monoO

open Lean Elab Tactic Meta in
/-- `mono_facts` for `WithinO` -/
elab "mono_factsO" : tactic => withMainContext do
  let lemmas := #[``mI_eval, ``mI_callNamed, ``mI_builtin, ``mI_callVal, ``mI_evalList, ``mI_mkClos,
    ``mI_evalDflts, ``mI_evalDecls, ``mO_eval, ``mO_callNamed, ``mO_builtin, ``mO_callVal, ``mO_evalList,
    ``mO_mkClos, ``mO_evalDflts, ``mO_evalDecls, ``mO_callUser, ``mO_tramp]
  let mut g ← getMainGoal
  for ldecl in (← getLCtx) do
    if ldecl.isImplementationDetail then continue
    for lem in lemmas do
      let r ← observing? (do
        let pf ← mkAppM lem #[ldecl.toExpr]
        let ty ← inferType pf
        pure (pf, ty))
      match r with
      | some (pf, ty) =>
        let (_, g') ← (← g.assert `hmono ty pf).intro1
        g := g'
        break
      | none => pure ()
  replaceMainGoal [g]

open Lean Elab Tactic Meta in
/-- case-split every instrumented state in the context on `WithinO Ld Lr` -/
elab "cases_withinO" Ld:term:max Lr:term:max : tactic => withMainContext do
  for ldecl in (← getLCtx) do
    if ldecl.isImplementationDetail then continue
    if (← instantiateMVars ldecl.type).isConstOf ``StI then
      let stx ← Term.exprToSyntax ldecl.toExpr
      evalTactic (← `(tactic| all_goals (by_cases (WithinO $Ld $Lr $stx))))

/-- arithmetic side conditions about `WithinO` (the limits being `none` or `some _` literally) -/
macro "within_dischO" : tactic =>
  `(tactic| first
    | (simp only [WithinO, optLt, optLeN, true_and, and_true, not_true_eq_false, not_false_eq_true, decide_eq_true_eq, Nat.not_le, Nat.not_lt, ge_iff_le, gt_iff_lt, Bool.false_eq_true, *] at *; done)
    | (simp only [WithinO, optLt, optLeN, true_and, and_true, not_true_eq_false, not_false_eq_true, decide_eq_true_eq, Nat.not_le, Nat.not_lt, ge_iff_le, gt_iff_lt, Bool.false_eq_true, *] at *; omega))

/-- the converse: the instrumented counters reach a limit ⇒ the limited run is a violation -/
structure VioO (tco : Bool) (Ld Lr : Option Nat) (c0 : Nat) (n : Nat) : Prop where
  eval : ∀ fr e tail s, WithinO Ld Lr s → ¬ WithinO Ld Lr (evalI n tco fr e tail s).2 →
    Res.isViol (eval n (cfgO tco Ld Lr) fr e tail (TO c0 s)).1 = true
  callNamed : ∀ fr f args tail s, WithinO Ld Lr s → ¬ WithinO Ld Lr (callNamedI n tco fr f args tail s).2 →
    Res.isViol (callNamed n (cfgO tco Ld Lr) fr f args tail (TO c0 s)).1 = true
  builtin : ∀ fr f args tail s, WithinO Ld Lr s → ¬ WithinO Ld Lr (builtinI n tco fr f args tail s).2 →
    Res.isViol (builtin n (cfgO tco Ld Lr) fr f args tail (TO c0 s)).1 = true
  callVal : ∀ fr c args tail s, WithinO Ld Lr s → ¬ WithinO Ld Lr (callValI n tco fr c args tail s).2 →
    Res.isViol (callVal n (cfgO tco Ld Lr) fr c args tail (TO c0 s)).1 = true
  evalList : ∀ fr es s, WithinO Ld Lr s → ¬ WithinO Ld Lr (evalListI n tco fr es s).2 →
    exViol (evalList n (cfgO tco Ld Lr) fr es (TO c0 s)).1 = true
  mkClos : ∀ fr f s, WithinO Ld Lr s → ¬ WithinO Ld Lr (mkClosI n tco fr f s).2 →
    Res.isViol (mkClos n (cfgO tco Ld Lr) fr f (TO c0 s)).1 = true
  evalDflts : ∀ fr ps s, WithinO Ld Lr s → ¬ WithinO Ld Lr (evalDfltsI n tco fr ps s).2 →
    exViol (evalDflts n (cfgO tco Ld Lr) fr ps (TO c0 s)).1 = true
  callUser : ∀ h c args s, WithinO Ld Lr s → ¬ WithinO Ld Lr (callUserI n tco h c args s).2 →
    Res.isViol (callUser n (cfgO tco Ld Lr) h c args (TO c0 s)).1 = true
  tramp : ∀ h c args rec s, WithinO Ld Lr s → ¬ WithinO Ld Lr (trampI n tco h c args rec s).2 →
    Res.isViol (tramp n (cfgO tco Ld Lr) h c args rec (TO c0 s)).1 = true
  evalDecls : ∀ fr ds s, WithinO Ld Lr s → ¬ WithinO Ld Lr (evalDeclsI n tco fr ds s).2 →
    exViol (evalDecls n (cfgO tco Ld Lr) fr ds (TO c0 s)).1 = true

section primedO
variable {tco : Bool} {Ld Lr : Option Nat} {c0 n : Nat}
theorem VioO.eval' (ih : VioO tco Ld Lr c0 n) {fr e tail s r st1 rI sI1}
    (heq : Core.eval n (cfgO tco Ld Lr) fr e tail (TO c0 s) = (r, st1)) (heqI : evalI n tco fr e tail s = (rI, sI1))
    (hs : WithinO Ld Lr s) (hn : ¬ WithinO Ld Lr sI1) : Res.isViol r = true := by
  have := ih.eval fr e tail s hs (by rw [heqI]; exact hn); rw [heq] at this; exact this
theorem VioO.evalList' (ih : VioO tco Ld Lr c0 n) {fr es s r st1 rI sI1}
    (heq : Core.evalList n (cfgO tco Ld Lr) fr es (TO c0 s) = (r, st1)) (heqI : evalListI n tco fr es s = (rI, sI1))
    (hs : WithinO Ld Lr s) (hn : ¬ WithinO Ld Lr sI1) : exViol r = true := by
  have := ih.evalList fr es s hs (by rw [heqI]; exact hn); rw [heq] at this; exact this
theorem VioO.evalDflts' (ih : VioO tco Ld Lr c0 n) {fr es s r st1 rI sI1}
    (heq : Core.evalDflts n (cfgO tco Ld Lr) fr es (TO c0 s) = (r, st1)) (heqI : evalDfltsI n tco fr es s = (rI, sI1))
    (hs : WithinO Ld Lr s) (hn : ¬ WithinO Ld Lr sI1) : exViol r = true := by
  have := ih.evalDflts fr es s hs (by rw [heqI]; exact hn); rw [heq] at this; exact this
theorem VioO.mkClos' (ih : VioO tco Ld Lr c0 n) {fr f s r st1 rI sI1}
    (heq : Core.mkClos n (cfgO tco Ld Lr) fr f (TO c0 s) = (r, st1)) (heqI : mkClosI n tco fr f s = (rI, sI1))
    (hs : WithinO Ld Lr s) (hn : ¬ WithinO Ld Lr sI1) : Res.isViol r = true := by
  have := ih.mkClos fr f s hs (by rw [heqI]; exact hn); rw [heq] at this; exact this
theorem VioO.evalDecls' (ih : VioO tco Ld Lr c0 n) {fr ds s r st1 rI sI1}
    (heq : Core.evalDecls n (cfgO tco Ld Lr) fr ds (TO c0 s) = (r, st1)) (heqI : evalDeclsI n tco fr ds s = (rI, sI1))
    (hs : WithinO Ld Lr s) (hn : ¬ WithinO Ld Lr sI1) : exViol r = true := by
  have := ih.evalDecls fr ds s hs (by rw [heqI]; exact hn); rw [heq] at this; exact this
end primedO

section primed2
variable {tco : Bool} {Ld Lr : Option Nat} {c0 n : Nat}
theorem VioO.eval'' (ih : VioO tco Ld Lr c0 n) {fr e tail s r st1}
    (heq : Core.eval n (cfgO tco Ld Lr) fr e tail (TO c0 s) = (r, st1))
    (hs : WithinO Ld Lr s) (hn : ¬ WithinO Ld Lr (evalI n tco fr e tail s).2) : Res.isViol r = true := by
  have := ih.eval fr e tail s hs hn; rw [heq] at this; exact this
theorem VioO.evalList'' (ih : VioO tco Ld Lr c0 n) {fr es s r st1}
    (heq : Core.evalList n (cfgO tco Ld Lr) fr es (TO c0 s) = (r, st1))
    (hs : WithinO Ld Lr s) (hn : ¬ WithinO Ld Lr (evalListI n tco fr es s).2) : exViol r = true := by
  have := ih.evalList fr es s hs hn; rw [heq] at this; exact this
theorem VioO.evalDflts'' (ih : VioO tco Ld Lr c0 n) {fr es s r st1}
    (heq : Core.evalDflts n (cfgO tco Ld Lr) fr es (TO c0 s) = (r, st1))
    (hs : WithinO Ld Lr s) (hn : ¬ WithinO Ld Lr (evalDfltsI n tco fr es s).2) : exViol r = true := by
  have := ih.evalDflts fr es s hs hn; rw [heq] at this; exact this
theorem VioO.mkClos'' (ih : VioO tco Ld Lr c0 n) {fr f s r st1}
    (heq : Core.mkClos n (cfgO tco Ld Lr) fr f (TO c0 s) = (r, st1))
    (hs : WithinO Ld Lr s) (hn : ¬ WithinO Ld Lr (mkClosI n tco fr f s).2) : Res.isViol r = true := by
  have := ih.mkClos fr f s hs hn; rw [heq] at this; exact this
theorem VioO.evalDecls'' (ih : VioO tco Ld Lr c0 n) {fr ds s r st1}
    (heq : Core.evalDecls n (cfgO tco Ld Lr) fr ds (TO c0 s) = (r, st1))
    (hs : WithinO Ld Lr s) (hn : ¬ WithinO Ld Lr (evalDeclsI n tco fr ds s).2) : exViol r = true := by
  have := ih.evalDecls fr ds s hs hn; rw [heq] at this; exact this
end primed2

set_option hygiene false in
/-- the two side goals of an application of the induction hypothesis -/
macro "ihside" : tactic => `(tactic| first | assumption | (simp only [*]; done) | (simp_all; done))

set_option hygiene false in
macro "armV" : tactic => `(tactic| first
  | (refine ih.eval _ _ _ _ ?_ ?_ <;> ihside)
  | (refine ih.evalList _ _ _ ?_ ?_ <;> ihside)
  | (refine ih.evalDflts _ _ _ ?_ ?_ <;> ihside)
  | (refine ih.mkClos _ _ _ ?_ ?_ <;> ihside)
  | (refine ih.evalDecls _ _ _ ?_ ?_ <;> ihside)
  | (have hv := ih.eval' (by assumption) (by assumption) (by assumption) (by assumption); first | (simp at hv; done) | simpa using hv)
  | (have hv := ih.evalList' (by assumption) (by assumption) (by assumption) (by assumption); first | (simp at hv; done) | simpa using hv)
  | (have hv := ih.evalDflts' (by assumption) (by assumption) (by assumption) (by assumption); first | (simp at hv; done) | simpa using hv)
  | (have hv := ih.mkClos' (by assumption) (by assumption) (by assumption) (by assumption); first | (simp at hv; done) | simpa using hv)
  | (have hv := ih.evalDecls' (by assumption) (by assumption) (by assumption) (by assumption); first | (simp at hv; done) | simpa using hv)
  | (have hv := ih.eval'' (by assumption) (by assumption) (by assumption); first | (simp at hv; done) | simpa using hv)
  | (have hv := ih.evalList'' (by assumption) (by assumption) (by assumption); first | (simp at hv; done) | simpa using hv)
  | (have hv := ih.evalDflts'' (by assumption) (by assumption) (by assumption); first | (simp at hv; done) | simpa using hv)
  | (have hv := ih.mkClos'' (by assumption) (by assumption) (by assumption); first | (simp at hv; done) | simpa using hv)
  | (have hv := ih.evalDecls'' (by assumption) (by assumption) (by assumption); first | (simp at hv; done) | simpa using hv))

set_option hygiene false in
macro "leafV" : tactic => `(tactic| first
  | (exfalso; within_dischO)
  | ((try simp only [])
     (try simp (disch := within_dischO) [S.eval, S.evalList, S.mkClos, S.evalDflts, S.callVal, TO_mk, *])
     first
       | done
       | (refine ih.eval _ _ _ _ ?_ ?_ <;> ihside)
       | (refine ih.callNamed _ _ _ _ _ ?_ ?_ <;> ihside)
       | (refine ih.builtin _ _ _ _ _ ?_ ?_ <;> ihside)
       | (refine ih.callVal _ _ _ _ _ ?_ ?_ <;> ihside)
       | (refine ih.evalList _ _ _ ?_ ?_ <;> ihside)
       | (refine ih.mkClos _ _ _ ?_ ?_ <;> ihside)
       | (refine ih.evalDflts _ _ _ ?_ ?_ <;> ihside)
       | (refine ih.callUser _ _ _ _ ?_ ?_ <;> ihside)
       | (refine ih.evalDecls _ _ _ ?_ ?_ <;> ihside)
       | (split <;> armV)))


theorem vioO_zero (tco Ld Lr c0) : VioO tco Ld Lr c0 0 := by
  constructor <;> intros <;> simp_all [evalI, callNamedI, builtinI, callValI, evalListI, mkClosI, evalDfltsI, callUserI, trampI, evalDeclsI]

set_option hygiene false in
macro "vio_auto" Ld:term:max Lr:term:max : tactic => `(tactic| (
  repeat' split at h
  all_goals mono_factsO
  all_goals cases_withinO $Ld $Lr
  all_goals leafV))

set_option hygiene false in
macro "tramp_rest" Ld:term:max Lr:term:max : tactic => `(tactic| (
  rw [show TO c0 s = TO c0 { out := s.out, calls := s.calls, maxH := max s.maxH (hh + 1), maxRec := s.maxRec } from rfl]
  have hs1 : WithinO $Ld $Lr { out := s.out, calls := s.calls, maxH := max s.maxH (hh + 1), maxRec := s.maxRec } := by
    within_dischO
  repeat' split at h
  all_goals mono_factsO
  all_goals cases_withinO $Ld $Lr
  all_goals try (first
    | (exfalso; within_dischO)
    | (simp (disch := within_dischO) [S.evalDecls, S.eval, *]
       first
         | done
         | (refine ih.eval _ _ _ _ ?_ ?_ <;> ihside)
         | (split <;> armV)
         | (split <;> first
             | rfl
             | (have hv := ih.tramp _ _ _ _ _ (by within_dischO) h; exact hv))
         | (have hv := ih.tramp _ _ _ _ _ (by within_dischO) h; exact hv)))))

set_option hygiene false in
macro "vio_script" Ld:term:max Lr:term:max " with " d:tactic : tactic => `(tactic| (
  have S := simO tco $Ld $Lr c0 n
  constructor
  case builtin =>
    intro fr f args tail s hs h
    simp only [builtin, builtinI] at h ⊢
    vio_auto $Ld $Lr
  case callNamed =>
    intro fr f args tail s hs h
    simp only [callNamed, callNamedI] at h ⊢
    vio_auto $Ld $Lr
  case callVal =>
    intro fr c args tail s hs h
    simp only [callVal, callValI] at h ⊢
    vio_auto $Ld $Lr
  case evalList =>
    intro fr es s hs h
    simp only [evalList, evalListI] at h ⊢
    vio_auto $Ld $Lr
  case mkClos =>
    intro fr f s hs h
    simp only [mkClos, mkClosI] at h ⊢
    vio_auto $Ld $Lr
  case evalDflts =>
    intro fr ps s hs h
    simp only [evalDflts, evalDfltsI] at h ⊢
    vio_auto $Ld $Lr
  case evalDecls =>
    intro fr ds s hs h
    simp only [evalDecls, evalDeclsI] at h ⊢
    vio_auto $Ld $Lr
  case eval =>
    intro fr e tail s hs h
    cases e
    case call f args =>
      simp only [eval, evalI, cfgO_tco] at h ⊢
      cases hsf : fr.self with
      | none => simp only [hsf] at h ⊢; exact ih.callNamed _ _ _ _ _ hs h
      | some p =>
        obtain ⟨name, c⟩ := p
        simp only [hsf] at h ⊢
        by_cases h1 : (decide (f = name) && (lookup f fr.env).isNone) = true
        · simp only [h1, if_true] at h ⊢
          by_cases h2 : (tail && tco) = true
          · simp only [h2, if_true] at h ⊢
            have hx : ¬ WithinO $Ld $Lr (evalListI n tco fr args s).2 := by
              revert h; rcases evalListI n tco fr args s with ⟨r, s'⟩; cases r <;> simp
            have hv := ih.evalList fr args s hs hx
            revert hv
            rcases evalList n (cfgO tco $Ld $Lr) fr args (TO c0 s) with ⟨r, s'⟩
            cases r <;> simp
          · simp only [h2] at h ⊢; exact ih.callVal _ _ _ _ _ hs h
        · simp only [h1] at h ⊢; exact ih.callNamed _ _ _ _ _ hs h
    all_goals simp only [eval, evalI] at h ⊢
    all_goals vio_auto $Ld $Lr
  case callUser =>
    intro hh c args s hs h
    simp only [callUser, callUserI, cfgO_call] at h ⊢
    cases he : firstErr args with
    | some e => simp only [he] at h; exact absurd hs h
    | none =>
      simp only [he] at h ⊢
      exact ih.tramp hh c args 0 { s with calls := s.calls + 1 } hs h
  case tramp =>
    intro hh c args rec s hs h
    cases c
    case clos f d env =>
      simp only [tramp, trampI, cfgO_depth, cfgO_rec] at h ⊢
      cases hn : f.name <;> simp only [hn] at h ⊢
      all_goals (($d:tactic))
    all_goals (simp only [trampI] at h; exact absurd hs h)))

set_option maxHeartbeats 4000000 in
theorem vioO_succ {tco Ld Lr c0 n} (ih : VioO tco Ld Lr c0 n) : VioO tco Ld Lr c0 (n + 1) := by
  rcases Ld with _ | ld <;> rcases Lr with _ | lr
  · vio_script none none with
      (simp only [Bool.false_eq_true, if_false]
       tramp_rest none none)
  · vio_script none (some lr) with
      (simp only [Bool.false_eq_true, if_false]
       tramp_rest none (some lr))
  · vio_script (some ld) none with
      (by_cases hge : hh + 1 ≥ ld
       · simp [hge]
       · (simp only [hge, decide_false, Bool.false_eq_true, if_false]
          tramp_rest (some ld) none))
  · vio_script (some ld) (some lr) with
      (by_cases hge : hh + 1 ≥ ld
       · simp [hge]
       · (simp only [hge, decide_false, Bool.false_eq_true, if_false]
          tramp_rest (some ld) (some lr)))

theorem vioO (tco : Bool) (Ld Lr : Option Nat) (c0 n : Nat) : VioO tco Ld Lr c0 n := by
  induction n with
  | zero => exact vioO_zero _ _ _ _
  | succ n ih => exact vioO_succ ih

/-- a violation whose kind is neither `b` nor `c` is of the third kind -/
theorem viol_of_isViol {r : Res} (hv : Res.isViol r = true) : ∃ k, r = .viol k := by
  cases r with
  | viol k => exact ⟨k, rfl⟩
  | _ => simp [Res.isViol] at hv

theorem viol_of_exViol {α} {x : Except Res α} (hv : exViol x = true) : ∃ k, x = .error (.viol k) := by
  cases x with
  | ok a => simp [exViol] at hv
  | error r =>
    cases r with
    | viol k => exact ⟨k, rfl⟩
    | _ => simp [exViol, Res.isViol] at hv

end XrayModel.CoreLimitsSim
